package main

// The two-party harness: two real otr.Conversation objects joined by a queue of
// in-flight messages that the check controls. One execution = one run of the
// script with every environment decision taken from a vf.Chooser (entry 0 = the
// default, well-behaved answer).

import (
	"bytes"
	"fmt"
	"strings"

	"golang.org/x/crypto/otr"
	"verif/ref/otrref"
	"verif/vf"
)

// script phases (a fault menu is offered per phase)
const (
	phAKE = iota
	phData
	phSMP
	phPost
	phEnd
	phSecond
	nPhases
)

var phaseName = [...]string{"ake", "data", "smp", "post", "end", "second"}

// passOpts selects the script variant and the menus of one exploration pass.
type passOpts struct {
	name           string
	withSMP        bool
	faultPhase     [nPhases]bool // phases whose messages get a fault menu
	subOffsets     int           // substitution offsets per logical message
	fragOps        bool          // piece-level dup/drop/swap when a message is fragmented
	benign         bool          // offer the benign choices (fragment sizes, simultaneous start, secrets, ...)
	smpChoicesOnly bool          // of the benign choices offer only the SMP ones (secret class, question, restart)
	bound          int
	// fixed benign settings used when the pass does not offer the choice (indices into the menus)
	fixFragA, fixFragB int
}

var fragSizes = []int{0, 18, 19, 50, 200}

type party struct {
	name             string
	idx              int
	conv             *otr.Conversation
	key              *otr.PrivateKey
	reasm            otrref.Reassembler
	secret           []byte
	sent             [][]byte // plaintexts given to Send while encrypted, in order
	gotIdx           int      // deliveries from the peer so far cover peer.sent[:gotIdx] (delivered or skipped)
	got              int      // number of encrypted plaintexts delivered to this party
	newKeys          int
	needed           int
	complete, failed int
	ended            int
	lastErr          string
}

// lmsg is one logical message in flight: the result of one encode call.
type lmsg struct {
	to      int
	pieces  [][]byte
	whole   []byte // what the pieces carry
	kind    int    // otrref.Type of the decoded body, -2 = not an encoded message
	phase   int
	genuine bool
}

type exec struct {
	c       *vf.Ctx
	ch      *vf.Chooser
	o       *passOpts
	p       [2]*party
	q       []*lmsg
	reg     map[string]*lmsg // every encoded message the real conversations produced
	regData []*lmsg

	phase        int
	netFault     int // dup/drop/swap/substitution/piece-level deviations taken
	abort        int
	secClass     int
	devs         []string
	trace        []string
	dead         bool
	abortDone    bool
	noAnswer     bool // SMPSecretNeeded is not answered (the user has not typed the secret yet)
	withQuestion bool
	pieces       int
	pieceCap     int // guard against message storms (0 = unlimited)
	trans        int
	states       map[string]struct{}
	wire         []*lmsg // every logical message emitted, in order (recording)
	stopAt       int     // stop just before delivering this logical message (counted from 0); -1 = never
	nLogical     int
	stopped      *lmsg    // the message that was about to be delivered when the execution stopped
	firstCommit  [2]*lmsg // first DH commit of each side (SYN-crossing rule)
	firstKeyFrom int      // who sent the first DH key message (-1: nobody yet)

	viol []violation
}

type violation struct {
	class  string
	detail map[string]any
}

func (e *exec) fail(class string, extra map[string]any) {
	d := map[string]any{"pass": e.o.name, "deviations": append([]string(nil), e.devs...), "trace_tail": tail(e.trace, 14)}
	if e.ch != nil {
		d["choices"] = append([]int(nil), e.ch.C...)
	}
	for k, v := range extra {
		d[k] = v
	}
	e.viol = append(e.viol, violation{class, d})
}

func tail(s []string, n int) []string {
	if len(s) > n {
		s = s[len(s)-n:]
	}
	return append([]string(nil), s...)
}

func (e *exec) logf(f string, a ...any) {
	if len(e.trace) < 4000 {
		e.trace = append(e.trace, fmt.Sprintf(f, a...))
	}
}

func newExec(c *vf.Ctx, ch *vf.Chooser, o *passOpts, label string) *exec {
	e := &exec{c: c, ch: ch, o: o, reg: map[string]*lmsg{}, states: map[string]struct{}{}, stopAt: -1, firstKeyFrom: -1, pieceCap: 60000}
	for i := 0; i < 2; i++ {
		e.p[i] = &party{idx: i, name: string(rune('A' + i)), key: dsaKeys[i]}
		e.p[i].conv = &otr.Conversation{PrivateKey: dsaKeys[i], Rand: newDetRand(label + "/" + e.p[i].name)}
	}
	return e
}

func (e *exec) choose(n int, name func(k int) string) int {
	k := e.ch.Choose(n)
	if k != 0 {
		e.devs = append(e.devs, name(k))
	}
	return k
}

// ---------------------------------------------------------------------------
// classification helpers
// ---------------------------------------------------------------------------

func kindOf(whole []byte) int {
	bin, ok := otrref.Decode(whole)
	if !ok {
		return -2
	}
	return otrref.Type(bin)
}

func kindName(k int) string {
	switch k {
	case -2:
		return "plain"
	case otrref.TypeDHCommit:
		return "commit"
	case otrref.TypeDHKey:
		return "dhkey"
	case otrref.TypeRevealSig:
		return "reveal"
	case otrref.TypeSig:
		return "sig"
	case otrref.TypeData:
		return "data"
	}
	return fmt.Sprintf("type%d", k)
}

// group splits the result of a Send/Receive/Authenticate/End call into logical
// messages (an unfragmented message, or the n pieces of one fragmented message).
func group(out [][]byte) (ms []*lmsg, malformed string) {
	for i := 0; i < len(out); {
		k, n, piece, res := otrref.ParseFragment(out[i])
		if res == otrref.NotFragment {
			ms = append(ms, &lmsg{pieces: [][]byte{out[i]}, whole: out[i]})
			i++
			continue
		}
		if res != otrref.Stored || k != 1 || i+n > len(out) {
			return ms, fmt.Sprintf("output %d is not the first piece of a complete fragment run: %.40q", i, out[i])
		}
		m := &lmsg{}
		whole := append([]byte(nil), piece...)
		m.pieces = append(m.pieces, out[i])
		for j := 2; j <= n; j++ {
			kj, nj, pj, rj := otrref.ParseFragment(out[i+j-1])
			if rj != otrref.Stored || kj != j || nj != n {
				return ms, fmt.Sprintf("piece %d of %d has header (%d,%d): %.40q", j, n, kj, nj, out[i+j-1])
			}
			whole = append(whole, pj...)
			m.pieces = append(m.pieces, out[i+j-1])
		}
		m.whole = whole
		ms = append(ms, m)
		i += n
	}
	return ms, ""
}

// emit queues what party `from` produced for its peer.
func (e *exec) emit(from int, out [][]byte, what string) {
	if len(out) == 0 {
		return
	}
	ms, bad := group(out)
	if bad != "" {
		e.fail("output is not a sequence of well-formed fragment runs", map[string]any{"what": what, "problem": bad})
	}
	fs := e.p[from].conv.FragmentSize
	for _, m := range ms {
		m.to = 1 - from
		m.phase = e.phase
		m.kind = kindOf(m.whole)
		m.genuine = true
		e.reg[string(m.whole)] = m
		if m.kind == otrref.TypeData {
			e.regData = append(e.regData, m)
		}
		if m.kind == otrref.TypeDHCommit && e.firstCommit[from] == nil {
			e.firstCommit[from] = m
		}
		if m.kind == otrref.TypeDHKey && e.firstKeyFrom < 0 {
			e.firstKeyFrom = from
		}
		e.wire = append(e.wire, m)
		e.q = append(e.q, m)
		if fs > 18 && m.kind != -2 {
			for _, p := range m.pieces {
				if len(p) > fs {
					e.fail("a produced message is longer than FragmentSize", map[string]any{"fragment_size": fs, "len": len(p), "what": what})
				}
			}
		}
		e.logf("%s emits %s (%d bytes, %d piece(s)) [%s]", e.p[from].name, kindName(m.kind), len(m.whole), len(m.pieces), what)
	}
}

var b64alpha = "ABCDEFGHIJKLMNOPQRSTUVWXYZabcdefghijklmnopqrstuvwxyz0123456789+/"

// substitute is the byte substitution of the environment menu: a base64 character
// becomes the next character of the alphabet (so that the change survives decoding
// and reaches the parser / MAC), anything else has its low bit flipped.
func substitute(b byte) byte {
	if i := strings.IndexByte(b64alpha, b); i >= 0 {
		return b64alpha[(i+1)%64]
	}
	return b ^ 1
}

// ---------------------------------------------------------------------------
// delivery
// ---------------------------------------------------------------------------

func (e *exec) altNames(m *lmsg) []string {
	alts := []string{"deliver"}
	if !e.o.faultPhase[m.phase] {
		return alts
	}
	alts = append(alts, "twice", "drop")
	for _, s := range e.q {
		if s.to == m.to {
			alts = append(alts, "swap")
			break
		}
	}
	total := 0
	for _, p := range m.pieces {
		total += len(p)
	}
	last := -1
	for j := 0; j < e.o.subOffsets; j++ {
		if off := j * total / e.o.subOffsets; off != last { // distinct offsets only (short messages)
			alts = append(alts, fmt.Sprintf("sub@%d", off))
			last = off
		}
	}
	if e.o.fragOps && len(m.pieces) > 1 {
		alts = append(alts, "piece-dup-first", "piece-dup-mid", "piece-drop-first", "piece-drop-mid", "piece-drop-last", "piece-swap-first", "piece-swap-mid")
	}
	return alts
}

func (e *exec) pump() {
	for len(e.q) > 0 && !e.dead {
		m := e.q[0]
		if e.nLogical == e.stopAt {
			e.stopped, e.dead = m, true
			return
		}
		e.nLogical++
		e.q = e.q[1:]
		alts := e.altNames(m)
		k := 0
		if len(alts) > 1 {
			k = e.choose(len(alts), func(k int) string {
				return fmt.Sprintf("%s:%s->%s:%s", phaseName[m.phase], kindName(m.kind), e.p[m.to].name, alts[k])
			})
		}
		a := alts[k]
		if k != 0 {
			e.netFault++
		}
		mid := len(m.pieces) / 2
		switch {
		case a == "deliver":
			e.deliverAll(m, m.pieces)
		case a == "twice":
			e.deliverAll(m, m.pieces)
			e.deliverAll(m, m.pieces)
		case a == "drop":
			e.logf("dropped %s to %s", kindName(m.kind), e.p[m.to].name)
		case a == "swap":
			for i, s := range e.q {
				if s.to == m.to {
					e.q = append(e.q[:i:i], e.q[i+1:]...)
					e.deliverAll(s, s.pieces)
					break
				}
			}
			e.deliverAll(m, m.pieces)
		case strings.HasPrefix(a, "sub@"):
			var off int
			fmt.Sscanf(a, "sub@%d", &off)
			ps := make([][]byte, len(m.pieces))
			for i, p := range m.pieces {
				if off >= 0 && off < len(p) {
					q := append([]byte(nil), p...)
					q[off] = substitute(q[off])
					ps[i] = q
					off = -1
				} else {
					ps[i] = p
					if off >= 0 {
						off -= len(p)
					}
				}
			}
			e.deliverAll(m, ps)
		case a == "piece-dup-first":
			e.deliverAll(m, append([][]byte{m.pieces[0]}, m.pieces...))
		case a == "piece-dup-mid":
			ps := append([][]byte(nil), m.pieces[:mid+1]...)
			ps = append(ps, m.pieces[mid:]...)
			e.deliverAll(m, ps)
		case a == "piece-drop-first":
			e.deliverAll(m, m.pieces[1:])
		case a == "piece-drop-mid":
			ps := append([][]byte(nil), m.pieces[:mid]...)
			e.deliverAll(m, append(ps, m.pieces[mid+1:]...))
		case a == "piece-drop-last":
			e.deliverAll(m, m.pieces[:len(m.pieces)-1])
		case a == "piece-swap-first":
			ps := append([][]byte(nil), m.pieces...)
			ps[0], ps[1] = ps[1], ps[0]
			e.deliverAll(m, ps)
		case a == "piece-swap-mid":
			ps := append([][]byte(nil), m.pieces...)
			i := mid
			if i+1 >= len(ps) {
				i = len(ps) - 2
			}
			ps[i], ps[i+1] = ps[i+1], ps[i]
			e.deliverAll(m, ps)
		}
	}
}

func (e *exec) deliverAll(m *lmsg, pieces [][]byte) {
	for _, p := range pieces {
		if e.dead {
			return
		}
		e.deliver(m, p)
	}
}

type recvResult struct {
	out      []byte
	enc      bool
	change   otr.SecurityChange
	toSend   [][]byte
	err      error
	panicked bool
	pval     any
	stack    string
}

// protectedReceive calls Receive the way a caller that owns its buffers does: the input is a
// private copy (exact capacity) that is overwritten as soon as Receive has returned, and the
// returned plaintext and reply slices are copied out and then overwritten as well. Whatever the
// Conversation needs later (fragment store, saved SMP message, keys) must not live in them.
func protectedReceive(c *otr.Conversation, in []byte) (r recvResult) {
	priv := append(make([]byte, 0, len(in)), in...)
	r.panicked, r.pval, r.stack = vf.Protect(func() {
		out, enc, change, toSend, err := c.Receive(priv)
		r.out, r.toSend = cloneBytes(out), cloneAll(toSend)
		r.enc, r.change, r.err = enc, change, err
		clobberAll(toSend)
		clobber(out)
	})
	clobber(priv)
	return
}

func clobber(b []byte) {
	for i := range b {
		b[i] ^= 0xFF
	}
}

func clobberAll(bs [][]byte) {
	for _, b := range bs {
		clobber(b)
	}
}

func cloneBytes(b []byte) []byte {
	if b == nil {
		return nil
	}
	return append(make([]byte, 0, len(b)), b...)
}

func cloneAll(bs [][]byte) [][]byte {
	if bs == nil {
		return nil
	}
	out := make([][]byte, len(bs))
	for i, b := range bs {
		out[i] = cloneBytes(b)
	}
	return out
}

// otrFrames names the innermost frames of package otr on a panic stack.
func otrFrames(stack string) string {
	var fr []string
	for _, ln := range strings.Split(stack, "\n") {
		if i := strings.Index(ln, "golang.org/x/crypto/otr."); i == 0 {
			f := ln[len("golang.org/x/crypto/"):]
			if j := strings.LastIndex(f, "("); j > 0 {
				f = f[:j]
			}
			fr = append(fr, f)
			if len(fr) == 2 {
				break
			}
		}
	}
	return strings.Join(fr, " < ")
}

func stateKey(c *otr.Conversation) string {
	s := c.VerifC47State()
	return fmt.Sprintf("%d.%d.%d.%d.%d.f%v.g%v%v.s%v.u%d", s.State, s.AuthState, s.SMPState, s.MyKeyID, s.TheirKeyID, s.FragN > 0, s.HaveGX, s.HaveGY, s.SMPSaved, s.UsedSlots)
}

// ctrlKey is stateKey without the key-slot cache (a data message that fails its MAC
// may already have populated a slot; that is not a change of control state).
func ctrlKey(c *otr.Conversation) string {
	s := c.VerifC47State()
	return fmt.Sprintf("%d.%d.%d.%d.%d.f%v.g%v%v.s%v", s.State, s.AuthState, s.SMPState, s.MyKeyID, s.TheirKeyID, s.FragN > 0, s.HaveGX, s.HaveGY, s.SMPSaved)
}

func (e *exec) noteState() {
	e.states[stateKey(e.p[0].conv)+"|"+stateKey(e.p[1].conv)] = struct{}{}
}

// panicClass names a panic by its message and the innermost otr frames; a panic
// inside encode also names the FragmentSize in force.
func panicClass(what string, pval any, stack string, conv *otr.Conversation) string {
	fr := otrFrames(stack)
	cls := fmt.Sprintf("%s panics: %v [%s]", what, pval, fr)
	if conv != nil && strings.HasPrefix(fr, "otr.(*Conversation).encode") {
		cls += fmt.Sprintf(" with FragmentSize=%d", conv.FragmentSize)
	}
	return cls
}

func (e *exec) panicked(what string, pval any, stack string, conv *otr.Conversation, extra map[string]any) {
	e.dead = true
	d := map[string]any{"panic": fmt.Sprint(pval), "stack": firstLines(stack, 30)}
	for k, v := range extra {
		d[k] = v
	}
	e.fail(panicClass(what, pval, stack, conv), d)
}

func firstLines(s string, n int) string {
	l := strings.Split(s, "\n")
	if len(l) > n {
		l = l[:n]
	}
	return strings.Join(l, "\n")
}

// deliver hands one wire piece (possibly modified) of logical message m to its
// addressee and applies the per-call oracle.
func (e *exec) deliver(m *lmsg, piece []byte) {
	e.pieces++
	if e.pieceCap > 0 && e.pieces > e.pieceCap {
		e.dead = true
		e.c.Capped(fmt.Sprintf("an execution exceeded %d delivered pieces", e.pieceCap))
		return
	}
	to := e.p[m.to]
	peer := e.p[1-m.to]
	wasEnc := to.conv.IsEncrypted()

	// what the specification's reassembly does with this piece
	fres, assembled := to.reasm.Feed(piece)
	var eff []byte // the message the receiver has to process now, if any
	switch fres {
	case otrref.NotFragment:
		eff = piece
	case otrref.Complete:
		eff = assembled
	}

	r := protectedReceive(to.conv, piece)
	e.trans++
	if r.panicked {
		e.panicked("Receive", r.pval, r.stack, to.conv, map[string]any{"input": clip(piece), "receiver": to.name, "message": kindName(m.kind)})
		return
	}
	if r.err != nil {
		to.lastErr = r.err.Error()
	}
	if fres != otrref.Stored || r.err != nil || len(r.out) != 0 {
		e.noteState()
		e.logf("%s <- %s %s: out=%d enc=%v change=%d send=%d err=%v", to.name, kindName(m.kind), fres, len(r.out), r.enc, r.change, len(r.toSend), r.err)
	}

	// (1) pieces that the reassembly rules store or forget are not processed at all
	if fres == otrref.Stored || fres == otrref.Forgotten || fres == otrref.Illegal {
		if len(r.out) != 0 || r.enc || r.change != otr.NoChange || len(r.toSend) != 0 || (r.err != nil && fres != otrref.Illegal) {
			e.fail("a fragment piece that the reassembly rules only store or forget was processed as a message", map[string]any{
				"piece": clip(piece), "model": fres.String(), "out": clip(r.out), "change": int(r.change), "err": fmt.Sprint(r.err)})
		}
	}
	if fres != otrref.NotFragment {
		s := to.conv.VerifC47State()
		if s.FragK != to.reasm.K || s.FragN != to.reasm.N {
			e.fail("fragment cursor (k,n) differs from the specification's reassembly state", map[string]any{
				"piece": clip(piece), "model": fres.String(), "impl_k": s.FragK, "impl_n": s.FragN, "model_k": to.reasm.K, "model_n": to.reasm.N})
		}
	}

	// (2) is the message being processed one that the peer really produced?
	var g *lmsg
	if eff != nil {
		g = e.reg[string(eff)]
		if g == nil && m.kind == otrref.TypeData {
			if bin, ok := otrref.Decode(eff); ok {
				if orig, ok2 := otrref.Decode(m.whole); ok2 && otrref.SameAuthenticated(orig, bin) {
					g = m
				}
			}
		}
	}
	modified := eff != nil && g == nil

	// (3) plaintext delivery: only what the peer sent, once, in order
	if r.enc && len(r.out) > 0 {
		if modified {
			e.fail("a modified data message delivered a plaintext", map[string]any{"input": clip(eff), "out": clip(r.out)})
		} else {
			found := -1
			for j := to.gotIdx; j < len(peer.sent); j++ {
				if bytes.Equal(peer.sent[j], r.out) {
					found = j
					break
				}
			}
			if found < 0 {
				why := "was never sent"
				for j := 0; j < to.gotIdx && j < len(peer.sent); j++ {
					if bytes.Equal(peer.sent[j], r.out) {
						why = "was already delivered or overtaken (replay / reordering accepted)"
					}
				}
				e.fail("Receive delivered an encrypted plaintext that "+why, map[string]any{"out": clip(r.out), "receiver": to.name})
			} else {
				to.gotIdx = found + 1
				to.got++
			}
		}
	}

	// (4) a modified data message is rejected
	if modified && m.kind == otrref.TypeData && wasEnc {
		bin, decodable := otrref.Decode(eff)
		if otrref.IsEncoded(eff) {
			if r.change != otr.NoChange || len(r.toSend) != 0 {
				e.fail("a modified data message caused a security change or a reply", map[string]any{"input": clip(eff), "change": int(r.change), "replies": len(r.toSend)})
			}
			stillData := decodable && otrref.Type(bin) == otrref.TypeData
			lenient := decodable && (!stillData || (len(bin) > 3 && bin[3]&1 != 0)) // other type, or IGNORE_UNREADABLE set by the change
			if !lenient && r.err == nil {
				e.fail("a modified data message was not rejected with an error", map[string]any{"input": clip(eff)})
			}
		}
	}

	// (5) security changes
	switch r.change {
	case otr.NewKeys:
		to.newKeys++
		pk := &to.conv.TheirPublicKey
		want := &peer.key.PublicKey
		if !to.conv.IsEncrypted() || pk.P == nil || pk.P.Cmp(want.P) != 0 || pk.Q.Cmp(want.Q) != 0 || pk.G.Cmp(want.G) != 0 || pk.Y.Cmp(want.Y) != 0 {
			e.fail("NewKeys reported with a TheirPublicKey that is not the peer's key (or not encrypted)", map[string]any{"receiver": to.name})
		}
	case otr.SMPSecretNeeded:
		to.needed++
	case otr.SMPComplete:
		to.complete++
		if e.secClass != 0 {
			e.fail("SMPComplete reported although the two secrets differ", map[string]any{"receiver": to.name, "secret_class": secretClassName[e.secClass]})
		}
	case otr.SMPFailed:
		to.failed++
	case otr.ConversationEnded:
		to.ended++
	}

	// (6) benign executions: no message may be refused
	if e.netFault == 0 && r.err != nil && !(m.phase == phSMP && e.abort != 0) {
		e.fail("an unmodified message was refused in an execution without transport faults", map[string]any{
			"receiver": to.name, "message": kindName(m.kind), "phase": phaseName[m.phase], "err": r.err.Error()})
	}

	e.emit(m.to, r.toSend, "reply to "+kindName(m.kind))

	if r.change == otr.SMPSecretNeeded {
		if e.netFault == 0 && e.abort == 0 && m.to == 1 {
			if got, want := to.conv.SMPQuestion(), e.question(); got != want {
				e.fail("SMPQuestion differs from the question given to Authenticate", map[string]any{"got": got, "want": want})
			}
		}
		if !e.noAnswer {
			e.authenticate(m.to, "", "answer")
		}
	}
	if m.phase == phSMP && m.genuine {
		if e.abort == 2 && m.to == 0 && len(r.toSend) > 0 && !e.abortDone {
			e.abortDone = true
			e.authenticate(0, e.question(), "restart after SMP2")
		}
	}
}

func clip(b []byte) string {
	if len(b) > 160 {
		return fmt.Sprintf("%q...(len %d)", b[:160], len(b))
	}
	return fmt.Sprintf("%q", b)
}
