package main

// Part Y: SMP schedules. After a clean AKE every sequence of D operations over
//
//	{A calls Authenticate, B calls Authenticate, A sends a text, B sends a text,
//	 deliver the oldest in-flight message to A, ... to B}
//
// (at most two Authenticate calls and two texts; the first operation is an Authenticate; a
// party answers SMPSecretNeeded at once) is run on two real Conversations, for equal and for
// unequal secrets (thorough: the unequal-secret schedules run with FragmentSize 50/200). So SMP is started from both sides in either order with every interleaving
// of the deliveries, texts are sent and cross SMP messages while an SMP is in progress, and an
// SMP is restarted in every state of the exchange. Then everything in flight is delivered and,
// from whatever SMP state the history left behind, a clean SMP is started by one side (and, in
// thorough runs, a second one by the other side).
//
// Part Z: a Conversation object reused for a second key exchange - after End on both sides,
// after End on one side, and without End (a query arrives while encrypted), with or without an
// SMP that the peer has not answered yet - followed by every data-exchange schedule of depth D2
// in the new session, one more message each way and (for a fixed subset) a clean SMP.
//
// Demands (there are no transport faults in these parts): no panic; no text refused, every text
// delivered unchanged, once and in order; SMPComplete never with unequal secrets; the clean SMP
// runs complete on both sides iff the secrets are equal and fail on both sides otherwise; the
// second key exchange brings both sides to the encrypted state with equal session ids.

import (
	"fmt"
	"sync/atomic"

	"golang.org/x/crypto/otr"
	"verif/vf"
)

func (e *exec) pending(to int) bool {
	for _, m := range e.q {
		if m.to == to {
			return true
		}
	}
	return false
}

// deliverNext delivers the oldest in-flight message addressed to party `to`.
func (e *exec) deliverNext(to int) bool {
	for j, m := range e.q {
		if m.to == to {
			e.q = append(e.q[:j:j], e.q[j+1:]...)
			e.nLogical++
			e.deliverAll(m, m.pieces)
			return true
		}
	}
	return false
}

// staleSMP4Class is the one known deviation (known_findings.txt; checks/c47/fix-proposal-2.diff):
// processSMP leaves the initiator of an SMP whose verdict was "secrets differ" in the state
// "expecting SMP4" (the protocol text says: send abort and go back to EXPECT1), so the next SMP,
// if started by the peer, is answered with an abort instead of being run.
const staleSMP4Class = "after an SMP that failed the initiator stays in state expecting-SMP4 and aborts the next SMP started by its peer (no verdict although nothing is in flight)"

// cleanSMP runs one SMP from a quiescent state (nothing in flight) and demands the verdict.
func (e *exec) cleanSMP(starter int, what string) {
	if e.dead {
		return
	}
	// smp.state of the side that is going to be asked: 0 = expecting SMP1 ... 3 = expecting SMP4
	if st := e.p[1-starter].conv.VerifC47State().SMPState; st == 3 {
		if class, extra := e.cleanSMPOnce(starter, what); class != "" {
			extra["responder_smp_state_before"] = st
			extra["verdict_missing"] = class
			e.fail(staleSMP4Class, extra)
			what += " (again, after the aborted attempt)"
		} else {
			return
		}
	}
	if class, extra := e.cleanSMPOnce(starter, what); class != "" {
		e.fail(class, extra)
	}
}

func (e *exec) cleanSMPOnce(starter int, what string) (string, map[string]any) {
	if e.dead {
		return "", nil
	}
	A, B := e.p[0], e.p[1]
	c0, f0 := [2]int{A.complete, B.complete}, [2]int{A.failed, B.failed}
	n0 := e.p[1-starter].needed
	e.phase, e.abort = phSMP, 0
	e.authenticate(starter, e.question(), what)
	e.pump()
	if e.dead {
		return "", nil
	}
	extra := e.counts()
	extra["pass"], extra["deviations"], extra["trace_tail"] = e.o.name, append([]string(nil), e.devs...), tail(e.trace, 14)
	extra["clean_smp"] = what
	extra["before"] = fmt.Sprintf("complete %v failed %v", c0, f0)
	if e.secClass == 0 {
		if !(A.complete == c0[0]+1 && B.complete == c0[1]+1 && e.p[1-starter].needed == n0+1) {
			return "SMP with equal secrets did not complete on both sides", extra
		}
	} else if !(A.complete == c0[0] && B.complete == c0[1] && A.failed > f0[0] && B.failed > f0[1]) {
		return "SMP with unequal secrets did not fail on both sides", extra
	}
	return "", nil
}

func smpSchedulePart(c *vf.Ctx) {
	D := 4
	if c.Thorough {
		D = 5
	}
	var txt [2][][]byte
	for p := 0; p < 2; p++ {
		for k := 0; k < 4; k++ {
			txt[p] = append(txt[p], text(c, fmt.Sprintf("y%c%d", 'A'+p, k), 300+p*10+k, 20+7*k))
		}
	}
	o := &passOpts{name: "Y", withSMP: true}
	var crossing, textDuring atomic.Int64
	n := vf.ExploreChoices(c, 1<<20, true, func(ch *vf.Chooser) {
		e := newExec(c, ch, o, "Y")
		defer func() { flush(c, e) }()
		A, B := e.p[0], e.p[1]
		e.withQuestion = true
		e.secClass = e.choose(2, func(k int) string { return "SMP secrets: " + secretClassName[k] })
		if c.Thorough && e.secClass == 1 { // thorough: the unequal-secret half of the schedules runs fragmented
			A.conv.FragmentSize, B.conv.FragmentSize = 50, 200
		}
		A.secret, B.secret = secrets(e.secClass)
		if !e.ake() {
			return
		}
		e.abort = 9 // SMP runs that are restarted or cross may be refused and need not complete
		auths, texts := 0, 0
		var sent [2]int
		crossed, during := false, false
		for t := 0; t < D && !e.dead; t++ {
			type op struct {
				kind, who int // kind 0 deliver, 1 Authenticate, 2 text
				name      string
			}
			var ops []op
			if auths < 2 {
				ops = append(ops, op{1, 0, "A.Authenticate"}, op{1, 1, "B.Authenticate"})
			}
			if t > 0 {
				for who := 1; who >= 0; who-- {
					if e.pending(who) {
						ops = append(ops, op{0, who, "deliver to " + e.p[who].name})
					}
				}
				if texts < 2 {
					ops = append(ops, op{2, 0, "A.Send"}, op{2, 1, "B.Send"})
				}
			}
			if len(ops) == 0 {
				break
			}
			k := e.ch.Choose(len(ops))
			e.devs = append(e.devs, fmt.Sprintf("t%d:%s", t, ops[k].name))
			switch ops[k].kind {
			case 0:
				e.phase = phSMP // whatever a delivery triggers is an SMP message
				e.deliverNext(ops[k].who)
			case 1:
				if e.pending(ops[k].who) {
					crossed = true
				}
				e.phase = phSMP
				e.authenticate(ops[k].who, e.question(), fmt.Sprintf("schedule step %d", t))
				auths++
			case 2:
				if len(e.q) > 0 {
					during = true
				}
				e.phase = phData // a text must never be refused
				e.send(ops[k].who, txt[ops[k].who][sent[ops[k].who]])
				sent[ops[k].who]++
				texts++
			}
		}
		e.phase = phSMP
		e.pump()
		if e.dead {
			return
		}
		e.expect(A.got == len(B.sent) && B.got == len(A.sent) && len(A.sent) == sent[0] && len(B.sent) == sent[1],
			"a text sent while an SMP was in progress was not delivered to the peer", e.counts())
		// from whatever the history left behind: clean runs
		starter := 0
		for _, k := range ch.C {
			starter ^= k & 1
		}
		e.cleanSMP(starter, fmt.Sprintf("clean SMP started by %s after the schedule", e.p[starter].name))
		if c.Thorough {
			e.cleanSMP(1-starter, fmt.Sprintf("second clean SMP started by %s", e.p[1-starter].name))
		}
		e.phase = phPost
		e.send(0, txt[0][3])
		e.send(1, txt[1][3])
		e.pump()
		if !e.dead {
			e.expect(A.got == len(B.sent) && B.got == len(A.sent), "a data message sent after SMP was not delivered", e.counts())
		}
		if crossed {
			crossing.Add(1)
		}
		if during {
			textDuring.Add(1)
		}
		if crossed || during || auths > 1 {
			c.Nontrivial("Y" + fmt.Sprint(ch.C))
		}
		c.Outcome(fmt.Sprintf("Y smp=c%d%d f%d%d needed=%d%d", A.complete, B.complete, min(A.failed, 2), min(B.failed, 2), min(A.needed, 2), min(B.needed, 2)))
		if c.WantSample() && crossed && during {
			c.Sample(map[string]any{"pass": o.name, "schedule": e.devs, "counts": e.counts()})
		}
	})
	c.Set("smp_schedules", map[string]any{"depth": D, "executions": n, "authenticate_with_a_message_on_its_way_to_the_caller": crossing.Load(), "text_sent_while_messages_in_flight": textDuring.Load()})
}

var reuseModes = []string{
	"End by A, End by B, query from B",
	"End by A only, query from A",
	"no End: a query reaches B while encrypted",
	"no End: a query reaches A while encrypted",
	"no End, B has not yet answered A's SMP: a query reaches B while encrypted",
}

func reusePart(c *vf.Ctx) {
	D2 := 4
	if c.Thorough {
		D2 = 5
	}
	var seqs [][]int8
	var gen func(prefix []int8, toA, toB int)
	gen = func(prefix []int8, toA, toB int) {
		if len(prefix) == D2 {
			seqs = append(seqs, append([]int8(nil), prefix...))
			return
		}
		gen(append(prefix, 0), toA, toB+1)
		gen(append(prefix, 1), toA+1, toB)
		if toA > 0 {
			gen(append(prefix, 2), toA-1, toB)
		}
		if toB > 0 {
			gen(append(prefix, 3), toA, toB-1)
		}
	}
	gen(nil, 0, 0)
	var msgs [2][][]byte
	for p := 0; p < 2; p++ {
		for k := 0; k <= D2+4; k++ {
			msgs[p] = append(msgs[p], text(c, fmt.Sprintf("z%c%d", 'A'+p, k), 400+p*20+k, 9+11*k))
		}
	}
	query := []byte(otr.QueryMessage)
	nModes, nHist := len(reuseModes), 2
	var execs atomic.Int64
	c.ParallelFor(nModes*nHist*len(seqs), func(i int) {
		mode, hist, seq := i%nModes, i/nModes%nHist, seqs[i/(nModes*nHist)]
		si := i / (nModes * nHist)
		e := scripted(c, "Z", "Z", true, 0, 0)
		if si%3 == 1 {
			e.p[0].conv.FragmentSize, e.p[1].conv.FragmentSize = 50, 200
		}
		e.secClass = si / 8 % 2
		e.p[0].secret, e.p[1].secret = secrets(e.secClass)
		e.devs = []string{reuseModes[mode], fmt.Sprintf("history %d", hist), "second-session schedule " + fmt.Sprint(seq)}
		defer func() { flush(c, e) }()
		A, B := e.p[0], e.p[1]
		if !e.ake() {
			return
		}
		var n [2]int
		send := func(p int) { e.send(p, msgs[p][n[p]]); n[p]++ }
		e.phase = phData
		if hist == 1 { // key ids advance past 2 on both sides, with crossing messages
			for r := 0; r < 2; r++ {
				send(0)
				send(1)
				e.pump()
			}
		} else {
			send(0)
			e.pump()
		}
		inject := func(to int) { // the query as it arrives from a peer whose client sent it in the clear
			m := &lmsg{to: to, pieces: [][]byte{query}, whole: query, kind: -2, phase: phSecond, genuine: true}
			e.nLogical++
			e.deliverAll(m, m.pieces)
		}
		nk := [2]int{A.newKeys, B.newKeys}
		switch mode {
		case 0:
			e.phase = phEnd
			e.call(0, "End", func() [][]byte { return cloneAll(A.conv.End()) })
			e.pump()
			e.call(1, "End", func() [][]byte { return cloneAll(B.conv.End()) })
			e.pump()
			e.phase = phSecond
			e.send(1, query)
		case 1:
			e.phase = phEnd
			e.call(0, "End", func() [][]byte { return cloneAll(A.conv.End()) })
			e.pump()
			e.phase = phSecond
			e.send(0, query)
		case 2:
			e.phase = phSecond
			inject(1)
		case 3:
			e.phase = phSecond
			inject(0)
		case 4:
			e.phase, e.abort, e.noAnswer = phSMP, 9, true
			e.authenticate(0, e.question(), "SMP that B leaves unanswered")
			e.pump()
			e.abort, e.noAnswer = 0, false
			e.phase = phSecond
			inject(1)
		}
		e.pump()
		if e.dead {
			return
		}
		e.expect(A.conv.IsEncrypted() && B.conv.IsEncrypted() && A.newKeys == nk[0]+1 && B.newKeys == nk[1]+1,
			"second AKE on the same conversations did not bring both sides to the encrypted state", e.counts())
		e.expect(A.conv.SSID == B.conv.SSID, "the two sides computed different session ids", nil)
		if e.dead || !(A.conv.IsEncrypted() && B.conv.IsEncrypted()) {
			return
		}
		for _, op := range seq {
			if e.dead {
				return
			}
			if op < 2 {
				send(int(op))
			} else {
				e.deliverNext(int(op) - 2)
			}
		}
		e.pump()
		send(0)
		e.pump()
		send(1)
		e.pump()
		if e.dead {
			return
		}
		e.expect(A.got == len(B.sent) && B.got == len(A.sent) && len(A.sent) == n[0] && len(B.sent) == n[1],
			"a data message of the second session was not delivered", e.counts())
		if si%4 == 0 || mode == 4 && si%4 == 2 {
			st := si / 4 % 2
			if mode == 4 {
				st = 0 // B still holds A's unanswered SMP1 of the first session: B's Authenticate would answer that one
			}
			e.cleanSMP(st, fmt.Sprintf("clean SMP started by %s in the second session", e.p[st].name))
			e.cleanSMP(1-st, fmt.Sprintf("clean SMP started by %s in the second session", e.p[1-st].name))
		}
		execs.Add(1)
		c.Nontrivial(fmt.Sprintf("Z%d.%d.%v", mode, hist, seq))
		c.Outcome(fmt.Sprintf("Z mode=%d keys=%d/%d smp=c%d%d", mode, A.newKeys, B.newKeys, min(A.complete, 2), min(B.complete, 2)))
	})
	c.Set("reused_conversations", map[string]any{"modes": reuseModes, "second_session_schedule_depth": D2, "schedules": len(seqs), "executed": execs.Load()})
}
