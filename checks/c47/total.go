package main

// Parts G (length x fragment-size grid), F (forgeries from revealed MAC keys,
// replays) and T (totality of Receive).

import (
	"bytes"
	"encoding/binary"
	"fmt"
	"math/big"
	"strings"
	"sync"
	"sync/atomic"
	"time"

	"golang.org/x/crypto/otr"
	"verif/ref/otrref"
	"verif/vf"
)

func flush(c *vf.Ctx, e *exec) {
	c.Transition(e.trans)
	e.trans = 0
	for s := range e.states {
		c.State(s)
	}
	for _, v := range e.viol {
		c.Violation(v.class, v.detail)
	}
	e.viol = nil
}

// scripted returns an execution without any choice point.
func scripted(c *vf.Ctx, name, label string, withSMP bool, fragA, fragB int) *exec {
	e := newExec(c, nil, &passOpts{name: name, withSMP: withSMP}, label)
	e.p[0].conv.FragmentSize, e.p[1].conv.FragmentSize = fragA, fragB
	e.p[0].secret, e.p[1].secret = secrets(0)
	e.withQuestion = true
	return e
}

func (e *exec) ake() bool {
	e.phase = phAKE
	e.send(0, []byte(otr.QueryMessage))
	e.pump()
	ok := !e.dead && e.p[0].conv.IsEncrypted() && e.p[1].conv.IsEncrypted()
	if !ok && !e.dead {
		e.fail("AKE did not bring both sides to the encrypted state", e.counts())
	}
	return ok
}

// ---------------------------------------------------------------------------
// Part G
// ---------------------------------------------------------------------------

func gridPart(c *vf.Ctx) {
	sizes := []int{0, 19, 50, 200, 1000}
	lens := []int{0, 1, 2, 3, 4, 5, 249, 250, 251, 252, 253, 505, 506, 507, 508, 509, 763, 1000, 4000}
	if c.Thorough {
		lens = nil
		for n := 0; n <= 520; n++ {
			lens = append(lens, n)
		}
		lens = append(lens, 763, 1000, 4000, 20000, 65531, 65535, 65536, 70000)
	}
	var msgs atomic.Int64
	c.ParallelFor(len(sizes)*len(sizes), func(i int) {
		fa, fb := sizes[i/len(sizes)], sizes[i%len(sizes)]
		e := scripted(c, "G", fmt.Sprintf("G/%d/%d", fa, fb), false, fa, fb)
		defer func() { flush(c, e) }()
		if !e.ake() {
			return
		}
		e.phase = phData
		for k, n := range lens {
			if n > 4000 && (fa == 19 || fb == 19) && !(fa == 19 && fb == 19) {
				continue // the long messages go through the one-byte-per-piece setting once
			}
			for from := 0; from < 2 && !e.dead; from++ {
				to := e.p[1-from]
				before := to.got
				msg := text(c, fmt.Sprintf("g%d.%d", k, from), k, n)
				e.send(from, msg)
				e.pump()
				if e.dead {
					return
				}
				want := before + 1
				if n == 0 {
					want = before
				}
				if to.got != want {
					e.fail("a data message was not delivered to the peer", map[string]any{"len": n, "A.FragmentSize": fa, "B.FragmentSize": fb, "from": e.p[from].name, "last_err": to.lastErr})
				}
				c.Eval(1)
				msgs.Add(1)
				c.Nontrivial(fmt.Sprintf("G len=%d frag=%d/%d from=%d", n, fa, fb, from))
			}
		}
		c.Outcome(fmt.Sprintf("grid conversation delivered %d/%d", e.p[0].got, e.p[1].got))
	})
	c.Set("grid", map[string]any{"fragment_sizes": sizes, "message_lengths": len(lens), "messages_round_tripped": msgs.Load()})
}

// ---------------------------------------------------------------------------
// Part F
// ---------------------------------------------------------------------------

func forgeryPart(c *vf.Ctx) {
	e := scripted(c, "F", "F", true, 0, 0)
	defer func() { flush(c, e) }()
	if !e.ake() {
		return
	}
	round := func(tag string, i int) {
		e.send(0, text(c, tag+"a", i, 20+i))
		e.pump()
		e.send(1, text(c, tag+"b", i, 30+i))
		e.pump()
	}
	e.phase = phData
	for i := 0; i < 5; i++ {
		round("f", i)
	}
	e.send(0, text(c, "fa-burst", 1, 10))
	e.send(0, text(c, "fa-burst", 2, 11))
	e.send(0, text(c, "fa-burst", 3, 12))
	e.pump()
	e.phase = phSMP
	e.authenticate(0, e.question(), "start")
	e.pump()
	e.phase = phPost
	for i := 5; i < 8; i++ {
		round("f", i)
	}
	if e.dead {
		return
	}
	// every MAC key revealed on the wire
	var keys [][]byte
	seen := map[string]bool{}
	recorded := append([]*lmsg(nil), e.regData...)
	for _, m := range recorded {
		bin, _ := otrref.Decode(m.whole)
		d, ok := otrref.ParseData(bin)
		if !ok {
			e.fail("a data message produced by Send does not have the data-message layout of the specification", map[string]any{"msg": clip(m.whole)})
			continue
		}
		if len(d.OldMACs)%20 != 0 {
			e.fail("old MAC keys field is not a multiple of 20 bytes", map[string]any{"len": len(d.OldMACs)})
		}
		for o := 0; o+20 <= len(d.OldMACs); o += 20 {
			k := d.OldMACs[o : o+20]
			if !seen[string(k)] {
				seen[string(k)] = true
				keys = append(keys, k)
			}
		}
	}
	matched, forged := 0, 0
	e.netFault = 1 // from here on the transport is hostile: safety demands only
	rename := func(from int, prefix string) {
		for i := from; i < len(e.viol); i++ {
			e.viol[i].class = prefix + e.viol[i].class
		}
	}
	for mi, m := range recorded {
		bin, _ := otrref.Decode(m.whole)
		d, ok := otrref.ParseData(bin)
		if !ok {
			continue
		}
		for _, k := range keys {
			if otrref.MAC(k, bin[:d.AuthEnd]) != d.MAC {
				continue
			}
			matched++
			edits := []func(a []byte, d *otrref.DataMsg){
				func(a []byte, d *otrref.DataMsg) { a[d.CounterAt] = 0xff; a[d.EncAt] ^= 1 },                  // new text, far-future counter
				func(a []byte, d *otrref.DataMsg) { a[d.CounterAt+7]++ },                                       // same ciphertext, next counter
				func(a []byte, d *otrref.DataMsg) { a[d.CounterAt] = 0xff; a[3] |= 1; a[d.AuthEnd-1] ^= 0x80 }, // IGNORE_UNREADABLE set
			}
			for _, ed := range edits {
				f, _ := otrref.Reauthenticate(bin, k, ed)
				nv := len(e.viol)
				e.deliver(&lmsg{to: m.to, kind: otrref.TypeData, whole: m.whole, phase: phPost}, otrref.Encode(f))
				rename(nv, "forged with a MAC key that had been revealed on the wire: ")
				forged++
				c.Eval(1)
				c.Nontrivial(fmt.Sprintf("F forge msg%d", mi))
				if e.dead {
					return
				}
			}
		}
	}
	// replay of every recorded data message at the end of the conversation
	for mi, m := range recorded {
		nv := len(e.viol)
		e.deliver(m, m.whole)
		rename(nv, "late replay of a recorded data message: ")
		c.Eval(1)
		c.Nontrivial(fmt.Sprintf("F replay msg%d", mi))
		if e.dead {
			return
		}
	}
	e.q = nil
	// the conversation is still intact
	ga, gb := e.p[0].got, e.p[1].got
	round("f-final", 9)
	if !e.dead && (e.p[0].got != ga+1 || e.p[1].got != gb+1) {
		e.fail("a data message was not delivered to the peer", map[string]any{"where": "after forgeries and replays were rejected", "A_last_err": e.p[0].lastErr, "B_last_err": e.p[1].lastErr})
	}
	c.Set("forgery", map[string]any{"data_messages_recorded": len(recorded), "mac_keys_revealed_on_wire": len(keys), "message_key_pairs_matched": matched, "forgeries_delivered": forged, "replays_delivered": len(recorded)})
	c.Outcome(fmt.Sprintf("forgery part: %d revealed keys matched", matched))
}

// ---------------------------------------------------------------------------
// Part T
// ---------------------------------------------------------------------------

// stateMaker builds a fresh conversation in a named state (and its peer).
type stateMaker struct {
	name string
	make func(label string) (*exec, int) // the execution and the index of the party under test
}

func replayTo(c *vf.Ctx, label string, stop int) *exec {
	e := scripted(c, "T", label, true, 0, 0)
	e.stopAt = stop
	e.run()
	return e
}

// reference order of the default conversation's logical messages:
// 0 query->B 1 commit->A 2 dhkey->B 3 reveal->A 4 sig->B 5,6 a1,a2->B 7,8 b1,b2->A
// 9 smp1->B 10 smp2->A 11 smp3->B 12 smp4->A 13 a3->B 14 b3->A 15 end->B
func totalityPart(c *vf.Ctx) {
	ref := replayTo(c, "T", -1)
	flush(c, ref)
	if ref.dead || len(ref.wire) < 12 {
		c.Violation("harness: the reference conversation did not run to completion", map[string]any{"messages": len(ref.wire), "trace": tail(ref.trace, 20)})
		return
	}
	N := len(ref.wire)
	// determinism check (needed for "matching state")
	ref2 := replayTo(c, "T", -1)
	same := len(ref2.wire) == N
	for i := 0; same && i < N; i++ {
		same = bytes.Equal(ref.wire[i].whole, ref2.wire[i].whole)
	}
	c.Set("totality_reference_conversation", map[string]any{"logical_messages": N, "bitwise_reproducible": same})

	timed(c, "T1 short inputs", func() { shortInputs(c) })
	timed(c, "T2 encoded short bodies", func() { encodedShortBodies(c) })
	timed(c, "T3 single faults", func() { singleFaults(c, ref) })
	timed(c, "T3x cross state", func() { crossState(c, ref) })
	timed(c, "T4 crafted sequences", func() { craftedSequences(c) })
	timed(c, "T5 crafted SMP", func() { craftedSMP(c) })
}

var partTimes sync.Map

func timed(c *vf.Ctx, name string, f func()) {
	t0 := time.Now()
	f()
	partTimes.Store(name, time.Since(t0).Seconds())
	m := map[string]float64{}
	partTimes.Range(func(k, v any) bool { m[k.(string)] = v.(float64); return true })
	c.Set("part_wall_s", m)
}

func reportPanic(c *vf.Ctx, part, state string, in []byte, v any, stack string) {
	c.Violation(panicClass("Receive", v, stack, nil),
		map[string]any{"pass": "T", "part": part, "state": state, "input": clip(in), "panic": fmt.Sprint(v), "stack": firstLines(stack, 30)})
}

func tStates(c *vf.Ctx) []stateMaker {
	at := func(name string, withSMP bool, stop, party int, deliverStopped bool) stateMaker {
		return stateMaker{name, func(label string) (*exec, int) {
			e := scripted(c, "T", label, withSMP, 0, 0)
			e.stopAt = stop
			e.run()
			if deliverStopped && e.stopped != nil {
				protectedReceive(e.p[e.stopped.to].conv, e.stopped.whole)
			}
			return e, party
		}}
	}
	return []stateMaker{
		at("fresh (plaintext, no AKE)", true, 0, 1, false),
		at("awaiting DH key (sent commit)", true, 1, 1, false),
		at("awaiting reveal-signature (sent DH key)", true, 2, 0, false),
		at("awaiting signature (sent reveal-signature)", true, 3, 1, false),
		at("encrypted", true, 5, 1, false),
		at("encrypted, SMP1 received and not yet answered", true, 9, 1, true),
		at("encrypted, SMP initiator expecting SMP2", true, 9, 0, false),
		at("finished (peer ended)", false, 9, 1, true), // script without SMP: message 9 is End
	}
}

// shortInputs: every byte string of length <= 3 into conversations in 3 states.
func shortInputs(c *vf.Ctx) {
	states := tStates(c)
	sel := []stateMaker{states[0], states[1], states[4]}
	var total atomic.Int64
	for _, sm := range sel {
		c.ParallelFor(257, func(b0 int) {
			e, pi := sm.make("T1")
			conv := e.p[pi].conv
			key0 := stateKey(conv)
			feed := func(in []byte) {
				p, v, st := vf.Protect(func() { conv.Receive(in) })
				if p {
					reportPanic(c, "inputs of <= 3 bytes", sm.name, in, v, st)
					e, pi = sm.make("T1")
					conv = e.p[pi].conv
				}
			}
			n := int64(0)
			if b0 == 256 {
				feed(nil)
				feed([]byte{})
				n += 2
			} else {
				buf := make([]byte, 3)
				buf[0] = byte(b0)
				feed(buf[:1])
				n++
				for b1 := 0; b1 < 256; b1++ {
					buf[1] = byte(b1)
					feed(buf[:2])
					n++
					// the 256 three-byte inputs under one recover; on a panic they are retried one by one
					p, _, _ := vf.Protect(func() {
						for b2 := 0; b2 < 256; b2++ {
							buf[2] = byte(b2)
							conv.Receive(buf[:3])
						}
					})
					if p {
						for b2 := 0; b2 < 256; b2++ {
							buf[2] = byte(b2)
							feed(buf[:3])
						}
					}
					n += 256
				}
				if stateKey(conv) != key0 {
					c.Violation("an input of <= 3 bytes changed the conversation state", map[string]any{"state": sm.name, "first_byte": b0, "now": stateKey(conv)})
				}
			}
			total.Add(n)
			c.Eval(int(n))
			c.Transition(int(n))
		})
		c.Nontrivial("T1 " + sm.name)
	}
	c.Set("totality_short_inputs", map[string]any{"inputs_fed": total.Load(), "states": len(sel)})
}

// encodedShortBodies: "?OTR:" + base64(body) + "." for every body of <= 2 bytes, and
// for every body 00 02 T [x] (all types T, all x), in every state.
func encodedShortBodies(c *vf.Ctx) {
	var bodies [][]byte
	bodies = append(bodies, []byte{})
	for a := 0; a < 256; a++ {
		bodies = append(bodies, []byte{byte(a)})
	}
	for a := 0; a < 256; a++ {
		for b := 0; b < 256; b++ {
			bodies = append(bodies, []byte{byte(a), byte(b)})
		}
	}
	for t := 0; t < 256; t++ {
		bodies = append(bodies, []byte{0, 2, byte(t)})
		for x := 0; x < 256; x++ {
			bodies = append(bodies, []byte{0, 2, byte(t), byte(x)})
		}
	}
	states := tStates(c)
	var total, rebuilt atomic.Int64
	const chunk = 16384
	nChunks := (len(bodies) + chunk - 1) / chunk
	c.ParallelFor(len(states)*nChunks, func(w int) {
		sm := states[w/nChunks]
		lo := (w % nChunks) * chunk
		hi := min(lo+chunk, len(bodies))
		e, pi := sm.make("T2")
		conv := e.p[pi].conv
		key0 := stateKey(conv)
		for _, b := range bodies[lo:hi] {
			in := otrref.Encode(b)
			p, v, st := vf.Protect(func() { conv.Receive(in) })
			if p {
				reportPanic(c, "encoded message with a body of <= 4 bytes", sm.name, in, v, st)
			}
			if p || stateKey(conv) != key0 { // keep every input in the named state
				e, pi = sm.make("T2")
				conv = e.p[pi].conv
				rebuilt.Add(1)
			}
		}
		total.Add(int64(hi - lo))
		c.Eval(hi - lo)
		c.Transition(hi - lo)
		c.Nontrivial(fmt.Sprintf("T2 %s chunk %d", sm.name, w%nChunks))
	})
	c.Set("totality_encoded_short_bodies", map[string]any{"bodies": len(bodies), "states": len(states), "inputs_fed": total.Load(), "inputs_that_changed_the_state": rebuilt.Load()})
}

type fault struct {
	trunc int // >= 0: truncate to this length
	off   int
	val   int // substitution kind
}

// Substitution kinds: 0..5 flip one bit of the 6-bit value of a base64 character
// (= every single-bit flip of the binary message; for a character outside the
// alphabet the corresponding bit of the byte is flipped), 6 flips the top bit of the
// byte (never base64); thorough adds the values 0x00, 0xff, ',' and '='.
func subValues(thorough bool) int {
	if thorough {
		return 11
	}
	return 7
}

func applyFault(msg []byte, f fault) []byte {
	if f.trunc >= 0 {
		return append([]byte(nil), msg[:min(f.trunc, len(msg))]...)
	}
	out := append([]byte(nil), msg...)
	if f.off >= len(out) {
		return out
	}
	b := out[f.off]
	switch {
	case f.val < 6:
		if i := strings.IndexByte(b64alpha, b); i >= 0 {
			b = b64alpha[i^(1<<f.val)]
		} else {
			b ^= 1 << f.val
		}
	case f.val == 6:
		b ^= 0x80
	case f.val == 7:
		b = 0
	case f.val == 8:
		b = 0xff
	case f.val == 9:
		b = ','
	case f.val == 10:
		b = '='
	}
	out[f.off] = b
	return out
}

// singleFaults: every truncation and every single-byte substitution of every message
// of the reference conversation, fed to a conversation replayed to the state in which
// the genuine message would have arrived, followed by the genuine message.
func singleFaults(c *vf.Ctx, ref *exec) {
	type job struct {
		msg    int
		faults []fault
		single bool
	}
	var jobs []job
	nv := subValues(c.Thorough)
	perMsg := map[string]int{}
	for i, m := range ref.wire {
		var fs []fault
		for n := 0; n < len(m.whole); n++ {
			fs = append(fs, fault{trunc: n})
		}
		for off := 0; off < len(m.whole); off++ {
			for v := 0; v < nv; v++ {
				f := fault{trunc: -1, off: off, val: v}
				if !bytes.Equal(applyFault(m.whole, f), m.whole) {
					fs = append(fs, f)
				}
			}
		}
		perMsg[fmt.Sprintf("%02d %s->%s (%d bytes)", i, kindName(m.kind), ref.p[m.to].name, len(m.whole))] = len(fs)
		chunks := 8
		if len(fs) < 100 {
			chunks = 1
		}
		for k := 0; k < chunks; k++ {
			lo, hi := k*len(fs)/chunks, (k+1)*len(fs)/chunks
			if hi > lo {
				jobs = append(jobs, job{i, fs[lo:hi], false})
			}
		}
	}
	var total, nondet atomic.Int64
	var rebuilds atomic.Int64
	c.ParallelFor(len(jobs), func(j int) {
		jb := jobs[j]
		var e *exec
		var m *lmsg
		var key0 string
		build := func() bool {
			e = replayTo(c, "T", jb.msg)
			m = e.stopped
			if m == nil {
				c.Violation("harness: replay did not reach the recorded message", map[string]any{"msg": jb.msg})
				return false
			}
			if !bytes.Equal(m.whole, ref.wire[jb.msg].whole) {
				nondet.Add(1)
			}
			e.dead = false
			e.netFault = 1 // transport faults: safety demands only
			e.q = nil
			key0 = ctrlKey(e.p[m.to].conv)
			rebuilds.Add(1)
			return true
		}
		if !build() {
			return
		}
		for _, f := range jb.faults {
			e.deliver(m, applyFault(m.whole, f))
			total.Add(1)
			if e.dead || ctrlKey(e.p[m.to].conv) != key0 {
				// the fault was not ignored: follow it with the genuine message, then start over
				if !e.dead {
					e.deliver(m, m.whole)
				}
				flush(c, e)
				if !build() {
					return
				}
			}
		}
		e.deliver(m, m.whole) // the genuine message after the ignored faulty ones
		c.Eval(len(jb.faults))
		c.TraceValidated(1)
		c.Nontrivial(fmt.Sprintf("T3 m%d job%d", jb.msg, j))
		flush(c, e)
	})
	c.Set("totality_single_faults", map[string]any{"faults_fed": total.Load(), "replays": rebuilds.Load(), "faults_per_message": perMsg, "substitution_values": nv,
		"replays_whose_message_differed_from_the_recording": nondet.Load()})
}

// crossState: every message of the reference conversation fed to the addressee of
// every other message, in the state it has just before that message arrives.
func crossState(c *vf.Ctx, ref *exec) {
	N := len(ref.wire)
	var total atomic.Int64
	c.ParallelFor(N+1, func(i int) {
		for j := 0; j < N; j++ {
			if j == i {
				continue
			}
			e := replayTo(c, "T", i)
			party := 1
			if e.stopped != nil {
				party = e.stopped.to
			}
			e.dead, e.netFault, e.q = false, 1, nil
			src := ref.wire[j]
			e.deliver(&lmsg{to: party, kind: src.kind, whole: src.whole, phase: src.phase, genuine: false}, src.whole)
			if !e.dead && e.stopped != nil {
				e.deliver(e.stopped, e.stopped.whole)
			}
			// the plaintext-delivery rule is meaningless for reflected messages; keep panics and key checks
			var keep []violation
			for _, v := range e.viol {
				if len(v.class) > 15 && (v.class[:15] == "Receive panics:" || v.class[:7] == "NewKeys") {
					keep = append(keep, v)
				}
			}
			e.viol = keep
			flush(c, e)
			total.Add(1)
			c.Eval(1)
		}
		c.Nontrivial(fmt.Sprintf("T3x state %d", i))
	})
	c.Set("totality_cross_state", map[string]any{"cases": total.Load()})
}

func be32(v uint32) []byte { b := make([]byte, 4); binary.BigEndian.PutUint32(b, v); return b }
func data(b []byte) []byte { return append(be32(uint32(len(b))), b...) }
func cat(parts ...[]byte) []byte {
	var out []byte
	for _, p := range parts {
		out = append(out, p...)
	}
	return out
}

type sym struct {
	name string
	wire []byte
}

func alphabet() []sym {
	z := func(n int) []byte { return make([]byte, n) }
	enc := func(name string, bin []byte) sym { return sym{name, otrref.Encode(bin)} }
	dmsg := func(flags byte, sk, rk uint32) []byte {
		return cat([]byte{0, 2, 3, flags}, be32(sk), be32(rk), data([]byte{2}), z(8), data(z(4)), z(20), data(nil))
	}
	c0 := otrref.Encode(cat([]byte{0, 2, 2}, data(nil), data(nil)))
	return []sym{
		{"query", []byte("?OTRv2?")},
		{"query-v1v2", []byte("?OTR?v2?")},
		enc("commit-truncated", []byte{0, 2, 2}),
		{"commit-empty-fields", c0},
		enc("commit-shaped", cat([]byte{0, 2, 2}, data(z(196)), data(z(32)))),
		enc("dhkey-2", cat([]byte{0, 2, 10}, data([]byte{2}))),
		enc("dhkey-1", cat([]byte{0, 2, 10}, data([]byte{1}))),
		enc("dhkey-truncated", []byte{0, 2, 10}),
		enc("reveal-zero", cat([]byte{0, 2, 17}, data(z(16)), data(nil), z(20))),
		enc("reveal-bad-aes-key", cat([]byte{0, 2, 17}, data(z(5)), data(nil), z(20))),
		enc("reveal-truncated", []byte{0, 2, 17}),
		enc("sig-zero", cat([]byte{0, 2, 18}, data(nil), z(20))),
		enc("sig-truncated", []byte{0, 2, 18}),
		enc("data-keyids-0", dmsg(0, 0, 0)),
		enc("data-keyids-1", dmsg(0, 1, 1)),
		enc("data-keyids-1-ignore-unreadable", dmsg(1, 1, 1)),
		enc("data-truncated", []byte{0, 2, 3}),
		enc("unknown-type", []byte{0, 2, 99}),
		{"fragment-1-of-1-empty", []byte("?OTR,1,1,,")},
		{"fragment-1-of-2", append(append([]byte("?OTR,1,2,"), c0[:len(c0)/2]...), ',')},
		{"fragment-2-of-2", append(append([]byte("?OTR,2,2,"), c0[len(c0)/2:]...), ',')},
	}
}

// craftedSequences: every sequence of crafted messages up to a depth, from the fresh
// state (and shorter ones from the encrypted state of either side).
func craftedSequences(c *vf.Ctx) {
	al := alphabet()
	type start struct {
		name  string
		stop  int
		party int
		depth int
	}
	d := 3
	if c.Thorough {
		d = 4
	}
	starts := []start{{"fresh", 0, 1, d}, {"encrypted (B)", 5, 1, d - 1}, {"encrypted (A)", 5, 0, d - 1}, {"awaiting DH key", 1, 1, d - 1}, {"awaiting signature", 3, 1, d - 1}}
	var total atomic.Int64
	for _, s := range starts {
		n := 1
		for i := 0; i < s.depth; i++ {
			n *= len(al)
		}
		c.ParallelFor(n, func(idx int) {
			var conv *otr.Conversation
			if s.stop == 0 {
				conv = &otr.Conversation{PrivateKey: dsaKeys[1], Rand: newDetRand("T4")}
			} else {
				conv = replayTo(c, "T", s.stop).p[s.party].conv
			}
			seq := make([]int, s.depth)
			for i, x := 0, idx; i < s.depth; i++ {
				seq[i] = x % len(al)
				x /= len(al)
			}
			for i, k := range seq {
				p, v, st := vf.Protect(func() { conv.Receive(al[k].wire) })
				c.Transition(1)
				if p {
					var names []string
					for _, kk := range seq[:i+1] {
						names = append(names, al[kk].name)
					}
					c.Violation(panicClass("Receive", v, st, nil),
						map[string]any{"pass": "T", "part": "crafted message sequences", "start_state": s.name, "sequence": names, "last_input": clip(al[k].wire), "panic": fmt.Sprint(v), "stack": firstLines(st, 30)})
					break
				}
			}
			c.State("T4|" + stateKey(conv))
			total.Add(1)
			c.Eval(1)
			c.TraceValidated(1)
		})
		c.Nontrivial("T4 " + s.name)
	}
	c.Set("totality_crafted_sequences", map[string]any{"alphabet": len(al), "depth_from_fresh": d, "depth_from_other_states": d - 1, "sequences": total.Load()})
}

// craftedSMP: SMP TLVs of every type with malformed or degenerate payloads, sent by
// the authenticated peer (a plaintext with an embedded NUL carries raw TLVs), into
// every SMP state of the receiver.
func craftedSMP(c *vf.Ctx) {
	p1536, _ := new(big.Int).SetString("FFFFFFFFFFFFFFFFC90FDAA22168C234C4C6628B80DC1CD129024E088A67CC74020BBEA63B139B22514A08798E3404DDEF9519B3CD3A431B302B0A6DF25F14374FE1356D6D51C245E485B576625E7EC6F44C42E9A637ED6B0BFF5CB6F406B7EDEE386BFB5A899FA5AE9F24117C4B1FE649286651ECE45B3DC2007CB8A163BF0598DA48361C55D39A69163FA8FD24CF5F83655D23DCA3AD961C62F356208552BB9ED529077096966D670C354E4ABC9804F1746C08CA237327FFFFFFFFFFFFFFFF", 16)
	vals := map[string][]byte{"zero": nil, "one": {1}}
	order := []string{"zero", "one"}
	if c.Thorough {
		vals["p-1"] = new(big.Int).Sub(p1536, big.NewInt(1)).Bytes()
		vals["p"] = p1536.Bytes()
		vals["2^1536"] = new(big.Int).Lsh(big.NewInt(1), 1536).Bytes()
		order = append(order, "p-1", "p", "2^1536")
	}
	type payload struct {
		name string
		b    []byte
	}
	var pls []payload
	pls = append(pls, payload{"empty", nil}, payload{"1 byte", []byte{0}}, payload{"3 bytes", []byte{0, 0, 0}}, payload{"count 2^32-1", be32(0xffffffff)}, payload{"count 21", be32(21)})
	counts := []int{0, 6, 8, 11}
	if c.Thorough {
		counts = []int{0, 1, 3, 6, 8, 11, 20}
	}
	for _, k := range counts {
		for _, vn := range order {
			b := be32(uint32(k))
			for i := 0; i < k; i++ {
				b = append(b, data(vals[vn])...)
			}
			pls = append(pls, payload{fmt.Sprintf("%d MPIs of value %s", k, vn), b})
		}
		if k > 0 {
			b := be32(uint32(k))
			for i := 0; i < k-1; i++ {
				b = append(b, data([]byte{1})...)
			}
			pls = append(pls, payload{fmt.Sprintf("count %d, one MPI missing", k), b})
			pls = append(pls, payload{fmt.Sprintf("count %d, last MPI length overruns", k), append(b, 0, 0, 1, 0, 7)})
		}
	}
	types := []uint16{2, 3, 4, 5, 6, 7, 8}
	if c.Thorough {
		types = append(types, 1, 0xffff)
	}
	// receiver states: (stop index of the reference conversation, party)
	type rs struct {
		name   string
		stop   int
		party  int
		manual bool // deliver the stopped message (SMP1) by hand, without answering it
	}
	states := []rs{{"no SMP running", 9, 1, false}, {"SMP1 received, secret not yet supplied", 9, 1, true}, {"initiator, expecting SMP2", 10, 0, false},
		{"responder, expecting SMP3", 11, 1, false}, {"initiator, expecting SMP4", 12, 0, false}}
	type cs struct {
		s  rs
		t  uint16
		pl payload
		q  bool
	}
	var cases []cs
	for _, s := range states {
		for _, t := range types {
			for _, pl := range pls {
				cases = append(cases, cs{s, t, pl, false})
				if t == 7 {
					cases = append(cases, cs{s, t, payload{"question + " + pl.name, append([]byte("q?\x00"), pl.b...)}, true})
				}
			}
		}
	}
	var mu sync.Mutex
	results := map[string]int{}
	var rebuilds atomic.Int64
	smpKey := func(e *exec) string {
		a, b := e.p[0].conv.VerifC47State(), e.p[1].conv.VerifC47State()
		return fmt.Sprint(a.State, a.AuthState, a.SMPState, a.SMPSaved, b.State, b.AuthState, b.SMPState, b.SMPSaved)
	}
	const chunk = 24
	nChunks := (len(cases) + chunk - 1) / chunk
	c.ParallelFor(nChunks, func(w int) {
		var e *exec
		var key0 string
		var cur rs
		build := func(s rs) bool {
			e = replayTo(c, "T", s.stop)
			if e.stopped == nil {
				return false
			}
			if s.manual {
				if r := protectedReceive(e.p[1].conv, e.stopped.whole); r.change != otr.SMPSecretNeeded {
					c.Violation("harness: SMP1 did not ask for the secret", nil)
					return false
				}
			}
			e.dead, e.q = false, nil
			e.netFault = 1
			key0, cur = smpKey(e), s
			rebuilds.Add(1)
			return true
		}
		for i := w * chunk; i < min((w+1)*chunk, len(cases)); i++ {
			k := cases[i]
			if e == nil || cur != k.s || smpKey(e) != key0 {
				if !build(k.s) {
					return
				}
			}
			to, from := e.p[k.s.party], e.p[1-k.s.party]
			// plaintext "x" NUL TLV(t, payload) and a final type-0 TLV that swallows what Send appends
			body := cat([]byte("x\x00"), []byte{byte(k.t >> 8), byte(k.t)}, []byte{byte(len(k.pl.b) >> 8), byte(len(k.pl.b))}, k.pl.b)
			total := len(body) + 4
			pad := 256 - ((total + 1 + 4) % 256)
			rest := 1 + 4 + pad
			body = append(body, 0, 0, byte(rest>>8), byte(rest))
			var wire [][]byte
			p, v, st := vf.Protect(func() { wire, _ = from.conv.Send(body) })
			if p {
				e.panicked("Send", v, st, from.conv, nil)
				flush(c, e)
				e = nil
				continue
			}
			before := stateKey(to.conv)
			for _, w := range wire {
				r := protectedReceive(to.conv, w)
				c.Transition(1)
				if r.panicked {
					c.Violation(panicClass("Receive", r.pval, r.stack, nil), map[string]any{"pass": "T", "part": "crafted SMP TLVs from the authenticated peer",
						"smp_state": k.s.name, "tlv_type": k.t, "payload": k.pl.name, "panic": fmt.Sprint(r.pval), "stack": firstLines(r.stack, 30)})
					e = nil
					break
				}
				if r.change == otr.SMPComplete {
					c.Violation("SMPComplete reported for a malformed SMP message", map[string]any{"smp_state": k.s.name, "tlv_type": k.t, "payload": k.pl.name})
				}
				if !bytes.Equal(r.out, []byte("x")) || !r.enc {
					c.Violation("the text part of a data message that carries TLVs was not delivered", map[string]any{"smp_state": k.s.name, "tlv_type": k.t, "payload": k.pl.name, "out": clip(r.out), "err": fmt.Sprint(r.err)})
				}
				mu.Lock()
				results[fmt.Sprintf("change=%d err=%v reply=%d", r.change, r.err != nil, len(r.toSend))]++
				mu.Unlock()
				// replies (aborts) go back to the sender
				for _, rep := range r.toSend {
					rr := protectedReceive(from.conv, rep)
					if rr.panicked {
						c.Violation(panicClass("Receive", rr.pval, rr.stack, nil), map[string]any{"pass": "T", "part": "reply to a crafted SMP TLV", "panic": fmt.Sprint(rr.pval)})
						e = nil
					}
				}
			}
			if e != nil {
				c.State("T5|" + before + ">" + stateKey(to.conv))
			}
			c.Eval(1)
			c.TraceValidated(1)
			c.Nontrivial(fmt.Sprintf("T5 %s t%d %s", k.s.name, k.t, k.pl.name))
		}
	})
	c.Set("totality_crafted_smp", map[string]any{"cases": len(cases), "payload_shapes": len(pls), "tlv_types": types, "receiver_states": len(states), "results": results, "state_rebuilds": rebuilds.Load()})
}
