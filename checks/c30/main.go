// C30: strict key exchange defeats prefix manipulation (Terrapin); IGNORE/DEBUG are
// transparent when strict mode is not negotiated. Fault-sequence enumeration on the
// real handshakeTransport + transport (framing, sequence numbers, real ciphers) against
// a scripted peer that inserts, deletes or reorders packets at every position.
package main

import (
	"fmt"

	"golang.org/x/crypto/ssh"
	"verif/schedx"
	"verif/vf"
)

func main() { vf.Main("C30", vf.ModelChecking, run) }

var actionName = []string{"none", "inject-IGNORE", "inject-DEBUG", "inject-UNIMPLEMENTED", "inject-KEXINIT", "inject-type199", "delete", "swap-with-next"}

func name(p ssh.VerifC30Params) string {
	role := "server"
	if p.GoIsClient {
		role = "client"
	}
	ff := ""
	if p.FirstFollows {
		ff = " first_kex_packet_follows(wrong guess)"
	}
	return fmt.Sprintf("go=%s peerStrict=%v cipher=%s%s %s@%d", role, p.PeerStrict, p.Cipher, ff, actionName[p.Action], p.Pos)
}

type want int

const (
	wantNothing     want = iota // only: no panic
	wantTransparent             // everything works as without the fault
	wantFail                    // the Go side must not complete the handshake
)

func expectation(p ssh.VerifC30Params) want {
	if p.Action == ssh.VerifC30None {
		return wantTransparent
	}
	if p.PeerStrict {
		lim := 2 // positions 0..2 lie before the peer's first NEWKEYS ...
		if p.FirstFollows {
			lim = 3 // ... one more when a guessed packet follows the KEXINIT
		}
		if p.Pos <= lim {
			return wantFail
		}
		// after the initial key exchange IGNORE and DEBUG are skipped in strict mode too -
		// also in the middle of a re-key, whose NEWKEYS must still restart the counters
		if p.Action == ssh.VerifC30InjectIgnore || p.Action == ssh.VerifC30InjectDebug {
			return wantTransparent
		}
		return wantNothing
	}
	if p.Action == ssh.VerifC30InjectIgnore || p.Action == ssh.VerifC30InjectDebug {
		return wantTransparent
	}
	return wantNothing
}

func eq(a, b []byte) bool { return string(a) == string(b) }

func check(p ssh.VerifC30Params) func(any) (string, string) {
	w := expectation(p)
	return func(obs any) (string, string) {
		r, _ := obs.(*ssh.VerifC30Result)
		if r == nil {
			return "", ""
		}
		n := name(p)
		switch w {
		case wantFail:
			if r.GoDone && r.GoErr == "" {
				return "strict KEX: handshake completed although the packet sequence before the first NEWKEYS was manipulated", n
			}
		case wantTransparent:
			if r.GoErr != "" || r.PeerErr != "" {
				return "handshake or session failed on an acceptable packet sequence", fmt.Sprintf("%s: go=%q peer=%q", n, r.GoErr, r.PeerErr)
			}
			if r.GoStrict != p.PeerStrict {
				return "strict mode flag differs from what was negotiated", fmt.Sprintf("%s: go strict=%v", n, r.GoStrict)
			}
			wantGo, wantPeer := []byte{}, []byte{}
			phases := 1
			if p.Rekey {
				phases = 2
			}
			for i := 0; i < phases*p.NData; i++ {
				wantGo = append(wantGo, byte(1+i))
				wantPeer = append(wantPeer, byte(100+i))
			}
			if !eq(r.GoGot, wantGo) || !eq(r.PeerGot, wantPeer) {
				return "application data lost or corrupted", fmt.Sprintf("%s: go got %v peer got %v", n, r.GoGot, r.PeerGot)
			}
			if r.PeerKexDone != phases {
				return "re-key did not complete", fmt.Sprintf("%s: %d key exchanges", n, r.PeerKexDone)
			}
			if p.PeerStrict {
				for i := range r.GoWriteSeq {
					if r.GoWriteSeq[i] != r.PeerRecvAfterNK[i] {
						return "strict KEX: outgoing sequence number not reset at NEWKEYS", fmt.Sprintf("%s: sample %d: writer seq %d, packets since NEWKEYS %d", n, i, r.GoWriteSeq[i], r.PeerRecvAfterNK[i])
					}
					if r.GoReadSeq[i] != r.PeerSentAfterNK[i] {
						return "strict KEX: incoming sequence number not reset at NEWKEYS", fmt.Sprintf("%s: sample %d: reader seq %d, packets since NEWKEYS %d", n, i, r.GoReadSeq[i], r.PeerSentAfterNK[i])
					}
				}
			}
		}
		return "", ""
	}
}

func deadlock(p ssh.VerifC30Params) func([]string) string {
	w := expectation(p)
	return func(blocked []string) string {
		r := ssh.VerifC30Last
		switch w {
		case wantTransparent:
			return "" // a hang on an acceptable sequence is a violation (generic class)
		case wantFail:
			if r != nil && r.GoDone && r.GoErr == "" {
				return "strict KEX: handshake completed although the packet sequence before the first NEWKEYS was manipulated"
			}
		}
		return "-"
	}
}

func outcome(obs any) string {
	r, _ := obs.(*ssh.VerifC30Result)
	if r == nil {
		return "<nil>"
	}
	e := r.GoErr
	if len(e) > 40 {
		e = e[:40]
	}
	return fmt.Sprintf("goErr=%q kex=%d strict=%v got=%d/%d seq=%v/%v", e, r.PeerKexDone, r.GoStrict, len(r.GoGot), len(r.PeerGot), r.GoWriteSeq, r.GoReadSeq)
}

func run(c *vf.Ctx) {
	ciphers := []string{"chacha20-poly1305@openssh.com", "aes128-ctr"}
	if c.Thorough {
		ciphers = append(ciphers, "aes128-gcm@openssh.com", "aes128-cbc")
	}
	bound := 0
	if c.Thorough {
		bound = 1
	}
	c.Rule("for role{client,server} x peer offers strict{yes,no} x cipher x every position 0..9 of the peer's packet sequence (initial KEXINIT/kex/NEWKEYS, data, re-key KEXINIT/kex/NEWKEYS, data) x action{inject IGNORE/DEBUG/UNIMPLEMENTED/2nd KEXINIT/unknown type, delete, swap with successor} plus the fault-free runs; the same grid (positions 0..10) for a peer whose KEXINIT announces a wrongly guessed first kex packet and sends it (first cipher in quick, all in thorough); default schedule (thorough: <=1 deviation); oracle: strict + manipulation before first NEWKEYS => Go side never completes the handshake; fault-free and (non-strict) IGNORE/DEBUG runs fully transparent incl. re-key; strict => both sequence numbers restart at 0 after every NEWKEYS (read from the transport, compared with the peer's packet counts)")
	c.Assume("the scripted peer stands for a network attacker in the cleartext phase (it sees and re-frames cleartext packets) and for a non-strict implementation when it withholds the marker")
	var scs []schedx.Scenario
	for _, goClient := range []bool{true, false} {
		for _, strict := range []bool{true, false} {
			for _, ci := range ciphers {
				base := ssh.VerifC30Params{GoIsClient: goClient, PeerStrict: strict, Cipher: ci, Rekey: true, NData: 2}
				add := func(p ssh.VerifC30Params) {
					scs = append(scs, schedx.Scenario{Name: name(p), Group: fmt.Sprintf("goClient=%v peerStrict=%v", goClient, strict), Bound: bound,
						Body: func() any { return ssh.VerifC30Run(p) }, Check: check(p), Outcome: outcome, DeadlockClass: deadlock(p)})
				}
				add(base)
				for pos := 0; pos <= 9; pos++ {
					for a := 1; a < ssh.VerifC30NActions; a++ {
						p := base
						p.Pos, p.Action = pos, a
						add(p)
					}
				}
				// the peer's KEXINIT announces a guessed first packet (wrong guess): one more packet
				// before the first NEWKEYS that the Go side has to discard - exactly one
				if ci == ciphers[0] || c.Thorough {
					fb := base
					fb.FirstFollows = true
					add(fb)
					for pos := 0; pos <= 10; pos++ {
						for a := 1; a < ssh.VerifC30NActions; a++ {
							p := fb
							p.Pos, p.Action = pos, a
							add(p)
						}
					}
				}
			}
		}
	}
	schedx.Explore(c, scs)
}
