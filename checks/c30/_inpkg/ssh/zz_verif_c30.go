package ssh

// Harness for property C30 (strict KEX defeats prefix manipulation). The Go side under
// test is a real handshakeTransport over a real transport (packet framing, sequence
// numbers, ciphers) on an in-memory byte pipe. The other end is a scripted peer that
// plays the network attacker's view of the cleartext handshake: it can offer or
// withhold the strict-KEX marker and insert, delete or reorder packets at any
// position of its own packet sequence.

import (
	"crypto/ed25519"
	"errors"
	"fmt"
	"io"
	"net"
	"slices"
	"sync"
)

// ---- byte pipe built from sync primitives (instrumented) ----

type verifByteHalf struct {
	mu     sync.Mutex
	cond   *sync.Cond
	buf    []byte
	closed bool
}

type verifByteConn struct{ in, out *verifByteHalf }

func verifBytePipe() (a, b *verifByteConn) {
	x, y := &verifByteHalf{}, &verifByteHalf{}
	x.cond, y.cond = sync.NewCond(&x.mu), sync.NewCond(&y.mu)
	return &verifByteConn{in: x, out: y}, &verifByteConn{in: y, out: x}
}

func (c *verifByteConn) Read(p []byte) (int, error) {
	c.in.mu.Lock()
	defer c.in.mu.Unlock()
	for len(c.in.buf) == 0 {
		if c.in.closed {
			return 0, io.EOF
		}
		c.in.cond.Wait()
	}
	n := copy(p, c.in.buf)
	c.in.buf = c.in.buf[n:]
	return n, nil
}

func (c *verifByteConn) Write(p []byte) (int, error) {
	c.out.mu.Lock()
	defer c.out.mu.Unlock()
	if c.out.closed {
		return 0, io.ErrClosedPipe
	}
	c.out.buf = append(c.out.buf, p...)
	c.out.cond.Broadcast()
	return len(p), nil
}

func (c *verifByteConn) Close() error {
	for _, h := range []*verifByteHalf{c.in, c.out} {
		h.mu.Lock()
		h.closed = true
		h.cond.Broadcast()
		h.mu.Unlock()
	}
	return nil
}

// ---- fault injection on the scripted peer's own packet sequence ----

const (
	VerifC30None = iota
	VerifC30InjectIgnore
	VerifC30InjectDebug
	VerifC30InjectUnimplemented
	VerifC30InjectKexInit
	VerifC30InjectUnknown
	VerifC30Delete
	VerifC30Swap
	VerifC30NActions
)

type verifFaultConn struct {
	sentAfterNK, sentTotal uint32 // packets actually put on the wire by the scripted peer
	recvAfterNK, recvTotal uint32 // packets read from the Go side
	t                      *transport
	n                      int // packets written so far by the scripted peer (its own sequence positions)
	pos                    int
	action                 int
	held                   []byte
	extra                  func() []byte // a second KEXINIT
}

func (f *verifFaultConn) readPacket() ([]byte, error) {
	p, err := f.t.readPacket()
	if err == nil {
		f.recvTotal++
		f.recvAfterNK++
		if p[0] == msgNewKeys {
			f.recvAfterNK = 0
		}
	}
	return p, err
}
func (f *verifFaultConn) raw(p []byte) error {
	typ := p[0] // writePacket may scramble p
	err := f.t.writePacket(p)
	if err == nil {
		f.sentTotal++
		f.sentAfterNK++
		if typ == msgNewKeys {
			f.sentAfterNK = 0
		}
	}
	return err
}
func (f *verifFaultConn) Close() error { return f.t.Close() }
func (f *verifFaultConn) writePacket(p []byte) error {
	i := f.n
	f.n++
	cp := func(b []byte) []byte { return append([]byte(nil), b...) }
	if f.action != VerifC30None && i == f.pos {
		switch f.action {
		case VerifC30InjectIgnore:
			if err := f.raw(Marshal(ignoreMsg{Data: "x"})); err != nil {
				return err
			}
		case VerifC30InjectDebug:
			if err := f.raw(Marshal(debugMsg{Message: "x"})); err != nil {
				return err
			}
		case VerifC30InjectUnimplemented:
			if err := f.raw(Marshal(unimplementedMsg{SeqNum: 0})); err != nil {
				return err
			}
		case VerifC30InjectKexInit:
			if err := f.raw(f.extra()); err != nil {
				return err
			}
		case VerifC30InjectUnknown:
			if err := f.raw([]byte{199, 1, 2, 3}); err != nil {
				return err
			}
		case VerifC30Delete:
			return nil
		case VerifC30Swap:
			f.held = cp(p)
			return nil
		}
	}
	if err := f.raw(cp(p)); err != nil {
		return err
	}
	if f.held != nil {
		h := f.held
		f.held = nil
		return f.raw(h)
	}
	return nil
}

type ignoreMsg struct {
	Data string `sshtype:"2"`
}
type debugMsg struct {
	AlwaysDisplay bool `sshtype:"4"`
	Message       string
	Language      string
}
type unimplementedMsg struct {
	SeqNum uint32 `sshtype:"3"`
}

var verifC30HostKey = func() Signer {
	s, _ := NewSignerFromKey(ed25519.NewKeyFromSeed(make([]byte, 32)))
	return s
}()

type verifC30Rand struct{ n byte }

func (r *verifC30Rand) Read(p []byte) (int, error) {
	for i := range p {
		r.n += 13
		p[i] = r.n
	}
	return len(p), nil
}

// VerifC30Params describes one scenario.
type VerifC30Params struct {
	GoIsClient bool // role of the Go side under test (the scripted peer plays the other role)
	PeerStrict bool // scripted peer offers the strict-KEX marker
	Cipher     string
	Pos        int // position in the scripted peer's packet sequence (0 = before its KEXINIT)
	Action     int
	Rekey      bool // after the first data exchange the Go side requests a re-key
	NData      int  // application packets each way per phase
	// FirstFollows: the scripted peer's first KEXINIT sets first_kex_packet_follows, lists a key
	// exchange method first that the Go side does not have first (a wrong guess, RFC 4253 7.1)
	// and sends one guessed packet right after its KEXINIT, which the Go side must discard.
	FirstFollows bool
}

// VerifC30Result is the observation of one execution.
type VerifC30Result struct {
	GoErr          string // error of the Go side's waitSession ("" = handshake completed)
	GoDone         bool   // waitSession returned
	PeerErr        string
	PeerKexDone    int // key exchanges the scripted peer completed
	GoStrict       bool
	GoGot, PeerGot []byte // application packet tags received, in order
	// sequence numbers of the Go side's transport sampled right after the first data phase
	// and right after the second (post re-key) data phase
	GoWriteSeq, GoReadSeq          []uint32
	PeerSentAfterNK, PeerSentTotal []uint32 // what the scripted peer put on the wire (since its last NEWKEYS / in total) at the sampling points
	PeerRecvAfterNK, PeerRecvTotal []uint32 // what it read from the Go side (since the Go side's last NEWKEYS / in total)
}

type verifC30Peer struct {
	p               VerifC30Params
	tr              *transport
	fc              *verifFaultConn
	isClient        bool
	strict          bool
	session         []byte
	extInfoExpected bool
}

func (s *verifC30Peer) write(pkt []byte) error { return s.fc.writePacket(pkt) }

// kex runs one key exchange from the scripted peer's side. otherInit is non-nil if the
// other side's KEXINIT has already been read.
func (s *verifC30Peer) kex(first bool, otherInitPacket []byte) error {
	v := []byte("SSH-2.0-verif")
	init := &kexInitMsg{
		KexAlgos:                []string{KeyExchangeCurve25519},
		ServerHostKeyAlgos:      []string{KeyAlgoED25519},
		CiphersClientServer:     []string{s.p.Cipher},
		CiphersServerClient:     []string{s.p.Cipher},
		MACsClientServer:        []string{HMACSHA256},
		MACsServerClient:        []string{HMACSHA256},
		CompressionClientServer: []string{"none"},
		CompressionServerClient: []string{"none"},
	}
	if first {
		if s.isClient {
			init.KexAlgos = append(init.KexAlgos, "ext-info-c")
		}
		if s.p.PeerStrict {
			if s.isClient {
				init.KexAlgos = append(init.KexAlgos, kexStrictClient)
			} else {
				init.KexAlgos = append(init.KexAlgos, kexStrictServer)
			}
		}
	}
	follows := first && s.p.FirstFollows
	if follows {
		init.FirstKexFollows = true
		init.KexAlgos = append([]string{"verif-guessed-kex@verif.invalid"}, init.KexAlgos...)
	}
	myPacket := Marshal(init)
	s.fc.extra = func() []byte { return append([]byte(nil), myPacket...) }
	if err := s.write(myPacket); err != nil {
		return err
	}
	if follows {
		// the guessed first packet of the method that was not agreed: a KEXDH_INIT/REPLY-numbered packet
		guess := []byte{msgKexDHInit, 0, 0, 0, 3, 'g', 'u', 'e'}
		if !s.isClient {
			guess[0] = msgKexDHReply
		}
		if err := s.write(guess); err != nil {
			return err
		}
	}
	if otherInitPacket == nil {
		var err error
		otherInitPacket, err = s.fc.readPacket()
		if err != nil {
			return err
		}
		if otherInitPacket[0] != msgKexInit {
			return fmt.Errorf("peer: expected KEXINIT, got %d", otherInitPacket[0])
		}
	}
	other := &kexInitMsg{}
	if err := Unmarshal(otherInitPacket, other); err != nil {
		return err
	}
	magics := handshakeMagics{clientVersion: v, serverVersion: v}
	clientInit, serverInit := init, other
	magics.clientKexInit, magics.serverKexInit = myPacket, otherInitPacket
	if !s.isClient {
		clientInit, serverInit = other, init
		magics.clientKexInit, magics.serverKexInit = otherInitPacket, myPacket
	}
	algs, err := findAgreedAlgorithms(s.isClient, clientInit, serverInit)
	if err != nil {
		return err
	}
	if first && s.p.PeerStrict {
		goOffers := (s.isClient && slices.Contains(serverInit.KexAlgos, kexStrictServer)) || (!s.isClient && slices.Contains(clientInit.KexAlgos, kexStrictClient))
		if goOffers {
			s.strict = true
			// the scripted peer follows the protocol itself (its reader has seen exactly the Go
			// side's KEXINIT at this point, so the sequence-number precondition holds)
			if err := s.tr.setStrictMode(); err != nil {
				return err
			}
		}
	}
	if first && !s.isClient && slices.Contains(clientInit.KexAlgos, "ext-info-c") {
		s.extInfoExpected = false // we are the server: we would send it; the scripted server does not
	}
	if first && s.isClient {
		s.extInfoExpected = true
	}
	kex := kexAlgoMap[algs.KeyExchange]
	var result *kexResult
	if s.isClient {
		result, err = kex.Client(s.fc, &verifC30Rand{n: 50}, &magics)
		if err == nil {
			var hk PublicKey
			hk, err = ParsePublicKey(result.HostKey)
			if err == nil {
				err = verifyHostKeySignature(hk, algs.HostKey, result)
			}
		}
	} else {
		result, err = kex.Server(s.fc, &verifC30Rand{n: 60}, &magics, verifC30HostKey.(AlgorithmSigner), algs.HostKey)
	}
	if err != nil {
		return err
	}
	if s.session == nil {
		s.session = result.H
	}
	result.SessionID = s.session
	if err := s.tr.prepareKeyChange(algs, result); err != nil {
		return err
	}
	if err := s.write([]byte{msgNewKeys}); err != nil {
		return err
	}
	pkt, err := s.fc.readPacket()
	if err != nil {
		return err
	}
	if pkt[0] != msgNewKeys {
		return fmt.Errorf("peer: expected NEWKEYS, got %d", pkt[0])
	}
	if first {
		s.tr.setInitialKEXDone()
	}
	return nil
}

// VerifC30Last is the (possibly partial) observation of the execution in progress; the
// driver looks at it when an execution ends in a deadlock (a handshake that never
// completes because a packet was deleted).
var VerifC30Last *VerifC30Result

// VerifC30Run runs one scenario. The body plays the scripted peer; the Go side runs in
// its own goroutines.
func VerifC30Run(p VerifC30Params) *VerifC30Result {
	res := &VerifC30Result{}
	VerifC30Last = res
	ca, cb := verifBytePipe()
	v := []byte("SSH-2.0-verif")
	var goT *handshakeTransport
	var goTr *transport
	if p.GoIsClient {
		cc := &ClientConfig{HostKeyCallback: func(string, net.Addr, PublicKey) error { return nil }}
		cc.Rand = &verifC30Rand{}
		cc.KeyExchanges = []string{KeyExchangeCurve25519}
		cc.Ciphers = []string{p.Cipher}
		cc.MACs = []string{HMACSHA256}
		cc.SetDefaults()
		goTr = newTransport(ca, cc.Rand, true)
		goT = newClientTransport(goTr, v, v, cc, "addr", nil)
	} else {
		sc := &ServerConfig{}
		sc.Rand = &verifC30Rand{n: 100}
		sc.KeyExchanges = []string{KeyExchangeCurve25519}
		sc.Ciphers = []string{p.Cipher}
		sc.MACs = []string{HMACSHA256}
		sc.AddHostKey(verifC30HostKey)
		sc.SetDefaults()
		goTr = newTransport(ca, sc.Rand, false)
		goT = newServerTransport(goTr, v, v, sc)
	}
	peer := &verifC30Peer{p: p, isClient: !p.GoIsClient}
	peer.tr = newTransport(cb, &verifC30Rand{n: 7}, peer.isClient)
	peer.fc = &verifFaultConn{t: peer.tr, pos: p.Pos, action: p.Action}

	var mu sync.Mutex
	sessionUp := make(chan struct{})
	goReaderDone := make(chan struct{})
	sample := make(chan struct{}, 4)
	// the Go side: wait for the session, then read application packets forever and
	// echo nothing; a writer sends NData packets per phase when told to
	phase := make(chan int, 4)
	go func() {
		defer close(goReaderDone)
		err := goT.waitSession()
		mu.Lock()
		res.GoDone = true
		if err != nil {
			res.GoErr = err.Error()
		}
		res.GoStrict = goT.strictMode
		mu.Unlock()
		close(sessionUp)
		if err != nil {
			return
		}
		for {
			pkt, err := goT.readPacket()
			if err != nil {
				return
			}
			if pkt[0] == msgChannelData && len(pkt) >= 2 {
				mu.Lock()
				res.GoGot = append(res.GoGot, pkt[1])
				mu.Unlock()
			}
		}
	}()
	goWriterDone := make(chan struct{})
	go func() {
		defer close(goWriterDone)
		<-sessionUp
		tag := byte(100)
		for ph := range phase {
			if ph == 2 {
				goT.requestKeyExchange()
			}
			for i := 0; i < p.NData; i++ {
				if err := goT.writePacket([]byte{msgChannelData, tag, 0, 0, 0}); err != nil {
					return
				}
				tag++
			}
			sample <- struct{}{}
		}
	}()

	fail := func(err error) *VerifC30Result {
		mu.Lock()
		res.PeerErr = err.Error()
		mu.Unlock()
		cb.Close()
		ca.Close()
		<-goReaderDone
		close(phase)
		<-goWriterDone
		return res
	}
	if err := peer.kex(true, nil); err != nil {
		return fail(err)
	}
	res.PeerKexDone = 1
	// data phases
	ptag := byte(1)
	peerRecv := func(n int, wantKex int) error {
		for n > 0 || res.PeerKexDone < wantKex {
			pkt, err := peer.fc.readPacket()
			if err != nil {
				return err
			}
			switch pkt[0] {
			case msgChannelData:
				res.PeerGot = append(res.PeerGot, pkt[1])
				n--
			case msgExtInfo:
			case msgKexInit:
				if err := peer.kex(false, pkt); err != nil {
					return err
				}
				res.PeerKexDone++
			default:
				return fmt.Errorf("peer: unexpected packet type %d", pkt[0])
			}
		}
		return nil
	}
	phases := 1
	if p.Rekey {
		phases = 2
	}
	for ph := 1; ph <= phases; ph++ {
		// the fault position may lie in this phase (positions after the peer's first NEWKEYS)
		for i := 0; i < p.NData; i++ {
			if err := peer.write([]byte{msgChannelData, ptag, 0, 0, 0}); err != nil {
				return fail(err)
			}
			ptag++
		}
		<-sessionUp
		mu.Lock()
		goFailed := res.GoErr != ""
		mu.Unlock()
		if goFailed {
			return fail(errors.New("go side failed"))
		}
		phase <- ph
		if err := peerRecv(p.NData, ph); err != nil {
			return fail(err)
		}
		<-sample
		verifWaitIdle() // let the Go reader consume what the peer sent
		mu.Lock()
		res.GoWriteSeq = append(res.GoWriteSeq, goTr.writer.seqNum)
		res.GoReadSeq = append(res.GoReadSeq, goTr.reader.seqNum)
		res.PeerSentAfterNK = append(res.PeerSentAfterNK, peer.fc.sentAfterNK)
		res.PeerSentTotal = append(res.PeerSentTotal, peer.fc.sentTotal)
		res.PeerRecvAfterNK = append(res.PeerRecvAfterNK, peer.fc.recvAfterNK)
		res.PeerRecvTotal = append(res.PeerRecvTotal, peer.fc.recvTotal)
		mu.Unlock()
	}
	cb.Close()
	ca.Close()
	<-goReaderDone
	close(phase)
	<-goWriterDone
	return res
}
