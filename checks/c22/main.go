// C22: cryptobyte Builder output parses back to the values written.
//
// Programs (forests of Builder operations) are enumerated exhaustively:
//
//	A  every forest with at most 4 operations (nesting depth therefore up to 4) over
//	   24 leaf operations and 7 node operations (quick: the 65535/65536-byte leaves
//	   only in forests of at most 3 operations); thorough adds every forest of exactly
//	   5 operations over a reduced alphabet of 12 leaves and 4 nodes,
//	B  every chain of up to 3 (thorough 4) nested length-prefix kinds around every
//	   content size within 14 below .. 1 above each boundary 128 / 256 / 65536
//	   (thorough: within 8 below .. 1 above 2^24 for chains up to depth 2, plain
//	   content, 2 sibling layouts), x 3 ways of producing the content
//	   (Bytes(k) | Bytes(k+1) Unwrite(1) | U8 Bytes(k-1); for the 64K sizes the last
//	   two only on single-level chains) x 4 sibling layouts,
//	C  AddASN1 with every identifier octet 0..255 x content sizes {0,127,128},
//	E  the chains of B (depth <= 2, thorough 3) around 18 content sizes on either side of
//	   bit 7 / bit 15 of the length and with zero / all-one low octets away from the
//	   2^8 / 2^16 boundaries (0x1ff..0x201, 0x7ffe..0x8001, 0xff00, 0x10100, 0x20000 ...),
//	Q24 (both tiers) 14 fixed programs at the 2^24 boundary: content 2^24-1, 2^24,
//	   2^24+5 under a 24-bit prefix, a 32-bit prefix, AddASN1, and a 24-bit prefix
//	   nested in a 32-bit prefix; a 24-bit prefix around an ASN.1 element of total
//	   size 2^24-1 / 2^24.
//
// Every program runs on the real Builder (zero value; and, except for the largest
// class of family A and three of the four sibling layouts of the >4096-byte programs
// of family B, NewBuilder over a short non-empty buffer that must reallocate) and its outcome is compared with the
// reference model verif/ref/cbref: error / panic / bytes, byte-for-byte output,
// and the mirrored cryptobyte.String reads must recover every value and leave
// nothing. Every program that yields bytes is then run on NewFixedBuilder for
// every capacity class (for each append of the program: the capacity at which
// exactly that append is the first one not to fit; plus exact fit and one spare).
//
// Hardening dimensions on every run: AddBytes gets a private copy (sentinels in its spare
// capacity) that is wiped when the call returns; String reads go into pre-loaded
// destinations, are repeated through Skip/ReadBytes, and on the output cut by one byte
// must fail without panicking; Bytes() is a pure query (asked between top-level
// operations, twice at the end, and through BytesOrPanic).
package main

import (
	"bytes"
	"encoding/json"
	"fmt"
	"hash/maphash"
	"os"
	"runtime"
	"runtime/pprof"
	"sort"
	"strings"
	"sync"
	"time"
	"unsafe"

	"golang.org/x/crypto/cryptobyte"
	"golang.org/x/crypto/cryptobyte/asn1"
	"verif/ref/cbref"
	"verif/vf"
)

func main() { vf.Main("C22", vf.ModelChecking, run) }

// ---------------------------------------------------------------------------
// running a program on the real Builder
// ---------------------------------------------------------------------------

type idErr struct{ id int }

func (e idErr) Error() string { return fmt.Sprintf("c22 error #%d", e.id) }

type userPanicVal struct{ id int }

type realRun struct {
	root *cryptobyte.Builder
	vals *cbref.Values
	ops  int
	// probe: call Bytes() on the root between top-level operations (it must be a pure query).
	probe bool
	// sentinelHit: AddBytes wrote into the spare capacity of the caller's slice.
	sentinelHit bool
}

// clobberPool holds the private buffers that AddBytes arguments are copied into; each is
// overwritten as soon as AddBytes has returned (the caller owns its slice).
var clobberPool = sync.Pool{New: func() any { b := make([]byte, 1<<16+1024); return &b }}

const sentinelLen = 8

// addBytesOwned passes a private copy of src (with sentinel bytes in its spare capacity)
// to AddBytes and wipes the copy afterwards.
func (r *realRun) addBytesOwned(b *cryptobyte.Builder, src []byte) {
	bp := clobberPool.Get().(*[]byte)
	if len(*bp) < len(src)+sentinelLen {
		*bp = make([]byte, len(src)+sentinelLen+1024)
	}
	buf := *bp
	p := buf[:len(src)]
	copy(p, src)
	tail := buf[len(src) : len(src)+sentinelLen]
	for i := range tail {
		tail[i] = 0xA5
	}
	defer func() {
		// also on a panic out of AddBytes (misuse): wipe and hand the buffer back
		for i := range p {
			p[i] ^= 0xFF
		}
		for _, x := range tail {
			if x != 0xA5 {
				r.sentinelHit = true
			}
		}
		if len(buf) <= 1<<17 {
			clobberPool.Put(bp)
		}
	}()
	b.AddBytes(p)
}

type marshaler struct {
	r     *realRun
	op    *cbref.Op
	depth int
}

func (m marshaler) Marshal(b *cryptobyte.Builder) error {
	m.r.exec(m.op.Kids, b, m.depth)
	if m.op.Arg == 1 {
		return idErr{m.op.ID}
	}
	return nil
}

func (r *realRun) exec(ops []*cbref.Op, b *cryptobyte.Builder, depth int) {
	for _, op := range ops {
		r.ops++
		v := r.vals.Int(op.ID)
		switch op.Kind {
		case cbref.U8:
			b.AddUint8(uint8(v))
		case cbref.U16:
			b.AddUint16(uint16(v))
		case cbref.U24:
			b.AddUint24(uint32(v)) // top byte non-zero: documented to be dropped
		case cbref.U32:
			b.AddUint32(uint32(v))
		case cbref.U48:
			b.AddUint48(v & (1<<48 - 1))
		case cbref.U64:
			b.AddUint64(v)
		case cbref.Bytes:
			r.addBytesOwned(b, r.vals.Bytes(op.ID, op.Arg))
		case cbref.Unwrite:
			b.Unwrite(op.Arg)
		case cbref.SetError:
			b.SetError(idErr{op.ID})
		case cbref.PanicBuildError:
			panic(cryptobyte.BuildError{Err: idErr{op.ID}})
		case cbref.PanicOther:
			panic(userPanicVal{op.ID})
		case cbref.RootWrite:
			r.root.AddUint8(uint8(v))
		case cbref.ASN1BadTag:
			b.AddASN1(asn1.Tag(op.Arg), func(c *cryptobyte.Builder) { c.AddUint8(0x55) })
		case cbref.LP8:
			b.AddUint8LengthPrefixed(func(c *cryptobyte.Builder) { r.exec(op.Kids, c, depth+1) })
		case cbref.LP16:
			b.AddUint16LengthPrefixed(func(c *cryptobyte.Builder) { r.exec(op.Kids, c, depth+1) })
		case cbref.LP24:
			b.AddUint24LengthPrefixed(func(c *cryptobyte.Builder) { r.exec(op.Kids, c, depth+1) })
		case cbref.LP32:
			b.AddUint32LengthPrefixed(func(c *cryptobyte.Builder) { r.exec(op.Kids, c, depth+1) })
		case cbref.ASN1:
			b.AddASN1(asn1.Tag(op.Arg), func(c *cryptobyte.Builder) { r.exec(op.Kids, c, depth+1) })
		case cbref.AddValue:
			b.AddValue(marshaler{r, op, depth})
		}
		if r.probe && depth == 0 && b == r.root {
			r.root.Bytes()
		}
	}
}

type realRes struct {
	kind string // bytes | error | panic-user | panic-misuse | panic-internal | panic-runtime
	out  []byte
	err  error
	pid  int
	pval string
	ops  int
	// irregular: a side condition checked by the harness itself failed (AddBytes wrote into
	// the caller's slice, Bytes is not idempotent, BytesOrPanic disagrees with Bytes).
	irregular string
}

// protect is vf.Protect without the stack trace (a large share of the programs panics on purpose).
func protect(f func()) (panicked bool, val any) {
	defer func() {
		if r := recover(); r != nil {
			panicked, val = true, r
		}
	}()
	f()
	return
}

func runReal(prog []*cbref.Op, vals *cbref.Values, b *cryptobyte.Builder, probe bool) (res realRes) {
	r := &realRun{root: b, vals: vals, probe: probe}
	panicked, val := protect(func() { r.exec(prog, b, 0) })
	res.ops = r.ops
	if r.sentinelHit {
		res.irregular = "AddBytes wrote into the spare capacity of the caller's slice"
	}
	if panicked {
		res.pval = fmt.Sprint(val)
		switch p := val.(type) {
		case userPanicVal:
			res.kind, res.pid = "panic-user", p.id
		case cryptobyte.BuildError:
			res.kind = "panic-user"
			if e, ok := p.Err.(idErr); ok {
				res.pid = e.id
			} else {
				res.pid = -99
			}
		case string:
			switch {
			case strings.Contains(p, "internal error") || strings.Contains(p, "reallocated"):
				res.kind = "panic-internal"
			case strings.HasPrefix(p, "cryptobyte: attempted"):
				res.kind = "panic-misuse"
			default:
				res.kind = "panic-runtime"
			}
		default:
			res.kind = "panic-runtime"
		}
		return
	}
	var out []byte
	var err error
	if p, v := protect(func() { out, err = b.Bytes() }); p {
		res.kind, res.pval = "panic-runtime", "Bytes(): "+fmt.Sprint(v)
		return
	}
	// Bytes is a query: asking again, and asking through BytesOrPanic, gives the same answer.
	var out2, out3 []byte
	var err2 error
	if p, v := protect(func() { out2, err2 = b.Bytes() }); p {
		res.kind, res.pval = "panic-runtime", "second Bytes(): "+fmt.Sprint(v)
		return
	}
	p3, v3 := protect(func() { out3 = b.BytesOrPanic() })
	switch {
	case (err == nil) != (err2 == nil) || err != nil && err != err2:
		res.irregular = "second Bytes() returns a different error state"
	case err == nil && !(len(out) == len(out2) && (len(out) == 0 || sameBacking(out, out2))):
		res.irregular = "second Bytes() returns a different slice"
	case err == nil && p3:
		res.irregular = "BytesOrPanic panics although Bytes returns no error: " + fmt.Sprint(v3)
	case err == nil && !(len(out) == len(out3) && (len(out) == 0 || sameBacking(out, out3))):
		res.irregular = "BytesOrPanic returns a different slice than Bytes"
	case err != nil && !p3:
		res.irregular = "BytesOrPanic does not panic although Bytes returns an error"
	case err != nil && v3 != any(err):
		res.irregular = "BytesOrPanic panics with a value other than the error from Bytes"
	}
	if err != nil {
		res.kind, res.err = "error", err
		if out != nil {
			res.kind = "error-with-bytes"
		}
		return
	}
	res.kind, res.out = "bytes", out
	return
}

// ---------------------------------------------------------------------------
// mirrored reads
// ---------------------------------------------------------------------------

// readItems performs the mirrored reads. Every destination is pre-loaded with a non-zero
// value of a different length (a reader must assign, not merge). With alt set the byte
// strings are consumed through the other reader (Skip instead of ReadBytes, ReadBytes
// instead of CopyBytes).
func readItems(s *cryptobyte.String, items []cbref.Item, alt bool) string {
	for i := range items {
		it := &items[i]
		switch it.Kind {
		case cbref.ItInt:
			got := ^uint64(0)
			ok := false
			switch it.Width {
			case 1:
				v := uint8(0xFF)
				ok = s.ReadUint8(&v)
				got = uint64(v)
			case 2:
				v := uint16(0xFFFF)
				ok = s.ReadUint16(&v)
				got = uint64(v)
			case 3:
				v := uint32(0xFFFFFFFF)
				ok = s.ReadUint24(&v)
				got = uint64(v)
			case 4:
				v := uint32(0xFFFFFFFF)
				ok = s.ReadUint32(&v)
				got = uint64(v)
			case 6:
				ok = s.ReadUint48(&got)
			case 8:
				ok = s.ReadUint64(&got)
			}
			if !ok {
				return fmt.Sprintf("ReadUint%d failed", it.Width*8)
			}
			if got != it.Val {
				return fmt.Sprintf("ReadUint%d returned a different value", it.Width*8)
			}
		case cbref.ItBytes:
			if len(it.Data) == 0 && *s == nil {
				continue // reading zero bytes from a nil String reports failure; not part of the property
			}
			if alt {
				before := *s
				if !s.Skip(len(it.Data)) {
					return "Skip failed"
				}
				if len(before)-len(*s) != len(it.Data) || !bytes.Equal(before[:len(it.Data)], it.Data) {
					return "Skip advanced over different bytes"
				}
				continue
			}
			out := []byte{9, 9, 9, 9, 9}
			if !s.ReadBytes(&out, len(it.Data)) {
				return "ReadBytes failed"
			}
			if !bytes.Equal(out, it.Data) {
				return "ReadBytes returned different bytes"
			}
		case cbref.ItRaw:
			if len(it.Data) == 0 && *s == nil {
				continue
			}
			if alt {
				out := []byte{7, 7, 7}
				if !s.ReadBytes(&out, len(it.Data)) {
					return "ReadBytes failed"
				}
				if !bytes.Equal(out, it.Data) {
					return "ReadBytes returned different bytes"
				}
				continue
			}
			out := make([]byte, len(it.Data))
			for j := range out {
				out[j] = 0xEE
			}
			if !s.CopyBytes(out) {
				return "CopyBytes failed"
			}
			if !bytes.Equal(out, it.Data) {
				return "CopyBytes returned different bytes"
			}
		case cbref.ItLP:
			child := cryptobyte.String{1, 2, 3, 4, 5, 6, 7}
			ok := false
			switch it.Width {
			case 1:
				ok = s.ReadUint8LengthPrefixed(&child)
			case 2:
				ok = s.ReadUint16LengthPrefixed(&child)
			case 3:
				ok = s.ReadUint24LengthPrefixed(&child)
			case 4:
				n := uint32(0xFFFFFFFF)
				ok = s.ReadUint32(&n) && s.ReadBytes((*[]byte)(&child), int(n))
			}
			if !ok {
				return fmt.Sprintf("ReadUint%dLengthPrefixed failed", it.Width*8)
			}
			if m := readItems(&child, it.Kids, alt); m != "" {
				return fmt.Sprintf("in %d-bit prefixed child: %s", it.Width*8, m)
			}
			if !child.Empty() {
				return fmt.Sprintf("%d-bit prefixed child has bytes left over", it.Width*8)
			}
		case cbref.ItASN1:
			cp := *s
			el, child := cryptobyte.String{0x30, 0x01, 0x00}, cryptobyte.String{0xFF, 0xFF}
			if !cp.ReadASN1Element(&el, asn1.Tag(it.Tag)) {
				return "ReadASN1Element failed"
			}
			if !s.ReadASN1(&child, asn1.Tag(it.Tag)) {
				return "ReadASN1 failed"
			}
			if len(cp) != len(*s) || !bytes.HasSuffix(el, child) || len(el) != len(child)+1+len(cbref.DERLength(len(child))) {
				return "ReadASN1Element and ReadASN1 disagree"
			}
			if m := readItems(&child, it.Kids, alt); m != "" {
				return "in ASN.1 child: " + m
			}
			if !child.Empty() {
				return "ASN.1 child has bytes left over"
			}
		}
	}
	return ""
}

// ---------------------------------------------------------------------------
// one program, all builder variants
// ---------------------------------------------------------------------------

type checker struct {
	c          *vf.Ctx
	vals       *cbref.Values
	seed       maphash.Seed
	fixedMax   int // programs with a peak above this get only the capacities P-1, P, P+1
	scratch    sync.Pool
	bigScratch []byte

	mu       sync.Mutex
	outcomes map[string]int64
	counts   map[string]int64
}

// stats are accumulated per work chunk and merged once (the Ctx counters are shared).
type stats struct {
	evals, traces, transitions int
	outcomes                   map[string]int64
	counts                     map[string]int64
}

func newStats() *stats { return &stats{outcomes: map[string]int64{}, counts: map[string]int64{}} }

func (k *checker) merge(st *stats) {
	k.c.Eval(st.evals)
	k.c.TraceValidated(st.traces)
	k.c.Transition(st.transitions)
	k.mu.Lock()
	for a, n := range st.outcomes {
		if _, ok := k.outcomes[a]; !ok {
			k.c.Outcome(a)
		}
		k.outcomes[a] += n
	}
	for a, n := range st.counts {
		k.counts[a] += n
	}
	k.mu.Unlock()
}

var growPrefix = []byte{0xC2, 0x2C}

func (k *checker) report(class, mode string, prog []*cbref.Op, extra map[string]any) {
	d := map[string]any{"mode": mode, "program": cbref.ProgString(prog), "prog_json": prog}
	for a, b := range extra {
		d[a] = b
	}
	k.c.Violation(class, d)
}

// compareGrow checks a real result on a growing builder against the model.
func (k *checker) compareGrow(mode string, prog []*cbref.Op, m *cbref.Result, r *realRes) bool {
	bad := func(what string) bool {
		k.report(fmt.Sprintf("%s builder: %s", mode, what), mode, prog, map[string]any{"model": m.Outcome.String(), "real": r.kind, "real_err": fmt.Sprint(r.err), "real_panic": r.pval})
		return false
	}
	if r.irregular != "" {
		return bad(r.irregular)
	}
	switch m.Outcome {
	case cbref.OutBytes:
		if r.kind != "bytes" {
			return bad("model expects bytes, real gives " + r.kind)
		}
		if !bytes.Equal(r.out, m.Out) {
			return bad("output differs from the reference encoding")
		}
		s := cryptobyte.String(r.out)
		var msg string
		if p, v := protect(func() { msg = readItems(&s, m.Items, false) }); p {
			return bad("mirrored String reads panic: " + fmt.Sprint(v))
		}
		if msg != "" {
			return bad("mirrored String reads: " + msg)
		}
		if !s.Empty() {
			return bad("mirrored String reads leave bytes over")
		}
		// the same reads through the alternative byte-string readers
		s = cryptobyte.String(r.out)
		if p, v := protect(func() { msg = readItems(&s, m.Items, true) }); p {
			return bad("mirrored String reads (Skip/ReadBytes variant) panic: " + fmt.Sprint(v))
		}
		if msg != "" || !s.Empty() {
			return bad("mirrored String reads (Skip/ReadBytes variant): " + msg)
		}
		// one byte short: the same reads consume len(out) bytes, so one of them must report
		// failure - and none may panic
		if len(r.out) > 0 {
			s = cryptobyte.String(r.out[:len(r.out)-1])
			if p, v := protect(func() { msg = readItems(&s, m.Items, mode != "zero") }); p {
				_ = v // the panic text carries indices; the replay reproduces it
				return bad("mirrored String reads on the output cut by one byte panic")
			}
			if msg == "" {
				return bad("mirrored String reads succeed on the output cut by one byte")
			}
		}
	case cbref.OutError:
		if r.kind != "error" {
			return bad("model expects an error from Bytes, real gives " + r.kind)
		}
		if e, ok := r.err.(idErr); ok {
			if !m.Errs[e.id] {
				return bad("Bytes returns an error that was never set on a live builder")
			}
		} else if !m.Errs[cbref.ErrOverflow] && !m.Errs[cbref.ErrBadTag] {
			return bad("Bytes returns a library error although only user errors were set")
		}
	case cbref.OutPanic:
		if r.kind != "panic-user" || r.pid != m.PanicID {
			return bad("model expects the user's panic to propagate, real gives " + r.kind)
		}
	case cbref.OutMisuse:
		if r.kind != "panic-misuse" && r.kind != "error" {
			return bad("misuse (unwrite beyond own content / write to builder with pending child) not detected: " + r.kind)
		}
	}
	return true
}

func sameBacking(a, b []byte) bool {
	return unsafe.SliceData(a) == unsafe.SliceData(b)
}

// checkFixed runs a program that yields bytes on fixed-size builders.
func (k *checker) checkFixed(prog []*cbref.Op, initial []byte, m *cbref.Result, st *stats) {
	caps := []int{m.Peak, m.Peak + 1}
	if m.Peak-1 >= len(initial) {
		caps = append(caps, m.Peak-1)
	}
	if m.Peak <= k.fixedMax {
		hi := len(initial)
		for _, e := range m.Events {
			if e.Len > hi { // a record: capacity e.Len-1 makes exactly this append the first not to fit
				hi = e.Len
				if e.Len-1 != m.Peak-1 {
					caps = append(caps, e.Len-1)
				}
			}
		}
	}
	mode := "fixed"
	var scratch []byte
	if m.Peak+1 <= 1<<16+1024 {
		sp := k.scratch.Get().(*[]byte)
		defer k.scratch.Put(sp)
		scratch = *sp
	} else if m.Peak+1 <= len(k.bigScratch) {
		scratch = k.bigScratch // family Q24 (sequential)
	} else {
		scratch = make([]byte, m.Peak+1)
	}
	for _, cp := range caps {
		buf := scratch[:len(initial):cp]
		copy(buf, initial)
		b := cryptobyte.NewFixedBuilder(buf)
		r := runReal(prog, k.vals, b, cp&1 == 1)
		st.traces++
		st.transitions += r.ops
		st.counts["fixed_builder_runs"]++
		fit, first := m.FixedPrediction(cp)
		st.outcomes["fixed fit="+fmt.Sprint(fit)+" first="+first+" real="+r.kind]++
		extra := func() map[string]any {
			return map[string]any{"capacity": cp, "initial_len": len(initial), "needed": m.Peak, "real": r.kind, "real_panic": r.pval, "first_append_not_fitting": first}
		}
		if r.irregular != "" {
			k.report("fixed builder: "+r.irregular, mode, prog, extra())
			continue
		}
		if fit {
			switch {
			case r.kind != "bytes":
				k.report("fixed builder: program fits the capacity but real gives "+r.kind, mode, prog, extra())
			case !bytes.Equal(r.out, m.Out):
				k.report("fixed builder: output differs from the reference encoding", mode, prog, extra())
			case cp > 0 && (!sameBacking(r.out, buf) || cap(r.out) != cp):
				k.report("fixed builder: result does not live in the caller's buffer (reallocated)", mode, prog, extra())
			}
			continue
		}
		prefixOver := false
		for _, e := range m.Events {
			if e.Kind == "prefix" && e.Len > cp {
				prefixOver = true
			}
		}
		switch {
		case r.kind == "error":
		case r.kind == "panic-internal" && prefixOver && r.pval == "cryptobyte: internal error":
			k.report("fixed builder: length-prefix reservation exceeds capacity -> panic 'cryptobyte: internal error' instead of an error from Bytes", mode, prog, extra())
		case r.kind == "bytes" && first == "promote":
			e := extra()
			e["real_len"] = len(r.out)
			k.report("fixed builder: ASN.1 long-form length octets exceed capacity -> Bytes returns a truncated element and no error", mode, prog, e)
		default:
			k.report(fmt.Sprintf("fixed builder: capacity exceeded (first by %s) but real gives %s", first, r.kind), mode, prog, extra())
		}
	}
}

func sig(prog []*cbref.Op) (kinds string, depth int) {
	seen := map[string]bool{}
	var walk func(p []*cbref.Op, d int)
	walk = func(p []*cbref.Op, d int) {
		for _, o := range p {
			seen[o.Kind.String()] = true
			if o.Kind.IsNode() && o.Kind != cbref.AddValue {
				if d+1 > depth {
					depth = d + 1
				}
				walk(o.Kids, d+1)
			} else {
				walk(o.Kids, d)
			}
		}
	}
	walk(prog, 0)
	var ks []string
	for s := range seen {
		ks = append(ks, s)
	}
	sort.Strings(ks)
	return strings.Join(ks, ","), depth
}

// check runs one program through every builder variant.
func (k *checker) check(family string, prog []*cbref.Op, trackState, full bool, st *stats) {
	fixed := true
	c := k.c
	cbref.Number(prog)
	// 1. zero-value Builder
	m := cbref.Run(prog, k.vals, nil)
	var b0 cryptobyte.Builder
	r := runReal(prog, k.vals, &b0, false)
	st.evals++
	st.traces++
	st.transitions += r.ops
	st.counts["family"+family+"_programs"]++
	k.compareGrow("zero", prog, &m, &r)
	st.outcomes["grow model="+m.Outcome.String()+" real="+r.kind]++
	if trackState {
		key := m.Outcome.String()
		if m.Outcome == cbref.OutBytes {
			key = fmt.Sprintf("%d:%016x", len(r.out), maphash.Bytes(k.seed, r.out))
		} else if m.Outcome == cbref.OutError {
			key = "error:" + fmt.Sprint(r.err)
		}
		if c.State(key) && c.WantSample() {
			c.Sample(map[string]any{"family": family, "program": cbref.ProgString(prog), "model": m.Outcome.String(), "real": r.kind, "output": vf.Hex8(r.out)})
		}
		if ks, d := sig(prog); d >= 2 {
			c.Nontrivial(fmt.Sprintf("%s|d%d|%s", m.Outcome, d, ks))
		}
	}
	if fixed && m.Outcome == cbref.OutBytes {
		k.checkFixed(prog, nil, &m, st)
	}
	if !full {
		return
	}
	// 2. NewBuilder over a non-empty buffer with 3 spare bytes
	m2 := cbref.Run(prog, k.vals, growPrefix)
	ib := make([]byte, len(growPrefix), len(growPrefix)+3)
	copy(ib, growPrefix)
	copy(ib[len(ib):cap(ib)], "\xEE\xEE\xEE")                    // old contents in the spare capacity
	r2 := runReal(prog, k.vals, cryptobyte.NewBuilder(ib), true) // and Bytes() queried between top-level operations
	st.traces++
	st.transitions += r2.ops
	k.compareGrow("NewBuilder(prefix)", prog, &m2, &r2)
	if fixed && m2.Outcome == cbref.OutBytes {
		k.checkFixed(prog, growPrefix, &m2, st)
	}
}

// ---------------------------------------------------------------------------
// family A: all forests with at most T operations
// ---------------------------------------------------------------------------

type space struct {
	leaves, nodes []cbref.Op
	f, tr         []uint64 // f[t] forests with exactly t ops, tr[s] trees with exactly s ops
}

func newSpace(T int, sizes []int, reduced bool) *space {
	sp := &space{}
	ints := []cbref.Kind{cbref.U8, cbref.U16, cbref.U24, cbref.U32, cbref.U48, cbref.U64}
	unwrites := []int{-1, 0, 1, 2}
	if reduced {
		ints = []cbref.Kind{cbref.U8, cbref.U24}
		unwrites = []int{1, 2}
	}
	for _, k := range ints {
		sp.leaves = append(sp.leaves, cbref.Op{Kind: k})
	}
	for _, n := range sizes {
		sp.leaves = append(sp.leaves, cbref.Op{Kind: cbref.Bytes, Arg: n})
	}
	for _, n := range unwrites {
		sp.leaves = append(sp.leaves, cbref.Op{Kind: cbref.Unwrite, Arg: n})
	}
	sp.leaves = append(sp.leaves, cbref.Op{Kind: cbref.SetError}, cbref.Op{Kind: cbref.PanicBuildError}, cbref.Op{Kind: cbref.RootWrite})
	sp.nodes = []cbref.Op{{Kind: cbref.LP8}, {Kind: cbref.LP16}, {Kind: cbref.ASN1, Arg: 0x30}, {Kind: cbref.AddValue, Arg: 0}}
	if !reduced {
		sp.leaves = append(sp.leaves, cbref.Op{Kind: cbref.PanicOther}, cbref.Op{Kind: cbref.ASN1BadTag, Arg: 0x1f})
		sp.nodes = append(sp.nodes, cbref.Op{Kind: cbref.LP24}, cbref.Op{Kind: cbref.LP32}, cbref.Op{Kind: cbref.AddValue, Arg: 1})
	}
	L, N := uint64(len(sp.leaves)), uint64(len(sp.nodes))
	sp.f = make([]uint64, T+1)
	sp.tr = make([]uint64, T+1)
	sp.f[0] = 1
	for t := 1; t <= T; t++ {
		if t == 1 {
			sp.tr[1] = L + N
		} else {
			sp.tr[t] = N * sp.f[t-1]
		}
		for s := 1; s <= t; s++ {
			sp.f[t] += sp.tr[s] * sp.f[t-s]
		}
	}
	return sp
}

func (sp *space) forest(t int, i uint64) []*cbref.Op {
	if t == 0 {
		return nil
	}
	for s := 1; s <= t; s++ {
		block := sp.tr[s] * sp.f[t-s]
		if i < block {
			first := sp.tree(s, i/sp.f[t-s])
			return append([]*cbref.Op{first}, sp.forest(t-s, i%sp.f[t-s])...)
		}
		i -= block
	}
	panic("forest index out of range")
}

func (sp *space) tree(s int, j uint64) *cbref.Op {
	L := uint64(len(sp.leaves))
	if s == 1 {
		var o cbref.Op
		if j < L {
			o = sp.leaves[j]
		} else {
			o = sp.nodes[j-L]
		}
		return &o
	}
	o := sp.nodes[j/sp.f[s-1]]
	o.Kids = sp.forest(s-1, j%sp.f[s-1])
	return &o
}

// familyA enumerates every forest with exactly t operations for t in [tLo, tHi].
func (k *checker) familyA(label string, tLo, tHi int, sizes []int, reduced bool) {
	c := k.c
	sp := newSpace(tHi, sizes, reduced)
	perSize := map[string]uint64{}
	for t := tLo; t <= tHi; t++ {
		perSize[fmt.Sprint(t)] = sp.f[t]
		total := sp.f[t]
		const chunk = 512
		nchunks := int((total + chunk - 1) / chunk)
		track := t <= 4
		c.ParallelFor(nchunks, func(ci int) {
			st := newStats()
			defer k.merge(st)
			lo := uint64(ci) * chunk
			hi := lo + chunk
			if hi > total {
				hi = total
			}
			for i := lo; i < hi; i++ {
				k.check("A", sp.forest(t, i), track, t <= 3, st)
			}
		})
		if c.Expired() {
			break
		}
	}
	c.Set("familyA_"+label, map[string]any{"leaves": len(sp.leaves), "nodes": len(sp.nodes), "bytes_sizes": sizes, "programs_by_op_count": perSize})
}

// ---------------------------------------------------------------------------
// family B: nested chains around the boundaries; family C: every identifier octet
// ---------------------------------------------------------------------------

func (k *checker) familyB(maxDepth int, bounds []int, tag string, explicit ...int) {
	c := k.c
	kinds := []cbref.Op{{Kind: cbref.LP8}, {Kind: cbref.LP16}, {Kind: cbref.LP24}, {Kind: cbref.LP32}, {Kind: cbref.ASN1}}
	asn1Tags := []int{0x30, 0xA0, 0x04, 0x31, 0x6e}
	var chains [][]int
	var gen func(cur []int)
	gen = func(cur []int) {
		if len(cur) > 0 {
			chains = append(chains, append([]int(nil), cur...))
		}
		if len(cur) == maxDepth {
			return
		}
		for i := range kinds {
			gen(append(cur, i))
		}
	}
	gen(nil)
	sizeSet := map[int]bool{}
	if tag == "B" {
		for _, s := range []int{0, 1, 2, 3} {
			sizeSet[s] = true
		}
	}
	for _, b := range bounds {
		lo := b - 14
		if b > 1<<20 {
			lo = b - 8
		}
		for s := lo; s <= b+1; s++ {
			sizeSet[s] = true
		}
	}
	for _, s := range explicit {
		sizeSet[s] = true
	}
	var sizes []int
	for s := range sizeSet {
		sizes = append(sizes, s)
	}
	sort.Ints(sizes)
	type job struct {
		chain []int
		size  int
	}
	var jobs []job
	for _, ch := range chains {
		for _, s := range sizes {
			jobs = append(jobs, job{ch, s})
		}
	}
	c.ParallelFor(len(jobs), func(ji int) {
		j := jobs[ji]
		st := newStats()
		defer k.merge(st)
		for variant := 0; variant < 3; variant++ {
			if variant == 2 && j.size == 0 || variant > 0 && j.size > 4096 && (len(j.chain) > 1 || j.size > 1<<20) {
				continue // the alternative content layouts of 64K programs only for single-level chains, of 16M programs not at all
			}
			for sib := 0; sib < 4; sib++ {
				if j.size > 1<<20 && sib != 0 && sib != 3 {
					continue
				}
				var inner []*cbref.Op
				switch variant {
				case 0:
					inner = []*cbref.Op{{Kind: cbref.Bytes, Arg: j.size}}
				case 1:
					inner = []*cbref.Op{{Kind: cbref.Bytes, Arg: j.size + 1}, {Kind: cbref.Unwrite, Arg: 1}}
				case 2:
					inner = []*cbref.Op{{Kind: cbref.U8}, {Kind: cbref.Bytes, Arg: j.size - 1}}
				}
				prog := inner
				for lvl := len(j.chain) - 1; lvl >= 0; lvl-- {
					o := kinds[j.chain[lvl]]
					if o.Kind == cbref.ASN1 {
						o.Arg = asn1Tags[lvl]
					}
					o.Kids = prog
					var p []*cbref.Op
					if sib&1 != 0 {
						p = append(p, &cbref.Op{Kind: cbref.U16})
					}
					p = append(p, &o)
					if sib&2 != 0 {
						p = append(p, &cbref.Op{Kind: cbref.U8})
					}
					prog = p
				}
				k.check(tag, prog, j.size < 70000, j.size <= 4096 || sib == 3, st)
			}
		}
		if j.size > 1<<20 {
			runtime.GC()
		}
	})
	c.Set("family"+tag+"_space", map[string]any{"chains": len(chains), "max_depth": maxDepth, "content_sizes": len(sizes), "content_variants": 3, "sibling_layouts": 4})
}

// familyQ24 is the fixed set of 2^24-boundary programs that also runs in quick: the
// content sizes 2^24-1, 2^24, 2^24+5 under a 24-bit prefix (the last two must fail),
// under a 32-bit prefix and under AddASN1 (must succeed with lengths ffffff / 01000000 /
// 01000005 in the 4-byte prefix resp. the 0x83/0x84 long form), a 24-bit prefix nested
// in a 32-bit prefix, and a 24-bit prefix whose content is an ASN.1 child pushed over
// the limit by its own header. Each on a zero (growing) Builder and on fixed builders
// of capacity need-1, need, need+1.
func (k *checker) familyQ24() {
	c := k.c
	const B = 1 << 24
	var progs [][]*cbref.Op
	bytesOp := func(n int) []*cbref.Op { return []*cbref.Op{{Kind: cbref.Bytes, Arg: n}} }
	for _, n := range []int{B - 1, B, B + 5} {
		progs = append(progs,
			[]*cbref.Op{{Kind: cbref.LP24, Kids: bytesOp(n)}},
			[]*cbref.Op{{Kind: cbref.LP32, Kids: bytesOp(n)}},
			[]*cbref.Op{{Kind: cbref.ASN1, Arg: 0x04, Kids: bytesOp(n)}},
			[]*cbref.Op{{Kind: cbref.U16}, {Kind: cbref.LP32, Kids: []*cbref.Op{{Kind: cbref.LP24, Kids: bytesOp(n)}, {Kind: cbref.U8}}}},
		)
	}
	// 24-bit prefix around an ASN.1 element of total size 2^24-1 (fits) and 2^24 (does not)
	for _, n := range []int{B - 1 - 5, B - 5} {
		progs = append(progs, []*cbref.Op{{Kind: cbref.LP24, Kids: []*cbref.Op{{Kind: cbref.ASN1, Arg: 0x30, Kids: bytesOp(n)}}}})
	}
	// Sequential on purpose: first-touch page faults of fresh 16 MiB blocks dominate when
	// the programs run side by side; one after the other (with a collection in between)
	// the heap reuses the same few blocks.
	st := newStats()
	k.bigScratch = make([]byte, B+64)
	for _, p := range progs {
		k.check("Q24", p, true, false, st)
		runtime.GC()
	}
	k.bigScratch = nil
	k.merge(st)
	c.Set("familyQ24_space", map[string]any{"programs": len(progs), "content_sizes": []int{B - 1, B, B + 5}})
}

func (k *checker) familyC() {
	c := k.c
	c.ParallelFor(256, func(tag int) {
		st := newStats()
		defer k.merge(st)
		for _, n := range []int{0, 127, 128} {
			k.check("C", []*cbref.Op{{Kind: cbref.ASN1, Arg: tag, Kids: []*cbref.Op{{Kind: cbref.Bytes, Arg: n}}}}, true, true, st)
		}
	})
}

// ---------------------------------------------------------------------------

func run(c *vf.Ctx) {
	c.Rule("programs: (A) every forest of <=T Builder operations over the 24-leaf/7-node alphabet, (B) every chain of nested length-prefix kinds x every content size " +
		"within [-14,+1] of 128/256/65536 (thorough 2^24) x 3 content layouts x 4 sibling layouts, (C) every ASN.1 identifier octet; each on a zero Builder, a reallocating NewBuilder " +
		"and every fixed-size capacity class; state = distinct (length, hash) of the produced encoding or distinct error; non-trivial = distinct (outcome, nesting depth>=2, op-kind set); " +
		"oracle = reference encoder verif/ref/cbref (error/panic/bytes, byte-for-byte) + mirrored cryptobyte.String reads consuming everything; " +
		"hardening dimensions: (A) every AddBytes argument is a private copy with sentinel bytes in its spare capacity, wiped right after the call; (B) every String read goes into a destination pre-loaded with a non-zero value of another length, " +
		"NewBuilder's spare capacity holds old bytes; (D) Bytes() is queried between the top-level operations (NewBuilder run and every second fixed capacity), asked twice at the end and compared with BytesOrPanic; " +
		"the mirrored reads are repeated through Skip/ReadBytes and on the output cut by one byte (must fail, must not panic); (E) family E: chains of depth <=2 (thorough 3) around content sizes " +
		"0x1ff..0x201, 0x7ffe..0x8001, 0x80ff/0x8100, 0xfeff..0xff01, 0x100ff/0x10100, 0x17fff/0x18000, 0x1ffff/0x20000")
	c.Assume("values come from a fixed alphabet (one distinct integer/byte pattern per operation position, byte pool seeded); length-prefix overflow of 32-bit prefixes and ASN.1 lengths >= 2^32 are out of reach")
	c.Assume("de-facto behaviour: a builder that carries an error does not invoke continuations of later length-prefixed adds; AddValue always calls Marshal")
	c.Assume("misuse that the documentation answers with a panic (Unwrite beyond the builder's own content, writing to a builder whose child is pending) counts as detected when it panics with a cryptobyte message or yields an error")

	poolLen := 1<<24 + 512 // family Q24 needs 2^24+5 bytes in both tiers
	base := c.Bytes("c22-pool", 0, 1<<16+512)
	pool := make([]byte, poolLen)
	for i := 0; i < poolLen; i += len(base) {
		copy(pool[i:], base)
	}
	k := &checker{c: c, vals: &cbref.Values{Pool: pool}, seed: maphash.MakeSeed(), fixedMax: 4096,
		outcomes: map[string]int64{}, counts: map[string]int64{}}
	k.scratch.New = func() any { b := make([]byte, 1<<16+1024); return &b }
	defer func() {
		c.Set("outcome_counts", k.outcomes)
		for a, n := range k.counts {
			c.Set(a, n)
		}
	}()
	if f := os.Getenv("C22_PPROF"); f != "" {
		w, _ := os.Create(f)
		pprof.StartCPUProfile(w)
		defer pprof.StopCPUProfile()
	}

	if c.Replay != nil {
		d, _ := c.Replay["detail"].(map[string]any)
		js, _ := json.Marshal(d["prog_json"])
		var prog []*cbref.Op
		if err := json.Unmarshal(js, &prog); err != nil {
			c.Violation("harness-panic", "cannot decode replay program: "+err.Error())
			return
		}
		st := newStats()
		k.check("replay", prog, true, true, st)
		k.merge(st)
		return
	}

	sizes := []int{0, 1, 126, 127, 128, 255, 256, 65535, 65536}
	small := sizes[:7]
	phases := map[string]float64{}
	last := time.Now()
	phase := func(name string) {
		phases[name] = time.Since(last).Seconds()
		last = time.Now()
		c.Set("phase_seconds", phases)
	}
	k.familyC()
	phase("C")
	k.familyQ24()
	phase("Q24")
	// E: content lengths on either side of the bit-7 / bit-15 tests and with zero / all-one
	// low octets away from the 2^8 / 2^16 boundaries (the length is patched octet by octet)
	eSizes := []int{0x1ff, 0x200, 0x201, 0x7ffe, 0x7fff, 0x8000, 0x8001, 0x80ff, 0x8100, 0xfeff, 0xff00, 0xff01, 0x100ff, 0x10100, 0x17fff, 0x18000, 0x1ffff, 0x20000}
	if c.Thorough {
		k.familyB(3, nil, "E", eSizes...)
	} else {
		k.familyB(2, nil, "E", eSizes...)
	}
	phase("E")
	if c.Thorough {
		k.familyB(4, []int{128, 256, 65536}, "B")
		phase("B")
		k.familyB(2, []int{1 << 24}, "B24")
		phase("B24")
		k.familyA("all_sizes", 0, 4, sizes, false)
		phase("A_all_sizes")
		k.familyA("reduced_alphabet", 5, 5, []int{1, 127, 128, 255, 256}, true)
		phase("A_reduced_alphabet")
	} else {
		k.familyB(3, []int{128, 256, 65536}, "B")
		phase("B")
		k.familyA("all_sizes", 0, 3, sizes, false)
		phase("A_all_sizes")
		k.familyA("sizes_upto_256", 4, 4, small, false)
		phase("A_sizes_upto_256")
	}
}
