package ssh

// Harness for property C31 (re-keying is transparent to concurrent application
// traffic). Two real handshakeTransports (client and server roles, real curve25519 /
// ed25519 key exchange) over the in-memory keyingTransport; application writers and
// readers on both sides; re-keys requested explicitly, by byte threshold, or by both
// peers at once.

import (
	"crypto/ed25519"
	"fmt"
	"net"
	"sync"
)

type verifDetRand struct{ n byte }

func (r *verifDetRand) Read(p []byte) (int, error) {
	for i := range p {
		r.n += 7
		p[i] = r.n
	}
	return len(p), nil
}

var verifC31HostKey = func() Signer {
	s, _ := NewSignerFromKey(ed25519.NewKeyFromSeed(make([]byte, 32)))
	return s
}()

const verifAppMsg = msgChannelData // application packets are tagged channel-data packets

// VerifC31Params describes one scenario.
type VerifC31Params struct {
	ClientWriters, ServerWriters int    // writer goroutines per side
	PerWriter                    int    // tagged packets each writer sends
	PacketLen                    int    // payload length of each application packet (>= 4)
	ClientRequest, ServerRequest bool   // explicit requestKeyExchange racing with the traffic
	Threshold                    uint64 // RekeyThreshold for both sides (0 = default, i.e. no threshold re-key here)
	GapWriter                    bool   // a low-priority writer: one packet after the client's re-key KEXINIT is on the wire (queued), two more once its NEWKEYS is on the wire
	LateWriter                   int    // packets written by a goroutine started after the prefill (lowest scheduling priority: it is the one left waiting on the full queue)
	Prefill                      int    // packets the client queues right after requesting a re-key (to overflow the pending queue)
}

// VerifC31Result is the observation of one execution.
type VerifC31Result struct {
	Errs        []string
	ClientLog   []byte // message types the client wrote to the wire, in order
	ServerLog   []byte
	GotByServer []uint32 // tags in arrival order: writer<<16 | seq  (from client writers)
	GotByClient []uint32
	WriteErrs   int
	MaxPending  int // largest pending-queue length seen by the prefill writer
}

func verifC31Pkt(writer, seq, n int) []byte {
	if n < 4 {
		n = 4
	}
	p := make([]byte, 1+n)
	p[0] = verifAppMsg
	p[1], p[2], p[3], p[4] = byte(writer>>8), byte(writer), byte(seq>>8), byte(seq)
	return p
}

// VerifC31Run runs one scenario to completion.
func VerifC31Run(p VerifC31Params) *VerifC31Result {
	res := &VerifC31Result{}
	a, b := VerifMemPipe()
	cc := &ClientConfig{HostKeyCallback: func(string, net.Addr, PublicKey) error { return nil }}
	cc.Rand = &verifDetRand{}
	cc.KeyExchanges = []string{KeyExchangeCurve25519}
	cc.RekeyThreshold = p.Threshold
	cc.SetDefaults()
	sc := &ServerConfig{}
	sc.Rand = &verifDetRand{n: 100}
	sc.KeyExchanges = []string{KeyExchangeCurve25519}
	sc.RekeyThreshold = p.Threshold
	sc.AddHostKey(verifC31HostKey)
	sc.SetDefaults()
	v := []byte("SSH-2.0-verif")
	client := newClientTransport(a, v, v, cc, "addr", nil)
	server := newServerTransport(b, v, v, sc)
	if err := server.waitSession(); err != nil {
		res.Errs = append(res.Errs, "server waitSession: "+err.Error())
		return res
	}
	if err := client.waitSession(); err != nil {
		res.Errs = append(res.Errs, "client waitSession: "+err.Error())
		return res
	}

	verifMark() // the session is up: scenarios explored "from the mark" place deviations only from here
	var mu sync.Mutex
	wantS := p.ClientWriters*p.PerWriter + p.Prefill + p.LateWriter
	if p.GapWriter {
		wantS += 3
	}
	wantC := p.ServerWriters * p.PerWriter
	allS, allC := make(chan struct{}), make(chan struct{})
	reader := func(t *handshakeTransport, got *[]uint32, want int, all chan struct{}, who string) {
		n := 0
		if want == 0 {
			close(all)
		}
		for {
			pkt, err := t.readPacket()
			if err != nil {
				return
			}
			if pkt[0] != verifAppMsg {
				continue
			}
			mu.Lock()
			*got = append(*got, uint32(pkt[1])<<24|uint32(pkt[2])<<16|uint32(pkt[3])<<8|uint32(pkt[4]))
			mu.Unlock()
			n++
			if n == want {
				close(all)
			}
			if n > want {
				mu.Lock()
				res.Errs = append(res.Errs, who+" received more packets than were sent")
				mu.Unlock()
			}
		}
	}
	var rwg sync.WaitGroup
	rwg.Add(2)
	go func() { defer rwg.Done(); reader(server, &res.GotByServer, wantS, allS, "server") }()
	go func() { defer rwg.Done(); reader(client, &res.GotByClient, wantC, allC, "client") }()

	var wg sync.WaitGroup
	writer := func(t *handshakeTransport, id int) {
		defer wg.Done()
		for s := 0; s < p.PerWriter; s++ {
			if err := t.writePacket(verifC31Pkt(id, s, p.PacketLen)); err != nil {
				mu.Lock()
				res.WriteErrs++
				res.Errs = append(res.Errs, fmt.Sprintf("writer %d: %v", id, err))
				mu.Unlock()
				return
			}
		}
	}
	if p.ClientRequest && p.Prefill == 0 {
		wg.Add(1)
		go func() {
			defer wg.Done()
			client.requestKeyExchange()
		}()
	}
	if p.ServerRequest {
		wg.Add(1)
		go func() { defer wg.Done(); server.requestKeyExchange() }()
	}
	for i := 0; i < p.ClientWriters; i++ {
		wg.Add(1)
		go writer(client, i+1)
	}
	for i := 0; i < p.ServerWriters; i++ {
		wg.Add(1)
		go writer(server, i+51)
	}
	if p.GapWriter {
		kexinit, newkeys := make(chan struct{}, 8), make(chan struct{}, 8)
		a.OnWrite = func(pkt []byte) {
			switch pkt[0] {
			case msgKexInit:
				kexinit <- struct{}{}
			case msgNewKeys:
				newkeys <- struct{}{}
			}
		}
		wg.Add(1)
		go func() {
			defer wg.Done()
			send := func(s int) bool {
				if err := client.writePacket(verifC31Pkt(97, s, p.PacketLen)); err != nil {
					mu.Lock()
					res.WriteErrs++
					res.Errs = append(res.Errs, fmt.Sprintf("gap writer: %v", err))
					mu.Unlock()
					return false
				}
				return true
			}
			<-kexinit
			if !send(0) {
				return
			}
			<-newkeys
			if send(1) {
				send(2)
			}
		}()
		client.requestKeyExchange()
	}
	if p.Prefill > 0 {
		// The body itself (goroutine 0, preferred by the default schedule) floods the
		// client with writes as soon as the client's re-key KEXINIT is on the wire, so
		// that the pending queue (maxPendingPackets) overflows and writePacket has to
		// wait on writeCond for the key exchange to finish.
		kexinitSent := make(chan struct{}, 1)
		n := 0
		a.OnWrite = func(pkt []byte) {
			if pkt[0] == msgKexInit {
				n++
				if n == 1 {
					kexinitSent <- struct{}{}
				}
			}
		}
		client.requestKeyExchange()
		<-kexinitSent
		for s := 0; s < p.Prefill; s++ {
			if err := client.writePacket(verifC31Pkt(99, s, p.PacketLen)); err != nil {
				res.WriteErrs++
				res.Errs = append(res.Errs, fmt.Sprintf("prefill writer: %v", err))
				break
			}
			client.mu.Lock()
			if l := len(client.pendingPackets); l > res.MaxPending {
				res.MaxPending = l
			}
			client.mu.Unlock()
		}
		if p.LateWriter > 0 {
			wg.Add(1)
			go func() {
				defer wg.Done()
				for s := 0; s < p.LateWriter; s++ {
					if err := client.writePacket(verifC31Pkt(98, s, p.PacketLen)); err != nil {
						mu.Lock()
						res.WriteErrs++
						res.Errs = append(res.Errs, fmt.Sprintf("late writer: %v", err))
						mu.Unlock()
						return
					}
				}
			}()
		}
	}
	wg.Wait() // no writer blocks forever while the peer keeps reading
	<-allS
	<-allC
	client.Close()
	server.Close()
	rwg.Wait()
	res.ClientLog = a.Log
	res.ServerLog = b.Log
	return res
}
