// C31: re-keying is transparent to concurrent application traffic.
// Interleaving exploration of two real handshakeTransports (package ssh instrumented).
package main

import (
	"fmt"

	"golang.org/x/crypto/ssh"
	"verif/schedx"
	"verif/vf"
)

func main() { vf.Main("C31", vf.ModelChecking, run) }

const (
	msgKexInit = 20
	msgNewKeys = 21
	appMsg     = 94
)

// no application packet between a side's KEXINIT and its NEWKEYS
func logOK(log []byte) (bool, int) {
	inKex := false
	for i, t := range log {
		switch {
		case t == msgKexInit:
			inKex = true
		case t == msgNewKeys:
			inKex = false
		case inKex && t == appMsg:
			return false, i
		}
	}
	return true, 0
}

func orderOK(got []uint32, writers map[uint32]int) string {
	next := map[uint32]uint32{}
	for _, tag := range got {
		w, s := tag>>16, tag&0xffff
		if s != next[w] {
			if s < next[w] {
				return fmt.Sprintf("packet %d of writer %d delivered twice", s, w)
			}
			return fmt.Sprintf("writer %d: packet %d arrived when %d was expected (lost or reordered)", w, s, next[w])
		}
		next[w] = s + 1
	}
	for w, n := range writers {
		if int(next[w]) != n {
			return fmt.Sprintf("writer %d: %d of %d packets delivered", w, next[w], n)
		}
	}
	return ""
}

func check(p ssh.VerifC31Params) func(any) (string, string) {
	return func(obs any) (string, string) {
		r, _ := obs.(*ssh.VerifC31Result)
		if r == nil {
			return "", ""
		}
		if len(r.Errs) > 0 {
			return "transport error during re-key with concurrent traffic", fmt.Sprint(r.Errs)
		}
		if ok, i := logOK(r.ClientLog); !ok {
			return "application packet sent between KEXINIT and NEWKEYS", fmt.Sprintf("client wire log %v index %d", r.ClientLog, i)
		}
		if ok, i := logOK(r.ServerLog); !ok {
			return "application packet sent between KEXINIT and NEWKEYS", fmt.Sprintf("server wire log %v index %d", r.ServerLog, i)
		}
		cw := map[uint32]int{}
		for i := 0; i < p.ClientWriters; i++ {
			cw[uint32(i+1)] = p.PerWriter
		}
		if p.Prefill > 0 {
			cw[99] = p.Prefill
		}
		if p.LateWriter > 0 {
			cw[98] = p.LateWriter
		}
		if p.GapWriter {
			cw[97] = 3
		}
		if e := orderOK(r.GotByServer, cw); e != "" {
			return "application packet lost, duplicated or reordered across a re-key", "client->server: " + e
		}
		sw := map[uint32]int{}
		for i := 0; i < p.ServerWriters; i++ {
			sw[uint32(i+51)] = p.PerWriter
		}
		if e := orderOK(r.GotByClient, sw); e != "" {
			return "application packet lost, duplicated or reordered across a re-key", "server->client: " + e
		}
		return "", ""
	}
}

func outcome(obs any) string {
	r, _ := obs.(*ssh.VerifC31Result)
	if r == nil {
		return "<nil>"
	}
	k := func(l []byte) (n int) {
		for _, t := range l {
			if t == msgKexInit {
				n++
			}
		}
		return
	}
	if r.MaxPending > 0 {
		return fmt.Sprintf("client kexinits=%d server kexinits=%d maxpending=%d", k(r.ClientLog), k(r.ServerLog), r.MaxPending)
	}
	return fmt.Sprintf("client kexinits=%d server kexinits=%d order=%v/%v", k(r.ClientLog), k(r.ServerLog), r.GotByServer, r.GotByClient)
}

func run(c *vf.Ctx) {
	b := 2
	type sc struct {
		name  string
		p     ssh.VerifC31Params
		bound int
	}
	fromMark := map[string]bool{} // scenarios whose deviations are placed only after the session is established
	scs := []sc{
		{"client requests, 2 client writers + 1 server writer", ssh.VerifC31Params{ClientWriters: 2, ServerWriters: 1, PerWriter: 2, PacketLen: 8, ClientRequest: true}, b},
		{"both request, 1 writer each", ssh.VerifC31Params{ClientWriters: 1, ServerWriters: 1, PerWriter: 2, PacketLen: 8, ClientRequest: true, ServerRequest: true}, 1},
		{"threshold 256B, 1 client writer 4x100B", ssh.VerifC31Params{ClientWriters: 1, ServerWriters: 1, PerWriter: 4, PacketLen: 100, Threshold: 256}, b},
		{"pending queue overflow (66 prefill) + writer", ssh.VerifC31Params{ClientWriters: 1, ServerWriters: 0, PerWriter: 2, PacketLen: 8, ClientRequest: true, Prefill: 66}, 1},
		// the flushed queue pushes the peer over its byte threshold, so the peer starts the
		// next key exchange back-to-back while the overflowed writer is being woken
		{"pending queue overflow + threshold 256B (back-to-back re-key)", ssh.VerifC31Params{ClientWriters: 0, ServerWriters: 0, PerWriter: 0, PacketLen: 8, ClientRequest: true, Prefill: 67, Threshold: 256}, 1},
		{"queue exactly full + late writer + threshold 256B (writer woken into the next re-key)", ssh.VerifC31Params{PacketLen: 8, ClientRequest: true, Prefill: 64, LateWriter: 3, Threshold: 256}, 1},
		{"queue exactly full + late writer, server requests next re-key", ssh.VerifC31Params{PacketLen: 8, ClientRequest: true, ServerRequest: true, Prefill: 64, LateWriter: 2}, 1},
	}
	// a writer with a packet queued during the re-key writes again just as the key exchange
	// ends: its packets must not overtake each other while kexLoop finishes
	scs = append(scs, sc{"writer with a queued packet writes again at NEWKEYS (from mark)", ssh.VerifC31Params{PacketLen: 8, GapWriter: true, ServerWriters: 1, PerWriter: 1}, 2})
	fromMark["writer with a queued packet writes again at NEWKEYS (from mark)"] = true
	fromMark["writer with a queued packet writes again at NEWKEYS, bound 3 (from mark)"] = true
	if c.Thorough {
		scs = append(scs,
			sc{"writer with a queued packet writes again at NEWKEYS, bound 3 (from mark)", ssh.VerifC31Params{PacketLen: 8, GapWriter: true}, 3},
			sc{"both request, 1 writer each, bound 2", ssh.VerifC31Params{ClientWriters: 1, ServerWriters: 1, PerWriter: 2, PacketLen: 8, ClientRequest: true, ServerRequest: true}, 2},
			sc{"server requests, 1 client writer, bound 3", ssh.VerifC31Params{ClientWriters: 1, ServerWriters: 0, PerWriter: 2, PacketLen: 8, ServerRequest: true}, 3},
			sc{"client requests, 1 client writer, bound 3", ssh.VerifC31Params{ClientWriters: 1, ServerWriters: 0, PerWriter: 2, PacketLen: 8, ClientRequest: true}, 3},
			sc{"threshold + both request, 2+2 writers", ssh.VerifC31Params{ClientWriters: 2, ServerWriters: 2, PerWriter: 3, PacketLen: 100, Threshold: 256, ClientRequest: true, ServerRequest: true}, 2},
			sc{"pending queue overflow both writers bound 2", ssh.VerifC31Params{ClientWriters: 1, ServerWriters: 1, PerWriter: 2, PacketLen: 8, ClientRequest: true, Prefill: 65}, 2},
		)
	}
	c.Rule("every interleaving with <= bound deviations from the default schedule of each closed scenario: two real handshakeTransports (real curve25519/ed25519 kex) x application writers/readers on both sides x re-key trigger {explicit by client/server/both, byte threshold, pending-queue overflow}; oracle per execution: every tagged packet delivered exactly once in per-writer order, no application packet between a side's KEXINIT and NEWKEYS on the wire log, all writers return (deadlock = violation), no panic; states = distinct end observations")
	c.Assume("package ssh is data-race free (separate free-running -race pass); packet encryption is the identity (in-memory keyingTransport) - ciphers are covered by C25/C26")
	var out []schedx.Scenario
	for _, s := range scs {
		s := s
		out = append(out, schedx.Scenario{Name: s.name, Bound: s.bound, FromMark: fromMark[s.name], Body: func() any { return ssh.VerifC31Run(s.p) }, Check: check(s.p), Outcome: outcome})
	}
	schedx.Explore(c, out)
}
