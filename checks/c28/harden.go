// Hardening pass for C28: parts (e)-(h).
package main

import (
	"fmt"
	"strings"

	"golang.org/x/crypto/ssh"
	"verif/ref/sshnego"
	"verif/vf"
)

// checkPairOwned is checkPair plus: the name-lists are the caller's (they are the parsed
// KEXINIT messages, which the handshake keeps using); the computation must leave them as
// they were, including the elements beyond len (spare capacity).
func checkPairOwned(c *vf.Ctx, cl, sv *ssh.VerifC28KexInit, what string, t *tally) {
	grow := func(k *ssh.VerifC28KexInit) {
		for _, f := range fields {
			p := f.get(k)
			if *p != nil {
				g := make([]string, len(*p), len(*p)+2)
				copy(g, *p)
				g[:cap(g)][len(g)] = "spare-1"
				g[:cap(g)][len(g)+1] = "spare-2"
				*p = g
			}
		}
	}
	grow(cl)
	grow(sv)
	snap := func(k *ssh.VerifC28KexInit) [][]string {
		var out [][]string
		for _, f := range fields {
			p := *f.get(k)
			out = append(out, append([]string{}, p[:cap(p)]...))
		}
		return out
	}
	same := func(k *ssh.VerifC28KexInit, before [][]string, lens []int) bool {
		for i, f := range fields {
			p := *f.get(k)
			if len(p) != lens[i] || cap(p) != len(before[i]) {
				return false
			}
			for j, v := range p[:cap(p)] {
				if v != before[i][j] {
					return false
				}
			}
		}
		return true
	}
	lens := func(k *ssh.VerifC28KexInit) []int {
		var out []int
		for _, f := range fields {
			out = append(out, len(*f.get(k)))
		}
		return out
	}
	bc, bs, lc, ls := snap(cl), snap(sv), lens(cl), lens(sv)
	checkPair(c, cl, sv, what, t)
	if !same(cl, bc, lc) || !same(sv, bs, ls) {
		c.Violation("findAgreedAlgorithms modifies the name-lists of a KEXINIT message ("+what+")", map[string]any{"client_before": fmt.Sprintf("%.300q", bc), "client_after": fmt.Sprintf("%.300q", snap(cl)),
			"server_before": fmt.Sprintf("%.300q", bs), "server_after": fmt.Sprintf("%.300q", snap(sv))})
	}
}

func hardened(c *vf.Ctx) {
	// ---- (e) both directions of a pair varied at once, independently on both sides: all
	// (client c->s, server c->s, client s->c, server s->c) list quadruples of length <= 2 over
	// {known1, known2, unknown}, for ciphers, MACs and compression
	pairs := [][2]int{{2, 3}, {4, 5}, {6, 7}}
	type jobE struct {
		p      int
		a, b   []string
		pa, pb int
	}
	var je []jobE
	for pi, p := range pairs {
		ts := tuples(fields[p[0]].alpha, 2)
		for ai, a := range ts {
			for bi, b := range ts {
				je = append(je, jobE{pi, a, b, ai, bi})
			}
		}
	}
	c.ParallelFor(len(je), func(i int) {
		j := je[i]
		fa, fb := fields[pairs[j.p][0]], fields[pairs[j.p][1]]
		ts := tuples(fa.alpha, 2)
		t := &tally{out: map[string]int{}}
		for _, x := range ts {
			for _, y := range ts {
				cl, _ := base()
				sv, _ := base()
				*fa.get(&cl), *fa.get(&sv) = j.a, j.b
				*fb.get(&cl), *fb.get(&sv) = x, y
				checkPairOwned(c, &cl, &sv, "both directions "+fa.name+"+"+fb.name, t)
			}
		}
		flush(c, t)
		if f1, ok := sshnego.First(j.a, j.b); ok {
			c.Nontrivial(fmt.Sprintf("e/%s/%v/%v/%s", fa.name, j.a, j.b, f1))
		}
	})

	// ---- (f) long lists: n client names, m server names, exactly one (or no) common name at
	// every combination of {first, middle, last} positions; n, m around powers of two
	sizes := []int{1, 2, 15, 16, 17, 31, 32, 33, 63, 64, 65, 127, 128, 129, 255, 256, 257, 1000}
	if c.Thorough {
		sizes = append(sizes, 511, 512, 513, 4095, 4096, 4097, 65535, 65536, 65537)
	}
	type jobF struct{ f, n, m int }
	var jf []jobF
	for fi := range fields {
		for _, n := range sizes {
			for _, m := range sizes {
				if !c.Thorough && fi > 1 && n != m && n > 2 && m > 2 {
					continue // quick: the full n x m square for kex and host key, the diagonal and the short lists elsewhere
				}
				if n > 5000 && m > 20 || m > 5000 && n > 20 {
					continue // the 2^16-sized lists meet the short lists only (n x m comparisons per call)
				}
				jf = append(jf, jobF{fi, n, m})
			}
		}
	}
	c.ParallelFor(len(jf), func(i int) {
		j := jf[i]
		f := fields[j.f]
		t := &tally{out: map[string]int{}}
		mk := func(prefix string, n int) []string {
			l := make([]string, n)
			for k := range l {
				l[k] = fmt.Sprintf("%s-%d@example.com", prefix, k)
			}
			return l
		}
		pos := func(n int) []int {
			set := map[int]bool{0: true, n / 2: true, n - 1: true}
			var out []int
			for p := range set {
				out = append(out, p)
			}
			return out
		}
		for _, pc := range append(pos(j.n), -1) {
			for _, ps := range pos(j.m) {
				cl, _ := base()
				sv, _ := base()
				a, b := mk("only-client", j.n), mk("only-server", j.m)
				if pc >= 0 {
					a[pc], b[ps] = f.alpha[0], f.alpha[0]
					// a second common name later in both lists must lose against the first
					if pc+1 < j.n && ps > 0 {
						a[pc+1], b[ps-1] = f.alpha[1], f.alpha[1]
					}
				}
				*f.get(&cl), *f.get(&sv) = a, b
				checkPairOwned(c, &cl, &sv, "long lists "+f.name, t)
			}
		}
		flush(c, t)
		c.Nontrivial(fmt.Sprintf("f/%s/%d/%d", f.name, j.n, j.m))
	})

	// ---- (g) names are opaque strings compared exactly: near misses of a known name (prefix,
	// extension, other case, surrounding blank, empty name) never match it, and near misses of
	// the AEAD cipher names are not AEAD (a MAC is needed)
	t := &tally{out: map[string]int{}}
	for fi, f := range fields {
		known := f.alpha[0]
		near := []string{known, known[:len(known)-1], known + "2", strings.ToUpper(known), " " + known, known + " ", "", known + ",", strings.Repeat("x", 64), strings.Repeat("x", 65)}
		ts := tuples(near, 1)
		ts = append(ts, tuples(near[:5], 2)...)
		for _, a := range ts {
			for _, b := range ts {
				cl, _ := base()
				sv, _ := base()
				*f.get(&cl), *f.get(&sv) = a, b
				checkPairOwned(c, &cl, &sv, "near-miss names "+f.name, t)
			}
		}
		c.Nontrivial(fmt.Sprintf("g/%d", fi))
	}
	for _, aead := range []string{"aes128-gcm@openssh.com", "aes256-gcm@openssh.com", "chacha20-poly1305@openssh.com"} {
		for _, name := range []string{aead, strings.TrimSuffix(aead, "@openssh.com"), strings.ToUpper(aead), aead + " ", aead[:len(aead)-1], strings.Replace(aead, "@openssh.com", "@libssh.org", 1)} {
			for dir := 0; dir < 2; dir++ {
				for _, macsAgree := range []bool{false, true} {
					cl, _ := base()
					sv, _ := base()
					cm, sm := []string{"hmac-sha2-256"}, []string{"hmac-sha1"}
					if macsAgree {
						sm = []string{"hmac-sha1", "hmac-sha2-256"}
					}
					if dir == 0 {
						cl.CiphersClientServer, sv.CiphersClientServer = []string{name}, []string{"aes128-ctr", name}
						cl.MACsClientServer, sv.MACsClientServer = cm, sm
					} else {
						cl.CiphersServerClient, sv.CiphersServerClient = []string{name}, []string{"aes128-ctr", name}
						cl.MACsServerClient, sv.MACsServerClient = cm, sm
					}
					checkPairOwned(c, &cl, &sv, "near-miss AEAD names", t)
					c.Nontrivial(fmt.Sprintf("g/aead/%s/%d/%v", name, dir, macsAgree))
				}
			}
		}
	}
	flush(c, t)
}
