// C28: algorithm negotiation is symmetric and follows RFC 4253 section 7.1.
//
// Real code: ssh.findAgreedAlgorithms / findCommon (via the verif_c28.go hook), run
// once as the client and once as the server for every enumerated pair of KEXINITs.
// Oracle: verif/ref/sshnego (first entry of the client's list that is also in the
// server's list; both sides fail otherwise; no MAC for AEAD ciphers).
package main

import (
	"fmt"
	"sort"

	"golang.org/x/crypto/ssh"
	"verif/ref/sshnego"
	"verif/vf"
)

func main() { vf.Main("C28", vf.Exploration, run) }

// tuples returns every list of length 0..maxLen over alpha (duplicates included),
// plus the nil list when withNil.
func tuples(alpha []string, maxLen int) [][]string {
	out := [][]string{{}}
	prev := [][]string{{}}
	for l := 1; l <= maxLen; l++ {
		var next [][]string
		for _, p := range prev {
			for _, a := range alpha {
				t := append(append([]string(nil), p...), a)
				next = append(next, t)
			}
		}
		out = append(out, next...)
		prev = next
	}
	return out
}

type fieldAcc struct {
	name string
	get  func(*ssh.VerifC28KexInit) *[]string
	ref  func(*sshnego.Lists) *[]string
	// alphabet: two names the implementation knows, one it does not
	alpha []string
}

var fields = []fieldAcc{
	{"kex", func(k *ssh.VerifC28KexInit) *[]string { return &k.KexAlgos }, func(l *sshnego.Lists) *[]string { return &l.Kex },
		[]string{"curve25519-sha256", "diffie-hellman-group14-sha256", "bogus-kex@example.com"}},
	{"hostkey", func(k *ssh.VerifC28KexInit) *[]string { return &k.ServerHostKeyAlgos }, func(l *sshnego.Lists) *[]string { return &l.HostKey },
		[]string{"ssh-ed25519", "rsa-sha2-256", "bogus-hostkey"}},
	{"cipher-cs", func(k *ssh.VerifC28KexInit) *[]string { return &k.CiphersClientServer }, func(l *sshnego.Lists) *[]string { return &l.CipherCS },
		[]string{"aes128-ctr", "aes256-ctr", "bogus-cipher"}},
	{"cipher-sc", func(k *ssh.VerifC28KexInit) *[]string { return &k.CiphersServerClient }, func(l *sshnego.Lists) *[]string { return &l.CipherSC },
		[]string{"aes128-ctr", "aes256-ctr", "bogus-cipher"}},
	{"mac-cs", func(k *ssh.VerifC28KexInit) *[]string { return &k.MACsClientServer }, func(l *sshnego.Lists) *[]string { return &l.MacCS },
		[]string{"hmac-sha2-256", "hmac-sha2-512-etm@openssh.com", "bogus-mac"}},
	{"mac-sc", func(k *ssh.VerifC28KexInit) *[]string { return &k.MACsServerClient }, func(l *sshnego.Lists) *[]string { return &l.MacSC },
		[]string{"hmac-sha2-256", "hmac-sha2-512-etm@openssh.com", "bogus-mac"}},
	{"comp-cs", func(k *ssh.VerifC28KexInit) *[]string { return &k.CompressionClientServer }, func(l *sshnego.Lists) *[]string { return &l.CompCS },
		[]string{"none", "zlib@openssh.com", "bogus-comp"}},
	{"comp-sc", func(k *ssh.VerifC28KexInit) *[]string { return &k.CompressionServerClient }, func(l *sshnego.Lists) *[]string { return &l.CompSC },
		[]string{"none", "zlib@openssh.com", "bogus-comp"}},
}

// agreeing base: every field has a (distinct per field) agreed value; the cipher is
// not an AEAD cipher so that MACs matter.
func base() (ssh.VerifC28KexInit, sshnego.Lists) {
	k := ssh.VerifC28KexInit{
		KexAlgos:                []string{"curve25519-sha256"},
		ServerHostKeyAlgos:      []string{"ssh-ed25519"},
		CiphersClientServer:     []string{"aes128-ctr"},
		CiphersServerClient:     []string{"aes256-ctr"},
		MACsClientServer:        []string{"hmac-sha2-256"},
		MACsServerClient:        []string{"hmac-sha2-512"},
		CompressionClientServer: []string{"none"},
		CompressionServerClient: []string{"zlib@openssh.com"},
	}
	return k, toRef(&k)
}

func toRef(k *ssh.VerifC28KexInit) sshnego.Lists {
	return sshnego.Lists{Kex: k.KexAlgos, HostKey: k.ServerHostKeyAlgos, CipherCS: k.CiphersClientServer, CipherSC: k.CiphersServerClient,
		MacCS: k.MACsClientServer, MacSC: k.MACsServerClient, CompCS: k.CompressionClientServer, CompSC: k.CompressionServerClient}
}

type tally struct {
	evals int
	out   map[string]int
}

// checkPair runs both roles on (client, server) and compares with the model.
func checkPair(c *vf.Ctx, cl, sv *ssh.VerifC28KexInit, what string, t *tally) {
	want, wantOK, failed := sshnego.Negotiate(toRef(cl), toRef(sv))
	type side struct {
		res    *ssh.VerifC28Result
		nonNil bool
		err    error
	}
	var sides [2]side
	for i, isClient := range []bool{true, false} {
		s := &sides[i]
		if pan, pv, _ := vf.Protect(func() { s.res, s.nonNil, s.err = ssh.VerifC28FindAgreedAlgorithms(isClient, cl, sv) }); pan {
			c.Violation("findAgreedAlgorithms panics", map[string]any{"case": what, "client": cl, "server": sv, "panic": fmt.Sprint(pv)})
			return
		}
		if s.err == nil && s.res == nil {
			c.Violation("findAgreedAlgorithms returns neither result nor error", map[string]any{"case": what, "client": cl, "server": sv})
			return
		}
		if s.nonNil {
			c.Violation("findAgreedAlgorithms returns a result together with an error", map[string]any{"case": what, "client": cl, "server": sv, "isClient": isClient})
		}
	}
	t.evals++
	cOK, sOK := sides[0].err == nil, sides[1].err == nil
	det := func() map[string]any {
		return map[string]any{"case": what, "client": cl, "server": sv, "model": want, "model_ok": wantOK, "model_failed_field": failed,
			"as_client": sides[0].res, "as_client_err": fmt.Sprint(sides[0].err), "as_server": sides[1].res, "as_server_err": fmt.Sprint(sides[1].err)}
	}
	if cOK != sOK {
		c.Violation("client and server computations disagree on success ("+what+")", det())
		return
	}
	if cOK != wantOK {
		if cOK {
			c.Violation("negotiation succeeds where RFC 4253 7.1 requires disconnect ("+what+")", det())
		} else {
			c.Violation("negotiation fails where RFC 4253 7.1 finds common algorithms ("+what+")", det())
		}
		return
	}
	if !cOK {
		t.out["fail:"+failed]++
		return
	}
	a, b := sides[0].res, sides[1].res
	// the client writes client->server and reads server->client; the server the reverse
	type flat struct{ kex, hk, ccs, csc, mcs, msc, zcs, zsc string }
	fc := flat{a.KeyExchange, a.HostKey, a.WriteCipher, a.ReadCipher, a.WriteMAC, a.ReadMAC, a.WriteCompression, a.ReadCompression}
	fs := flat{b.KeyExchange, b.HostKey, b.ReadCipher, b.WriteCipher, b.ReadMAC, b.WriteMAC, b.ReadCompression, b.WriteCompression}
	fw := flat{want.Kex, want.HostKey, want.CipherCS, want.CipherSC, want.MacCS, want.MacSC, want.CompCS, want.CompSC}
	if fc != fs {
		c.Violation("client and server computations choose different algorithms ("+what+")", det())
		return
	}
	if fc != fw {
		cls := "chosen algorithm is not the first client entry also offered by the server (" + what + ")"
		if (fc.mcs != fw.mcs && fw.mcs == "") || (fc.msc != fw.msc && fw.msc == "") {
			cls = "MAC negotiated for an AEAD cipher (" + what + ")"
		}
		c.Violation(cls, det())
		return
	}
	key := "ok"
	if fw.mcs == "" {
		key += "/aead-cs"
	}
	if fw.msc == "" {
		key += "/aead-sc"
	}
	t.out[key]++
}

func flush(c *vf.Ctx, t *tally) {
	c.Eval(t.evals)
	for k, n := range t.out {
		c.Outcome(k)
		c.Add("outcome_"+k, int64(n))
	}
}

func run(c *vf.Ctx) {
	c.Rule("(a) for each of the 8 negotiated name-list fields: all ordered (client list, server list) pairs of lists of length 0..3 over {known1, known2, unknown} (40 lists incl. empty and duplicates, 1600 pairs; nil lists too), other fields agreeing, both roles; " +
		"(b) cipher x MAC interaction per direction: all pairs of cipher lists of length <=2 [thorough <=3] over {aes128-gcm, chacha20-poly1305, aes128-ctr, unknown} x all pairs of MAC lists of length <=2 over {hmac-sha2-256, hmac-sha1, unknown}, with 4 settings of the opposite direction; " +
		"(c) every cipher name the package knows, with disjoint MAC lists; (d) two fields failing at once, languages and first_kex_packet_follows varied (must not matter); " +
		"(e) both directions of the cipher / MAC / compression pair varied at once and independently on both sides: all quadruples of lists of length <=2 over {known1, known2, unknown} (13^4 per pair); " +
		"(f) long lists: n client x m server names, n,m in {1,2,15..17,31..33,63..65,127..129,255..257,1000} (thorough + 511..513, 4095..4097, and 65535..65537 against lists of up to 17 names), the only common name at every combination of first/middle/last position (plus none, plus a later second common name), full n x m square for kex and host key, diagonal and short lists for the other fields; " +
		"(g) near-miss names (prefix, extension, other case, surrounding blank, empty name, trailing comma, 64/65-byte names) for every field and near misses of the three AEAD cipher names (must need a MAC); " +
		"(e)-(g) also demand that the name-lists passed in (incl. spare capacity) are unchanged afterwards. " +
		"Each pair is evaluated as client and as server: both fail or both agree (client.Write==server.Read, client.Read==server.Write) and equal the RFC 4253 7.1 model. non-trivial = distinct (field, client list, server list) whose model outcome is success with client and server orders differing, or failure")
	c.Assume("algorithm names are compared as opaque strings; the kex/host-key compatibility refinement of RFC 4253 7.1 is outside the property statement")

	// ---- (a) per field, all pairs
	type jobA struct {
		f      int
		cl, sv []string
	}
	var jobs []jobA
	for fi, f := range fields {
		ts := tuples(f.alpha, 3)
		for _, a := range ts {
			for _, b := range ts {
				jobs = append(jobs, jobA{fi, a, b})
			}
		}
		// nil versus empty
		jobs = append(jobs, jobA{fi, nil, nil}, jobA{fi, nil, []string{f.alpha[0]}}, jobA{fi, []string{f.alpha[0]}, nil})
	}
	c.Set("per_field_pairs", len(jobs))
	chunk := 400
	nch := (len(jobs) + chunk - 1) / chunk
	c.ParallelFor(nch, func(ci int) {
		t := &tally{out: map[string]int{}}
		for ji := ci * chunk; ji < (ci+1)*chunk && ji < len(jobs); ji++ {
			j := jobs[ji]
			f := fields[j.f]
			cl, _ := base()
			sv, _ := base()
			*f.get(&cl) = j.cl
			*f.get(&sv) = j.sv
			checkPair(c, &cl, &sv, "field "+f.name, t)
			_, ok := sshnego.First(j.cl, j.sv)
			rev, _ := sshnego.First(j.sv, j.cl)
			fwd, _ := sshnego.First(j.cl, j.sv)
			if !ok || rev != fwd {
				c.Nontrivial(fmt.Sprintf("a/%s/%v/%v", f.name, j.cl, j.sv))
			}
			if c.WantSample() && ok && rev != fwd {
				c.Sample(map[string]any{"field": f.name, "client": j.cl, "server": j.sv, "chosen": fwd, "server_first_would_choose": rev})
			}
		}
		flush(c, t)
	})

	// ---- (b) cipher x MAC interaction
	cipherAlpha := []string{"aes128-gcm@openssh.com", "chacha20-poly1305@openssh.com", "aes128-ctr", "bogus-cipher"}
	macAlpha := []string{"hmac-sha2-256", "hmac-sha1", "bogus-mac"}
	cl := 2
	if c.Thorough {
		cl = 3
	}
	cts := tuples(cipherAlpha, cl)
	mts := tuples(macAlpha, 2)
	// settings of the opposite direction: (client cipher, server cipher, client mac, server mac)
	type opp struct{ cc, sc, cm, sm []string }
	opps := []opp{
		{[]string{"aes256-ctr"}, []string{"aes256-ctr"}, []string{"hmac-sha2-512"}, []string{"hmac-sha2-512"}},                               // plain cipher, MAC agreed
		{[]string{"aes256-gcm@openssh.com"}, []string{"aes256-gcm@openssh.com"}, []string{"hmac-sha2-512"}, []string{"hmac-sha1"}},           // AEAD, MACs disjoint
		{[]string{"aes256-ctr"}, []string{"aes256-ctr"}, []string{"hmac-sha2-512"}, []string{"hmac-sha1"}},                                   // plain cipher, MACs disjoint -> fail
		{[]string{"aes256-ctr", "aes256-gcm@openssh.com"}, []string{"aes256-gcm@openssh.com", "aes256-ctr"}, []string{}, []string{"x", "y"}}, // client prefers plain: needs a MAC -> fail
	}
	type jobB struct {
		dir    int
		cc, sc []string
	}
	var jb []jobB
	for dir := 0; dir < 2; dir++ {
		for _, a := range cts {
			for _, b := range cts {
				jb = append(jb, jobB{dir, a, b})
			}
		}
	}
	c.Set("cipher_list_pairs_per_direction", len(cts)*len(cts))
	c.Set("mac_list_pairs", len(mts)*len(mts))
	c.ParallelFor(len(jb), func(i int) {
		j := jb[i]
		t := &tally{out: map[string]int{}}
		for _, cm := range mts {
			for _, sm := range mts {
				for oi, o := range opps {
					clk, _ := base()
					svk, _ := base()
					if j.dir == 0 {
						clk.CiphersClientServer, svk.CiphersClientServer = j.cc, j.sc
						clk.MACsClientServer, svk.MACsClientServer = cm, sm
						clk.CiphersServerClient, svk.CiphersServerClient = o.cc, o.sc
						clk.MACsServerClient, svk.MACsServerClient = o.cm, o.sm
					} else {
						clk.CiphersServerClient, svk.CiphersServerClient = j.cc, j.sc
						clk.MACsServerClient, svk.MACsServerClient = cm, sm
						clk.CiphersClientServer, svk.CiphersClientServer = o.cc, o.sc
						clk.MACsClientServer, svk.MACsClientServer = o.cm, o.sm
					}
					checkPair(c, &clk, &svk, fmt.Sprintf("cipher x MAC dir%d opp%d", j.dir, oi), t)
				}
			}
		}
		flush(c, t)
		ch, ok := sshnego.First(j.cc, j.sc)
		if ok && sshnego.AEAD[ch] {
			c.Nontrivial(fmt.Sprintf("b/%d/%v/%v", j.dir, j.cc, j.sc))
		}
	})

	// ---- (c) every cipher the package knows: MAC needed iff not AEAD
	known := ssh.VerifC28KnownCiphers()
	sort.Strings(known)
	c.Set("known_ciphers", known)
	t := &tally{out: map[string]int{}}
	for _, name := range known {
		for dir := 0; dir < 2; dir++ {
			for _, macsAgree := range []bool{false, true} {
				clk, _ := base()
				svk, _ := base()
				cm, sm := []string{"hmac-sha2-256"}, []string{"hmac-sha1"}
				if macsAgree {
					sm = []string{"hmac-sha1", "hmac-sha2-256"}
				}
				if dir == 0 {
					clk.CiphersClientServer, svk.CiphersClientServer = []string{name}, []string{"aes128-ctr", name}
					clk.MACsClientServer, svk.MACsClientServer = cm, sm
				} else {
					clk.CiphersServerClient, svk.CiphersServerClient = []string{name}, []string{"aes128-ctr", name}
					clk.MACsServerClient, svk.MACsServerClient = cm, sm
				}
				checkPair(c, &clk, &svk, "known cipher "+name, t)
				c.Nontrivial(fmt.Sprintf("c/%s/%d/%v", name, dir, macsAgree))
			}
		}
	}
	// every AEAD name of the specification must be treated as AEAD when the package knows it, and
	// nothing else may be: covered above through the model (sshnego.AEAD) for every known cipher.

	// ---- (d) things that must not matter, and double failures
	for _, fk := range []bool{false, true} {
		for _, langs := range [][2][]string{{nil, nil}, {{"en"}, {"de"}}, {{"en"}, {}}} {
			clk, _ := base()
			svk, _ := base()
			clk.FirstKexFollows = fk
			clk.LanguagesClientServer, svk.LanguagesClientServer = langs[0], langs[1]
			clk.LanguagesServerClient, svk.LanguagesServerClient = langs[1], langs[0]
			checkPair(c, &clk, &svk, "languages/first_kex_follows", t)
		}
	}
	for a := 0; a < len(fields); a++ {
		for b := a; b < len(fields); b++ {
			clk, _ := base()
			svk, _ := base()
			*fields[a].get(&clk) = []string{"only-client"}
			*fields[b].get(&svk) = []string{"only-server"}
			checkPair(c, &clk, &svk, "two fields disjoint", t)
			c.Nontrivial(fmt.Sprintf("d/%d/%d", a, b))
		}
	}
	flush(c, t)
	t = &tally{out: map[string]int{}}
	hardened(c)
	// findCommon directly (also used for the public key algorithm choice of client auth)
	ts := tuples([]string{"a", "b", "c"}, 3)
	for _, x := range ts {
		for _, y := range ts {
			for _, isClient := range []bool{true, false} {
				var got string
				var err error
				if pan, pv, _ := vf.Protect(func() { got, err = ssh.VerifC28FindCommon("test", x, y, isClient) }); pan {
					c.Violation("findCommon panics", fmt.Sprint(pv))
					continue
				}
				want, ok := sshnego.First(x, y)
				t.evals++
				if (err == nil) != ok || got != want {
					c.Violation("findCommon is not first-client-entry-in-server-list", map[string]any{"client": x, "server": y, "got": got, "want": want, "isClient": isClient})
				}
			}
		}
	}
	flush(c, t)
}
