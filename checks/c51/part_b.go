package main

import (
	"bytes"
	"context"
	"crypto"
	"crypto/ecdsa"
	"crypto/rand"
	"crypto/rsa"
	"crypto/tls"
	"crypto/x509"
	"crypto/x509/pkix"
	"encoding/json"
	"encoding/pem"
	"errors"
	"fmt"
	"math/big"
	"net/http"
	"os"
	"strings"
	"sync/atomic"
	"time"

	"golang.org/x/crypto/acme"
	"golang.org/x/crypto/acme/autocert"
	"verif/vf"
)

// ---- (b) GetCertificate decision grid ------------------------------------------------------

// server names: what the client sends, and (written by hand, not computed with idna) the
// ASCII name a certificate has to be valid for; "" = no certificate may be served at all.
type sni struct {
	label, name, canon string
}

var sniNames = []sni{
	{"ascii", "example.org", "example.org"},
	{"IDN unicode", "bücher.example", "xn--bcher-kva.example"},
	{"IDN punycode", "xn--bcher-kva.example", "xn--bcher-kva.example"},
	{"mixed case", "ExAmPlE.oRg", "example.org"},
	{"mixed case IDN", "BÜCHER.Example", "xn--bcher-kva.example"},
	{"trailing dot", "example.org.", "example.org"},
	{"with port", "example.org:443", ""},
	{"single label", "localhost", ""},
	{"single label with dots around", ".localhost.", ""},
	{"empty", "", ""},
}

var sniNamesThorough = []sni{
	{"subdomain", "www.example.org", "www.example.org"},
	{"underscore label", "a_b.example.org", ""},
	{"space inside", "exam ple.org", ""},
	{"ip literal", "192.0.2.7", "192.0.2.7"},
	{"only dots", "..", ""},
}

var policies = []string{"whitelist hit", "whitelist miss", "nil"}

var contents = []string{
	"empty", "valid", "valid, NotBefore exactly now", "expired 1s ago", "expired long ago",
	"not yet valid", "cert for another name", "CommonName only (no SAN)", "key mismatch", "key type mismatch",
	"garbage bytes", "truncated PEM", "certificate without key", "valid followed by garbage",
}

type helloKind struct {
	label            string
	canECDSA, canRSA bool
	h                tls.ClientHelloInfo
}

var (
	ecdsaSuites = []uint16{tls.TLS_ECDHE_ECDSA_WITH_AES_128_GCM_SHA256, tls.TLS_ECDHE_ECDSA_WITH_CHACHA20_POLY1305}
	rsaSuites   = []uint16{tls.TLS_ECDHE_RSA_WITH_AES_128_GCM_SHA256, tls.TLS_RSA_WITH_AES_128_GCM_SHA256}
	ecdsaSigs   = []tls.SignatureScheme{tls.ECDSAWithP256AndSHA256, tls.ECDSAWithP384AndSHA384}
	rsaSigs     = []tls.SignatureScheme{tls.PSSWithSHA256, tls.PKCS1WithSHA256}
	curves      = []tls.CurveID{tls.X25519, tls.CurveP256}
)

var hellos = []helloKind{
	{"ECDSA-only", true, false, tls.ClientHelloInfo{CipherSuites: ecdsaSuites, SignatureSchemes: ecdsaSigs, SupportedCurves: curves}},
	{"RSA-only", false, true, tls.ClientHelloInfo{CipherSuites: rsaSuites, SignatureSchemes: rsaSigs, SupportedCurves: curves}},
	{"ECDSA+RSA suites, RSA-only signature algorithms", false, true, tls.ClientHelloInfo{CipherSuites: append(append([]uint16{}, ecdsaSuites...), rsaSuites...), SignatureSchemes: rsaSigs, SupportedCurves: curves}},
	{"ECDSA and RSA", true, true, tls.ClientHelloInfo{CipherSuites: append(append([]uint16{}, ecdsaSuites...), rsaSuites...), SignatureSchemes: append(append([]tls.SignatureScheme{}, ecdsaSigs...), rsaSigs...), SupportedCurves: curves}},
}

type pointB struct{ ni, pi, ci, hi int }

func namesB(thorough bool) []sni {
	if thorough {
		return append(append([]sni{}, sniNames...), sniNamesThorough...)
	}
	return sniNames
}

func pointsB(thorough bool) []pointB {
	var out []pointB
	for ni := range namesB(thorough) {
		for pi := range policies {
			for ci := range contents {
				for hi := range hellos {
					out = append(out, pointB{ni, pi, ci, hi})
				}
			}
		}
	}
	return out
}

func (p pointB) describe(thorough bool) string {
	n := namesB(thorough)[p.ni]
	return fmt.Sprintf("name=%s %q policy=%s cache=%s hello=%s", n.label, n.name, policies[p.pi], contents[p.ci], hellos[p.hi].label)
}

// memCache is the in-memory autocert.Cache (single goroutine use).
type memCache struct {
	m    map[string][]byte
	gets []string
}

func (c *memCache) Get(ctx context.Context, key string) ([]byte, error) {
	c.gets = append(c.gets, key)
	if v, ok := c.m[key]; ok {
		return v, nil
	}
	return nil, autocert.ErrCacheMiss
}
func (c *memCache) Put(ctx context.Context, key string, data []byte) error {
	c.m[key] = data
	return nil
}
func (c *memCache) Delete(ctx context.Context, key string) error { delete(c.m, key); return nil }

// failRT is the ACME CA that cannot be reached.
type failRT struct{ n int }

func (f *failRT) RoundTrip(*http.Request) (*http.Response, error) {
	f.n++
	return nil, errors.New("verif: no network")
}

func mustKey(pemText string) crypto.Signer {
	b, _ := pem.Decode([]byte(pemText))
	if b == nil {
		panic("bad static key")
	}
	if k, err := x509.ParsePKCS1PrivateKey(b.Bytes); err == nil {
		return k
	}
	k, err := x509.ParseECPrivateKey(b.Bytes)
	if err != nil {
		panic(err)
	}
	return k
}

func keyPEM(k crypto.Signer) []byte {
	switch k := k.(type) {
	case *rsa.PrivateKey:
		return pem.EncodeToMemory(&pem.Block{Type: "RSA PRIVATE KEY", Bytes: x509.MarshalPKCS1PrivateKey(k)})
	case *ecdsa.PrivateKey:
		b, _ := x509.MarshalECPrivateKey(k)
		return pem.EncodeToMemory(&pem.Block{Type: "EC PRIVATE KEY", Bytes: b})
	}
	panic("key type")
}

var serial int64

func selfSigned(k crypto.Signer, cn string, dns []string, nb, na time.Time) []byte {
	serial++
	t := &x509.Certificate{SerialNumber: big.NewInt(serial), Subject: pkix.Name{CommonName: cn, Organization: []string{"verif test"}},
		DNSNames: dns, NotBefore: nb, NotAfter: na, KeyUsage: x509.KeyUsageDigitalSignature, ExtKeyUsage: []x509.ExtKeyUsage{x509.ExtKeyUsageServerAuth}, BasicConstraintsValid: true}
	der, err := x509.CreateCertificate(rand.Reader, t, t, k.Public(), k)
	if err != nil {
		panic(err)
	}
	return pem.EncodeToMemory(&pem.Block{Type: "CERTIFICATE", Bytes: der})
}

var nowB = time.Date(2026, time.June, 1, 12, 0, 0, 0, time.UTC)

// cacheEntry builds the PEM blob for one key-type slot of the cache. wantRSA says which
// slot ("name+rsa" or "name") it goes into; class "key type mismatch" stores the other type.
func cacheEntry(class, canon string, wantRSA bool, keys map[string]crypto.Signer, seedBytes []byte) []byte {
	typ := "ec"
	if wantRSA {
		typ = "rsa"
	}
	k, other := keys[typ+"0"], keys[typ+"1"]
	nb, na := nowB.Add(-30*day), nowB.Add(60*day)
	dns := []string{canon}
	cn := canon
	switch class {
	case "empty":
		return nil
	case "valid":
	case "valid, NotBefore exactly now":
		nb = nowB
		na = nowB.Add(90 * day)
	case "expired 1s ago":
		na = nowB.Add(-time.Second)
	case "expired long ago":
		nb, na = nowB.Add(-400*day), nowB.Add(-310*day)
	case "not yet valid":
		nb, na = nowB.Add(time.Second), nowB.Add(90*day)
	case "cert for another name":
		dns, cn = []string{"other.example"}, "other.example"
	case "CommonName only (no SAN)":
		dns = nil
	case "key mismatch":
		return append(keyPEM(other), selfSigned(k, cn, dns, nb, na)...)
	case "key type mismatch":
		if wantRSA {
			k = keys["ec0"]
		} else {
			k = keys["rsa0"]
		}
	case "garbage bytes":
		return append([]byte{}, seedBytes...)
	case "truncated PEM":
		full := append(keyPEM(k), selfSigned(k, cn, dns, nb, na)...)
		return full[:len(full)*2/3]
	case "certificate without key":
		return selfSigned(k, cn, dns, nb, na)
	case "valid followed by garbage":
		return append(append(keyPEM(k), selfSigned(k, cn, dns, nb, na)...), []byte("trailing garbage\n")...)
	default:
		panic("unknown content class " + class)
	}
	return append(keyPEM(k), selfSigned(k, cn, dns, nb, na)...)
}

type callB struct {
	Served     bool     `json:"served"`
	Err        string   `json:"err,omitempty"`
	Panic      string   `json:"panic,omitempty"`
	Problems   []string `json:"problems,omitempty"` // oracle findings: "class :: detail"
	PolicyArgs []string `json:"policy_args,omitempty"`
	KeyType    string   `json:"key_type,omitempty"`
	NotAfter   string   `json:"not_after,omitempty"`
	FromCache  bool     `json:"from_cache"`
}

type resB struct {
	First  callB  `json:"first"`
	Second *callB `json:"second,omitempty"` // same hello, clock past NotAfter of the served certificate
	HTTP   int    `json:"http_requests"`
	Timers int    `json:"renewal_timers"`
}

func asciiLowerNoDot(s string) string { return strings.TrimSuffix(strings.ToLower(s), ".") }

// judgeCert applies the property to a certificate GetCertificate returned.
func judgeCert(cert *tls.Certificate, n sni, h helloKind, policyNil bool, policyCalls []string, policyErrs []error, now time.Time, out *callB) {
	bad := func(class, detail string) { out.Problems = append(out.Problems, class+" :: "+detail) }
	if n.canon == "" {
		bad("certificate served for an invalid server name", fmt.Sprintf("%q", n.name))
	}
	if !policyNil {
		if len(policyCalls) == 0 {
			bad("certificate served without consulting the HostPolicy", n.name)
		}
		for i, a := range policyCalls {
			if policyErrs[i] != nil {
				bad("certificate served although the HostPolicy rejected the name", a)
			}
			if n.canon != "" && asciiLowerNoDot(a) != n.canon {
				bad("HostPolicy consulted for a different name than the one served", fmt.Sprintf("policy saw %q, canonical name %q", a, n.canon))
			}
		}
	}
	if len(cert.Certificate) == 0 {
		bad("returned tls.Certificate has no certificate chain", "")
		return
	}
	leaf, err := x509.ParseCertificate(cert.Certificate[0])
	if err != nil {
		bad("returned leaf does not parse", err.Error())
		return
	}
	out.NotAfter = leaf.NotAfter.UTC().Format(time.RFC3339)
	if now.Before(leaf.NotBefore) {
		bad("certificate served before its NotBefore", fmt.Sprintf("NotBefore %v, clock %v", leaf.NotBefore, now))
	}
	if now.After(leaf.NotAfter) {
		bad("expired certificate served", fmt.Sprintf("NotAfter %v, clock %v", leaf.NotAfter.UTC(), now.UTC()))
	}
	if n.canon != "" {
		if err := leaf.VerifyHostname(n.canon); err != nil {
			bad("certificate served that is not valid for the requested name", err.Error())
		}
	}
	signer, ok := cert.PrivateKey.(crypto.Signer)
	if !ok {
		bad("returned private key cannot sign", fmt.Sprintf("%T", cert.PrivateKey))
		return
	}
	type equaler interface{ Equal(crypto.PublicKey) bool }
	if pk, ok := leaf.PublicKey.(equaler); !ok || !pk.Equal(signer.Public()) {
		bad("certificate served whose private key does not match the leaf public key", fmt.Sprintf("%T / %T", leaf.PublicKey, signer.Public()))
	}
	switch leaf.PublicKey.(type) {
	case *rsa.PublicKey:
		out.KeyType = "rsa"
		if !h.canRSA {
			bad("RSA certificate served to a ClientHello that can only use ECDSA", h.label)
		}
	case *ecdsa.PublicKey:
		out.KeyType = "ecdsa"
		if !h.canECDSA {
			bad("ECDSA certificate served to a ClientHello that cannot use ECDSA", h.label)
		}
	default:
		bad("certificate with an unexpected key type served", fmt.Sprintf("%T", leaf.PublicKey))
	}
}

func workerB(start, step, n int, thorough bool, seed int64, emit func(int, any)) {
	pts := pointsB(thorough)
	names := namesB(thorough)
	keys := map[string]crypto.Signer{"rsa0": mustKey(rsaKeyPEM0), "rsa1": mustKey(rsaKeyPEM1), "ec0": mustKey(ecKeyPEM0), "ec1": mustKey(ecKeyPEM1), "acct": mustKey(ecKeyPEM2)}
	autocert.VerifC51SetRetryAfter(1000000 * time.Hour)
	autocert.VerifC51SeedRand(seed)
	for i := start; i < n && i < len(pts); i += step {
		p := pts[i]
		nm, h := names[p.ni], hellos[p.hi]
		// cache: the same class under the ECDSA and the RSA slot of every plausible spelling
		cache := &memCache{m: map[string][]byte{}}
		spell := []string{nm.canon}
		if nm.canon == "" {
			spell = []string{"example.org", "localhost", nm.name, strings.ToLower(nm.name)}
		} else {
			spell = append(spell, nm.canon+".", nm.name, strings.ToLower(nm.name))
		}
		canonForCert := nm.canon
		if canonForCert == "" {
			canonForCert = "example.org"
		}
		garbage := vf.DetBytes(fmt.Sprintf("%d|c51-garbage|%d", seed, i), 300)
		ec := cacheEntry(contents[p.ci], canonForCert, false, keys, garbage)
		rs := cacheEntry(contents[p.ci], canonForCert, true, keys, garbage)
		initial := map[string]bool{}
		if ec != nil {
			for _, s := range spell {
				if s == "" {
					continue
				}
				cache.m[s], cache.m[s+"+rsa"] = ec, rs
			}
			initial[string(ec)], initial[string(rs)] = true, true
		}
		var calls []string
		var errs []error
		var inner autocert.HostPolicy
		switch policies[p.pi] {
		case "whitelist hit":
			if nm.canon != "" {
				inner = autocert.HostWhitelist(nm.canon)
			} else {
				inner = autocert.HostWhitelist(nm.name, "example.org", "localhost")
			}
		case "whitelist miss":
			inner = autocert.HostWhitelist("other.example", "example.com")
		}
		rt := &failRT{}
		now := nowB
		m := &autocert.Manager{Prompt: autocert.AcceptTOS, Cache: cache,
			Client: &acme.Client{Key: keys["acct"], DirectoryURL: "https://ca.invalid/directory", HTTPClient: &http.Client{Transport: rt}}}
		if inner != nil {
			m.HostPolicy = func(ctx context.Context, host string) error {
				err := inner(ctx, host)
				calls, errs = append(calls, host), append(errs, err)
				return err
			}
		}
		autocert.VerifC51SetNow(m, func() time.Time { return now })
		call := func() (callB, *tls.Certificate) {
			var out callB
			calls, errs = nil, nil
			hello := h.h
			hello.ServerName = nm.name
			var cert *tls.Certificate
			var err error
			panicked, val, _ := vf.Protect(func() { cert, err = m.GetCertificate(&hello) })
			switch {
			case panicked:
				out.Panic = fmt.Sprint(val)
			case err != nil:
				out.Err = err.Error()
				if len(out.Err) > 120 {
					out.Err = out.Err[:120]
				}
				if cert != nil {
					out.Problems = append(out.Problems, "GetCertificate returns a certificate together with an error :: "+out.Err)
				}
			case cert == nil:
				out.Problems = append(out.Problems, "GetCertificate returns neither a certificate nor an error :: ")
			default:
				out.Served = true
				judgeCert(cert, nm, h, inner == nil, calls, errs, now, &out)
				// with the CA unreachable, whatever is served can only come from the cache
				if len(cert.Certificate) > 0 {
					for blob := range initial {
						out.FromCache = out.FromCache || bytes.Contains([]byte(blob), pem.EncodeToMemory(&pem.Block{Type: "CERTIFICATE", Bytes: cert.Certificate[0]}))
					}
					if !out.FromCache {
						out.Problems = append(out.Problems, "certificate served that is neither cached nor issued by the CA (the CA is unreachable) :: ")
					}
				}
			}
			out.PolicyArgs = calls
			return out, cert
		}
		var r resB
		var cert *tls.Certificate
		r.First, cert = call()
		if r.First.Panic == "" && r.First.Served && cert != nil && len(cert.Certificate) > 0 {
			if leaf, err := x509.ParseCertificate(cert.Certificate[0]); err == nil {
				now = leaf.NotAfter.Add(time.Hour)
				s, _ := call()
				r.Second = &s
			}
		}
		r.HTTP = rt.n
		if r.First.Panic == "" && (r.Second == nil || r.Second.Panic == "") {
			r.Timers = autocert.VerifC51RenewalTimers(m)
			vf.Protect(func() { autocert.VerifC51StopRenew(m) })
		}
		emit(i, r)
		if r.First.Panic != "" || (r.Second != nil && r.Second.Panic != "") {
			os.Exit(3)
		}
	}
}

func partB(c *vf.Ctx) {
	pts := pointsB(c.Thorough)
	c.Set("part_b_points", len(pts))
	var served atomic.Int64
	report := func(desc, phase string, cb callB) {
		if cb.Panic != "" {
			c.Violation("GetCertificate panics", map[string]any{"point": desc, "call": phase, "panic": cb.Panic})
		}
		for _, pr := range cb.Problems {
			class, detail, _ := strings.Cut(pr, " :: ")
			if phase == "second call, clock 1h past NotAfter" && class == "expired certificate served" {
				class = "expired certificate served from Manager.state after the clock passed NotAfter (the state hit in Manager.cert skips the validity check; CA unreachable)"
			}
			c.Violation(class, map[string]any{"point": desc, "call": phase, "detail": detail, "policy_args": cb.PolicyArgs, "error": cb.Err})
		}
	}
	lanes(c, "b", len(pts), func(i int, raw []byte) {
		var r resB
		if err := json.Unmarshal(raw, &r); err != nil {
			c.Capped("part b: unreadable worker line")
			return
		}
		desc := pts[i].describe(c.Thorough)
		c.Eval(1)
		c.Transition(1)
		c.Nontrivial("b|" + desc)
		if c.WantSample() && i%173 == 11 {
			c.Sample(map[string]any{"part": "b", "point": desc, "first": r.First, "second": r.Second})
		}
		out := "error"
		switch {
		case r.First.Panic != "":
			out = "panic"
		case r.First.Served:
			out = "served " + r.First.KeyType
			served.Add(1)
		case r.HTTP > 0:
			out = "error after trying to reach the CA"
		}
		c.Outcome("b: " + out)
		report(desc, "first call", r.First)
		if r.Second != nil {
			c.Transition(1)
			if r.Second.Served {
				c.Outcome("b second call: served")
			} else {
				c.Outcome("b second call: error")
			}
			report(desc, "second call, clock 1h past NotAfter", *r.Second)
		}
	})
	if served.Load() == 0 && !c.Expired() {
		c.Violation("harness vacuous: no grid point of part (b) was served a certificate", nil)
	}
}
