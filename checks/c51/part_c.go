package main

import (
	"fmt"
	"sort"
	"strings"

	"golang.org/x/crypto/acme/autocert"
	"verif/schedx"
	"verif/vf"
)

// ---- (c) concurrent GetCertificate for one new name, all interleavings within the bound ----

const domainC = "new.example.org"

func checkC(sc autocert.VerifC51Scenario) func(obs any) (string, string) {
	return func(obs any) (string, string) {
		r, _ := obs.(*autocert.VerifC51Result)
		if r == nil {
			return "", ""
		}
		var ds []string
		for d := range r.NewOrders {
			ds = append(ds, d)
		}
		sort.Strings(ds)
		for _, d := range ds {
			if d != domainC {
				return "concurrent GetCertificate: the CA received an order for a different name", fmt.Sprintf("%q: %d", d, r.NewOrders[d])
			}
			if r.NewOrders[d]-r.PreOrders > 1 || (sc.Preload && r.NewOrders[d] > r.PreOrders) {
				return "concurrent GetCertificate for one new name starts more than one issuance (new-order requests > 1)", fmt.Sprintf("new-orders=%d issued=%d callers=%d", r.NewOrders[d], r.Issued, sc.Callers)
			}
		}
		if r.Issued > 1 {
			return "concurrent GetCertificate for one new name starts more than one issuance (certificates issued > 1)", fmt.Sprint(r.Issued)
		}
		for i, e := range r.Errors {
			if e != "" {
				return "concurrent GetCertificate: a caller gets an error although the CA issues the certificate", fmt.Sprintf("caller %d: %s; CA rejected: %v", i, e, r.CABad)
			}
		}
		if len(r.Problems) > 0 {
			return "concurrent GetCertificate: a caller gets a certificate that is not valid for the name / key", strings.Join(r.Problems, "; ")
		}
		if r.DistinctCerts != 1 {
			return "concurrent GetCertificate: callers get different certificates", fmt.Sprint(r.DistinctCerts)
		}
		if !r.IssuedByCA {
			return "concurrent GetCertificate: a returned certificate was not issued by the CA", ""
		}
		return "", ""
	}
}

func outcomeC(obs any) string {
	r, _ := obs.(*autocert.VerifC51Result)
	if r == nil {
		return "<nil>"
	}
	ne := 0
	for _, e := range r.Errors {
		if e != "" {
			ne++
		}
	}
	return fmt.Sprintf("orders=%d accounts=%d issued=%d errors=%d certs=%d requests=%d puts=%d timers=%d", r.NewOrders[domainC], r.Accounts, r.Issued, ne, r.DistinctCerts, r.Requests, len(r.CachePuts), r.RenewalTimers)
}

func partC(c *vf.Ctx) {
	bound := 2
	type cfg struct {
		callers              int
		cache, pol           bool
		bound, boundThorough int
	}
	cfgs := []cfg{
		{2, false, false, 3, 4},
		{2, true, true, 3, 4},
		{3, false, true, 2, 3},
		{3, true, false, 2, 3},
	}
	var scs []schedx.Scenario
	for _, k := range cfgs {
		b := k.bound
		if c.Thorough {
			b = k.boundThorough
		}
		if b > bound {
			bound = b
		}
		sc := autocert.VerifC51Scenario{Callers: k.callers, WithCache: k.cache, Policy: k.pol, Domain: domainC}
		scs = append(scs, schedx.Scenario{
			Name:    fmt.Sprintf("c: %d callers cache=%v policy=%v bound=%d", k.callers, k.cache, k.pol, b),
			Bound:   b,
			Body:    func() any { return autocert.VerifC51Concurrent(sc) },
			Check:   checkC(sc),
			Outcome: outcomeC,
		})
	}
	// spellings of one name (same certificate key), and a certificate that is already cached
	for _, k := range []struct {
		name    string
		sc      autocert.VerifC51Scenario
		b, bThr int
	}{
		{"2 callers, spellings {name, upper case}, cache, policy", autocert.VerifC51Scenario{Callers: 2, WithCache: true, Policy: true, Domain: domainC, Names: []string{domainC, "NEW.Example.ORG"}}, 3, 4},
		{"3 callers, spellings {name, trailing dot, mixed case}, no cache", autocert.VerifC51Scenario{Callers: 3, Domain: domainC, Names: []string{domainC, domainC + ".", "New.example.org"}}, 2, 3},
		{"2 callers, certificate already cached by another Manager", autocert.VerifC51Scenario{Callers: 2, WithCache: true, Policy: true, Domain: domainC, Preload: true}, 3, 4},
		{"3 callers, certificate already cached, spellings", autocert.VerifC51Scenario{Callers: 3, WithCache: true, Domain: domainC, Preload: true, Names: []string{domainC, domainC + ".", "NEW.example.org"}}, 2, 3},
	} {
		k := k
		b := k.b
		if c.Thorough {
			b = k.bThr
		}
		scs = append(scs, schedx.Scenario{Name: "c: " + k.name + fmt.Sprintf(" bound=%d", b), Bound: b,
			Body: func() any { return autocert.VerifC51Concurrent(k.sc) }, Check: checkC(k.sc), Outcome: outcomeC})
	}
	c.Assume("(c): package acme/autocert is instrumented (every mutex, RWMutex and go statement is a scheduling point); package acme and the fake CA run atomically between scheduling points; renewal timers (time.AfterFunc, >= 59 days) and context deadlines (5 min) are real-time timers that never fire during an execution; the tls-alpn-01 challenge is accepted by the fake CA without connecting back")
	schedx.Explore(c, scs)
}
