package main

import "verif/vf"

func partC(c *vf.Ctx) {}
