// C51: autocert serves only approved, valid certificates and renews safely.
//
//	(a) renewal scheduler grid: certificate lifetime x RenewBefore x clock position through
//	    the real (*domainRenewal).next (hook VerifC51RenewalNext); oracle: no panic, delay
//	    >= 0, renewal instant inside the documented window
//	    [NotAfter - threshold, NotAfter - threshold + jitter window).
//	(b) GetCertificate decision grid: server name x HostPolicy x cache content x ClientHello
//	    on a real Manager with an in-memory Cache, a fixed clock and an ACME client whose
//	    transport fails every request; oracle: a certificate is returned only for a name the
//	    policy accepted, only if valid now for that name, with matching private key and a key
//	    type the hello can use; afterwards a second call with the clock past NotAfter.
//	(c) interleavings (sched): 2-3 goroutines call GetCertificate for the same new name
//	    against an in-process fake ACME CA; oracle: at most one new-order, every caller gets
//	    the same valid certificate, no deadlock. See part_c.go.
//
// Every grid point of (a) and (b) runs in a worker subprocess (re-exec with
// VERIF_C51_WORK): a panic inside next() leaves the package-level pseudoRand mutex
// locked, so a process that has seen one panic cannot be used again.
package main

import (
	"bufio"
	"encoding/json"
	"fmt"
	"os"
	"os/exec"
	"runtime"
	"strconv"
	"strings"
	"sync"
	"time"

	"verif/sched"
	"verif/vf"
)

func main() {
	if w := os.Getenv("VERIF_C51_WORK"); w != "" {
		workerMain(w)
		return
	}
	vf.Main("C51", vf.ModelChecking, run)
}

func run(c *vf.Ctx) {
	c.Rule("(a) full grid lifetime{0,1ns,29ns,30ns,1s,1h,90d,398d,10y} x RenewBefore{0,1..12ns,1us,1h,7d,30d,60d} x clock{before NotBefore, mid-life, window start -1ns/+0/+1ns, window end, NotAfter, after expiry} x 4 jitter draws, each in a worker process; " +
		"(b) full grid server name x HostPolicy{whitelist hit, whitelist miss, nil} x cache content x ClientHello{ECDSA-only, RSA-only, ECDSA suites with RSA-only signature algorithms, both} plus a second call after the clock passed NotAfter; " +
		"(c) every interleaving with <= Bound deviations of 2-3 concurrent GetCertificate calls for one new name against a synchronous in-process ACME CA; " +
		"non-trivial = distinct grid point / scenario with more than one execution; oracle = window arithmetic written from the renewal.go/Manager documentation, X.509 validity + hostname + key checks by the standard library on the returned certificate, the fake CA's request log")
	c.Assume("crypto/x509, crypto/tls, net/http, math/big are correct; the ACME client (package acme) is exercised but not judged here")
	c.Assume("(b): the Manager clock is the nowFunc test seam; renewal timers (real time) never fire during a grid point")
	_, _, isSchedWorker := sched.ShardEnv()
	if !isSchedWorker && c.Replay == nil {
		partA(c)
		partB(c)
	}
	partC(c)
}

// ---------------------------------------------------------------------------------------
// worker plumbing shared by (a) and (b)

// lanes runs points 0..n-1 of part in worker subprocesses (interleaved over the lanes) and
// calls handle for each result line. A worker exits after a point that panicked; the lane
// then continues with a fresh worker. watchdog bounds harness time only.
func lanes(c *vf.Ctx, part string, n int, handle func(idx int, raw []byte)) {
	nl := runtime.NumCPU()
	if nl > n {
		nl = n
	}
	watchdog := 180 * time.Second
	var wg sync.WaitGroup
	for l := 0; l < nl; l++ {
		wg.Add(1)
		go func(l int) {
			defer wg.Done()
			next := l
			hangs := 0
			for next < n && !c.Expired() {
				last, hung := runWorker(part, next, nl, n, watchdog, handle)
				switch {
				case hung:
					// the point after `last` made no progress: retry it alone
					idx := next
					if last >= 0 {
						idx = last + nl
					}
					if idx >= n {
						return
					}
					hangs++
					rep := 0
					for k := 0; k < 2; k++ {
						if l2, h2 := runWorker(part, idx, n, idx+1, watchdog, handle); h2 && l2 < 0 {
							rep++
						}
					}
					if rep == 2 {
						c.Violation("part "+part+": call does not return (no progress within the harness watchdog, reproduced 3 times in fresh processes)", map[string]any{"point": idx})
					} else {
						c.Capped(fmt.Sprintf("part %s: worker watchdog fired once at point %d and did not reproduce", part, idx))
					}
					next = idx + nl
				case last < 0:
					c.Capped(fmt.Sprintf("part %s: worker produced no result for point %d", part, next))
					next += nl
				default:
					next = last + nl
				}
			}
		}(l)
	}
	wg.Wait()
}

// runWorker starts one worker for points start, start+step, ... < n and returns the last
// index for which a result arrived and whether the watchdog killed it.
func runWorker(part string, start, step, n int, watchdog time.Duration, handle func(int, []byte)) (last int, hung bool) {
	last = -1
	cmd := exec.Command(os.Args[0], os.Args[1:]...)
	cmd.Env = append(os.Environ(), fmt.Sprintf("VERIF_C51_WORK=%s:%d:%d:%d", part, start, step, n), "GOMAXPROCS=2")
	cmd.Stderr = nil
	out, err := cmd.StdoutPipe()
	if err != nil {
		return
	}
	if err := cmd.Start(); err != nil {
		return
	}
	lines := make(chan string, 64)
	go func() {
		sc := bufio.NewScanner(out)
		sc.Buffer(make([]byte, 1<<20), 1<<24)
		for sc.Scan() {
			lines <- sc.Text()
		}
		close(lines)
	}()
	timer := time.NewTimer(watchdog)
	defer timer.Stop()
	for {
		select {
		case ln, ok := <-lines:
			if !ok {
				cmd.Wait()
				return
			}
			if !strings.HasPrefix(ln, "R ") {
				continue
			}
			rest := ln[2:]
			sp := strings.IndexByte(rest, ' ')
			if sp < 0 {
				continue
			}
			idx, err := strconv.Atoi(rest[:sp])
			if err != nil {
				continue
			}
			last = idx
			handle(idx, []byte(rest[sp+1:]))
			if !timer.Stop() {
				select {
				case <-timer.C:
				default:
				}
			}
			timer.Reset(watchdog)
		case <-timer.C:
			cmd.Process.Kill()
			cmd.Wait()
			return last, true
		}
	}
}

func workerMain(spec string) {
	f := strings.Split(spec, ":")
	if len(f) != 4 {
		os.Exit(2)
	}
	start, _ := strconv.Atoi(f[1])
	step, _ := strconv.Atoi(f[2])
	n, _ := strconv.Atoi(f[3])
	thorough := false
	for _, a := range os.Args[1:] {
		thorough = thorough || a == "thorough"
	}
	if os.Getenv("VERIF_TIER") == "thorough" {
		thorough = true
	}
	seed, _ := strconv.ParseInt(os.Getenv("VERIF_SEED"), 10, 64)
	w := bufio.NewWriter(os.Stdout)
	emit := func(idx int, v any) {
		b, _ := json.Marshal(v)
		fmt.Fprintf(w, "R %d %s\n", idx, b)
		w.Flush()
	}
	switch f[0] {
	case "a":
		workerA(start, step, n, seed, emit)
	case "b":
		workerB(start, step, n, thorough, seed, emit)
	}
	os.Exit(0)
}
