package main

import (
	"encoding/json"
	"fmt"
	"os"
	"strings"
	"time"

	"golang.org/x/crypto/acme/autocert"
	"verif/vf"
)

// ---- (a) renewal scheduler grid ------------------------------------------------------------

const day = 24 * time.Hour

type named[T any] struct {
	name string
	v    T
}

var lifetimes = []named[time.Duration]{
	{"0", 0}, {"1ns", 1}, {"29ns", 29}, {"30ns", 30}, {"1s", time.Second}, {"1h", time.Hour},
	{"90d", 90 * day}, {"398d", 398 * day}, {"10y", 3650 * day},
}

func renewBefores() []named[time.Duration] {
	out := []named[time.Duration]{{"0 (default)", 0}}
	for i := 1; i <= 12; i++ {
		out = append(out, named[time.Duration]{fmt.Sprintf("%dns", i), time.Duration(i)})
	}
	return append(out, named[time.Duration]{"1us", time.Microsecond}, named[time.Duration]{"1h", time.Hour},
		named[time.Duration]{"7d", 7 * day}, named[time.Duration]{"30d", 30 * day}, named[time.Duration]{"60d", 60 * day})
}

var clockNames = []string{"1h before NotBefore", "mid-life", "window start - 1ns", "window start", "window start + 1ns", "window end", "NotAfter", "1h after NotAfter"}

const drawsPerPoint = 4

var notBeforeA = time.Date(2026, time.March, 1, 0, 0, 0, 0, time.UTC)

// window is the documented renewal window, written from the comments in renewal.go and on
// Manager.RenewBefore: threshold = RenewBefore if set, else 1/3 of the lifetime, both capped
// at 30 days; jitter = up to 10% of the threshold, capped at 1 hour; renewal happens at
// NotAfter - threshold + jitter.
func window(life, renewBefore time.Duration) (th, maxJitter time.Duration) {
	th = life / 3
	if renewBefore > 0 {
		th = renewBefore
	}
	if th > 30*day {
		th = 30 * day
	}
	maxJitter = th / 10
	if maxJitter > time.Hour {
		maxJitter = time.Hour
	}
	return
}

type pointA struct {
	li, ri, ci  int
	life, rb    time.Duration
	now         time.Time
	notAfter    time.Time
	lo, hi      time.Time // renewal instant must be in [lo, hi) (== lo when hi == lo)
	description string
}

func pointsA() []pointA {
	var out []pointA
	rbs := renewBefores()
	for li, l := range lifetimes {
		for ri, rb := range rbs {
			th, mj := window(l.v, rb.v)
			na := notBeforeA.Add(l.v)
			lo := na.Add(-th)
			hi := lo.Add(mj)
			clocks := []time.Time{notBeforeA.Add(-time.Hour), notBeforeA.Add(l.v / 2), lo.Add(-1), lo, lo.Add(1), hi, na, na.Add(time.Hour)}
			for ci, now := range clocks {
				out = append(out, pointA{li, ri, ci, l.v, rb.v, now, na, lo, hi,
					fmt.Sprintf("lifetime=%s RenewBefore=%s clock=%s", l.name, rb.name, clockNames[ci])})
			}
		}
	}
	return out
}

type resA struct {
	Panic    string  `json:"panic,omitempty"`
	LockHeld bool    `json:"lock_left_held,omitempty"` // pseudoRand's mutex was still locked after the panic
	Delays   []int64 `json:"delays,omitempty"`         // ns
}

// workerA evaluates its points. A panic inside next() leaves pseudoRand's mutex locked (every
// later call in the process would block); the worker records that and releases the lock
// through the hook so that it can go on with the next point.
func workerA(start, step, n int, seed int64, emit func(int, any)) {
	pts := pointsA()
	autocert.VerifC51SeedRand(seed*1000003 + int64(start))
	for i := start; i < n && i < len(pts); i += step {
		p := pts[i]
		var r resA
		panicked, val, _ := vf.Protect(func() {
			for k := 0; k < drawsPerPoint; k++ {
				d := autocert.VerifC51RenewalNext(p.rb, p.now, notBeforeA, p.notAfter)
				r.Delays = append(r.Delays, int64(d))
			}
		})
		if panicked {
			r.Panic = fmt.Sprint(val)
			r.Delays = nil
			if p2, _, _ := vf.Protect(func() { r.LockHeld = autocert.VerifC51ReleaseRandLock() }); p2 {
				emit(i, r)
				os.Exit(3) // cannot repair: let the parent start a fresh process
			}
		}
		emit(i, r)
	}
}

// zeroJitterRegion names the parameter region of the known defect.
func zeroJitterRegion(p pointA) bool {
	_, mj := window(p.life, p.rb)
	return mj == 0
}

func partA(c *vf.Ctx) {
	pts := pointsA()
	c.Set("part_a_points", len(pts))
	lanes(c, "a", len(pts), func(i int, raw []byte) {
		p := pts[i]
		var r resA
		if err := json.Unmarshal(raw, &r); err != nil {
			c.Capped("part a: unreadable worker line")
			return
		}
		c.Eval(1)
		c.Nontrivial("a|" + p.description)
		c.Transition(drawsPerPoint)
		if c.WantSample() && i%211 == 7 {
			c.Sample(map[string]any{"part": "a", "point": p.description, "delays_ns": r.Delays})
		}
		if r.Panic != "" {
			c.Outcome("a: panic")
			cl := "renewal scheduler panics outside the zero-jitter region"
			if zeroJitterRegion(p) && strings.Contains(r.Panic, "Int63n") {
				cl = "renewal scheduler panics: jitter window is zero (RenewBefore 1..9ns, or RenewBefore unset and lifetime < 30ns)"
			}
			if r.LockHeld {
				c.Set("part_a_pseudoRand_mutex_left_locked_by_panic", true)
			}
			c.Violation(cl, map[string]any{"point": p.description, "panic": r.Panic, "pseudoRand mutex left locked (later calls would block forever)": r.LockHeld})
			return
		}
		if len(r.Delays) != drawsPerPoint {
			c.Capped("part a: incomplete result for " + p.description)
			return
		}
		for _, dn := range r.Delays {
			d := time.Duration(dn)
			switch {
			case d < 0:
				c.Outcome("a: negative")
				c.Violation("renewal scheduler returns a negative delay", map[string]any{"point": p.description, "delay": d.String()})
			case d == 0:
				c.Outcome("a: due now")
				// renewal is due: the earliest instant of the window must have been reached
				if p.now.Before(p.lo) {
					c.Violation("renewal scheduled before the documented window (delay 0 although the window has not started)", map[string]any{"point": p.description, "window_start_in": p.lo.Sub(p.now).String()})
				}
			default:
				c.Outcome("a: wait")
				at := p.now.Add(d)
				if at.Before(p.lo) {
					c.Violation("renewal scheduled before the documented window", map[string]any{"point": p.description, "delay": d.String(), "early_by": p.lo.Sub(at).String()})
				}
				if at.After(p.hi) || (at.Equal(p.hi) && p.hi.After(p.lo)) {
					c.Violation("renewal scheduled after the documented jitter window", map[string]any{"point": p.description, "delay": d.String(), "late_by": at.Sub(p.hi).String()})
				}
			}
		}
	})
}
