//go:build verif

package autocert

// In-process fake ACME CA for the C51 interleaving harness. It is an http.RoundTripper that
// answers synchronously: no sockets, no goroutines, no timers and, on purpose, NO locks and
// no other scheduling point, because package acme (not instrumented) holds its own real
// mutexes across some round trips; under the cooperative scheduler exactly one goroutine
// runs between two scheduling points, so plain fields are safe here.

import (
	"bytes"
	"crypto/ecdsa"
	"crypto/elliptic"
	"crypto/rand"
	"crypto/x509"
	"crypto/x509/pkix"
	"encoding/base64"
	"encoding/json"
	"encoding/pem"
	"fmt"
	"io"
	"math/big"
	"net/http"
	"strconv"
	"strings"
	"time"
)

const verifC51CAURL = "https://ca.verif.test"

type verifC51Order struct {
	domain  string
	status  string // pending, ready, valid
	authzOK bool
	leaf    []byte
}

type verifC51CA struct {
	key      *ecdsa.PrivateKey
	rootDER  []byte
	rootTmpl *x509.Certificate

	nonce     int
	orders    []*verifC51Order
	Log       []string       // "METHOD path" of every request, in order
	NewOrders map[string]int // new-order requests per domain
	Accounts  int
	Issued    [][]byte // DER of every leaf issued
	Bad       []string // requests the CA could not make sense of
}

var verifC51CAKey *ecdsa.PrivateKey

func newVerifC51CA() *verifC51CA {
	if verifC51CAKey == nil {
		k, err := ecdsa.GenerateKey(elliptic.P256(), rand.Reader)
		if err != nil {
			panic(err)
		}
		verifC51CAKey = k
	}
	ca := &verifC51CA{key: verifC51CAKey, NewOrders: map[string]int{}}
	ca.rootTmpl = &x509.Certificate{
		SerialNumber: big.NewInt(1), Subject: pkix.Name{Organization: []string{"Verif Test CA"}, CommonName: "verif root"},
		NotBefore: time.Now().Add(-24 * time.Hour), NotAfter: time.Now().Add(3650 * 24 * time.Hour),
		KeyUsage: x509.KeyUsageCertSign, BasicConstraintsValid: true, IsCA: true,
	}
	der, err := x509.CreateCertificate(rand.Reader, ca.rootTmpl, ca.rootTmpl, &ca.key.PublicKey, ca.key)
	if err != nil {
		panic(err)
	}
	ca.rootDER = der
	return ca
}

func (ca *verifC51CA) reply(req *http.Request, code int, hdr map[string]string, body []byte) *http.Response {
	ca.nonce++
	h := http.Header{}
	h.Set("Replay-Nonce", "nonce-"+strconv.Itoa(ca.nonce))
	h.Set("Content-Type", "application/json")
	for k, v := range hdr {
		h.Set(k, v)
	}
	return &http.Response{StatusCode: code, Status: strconv.Itoa(code) + " " + http.StatusText(code), Proto: "HTTP/1.1", ProtoMajor: 1, ProtoMinor: 1,
		Header: h, Body: io.NopCloser(bytes.NewReader(body)), ContentLength: int64(len(body)), Request: req}
}

func (ca *verifC51CA) problem(req *http.Request, code int, msg string) *http.Response {
	ca.Bad = append(ca.Bad, req.Method+" "+req.URL.Path+": "+msg)
	b, _ := json.Marshal(map[string]any{"type": "urn:ietf:params:acme:error:malformed", "detail": msg, "status": code})
	return ca.reply(req, code, map[string]string{"Content-Type": "application/problem+json"}, b)
}

// payload decodes the JWS payload of a POST body into v (empty payload = POST-as-GET).
func verifC51Payload(req *http.Request, v any) error {
	if req.Body == nil {
		return nil
	}
	raw, err := io.ReadAll(req.Body)
	if err != nil {
		return err
	}
	var jws struct{ Payload string }
	if err := json.Unmarshal(raw, &jws); err != nil {
		return err
	}
	if jws.Payload == "" {
		return nil
	}
	p, err := base64.RawURLEncoding.DecodeString(jws.Payload)
	if err != nil {
		return err
	}
	return json.Unmarshal(p, v)
}

func (ca *verifC51CA) orderJSON(id int) []byte {
	o := ca.orders[id]
	m := map[string]any{
		"status":         o.status,
		"identifiers":    []map[string]string{{"type": "dns", "value": o.domain}},
		"authorizations": []string{fmt.Sprintf("%s/authz/%d", verifC51CAURL, id)},
		"finalize":       fmt.Sprintf("%s/finalize/%d", verifC51CAURL, id),
	}
	if o.status == "valid" {
		m["certificate"] = fmt.Sprintf("%s/cert/%d", verifC51CAURL, id)
	}
	b, _ := json.Marshal(m)
	return b
}

func (ca *verifC51CA) orderByPath(path, prefix string) (int, bool) {
	id, err := strconv.Atoi(strings.TrimPrefix(path, prefix))
	return id, err == nil && id >= 0 && id < len(ca.orders)
}

// RoundTrip implements the ACME server.
func (ca *verifC51CA) RoundTrip(req *http.Request) (*http.Response, error) {
	path := req.URL.Path
	ca.Log = append(ca.Log, req.Method+" "+path)
	loc := func(id int) map[string]string {
		return map[string]string{"Location": fmt.Sprintf("%s/order/%d", verifC51CAURL, id)}
	}
	switch {
	case path == "/directory":
		b, _ := json.Marshal(map[string]any{
			"newNonce": verifC51CAURL + "/new-nonce", "newAccount": verifC51CAURL + "/new-account", "newOrder": verifC51CAURL + "/new-order",
			"revokeCert": verifC51CAURL + "/revoke", "keyChange": verifC51CAURL + "/key-change",
			"meta": map[string]any{"termsOfService": verifC51CAURL + "/terms"},
		})
		return ca.reply(req, 200, nil, b), nil
	case path == "/new-nonce":
		return ca.reply(req, 200, nil, nil), nil
	case path == "/new-account":
		ca.Accounts++
		code := 201
		if ca.Accounts > 1 {
			code = 200 // the key is already registered
		}
		return ca.reply(req, code, map[string]string{"Location": verifC51CAURL + "/acct/1"}, []byte(`{"status":"valid"}`)), nil
	case path == "/acct/1":
		return ca.reply(req, 200, map[string]string{"Location": verifC51CAURL + "/acct/1"}, []byte(`{"status":"valid"}`)), nil
	case path == "/new-order":
		var p struct {
			Identifiers []struct{ Type, Value string }
		}
		if err := verifC51Payload(req, &p); err != nil || len(p.Identifiers) != 1 {
			return ca.problem(req, 400, "new-order: bad payload"), nil
		}
		d := p.Identifiers[0].Value
		ca.NewOrders[d]++
		ca.orders = append(ca.orders, &verifC51Order{domain: d, status: "pending"})
		id := len(ca.orders) - 1
		return ca.reply(req, 201, loc(id), ca.orderJSON(id)), nil
	case strings.HasPrefix(path, "/order/"):
		id, ok := ca.orderByPath(path, "/order/")
		if !ok {
			return ca.problem(req, 404, "no such order"), nil
		}
		return ca.reply(req, 200, loc(id), ca.orderJSON(id)), nil
	case strings.HasPrefix(path, "/authz/"):
		id, ok := ca.orderByPath(path, "/authz/")
		if !ok {
			return ca.problem(req, 404, "no such authz"), nil
		}
		var p struct{ Status string }
		verifC51Payload(req, &p)
		o := ca.orders[id]
		st := "pending"
		if o.authzOK {
			st = "valid"
		}
		if p.Status == "deactivated" {
			st = "deactivated"
		}
		b, _ := json.Marshal(map[string]any{
			"status": st, "identifier": map[string]string{"type": "dns", "value": o.domain},
			"challenges": []map[string]string{
				{"type": "http-01", "url": fmt.Sprintf("%s/chal/http-01/%d", verifC51CAURL, id), "token": fmt.Sprintf("tok-http-%d", id), "status": st},
				{"type": "tls-alpn-01", "url": fmt.Sprintf("%s/chal/tls-alpn-01/%d", verifC51CAURL, id), "token": fmt.Sprintf("tok-alpn-%d", id), "status": st},
			},
		})
		return ca.reply(req, 200, nil, b), nil
	case strings.HasPrefix(path, "/chal/tls-alpn-01/"):
		id, ok := ca.orderByPath(path, "/chal/tls-alpn-01/")
		if !ok {
			return ca.problem(req, 404, "no such challenge"), nil
		}
		// the challenge is considered validated at once
		o := ca.orders[id]
		o.authzOK = true
		if o.status == "pending" {
			o.status = "ready"
		}
		b, _ := json.Marshal(map[string]string{"type": "tls-alpn-01", "url": verifC51CAURL + path, "token": fmt.Sprintf("tok-alpn-%d", id), "status": "valid"})
		return ca.reply(req, 200, nil, b), nil
	case strings.HasPrefix(path, "/finalize/"):
		id, ok := ca.orderByPath(path, "/finalize/")
		if !ok {
			return ca.problem(req, 404, "no such order"), nil
		}
		o := ca.orders[id]
		if o.status != "ready" {
			return ca.problem(req, 403, "order is "+o.status+", not ready"), nil
		}
		var p struct{ CSR string }
		if err := verifC51Payload(req, &p); err != nil {
			return ca.problem(req, 400, "finalize: bad payload"), nil
		}
		raw, _ := base64.RawURLEncoding.DecodeString(p.CSR)
		csr, err := x509.ParseCertificateRequest(raw)
		if err != nil || csr.CheckSignature() != nil {
			return ca.problem(req, 400, "finalize: bad CSR"), nil
		}
		if len(csr.DNSNames) != 1 || csr.DNSNames[0] != o.domain {
			return ca.problem(req, 400, "finalize: CSR names do not match the order"), nil
		}
		leaf := &x509.Certificate{
			SerialNumber: big.NewInt(int64(100 + len(ca.Issued))), Subject: pkix.Name{Organization: []string{"Verif Test CA"}},
			NotBefore: time.Now().Add(-time.Hour), NotAfter: time.Now().Add(90 * 24 * time.Hour),
			KeyUsage: x509.KeyUsageDigitalSignature, ExtKeyUsage: []x509.ExtKeyUsage{x509.ExtKeyUsageServerAuth},
			DNSNames: csr.DNSNames, BasicConstraintsValid: true,
		}
		der, err := x509.CreateCertificate(rand.Reader, leaf, ca.rootTmpl, csr.PublicKey, ca.key)
		if err != nil {
			return ca.problem(req, 500, "sign: "+err.Error()), nil
		}
		o.leaf, o.status = der, "valid"
		ca.Issued = append(ca.Issued, der)
		return ca.reply(req, 200, loc(id), ca.orderJSON(id)), nil
	case strings.HasPrefix(path, "/cert/"):
		id, ok := ca.orderByPath(path, "/cert/")
		if !ok || ca.orders[id].status != "valid" {
			return ca.problem(req, 404, "no such certificate"), nil
		}
		var buf bytes.Buffer
		pem.Encode(&buf, &pem.Block{Type: "CERTIFICATE", Bytes: ca.orders[id].leaf})
		pem.Encode(&buf, &pem.Block{Type: "CERTIFICATE", Bytes: ca.rootDER})
		return ca.reply(req, 200, map[string]string{"Content-Type": "application/pem-certificate-chain"}, buf.Bytes()), nil
	}
	return ca.problem(req, 400, "unrecognized path"), nil
}
