//go:build verif

package autocert

// C51 interleaving harness: N goroutines call the real Manager.GetCertificate for the same
// new name against the in-process fake CA. This file is instrumented together with the
// package, so `go`, sync.WaitGroup and sync.Mutex below are scheduler operations.

import (
	"context"
	"crypto"
	"crypto/ecdsa"
	"crypto/tls"
	"crypto/x509"
	"fmt"
	"net/http"
	"sort"
	"sync"
	"time"

	"golang.org/x/crypto/acme"
)

func verifWaitIdle() {}

// verifC51Cache is a Cache that is safe for concurrent use (as the Cache contract demands).
type verifC51Cache struct {
	mu   sync.Mutex
	m    map[string][]byte
	Puts []string
}

func (c *verifC51Cache) Get(ctx context.Context, key string) ([]byte, error) {
	c.mu.Lock()
	defer c.mu.Unlock()
	if v, ok := c.m[key]; ok {
		return v, nil
	}
	return nil, ErrCacheMiss
}
func (c *verifC51Cache) Put(ctx context.Context, key string, data []byte) error {
	c.mu.Lock()
	defer c.mu.Unlock()
	c.m[key] = data
	c.Puts = append(c.Puts, key)
	return nil
}
func (c *verifC51Cache) Delete(ctx context.Context, key string) error {
	c.mu.Lock()
	defer c.mu.Unlock()
	delete(c.m, key)
	return nil
}

// VerifC51Scenario selects one closed scenario.
type VerifC51Scenario struct {
	Callers   int  // goroutines calling GetCertificate for Domain (caller 0 is the scenario body)
	WithCache bool // Manager.Cache = in-memory cache (else nil)
	Policy    bool // HostPolicy = HostWhitelist(Domain)
	Domain    string
	Names     []string // ServerName per caller (spellings of Domain); nil: Domain for everybody
	Preload   bool     // WithCache only: another Manager has already obtained and cached the certificate
}

// VerifC51Result is the observation of one execution (no key material or time-dependent
// bytes, so that replaying a schedule gives an identical value).
type VerifC51Result struct {
	Errors        []string       // per caller: "" or the error text
	Problems      []string       // per-certificate oracle findings
	DistinctCerts int            // number of different leaf certificates handed to callers
	NewOrders     map[string]int // CA log: new-order requests per domain
	Accounts      int            // CA log: new-account requests
	Issued        int            // CA log: certificates issued
	IssuedByCA    bool           // every returned leaf is one the CA issued
	CABad         []string       // requests the CA rejected
	Requests      int
	CachePuts     []string
	RenewalTimers int
	PreOrders     int // new-order requests made by the preloading Manager
}

var verifC51Hello = tls.ClientHelloInfo{
	CipherSuites:     []uint16{tls.TLS_ECDHE_ECDSA_WITH_AES_128_GCM_SHA256},
	SignatureSchemes: []tls.SignatureScheme{tls.ECDSAWithP256AndSHA256},
	SupportedCurves:  []tls.CurveID{tls.CurveP256},
}

// VerifC51Concurrent runs one scenario. It must be called under the scheduler.
func VerifC51Concurrent(sc VerifC51Scenario) *VerifC51Result {
	createCertRetryAfter = 1000000 * time.Hour // the untracked removal timer must never fire in-process
	ca := newVerifC51CA()
	m := &Manager{
		Prompt: AcceptTOS,
		Client: &acme.Client{DirectoryURL: verifC51CAURL + "/directory", HTTPClient: &http.Client{Transport: ca}},
	}
	var cache *verifC51Cache
	if sc.WithCache {
		cache = &verifC51Cache{m: map[string][]byte{}}
		m.Cache = cache
	}
	if sc.Policy {
		m.HostPolicy = HostWhitelist(sc.Domain)
	}
	preOrders := 0
	if sc.Preload && cache != nil {
		m0 := &Manager{Prompt: AcceptTOS, Client: m.Client, Cache: cache}
		hello := verifC51Hello
		hello.ServerName = sc.Domain
		if _, err := m0.GetCertificate(&hello); err != nil {
			return &VerifC51Result{Problems: []string{"preload failed: " + err.Error()}}
		}
		verifWaitIdle()
		m0.stopRenew()
		preOrders = ca.NewOrders[sc.Domain]
		m.Client = &acme.Client{DirectoryURL: verifC51CAURL + "/directory", HTTPClient: &http.Client{Transport: ca}}
	}
	certs := make([]*tls.Certificate, sc.Callers)
	errs := make([]error, sc.Callers)
	call := func(i int) {
		hello := verifC51Hello
		hello.ServerName = sc.Domain
		if i < len(sc.Names) {
			hello.ServerName = sc.Names[i]
		}
		certs[i], errs[i] = m.GetCertificate(&hello)
	}
	var wg sync.WaitGroup
	for i := 1; i < sc.Callers; i++ {
		wg.Add(1)
		go func(i int) {
			defer wg.Done()
			call(i)
		}(i)
	}
	call(0)
	wg.Wait()
	// let the detached helpers (deactivatePendingAuthz, deleteCertToken) finish or block
	verifWaitIdle()

	res := &VerifC51Result{Errors: make([]string, sc.Callers), NewOrders: ca.NewOrders, Accounts: ca.Accounts, Issued: len(ca.Issued),
		CABad: ca.Bad, Requests: len(ca.Log), IssuedByCA: true, PreOrders: preOrders}
	leaves := map[string]bool{}
	now := time.Now()
	for i := range certs {
		if errs[i] != nil {
			res.Errors[i] = errs[i].Error()
			continue
		}
		c := certs[i]
		if c == nil || len(c.Certificate) == 0 {
			res.Problems = append(res.Problems, fmt.Sprintf("caller %d: no error and no certificate", i))
			continue
		}
		leaves[string(c.Certificate[0])] = true
		byCA := false
		for _, der := range ca.Issued {
			byCA = byCA || string(der) == string(c.Certificate[0])
		}
		res.IssuedByCA = res.IssuedByCA && byCA
		leaf, err := x509.ParseCertificate(c.Certificate[0])
		if err != nil {
			res.Problems = append(res.Problems, fmt.Sprintf("caller %d: leaf does not parse", i))
			continue
		}
		if err := leaf.VerifyHostname(sc.Domain); err != nil {
			res.Problems = append(res.Problems, fmt.Sprintf("caller %d: certificate not valid for the name", i))
		}
		if now.Before(leaf.NotBefore) || now.After(leaf.NotAfter) {
			res.Problems = append(res.Problems, fmt.Sprintf("caller %d: certificate not valid now", i))
		}
		signer, ok := c.PrivateKey.(crypto.Signer)
		pub, ok2 := leaf.PublicKey.(*ecdsa.PublicKey)
		if !ok || !ok2 || !pub.Equal(signer.Public()) {
			res.Problems = append(res.Problems, fmt.Sprintf("caller %d: private key does not match the ECDSA leaf", i))
		}
	}
	res.DistinctCerts = len(leaves)
	if cache != nil {
		cache.mu.Lock()
		res.CachePuts = append([]string{}, cache.Puts...)
		cache.mu.Unlock()
		sort.Strings(res.CachePuts)
	}
	m.renewalMu.Lock()
	res.RenewalTimers = len(m.renewal)
	m.renewalMu.Unlock()
	m.stopRenew() // cancel the real-time renewal timer of this execution
	return res
}
