// C15: argon2.Key (Argon2i) and argon2.IDKey (Argon2id) equal RFC 9106 (version 0x13)
// for every parameter shape: memory rounding down to a multiple of 4*threads, memory
// below 8*threads (8*threads blocks used, requested value hashed), H' for key lengths
// above 64, and agreement of the SSE4 assembly, the SSE2+portable rounds and the fully
// portable block function.
//
// Part 1 (grid)  mode x time x threads x memory x keyLen x password/salt shape x value
//
//	classes on the real Key/IDKey under both settings of useSSE4, against
//	the RFC 9106 model in verif/ref/argon2ref.
//
// Part 2         RFC 9106 §5.2/§5.3 vectors (secret + associated data) on the real
//
//	deriveKey under both settings.
//
// Part 3 (grid)  blake2bHash (H') for every output length 1..1100 x input shapes.
// Part 4 (grid)  the block function: dispatched (SSE4 on / off) and processBlockGeneric
//
//	against the model's G for a block value alphabet x {xor, no xor} x
//	aliasing patterns used by the package.
package main

import (
	"bytes"
	"encoding/binary"
	"encoding/hex"
	"fmt"
	"sort"
	"time"

	"golang.org/x/crypto/argon2"
	"verif/ref/argon2ref"
	"verif/vf"
)

func main() { vf.Main("C15", vf.Exploration, run) }

type point struct {
	mode    int // argon2ref.TypeI / TypeID
	time    uint32
	threads uint8
	memory  uint32
	keyLen  uint32
	pl, sl  int
	class   int
}

func (p point) key() string {
	return fmt.Sprintf("y%d/t%d/p%d/m%d/T%d/P%d/S%d", p.mode, p.time, p.threads, p.memory, p.keyLen, p.pl, p.sl)
}

func (p point) detail() map[string]any {
	return map[string]any{"mode": map[int]string{1: "Argon2i (Key)", 2: "Argon2id (IDKey)"}[p.mode], "time": p.time, "threads": p.threads,
		"memory": p.memory, "keyLen": p.keyLen, "pwLen": p.pl, "saltLen": p.sl, "class": p.class}
}

func memories(t uint32, thorough bool) []uint32 {
	set := map[uint32]bool{}
	for _, m := range []uint32{1, 7, 8*t - 1, 8 * t, 8*t + 1, 8*t + 3, 10 * t, 12*t - 1, 12 * t, 12*t + 1, 16*t + 5, 64, 100, 256} {
		if m >= 1 {
			set[m] = true
		}
	}
	if thorough {
		for _, m := range []uint32{2, 4*t - 1, 4 * t, 8*t + 4*t/2, 16*t - 1, 16 * t, 20*t + 3, 255, 257, 512, 1000, 1024} {
			if m >= 1 {
				set[m] = true
			}
		}
	}
	var out []uint32
	for m := range set {
		out = append(out, m)
	}
	sort.Slice(out, func(i, j int) bool { return out[i] < out[j] })
	return out
}

func run(c *vf.Ctx) {
	if runLaneScenarios(c) {
		return
	}
	hasAsm, hasSSE4 := argon2.VerifC15HasAsm(), argon2.VerifC15CPUHasSSE41()
	c.Set("assembly_built", hasAsm)
	c.Set("cpu_has_sse4.1", hasSSE4)
	c.Rule("quick: mode{Argon2i,Argon2id} x threads{1,2,3,4,5,8,16} x memory{1,7,8t-1,8t,8t+1,8t+3,10t,12t-1,12t,12t+1,16t+5,64,100,256} KiB x " +
		"[time 1: keyLen{1,4,31,32,33,63,64,65,95,96,97,127,128,129,300} x (pwLen,saltLen) from {(0,0),(1,8),(8,1),(200,200),(0,200),(200,0)} (all six at keyLen 32 and 65, two per other keyLen, cycling); time 2,3: keyLen{32,65,128} x (8,16)] " +
		"plus long segments (threads,memory){(1,516),(1,1024),(1,1031),(2,1040),(2,2048),(3,1600)} x time{1,2} x keyLen{32,65}; plus threads 255 x memory{1,2039,2040,2041,3059,3060,3061,4096} x time{1,2} x keyLen{32,65}; each point x 1 value class (fixed alphabet / seeded, alternating along the grid) x block function {SSE4 asm, SSE2+portable rounds}; " +
		"thorough: threads 1..17,32,64,128,254,255, more memory values (up to 1024 KiB), 27 key lengths x 6 shapes plus keyLen{32,65} x 16 shapes at time 1, 27 key lengths x 1 shape at time 2,3, 2 value classes per point; " +
		"H': every output length 1..1100 x input length{0,1,64,72,127,128,1024}; block function: 3 implementations x block alphabet x {xor,plain} x {distinct,out=in1}; " +
		"hardening: (E) keyLen{255,256,257,288,320,352,511,512,513,65535,65536,65537,65600,65632} x (threads,memory){(1,8),(2,19)}, time{255,256,257 (+65535,65536,65537 thorough)} x {(1,8,32),(2,21,65)}, threads{31,32,33,63,64,65} x memory{1,8t-1,8t,8t+1,12t+1}, thorough: memory{65536,65541 (1 lane),65553 (3 lanes)}; all under both block functions; " +
		"(A) every call gets password/salt as private copies inside sentinel-framed buffers with spare capacity, which must stay intact and are wiped before the comparison; (C) password / salt lengths 2^k+{-29,-28,-27,-1,0,1,127,128,129} for k=7..22 x mode, and H' output lengths 2^k+{-33,-32,-31,-1,0,1,31,32,33,63,64,65} for k=11..22 into a pre-filled destination; " +
		"(D) every history of 3 calls over 6 parameter sets: model value at every position, earlier results unchanged by later calls; " +
		"non-trivial = distinct points with threads>=2, or memory not a multiple of 4*threads, or memory<8*threads, or keyLen>64")
	c.Assume("the RFC 9106 model (own BLAKE2b per RFC 7693, KAT-validated against RFC 9106 §5, the PHC reference suite vectors and python hashlib.blake2b) is the oracle; argon2-cffi is not available offline")
	c.Assume("password/salt values are a fixed alphabet plus seeded classes; shapes are enumerated exhaustively as stated")
	if !hasAsm || !hasSSE4 {
		c.Assume("SSE4.1 assembly path not available on this build/CPU: only the available block functions were compared")
	}

	// ---- grid
	var grid []point
	keyLens := []uint32{1, 4, 31, 32, 33, 63, 64, 65, 95, 96, 97, 127, 128, 129, 300}
	shapes := [][2]int{{0, 0}, {1, 8}, {8, 1}, {200, 200}, {0, 200}, {200, 0}}
	threads := []uint8{1, 2, 3, 4, 5, 8, 16}
	nclass := 2
	if c.Thorough {
		keyLens = append(keyLens, 2, 3, 5, 62, 66, 159, 160, 161, 192, 256, 1024, 1025)
		threads = nil
		for t := 1; t <= 17; t++ {
			threads = append(threads, uint8(t))
		}
		threads = append(threads, 32, 64)
		nclass = 2
	}
	for _, mode := range []int{argon2ref.TypeI, argon2ref.TypeID} {
		for _, t := range threads {
			for _, m := range memories(uint32(t), c.Thorough) {
				for _, tc := range []uint32{1, 2, 3} {
					type ks struct {
						kl uint32
						sh [2]int
					}
					var combos []ks
					switch {
					case c.Thorough && (m > 256 || t > 17):
						for _, kl := range []uint32{32, 65, 300} {
							combos = append(combos, ks{kl, [2]int{8, 16}}, ks{kl, [2]int{0, 0}})
						}
					case tc == 1:
						// every key length x the base shapes; thorough adds all 16 shapes at keyLen 32, 65
						for ki, kl := range keyLens {
							for si, sh := range shapes {
								// quick: all shapes at keyLen 32 and 65, two shapes (cycling through
								// all of them along the keyLen axis) elsewhere; thorough: full product
								if !c.Thorough && kl != 32 && kl != 65 && si != ki%len(shapes) && si != (ki+3)%len(shapes) {
									continue
								}
								combos = append(combos, ks{kl, sh})
							}
						}
						if c.Thorough {
							for _, kl := range []uint32{32, 65} {
								for _, a := range []int{0, 1, 8, 200} {
									for _, b := range []int{0, 1, 8, 200} {
										combos = append(combos, ks{kl, [2]int{a, b}})
									}
								}
							}
						}
					case c.Thorough:
						for _, kl := range keyLens {
							combos = append(combos, ks{kl, [2]int{8, 16}})
						}
					default:
						for _, kl := range []uint32{32, 65, 128} {
							combos = append(combos, ks{kl, [2]int{8, 16}})
						}
					}
					for _, cb := range combos {
						if !c.Thorough {
							// quick: one value class per point, alternating between the fixed
							// alphabet and the seeded classes along the grid
							grid = append(grid, point{mode, tc, t, m, cb.kl, cb.sh[0], cb.sh[1], len(grid) % 3})
							continue
						}
						for cl := 0; cl < nclass; cl++ {
							grid = append(grid, point{mode, tc, t, m, cb.kl, cb.sh[0], cb.sh[1], cl})
						}
					}
				}
			}
		}
		// segments longer than 128 blocks (Argon2i/id address blocks are regenerated every
		// 128 indices): segment length = memory/(4*threads)
		for _, tm := range [][2]uint32{{1, 516}, {1, 1024}, {1, 1031}, {2, 1040}, {2, 2048}, {3, 1600}} {
			for _, tc := range []uint32{1, 2} {
				for _, kl := range []uint32{32, 65} {
					grid = append(grid, point{mode, tc, uint8(tm[0]), tm[1], kl, 8, 16, len(grid) % 3})
				}
			}
		}
		bigT := []uint8{255}
		if c.Thorough {
			bigT = []uint8{128, 254, 255}
		}
		for _, t := range bigT {
			p := uint32(t)
			for _, m := range []uint32{1, 8*p - 1, 8 * p, 8*p + 1, 12*p - 1, 12 * p, 12*p + 1, 4096} {
				for _, tc := range []uint32{1, 2} {
					for _, kl := range []uint32{32, 65} {
						grid = append(grid, point{mode, tc, t, m, kl, 8, 16, int(tc) % 2})
					}
				}
			}
		}
		// Hardening E: one value on each side of every integer width / shortcut. Key lengths
		// around 256 and 65536 (H' prefixes the length as 4 bytes; odd and even multiples of 32
		// above each), pass counts around 256, lane counts around 32 and 64 (8*threads and
		// 4*threads reach 256), memory just above 65536 KiB.
		for _, kl := range []uint32{255, 256, 257, 288, 320, 352, 511, 512, 513, 65535, 65536, 65537, 65536 + 64, 65536 + 96} {
			for _, tm := range [][2]uint32{{1, 8}, {2, 19}} {
				grid = append(grid, point{mode, 1, uint8(tm[0]), tm[1], kl, 8, 16, len(grid) % 3})
			}
		}
		passes := []uint32{255, 256, 257}
		if c.Thorough {
			passes = append(passes, 65535, 65536, 65537)
		}
		for _, tc := range passes {
			grid = append(grid, point{mode, tc, 1, 8, 32, 8, 16, len(grid) % 3}, point{mode, tc, 2, 21, 65, 8, 16, len(grid) % 3})
		}
		for _, t := range []uint8{31, 32, 33, 63, 64, 65} {
			p := uint32(t)
			for _, m := range []uint32{1, 8*p - 1, 8 * p, 8*p + 1, 12*p + 1} {
				grid = append(grid, point{mode, 1, t, m, 32, 8, 16, len(grid) % 3})
			}
		}
		var bigM [][2]uint32 // 64 MiB per call and ~4 s in the model: thorough only
		if c.Thorough {
			bigM = [][2]uint32{{1, 65536}, {1, 65541}, {3, 65536 + 17}}
		}
		for _, tm := range bigM {
			grid = append(grid, point{mode, 1, uint8(tm[0]), tm[1], 32, 8, 16, len(grid) % 3})
		}
	}
	c.Set("grid_points", len(grid))

	// Phase A: model + real with the hardware default block function
	want := make([][]byte, len(grid))
	inputs := func(p point) (pw, salt []byte) {
		// class 0..3 fixed alphabet (cycled by shape), 4.. seeded
		pws := c.ValueClasses("argon2-pw", p.pl, nclass)
		salts := c.ValueClasses("argon2-salt", p.sl, nclass)
		k := p.class
		if k == 0 {
			k = (p.pl + p.sl + int(p.keyLen) + int(p.memory)) % 4 // a fixed class
		} else {
			k = 3 + p.class // seeded classes
		}
		return pws[k], salts[k]
	}
	realKey := func(p point, pw, salt []byte) (out []byte, panicked bool, val any) {
		// Hardening A: the call gets private copies that sit inside larger buffers (sentinel
		// bytes in front and in the spare capacity behind); the call must leave all of it
		// alone, and the copies are wiped before the result is compared.
		gp, gpw := guard(pw)
		gs, gsalt := guard(salt)
		panicked, val, _ = vf.Protect(func() {
			if p.mode == argon2ref.TypeI {
				out = argon2.Key(gpw, gsalt, p.time, p.memory, p.threads, p.keyLen)
			} else {
				out = argon2.IDKey(gpw, gsalt, p.time, p.memory, p.threads, p.keyLen)
			}
		})
		if !panicked && (!gp.intact(pw) || !gs.intact(salt)) {
			d := p.detail()
			d["password_intact"], d["salt_intact"] = gp.intact(pw), gs.intact(salt)
			c.Violation("argon2 writes to the caller's password/salt buffer or its spare capacity", d)
		}
		gp.wipe()
		gs.wipe()
		return
	}
	classify := func(p point) string {
		t := uint32(p.threads)
		switch {
		case p.memory < 8*t:
			return "memory < 8*threads"
		case p.memory%(4*t) != 0:
			return "memory not a multiple of 4*threads"
		case p.keyLen > 64:
			return "keyLen > 64 (H')"
		case t >= 2:
			return "threads >= 2"
		}
		return "threads=1, memory multiple of 4, keyLen<=64"
	}
	pathName := func(sse4 bool) string {
		switch {
		case !hasAsm:
			return "portable (no assembly built)"
		case sse4:
			return "SSE4 assembly"
		}
		return "SSE2 mix + portable rounds"
	}
	runPhase := func(sse4 bool, computeModel bool) {
		if hasAsm {
			argon2.VerifC15SetSSE4(sse4)
		}
		path := pathName(sse4)
		c.ParallelFor(len(grid), func(i int) {
			p := grid[i]
			pw, salt := inputs(p)
			if computeModel {
				want[i] = argon2ref.Lenient(p.mode, pw, salt, nil, nil, p.time, p.memory, uint32(p.threads), p.keyLen)
			}
			if want[i] == nil {
				return // model not computed (budget expired in phase A)
			}
			got, panicked, val := realKey(p, pw, salt)
			c.Eval(1)
			cls := classify(p)
			if panicked {
				d := p.detail()
				d["panic"], d["path"] = fmt.Sprint(val), path
				c.Violation("argon2 panics ["+cls+"]", d)
				return
			}
			if !bytes.Equal(got, want[i]) {
				d := p.detail()
				d["got"], d["want"], d["path"] = vf.Hex8(got), vf.Hex8(want[i]), path
				what := "argon2 output != RFC 9106 model"
				if len(got) != int(p.keyLen) {
					what = "argon2 output has wrong length"
				}
				c.Violation(fmt.Sprintf("%s [%s; %s]", what, cls, path), d)
			}
			c.Outcome(path + ": " + cls)
			if cls != "threads=1, memory multiple of 4, keyLen<=64" {
				c.Nontrivial(p.key())
			}
			if computeModel && p.threads == 3 && p.memory == 53 && p.keyLen == 97 && p.class == 1 && c.WantSample() {
				d := p.detail()
				d["blocks_used"] = (p.memory / 12) * 12
				d["output"] = vf.Hex8(got)
				c.Sample(d)
			}
		})
	}
	t0 := time.Now()
	lap := func(name string) {
		c.Set("seconds_"+name, float64(int(time.Since(t0).Seconds()*10))/10)
		t0 = time.Now()
	}
	def := hasAsm && hasSSE4
	runPhase(def, true)
	lap("grid_model_and_default_path")
	if hasAsm && hasSSE4 {
		runPhase(false, false)
		argon2.VerifC15SetSSE4(true)
		lap("grid_second_path")
	}

	rfcVectors(c, hasAsm, hasSSE4)
	hprime(c)
	lap("vectors_and_hprime")
	longInputs(c)
	hprimeLong(c)
	lap("long_inputs_and_outputs")
	histories(c)
	lap("call_histories")
	blockFunction(c, hasAsm, hasSSE4)
	lap("block_function")
}

// RFC 9106 §5.2, §5.3 on the real deriveKey (secret and associated data in use).
func rfcVectors(c *vf.Ctx, hasAsm, hasSSE4 bool) {
	P, S := bytes.Repeat([]byte{1}, 32), bytes.Repeat([]byte{2}, 16)
	K, X := bytes.Repeat([]byte{3}, 8), bytes.Repeat([]byte{4}, 12)
	vec := map[int]string{
		argon2ref.TypeI:  "c814d9d1dc7f37aa13f0d77f2494bda1c8de6b016dd388d29952a4c4672b6ce8",
		argon2ref.TypeID: "0d640df58d78766c08c037a34a8b53c9d01ef0452d75b65eb52520e96b01e659",
	}
	settings := []bool{hasAsm && hasSSE4}
	if hasAsm && hasSSE4 {
		settings = append(settings, false)
	}
	for _, sse4 := range settings {
		if hasAsm {
			argon2.VerifC15SetSSE4(sse4)
		}
		for mode, w := range vec {
			var got []byte
			p, val, _ := vf.Protect(func() { got = argon2.VerifC15DeriveKey(mode, P, S, K, X, 3, 32, 4, 32) })
			c.Eval(1)
			if p {
				c.Violation("argon2 deriveKey panics on the RFC 9106 §5 vector", fmt.Sprint(val))
			} else if hex.EncodeToString(got) != w {
				c.Violation("argon2 deriveKey != RFC 9106 §5 test vector", map[string]any{"mode": mode, "sse4": sse4, "got": hex.EncodeToString(got), "want": w})
			}
			// and the model agrees on secret/AD shapes the public API never uses
			for _, kx := range [][2]int{{0, 5}, {5, 0}, {33, 129}} {
				k, x := c.Bytes("argon2-secret", kx[0], kx[0]), c.Bytes("argon2-ad", kx[1], kx[1])
				var g []byte
				if pp, v, _ := vf.Protect(func() { g = argon2.VerifC15DeriveKey(mode, P, S, k, x, 1, 40, 2, 48) }); pp {
					c.Violation("argon2 deriveKey panics with secret/associated data", fmt.Sprint(v))
				} else if !bytes.Equal(g, argon2ref.Hash(mode, P, S, k, x, 1, 40, 2, 48)) {
					c.Violation("argon2 deriveKey with secret/associated data != RFC 9106 model", map[string]any{"mode": mode, "secretLen": kx[0], "adLen": kx[1]})
				}
				c.Eval(1)
			}
		}
	}
	if hasAsm {
		argon2.VerifC15SetSSE4(hasSSE4)
	}
}

// H' (blake2bHash) for every output length.
func hprime(c *vf.Ctx) {
	maxLen := 1100
	inLens := []int{0, 1, 64, 72, 127, 128, 1024}
	c.ParallelFor(maxLen, func(i int) {
		n := i + 1
		for _, il := range inLens {
			for cl, in := range c.ValueClasses("hprime-in", il, 1)[2:] { // 0x80.., ascending, one seeded
				out := make([]byte, n)
				inC := append([]byte(nil), in...)
				p, val, _ := vf.Protect(func() { argon2.VerifC15BlakeHash(out, in) })
				c.Eval(1)
				d := map[string]any{"outLen": n, "inLen": il, "class": cl}
				if p {
					d["panic"] = fmt.Sprint(val)
					c.Violation("blake2bHash (H') panics", d)
					continue
				}
				if w := argon2ref.HPrime(n, inC); !bytes.Equal(out, w) {
					d["got"], d["want"] = vf.Hex8(out), vf.Hex8(w)
					bucket := "outLen<=64"
					if n > 64 {
						bucket = fmt.Sprintf("outLen>64, outLen mod 64 = %d", n%64)
						if n%64 != 0 && n%32 != 0 {
							bucket = "outLen>64, not a multiple of 32"
						}
					}
					c.Violation("blake2bHash (H') != RFC 9106 §3.3 ["+bucket+"]", d)
				}
			}
		}
		if n > 64 {
			c.Nontrivial(fmt.Sprintf("hprime/%d", n))
		}
	})
	c.Sample(map[string]any{"part": "H'", "output_lengths": "1..1100", "input_lengths": inLens})
}

// The block function: all implementations against the model's G.
func blockFunction(c *vf.Ctx, hasAsm, hasSSE4 bool) {
	var alphabet [][128]uint64
	fill := func(f func(i int) uint64) {
		var b [128]uint64
		for i := range b {
			b[i] = f(i)
		}
		alphabet = append(alphabet, b)
	}
	fill(func(i int) uint64 { return 0 })
	fill(func(i int) uint64 { return ^uint64(0) })
	fill(func(i int) uint64 { return 0xFFFFFFFF })         // maximal 32x32 products
	fill(func(i int) uint64 { return 0xFFFFFFFF00000000 }) // zero low halves
	fill(func(i int) uint64 { return 0x8000000080000000 })
	fill(func(i int) uint64 { return uint64(i) })
	fill(func(i int) uint64 { return uint64(i+1) * 0x0101010101010101 })
	fill(func(i int) uint64 { return 1 << uint(i%64) })
	nseed := 4
	if c.Thorough {
		nseed = 32
	}
	for s := 0; s < nseed; s++ {
		raw := c.Bytes("argon2-block", s, 1024)
		fill(func(i int) uint64 { return binary.LittleEndian.Uint64(raw[8*i:]) })
	}
	type impl struct {
		name string
		sse4 int // -1: don't care, 0/1: value of useSSE4 needed
		f    func(out, in1, in2 *[128]uint64, xor bool)
	}
	impls := []impl{{"processBlockGeneric", -1, argon2.VerifC15ProcessBlockGeneric}}
	if hasAsm {
		impls = append(impls, impl{"dispatched, SSE2 mix + portable rounds", 0, argon2.VerifC15ProcessBlock})
		if hasSSE4 {
			impls = append(impls, impl{"dispatched, SSE4 assembly", 1, argon2.VerifC15ProcessBlock})
		}
	} else {
		impls = append(impls, impl{"dispatched (portable)", -1, argon2.VerifC15ProcessBlock})
	}
	for _, im := range impls {
		if im.sse4 >= 0 {
			argon2.VerifC15SetSSE4(im.sse4 == 1)
		}
		c.ParallelFor(len(alphabet)*len(alphabet), func(k int) {
			ai, bi := k/len(alphabet), k%len(alphabet)
			for _, xor := range []bool{false, true} {
				for _, alias := range []string{"distinct", "out=in1"} {
					a, b := alphabet[ai], alphabet[bi]
					old := alphabet[(ai+bi+1)%len(alphabet)]
					ma, mb := argon2ref.Block(a), argon2ref.Block(b)
					wantB := argon2ref.G(&ma, &mb)
					var got [128]uint64
					var p bool
					var val any
					if alias == "distinct" {
						out := old
						if xor {
							for i := range wantB {
								wantB[i] ^= old[i]
							}
						}
						p, val, _ = vf.Protect(func() { im.f(&out, &a, &b, xor) })
						got = out
					} else {
						// out and in1 are the same block (processBlock(&addresses, &addresses, &zero));
						// with xor the old content of out is in1 itself
						if xor {
							for i := range wantB {
								wantB[i] ^= a[i]
							}
						}
						p, val, _ = vf.Protect(func() { im.f(&a, &a, &b, xor) })
						got = a
					}
					c.Eval(1)
					d := map[string]any{"impl": im.name, "in1_class": ai, "in2_class": bi, "xor": xor, "alias": alias}
					if p {
						d["panic"] = fmt.Sprint(val)
						c.Violation("block function panics ["+im.name+"]", d)
						continue
					}
					if got != [128]uint64(wantB) {
						for i := range got {
							if got[i] != wantB[i] {
								d["first_diff_word"] = i
								break
							}
						}
						c.Violation(fmt.Sprintf("block function != RFC 9106 G [%s, xor=%v]", im.name, xor), d)
					}
				}
			}
			c.Nontrivial(fmt.Sprintf("G/%s/%d/%d", im.name, ai, bi))
		})
		c.Outcome("block function checked: " + im.name)
	}
	if hasAsm {
		argon2.VerifC15SetSSE4(hasSSE4)
	}
	c.Sample(map[string]any{"part": "block function", "implementations": len(impls), "block_value_classes": len(alphabet), "pairs": len(alphabet) * len(alphabet)})
}

// ---- hardening additions

// guarded is a private copy of a caller buffer placed inside a larger buffer: 8 sentinel bytes in
// front, 24 sentinel bytes of spare capacity behind.
type guarded struct {
	buf []byte
	n   int
}

func guard(b []byte) (guarded, []byte) {
	buf := make([]byte, 8+len(b)+24)
	for i := range buf {
		buf[i] = 0xA5
	}
	copy(buf[8:], b)
	return guarded{buf, len(b)}, buf[8 : 8+len(b)]
}

func (g guarded) intact(orig []byte) bool {
	for i, v := range g.buf {
		switch {
		case i < 8 || i >= 8+g.n:
			if v != 0xA5 {
				return false
			}
		case v != orig[i-8]:
			return false
		}
	}
	return true
}

func (g guarded) wipe() {
	for i := range g.buf {
		g.buf[i] ^= 0xFF
	}
}

// longLens returns 2^k + d for k in ks and the given deltas.
func longLens(kmin, kmax int, deltas []int) []int {
	var out []int
	for k := kmin; k <= kmax; k++ {
		for _, d := range deltas {
			if n := 1<<uint(k) + d; n >= 0 {
				out = append(out, n)
			}
		}
	}
	return out
}

// Hardening C: long passwords and salts. H_0 streams 24 bytes of parameters, LE32(len), the
// password, LE32(len), the salt, ... through BLAKE2b (128-byte blocks): lengths 2^k + d put the
// end of the password / salt on, just before and just after a block boundary of that stream
// (d = -28 compensates the 28 bytes in front of the password) for k up to 22.
func longInputs(c *vf.Ctx) {
	kmax := 22
	deltas := []int{-29, -28, -27, -1, 0, 1, 127, 128, 129}
	lens := longLens(7, kmax, deltas)
	src := vf.DetBytes(fmt.Sprintf("%d|argon2-long", c.Seed), 1<<uint(kmax)+200)
	short := []byte("short-16-bytes-x")
	type job struct {
		mode   int
		n      int
		which  string
		keyLen uint32
	}
	var jobs []job
	for _, mode := range []int{argon2ref.TypeI, argon2ref.TypeID} {
		for i, n := range lens {
			kl := []uint32{32, 65}[i%2]
			jobs = append(jobs, job{mode, n, "password", kl}, job{mode, n, "salt", kl})
		}
		for _, n := range []int{1<<16 + 100, 1<<20 - 28} {
			jobs = append(jobs, job{mode, n, "both", 32})
		}
	}
	c.ParallelFor(len(jobs), func(i int) {
		j := jobs[i]
		pw, salt := short, short
		switch j.which {
		case "password":
			pw = src[1 : 1+j.n]
		case "salt":
			salt = src[3 : 3+j.n]
		default:
			pw, salt = src[1:1+j.n], src[5:5+j.n+3]
		}
		want := argon2ref.Lenient(j.mode, pw, salt, nil, nil, 1, 8, 1, j.keyLen)
		gp, gpw := guard(pw)
		gs, gsalt := guard(salt)
		var got []byte
		p, val, _ := vf.Protect(func() {
			if j.mode == argon2ref.TypeI {
				got = argon2.Key(gpw, gsalt, 1, 8, 1, j.keyLen)
			} else {
				got = argon2.IDKey(gpw, gsalt, 1, 8, 1, j.keyLen)
			}
		})
		c.Eval(1)
		d := map[string]any{"mode": j.mode, "long": j.which, "len": j.n, "keyLen": j.keyLen}
		switch {
		case p:
			d["panic"] = fmt.Sprint(val)
			c.Violation("argon2 panics [long "+j.which+"]", d)
		case !gp.intact(pw) || !gs.intact(salt):
			c.Violation("argon2 writes to the caller's password/salt buffer or its spare capacity", d)
		case !bytes.Equal(got, want):
			d["got"], d["want"] = vf.Hex8(got), vf.Hex8(want)
			c.Violation("argon2 output != RFC 9106 model [long "+j.which+"]", d)
		}
		c.Nontrivial(fmt.Sprintf("long/%d/%s/%d", j.mode, j.which, j.n))
	})
	c.Outcome("long passwords/salts checked")
	c.Sample(map[string]any{"part": "long inputs", "lengths": "2^k+{-29,-28,-27,-1,0,1,127,128,129}, k=7..22", "jobs": len(jobs)})
}

// Hardening C/B: H' for long outputs (2^k + d up to 4 MiB, every residue class mod 64 that the
// code distinguishes, on each side of 2^16) into destination buffers that hold old data.
func hprimeLong(c *vf.Ctx) {
	lens := longLens(11, 22, []int{-33, -32, -31, -1, 0, 1, 31, 32, 33, 63, 64, 65})
	in := c.Bytes("hprime-long-in", 0, 72)
	c.ParallelFor(len(lens), func(i int) {
		n := lens[i]
		out := bytes.Repeat([]byte{0xC3}, n+16)
		p, val, _ := vf.Protect(func() { argon2.VerifC15BlakeHash(out[:n], in) })
		c.Eval(1)
		d := map[string]any{"outLen": n, "inLen": len(in)}
		if p {
			d["panic"] = fmt.Sprint(val)
			c.Violation("blake2bHash (H') panics", d)
			return
		}
		if w := argon2ref.HPrime(n, in); !bytes.Equal(out[:n], w) {
			k := 0
			for k < n && out[k] == w[k] {
				k++
			}
			d["first_diff"], d["got"], d["want"] = k, vf.Hex8(out[k:]), vf.Hex8(w[k:])
			c.Violation("blake2bHash (H') != RFC 9106 §3.3 [long output]", d)
		}
		if !bytes.Equal(out[n:], bytes.Repeat([]byte{0xC3}, 16)) {
			c.Violation("blake2bHash (H') writes beyond the output slice", d)
		}
		c.Nontrivial(fmt.Sprintf("hprime/%d", n))
	})
}

// Hardening D/A: call histories. Key/IDKey are functions: every history of 3 calls over an alphabet
// of parameter sets (different memory sizes, lane counts, modes, so that any state carried from one
// call to the next - scratch memory, cached parameters - has a different shape) must return the model
// value at each position, and results returned earlier must not change when later calls run.
func histories(c *vf.Ctx) {
	type ps struct {
		mode    int
		time    uint32
		memory  uint32
		threads uint8
		keyLen  uint32
		pl, sl  int
	}
	alpha := []ps{
		{argon2ref.TypeI, 1, 8, 1, 32, 8, 16},
		{argon2ref.TypeID, 2, 67, 4, 97, 0, 200},
		{argon2ref.TypeID, 1, 8, 1, 32, 8, 16},
		{argon2ref.TypeI, 1, 40, 2, 64, 200, 1},
		{argon2ref.TypeID, 3, 24, 3, 128, 1, 8},
		{argon2ref.TypeI, 2, 100, 5, 20, 30, 30},
	}
	in := make([][2][]byte, len(alpha))
	want := make([][]byte, len(alpha))
	for i, a := range alpha {
		in[i] = [2][]byte{c.Bytes("hist-pw", i, a.pl), c.Bytes("hist-salt", i, a.sl)}
		want[i] = argon2ref.Lenient(a.mode, in[i][0], in[i][1], nil, nil, a.time, a.memory, uint32(a.threads), a.keyLen)
	}
	n := len(alpha)
	c.ParallelFor(n*n*n, func(h int) {
		seq := []int{h / (n * n), h / n % n, h % n}
		var outs, saved [][]byte
		for pos, k := range seq {
			a := alpha[k]
			_, pw := guard(in[k][0])
			_, salt := guard(in[k][1])
			var got []byte
			p, val, _ := vf.Protect(func() {
				if a.mode == argon2ref.TypeI {
					got = argon2.Key(pw, salt, a.time, a.memory, a.threads, a.keyLen)
				} else {
					got = argon2.IDKey(pw, salt, a.time, a.memory, a.threads, a.keyLen)
				}
			})
			c.Eval(1)
			d := map[string]any{"history": seq, "position": pos}
			if p {
				d["panic"] = fmt.Sprint(val)
				c.Violation("argon2 panics in a call history", d)
				return
			}
			for i := range pw {
				pw[i] ^= 0xFF
			}
			for i := range salt {
				salt[i] ^= 0xFF
			}
			if !bytes.Equal(got, want[k]) {
				d["got"], d["want"] = vf.Hex8(got), vf.Hex8(want[k])
				c.Violation("argon2 output depends on earlier calls (!= RFC 9106 model at a later position of a call history)", d)
			}
			outs, saved = append(outs, got), append(saved, append([]byte(nil), got...))
			for q := 0; q < pos; q++ {
				if !bytes.Equal(outs[q], saved[q]) {
					d["earlier_position"] = q
					c.Violation("argon2: a key returned earlier changes when a later call runs", d)
				}
			}
		}
		c.Nontrivial(fmt.Sprintf("hist/%v", seq))
	})
	c.Outcome("call histories checked")
}
