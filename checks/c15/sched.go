package main

// Lane scheduling. argon2 fills the lanes of one slice in parallel goroutines and must wait
// for all of them before the next slice starts (RFC 9106 3.4: a block may reference any block
// of the previous slices of EVERY lane). With the package instrumented, every order in which
// the lane goroutines can run (<= bound deviations from the default order) must give the
// RFC 9106 value; a missing or misplaced wait makes the result depend on the order.

import (
	"bytes"
	"fmt"

	"golang.org/x/crypto/argon2"
	"verif/ref/argon2ref"
	"verif/schedx"
	"verif/vf"
)

func laneScenarios(c *vf.Ctx) []schedx.Scenario {
	pw, salt := []byte("lane scheduling pw"), []byte("lane-salt-16-byt")
	bound := 2
	type pt struct {
		mode    int
		time    uint32
		memory  uint32
		threads uint8
	}
	var pts []pt
	for _, mode := range []int{argon2ref.TypeI, argon2ref.TypeID} {
		for _, th := range []uint8{2, 3, 4} {
			for _, t := range []uint32{1, 2} {
				pts = append(pts, pt{mode, t, 8 * uint32(th), th}, pt{mode, t, 16*uint32(th) + 5, th})
			}
		}
	}
	if c.Thorough {
		bound = 3
		for _, mode := range []int{argon2ref.TypeI, argon2ref.TypeID} {
			pts = append(pts, pt{mode, 3, 40, 5}, pt{mode, 1, 64, 8})
		}
	}
	var scs []schedx.Scenario
	for _, p := range pts {
		p := p
		want := argon2ref.Lenient(p.mode, pw, salt, nil, nil, p.time, p.memory, uint32(p.threads), 32)
		name := fmt.Sprintf("mode=%d time=%d memory=%d threads=%d", p.mode, p.time, p.memory, p.threads)
		b := bound
		if p.threads >= 4 && p.time >= 2 && !c.Thorough {
			b = 1
		}
		scs = append(scs, schedx.Scenario{Name: "lane order, " + name, Group: "lane goroutine orders", Bound: b,
			Body: func() any {
				var got []byte
				if p.mode == argon2ref.TypeI {
					got = argon2.Key(append([]byte(nil), pw...), append([]byte(nil), salt...), p.time, p.memory, p.threads, 32)
				} else {
					got = argon2.IDKey(append([]byte(nil), pw...), append([]byte(nil), salt...), p.time, p.memory, p.threads, 32)
				}
				if !bytes.Equal(got, want) {
					return fmt.Sprintf("got %x want %x", got[:8], want[:8])
				}
				return ""
			},
			Check: func(obs any) (string, string) {
				if s, _ := obs.(string); s != "" {
					return "argon2 output depends on the order in which the lane goroutines run (!= RFC 9106 model)", name + ": " + s
				}
				return "", ""
			},
			Outcome: func(obs any) string { s, _ := obs.(string); return "r=" + fmt.Sprint(s == "") }})
	}
	return scs
}

// runLaneScenarios is called first by run(): scheduler worker processes end inside Explore.
// It returns true when the run is a replay of a lane-order violation (nothing else to do).
func runLaneScenarios(c *vf.Ctx) bool {
	scs := laneScenarios(c)
	isSched := false
	if c.Replay != nil {
		det, _ := c.Replay["detail"].(map[string]any)
		_, isSched = det["scenario"]
		if !isSched {
			return false
		}
	}
	schedx.Explore(c, scs)
	return isSched
}
