// C25: SSH packet ciphers round-trip every packet sequence with RFC-conformant framing.
//
// Every registered cipher x MAC pair is driven through the real construction path
// (cipherModes[..].create / newPacketCipher) and the real connectionState (which owns the
// sequence number). Every packet the writer emits is (a) read back by a reader keyed alike
// and (b) decoded by the independent model verif/ref/sshpkt, which checks the layout
// length||padlen||payload||padding, padding >= 4, the alignment rule of the mode and the
// MAC/tag over seqno||... for the expected sequence number.
package main

import (
	"bytes"
	"crypto"
	_ "crypto/sha1"
	_ "crypto/sha256"
	_ "crypto/sha512"
	"fmt"
	"io"
	"sort"
	"strings"
	"time"

	"golang.org/x/crypto/ssh"
	"verif/ref/sshpkt"
	"verif/vf"
)

func main() { vf.Main("C25", vf.Exploration, run) }

type mode struct {
	cipher, mac string
	ci          ssh.VerifC25CipherInfo
	macKeySize  int
	spec        sshpkt.CipherSpec
}

func (m mode) String() string {
	if m.mac == "" {
		return m.cipher
	}
	return m.cipher + "+" + m.mac
}

// family is the coarse construction a violation class is attributed to.
func (m mode) family() string {
	k := map[sshpkt.Kind]string{sshpkt.KindNone: "none", sshpkt.KindStream: "stream", sshpkt.KindCBC: "cbc",
		sshpkt.KindGCM: "aes-gcm", sshpkt.KindChaChaPoly: "chacha20-poly1305"}[m.spec.Kind]
	if m.spec.AEAD || m.spec.Kind == sshpkt.KindNone {
		return k
	}
	if ms, ok := sshpkt.LookupMAC(m.mac); ok && ms.ETM {
		return k + " with EtM MAC"
	}
	return k + " with encrypt-and-MAC"
}

func sortedCopy(a []string) []string { b := append([]string{}, a...); sort.Strings(b); return b }

// modes enumerates every registered cipher x MAC pair and cross-checks the registry with
// the advertised lists and with the sizes the specifications give.
func modes(c *vf.Ctx) []mode {
	ciphers, macs := ssh.VerifC25Ciphers(), ssh.VerifC25MACs()
	supC, insC, supM, insM := ssh.VerifC25AlgorithmLists()
	var regC, regM []string
	for _, ci := range ciphers {
		regC = append(regC, ci.Name)
	}
	for _, mi := range macs {
		regM = append(regM, mi.Name)
	}
	if fmt.Sprint(sortedCopy(append(append([]string{}, supC...), insC...))) != fmt.Sprint(sortedCopy(regC)) {
		c.Violation("registered cipher modes differ from SupportedAlgorithms+InsecureAlgorithms", map[string]any{"registered": regC, "supported": supC, "insecure": insC})
	}
	if fmt.Sprint(sortedCopy(append(append([]string{}, supM...), insM...))) != fmt.Sprint(sortedCopy(regM)) {
		c.Violation("registered MAC modes differ from SupportedAlgorithms+InsecureAlgorithms", map[string]any{"registered": regM, "supported": supM, "insecure": insM})
	}
	var out []mode
	for _, ci := range ciphers {
		spec, ok := sshpkt.LookupCipher(ci.Name)
		if !ok {
			c.Violation("registered cipher has no reference model: "+ci.Name, ci)
			continue
		}
		if spec.KeySize != ci.KeySize || spec.IVSize != ci.IVSize || spec.AEAD != ci.AEAD {
			c.Violation("cipher key/iv size or AEAD flag differs from specification: "+ci.Name, map[string]any{"registered": ci, "spec": spec})
			continue
		}
		if ci.AEAD {
			out = append(out, mode{cipher: ci.Name, ci: ci, spec: spec})
			continue
		}
		for _, mi := range macs {
			ms, ok := sshpkt.LookupMAC(mi.Name)
			if !ok {
				c.Violation("registered MAC has no reference model: "+mi.Name, mi)
				continue
			}
			if ms.KeySize != mi.KeySize {
				c.Violation("MAC key size differs from specification: "+mi.Name, map[string]any{"registered": mi, "spec": ms.KeySize})
				continue
			}
			out = append(out, mode{cipher: ci.Name, mac: mi.Name, ci: ci, macKeySize: mi.KeySize, spec: spec})
		}
	}
	return out
}

// ivClasses: the IV drives carries (CTR counter, GCM invocation counter), so the alphabet
// contains the carry and wrap boundaries.
func ivClasses(c *vf.Ctx, label string, n int) [][]byte {
	if n == 0 {
		return [][]byte{{}}
	}
	ff := bytes.Repeat([]byte{0xff}, n)
	fe := append(bytes.Repeat([]byte{0xff}, n-1), 0xfe)
	out := [][]byte{c.Bytes(label, 0, n), ff, fe}
	lowff := c.Bytes(label, 1, n) // ...... 00 ff ff ff ff fe : carry runs over several bytes
	copy(lowff[n-6:], []byte{0x00, 0xff, 0xff, 0xff, 0xff, 0xfe})
	out = append(out, lowff)
	b2 := c.Bytes(label, 2, n) // .... 12 ff fe : carry into a non-zero byte
	copy(b2[n-3:], []byte{0x12, 0xff, 0xfe})
	out = append(out, b2)
	if n == 16 { // carry across the 64-bit halves of a 128-bit counter
		h := append(append([]byte{}, c.Bytes(label, 3, 8)...), bytes.Repeat([]byte{0xff}, 8)...)
		h[7] = 0xff
		out = append(out, h)
	}
	return out
}

type keys struct{ key, iv, macKey []byte }

func (m mode) keys(c *vf.Ctx, ivClass []byte, i int) keys {
	return keys{c.Bytes("key/"+m.String(), i, m.ci.KeySize), ivClass, c.Bytes("mackey/"+m.String(), i, m.macKeySize)}
}

func fixType(p []byte) []byte {
	// connectionState interprets the first payload byte: 21 (NEWKEYS) switches keys and
	// 1 (DISCONNECT) is turned into an error. Those are C30/C31 territory.
	if len(p) > 0 && (p[0] == 1 || p[0] == 21) {
		p[0] = 94
	}
	return p
}

// checkWire decodes one written packet with the model and checks everything the property
// says about it. It returns false when a violation was recorded.
func checkWire(c *vf.Ctx, m mode, ref *sshpkt.Codec, seq uint32, wire, payload []byte, ctx map[string]any) bool {
	fam := m.family()
	det := func(extra string) map[string]any {
		d := map[string]any{"mode": m.String(), "seq": seq, "payload_len": len(payload), "wire_len": len(wire), "what": extra}
		for k, v := range ctx {
			d[k] = v
		}
		return d
	}
	o, err := ref.Open(seq, wire)
	if err == sshpkt.ErrMAC {
		c.Violation("MAC/tag invalid under the independent model: "+fam, det(""))
		return false
	}
	if err != nil {
		c.Violation("independent decode fails (length field / framing): "+fam, det(err.Error()))
		return false
	}
	if o.Consumed != len(wire) {
		c.Violation("written packet has bytes beyond length+MAC: "+fam, det(fmt.Sprint("consumed ", o.Consumed)))
		return false
	}
	if int(o.Declared) != len(o.Body) {
		c.Violation("packet_length field wrong: "+fam, det(""))
		return false
	}
	pl, pad, err := sshpkt.Unframe(o.Body)
	if err != nil {
		c.Violation("padding_length exceeds packet: "+fam, det(err.Error()))
		return false
	}
	if !bytes.Equal(pl, payload) {
		c.Violation("decoded payload differs from written payload: "+fam, det(vf.Hex8(pl)))
		return false
	}
	if len(pad) < 4 {
		c.Violation("fewer than 4 padding bytes: "+fam, det(fmt.Sprint("padding ", len(pad))))
		return false
	}
	unit := int(o.Declared)
	if !ref.LengthInClearOrSeparate() {
		unit += 4
	}
	if unit%ref.Alignment() != 0 {
		c.Violation("packet not aligned to max(8, block size): "+fam, det(fmt.Sprint("aligned unit ", unit, " alignment ", ref.Alignment())))
		return false
	}
	return true
}

const maxPacket = ssh.VerifC25MaxPacket

const etmSuffix = "-etm@openssh.com"

// classReadResultOverwritten: connectionState.readPacket hands out a slice of its own
// ("copy the packet out here"); a caller that still holds packet i while packet i+1 is read
// (the mux does) must not see it change.
const classReadResultOverwritten = "a payload returned by connectionState.readPacket is overwritten by a later read"

// classCBCIgnoresEtM is an ordinary violation class (the defect it names was found by this
// check in the pinned tree and has since been fixed in /repo, see known_findings.txt
// "fixed:"): with an "-etm" MAC the CBC packet cipher produces RFC 4253 encrypt-and-MAC
// packets (length encrypted, MAC over the plaintext). It is diagnosed separately from a
// generic decode failure so that the report says exactly what the wire format is.
const classCBCIgnoresEtM = "cbc cipher ignores EtM: packets under an -etm@openssh.com MAC are framed encrypt-and-MAC (length encrypted, MAC over plaintext)"

// referenceFor returns the model codec for m. If the first written packet cannot be
// decoded per specification but decodes under the encrypt-and-MAC reading of the same
// HMAC, the precise class is reported (a VIOLATION) and the encrypt-and-MAC model is used
// for the rest of the sequence, so that every other check still runs for these modes.
func referenceFor(c *vf.Ctx, m mode, k keys, seq uint32, firstWire, firstPayload []byte) (*sshpkt.Codec, error) {
	ref, err := sshpkt.New(m.cipher, m.mac, k.key, k.iv, k.macKey)
	if err != nil {
		return nil, err
	}
	if m.spec.Kind != sshpkt.KindCBC || !strings.HasSuffix(m.mac, etmSuffix) {
		return ref, nil
	}
	probe, _ := sshpkt.New(m.cipher, m.mac, k.key, k.iv, k.macKey)
	if _, err := probe.Open(seq, firstWire); err == nil {
		return ref, nil
	}
	plain := strings.TrimSuffix(m.mac, etmSuffix)
	alt, err := sshpkt.New(m.cipher, plain, k.key, k.iv, k.macKey)
	if err != nil {
		return ref, nil
	}
	o, err := alt.Open(seq, firstWire)
	if err != nil {
		return ref, nil
	}
	if pl, _, err := sshpkt.Unframe(o.Body); err != nil || !bytes.Equal(pl, firstPayload) {
		return ref, nil
	}
	c.Violation(classCBCIgnoresEtM, map[string]any{"mode": m.String(), "seq": seq, "payload_len": len(firstPayload),
		"wire": vf.Hex8(firstWire), "decodes_as": m.cipher + "+" + plain})
	c.Outcome("cbc+EtM framed as encrypt-and-MAC")
	return sshpkt.New(m.cipher, plain, k.key, k.iv, k.macKey)
}

// lengths is the payload length grid.
func lengths(thorough bool) []int {
	set := map[int]bool{}
	dense := 300
	if thorough {
		dense = 4200
	}
	for n := 1; n <= dense; n++ {
		set[n] = true
	}
	for _, x := range []int{512, 1024, 2048, 4096, 32768, 35000} {
		for d := -21; d <= 5; d++ {
			set[x+d] = true
		}
	}
	var out []int
	for n := range set {
		out = append(out, n)
	}
	sort.Ints(out)
	return out
}

func run(c *vf.Ctx) {
	c.Rule("every registered cipher x MAC pair (AEADs once) x {payload lengths 1..300 (thorough 1..4200) + 27 neighbours of 512,1024,2048,4096,32768,35000} arranged as 3-packet sequences " +
		"(each length once in each position, non-monotonic) x start seqno {0,1,2^32-2} (lengths above 32000: 2^32-2 only); x IV carry classes x 5-packet sequences (first IV class also from seqno 0xfe, 0xfffe, 0xfffffe, 0x7ffffffe: every byte carry and the sign bit); 600-packet runs across the seqno wrap; one 1257-packet connection per mode with payload 1..1100 ascending then descending (buffer growth/reuse); " +
		"payload lengths maxPacket-24..maxPacket (thorough -70); newPacketCipher/generateKeyMaterial x {SHA1,256,384,512} x both directions; " +
		"(G) three connections per mode sending 2^k+{-1,0,1,7,8,9,15,16,17}, k=4..17, and 27 neighbours of 8192,16384,65536 (thorough: of every 2^k, k=9..17) in the orders ends-inwards / ascending / middle-outwards across the seqno wrap; " +
		"(K) per mode x {key, iv (not GCM), macKey, payload} the caller overwrites that buffer after the constructor / writePacket call returned (non-copying hooks): wire bytes equal those of the copying path, payload buffers incl. spare capacity untouched after return, reader built the same way reads the stream, results of readCipherPacket overwritten by the caller; in every plan each slice connectionState.readPacket returned is either overwritten at once or compared again after the whole stream was read; " +
		"(R) per mode x {seqno 0, 2^32-4, strict KEX}: client and server newTransport pair, two key changes via prepareKeyChange from ONE kexResult per side (buffers with spare capacity, overwritten afterwards), different algorithms per direction, NEWKEYS under the old keys, sequence numbers per RFC 4253 6.4. " +
		"non-trivial = distinct (mode, payload length, position in sequence) whose packet was read back AND independently decoded; " +
		"oracle = verif/ref/sshpkt (own CTR/CBC/GCM/ChaCha20/Poly1305, KAT-validated) + reader round trip + connectionState sequence numbers")
	c.Assume("crypto/aes, crypto/des, crypto/rc4, crypto/hmac and the standard hashes are correct; key/IV/payload values come from a fixed alphabet plus seeded classes")

	ms := modes(c)
	c.Set("modes", len(ms))
	lens := lengths(c.Thorough)
	c.Set("payload_lengths", len(lens))
	seqStarts := []uint32{0, 1, 1<<32 - 2}

	t0 := time.Now()
	lap := func(name string) { c.Set("wall_s_plan_"+name, time.Since(t0).Seconds()); t0 = time.Now() }
	// ---- A: main grid -------------------------------------------------------------
	// The 54 lengths above 32000 carry about two thirds of all bytes of this plan; they are
	// combined with the start value that wraps inside the sequence only (plans D and G send
	// large packets from other sequence numbers). The other start values use the sub-grid of
	// lengths up to 4101.
	var lensSmall []int
	for _, l := range lens {
		if l <= 32000 {
			lensSmall = append(lensSmall, l)
		}
	}
	type job struct {
		m    mode
		i    int
		seq  uint32
		grid []int
	}
	var jobs []job
	for _, m := range ms {
		for _, s := range seqStarts {
			grid := lensSmall
			if s == 1<<32-2 {
				grid = lens
			}
			for i := range grid {
				jobs = append(jobs, job{m, i, s, grid})
			}
		}
	}
	c.ParallelFor(len(jobs), func(j int) {
		jb := jobs[j]
		n := len(jb.grid)
		pl := []int{jb.grid[jb.i], jb.grid[n-1-jb.i], jb.grid[(jb.i+n/2)%n]}
		var payloads [][]byte
		for k, l := range pl {
			var p []byte
			switch (jb.i + k) % 7 {
			case 0:
				p = make([]byte, l)
			case 1:
				p = bytes.Repeat([]byte{0xff}, l)
			default:
				p = c.Bytes("payload", jb.i*3+k, l)
			}
			payloads = append(payloads, fixType(p))
		}
		ivs := ivClasses(c, "iv/"+jb.m.String(), jb.m.ci.IVSize)
		runSequence(c, jb.m, jb.m.keys(c, ivs[0], 0), jb.seq, payloads, "A", true)
	})

	lap("A")
	// ---- B: IV carry classes --------------------------------------------------------
	type jobB struct {
		m  mode
		iv int
	}
	var jobsB []jobB
	for _, m := range ms {
		for iv := range ivClasses(c, "iv/"+m.String(), m.ci.IVSize) {
			jobsB = append(jobsB, jobB{m, iv})
		}
	}
	c.ParallelFor(len(jobsB), func(j int) {
		jb := jobsB[j]
		ivs := ivClasses(c, "iv/"+jb.m.String(), jb.m.ci.IVSize)
		var payloads [][]byte
		for k, l := range []int{1, 17, 300, 15, 33} {
			payloads = append(payloads, fixType(c.Bytes("payloadB", k, l)))
		}
		for _, s := range seqStarts {
			runSequence(c, jb.m, jb.m.keys(c, ivs[jb.iv], 1), s, payloads, fmt.Sprint("B/iv", jb.iv), false)
		}
		if jb.iv == 0 {
			// every byte of the sequence number carries (and the sign bit flips) inside the sequence
			for _, s := range []uint32{0xfe, 0xfffe, 0xfffffe, 0x7ffffffe} {
				runSequence(c, jb.m, jb.m.keys(c, ivs[0], 1), s, payloads, "B/seq", false)
			}
		}
	})

	lap("B")
	// ---- C: long runs (counter carries, seqno wrap in the middle) ---------------------
	c.ParallelFor(len(ms), func(j int) {
		m := ms[j]
		var payloads [][]byte
		for k := 0; k < 600; k++ {
			payloads = append(payloads, fixType(c.Bytes("payloadC", k, 1+k%40)))
		}
		iv := c.Bytes("ivC/"+m.String(), 0, m.ci.IVSize)
		if len(iv) >= 2 {
			iv[len(iv)-1], iv[len(iv)-2] = 0x80, 0xff // both low counter bytes carry within 600 packets
		}
		runSequence(c, m, m.keys(c, iv, 2), 1<<32-300, payloads, "C", false)
	})

	lap("C")
	// ---- F: one long-lived connection per mode, payload length 1..1100 ascending then
	// descending: every buffer growth step just above the previous capacity, and reuse of
	// larger buffers for smaller packets.
	c.ParallelFor(len(ms), func(j int) {
		m := ms[j]
		var payloads [][]byte
		for l := 1; l <= 1100; l++ {
			payloads = append(payloads, fixType(c.Bytes("payloadF", l, l)))
		}
		for l := 1099; l >= 1; l -= 7 {
			payloads = append(payloads, fixType(c.Bytes("payloadF", l, l)))
		}
		ivs := ivClasses(c, "iv/"+m.String(), m.ci.IVSize)
		runSequence(c, m, m.keys(c, ivs[0], 4), 5, payloads, "F", false)
	})
	lap("F")
	// ---- G: three connections per mode with very different sizes back to back (see mixedSizes)
	const gParts = 3
	c.ParallelFor(len(ms)*gParts, func(j int) {
		m, part := ms[j/gParts], j%gParts
		var payloads [][]byte
		for i, l := range mixedSizes(c.Thorough)[part] {
			payloads = append(payloads, fixType(c.Bytes("payloadG", i%5, l)))
		}
		ivs := ivClasses(c, "iv/"+m.String(), m.ci.IVSize)
		runSequence(c, m, m.keys(c, ivs[0], 6+part), uint32(0)-uint32(len(payloads)/2), payloads, fmt.Sprint("G/", part), true)
	})
	lap("G")
	// ---- K: the caller owns its buffers ------------------------------------------------
	c.ParallelFor(len(ms), func(j int) { runOwnership(c, ms[j]) })
	lap("K")
	// ---- R: real transports, key changes with fresh cipher objects -------------------------
	type jobR struct {
		j      int
		seq0   uint32
		strict bool
	}
	var jobsR []jobR
	for j := range ms {
		jobsR = append(jobsR, jobR{j, 0, false}, jobR{j, 1<<32 - 4, false}, jobR{j, 1, true})
	}
	c.ParallelFor(len(jobsR), func(i int) { runRekey(c, ms, jobsR[i].j, jobsR[i].seq0, jobsR[i].strict) })
	lap("R")
	// ---- D: largest packets ------------------------------------------------------------
	type jobD struct {
		m mode
		l int
	}
	var jobsD []jobD
	for _, m := range ms {
		lo := maxPacket - 24 // the accept/reject boundary of every mode lies in this window
		if c.Thorough {
			lo = maxPacket - 70
		}
		for l := lo; l <= maxPacket; l++ {
			jobsD = append(jobsD, jobD{m, l})
		}
	}
	c.ParallelFor(len(jobsD), func(j int) {
		jb := jobsD[j]
		ivs := ivClasses(c, "iv/"+jb.m.String(), jb.m.ci.IVSize)
		big := fixType(c.Bytes("payloadD", jb.l%3, jb.l))
		small := fixType(c.Bytes("payloadD-small", 0, 9))
		runSequence(c, jb.m, jb.m.keys(c, ivs[0], 3), 1<<32-1, [][]byte{big, small}, "D", true)
	})

	lap("D")
	// ---- E: key derivation (newPacketCipher -> generateKeyMaterial) ------------------
	type jobE struct {
		m   mode
		h   crypto.Hash
		c2s bool
	}
	var jobsE []jobE
	for _, m := range ms {
		for _, h := range []crypto.Hash{crypto.SHA1, crypto.SHA256, crypto.SHA384, crypto.SHA512} {
			jobsE = append(jobsE, jobE{m, h, true}, jobE{m, h, false})
		}
	}
	c.ParallelFor(len(jobsE), func(j int) {
		jb := jobsE[j]
		runKex(c, jb.m, jb.h, jb.c2s)
	})
	lap("E")
}

// runSequence writes payloads through a connectionState starting at seq0, decodes every
// packet with the model, then reads the whole stream back through a second connectionState.
func runSequence(c *vf.Ctx, m mode, k keys, seq0 uint32, payloads [][]byte, plan string, nontrivial bool) {
	ctx := map[string]any{"plan": plan, "seq0": seq0, "iv": fmt.Sprintf("%x", k.iv)}
	fam := m.family()
	w, err := ssh.VerifC25New(m.cipher, m.mac, k.key, k.iv, k.macKey)
	if err != nil {
		c.Violation("constructor fails: "+fam, map[string]any{"mode": m.String(), "err": err.Error()})
		return
	}
	r, _ := ssh.VerifC25New(m.cipher, m.mac, k.key, k.iv, k.macKey)
	var ref *sshpkt.Codec
	var stream bytes.Buffer
	wc := ssh.VerifC25NewWriterConn(w, seq0, &stream)
	rnd := vf.NewRand("pad/" + m.String())
	type rec struct {
		payload []byte
		ok      bool
		plen    uint32
	}
	var recs []rec
	for i, p := range payloads {
		seq := seq0 + uint32(i) // wraps mod 2^32
		mark := stream.Len()
		var werr error
		panicked, val, stack := vf.Protect(func() { werr = wc.WritePacket(rnd, p) })
		c.Eval(1)
		ctx["index"] = i
		if panicked {
			c.Violation("writer panics: "+fam, map[string]any{"mode": m.String(), "payload_len": len(p), "panic": fmt.Sprint(val), "stack": stack})
			return
		}
		if werr != nil {
			c.Violation("writer rejects payload of 1..maxPacket bytes: "+fam, map[string]any{"mode": m.String(), "payload_len": len(p), "err": werr.Error()})
			return
		}
		if got := wc.SeqNum(); got != seq+1 {
			c.Violation("writer sequence number does not advance by one (mod 2^32)", map[string]any{"mode": m.String(), "before": seq, "after": got})
			return
		}
		wire := append([]byte{}, stream.Bytes()[mark:]...)
		if ref == nil {
			if ref, err = referenceFor(c, m, k, seq, wire, p); err != nil {
				c.Violation("harness: reference constructor", err.Error())
				return
			}
		}
		if !checkWire(c, m, ref, seq, wire, p, ctx) {
			return
		}
		plen := uint32(len(wire) - 4 - ref.TagSize())
		recs = append(recs, rec{p, true, plen})
	}
	rc := ssh.VerifC25NewReaderConn(r, seq0, bytes.NewReader(stream.Bytes()))
	// A slice returned by connectionState.readPacket belongs to the caller: every third one is
	// overwritten by the caller right away (must not disturb later reads), the others are kept
	// and compared again after the whole stream has been read (must not change any more).
	kept := make([][]byte, len(recs))
	for i, rc0 := range recs {
		seq := seq0 + uint32(i)
		var got []byte
		var rerr error
		panicked, val, stack := vf.Protect(func() { got, rerr = rc.ReadPacket() })
		if panicked {
			c.Violation("reader panics on a written packet: "+fam, map[string]any{"mode": m.String(), "payload_len": len(rc0.payload), "panic": fmt.Sprint(val), "stack": stack})
			return
		}
		if rerr != nil {
			if rc0.plen > maxPacket {
				// the writer produced packet_length > maxPacket for a payload <= maxPacket
				c.Violation("reader rejects a packet its own writer produced: payload <= maxPacket but packet_length > maxPacket",
					map[string]any{"mode": m.String(), "payload_len": len(rc0.payload), "packet_length": rc0.plen, "maxPacket": maxPacket, "err": rerr.Error()})
				c.Outcome("oversize packet rejected by reader")
				return
			}
			c.Violation("reader keyed like the writer fails: "+fam, map[string]any{"mode": m.String(), "plan": plan, "index": i, "seq": seq, "payload_len": len(rc0.payload), "packet_length": rc0.plen, "err": rerr.Error(), "iv": fmt.Sprintf("%x", k.iv)})
			return
		}
		if !bytes.Equal(got, rc0.payload) {
			c.Violation("reader returns a different payload: "+fam, map[string]any{"mode": m.String(), "plan": plan, "index": i, "seq": seq, "payload_len": len(rc0.payload), "got": vf.Hex8(got)})
			return
		}
		if rc.SeqNum() != seq+1 {
			c.Violation("reader sequence number does not advance by one (mod 2^32)", map[string]any{"mode": m.String(), "before": seq, "after": rc.SeqNum()})
			return
		}
		c.Outcome("round trip + independent decode ok: " + fam)
		if nontrivial {
			c.Nontrivial(fmt.Sprintf("%s/%d/%d", m.String(), len(rc0.payload), i))
		}
		if i%3 == 2 {
			for j := range got {
				got[j] ^= 0xff
			}
		} else {
			kept[i] = got
		}
	}
	for i, g := range kept {
		if g != nil && !bytes.Equal(g, recs[i].payload) {
			c.Violation(classReadResultOverwritten, map[string]any{"mode": m.String(), "plan": plan, "index": i, "of": len(recs), "payload_len": len(recs[i].payload), "now": vf.Hex8(g)})
			return
		}
	}
	// nothing may be left over: the reader consumed exactly the bytes the writer produced
	var rerr error
	var extra []byte
	if p, _, _ := vf.Protect(func() { extra, rerr = rc.ReadPacket() }); p || rerr != io.EOF {
		c.Violation("reader does not stop exactly at the end of the written stream: "+fam, map[string]any{"mode": m.String(), "err": fmt.Sprint(rerr), "extra": vf.Hex8(extra)})
		return
	}
	if c.WantSample() && len(payloads) == 3 && seq0 != 0 {
		c.Sample(map[string]any{"mode": m.String(), "seq0": seq0, "payload_lens": []int{len(payloads[0]), len(payloads[1]), len(payloads[2])}, "stream_len": stream.Len()})
	}
}

// runKex covers newPacketCipher + generateKeyMaterial: the model derives the keys per RFC
// 4253 7.2 and must be able to decode what the real writer produces, and the real reader
// built from model-derived raw keys must read it.
func runKex(c *vf.Ctx, m mode, h crypto.Hash, c2s bool) {
	K := c.Bytes("kex-K/"+m.String(), int(h), 37)
	K = append([]byte{0, 0, 0, 33}, K[:33]...) // an mpint-shaped string
	K[4] &= 0x7f
	H := c.Bytes("kex-H", int(h), h.Size())
	sid := c.Bytes("kex-sid", int(h), h.Size())
	w, err := ssh.VerifC25NewFromKex(m.cipher, m.mac, c2s, K, H, sid, h)
	if err != nil {
		c.Violation("newPacketCipher fails: "+m.family(), map[string]any{"mode": m.String(), "err": err.Error()})
		return
	}
	tags := []byte{'B', 'D', 'F'}
	if c2s {
		tags = []byte{'A', 'C', 'E'}
	}
	k := keys{
		iv:     sshpkt.DeriveKey(h, K, H, sid, tags[0], m.ci.IVSize),
		key:    sshpkt.DeriveKey(h, K, H, sid, tags[1], m.ci.KeySize),
		macKey: sshpkt.DeriveKey(h, K, H, sid, tags[2], m.macKeySize),
	}
	var ref *sshpkt.Codec
	r, err := ssh.VerifC25New(m.cipher, m.mac, k.key, k.iv, k.macKey)
	if err != nil {
		c.Violation("constructor fails: "+m.family(), map[string]any{"mode": m.String(), "err": err.Error()})
		return
	}
	var stream bytes.Buffer
	rd := bytes.NewReader(nil)
	for i, l := range []int{1, 40} {
		p := c.Bytes("payloadE", i, l)
		mark := stream.Len()
		c.Eval(1)
		if err := w.WritePacket(uint32(7+i), &stream, vf.NewRand("padE"), p); err != nil {
			c.Violation("writer rejects payload of 1..maxPacket bytes: "+m.family(), map[string]any{"mode": m.String(), "err": err.Error()})
			return
		}
		wire := append([]byte{}, stream.Bytes()[mark:]...)
		ctx := map[string]any{"plan": "E", "hash": h.String(), "client_to_server": c2s}
		if ref == nil {
			if ref, err = referenceFor(c, m, k, uint32(7+i), wire, p); err != nil {
				c.Violation("harness: reference constructor", err.Error())
				return
			}
		}
		o, err := ref.Open(uint32(7+i), wire)
		if err != nil || o.Consumed != len(wire) {
			c.Violation("key material differs from RFC 4253 7.2 derivation (independent decode with derived keys fails)", map[string]any{"mode": m.String(), "hash": h.String(), "client_to_server": c2s, "err": fmt.Sprint(err)})
			return
		}
		pl, _, err := sshpkt.Unframe(o.Body)
		if err != nil || !bytes.Equal(pl, p) {
			c.Violation("key material differs from RFC 4253 7.2 derivation (payload differs)", map[string]any{"mode": m.String(), "hash": h.String(), "ctx": ctx})
			return
		}
		rd.Reset(wire)
		got, err := r.ReadPacket(uint32(7+i), rd)
		if err != nil || !bytes.Equal(got, p) {
			c.Violation("reader built from RFC 4253 7.2 keys cannot read newPacketCipher writer", map[string]any{"mode": m.String(), "hash": h.String(), "client_to_server": c2s, "err": fmt.Sprint(err)})
			return
		}
		c.Nontrivial(fmt.Sprintf("kex/%s/%s/%v/%d", m.String(), h.String(), c2s, i))
	}
	c.Outcome("key derivation ok")
}
