// Hardening pass for C25: plans G (size mix through one instance), K (the caller owns its
// buffers) and R (real transports with key changes). They use the non-copying hooks of
// ssh/verif_c25h.go.
package main

import (
	"bytes"
	"crypto"
	"fmt"
	"io"
	"sort"

	"golang.org/x/crypto/ssh"
	"verif/ref/sshpkt"
	"verif/vf"
)

// mixedSizes returns the three payload length lists of plan G. The set 2^k + {-1,0,1,7,8,9,
// 15,16,17}, k = 4..17, plus 27 neighbours of 8192, 16384, 65536 (thorough: of every 2^k,
// k = 9..17) is dealt out in ascending order to three connections, and each connection sends
// its share in a different order: [0] from both ends inwards (small, largest, next small,
// next largest ...: small packets in a buffer that is already large), [1] ascending (every
// buffer growth step is a jump to the next power of two), [2] from the middle outwards
// (small and large alternate and every large packet is larger than all before it).
func mixedSizes(thorough bool) [3][]int {
	set := map[int]bool{}
	for k := 4; k <= 17; k++ {
		for _, d := range []int{-1, 0, 1, 7, 8, 9, 15, 16, 17} {
			set[1<<k+d] = true
		}
	}
	dense := []int{8192, 16384, 65536}
	if thorough {
		dense = nil
		for k := 9; k <= 17; k++ {
			dense = append(dense, 1<<k)
		}
	}
	for _, x := range dense {
		for d := -21; d <= 5; d++ {
			set[x+d] = true
		}
	}
	var asc []int
	for n := range set {
		asc = append(asc, n)
	}
	sort.Ints(asc)
	var share [3][]int
	for i, n := range asc {
		share[i%3] = append(share[i%3], n)
	}
	var out [3][]int
	for i, j := 0, len(share[0])-1; i <= j; i, j = i+1, j-1 {
		out[0] = append(out[0], share[0][i])
		if i != j {
			out[0] = append(out[0], share[0][j])
		}
	}
	out[1] = share[1]
	mid := len(share[2]) / 2
	for d := 0; mid-d >= 0 || mid+d < len(share[2]); d++ {
		if d > 0 && mid-d >= 0 {
			out[2] = append(out[2], share[2][mid-d])
		}
		if mid+d < len(share[2]) {
			out[2] = append(out[2], share[2][mid+d])
		}
	}
	return out
}

func clone(b []byte) []byte { return append([]byte{}, b...) }

func clobber(b []byte) {
	for i := range b {
		b[i] ^= 0xff
	}
}

// runOwnership: whatever slice the caller hands to the constructor or to writePacket is the
// caller's again when the call returns. Differential oracle: the wire bytes of a cipher whose
// constructor arguments / payload buffers are overwritten by the caller afterwards must equal
// those of a cipher built through the copying hooks from the same values (same padding
// source), a reader treated the same way must read that stream, and no payload buffer
// (including its spare capacity) may change after the writePacket call it was passed to
// has returned. Not demanded: that writePacket leaves the payload intact DURING the call
// (packetCipher documents "the contents of the packet are generally scrambled"), and that
// gcmCipher copies its iv (it keeps and increments the slice newPacketCipher allocated for
// it; the only caller never touches it again).
func runOwnership(c *vf.Ctx, m mode) {
	fam := m.family()
	ivs := ivClasses(c, "iv/"+m.String(), m.ci.IVSize)
	k := m.keys(c, ivs[0], 5)
	sizes := []int{1, 40, 1500, 7, 300, 2000, 16, 1100}
	const seq0 = 1<<32 - 3
	var payloads [][]byte
	for i, l := range sizes {
		payloads = append(payloads, fixType(c.Bytes("payloadK", i, l)))
	}

	// base line through the copying hooks
	bw, err := ssh.VerifC25New(m.cipher, m.mac, k.key, k.iv, k.macKey)
	if err != nil {
		c.Violation("constructor fails: "+fam, map[string]any{"mode": m.String(), "err": err.Error()})
		return
	}
	var baseStream bytes.Buffer
	var base [][]byte
	{
		wc := ssh.VerifC25NewWriterConn(bw, seq0, &baseStream)
		rnd := vf.NewRand("padK/" + m.String())
		for _, p := range payloads {
			mark := baseStream.Len()
			if err := wc.WritePacket(rnd, p); err != nil {
				c.Violation("writer rejects payload of 1..maxPacket bytes: "+fam, map[string]any{"mode": m.String(), "payload_len": len(p), "err": err.Error()})
				return
			}
			base = append(base, clone(baseStream.Bytes()[mark:]))
		}
	}

	variants := []string{"nothing", "key", "payload"}
	if m.ci.IVSize > 0 && m.spec.Kind != sshpkt.KindGCM {
		variants = append(variants, "iv")
	}
	if m.macKeySize > 0 {
		variants = append(variants, "macKey")
	}
	for _, v := range variants {
		mk := func() (*ssh.VerifC25Cipher, error) {
			kk := keys{clone(k.key), clone(k.iv), clone(k.macKey)}
			pc, err := ssh.VerifC25NewRaw(m.cipher, m.mac, kk.key, kk.iv, kk.macKey)
			switch v {
			case "key":
				clobber(kk.key)
			case "iv":
				clobber(kk.iv)
			case "macKey":
				clobber(kk.macKey)
			}
			return pc, err
		}
		w, err := mk()
		if err != nil {
			c.Violation("constructor fails: "+fam, map[string]any{"mode": m.String(), "err": err.Error()})
			return
		}
		var stream bytes.Buffer
		wc := ssh.VerifC25NewWriterConn(w, seq0, &stream)
		rnd := vf.NewRand("padK/" + m.String())
		bufs := make([][]byte, len(payloads))
		snaps := make([][]byte, len(payloads))
		bad := false
		for i, p := range payloads {
			// the caller's buffer: payload plus spare capacity the writer might be tempted to use
			buf := make([]byte, len(p), len(p)+40+64*(i%3))
			copy(buf, p)
			for j := len(p); j < cap(buf); j++ {
				buf[:cap(buf)][j] = 0xc3
			}
			mark := stream.Len()
			var werr error
			panicked, val, stack := vf.Protect(func() { werr = wc.WritePacketRaw(rnd, buf) })
			c.Eval(1)
			if panicked || werr != nil {
				c.Violation("writer fails on a payload buffer with spare capacity: "+fam, map[string]any{"mode": m.String(), "payload_len": len(p), "err": fmt.Sprint(werr), "panic": fmt.Sprint(val), "stack": stack})
				return
			}
			if v == "payload" {
				clobber(buf[:cap(buf)])
			}
			bufs[i], snaps[i] = buf, clone(buf[:cap(buf)])
			if !bytes.Equal(stream.Bytes()[mark:], base[i]) {
				what := "the caller's " + v + " slice after the cipher was constructed"
				if v == "payload" {
					what = "a caller's payload slice after the writePacket call returned"
				}
				if v == "nothing" {
					what = "whether the caller's slices were copied before the call"
				}
				c.Violation("written packets depend on "+what+": "+fam, map[string]any{"mode": m.String(), "index": i, "payload_len": len(p),
					"wire": vf.Hex8(stream.Bytes()[mark:]), "expected": vf.Hex8(base[i])})
				bad = true
				break
			}
		}
		if bad {
			continue
		}
		for i := range bufs {
			if !bytes.Equal(bufs[i][:cap(bufs[i])], snaps[i]) {
				c.Violation("writer modifies a caller's payload buffer after the writePacket call it was passed to returned: "+fam,
					map[string]any{"mode": m.String(), "variant": v, "index": i, "payload_len": len(payloads[i]), "cap": cap(bufs[i])})
				bad = true
				break
			}
		}
		if bad {
			continue
		}
		// reader built the same way reads the base stream; results are the caller's
		r, err := mk()
		if err != nil {
			continue
		}
		rc := ssh.VerifC25NewReaderConn(r, seq0, bytes.NewReader(baseStream.Bytes()))
		for i, p := range payloads {
			var got []byte
			var rerr error
			panicked, val, _ := vf.Protect(func() { got, rerr = rc.ReadPacket() })
			if panicked || rerr != nil || !bytes.Equal(got, p) {
				c.Violation("reader depends on the caller's "+v+" slice after the cipher was constructed: "+fam, map[string]any{"mode": m.String(), "index": i,
					"payload_len": len(p), "err": fmt.Sprint(rerr), "panic": fmt.Sprint(val), "got": vf.Hex8(got)})
				bad = true
				break
			}
			clobber(got)
		}
		if bad {
			continue
		}
		// cipher level: the slice readCipherPacket returns "may be overwritten by future calls",
		// i.e. the cipher does not need its contents any more; the caller overwrites it.
		r2, err := mk()
		if err != nil {
			continue
		}
		src := bytes.NewReader(baseStream.Bytes())
		for i, p := range payloads {
			var got []byte
			var rerr error
			panicked, val, _ := vf.Protect(func() { got, rerr = r2.ReadPacketRaw(seq0+uint32(i), src) })
			if panicked || rerr != nil || !bytes.Equal(got, p) {
				c.Violation("readCipherPacket fails after the caller overwrote the previous result: "+fam, map[string]any{"mode": m.String(), "variant": v, "index": i,
					"payload_len": len(p), "err": fmt.Sprint(rerr), "panic": fmt.Sprint(val), "got": vf.Hex8(got)})
				bad = true
				break
			}
			clobber(got)
		}
		if !bad {
			c.Outcome("caller overwrote its buffers, nothing changed")
			c.Nontrivial(fmt.Sprintf("own/%s/%s", m.String(), v))
		}
	}
}

// ---- plan R -----------------------------------------------------------------------------

// tee is one direction of the byte stream between two transports: the reader consumes what
// the writer appended, and everything ever written stays in log.
type tee struct {
	buf bytes.Buffer
	log []byte
}

func (t *tee) Write(p []byte) (int, error) { t.log = append(t.log, p...); return t.buf.Write(p) }
func (t *tee) Read(p []byte) (int, error)  { return t.buf.Read(p) }

var noneMode = func() mode {
	ns, _ := sshpkt.LookupCipher("none")
	return mode{cipher: "none", spec: ns}
}()

// fixTypeT additionally avoids IGNORE (2) and DEBUG (4), which transport.readPacket skips.
func fixTypeT(p []byte) []byte {
	p = fixType(p)
	if len(p) > 0 && (p[0] == 2 || p[0] == 4) {
		p[0] = 95
	}
	return p
}

// runRekey drives a client and a server transport (newTransport: cipher "none", sequence
// numbers owned by the transport) through two key changes made with prepareKeyChange from ONE
// kexResult per side, with different algorithms per direction. Every packet, the NEWKEYS
// packets included, is decoded by the model with the keys RFC 4253 7.2 gives for that
// direction and the sequence number RFC 4253 6.4 gives (never reset by a key change, unless
// strict KEX: reset to 0 after NEWKEYS), and is read by the peer transport.
func runRekey(c *vf.Ctx, ms []mode, j int, seq0 uint32, strict bool) {
	n := len(ms)
	// per key change: client-to-server mode, server-to-client mode
	gens := [][2]mode{{ms[j], ms[(j+5)%n]}, {ms[(j+17)%n], ms[(n-1-j+n)%n]}}
	hashes := []crypto.Hash{crypto.SHA1, crypto.SHA256, crypto.SHA384, crypto.SHA512}
	label := fmt.Sprintf("R/%d/%d/%v", j, seq0, strict)
	c2s, s2c := &tee{}, &tee{}
	client := ssh.VerifC25NewTransport(s2c, c2s, vf.NewRand("padR/c/"+label), true)
	server := ssh.VerifC25NewTransport(c2s, s2c, vf.NewRand("padR/s/"+label), false)
	client.SetSeqNums(seq0, seq0)
	server.SetSeqNums(seq0, seq0)
	if strict {
		if err := client.SetStrictMode(); err != nil {
			c.Violation("harness: setStrictMode", err.Error())
			return
		}
		server.SetStrictMode()
	}
	type dir struct {
		name   string
		w, r   *ssh.VerifC25Transport
		pipe   *tee
		m      mode
		ref    *sshpkt.Codec
		seq    uint32
		next   *sshpkt.Codec
		nextM  mode
		count  int
		client bool
	}
	none1, _ := sshpkt.New("none", "", nil, nil, nil)
	none2, _ := sshpkt.New("none", "", nil, nil, nil)
	dirs := []*dir{
		{name: "client to server", w: client, r: server, pipe: c2s, m: noneMode, ref: none1, seq: seq0, client: true},
		{name: "server to client", w: server, r: client, pipe: s2c, m: noneMode, ref: none2, seq: seq0},
	}
	ok := true
	send := func(d *dir, payload []byte, gen int) {
		if !ok {
			return
		}
		ctx := map[string]any{"plan": "R", "direction": d.name, "key_generation": gen, "seq0": seq0, "strict": strict, "packet_no": d.count}
		buf := make([]byte, len(payload), len(payload)+33)
		copy(buf, payload)
		mark := len(d.pipe.log)
		var werr error
		panicked, val, stack := vf.Protect(func() { werr = d.w.WritePacket(buf) })
		c.Eval(1)
		d.count++
		if panicked || werr != nil {
			ok = false
			c.Violation("transport.writePacket fails: "+d.m.family(), map[string]any{"mode": d.m.String(), "ctx": ctx, "err": fmt.Sprint(werr), "panic": fmt.Sprint(val), "stack": stack})
			return
		}
		clobber(buf[:cap(buf)])
		wire := clone(d.pipe.log[mark:])
		if !checkWire(c, d.m, d.ref, d.seq, wire, payload, ctx) {
			ok = false
			return
		}
		var got []byte
		var rerr error
		panicked, val, stack = vf.Protect(func() { got, rerr = d.r.ReadPacket() })
		if panicked || rerr != nil || !bytes.Equal(got, payload) {
			ok = false
			c.Violation("peer transport does not read what the transport wrote: "+d.m.family(), map[string]any{"mode": d.m.String(), "ctx": ctx, "payload_len": len(payload),
				"err": fmt.Sprint(rerr), "panic": fmt.Sprint(val), "got": vf.Hex8(got), "stack": stack})
			return
		}
		clobber(got)
		d.seq++
		if len(payload) == 1 && payload[0] == 21 {
			d.m, d.ref = d.nextM, d.next
			if strict {
				d.seq = 0
			}
		}
		_, ws := d.w.SeqNums()
		rs, _ := d.r.SeqNums()
		if ws != d.seq || rs != d.seq {
			ok = false
			c.Violation("transport sequence number differs from RFC 4253 6.4 (incremented per packet, wrapping, not reset by a key change unless strict KEX)",
				map[string]any{"ctx": ctx, "expected": d.seq, "writer": ws, "reader": rs})
		}
	}
	both := func(lens []int, gen int) {
		for i, l := range lens {
			for di, d := range dirs {
				send(d, fixTypeT(c.Bytes("payloadR", 10*gen+2*i+di, l)), gen)
			}
		}
	}
	both([]int{30, 1}, 0)
	sid := c.Bytes("R-sid", j, 32)
	for g, gm := range gens {
		h := hashes[(j+g)%4]
		K := append([]byte{0, 0, 0, 33}, c.Bytes("R-K/"+label, g, 33)...)
		K[4] &= 0x7f
		H := c.Bytes("R-H/"+label, g, h.Size())
		for si, t := range []*ssh.VerifC25Transport{client, server} {
			// each side has its own kexResult, shared by its two directions; the slices have
			// spare capacity and are overwritten as soon as prepareKeyChange has returned
			kb, hb, sb := append(make([]byte, 0, 80), K...), append(make([]byte, 0, 100), H...), append(make([]byte, 0, 70), sid...)
			kex := ssh.VerifC25NewKex(kb, hb, sb, h)
			algs := ssh.NegotiatedAlgorithms{
				Write: ssh.DirectionAlgorithms{Cipher: gm[si].cipher, MAC: gm[si].mac},
				Read:  ssh.DirectionAlgorithms{Cipher: gm[1-si].cipher, MAC: gm[1-si].mac},
			}
			var err error
			panicked, val, stack := vf.Protect(func() { err = t.PrepareKeyChange(algs, kex) })
			if panicked || err != nil {
				c.Violation("prepareKeyChange fails", map[string]any{"algs": fmt.Sprint(algs), "err": fmt.Sprint(err), "panic": fmt.Sprint(val), "stack": stack})
				return
			}
			clobber(kb[:cap(kb)])
			clobber(hb[:cap(hb)])
			clobber(sb[:cap(sb)])
		}
		for di, d := range dirs {
			tags := []byte{'B', 'D', 'F'}
			if d.client {
				tags = []byte{'A', 'C', 'E'}
			}
			nm := gm[di]
			ref, err := sshpkt.New(nm.cipher, nm.mac,
				sshpkt.DeriveKey(h, K, H, sid, tags[1], nm.ci.KeySize),
				sshpkt.DeriveKey(h, K, H, sid, tags[0], nm.ci.IVSize),
				sshpkt.DeriveKey(h, K, H, sid, tags[2], nm.macKeySize))
			if err != nil {
				c.Violation("harness: reference constructor", err.Error())
				return
			}
			d.next, d.nextM = ref, nm
		}
		for _, d := range dirs {
			send(d, []byte{21}, g)
		}
		if g == 0 {
			client.SetInitialKEXDone()
			server.SetInitialKEXDone()
		}
		both([]int{1, 1500, 20, 300}, g+1)
	}
	if !ok {
		return
	}
	// nothing left over in either direction
	for _, d := range dirs {
		var rerr error
		if p, _, _ := vf.Protect(func() { _, rerr = d.r.ReadPacket() }); p || rerr != io.EOF {
			c.Violation("transport does not stop exactly at the end of the written stream: "+d.m.family(), map[string]any{"mode": d.m.String(), "err": fmt.Sprint(rerr)})
			return
		}
	}
	c.Outcome("two key changes on real transports ok")
	c.Nontrivial(fmt.Sprintf("rekey/%s|%s>%s|%s/%d/%v", gens[0][0], gens[0][1], gens[1][0], gens[1][1], seq0, strict))
}
