// C26: SSH packet readers reject tampering and never panic.
//
// Part 1 (fault enumeration, every authenticated mode): streams produced by the REAL writer
// are modified in every enumerated way (single-bit flips, byte changes, double flips in the
// header, every truncation point, every arrangement of the packets incl. drop / duplicate /
// reorder, injections at every packet boundary) and read by a reader keyed like the writer.
// Oracle (invariant): the reader may return a payload at position i only if the modified
// stream still starts with the writer's bytes for packets 0..i, and then it must be the
// payload written at position i; it never panics.
//
// Part 2 (totality, every mode including none): short streams, and packets crafted by the
// independent model verif/ref/sshpkt that are AUTHENTIC (valid MAC/tag) but malformed
// (every padding_length 0..255 x small packet_length), or declare a length above maxPacket:
// payload-or-error, no panic, the payload (if any) is the one the framing implies, a
// declared length above maxPacket is always an error and the reader never consumes more
// bytes than the largest legal packet.
package main

import (
	"bytes"
	"errors"
	"fmt"
	"io"
	"strings"
	"sync/atomic"

	"golang.org/x/crypto/ssh"
	"verif/ref/sshpkt"
	"verif/vf"
)

func main() { vf.Main("C26", vf.FaultEnumeration, run) }

const maxPacket = ssh.VerifC25MaxPacket
const etmSuffix = "-etm@openssh.com"

type mode struct {
	cipher, mac string
	keySize     int
	ivSize      int
	macKeySize  int
	spec        sshpkt.CipherSpec
	none        bool
	// dead is set once a violation has been recorded for this mode: the remaining cases of
	// the mode are skipped (a reader that is already broken can be arbitrarily slow, e.g.
	// allocate 4 GiB per case). On a tree without violations nothing is ever skipped.
	dead *atomic.Bool
}

func (m mode) String() string {
	if m.mac == "" {
		return m.cipher
	}
	return m.cipher + "+" + m.mac
}

func (m mode) family() string {
	k := map[sshpkt.Kind]string{sshpkt.KindNone: "none", sshpkt.KindStream: "stream", sshpkt.KindCBC: "cbc",
		sshpkt.KindGCM: "aes-gcm", sshpkt.KindChaChaPoly: "chacha20-poly1305"}[m.spec.Kind]
	if m.spec.AEAD || m.none {
		return k
	}
	if strings.HasSuffix(m.mac, etmSuffix) {
		return k + " with EtM MAC"
	}
	return k + " with encrypt-and-MAC"
}

type keys struct{ key, iv, macKey []byte }

func (m mode) keys(c *vf.Ctx, i int) keys {
	return keys{c.Bytes("key/"+m.String(), i, m.keySize), c.Bytes("iv/"+m.String(), i, m.ivSize), c.Bytes("mackey/"+m.String(), i, m.macKeySize)}
}

func (m mode) newReal(k keys) (*ssh.VerifC25Cipher, error) {
	if m.none {
		return ssh.VerifC25NewNone(), nil
	}
	return ssh.VerifC25New(m.cipher, m.mac, k.key, k.iv, k.macKey)
}

func modes(c *vf.Ctx) []mode {
	var out []mode
	macs := ssh.VerifC25MACs()
	for _, ci := range ssh.VerifC25Ciphers() {
		spec, ok := sshpkt.LookupCipher(ci.Name)
		if !ok {
			c.Violation("registered cipher has no reference model: "+ci.Name, ci)
			continue
		}
		if ci.AEAD {
			out = append(out, mode{cipher: ci.Name, keySize: ci.KeySize, ivSize: ci.IVSize, spec: spec, dead: new(atomic.Bool)})
			continue
		}
		for _, mi := range macs {
			out = append(out, mode{cipher: ci.Name, mac: mi.Name, keySize: ci.KeySize, ivSize: ci.IVSize, macKeySize: mi.KeySize, spec: spec, dead: new(atomic.Bool)})
		}
	}
	ns, _ := sshpkt.LookupCipher("none")
	out = append(out, mode{cipher: "none", spec: ns, none: true, dead: new(atomic.Bool)})
	return out
}

// ---- running the real reader -------------------------------------------------------

type result struct {
	payload []byte
	err     error
	panic   string
}

// budgetReader serves data and then zeros until more than `budget` bytes have been
// consumed in total; past that it fails with errBudget.
type budgetReader struct {
	data     []byte
	endless  bool
	consumed int
	budget   int
}

var errBudget = errors.New("verif: reader consumed more than the largest legal packet")

func (b *budgetReader) Read(p []byte) (int, error) {
	if len(p) == 0 {
		return 0, nil
	}
	if b.consumed < len(b.data) {
		n := copy(p, b.data[b.consumed:])
		b.consumed += n
		return n, nil
	}
	if !b.endless {
		return 0, io.EOF
	}
	if b.consumed >= b.budget {
		return 0, errBudget
	}
	n := len(p)
	if n > b.budget-b.consumed {
		n = b.budget - b.consumed
	}
	for i := 0; i < n; i++ {
		p[i] = 0
	}
	b.consumed += n
	return n, nil
}

// readAll reads packets with sequence numbers seq0, seq0+1, ... until the first error
// (the connection would be closed) or maxPos results.
func readAll(m mode, k keys, seq0 uint32, src io.Reader, maxPos int) []result {
	var out []result
	rd, err := m.newReal(k)
	if err != nil {
		return []result{{err: err, panic: "constructor: " + err.Error()}}
	}
	for pos := 0; pos < maxPos; pos++ {
		var r result
		p, val, stack := vf.Protect(func() { r.payload, r.err = rd.ReadPacketRaw(seq0+uint32(pos), src) })
		if p {
			r.panic = fmt.Sprint(val) + "\n" + stack
		}
		if r.payload != nil {
			// the returned slice "may be overwritten by future calls": the reader must not need
			// its contents any more, so the caller keeps a copy and overwrites the original
			internal := r.payload
			r.payload = append([]byte{}, internal...)
			for i := range internal {
				internal[i] ^= 0xff
			}
		}
		out = append(out, r)
		if p || r.err != nil {
			break
		}
	}
	return out
}

// ---- part 1: faults on writer-produced streams --------------------------------------

type stream struct {
	m        mode
	k        keys
	seq0     uint32
	packets  [][]byte // wire bytes per packet
	payloads [][]byte
	orig     []byte
}

func buildStream(c *vf.Ctx, m mode, seq0 uint32, lens []int, keyClass int) (*stream, error) {
	s := &stream{m: m, k: m.keys(c, keyClass), seq0: seq0}
	w, err := m.newReal(s.k)
	if err != nil {
		return nil, err
	}
	rnd := vf.NewRand("pad/" + m.String())
	for i, l := range lens {
		p := c.Bytes(fmt.Sprint("payload/", len(lens), "/", i), l, l) // distinct contents per position
		var buf bytes.Buffer
		if err := w.WritePacket(seq0+uint32(i), &buf, rnd, p); err != nil {
			return nil, err
		}
		s.packets = append(s.packets, buf.Bytes())
		s.payloads = append(s.payloads, p)
		s.orig = append(s.orig, buf.Bytes()...)
	}
	return s, nil
}

// intactPackets is the number of original packets wholly inside the longest common prefix
// of the modified and the original stream.
func (s *stream) intactPackets(modified []byte) int {
	q := 0
	for q < len(modified) && q < len(s.orig) && modified[q] == s.orig[q] {
		q++
	}
	n, off := 0, 0
	for _, p := range s.packets {
		off += len(p)
		if off > q {
			break
		}
		n++
	}
	return n
}

// judge reads the modified stream and applies the invariant.
func (s *stream) judge(c *vf.Ctx, kind string, modified []byte, detail func() map[string]any) {
	if s.m.dead.Load() {
		c.Capped("mode " + s.m.String() + ": cases after its first violation skipped")
		return
	}
	before := c.Violations()
	defer func() {
		if c.Violations() != before {
			s.m.dead.Store(true)
		}
	}()
	c.Eval(1)
	c.Add("cases: "+kind, 1)
	fam := s.m.family()
	intact := s.intactPackets(modified)
	res := readAll(s.m, s.k, s.seq0, bytes.NewReader(modified), len(s.packets)+3)
	det := func(pos int, r result) map[string]any {
		d := detail()
		d["mode"], d["fault"], d["position"], d["intact_packets"], d["seq0"] = s.m.String(), kind, pos, intact, s.seq0
		d["stream_len"], d["orig_len"] = len(modified), len(s.orig)
		if r.err != nil {
			d["err"] = r.err.Error()
		}
		if r.panic != "" {
			d["panic"] = r.panic
		}
		return d
	}
	for pos, r := range res {
		switch {
		case r.panic != "":
			c.Violation("reader panics ("+kind+"): "+fam, det(pos, r))
			c.Outcome("panic")
			return
		case r.err != nil:
			if pos < intact {
				c.Outcome("error on an intact packet")
			} else {
				c.Outcome("error at the first modified position")
			}
		case pos >= intact:
			d := det(pos, r)
			d["returned"] = vf.Hex8(r.payload)
			if pos < len(s.payloads) && bytes.Equal(r.payload, s.payloads[pos]) {
				c.Violation("modified packet accepted ("+kind+"): "+fam, d)
			} else {
				c.Violation("reader returns a payload that was not written at that position ("+kind+"): "+fam, d)
			}
			c.Outcome("accepted modified data")
			return
		case !bytes.Equal(r.payload, s.payloads[pos]):
			d := det(pos, r)
			d["returned"] = vf.Hex8(r.payload)
			c.Violation("reader returns a wrong payload for an intact packet ("+kind+"): "+fam, d)
			return
		default:
			c.Outcome("intact packet returned")
		}
	}
}

// padBoundary selects the padding_length values adjacent to a comparison in any reader:
// 0..5 (minimum padding 4), l-3..l+2 (padding versus packet length), 8, 64, 128, 254, 255.
func padBoundary(pad, l int) bool {
	return pad <= 5 || pad == 8 || pad == 64 || pad == 128 || pad >= 254 || (pad >= l-3 && pad <= l+2)
}

func cat(parts ...[]byte) []byte {
	var out []byte
	for _, p := range parts {
		out = append(out, p...)
	}
	return out
}

func faults(c *vf.Ctx, m mode) {
	seqs := []uint32{1<<32 - 2, 3}
	mk := func(seq0 uint32, lens ...int) *stream {
		s, err := buildStream(c, m, seq0, lens, 0)
		if err != nil {
			c.Violation("writer fails: "+m.family(), map[string]any{"mode": m.String(), "lens": lens, "err": err.Error()})
			return nil
		}
		// sanity: the unmodified stream reads back (otherwise the fault results are vacuous)
		res := readAll(m, s.k, seq0, bytes.NewReader(s.orig), len(lens)+1)
		ok := len(res) == len(lens)+1 && res[len(lens)].err == io.EOF
		for i := 0; ok && i < len(lens); i++ {
			ok = res[i].err == nil && res[i].panic == "" && bytes.Equal(res[i].payload, s.payloads[i])
		}
		if !ok {
			c.Violation("unmodified stream does not read back: "+m.family(), map[string]any{"mode": m.String(), "lens": lens})
			return nil
		}
		return s
	}

	// (a) every single-bit flip of the first packet, for first-packet length x continuation
	firsts := []int{1, 20, 300}
	conts := [][]int{{}, {20}, {300, 1}}
	if c.Thorough {
		firsts = []int{1, 2, 7, 11, 20, 33, 300, 1100}
	}
	for _, f := range firsts {
		for ci, cont := range conts {
			s := mk(seqs[ci%2], append([]int{f}, cont...)...)
			if s == nil {
				return
			}
			n := len(s.packets[0])
			for bit := 0; bit < n*8; bit++ {
				mod := append([]byte{}, s.orig...)
				mod[bit/8] ^= 0x80 >> (bit % 8)
				s.judge(c, "bit flip in first packet", mod, func() map[string]any { return map[string]any{"bit": bit, "first_packet_len": n} })
			}
			c.Nontrivial(fmt.Sprintf("%s/bitflips/%d/%d", m, f, ci))
			if ci != 1 {
				continue
			}
			// (b) every byte replaced by its complement and by zero
			for i := 0; i < n; i++ {
				for _, v := range []byte{^s.orig[i], 0} {
					if v == s.orig[i] {
						continue
					}
					mod := append([]byte{}, s.orig...)
					mod[i] = v
					s.judge(c, "byte replaced in first packet", mod, func() map[string]any { return map[string]any{"byte": i, "value": v} })
				}
			}
			// (c) every pair of bit flips within the first 5 bytes (length, padding length)
			for a := 0; a < 40; a++ {
				for b := a + 1; b < 40; b++ {
					mod := append([]byte{}, s.orig...)
					mod[a/8] ^= 0x80 >> (a % 8)
					mod[b/8] ^= 0x80 >> (b % 8)
					s.judge(c, "two bit flips in the header", mod, func() map[string]any { return map[string]any{"bits": []int{a, b}} })
				}
			}
			c.Nontrivial(fmt.Sprintf("%s/bytes+pairs/%d", m, f))
		}
	}

	// (d) bit flips in every packet of an equal-length stream (state after packet 0, 1)
	if s := mk(seqs[0], 20, 20, 20); s != nil {
		for bit := 0; bit < len(s.orig)*8; bit++ {
			mod := append([]byte{}, s.orig...)
			mod[bit/8] ^= 0x80 >> (bit % 8)
			s.judge(c, "bit flip in any packet", mod, func() map[string]any { return map[string]any{"bit": bit} })
		}
		c.Nontrivial(fmt.Sprintf("%s/bitflips-all", m))
	}

	// (e) every truncation point
	for i, lens := range [][]int{{1, 20, 300}, {300, 20, 1}} {
		s := mk(seqs[i%2], lens...)
		if s == nil {
			return
		}
		for t := 0; t < len(s.orig); t++ {
			s.judge(c, "truncation", s.orig[:t], func() map[string]any { return map[string]any{"cut": t} })
		}
		c.Nontrivial(fmt.Sprintf("%s/truncation/%d", m, i))
	}

	// (f) every arrangement of the packets: all index sequences of length 0..n+1 over the n
	// original packets (contains every drop, duplication, permutation and their mixtures)
	arrStreams := [][]int{{20, 20, 20, 20}, {1, 20, 300, 20}, {20, 20, 20}, {300, 1, 20}, {20, 1}}
	if c.Thorough {
		arrStreams = append(arrStreams, []int{20, 20, 20, 20, 20}, []int{33, 1, 300, 20, 33})
	}
	for i, lens := range arrStreams {
		s := mk(seqs[i%2], lens...)
		if s == nil {
			return
		}
		n := len(lens)
		var rec func(arr []int)
		rec = func(arr []int) {
			identityPrefix := true
			for j, a := range arr {
				if a != j {
					identityPrefix = false
				}
			}
			if !(identityPrefix && len(arr) == n) { // the unmodified stream is not a fault
				var mod []byte
				for _, a := range arr {
					mod = append(mod, s.packets[a]...)
				}
				arrCopy := append([]int{}, arr...)
				s.judge(c, "packets rearranged (drop/duplicate/reorder)", mod, func() map[string]any { return map[string]any{"arrangement": arrCopy, "lens": lens} })
			}
			if len(arr) == n+1 {
				return
			}
			for a := 0; a < n; a++ {
				rec(append(arr, a))
			}
		}
		rec(nil)
		c.Nontrivial(fmt.Sprintf("%s/arrangements/%d", m, i))
	}

	// (g) injections at every packet boundary
	for i, lens := range [][]int{{20, 300, 1}, {1, 1}} {
		s := mk(seqs[i%2], lens...)
		if s == nil {
			return
		}
		blobs := map[string][]byte{"16 zero bytes": make([]byte, 16), "1 zero byte": {0}, "64 x 0xff": bytes.Repeat([]byte{0xff}, 64),
			"copy of packet 0": s.packets[0], "copy of last packet": s.packets[len(lens)-1], "first 8 bytes of packet 0": s.packets[0][:8]}
		off := 0
		for b := 0; b <= len(lens); b++ {
			for name, blob := range blobs {
				mod := cat(s.orig[:off], blob, s.orig[off:])
				s.judge(c, "injection at packet boundary", mod, func() map[string]any { return map[string]any{"boundary": b, "blob": name} })
			}
			if b < len(lens) {
				off += len(s.packets[b])
			}
		}
		c.Nontrivial(fmt.Sprintf("%s/injection/%d", m, i))
	}
	// (h) a long packet (payload 70000: several buffer sizes beyond every other stream here)
	// followed by a short one: both bits {0x80, 0x01} of the bytes at 0..8, 2^k-1, 2^k, 2^k+1
	// (k = 4..16) and of the last 70 bytes of the long packet (MAC/tag and padding) and every
	// byte of the short one; truncation at the same offsets.
	if s := mk(seqs[0], 70000, 20); s != nil {
		n := len(s.packets[0])
		pos := map[int]bool{}
		for i := 0; i <= 8; i++ {
			pos[i] = true
		}
		for k := 4; k <= 16; k++ {
			for d := -1; d <= 1; d++ {
				pos[1<<k+d] = true
			}
		}
		for i := n - 70; i < len(s.orig); i++ {
			pos[i] = true
		}
		for i := 0; i < len(s.orig); i++ {
			if !pos[i] {
				continue
			}
			for _, bit := range []byte{0x80, 0x01} {
				mod := append([]byte{}, s.orig...)
				mod[i] ^= bit
				s.judge(c, "bit flip in a long packet or its successor", mod, func() map[string]any { return map[string]any{"byte": i, "bit": bit, "first_packet_len": n} })
			}
			s.judge(c, "truncation of a long packet or its successor", s.orig[:i], func() map[string]any { return map[string]any{"cut": i, "first_packet_len": n} })
		}
		c.Nontrivial(fmt.Sprintf("%s/long-packet", m))
	}
	if c.WantSample() {
		c.Sample(map[string]any{"mode": m.String(), "faults": "bit flips, byte changes, header pairs, truncations, arrangements, injections"})
	}
}

// ---- part 2: totality ---------------------------------------------------------------

// crafter returns a model codec constructor whose well-formed packets the real reader
// accepts. For CBC with an -etm MAC the unchanged tree frames encrypt-and-MAC (a C25
// finding); the probe then selects the encrypt-and-MAC model so that this check can still
// build authentic packets for those modes.
func crafter(c *vf.Ctx, m mode, k keys) func() *sshpkt.Codec {
	cands := []string{m.mac}
	if m.spec.Kind == sshpkt.KindCBC && strings.HasSuffix(m.mac, etmSuffix) {
		cands = append(cands, strings.TrimSuffix(m.mac, etmSuffix))
	}
	for _, mac := range cands {
		mk := func() *sshpkt.Codec {
			cd, err := sshpkt.New(m.cipher, mac, k.key, k.iv, k.macKey)
			if err != nil {
				panic(err)
			}
			return cd
		}
		cd := mk()
		payload := []byte("well-formed")
		padLen := 8
		unit := 1 + len(payload) + padLen
		if !cd.LengthInClearOrSeparate() {
			unit += 4
		}
		for unit%cd.Alignment() != 0 {
			padLen++
			unit++
		}
		body := sshpkt.Frame(payload, make([]byte, padLen))
		wire, err := cd.Seal(9, uint32(len(body)), body)
		if err != nil {
			continue
		}
		res := readAll(m, k, 9, bytes.NewReader(wire), 1)
		if len(res) == 1 && res[0].err == nil && res[0].panic == "" && bytes.Equal(res[0].payload, payload) {
			return mk
		}
	}
	c.Violation("reader rejects a well-formed authentic packet built by the independent model: "+m.family(), map[string]any{"mode": m.String()})
	return nil
}

// prefix is a history for part 2 (non-initial reader state): one valid packet with a
// 1500-byte payload, sealed by the model with sequence number 8, and the model codec in the
// state after it. A reader that has read it holds a buffer larger than any crafted packet
// that follows (the reslice path instead of the allocate path).
type prefix struct {
	wire, payload []byte
	cd            *sshpkt.Codec
}

func buildPrefix(c *vf.Ctx, mk func() *sshpkt.Codec) *prefix {
	cd := mk()
	payload := c.Bytes("hist-payload", 0, 1500)
	padLen := 4
	unit := 1 + len(payload) + padLen
	if !cd.LengthInClearOrSeparate() {
		unit += 4
	}
	for unit%cd.Alignment() != 0 {
		padLen++
		unit++
	}
	body := sshpkt.Frame(payload, c.Bytes("hist-pad", 0, padLen))
	wire, err := cd.Seal(8, uint32(len(body)), body)
	if err != nil {
		return nil
	}
	return &prefix{wire: wire, payload: payload, cd: cd}
}

// totality runs in two phases. Phase 0 (guard) is cheap and decides whether the reader
// enforces maxPacket at all: authentic complete packets just above maxPacket and headers
// declaring up to 2^24 bytes on an endless stream. Only if it passes are the remaining
// cases (which include length fields up to 2^32-1, i.e. multi-gigabyte allocations in a
// reader without the bound) run for this mode. It reports whether no violation was seen.
func totality(c *vf.Ctx, m mode, phase int) bool {
	clean := true
	fam := m.family()
	k := m.keys(c, 1)
	legalMax := 4 + maxPacket + 64 // no legal packet is longer than this on the wire

	viol := func(class string, detail any) {
		clean = false
		m.dead.Store(true)
		c.Violation(class, detail)
	}
	var pre *prefix // when set, src starts with pre.wire (a valid packet with sequence number 8)
	check := func(kind string, src *budgetReader, declared uint32, body []byte, authentic bool, detail map[string]any) {
		if m.dead.Load() {
			c.Capped("mode " + m.String() + ": cases after its first violation skipped")
			return
		}
		c.Eval(1)
		c.Add("cases: "+kind, 1)
		detail["mode"], detail["case"], detail["declared_length"] = m.String(), kind, declared
		skip := 0
		var res []result
		if pre == nil {
			res = readAll(m, k, 9, src, 1)
		} else {
			skip = len(pre.wire)
			res = readAll(m, k, 8, src, 2)
			if len(res) < 2 || res[0].err != nil || res[0].panic != "" || !bytes.Equal(res[0].payload, pre.payload) {
				detail["err"], detail["panic"] = fmt.Sprint(res[0].err), res[0].panic
				viol("reader fails on the well-formed authentic packet that precedes the case: "+fam, detail)
				return
			}
			res = res[1:]
		}
		r := res[0]
		if r.err != nil {
			detail["err"] = r.err.Error()
		}
		if r.panic != "" {
			detail["panic"] = r.panic
			viol("reader panics ("+kind+"): "+fam, detail)
			c.Outcome("panic")
			return
		}
		if src.consumed > legalMax+skip || errors.Is(r.err, errBudget) {
			detail["consumed"] = src.consumed
			viol("reader keeps consuming beyond the largest legal packet ("+kind+"): "+fam, detail)
			return
		}
		if r.err != nil {
			c.Outcome("error: " + fam)
			return
		}
		detail["returned"] = vf.Hex8(r.payload)
		if declared > maxPacket {
			viol("declared length above maxPacket accepted ("+kind+"): "+fam, detail)
			return
		}
		if !authentic && !m.none {
			viol("reader returns a payload from a stream no writer produced ("+kind+"): "+fam, detail)
			return
		}
		// a returned payload must be what the framing says
		if m.none {
			// without encryption the packet is the first 4+declared bytes of the stream itself
			full := append([]byte{}, src.data[skip:]...)
			if src.endless && len(full) < 4+int(declared) {
				full = append(full, make([]byte, 4+int(declared)-len(full))...)
			}
			if len(full) < 4+int(declared) {
				viol("payload returned from an incomplete packet ("+kind+"): "+fam, detail)
				return
			}
			body = full[4 : 4+int(declared)]
		}
		pl, _, err := sshpkt.Unframe(body)
		if err != nil || !bytes.Equal(pl, r.payload) {
			viol("returned payload is not padding_length-delimited part of the packet ("+kind+"): "+fam, detail)
			return
		}
		c.Outcome("payload: " + fam)
	}

	if phase == 1 {
		// (a) short streams: all 1-byte streams, and all streams of 0..4 bytes over an alphabet
		alpha := []byte{0x00, 0x01, 0x7f, 0x80, 0xff}
		var shorts [][]byte
		for v := 0; v < 256; v++ {
			shorts = append(shorts, []byte{byte(v)})
		}
		var gen func(cur []byte)
		gen = func(cur []byte) {
			shorts = append(shorts, append([]byte{}, cur...))
			if len(cur) == 4 {
				return
			}
			for _, a := range alpha {
				gen(append(cur, a))
			}
		}
		gen(nil)
		for _, sbytes := range shorts {
			check("short stream", &budgetReader{data: sbytes}, 0, nil, false, map[string]any{"stream": fmt.Sprintf("%x", sbytes)})
		}
		c.Nontrivial(fmt.Sprintf("%s/short-streams", m))

	}
	mk := crafter(c, m, k)
	if mk == nil {
		return false
	}
	probe := mk()
	var hist *prefix
	if phase == 1 {
		if hist = buildPrefix(c, mk); hist == nil {
			viol("harness: model cannot seal the history packet", map[string]any{"mode": m.String()})
			return false
		}
	}
	sealable := func(l int) bool { // CBC can only carry whole blocks
		if m.spec.Kind != sshpkt.KindCBC {
			return true
		}
		if probe.LengthInClearOrSeparate() {
			return l%m.spec.Block == 0 && l > 0
		}
		return (4+l)%m.spec.Block == 0
	}

	// (b) authentic packets, every padding_length x small packet_length
	var smalls []int
	for l := 0; phase == 1 && l <= 44; l++ {
		smalls = append(smalls, l)
	}
	if phase == 1 {
		// 1100, 1104: larger than the 1024-byte buffer a CBC reader starts with (grow-and-copy path)
		smalls = append(smalls, 60, 124, 252, 254, 255, 256, 257, 258, 260, 268, 300, 1100, 1104)
	}
	for _, l := range smalls {
		if !sealable(l) {
			continue
		}
		for pad := 0; pad < 256; pad++ {
			if l == 0 && pad > 0 {
				break
			}
			if !c.Thorough && l > 33 && !padBoundary(pad, l) {
				continue // quick: for longer packets only the padding_length values next to a bound
			}
			body := c.Bytes("craft-body", l, l)
			if l > 0 {
				body[0] = byte(pad)
			}
			wire, err := mk().Seal(9, uint32(l), body)
			if err != nil {
				viol("harness: model cannot seal", map[string]any{"mode": m.String(), "len": l, "err": err.Error()})
				return false
			}
			check("authentic packet with arbitrary padding_length", &budgetReader{data: wire}, uint32(l), body, true, map[string]any{"packet_length": l, "padding_length": pad})
			// the same packet read by a reader that has read a larger valid packet before
			if c.Thorough || padBoundary(pad, l) {
				if wire2, err := hist.cd.Clone().Seal(9, uint32(l), body); err == nil {
					pre = hist
					check("authentic packet with arbitrary padding_length, after a larger valid packet", &budgetReader{data: cat(hist.wire, wire2)}, uint32(l), body, true, map[string]any{"packet_length": l, "padding_length": pad})
					pre = nil
				}
			}
			// the same packet followed by an endless stream: nothing beyond it may be needed
			if pad%51 == 0 {
				check("authentic packet with arbitrary padding_length, endless stream", &budgetReader{data: wire, endless: true, budget: legalMax + 1}, uint32(l), body, true, map[string]any{"packet_length": l, "padding_length": pad})
			}
		}
		c.Nontrivial(fmt.Sprintf("%s/authentic-malformed/%d", m, l))
	}

	// (c) declared length around and above maxPacket, authentic and complete
	for _, l := range []int{maxPacket + 1, maxPacket + 2, maxPacket + 4, maxPacket + 8, maxPacket + 12, maxPacket + 16, maxPacket + 28, maxPacket + 32, 2 * maxPacket} {
		if phase != 0 {
			break
		}
		if !sealable(l) {
			continue
		}
		body := sshpkt.Frame(c.Bytes("big-payload", l, l-1-8), make([]byte, 8))
		wire, err := mk().Seal(9, uint32(l), body)
		if err != nil {
			viol("harness: model cannot seal", map[string]any{"mode": m.String(), "len": l, "err": err.Error()})
			return false
		}
		check("authentic complete packet with packet_length above maxPacket", &budgetReader{data: wire}, uint32(l), body, true, map[string]any{"packet_length": l})
		check("authentic complete packet with packet_length above maxPacket, endless stream", &budgetReader{data: wire, endless: true, budget: legalMax + 1}, uint32(l), body, true, map[string]any{"packet_length": l})
		c.Nontrivial(fmt.Sprintf("%s/oversize/%d", m, l))
	}

	// (d) header says L (every boundary value) x every padding_length, followed by a short
	// body, by nothing, or by an endless stream
	headerLens := []uint32{0, 1, 2, 3, 4, 5, 11, 12, 15, 16, 17, 27, 28, 29, 31, 32, 33, 255, 256, 256 + 28, 256 + 32, 65535, 65536, 65536 + 28, 65536 + 32, 1<<17 + 28, 1<<17 + 32,
		maxPacket - 4, maxPacket - 1, maxPacket, maxPacket + 1, maxPacket + 12, maxPacket + 16,
		1 << 20, 1<<24 - 4, 1<<31 - 1, 1 << 31, 1<<31 + 12, 1<<32 - 68, 1<<32 - 64, 1<<32 - 33, 1<<32 - 32, 1<<32 - 20, 1<<32 - 16, 1<<32 - 12, 1<<32 - 4, 1<<32 - 2, 1<<32 - 1}
	if phase == 0 {
		headerLens = []uint32{maxPacket + 1, maxPacket + 4, maxPacket + 12, maxPacket + 16, 2 * maxPacket, 1 << 20, 1<<24 - 4}
	}
	for _, l := range headerLens {
		for pad := 0; pad < 256; pad++ {
			if phase == 0 && pad != 8 {
				continue
			}
			if phase == 1 && !c.Thorough && l > 33 && !padBoundary(pad, 32) {
				continue
			}
			short := make([]byte, 28) // 4+28 = whole blocks for every cipher
			if probe.LengthInClearOrSeparate() {
				short = make([]byte, 32)
			}
			short[0] = byte(pad)
			wire, err := mk().Seal(9, l, short)
			if err != nil {
				viol("harness: model cannot seal", map[string]any{"mode": m.String(), "len": l, "err": err.Error()})
				return false
			}
			d := func() map[string]any { return map[string]any{"padding_length": pad} }
			authentic := int(l) == len(short)
			check("header with boundary length, short body", &budgetReader{data: wire}, l, short, authentic, d())
			if pad%64 == 0 || pad == 255 || phase == 0 {
				check("header with boundary length, prefix only", &budgetReader{data: wire[:5]}, l, short, false, d())
				check("header with boundary length, endless stream", &budgetReader{data: wire, endless: true, budget: legalMax + 1}, l, short, authentic, d())
			}
		}
		c.Nontrivial(fmt.Sprintf("%s/header-length/%d/%d", m, phase, l))
	}
	// (e) declared-length sweep: the first cipher block / header is encrypted WITH the key
	// by the model so that the reader sees exactly the declared packet_length L, for every
	// L in 5..260 (every residue modulo 8, 16 and 32 several times) and maxPacket-33..
	// maxPacket+33, with the padding_length classes next to every bound. L need not match the
	// bytes that follow (so in general the packet is NOT authentic): the declared length alone
	// drives how much is read, sliced and handed to the block cipher before the MAC can be
	// looked at. Followed by enough bytes (seeded, then endless zeros) or cut off everywhere.
	if phase == 1 {
		bodyLen := 60 // 4+60 whole blocks of 8 and 16
		if probe.LengthInClearOrSeparate() {
			bodyLen = 64
		}
		var sweep []int
		for l := 5; l <= 260; l++ {
			sweep = append(sweep, l)
		}
		for l := maxPacket - 33; l <= maxPacket+33; l++ {
			sweep = append(sweep, l)
		}
		for _, l := range sweep {
			big := l > 260
			padSet := []int{0, 3, 4, 5, l - 2, l - 1, l, 255}
			if big {
				padSet = []int{0, 4, 8, 255}
			}
			seen := map[int]bool{}
			for _, pad := range padSet {
				if pad < 0 || pad > 255 || seen[pad] {
					continue
				}
				seen[pad] = true
				body := c.Bytes("sweep-body", l, bodyLen)
				body[0] = byte(pad)
				wire, err := mk().Seal(9, uint32(l), body)
				if err != nil {
					viol("harness: model cannot seal", map[string]any{"mode": m.String(), "len": l, "err": err.Error()})
					return false
				}
				authentic := l == bodyLen
				d := func() map[string]any { return map[string]any{"padding_length": pad, "crafted_body_len": bodyLen} }
				check("declared-length sweep, endless stream", &budgetReader{data: wire, endless: true, budget: legalMax + 1}, uint32(l), body, authentic, d())
				if big {
					continue
				}
				full := cat(wire, c.Bytes("sweep-tail", l, l+64+40))
				check("declared-length sweep, enough seeded bytes then EOF", &budgetReader{data: full}, uint32(l), body, authentic, d())
				if wire2, err := hist.cd.Clone().Seal(9, uint32(l), body); err == nil {
					pre = hist
					check("declared-length sweep, after a larger valid packet", &budgetReader{data: cat(hist.wire, wire2, c.Bytes("sweep-tail", l, l+64+40))}, uint32(l), body, authentic, d())
					pre = nil
				}
				// EOF at every short cut-off (quick: one padding class, L <= 68 covers every residue mod 32 twice)
				if pad == 4 && (c.Thorough || l <= 68) {
					limit := 4 + l + probe.TagSize() + 8
					if limit > len(full) {
						limit = len(full)
					}
					for t := 0; t < limit; t++ {
						check("declared-length sweep, cut off", &budgetReader{data: full[:t]}, uint32(l), body, authentic && t >= len(wire), map[string]any{"padding_length": pad, "cut": t})
					}
				}
			}
			c.Nontrivial(fmt.Sprintf("%s/length-sweep/%d", m, l))
		}
	}
	// (f) encrypt-then-MAC specific faults (stream and CBC ciphers with an -etm MAC): the
	// length is in the clear and the MAC covers seq || length || ciphertext and is verified
	// before anything is decrypted, so a packet can carry a VALID MAC for any length field and
	// any ciphertext. Built with the key through the model's raw primitives.
	if phase == 1 && probe.HasMAC && probe.MAC.ETM {
		isCBC := m.spec.Kind == sshpkt.KindCBC
		align := probe.Alignment()
		be := func(v int) []byte { return []byte{byte(v >> 24), byte(v >> 16), byte(v >> 8), byte(v)} }
		var ls []int
		for l := 0; l <= 100; l++ {
			ls = append(ls, l)
		}
		for l := maxPacket - 17; l <= maxPacket+17; l++ {
			ls = append(ls, l)
		}
		tail := c.Bytes("etm-tail", 0, 96)
		for _, l := range ls {
			padSet := []int{0, 3, 4, 5, l - 2, l - 1, l, 255}
			if l > 100 {
				padSet = []int{4, 255}
			}
			seen := map[int]bool{}
			for _, pad := range padSet {
				if pad < 0 || pad > 255 || seen[pad] {
					continue
				}
				seen[pad] = true
				n := (l + 15) / 16 * 16
				if n == 0 {
					n = 16
				}
				body := c.Bytes("etm-body", l, n)
				body[0] = byte(pad)
				cd := mk()
				ct, err := cd.EncryptRaw(body)
				if err != nil {
					viol("harness: model cannot encrypt", map[string]any{"mode": m.String(), "err": err.Error()})
					return false
				}
				ct = ct[:l]
				// (f1) valid MAC over the clear length and exactly l ciphertext bytes. For CBC this
				// is a real packet only if l is a non-empty multiple of max(8, block size);
				// otherwise the reader must refuse it although the MAC is valid.
				wellFormed := l >= 1 && (!isCBC || l%align == 0)
				wire := cat(be(l), ct, cd.ComputeMAC(9, be(l), ct))
				check("EtM: valid MAC over clear length and ciphertext, every length", &budgetReader{data: cat(wire, tail)}, uint32(l), body[:l], wellFormed,
					map[string]any{"padding_length": pad, "well_formed": wellFormed})
				if l <= 100 {
					cd2 := hist.cd.Clone()
					if ct2, err := cd2.EncryptRaw(body); err == nil {
						ct2 = ct2[:l]
						pre = hist
						check("EtM: valid MAC over clear length and ciphertext, after a larger valid packet", &budgetReader{data: cat(hist.wire, be(l), ct2, cd2.ComputeMAC(9, be(l), ct2), tail)}, uint32(l), body[:l], wellFormed,
							map[string]any{"padding_length": pad, "well_formed": wellFormed})
						pre = nil
					}
				}
				if l > 100 || pad != 4 {
					continue
				}
				// (f3) the MAC computed over the wrong input
				for name, mac := range map[string][]byte{
					"MAC over plaintext instead of ciphertext": cd.ComputeMAC(9, be(l), body[:l]),
					"MAC without the length field":             cd.ComputeMAC(9, ct),
					"MAC with the next sequence number":        cd.ComputeMAC(10, be(l), ct),
					"MAC over ciphertext of the length field":  cd.ComputeMAC(9, ct[:min(4, l)], ct),
				} {
					check("EtM: "+name, &budgetReader{data: cat(be(l), ct, mac, tail)}, uint32(l), body[:l], false, map[string]any{"padding_length": pad})
				}
			}
			c.Nontrivial(fmt.Sprintf("%s/etm-valid-mac/%d", m, l))
		}
		// (f2) the clear length field of an authentic packet altered, MAC left alone
		{
			body := c.Bytes("etm-body2", 0, 48)
			body[0] = 8
			cd := mk()
			ct, _ := cd.EncryptRaw(body)
			mac := cd.ComputeMAC(9, be(48), ct)
			for _, l := range ls {
				if l == 48 {
					continue
				}
				check("EtM: length field altered, MAC not recomputed", &budgetReader{data: cat(be(l), ct, mac, tail), endless: l > 100, budget: legalMax + 1}, uint32(l), body, false, map[string]any{"original_length": 48})
			}
			c.Nontrivial(fmt.Sprintf("%s/etm-length-altered", m))
		}
		// (f4) a complete encrypt-and-MAC packet (RFC 4253 framing, same keys and HMAC) fed to
		// the encrypt-then-MAC reader
		if plain := strings.TrimSuffix(m.mac, etmSuffix); plain != m.mac {
			if em, err := sshpkt.New(m.cipher, plain, k.key, k.iv, k.macKey); err == nil {
				for _, n := range []int{12, 28, 44, 60, 252} {
					body := sshpkt.Frame(c.Bytes("etm-em", n, n-1-6), make([]byte, 6))
					wire, err := em.Seal(9, uint32(n), body)
					if err != nil {
						continue
					}
					em, _ = sshpkt.New(m.cipher, plain, k.key, k.iv, k.macKey)
					check("EtM: encrypt-and-MAC framed packet", &budgetReader{data: cat(wire, tail), endless: true, budget: legalMax + 1}, 0, body, false, map[string]any{"em_packet_length": n})
				}
				c.Nontrivial(fmt.Sprintf("%s/etm-vs-em", m))
			}
		}
	}
	if phase == 1 && c.WantSample() {
		c.Sample(map[string]any{"mode": m.String(), "totality": "short streams, authentic malformed packets, oversize declared lengths"})
	}
	return clean
}

func run(c *vf.Ctx) {
	c.Rule("part 1, every authenticated cipher x MAC pair: real-writer streams of 1..4 packets (payload lengths from {1,20,300}; thorough: first packet {1,2,7,11,20,33,300,1100} and 5-packet arrangements) x {every single-bit flip of the first packet (9 stream shapes) and of every packet of an equal-length stream, " +
		"every byte complemented/zeroed, every pair of bit flips in the 5 header bytes, every truncation point, every arrangement (index sequences of length 0..n+1 over n<=4 packets: all drops, duplications, reorders), 6 injected blobs at every packet boundary, a 70000-byte packet + successor with bits {0x80,0x01} flipped and truncation at bytes 0..8, 2^k-1..2^k+1 (k=4..16), the last 70 bytes and every byte of the successor}; the caller overwrites every slice readCipherPacket returned before the next read; " +
		"part 2, every mode incl. none: all 1-byte streams + all streams of <=4 bytes over {00,01,7f,80,ff}; model-sealed AUTHENTIC packets with every padding_length 0..255 x packet_length {0..33} and boundary padding_lengths (all 256 in thorough) x packet_length {34..44,60,124,252..300,1100,1104}, each boundary case also on a reader that has just read a valid 1500-byte packet (non-initial state, larger buffer), likewise the declared-length sweep and the EtM valid-MAC cases; authentic complete packets with packet_length maxPacket+{1,2,4,8,12,16,28,32}, 2*maxPacket; " +
		"declared-length sweep (first block/header encrypted with the key by the model): every packet_length 5..260 and maxPacket-33..maxPacket+33 x padding_length {0,3,4,5,L-2,L-1,L,255} followed by seeded bytes+EOF, endless zeros, and EOF at every cut-off; 48 boundary length fields (0..2^32-1, incl. 255, 256, 2^16-1, 2^16, 2^16+28/32, 2^17+28/32) x every padding_length (boundary values for lengths > 33 in quick) with short body / prefix only / endless stream. non-trivial = distinct (mode, fault family, stream shape) actually executed on the real reader; " +
		"oracle = invariant (payload only for positions whose bytes are untouched, equal to the written payload; error otherwise; never a panic; never more bytes consumed than the largest legal packet)")
	c.Assume("verif/ref/sshpkt (KAT-validated) is used only to build authentic test packets; a reader is discarded after its first error, as the transport does; a MAC collision on the enumerated inputs is excluded")

	ms := modes(c)
	c.Set("modes_including_none", len(ms))
	// guard phase: is maxPacket enforced at all? (see totality)
	safe := make([]bool, len(ms))
	c.ParallelFor(len(ms), func(i int) { safe[i] = totality(c, ms[i], 0) })
	type job struct {
		m    mode
		part int
	}
	var jobs []job
	for i, m := range ms {
		if !safe[i] {
			// already a violation; the remaining cases would make this reader allocate gigabytes
			c.Capped("mode " + m.String() + " failed the maxPacket guard phase; remaining cases skipped for it")
			continue
		}
		if !m.none {
			jobs = append(jobs, job{m, 1})
		}
		jobs = append(jobs, job{m, 2})
	}
	c.ParallelFor(len(jobs), func(i int) {
		if jobs[i].part == 1 {
			faults(c, jobs[i].m)
		} else {
			totality(c, jobs[i].m, 1)
		}
	})
}
