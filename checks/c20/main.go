// C20: OpenPGP S2K derives the RFC 4880 section 3.7.1 keys.
//
// Grid on the real openpgp/s2k package against verif/ref/s2kref (written from the RFC,
// KAT-validated against libgcrypt's gcry_kdf_derive):
//
//	specifier type {simple, salted, iterated+salted} x hash {MD5, SHA-1, RIPEMD-160,
//	SHA-224/256/384/512} x ALL 256 coded count octets x key length {1, hLen, hLen+1,
//	2*hLen+1, 64} x passphrase length {0, 1, 8, 100}
//
// through s2k.Parse + returned function, through the direct functions s2k.Simple /
// Salted / Iterated (also with raw counts around multiples of len(salt||passphrase)), and
// through s2k.Serialize (coded count for S2KCount at both sides of every representable
// value, header layout, derived key, parse-back to the same function).
package main

import (
	"bytes"
	"crypto"
	_ "crypto/md5"
	_ "crypto/sha1"
	_ "crypto/sha256"
	_ "crypto/sha512"
	"fmt"
	"sort"
	"time"

	"golang.org/x/crypto/openpgp/s2k"
	_ "golang.org/x/crypto/ripemd160"
	"verif/ref/s2kref"
	"verif/vf"
)

func main() { vf.Main("C20", vf.Exploration, run) }

type combo struct{ kl, pl int }

type hashInfo struct {
	alg  s2kref.Alg
	real crypto.Hash
}

// the real package's crypto.Hash for each OpenPGP hash identifier, stated from RFC 4880
// section 9.4 (not read from the package's table)
var hashes = []hashInfo{
	{mustAlg(1), crypto.MD5},
	{mustAlg(2), crypto.SHA1},
	{mustAlg(3), crypto.RIPEMD160},
	{mustAlg(8), crypto.SHA256},
	{mustAlg(9), crypto.SHA384},
	{mustAlg(10), crypto.SHA512},
	{mustAlg(11), crypto.SHA224},
}

func mustAlg(id byte) s2kref.Alg {
	a, ok := s2kref.AlgByID(id)
	if !ok {
		panic("no model hash")
	}
	return a
}

var passLens = []int{0, 1, 8, 100}

func keyLens(hLen int) []int {
	seen := map[int]bool{}
	var out []int
	for _, k := range []int{1, hLen, hLen + 1, 2*hLen + 1, 64} {
		if !seen[k] {
			seen[k] = true
			out = append(out, k)
		}
	}
	return out
}

func fullCombos(hLen int) []combo {
	var out []combo
	for _, kl := range keyLens(hLen) {
		for _, pl := range passLens {
			out = append(out, combo{kl, pl})
		}
	}
	return out
}

// item is one parsed specifier with the (key length, passphrase length) points evaluated
// on the SAME returned function (so that hash-state reuse between calls is exercised).
type item struct {
	hi     int
	typ    byte
	coded  int
	combos []combo
	direct bool // also call the direct function s2k.Simple/Salted/Iterated
	cost   int
}

func run(c *vf.Ctx) {
	c.Rule("full grid type{simple,salted,iterated} x 7 hashes x all 256 coded counts x keyLen{1,hLen,hLen+1,2hLen+1,64} x passLen{0,1,8,100} " +
		"for coded counts below the tier's full-grid limit (quick 128, thorough 224), above it every coded count with a reduced (keyLen,passLen) set " +
		"(rotating with the count octet; a multi-context key for every count octet below 192, every fourth one in 192..223 and one or two per hash in 224..255, which hash up to 65 MB per context: one key size, one passphrase); " +
		"direct functions on the same grid plus raw counts k*unit-1, k*unit, k*unit+1; Serialize for S2KCount at v-1,v,v+1 of every representable v x 7 hashes; " +
		"non-trivial = distinct (type,hash,count,keyLen,passLen) whose key needs >= 2 hash contexts or whose iterated stream ends inside a salt||passphrase unit; " +
		"oracle = verif/ref/s2kref (RFC 4880 3.7.1 model, validated against libgcrypt gcry_kdf_derive and python hashlib)")
	c.Assume("crypto/md5, sha1, sha256, sha512 are correct hashes (both sides use them); RIPEMD-160 comes from verif/ref/rmd160ref for messages up to 128 KiB and from x/crypto/ripemd160 beyond (RIPEMD-160 itself is property C-ripemd's subject)")
	c.Assume("salt and passphrase VALUES are seeded (shape space is fixed); Serialize rounds S2KCount up to the next representable count and clamps to [1024, 65011712] as its documentation states")

	fullLimit := 128
	if c.Thorough {
		fullLimit = 224
	}

	var items []item
	for hi, h := range hashes {
		hLen := h.alg.Len
		full := fullCombos(hLen)
		items = append(items, item{hi: hi, typ: s2kref.Simple, combos: full, direct: true})
		items = append(items, item{hi: hi, typ: s2kref.Salted, combos: full, direct: true})
		for cc := 0; cc < 256; cc++ {
			it := item{hi: hi, typ: s2kref.Iterated, coded: cc}
			switch {
			case cc < fullLimit:
				it.combos = full
				it.direct = cc < 128
			case cc < 224:
				// reduced: one key length and one passphrase length, rotating with cc; a multi-context
				// key for every count octet below 192 and for every fourth one above
				kl := hLen + 1
				if cc%4 == 1 || c.Thorough && cc%2 == 1 {
					kl = 2*hLen + 1 // third context
				} else if cc >= 192 && !c.Thorough {
					kl = hLen
				}
				pl := passLens[(cc/2)%4]
				it.combos = []combo{{kl, pl}}
				if c.Thorough {
					it.combos = append(it.combos, combo{hLen, passLens[(cc/2+1)%4]})
				}
			default:
				// 16..65 MB per hash context: one key size and one passphrase only
				kl := hLen
				if c.Thorough || cc == 224+hi || cc == 255-hi && hi < 2 {
					kl = hLen + 1 // second context (one zero octet preloaded) with a huge count
				}
				it.combos = []combo{{kl, 8}}
			}
			for _, cb := range it.combos {
				ctx := (cb.kl + hLen - 1) / hLen
				it.cost += ctx * s2kref.Count(byte(cc))
			}
			items = append(items, it)
		}
	}
	// most expensive first, so that the tail of the parallel loop is short
	sort.SliceStable(items, func(i, j int) bool { return items[i].cost > items[j].cost })

	t0 := time.Now()
	c.ParallelFor(len(items), func(i int) { runItem(c, i, items[i]) })
	c.Set("phase_s_grid", time.Since(t0).Seconds())
	t0 = time.Now()
	directRawCounts(c)
	c.Set("phase_s_raw", time.Since(t0).Seconds())
	t0 = time.Now()
	serializeGrid(c)
	c.Set("phase_s_serialize", time.Since(t0).Seconds())
	parseRejects(c)
}

func specFor(c *vf.Ctx, it item) s2kref.Spec {
	sp := s2kref.Spec{Type: it.typ, Hash: hashes[it.hi].alg.ID, Coded: byte(it.coded)}
	copy(sp.Salt[:], c.Bytes(fmt.Sprintf("salt/%d/%d", it.typ, it.hi), it.coded, 8))
	return sp
}

func runItem(c *vf.Ctx, idx int, it item) {
	h := hashes[it.hi]
	sp := specFor(c, it)
	enc := sp.Encode()
	tail := []byte{0xA5, 0x5A, 0xC3}
	rd := bytes.NewReader(append(append([]byte{}, enc...), tail...))
	var f func(out, in []byte)
	var err error
	where := map[string]any{"type": it.typ, "hash": h.alg.Name, "coded_count": it.coded, "specifier": fmt.Sprintf("%x", enc)}
	if p, v, st := vf.Protect(func() { f, err = s2k.Parse(rd) }); p {
		c.Violation("Parse panics on a valid specifier", map[string]any{"at": where, "panic": fmt.Sprint(v), "stack": st})
		return
	}
	if err != nil || f == nil {
		c.Violation(fmt.Sprintf("Parse rejects a valid specifier (type %d)", it.typ), map[string]any{"at": where, "err": fmt.Sprint(err)})
		return
	}
	if rd.Len() != len(tail) {
		c.Violation(fmt.Sprintf("Parse consumes a wrong number of octets (type %d)", it.typ), map[string]any{"at": where, "left": rd.Len(), "want_left": len(tail)})
	}
	typeName := map[byte]string{0: "simple", 1: "salted", 3: "iterated"}[it.typ]
	for _, cb := range it.combos {
		pass := c.Bytes("pass", it.hi*1000+it.coded, cb.pl)
		passCopy := append([]byte{}, pass...)
		want := s2kref.Derive(sp, pass, cb.kl)
		got := make([]byte, cb.kl)
		if p, v, st := vf.Protect(func() { f(got, pass) }); p {
			c.Violation("derivation function panics", map[string]any{"at": where, "keyLen": cb.kl, "passLen": cb.pl, "panic": fmt.Sprint(v), "stack": st})
			continue
		}
		c.Eval(1)
		ctxs := (cb.kl + h.alg.Len - 1) / h.alg.Len
		unit := 8 + cb.pl
		partial := it.typ == s2kref.Iterated && s2kref.Count(byte(it.coded))%unit != 0 && s2kref.Count(byte(it.coded)) > unit
		if ctxs >= 2 || partial {
			c.Nontrivial(fmt.Sprintf("%s/%s/%d/%d/%d", typeName, h.alg.Name, it.coded, cb.kl, cb.pl))
		}
		c.Outcome(fmt.Sprintf("%s ctx=%d", typeName, ctxs))
		if !bytes.Equal(got, want) {
			c.Violation(fmt.Sprintf("Parse+derive != RFC 4880 key (%s, contexts=%d)", typeName, min(ctxs, 3)),
				map[string]any{"at": where, "keyLen": cb.kl, "passLen": cb.pl, "count": s2kref.Count(byte(it.coded)), "got": fmt.Sprintf("%x", got), "want": fmt.Sprintf("%x", want)})
		}
		if !bytes.Equal(pass, passCopy) {
			c.Violation("derivation modifies the passphrase", where)
		}
		if it.direct {
			got2 := make([]byte, cb.kl)
			hh := h.real.New()
			if p, v, st := vf.Protect(func() {
				switch it.typ {
				case s2kref.Simple:
					s2k.Simple(got2, hh, pass)
				case s2kref.Salted:
					s2k.Salted(got2, hh, pass, sp.Salt[:])
				case s2kref.Iterated:
					s2k.Iterated(got2, hh, pass, sp.Salt[:], s2kref.Count(byte(it.coded)))
				}
			}); p {
				c.Violation("direct function panics", map[string]any{"at": where, "panic": fmt.Sprint(v), "stack": st})
				continue
			}
			c.Eval(1)
			if !bytes.Equal(got2, want) {
				c.Violation(fmt.Sprintf("direct %s != RFC 4880 key (contexts=%d)", typeName, min(ctxs, 3)),
					map[string]any{"at": where, "keyLen": cb.kl, "passLen": cb.pl, "got": fmt.Sprintf("%x", got2), "want": fmt.Sprintf("%x", want)})
			}
		}
		if c.WantSample() && ctxs >= 2 && it.typ == s2kref.Iterated {
			c.Sample(map[string]any{"specifier": fmt.Sprintf("%x", enc), "hash": h.alg.Name, "count": s2kref.Count(byte(it.coded)), "keyLen": cb.kl, "passLen": cb.pl, "key": fmt.Sprintf("%x", got)})
		}
	}
	// the returned function is reusable: the first point again after all the others
	if len(it.combos) > 1 && it.cost < 1<<22 {
		cb := it.combos[0]
		pass := c.Bytes("pass", it.hi*1000+it.coded, cb.pl)
		got := make([]byte, cb.kl)
		f(got, pass)
		c.Eval(1)
		if !bytes.Equal(got, s2kref.Derive(sp, pass, cb.kl)) {
			c.Violation("derivation function not repeatable", where)
		}
	}
}

// directRawCounts: s2k.Iterated with counts that are not decoded count octets: below,
// at and above whole multiples of len(salt||passphrase), including count < unit (whole
// unit hashed once) and count 0; salts of other lengths for Salted/Iterated.
func directRawCounts(c *vf.Ctx) {
	type pt struct {
		hi, sl, pl, kl, count int
	}
	var pts []pt
	for hi, h := range hashes {
		for _, sl := range []int{0, 8, 13} {
			for _, pl := range passLens {
				unit := sl + pl
				if unit == 0 {
					continue
				}
				seen := map[int]bool{}
				for _, k := range []int{0, 1, 2, 3, 7, 64} {
					for d := -1; d <= 1; d++ {
						n := k*unit + d
						if n < 0 || seen[n] {
							continue
						}
						seen[n] = true
						for _, kl := range keyLens(h.alg.Len) {
							pts = append(pts, pt{hi, sl, pl, kl, n})
						}
					}
				}
			}
		}
	}
	c.ParallelFor(len(pts), func(i int) {
		p := pts[i]
		h := hashes[p.hi]
		salt := c.Bytes("rawsalt", p.hi*100+p.sl, p.sl)
		pass := c.Bytes("rawpass", p.hi*100+p.pl, p.pl)
		unit := append(append([]byte{}, salt...), pass...)
		total := p.count
		if total < len(unit) {
			total = len(unit)
		}
		want := s2kref.DeriveRaw(h.alg, unit, total, p.kl)
		got := make([]byte, p.kl)
		if pn, v, st := vf.Protect(func() { s2k.Iterated(got, h.real.New(), pass, salt, p.count) }); pn {
			c.Violation("direct function panics", map[string]any{"pt": fmt.Sprintf("%+v", p), "panic": fmt.Sprint(v), "stack": st})
			return
		}
		c.Eval(1)
		ctxs := (p.kl + h.alg.Len - 1) / h.alg.Len
		if ctxs >= 2 || p.count%len(unit) != 0 {
			c.Nontrivial(fmt.Sprintf("raw/%s/%d/%d/%d/%d", h.alg.Name, p.sl, p.pl, p.kl, p.count))
		}
		if !bytes.Equal(got, want) {
			c.Violation(fmt.Sprintf("direct Iterated != model for a raw count (contexts=%d)", min(ctxs, 3)),
				map[string]any{"hash": h.alg.Name, "saltLen": p.sl, "passLen": p.pl, "keyLen": p.kl, "count": p.count, "got": fmt.Sprintf("%x", got), "want": fmt.Sprintf("%x", want)})
		}
		if p.count == 0 {
			// Salted = one whole unit; Simple = Salted without salt
			want := s2kref.DeriveRaw(h.alg, unit, len(unit), p.kl)
			got := make([]byte, p.kl)
			s2k.Salted(got, h.real.New(), pass, salt)
			c.Eval(1)
			if !bytes.Equal(got, want) {
				c.Violation("direct Salted != model for a non-8-octet salt", map[string]any{"hash": h.alg.Name, "saltLen": p.sl, "passLen": p.pl, "keyLen": p.kl})
			}
		}
	})
}

type cfgCase struct {
	hi    int // -1: Config.Hash left zero (default SHA-1); -2: nil Config
	count int
	kl    int
	pl    int
}

// serializeGrid: s2k.Serialize writes 03 || hash id || 8 salt octets from rand || coded
// count, derives the key of that specifier, and the written specifier parses back to a
// function producing the same key.
func serializeGrid(c *vf.Ctx) {
	var cases []cfgCase
	for hi, h := range hashes {
		kls := keyLens(h.alg.Len)
		for cc := 0; cc < 256; cc++ {
			v := s2kref.Count(byte(cc))
			for d := -1; d <= 1; d++ {
				// key length 0: header and parse-back only (no hashing), every boundary, every hash
				cases = append(cases, cfgCase{hi, v + d, 0, 8})
				if cc < 128 || (d == 0 && cc%7 == hi && (cc < 224 || cc == 224+hi || cc == 255 && hi == 1)) {
					kl := kls[(cc+d+1)%len(kls)]
					if cc >= 160 {
						kl = h.alg.Len + 1
					}
					if cc >= 192 && cc%4 != 0 {
						kl = h.alg.Len
					}
					cases = append(cases, cfgCase{hi, v + d, kl, passLens[(cc/3)%4]})
				}
			}
		}
		for _, n := range []int{1, 2, 1000, 1023, 65011713, 1 << 30} {
			cases = append(cases, cfgCase{hi, n, h.alg.Len + 1, 8})
		}
		cases = append(cases, cfgCase{hi, 0, h.alg.Len + 1, 8}) // S2KCount 0: documented default 65536
	}
	cases = append(cases, cfgCase{-1, 0, 21, 8}, cfgCase{-1, 4096, 41, 1}, cfgCase{-2, 0, 21, 8}, cfgCase{-2, 0, 64, 0})
	cost := func(cs cfgCase) int {
		if cs.kl == 0 {
			return 0
		}
		return cs.count
	}
	sort.SliceStable(cases, func(i, j int) bool { return cost(cases[i]) > cost(cases[j]) })
	c.ParallelFor(len(cases), func(i int) {
		cs := cases[i]
		var cfg *s2k.Config
		hi := cs.hi
		switch {
		case cs.hi == -2:
			hi = 1 // SHA-1
		case cs.hi == -1:
			cfg = &s2k.Config{S2KCount: cs.count}
			hi = 1
		default:
			cfg = &s2k.Config{Hash: hashes[cs.hi].real, S2KCount: cs.count}
		}
		h := hashes[hi]
		wantCoded := byte(96) // 65536, the documented default for a nil Config or S2KCount 0
		if cs.count != 0 {
			n := cs.count
			if n < 1024 {
				n = 1024
			}
			if n > 65011712 {
				n = 65011712
			}
			wantCoded = s2kref.CodedCount(n)
		}
		pass := c.Bytes("serpass", i, cs.pl)
		rnd := vf.NewRand(fmt.Sprintf("%d/ser/%d", c.Seed, i))
		expectSalt := make([]byte, 8)
		vf.NewRand(fmt.Sprintf("%d/ser/%d", c.Seed, i)).Read(expectSalt)
		var w bytes.Buffer
		key := make([]byte, cs.kl)
		var err error
		where := map[string]any{"hash": h.alg.Name, "cfg_hash_case": cs.hi, "S2KCount": cs.count, "keyLen": cs.kl, "passLen": cs.pl}
		if p, v, st := vf.Protect(func() { err = s2k.Serialize(&w, key, rnd, pass, cfg) }); p {
			c.Violation("Serialize panics", map[string]any{"at": where, "panic": fmt.Sprint(v), "stack": st})
			return
		}
		c.Eval(1)
		if err != nil {
			c.Violation("Serialize fails", map[string]any{"at": where, "err": err.Error()})
			return
		}
		sp := s2kref.Spec{Type: s2kref.Iterated, Hash: h.alg.ID, Coded: wantCoded}
		copy(sp.Salt[:], expectSalt)
		if !bytes.Equal(w.Bytes(), sp.Encode()) {
			cls := "Serialize writes a wrong specifier"
			if b := w.Bytes(); len(b) == 11 && bytes.Equal(b[:10], sp.Encode()[:10]) {
				cls = "Serialize writes a wrong coded count"
			}
			c.Violation(cls, map[string]any{"at": where, "got": fmt.Sprintf("%x", w.Bytes()), "want": fmt.Sprintf("%x", sp.Encode())})
			return
		}
		c.Outcome(fmt.Sprintf("serialize coded=%d", wantCoded>>5<<5))
		// parse back
		f, perr := s2k.Parse(bytes.NewReader(w.Bytes()))
		if perr != nil {
			c.Violation("Serialize output does not parse", map[string]any{"at": where, "err": perr.Error()})
			return
		}
		if cs.kl == 0 {
			f(nil, pass) // must be harmless
			return
		}
		want := s2kref.Derive(sp, pass, cs.kl)
		if !bytes.Equal(key, want) {
			c.Violation("Serialize key != RFC 4880 key of the written specifier", map[string]any{"at": where, "got": fmt.Sprintf("%x", key), "want": fmt.Sprintf("%x", want)})
		}
		back := make([]byte, cs.kl)
		f(back, pass)
		c.Eval(1)
		if !bytes.Equal(back, key) {
			c.Violation("Serialize output parses back to a different function", map[string]any{"at": where, "serialize_key": fmt.Sprintf("%x", key), "parsed_key": fmt.Sprintf("%x", back)})
		}
		if cs.kl > h.alg.Len {
			c.Nontrivial(fmt.Sprintf("ser/%s/%d/%d/%d", h.alg.Name, cs.count, cs.kl, cs.pl))
		}
	})
}

// parseRejects: every proper prefix of a specifier must be refused (error, no function);
// reserved/unknown type octets and unassigned hash identifiers must not panic (whether
// they are refused is tallied, the property does not speak about them).
func parseRejects(c *vf.Ctx) {
	try := func(class string, in []byte) {
		mustReject := class != ""
		var f func(out, in []byte)
		var err error
		if p, v, st := vf.Protect(func() { f, err = s2k.Parse(bytes.NewReader(in)) }); p {
			c.Violation("Parse panics", map[string]any{"input": fmt.Sprintf("%x", in), "panic": fmt.Sprint(v), "stack": st})
			return
		}
		c.Eval(1)
		if err == nil || f != nil {
			if mustReject {
				c.Violation(class, map[string]any{"input": fmt.Sprintf("%x", in)})
			} else {
				// outside the property's statement (reserved types, unassigned hash ids): tallied only
				c.Outcome(fmt.Sprintf("accepted outside RFC 4880: type %d hash %d", in[0], in[1]))
			}
			return
		}
		c.Outcome("rejected (truncated=" + fmt.Sprint(mustReject) + ")")
	}
	for _, h := range hashes {
		for _, typ := range []byte{s2kref.Simple, s2kref.Salted, s2kref.Iterated} {
			sp := s2kref.Spec{Type: typ, Hash: h.alg.ID, Coded: 96}
			copy(sp.Salt[:], c.Bytes("rejsalt", int(typ), 8))
			enc := sp.Encode()
			for n := 0; n < len(enc); n++ {
				try(fmt.Sprintf("Parse accepts a truncated specifier (type %d)", typ), enc[:n])
			}
		}
		for typ := 0; typ < 256; typ++ {
			if typ == 0 || typ == 1 || typ == 3 {
				continue
			}
			in := append([]byte{byte(typ), h.alg.ID}, make([]byte, 12)...)
			try("", in)
		}
	}
	known := map[byte]bool{}
	for _, h := range hashes {
		known[h.alg.ID] = true
	}
	for id := 0; id < 256; id++ {
		if known[byte(id)] {
			continue
		}
		for _, typ := range []byte{0, 1, 3} {
			try("", append([]byte{typ, byte(id)}, make([]byte, 12)...))
		}
	}
}
