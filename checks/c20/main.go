// C20: OpenPGP S2K derives the RFC 4880 section 3.7.1 keys.
//
// Grid on the real openpgp/s2k package against verif/ref/s2kref (written from the RFC,
// KAT-validated against libgcrypt's gcry_kdf_derive):
//
//	specifier type {simple, salted, iterated+salted} x hash {MD5, SHA-1, RIPEMD-160,
//	SHA-224/256/384/512} x ALL 256 coded count octets x key length {1, hLen, hLen+1,
//	2*hLen+1, 64} x passphrase length {0, 1, 8, 100}
//
// through s2k.Parse + returned function, through the direct functions s2k.Simple /
// Salted / Iterated (also with raw counts around multiples of len(salt||passphrase)), and
// through s2k.Serialize (coded count for S2KCount at both sides of every representable
// value, header layout, derived key, parse-back to the same function).
package main

import (
	"bytes"
	"crypto"
	_ "crypto/md5"
	_ "crypto/sha1"
	_ "crypto/sha256"
	_ "crypto/sha512"
	"fmt"
	"sort"
	"time"

	"golang.org/x/crypto/openpgp/s2k"
	_ "golang.org/x/crypto/ripemd160"
	"verif/ref/s2kref"
	"verif/vf"
)

func main() { vf.Main("C20", vf.Exploration, run) }

type combo struct{ kl, pl int }

type hashInfo struct {
	alg  s2kref.Alg
	real crypto.Hash
}

// the real package's crypto.Hash for each OpenPGP hash identifier, stated from RFC 4880
// section 9.4 (not read from the package's table)
var hashes = []hashInfo{
	{mustAlg(1), crypto.MD5},
	{mustAlg(2), crypto.SHA1},
	{mustAlg(3), crypto.RIPEMD160},
	{mustAlg(8), crypto.SHA256},
	{mustAlg(9), crypto.SHA384},
	{mustAlg(10), crypto.SHA512},
	{mustAlg(11), crypto.SHA224},
}

func mustAlg(id byte) s2kref.Alg {
	a, ok := s2kref.AlgByID(id)
	if !ok {
		panic("no model hash")
	}
	return a
}

var passLens = []int{0, 1, 8, 100}

func keyLens(hLen int) []int {
	seen := map[int]bool{}
	var out []int
	for _, k := range []int{1, hLen, hLen + 1, 2*hLen + 1, 64} {
		if !seen[k] {
			seen[k] = true
			out = append(out, k)
		}
	}
	return out
}

func fullCombos(hLen int) []combo {
	var out []combo
	for _, kl := range keyLens(hLen) {
		for _, pl := range passLens {
			out = append(out, combo{kl, pl})
		}
	}
	return out
}

// item is one parsed specifier with the (key length, passphrase length) points evaluated
// on the SAME returned function (so that hash-state reuse between calls is exercised).
type item struct {
	hi     int
	typ    byte
	coded  int
	combos []combo
	direct bool // also call the direct function s2k.Simple/Salted/Iterated
	cost   int
}

func run(c *vf.Ctx) {
	c.RaceCompanion("the s2k functions", "golang.org/x/crypto/openpgp/s2k.")
	c.Rule("full grid type{simple,salted,iterated} x 7 hashes x all 256 coded counts x keyLen{1,hLen,hLen+1,2hLen+1,64} x passLen{0,1,8,100} " +
		"for coded counts below the tier's full-grid limit (quick 128, thorough 224), above it every coded count with a reduced (keyLen,passLen) set " +
		"(rotating with the count octet; a multi-context key for every count octet below 192, every fourth one in 192..223 and one or two per hash in 224..255, which hash up to 65 MB per context: one key size, one passphrase); " +
		"direct functions on the same grid plus raw counts k*unit-1, k*unit, k*unit+1; Serialize for S2KCount at v-1,v,v+1 of every representable v x 7 hashes; " +
		"hardening: (A/B) Parse's input buffer is wiped after Parse; every derivation gets the passphrase (and, for the direct functions, the salt) as private copies in sentinel-framed buffers (spare capacity or cap == len) that must stay intact and are wiped afterwards, writes into a destination pre-filled with old data and framed by guard bytes, and the direct functions get a hash object that the caller has already written to on every second point; " +
		"(C/E) passphrase lengths 2^k+{-9,-8,-7,-1,0,1} for k=7..16 x 3 types x 7 hashes (iterated: count octet 0 or 96) and 2^k+{-8,1} for k=17..22 (type rotating), 8+passLen around the counts 1024 and 65536; key lengths {2hLen,3hLen,3hLen+1,4hLen+1,255,256,257} (up to 17 hash contexts) x 4 specifier kinds x 7 hashes through Parse and direct; " +
		"(A/D) every ordered pair of 21 specifier kinds parsed one after the other, buffers wiped, the two functions used alternately A,B,A,B; " +
		"non-trivial = distinct (type,hash,count,keyLen,passLen) whose key needs >= 2 hash contexts or whose iterated stream ends inside a salt||passphrase unit; " +
		"oracle = verif/ref/s2kref (RFC 4880 3.7.1 model, validated against libgcrypt gcry_kdf_derive and python hashlib)")
	c.Assume("crypto/md5, sha1, sha256, sha512 are correct hashes (both sides use them); RIPEMD-160 comes from verif/ref/rmd160ref for messages up to 128 KiB and from x/crypto/ripemd160 beyond (RIPEMD-160 itself is property C-ripemd's subject)")
	c.Assume("salt and passphrase VALUES are seeded (shape space is fixed); Serialize rounds S2KCount up to the next representable count and clamps to [1024, 65011712] as its documentation states")

	fullLimit := 128
	if c.Thorough {
		fullLimit = 224
	}

	var items []item
	for hi, h := range hashes {
		hLen := h.alg.Len
		full := fullCombos(hLen)
		items = append(items, item{hi: hi, typ: s2kref.Simple, combos: full, direct: true})
		items = append(items, item{hi: hi, typ: s2kref.Salted, combos: full, direct: true})
		for cc := 0; cc < 256; cc++ {
			it := item{hi: hi, typ: s2kref.Iterated, coded: cc}
			switch {
			case cc < fullLimit:
				it.combos = full
				it.direct = cc < 128
			case cc < 224:
				// reduced: one key length and one passphrase length, rotating with cc; a multi-context
				// key for every count octet below 192 and for every fourth one above
				kl := hLen + 1
				if cc%4 == 1 || c.Thorough && cc%2 == 1 {
					kl = 2*hLen + 1 // third context
				} else if cc >= 192 && !c.Thorough {
					kl = hLen
				}
				pl := passLens[(cc/2)%4]
				it.combos = []combo{{kl, pl}}
				if c.Thorough {
					it.combos = append(it.combos, combo{hLen, passLens[(cc/2+1)%4]})
				}
			default:
				// 16..65 MB per hash context: one key size and one passphrase only
				kl := hLen
				if c.Thorough || cc == 224+hi || cc == 255-hi && hi < 2 {
					kl = hLen + 1 // second context (one zero octet preloaded) with a huge count
				}
				it.combos = []combo{{kl, 8}}
			}
			for _, cb := range it.combos {
				ctx := (cb.kl + hLen - 1) / hLen
				it.cost += ctx * s2kref.Count(byte(cc))
			}
			items = append(items, it)
		}
	}
	// most expensive first, so that the tail of the parallel loop is short
	sort.SliceStable(items, func(i, j int) bool { return items[i].cost > items[j].cost })

	t0 := time.Now()
	c.ParallelFor(len(items), func(i int) { runItem(c, i, items[i]) })
	c.Set("phase_s_grid", time.Since(t0).Seconds())
	t0 = time.Now()
	directRawCounts(c)
	c.Set("phase_s_raw", time.Since(t0).Seconds())
	t0 = time.Now()
	serializeGrid(c)
	c.Set("phase_s_serialize", time.Since(t0).Seconds())
	parseRejects(c)
	t0 = time.Now()
	longPassphrases(c)
	c.Set("phase_s_long_passphrases", time.Since(t0).Seconds())
	t0 = time.Now()
	moreContexts(c)
	interleavedFunctions(c)
	c.Set("phase_s_contexts_and_interleaving", time.Since(t0).Seconds())
}

func specFor(c *vf.Ctx, it item) s2kref.Spec {
	sp := s2kref.Spec{Type: it.typ, Hash: hashes[it.hi].alg.ID, Coded: byte(it.coded)}
	copy(sp.Salt[:], c.Bytes(fmt.Sprintf("salt/%d/%d", it.typ, it.hi), it.coded, 8))
	return sp
}

func runItem(c *vf.Ctx, idx int, it item) {
	h := hashes[it.hi]
	sp := specFor(c, it)
	enc := sp.Encode()
	tail := []byte{0xA5, 0x5A, 0xC3}
	spec := append(append([]byte{}, enc...), tail...)
	rd := bytes.NewReader(spec)
	var f func(out, in []byte)
	var err error
	where := map[string]any{"type": it.typ, "hash": h.alg.Name, "coded_count": it.coded, "specifier": fmt.Sprintf("%x", enc)}
	if p, v, st := vf.Protect(func() { f, err = s2k.Parse(rd) }); p {
		c.Violation("Parse panics on a valid specifier", map[string]any{"at": where, "panic": fmt.Sprint(v), "stack": st})
		return
	}
	if err != nil || f == nil {
		c.Violation(fmt.Sprintf("Parse rejects a valid specifier (type %d)", it.typ), map[string]any{"at": where, "err": fmt.Sprint(err)})
		return
	}
	if rd.Len() != len(tail) {
		c.Violation(fmt.Sprintf("Parse consumes a wrong number of octets (type %d)", it.typ), map[string]any{"at": where, "left": rd.Len(), "want_left": len(tail)})
	}
	// hardening A: the caller reuses its packet buffer once Parse has returned
	rd.Reset(nil)
	for i := range spec {
		spec[i] ^= 0xFF
	}
	typeName := map[byte]string{0: "simple", 1: "salted", 3: "iterated"}[it.typ]
	for _, cb := range it.combos {
		pass := c.Bytes("pass", it.hi*1000+it.coded, cb.pl)
		passCopy := append([]byte{}, pass...)
		want := s2kref.Derive(sp, pass, cb.kl)
		// hardening A/B: passphrase as a private sentinel-framed copy (spare capacity or cap == len,
		// alternating), wiped after the call; destination pre-filled with old data, guard bytes behind it
		fpass, pass := guard(passCopy, (cb.kl+cb.pl)%2 == 0)
		fgot, got := dest(cb.kl)
		if p, v, st := vf.Protect(func() { f(got, pass) }); p {
			c.Violation("derivation function panics", map[string]any{"at": where, "keyLen": cb.kl, "passLen": cb.pl, "panic": fmt.Sprint(v), "stack": st})
			continue
		}
		c.Eval(1)
		if !intact(fpass, passCopy) {
			c.Violation("derivation writes to the caller's passphrase buffer or its spare capacity", where)
		}
		if !destIntact(fgot, cb.kl) {
			c.Violation("derivation writes outside the destination slice", where)
		}
		wipe(fpass)
		pass = passCopy
		ctxs := (cb.kl + h.alg.Len - 1) / h.alg.Len
		unit := 8 + cb.pl
		partial := it.typ == s2kref.Iterated && s2kref.Count(byte(it.coded))%unit != 0 && s2kref.Count(byte(it.coded)) > unit
		if ctxs >= 2 || partial {
			c.Nontrivial(fmt.Sprintf("%s/%s/%d/%d/%d", typeName, h.alg.Name, it.coded, cb.kl, cb.pl))
		}
		c.Outcome(fmt.Sprintf("%s ctx=%d", typeName, ctxs))
		if !bytes.Equal(got, want) {
			c.Violation(fmt.Sprintf("Parse+derive != RFC 4880 key (%s, contexts=%d)", typeName, min(ctxs, 3)),
				map[string]any{"at": where, "keyLen": cb.kl, "passLen": cb.pl, "count": s2kref.Count(byte(it.coded)), "got": fmt.Sprintf("%x", got), "want": fmt.Sprintf("%x", want)})
		}
		if !bytes.Equal(pass, passCopy) {
			c.Violation("derivation modifies the passphrase", where)
		}
		if it.direct {
			fgot2, got2 := dest(cb.kl)
			hh := h.real.New()
			if (cb.kl+cb.pl+it.coded)%2 == 0 {
				hh.Write([]byte("hash object already used by the caller")) // hardening B/D: not a fresh hash
			}
			fp2, gp2 := guard(pass, (cb.kl+it.coded)%2 == 0)
			fs2, gs2 := guard(sp.Salt[:], (cb.kl+it.coded)%2 == 1 || cb.pl == 8)
			if p, v, st := vf.Protect(func() {
				switch it.typ {
				case s2kref.Simple:
					s2k.Simple(got2, hh, gp2)
				case s2kref.Salted:
					s2k.Salted(got2, hh, gp2, gs2)
				case s2kref.Iterated:
					s2k.Iterated(got2, hh, gp2, gs2, s2kref.Count(byte(it.coded)))
				}
			}); p {
				c.Violation("direct function panics", map[string]any{"at": where, "panic": fmt.Sprint(v), "stack": st})
				continue
			}
			c.Eval(1)
			if !intact(fp2, pass) || !intact(fs2, sp.Salt[:]) || !destIntact(fgot2, cb.kl) {
				c.Violation("direct function writes to the caller's passphrase/salt buffer, its spare capacity, or outside the destination", where)
			}
			if !bytes.Equal(got2, want) {
				c.Violation(fmt.Sprintf("direct %s != RFC 4880 key (contexts=%d)", typeName, min(ctxs, 3)),
					map[string]any{"at": where, "keyLen": cb.kl, "passLen": cb.pl, "got": fmt.Sprintf("%x", got2), "want": fmt.Sprintf("%x", want)})
			}
		}
		if c.WantSample() && ctxs >= 2 && it.typ == s2kref.Iterated {
			c.Sample(map[string]any{"specifier": fmt.Sprintf("%x", enc), "hash": h.alg.Name, "count": s2kref.Count(byte(it.coded)), "keyLen": cb.kl, "passLen": cb.pl, "key": fmt.Sprintf("%x", got)})
		}
	}
	// the returned function is reusable: the first point again after all the others
	if len(it.combos) > 1 && it.cost < 1<<22 {
		cb := it.combos[0]
		pass := c.Bytes("pass", it.hi*1000+it.coded, cb.pl)
		got := make([]byte, cb.kl)
		f(got, pass)
		c.Eval(1)
		if !bytes.Equal(got, s2kref.Derive(sp, pass, cb.kl)) {
			c.Violation("derivation function not repeatable", where)
		}
	}
}

// directRawCounts: s2k.Iterated with counts that are not decoded count octets: below,
// at and above whole multiples of len(salt||passphrase), including count < unit (whole
// unit hashed once) and count 0; salts of other lengths for Salted/Iterated.
func directRawCounts(c *vf.Ctx) {
	type pt struct {
		hi, sl, pl, kl, count int
	}
	var pts []pt
	for hi, h := range hashes {
		for _, sl := range []int{0, 8, 13} {
			for _, pl := range passLens {
				unit := sl + pl
				if unit == 0 {
					continue
				}
				seen := map[int]bool{}
				for _, k := range []int{0, 1, 2, 3, 7, 64} {
					for d := -1; d <= 1; d++ {
						n := k*unit + d
						if n < 0 || seen[n] {
							continue
						}
						seen[n] = true
						for _, kl := range keyLens(h.alg.Len) {
							pts = append(pts, pt{hi, sl, pl, kl, n})
						}
					}
				}
			}
		}
	}
	c.ParallelFor(len(pts), func(i int) {
		p := pts[i]
		h := hashes[p.hi]
		salt := c.Bytes("rawsalt", p.hi*100+p.sl, p.sl)
		pass := c.Bytes("rawpass", p.hi*100+p.pl, p.pl)
		unit := append(append([]byte{}, salt...), pass...)
		total := p.count
		if total < len(unit) {
			total = len(unit)
		}
		want := s2kref.DeriveRaw(h.alg, unit, total, p.kl)
		got := make([]byte, p.kl)
		if pn, v, st := vf.Protect(func() { s2k.Iterated(got, h.real.New(), pass, salt, p.count) }); pn {
			c.Violation("direct function panics", map[string]any{"pt": fmt.Sprintf("%+v", p), "panic": fmt.Sprint(v), "stack": st})
			return
		}
		c.Eval(1)
		ctxs := (p.kl + h.alg.Len - 1) / h.alg.Len
		if ctxs >= 2 || p.count%len(unit) != 0 {
			c.Nontrivial(fmt.Sprintf("raw/%s/%d/%d/%d/%d", h.alg.Name, p.sl, p.pl, p.kl, p.count))
		}
		if !bytes.Equal(got, want) {
			c.Violation(fmt.Sprintf("direct Iterated != model for a raw count (contexts=%d)", min(ctxs, 3)),
				map[string]any{"hash": h.alg.Name, "saltLen": p.sl, "passLen": p.pl, "keyLen": p.kl, "count": p.count, "got": fmt.Sprintf("%x", got), "want": fmt.Sprintf("%x", want)})
		}
		if p.count == 0 {
			// Salted = one whole unit; Simple = Salted without salt
			want := s2kref.DeriveRaw(h.alg, unit, len(unit), p.kl)
			got := make([]byte, p.kl)
			s2k.Salted(got, h.real.New(), pass, salt)
			c.Eval(1)
			if !bytes.Equal(got, want) {
				c.Violation("direct Salted != model for a non-8-octet salt", map[string]any{"hash": h.alg.Name, "saltLen": p.sl, "passLen": p.pl, "keyLen": p.kl})
			}
		}
	})
}

type cfgCase struct {
	hi    int // -1: Config.Hash left zero (default SHA-1); -2: nil Config
	count int
	kl    int
	pl    int
}

// serializeGrid: s2k.Serialize writes 03 || hash id || 8 salt octets from rand || coded
// count, derives the key of that specifier, and the written specifier parses back to a
// function producing the same key.
func serializeGrid(c *vf.Ctx) {
	var cases []cfgCase
	for hi, h := range hashes {
		kls := keyLens(h.alg.Len)
		for cc := 0; cc < 256; cc++ {
			v := s2kref.Count(byte(cc))
			for d := -1; d <= 1; d++ {
				// key length 0: header and parse-back only (no hashing), every boundary, every hash
				cases = append(cases, cfgCase{hi, v + d, 0, 8})
				if cc < 128 || (d == 0 && cc%7 == hi && (cc < 224 || cc == 224+hi || cc == 255 && hi == 1)) {
					kl := kls[(cc+d+1)%len(kls)]
					if cc >= 160 {
						kl = h.alg.Len + 1
					}
					if cc >= 192 && cc%4 != 0 {
						kl = h.alg.Len
					}
					cases = append(cases, cfgCase{hi, v + d, kl, passLens[(cc/3)%4]})
				}
			}
		}
		for _, n := range []int{1, 2, 1000, 1023, 65011713, 1 << 30} {
			cases = append(cases, cfgCase{hi, n, h.alg.Len + 1, 8})
		}
		cases = append(cases, cfgCase{hi, 0, h.alg.Len + 1, 8}) // S2KCount 0: documented default 65536
	}
	cases = append(cases, cfgCase{-1, 0, 21, 8}, cfgCase{-1, 4096, 41, 1}, cfgCase{-2, 0, 21, 8}, cfgCase{-2, 0, 64, 0})
	cost := func(cs cfgCase) int {
		if cs.kl == 0 {
			return 0
		}
		return cs.count
	}
	sort.SliceStable(cases, func(i, j int) bool { return cost(cases[i]) > cost(cases[j]) })
	c.ParallelFor(len(cases), func(i int) {
		cs := cases[i]
		var cfg *s2k.Config
		hi := cs.hi
		switch {
		case cs.hi == -2:
			hi = 1 // SHA-1
		case cs.hi == -1:
			cfg = &s2k.Config{S2KCount: cs.count}
			hi = 1
		default:
			cfg = &s2k.Config{Hash: hashes[cs.hi].real, S2KCount: cs.count}
		}
		h := hashes[hi]
		wantCoded := byte(96) // 65536, the documented default for a nil Config or S2KCount 0
		if cs.count != 0 {
			n := cs.count
			if n < 1024 {
				n = 1024
			}
			if n > 65011712 {
				n = 65011712
			}
			wantCoded = s2kref.CodedCount(n)
		}
		pass := c.Bytes("serpass", i, cs.pl)
		rnd := vf.NewRand(fmt.Sprintf("%d/ser/%d", c.Seed, i))
		expectSalt := make([]byte, 8)
		vf.NewRand(fmt.Sprintf("%d/ser/%d", c.Seed, i)).Read(expectSalt)
		var w bytes.Buffer
		key := make([]byte, cs.kl)
		var err error
		where := map[string]any{"hash": h.alg.Name, "cfg_hash_case": cs.hi, "S2KCount": cs.count, "keyLen": cs.kl, "passLen": cs.pl}
		if p, v, st := vf.Protect(func() { err = s2k.Serialize(&w, key, rnd, pass, cfg) }); p {
			c.Violation("Serialize panics", map[string]any{"at": where, "panic": fmt.Sprint(v), "stack": st})
			return
		}
		c.Eval(1)
		if err != nil {
			c.Violation("Serialize fails", map[string]any{"at": where, "err": err.Error()})
			return
		}
		sp := s2kref.Spec{Type: s2kref.Iterated, Hash: h.alg.ID, Coded: wantCoded}
		copy(sp.Salt[:], expectSalt)
		if !bytes.Equal(w.Bytes(), sp.Encode()) {
			cls := "Serialize writes a wrong specifier"
			if b := w.Bytes(); len(b) == 11 && bytes.Equal(b[:10], sp.Encode()[:10]) {
				cls = "Serialize writes a wrong coded count"
			}
			c.Violation(cls, map[string]any{"at": where, "got": fmt.Sprintf("%x", w.Bytes()), "want": fmt.Sprintf("%x", sp.Encode())})
			return
		}
		c.Outcome(fmt.Sprintf("serialize coded=%d", wantCoded>>5<<5))
		// parse back
		f, perr := s2k.Parse(bytes.NewReader(w.Bytes()))
		if perr != nil {
			c.Violation("Serialize output does not parse", map[string]any{"at": where, "err": perr.Error()})
			return
		}
		if cs.kl == 0 {
			f(nil, pass) // must be harmless
			return
		}
		want := s2kref.Derive(sp, pass, cs.kl)
		if !bytes.Equal(key, want) {
			c.Violation("Serialize key != RFC 4880 key of the written specifier", map[string]any{"at": where, "got": fmt.Sprintf("%x", key), "want": fmt.Sprintf("%x", want)})
		}
		back := make([]byte, cs.kl)
		f(back, pass)
		c.Eval(1)
		if !bytes.Equal(back, key) {
			c.Violation("Serialize output parses back to a different function", map[string]any{"at": where, "serialize_key": fmt.Sprintf("%x", key), "parsed_key": fmt.Sprintf("%x", back)})
		}
		if cs.kl > h.alg.Len {
			c.Nontrivial(fmt.Sprintf("ser/%s/%d/%d/%d", h.alg.Name, cs.count, cs.kl, cs.pl))
		}
	})
}

// parseRejects: every proper prefix of a specifier must be refused (error, no function);
// reserved/unknown type octets and unassigned hash identifiers must not panic (whether
// they are refused is tallied, the property does not speak about them).
func parseRejects(c *vf.Ctx) {
	try := func(class string, in []byte) {
		mustReject := class != ""
		var f func(out, in []byte)
		var err error
		if p, v, st := vf.Protect(func() { f, err = s2k.Parse(bytes.NewReader(in)) }); p {
			c.Violation("Parse panics", map[string]any{"input": fmt.Sprintf("%x", in), "panic": fmt.Sprint(v), "stack": st})
			return
		}
		c.Eval(1)
		if err == nil || f != nil {
			if mustReject {
				c.Violation(class, map[string]any{"input": fmt.Sprintf("%x", in)})
			} else {
				// outside the property's statement (reserved types, unassigned hash ids): tallied only
				c.Outcome(fmt.Sprintf("accepted outside RFC 4880: type %d hash %d", in[0], in[1]))
			}
			return
		}
		c.Outcome("rejected (truncated=" + fmt.Sprint(mustReject) + ")")
	}
	for _, h := range hashes {
		for _, typ := range []byte{s2kref.Simple, s2kref.Salted, s2kref.Iterated} {
			sp := s2kref.Spec{Type: typ, Hash: h.alg.ID, Coded: 96}
			copy(sp.Salt[:], c.Bytes("rejsalt", int(typ), 8))
			enc := sp.Encode()
			for n := 0; n < len(enc); n++ {
				try(fmt.Sprintf("Parse accepts a truncated specifier (type %d)", typ), enc[:n])
			}
		}
		for typ := 0; typ < 256; typ++ {
			if typ == 0 || typ == 1 || typ == 3 {
				continue
			}
			in := append([]byte{byte(typ), h.alg.ID}, make([]byte, 12)...)
			try("", in)
		}
	}
	known := map[byte]bool{}
	for _, h := range hashes {
		known[h.alg.ID] = true
	}
	for id := 0; id < 256; id++ {
		if known[byte(id)] {
			continue
		}
		for _, typ := range []byte{0, 1, 3} {
			try("", append([]byte{typ, byte(id)}, make([]byte, 12)...))
		}
	}
}

// ---------------------------------------------------------------- hardening pass

// guard places a private copy of b in a frame: 8 sentinel bytes in front, 24 behind; with spare the
// returned slice's capacity extends over the trailing sentinels, otherwise cap == len.
func guard(b []byte, spare bool) (frame, s []byte) {
	frame = bytes.Repeat([]byte{0xA5}, 8+len(b)+24)
	copy(frame[8:], b)
	if spare {
		return frame, frame[8 : 8+len(b)]
	}
	return frame, frame[8 : 8+len(b) : 8+len(b)]
}

func intact(frame, orig []byte) bool {
	for i, v := range frame {
		if i >= 8 && i < 8+len(orig) {
			if v != orig[i-8] {
				return false
			}
		} else if v != 0xA5 {
			return false
		}
	}
	return true
}

func wipe(frame []byte) {
	for i := range frame {
		frame[i] ^= 0xFF
	}
}

// dest returns a destination of n bytes that holds old data (0xC3) with 16 guard bytes on each side.
func dest(n int) (frame, out []byte) {
	frame = bytes.Repeat([]byte{0xC3}, 16+n+16)
	return frame, frame[16 : 16+n]
}

func destIntact(frame []byte, n int) bool {
	for i, v := range frame {
		if (i < 16 || i >= 16+n) && v != 0xC3 {
			return false
		}
	}
	return true
}

// longPassphrases (C/E): passphrase lengths 2^k + d for k = 7..22 - d = -8 puts the end of
// salt||passphrase on a power of two - for every type x hash, through Parse. For the iterated type
// the count octets 0 (1024) and 96 (65536) make salt||passphrase shorter than, equal to and longer
// than the count (RFC 4880 3.7.1.3: the whole unit is hashed even if that exceeds the count).
func longPassphrases(c *vf.Ctx) {
	type job struct {
		hi    int
		typ   byte
		coded int
		pl    int
	}
	var jobs []job
	for hi := range hashes {
		for k := 7; k <= 22; k++ {
			types := []job{{hi, s2kref.Simple, 0, 0}, {hi, s2kref.Salted, 0, 0}, {hi, s2kref.Iterated, []int{0, 96}[k%2], 0}}
			if k > 16 {
				// above 128 KiB: two deltas, one type each (rotating with k and the hash)
				for x, d := range []int{-8, 1} {
					j := types[(k+hi+x)%3]
					j.pl = 1<<uint(k) + d
					jobs = append(jobs, j)
				}
				continue
			}
			for _, d := range []int{-9, -8, -7, -1, 0, 1} {
				for _, j := range types {
					j.pl = 1<<uint(k) + d
					jobs = append(jobs, j)
				}
			}
		}
		for _, pl := range []int{1014, 1015, 1016, 1017, 1018} { // 8 + pl around count 1024
			jobs = append(jobs, job{hi, s2kref.Iterated, 0, pl})
		}
		for _, pl := range []int{65527, 65528, 65529} { // 8 + pl around count 65536
			jobs = append(jobs, job{hi, s2kref.Iterated, 96, pl})
		}
	}
	src := vf.DetBytes(fmt.Sprintf("%d|s2k-long-pass", c.Seed), 1<<22+64)
	c.ParallelFor(len(jobs), func(i int) {
		j := jobs[i]
		h := hashes[j.hi]
		it := item{hi: j.hi, typ: j.typ, coded: j.coded}
		sp := specFor(c, it)
		pass := src[i%5 : i%5+j.pl]
		kl := h.alg.Len + 1
		where := map[string]any{"type": j.typ, "hash": h.alg.Name, "coded_count": j.coded, "passLen": j.pl, "keyLen": kl}
		var f func(out, in []byte)
		var err error
		fgot, got := dest(kl)
		fpass, gpass := guard(pass, i%2 == 0)
		if p, v, st := vf.Protect(func() {
			if f, err = s2k.Parse(bytes.NewReader(sp.Encode())); err == nil {
				f(got, gpass)
			}
		}); p {
			c.Violation("derivation function panics on a long passphrase", map[string]any{"at": where, "panic": fmt.Sprint(v), "stack": st})
			return
		}
		c.Eval(1)
		if err != nil {
			c.Violation(fmt.Sprintf("Parse rejects a valid specifier (type %d)", j.typ), where)
			return
		}
		if !intact(fpass, pass) || !destIntact(fgot, kl) {
			c.Violation("derivation writes to the caller's passphrase buffer, its spare capacity, or outside the destination", where)
		}
		if want := s2kref.Derive(sp, pass, kl); !bytes.Equal(got, want) {
			where["got"], where["want"] = fmt.Sprintf("%x", got), fmt.Sprintf("%x", want)
			rel := "longer than"
			if j.typ != s2kref.Iterated {
				rel = "n/a"
			} else if 8+j.pl <= s2kref.Count(byte(j.coded)) {
				rel = "at most"
			}
			c.Violation(fmt.Sprintf("Parse+derive != RFC 4880 key for a long passphrase (type %d, salt||passphrase %s the count)", j.typ, rel), where)
		}
		c.Nontrivial(fmt.Sprintf("longpass/%d/%s/%d/%d", j.typ, h.alg.Name, j.coded, j.pl))
	})
	c.Set("long_passphrase_points", len(jobs))
}

// moreContexts (E): key lengths that need 3, 4 and up to 17 hash contexts (context i is preloaded
// with i zero octets) and lie on both sides of 256: {2hLen, 3hLen, 3hLen+1, 4hLen+1, 255, 256, 257}
// for every type x hash, through Parse and the direct function, small counts.
func moreContexts(c *vf.Ctx) {
	type job struct {
		hi    int
		typ   byte
		coded int
		kl    int
	}
	var jobs []job
	for hi, h := range hashes {
		L := h.alg.Len
		for _, kl := range []int{2 * L, 3 * L, 3*L + 1, 4*L + 1, 255, 256, 257} {
			jobs = append(jobs, job{hi, s2kref.Simple, 0, kl}, job{hi, s2kref.Salted, 0, kl}, job{hi, s2kref.Iterated, 0, kl}, job{hi, s2kref.Iterated, 37, kl})
		}
	}
	c.ParallelFor(len(jobs), func(i int) {
		j := jobs[i]
		h := hashes[j.hi]
		sp := specFor(c, item{hi: j.hi, typ: j.typ, coded: j.coded})
		pass := c.Bytes("ctx-pass", i, 11)
		want := s2kref.Derive(sp, pass, j.kl)
		where := map[string]any{"type": j.typ, "hash": h.alg.Name, "coded_count": j.coded, "keyLen": j.kl, "contexts": (j.kl + h.alg.Len - 1) / h.alg.Len}
		_, got := dest(j.kl)
		_, got2 := dest(j.kl)
		if p, v, st := vf.Protect(func() {
			f, err := s2k.Parse(bytes.NewReader(sp.Encode()))
			if err != nil {
				panic(err)
			}
			f(got, pass)
			hh := h.real.New()
			hh.Write([]byte{1, 2, 3})
			switch j.typ {
			case s2kref.Simple:
				s2k.Simple(got2, hh, pass)
			case s2kref.Salted:
				s2k.Salted(got2, hh, pass, sp.Salt[:])
			default:
				s2k.Iterated(got2, hh, pass, sp.Salt[:], s2kref.Count(byte(j.coded)))
			}
		}); p {
			c.Violation("derivation panics for a key of many hash contexts", map[string]any{"at": where, "panic": fmt.Sprint(v), "stack": st})
			return
		}
		c.Eval(2)
		if !bytes.Equal(got, want) {
			c.Violation(fmt.Sprintf("Parse+derive != RFC 4880 key (type %d, more than 3 contexts / key length around 256)", j.typ), where)
		}
		if !bytes.Equal(got2, want) {
			c.Violation(fmt.Sprintf("direct function != RFC 4880 key (type %d, more than 3 contexts / key length around 256)", j.typ), where)
		}
		c.Nontrivial(fmt.Sprintf("ctx/%d/%s/%d/%d", j.typ, h.alg.Name, j.coded, j.kl))
	})
}

// interleavedFunctions (A/D): two specifiers are parsed one after the other (every ordered pair of
// type x hash, different salts and counts), the packet buffers are wiped, and the two returned
// functions are used alternately A, B, A with different key lengths: each must keep deriving the key
// of its OWN specifier.
func interleavedFunctions(c *vf.Ctx) {
	type side struct {
		hi    int
		typ   byte
		coded int
	}
	var sides []side
	for hi := range hashes {
		sides = append(sides, side{hi, s2kref.Simple, 0}, side{hi, s2kref.Salted, 0}, side{hi, s2kref.Iterated, 3 + hi})
	}
	n := len(sides)
	c.ParallelFor(n*n, func(idx int) {
		a, b := sides[idx/n], sides[idx%n]
		spA := specFor(c, item{hi: a.hi, typ: a.typ, coded: a.coded})
		spB := specFor(c, item{hi: b.hi, typ: b.typ, coded: b.coded + 1})
		spB.Salt[0] ^= 0x80
		passA, passB := c.Bytes("il-pass-a", idx, 9), c.Bytes("il-pass-b", idx, 14)
		LA, LB := hashes[a.hi].alg.Len, hashes[b.hi].alg.Len
		where := map[string]any{"A": fmt.Sprintf("%x", spA.Encode()), "B": fmt.Sprintf("%x", spB.Encode())}
		var bad string
		if p, v, st := vf.Protect(func() {
			bufA, bufB := spA.Encode(), spB.Encode()
			fA, errA := s2k.Parse(bytes.NewReader(bufA))
			fB, errB := s2k.Parse(bytes.NewReader(bufB))
			if errA != nil || errB != nil {
				bad = "Parse rejects a valid specifier"
				return
			}
			wipe(bufA)
			wipe(bufB)
			for step, x := range []struct {
				f    func(out, in []byte)
				sp   s2kref.Spec
				pass []byte
				kl   int
				who  string
			}{{fA, spA, passA, LA + 1, "A"}, {fB, spB, passB, 2*LB + 1, "B"}, {fA, spA, passA, 2 * LA, "A"}, {fB, spB, passB, 1, "B"}} {
				_, got := dest(x.kl)
				x.f(got, x.pass)
				if !bytes.Equal(got, s2kref.Derive(x.sp, x.pass, x.kl)) {
					bad = fmt.Sprintf("step %d: function %s does not derive the key of its own specifier", step, x.who)
					return
				}
			}
		}); p {
			c.Violation("derivation panics with two parsed functions in use", map[string]any{"at": where, "panic": fmt.Sprint(v), "stack": st})
			return
		}
		c.Eval(4)
		if bad != "" {
			where["what"] = bad
			c.Violation("functions returned by two Parse calls disturb each other", where)
		}
		c.Nontrivial(fmt.Sprintf("il/%d", idx))
	})
}
