package main

import (
	"bytes"
	"crypto"
	_ "crypto/sha1"
	_ "crypto/sha256"
	"fmt"
	"sync"

	"golang.org/x/crypto/openpgp/s2k"
)

func compute(g, i int) [][]byte {
	pw, salt := []byte(fmt.Sprint("passphrase", g, i)), []byte(fmt.Sprintf("salt%04d", g*100+i))
	o1, o2, o3 := make([]byte, 40+i%30), make([]byte, 33), make([]byte, 70)
	s2k.Simple(o1, crypto.SHA1.New(), pw)
	s2k.Salted(o2, crypto.SHA256.New(), pw, salt)
	s2k.Iterated(o3, crypto.SHA256.New(), pw, salt, 1024+i*64)
	return [][]byte{o1, o2, o3}
}

func main() {
	const G, N = 4, 40
	want := make([][][][]byte, G)
	for g := 0; g < G; g++ {
		for i := 0; i < N; i++ {
			want[g] = append(want[g], compute(g, i))
		}
	}
	var wg sync.WaitGroup
	var mu sync.Mutex
	bad := ""
	for g := 0; g < G; g++ {
		wg.Add(1)
		go func(g int) {
			defer wg.Done()
			for i := 0; i < N; i++ {
				got := compute(g, i)
				for k := range got {
					if !bytes.Equal(got[k], want[g][i][k]) {
						mu.Lock()
						if bad == "" {
							bad = fmt.Sprintf("goroutine %d call %d result %d differs from the same call made alone", g, i, k)
						}
						mu.Unlock()
						return
					}
				}
			}
		}(g)
	}
	wg.Wait()
	if bad != "" {
		fmt.Println("COMPANION-MISMATCH:", bad)
	}
	fmt.Println("race companion: rounds completed:", 1)
}
