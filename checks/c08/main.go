// C08: SHA-3, SHAKE, cSHAKE and legacy Keccak match FIPS 202 / SP 800-185 / Keccak.
//
// The sha3 package (a wrapper over the standard library for everything except the
// legacy Keccak functions, so the standard library is NOT used as an oracle) is compared
// byte for byte with the sponge model verif/ref/keccakref over
//
//	G  grid: each of SHA3-224/256/384/512, SHAKE128/256, legacy Keccak-256/512 x every
//	   message length 0..2*rate+1 (and 1000) x write chunkings (one call, byte-wise, strides
//	   rate-1/rate/rate+1/7, every two-way split, boundary three-way splits) x value classes;
//	   XOFs additionally x read chunkings of a 2*rate+50 byte output; one-shot SumNNN and
//	   ShakeSumNNN for every length (ShakeSum also x output lengths up to 1000);
//	C  cSHAKE128/256 x (N,S) length pairs {0,1,200}^2 and the left_encode boundaries
//	   (31/32 and 8191/8192 bytes) x message lengths around the rate x 1000 output bytes;
//	S  every history over {Write, Sum, CloneSwitch, CloneKeep, Read(0,1,rate-1,rate,rate+1,
//	   1000), Reset} to a depth for SHAKE128/256 and two cSHAKE instances (Write/Sum after
//	   Read must panic, Sum never changes the state, clones are independent: all objects
//	   are observed again at the end), and over {Write, Sum, Reset} for SHA3-256 and the
//	   legacy Keccak hashes;
//	L  long inputs (and, for io.Reader kinds, long outputs) 2^k+{-1,0,1,rate-1,rate,rate+1}.
//
// Hardening pass: caller-owned Write buffers, pre-filled Read/Sum destinations, mid-stream
// Sum at every cut and Reset-of-a-used-object in G, read-chunking grid on the legacy sponge.
package main

import (
	"bytes"
	"fmt"
	"hash"
	"io"
	"strings"
	"time"

	"golang.org/x/crypto/sha3"
	"verif/ref/keccakref"
	"verif/vf"
)

func main() { vf.Main("C08", vf.ModelChecking, run) }

type kind struct {
	name     string
	rate     int
	outLen   int // digest size, or the number of bytes Sum returns for an XOF
	newHash  func() hash.Hash
	newShake func() sha3.ShakeHash // nil for fixed-output hashes
	stream   func(msg []byte, n int) []byte
	oneShot  func(msg []byte) []byte
	shakeSum func(out, msg []byte)
}

func (k *kind) xof() bool { return k.newShake != nil }

func fixed(name string, bits int, ds byte, f func() hash.Hash, one func([]byte) []byte) *kind {
	rate := 200 - 2*bits/8
	return &kind{name: name, rate: rate, outLen: bits / 8, newHash: f, oneShot: one,
		stream: func(m []byte, n int) []byte { return keccakref.Sponge(rate, ds, m, n) }}
}

func shake(name string, bits int, f func() sha3.ShakeHash, sum func(out, msg []byte)) *kind {
	rate := 200 - 2*bits/8
	return &kind{name: name, rate: rate, outLen: bits / 4, newShake: f, shakeSum: sum,
		newHash: func() hash.Hash { return f() },
		stream:  func(m []byte, n int) []byte { return keccakref.SHAKE(bits, m, n) }}
}

func cshake(bits int, N, S []byte) *kind {
	rate := 200 - 2*bits/8
	f := func() sha3.ShakeHash {
		// the constructor gets private copies which are overwritten as soon as it returns:
		// the caller may reuse its N and S buffers, the instance (also after Reset and in
		// clones) must keep the customization it was created with
		nc, sc := append([]byte{}, N...), append([]byte{}, S...)
		var h sha3.ShakeHash
		if bits == 128 {
			h = sha3.NewCShake128(nc, sc)
		} else {
			h = sha3.NewCShake256(nc, sc)
		}
		for i := range nc {
			nc[i] ^= 0xFF
		}
		for i := range sc {
			sc[i] ^= 0xFF
		}
		return h
	}
	return &kind{name: fmt.Sprintf("cSHAKE%d(N=%dB,S=%dB)", bits, len(N), len(S)), rate: rate, outLen: bits / 4, newShake: f,
		newHash: func() hash.Hash { return f() },
		stream:  func(m []byte, n int) []byte { return keccakref.CSHAKE(bits, N, S, m, n) }}
}

func baseKinds() []*kind {
	return []*kind{
		fixed("SHA3-224", 224, keccakref.DsSHA3, sha3.New224, func(m []byte) []byte { s := sha3.Sum224(m); return s[:] }),
		fixed("SHA3-256", 256, keccakref.DsSHA3, sha3.New256, func(m []byte) []byte { s := sha3.Sum256(m); return s[:] }),
		fixed("SHA3-384", 384, keccakref.DsSHA3, sha3.New384, func(m []byte) []byte { s := sha3.Sum384(m); return s[:] }),
		fixed("SHA3-512", 512, keccakref.DsSHA3, sha3.New512, func(m []byte) []byte { s := sha3.Sum512(m); return s[:] }),
		fixed("legacy Keccak-256", 256, keccakref.DsKeccak, sha3.NewLegacyKeccak256, nil),
		fixed("legacy Keccak-512", 512, keccakref.DsKeccak, sha3.NewLegacyKeccak512, nil),
		shake("SHAKE128", 128, sha3.NewShake128, sha3.ShakeSum128),
		shake("SHAKE256", 256, sha3.NewShake256, sha3.ShakeSum256),
	}
}

var ones = func() []int {
	o := make([]int, 4096)
	for i := range o {
		o[i] = 1
	}
	return o
}()

// plans calls f with each chunking of L bytes (the slice is only valid during the call).
func plans(L, B int, full bool, f func(plan []int) bool) int {
	n := 0
	var buf [3]int
	emit := func(p []int) bool { n++; return f(p) }
	buf[0] = L
	if !emit(buf[:1]) {
		return n
	}
	if L > 0 && L <= len(ones) && !emit(ones[:L]) {
		return n
	}
	for _, st := range []int{7, B - 1, B, B + 1} {
		if L > st {
			var p []int
			for r := L; r > 0; r -= st {
				if r < st {
					p = append(p, r)
				} else {
					p = append(p, st)
				}
			}
			if !emit(p) {
				return n
			}
		}
	}
	if !full {
		return n
	}
	for x := 0; x <= L; x++ {
		buf[0], buf[1] = x, L-x
		if !emit(buf[:2]) {
			return n
		}
	}
	cuts := [...]int{0, 1, B - 1, B, B + 1, 2*B - 1, 2 * B, 2*B + 1, L - 1, L}
	for i, x := range cuts {
		for j, y := range cuts {
			if x < 0 || x > y || y > L || i > j {
				continue
			}
			buf[0], buf[1], buf[2] = x, y-x, L-y
			if !emit(buf[:3]) {
				return n
			}
		}
	}
	return n
}

func clobber(b []byte) {
	for i := range b {
		b[i] ^= 0xFF
	}
}

// dirty returns a destination of length n that holds old (non-zero) contents.
func dirty(n int) []byte {
	b := make([]byte, n)
	for i := range b {
		b[i] = 0xA5 ^ byte(i)
	}
	return b
}

// sumInto calls h.Sum with a prefix slice that has spare, pre-filled capacity (a reused
// destination) and returns the result.
func sumInto(h hash.Hash, outLen int) []byte {
	dst := dirty(3 + outLen + 8)
	copy(dst, "pfx")
	return h.Sum(dst[:3])
}

func dataClass(c *vf.Ctx, label string, class, n int) []byte {
	switch class {
	case 1:
		return bytes.Repeat([]byte{0xff}, n)
	case 2:
		return make([]byte, n)
	}
	return c.Bytes(label, class, n)
}

func run(c *vf.Ctx) {
	c.Rule("(G) functions {SHA3-224/256/384/512, SHAKE128/256, legacy Keccak-256/512} x every message length 0..2*rate+1 and 1000 x write chunkings {one, byte-wise, strides 7/rate-1/rate/rate+1, every two-way split, boundary three-way splits} x value classes {seeded, 0xFF, 0x00}; XOFs x read chunkings; one-shot Sum/ShakeSum x every length (x output lengths); " +
		"(C) cSHAKE128/256 x (N,S) lengths {0,1,200}^2 + {31,32,8191,8192} x message lengths {0,1,rate-1,rate,rate+1,2rate+1} x 1000 output bytes in two read chunkings; " +
		"(P) cSHAKE128/256 x (N,S) = every split t[:i]/t[i:] (and t[:i]/t[i+1:] at separator-like bytes) of 9 short strings containing 0x00, 0x01, ',', '|', ':' and digits, all instantiated one after the other in one process (one string set ascending, an isomorphic set descending), each through Write/Sum/second-instance/Clone/Read/Reset against the model, all instances observed again at the end; " +
		"(S) every history over {Write 1,rate-1,rate+1; Sum; CloneSwitch; CloneKeep; Read 0,1,rate-1,rate,rate+1,1000; Reset} to depth D (XOFs) and {Write 1,rate-1,rate,rate+1; Sum; Reset} (fixed-output), no state merging, every object observed again at the end. " +
		"(L) long inputs 2^k+{-1,0,1,rate-1,rate,rate+1}, k=10..kmax (legacy Keccak, whose code lives in the package: kmax 20 quick / 22 thorough; functions forwarding to the standard library: 16 / 20) x write chunkings {one, 1/rate-1/rate+1 then rest, two parts meeting at 2^(k-1)+1, strides 4095 and 65537} on a reused (Reset) object + one-shot Sum, and for every io.Reader kind (XOFs, legacy sponge) output streams of those lengths in the same chunkings + ShakeSum. " +
		"Non-initial states in (G): every message also with a double Sum in the middle at every cut (class 0; boundary cuts otherwise) and on an object that absorbed L other bytes and was Reset. " +
		"Caller-owned buffers / reused destinations: every Write gets a private copy that is overwritten afterwards, every Read and Sum destination is pre-filled with old contents (Sum: spare capacity behind the prefix) and overwritten after the comparison; cSHAKE N and S are overwritten after the constructor returns; the read-chunking grid also runs on the legacy sponge (io.Reader of the concrete type). " +
		"non-trivial = distinct (function, message length, class) with length >= rate-1 (padding/second block involved), every cSHAKE case with non-empty N or S, every history of depth >= 2. oracle = Keccak-f[1600] sponge model (ref/keccakref)")
	c.Assume("reference model verif/ref/keccakref (validated against FIPS 202 / SP 800-185 / Keccak-team vectors and CPython hashlib)")
	c.Assume("Sum after Read followed by Reset is left unspecified (the wrapper keeps its squeezing flag): either the documented panic or the correct digest is accepted")

	kinds := baseKinds()
	t0 := time.Now()
	for _, k := range kinds {
		grid(c, k)
	}
	tl := time.Now()
	for i, k := range kinds {
		longGrid(c, k, i == 4 || i == 5)
	}
	c.Set("section_wall_L_s", fmt.Sprintf("%.1f", time.Since(tl).Seconds()))
	t1 := time.Now()
	cshakeGrid(c)
	cshakePairs(c)
	t2 := time.Now()
	defer func() {
		c.Set("section_wall_s", fmt.Sprintf("G=%.1f C=%.1f S=%.1f", t1.Sub(t0).Seconds(), t2.Sub(t1).Seconds(), time.Since(t2).Seconds()))
	}()
	seqKinds := []*kind{kinds[6], kinds[7],
		cshake(128, []byte("a"), c.Bytes("S-custom", 0, 200)),
		cshake(256, nil, []byte("x")),
		kinds[1], kinds[4], kinds[5]}
	for _, k := range seqKinds {
		sequences(c, k)
	}
}

// ------------------------------------------------------------------ G

func grid(c *vf.Ctx, k *kind) {
	R := k.rate
	var lens []int
	for L := 0; L <= 2*R+1; L++ {
		lens = append(lens, L)
	}
	lens = append(lens, 1000)
	nclass := 3
	if c.Thorough {
		nclass = 3 + c.V()
	}
	type gc struct{ L, class int }
	var cs []gc
	for cl := 0; cl < nclass; cl++ {
		for _, L := range lens {
			cs = append(cs, gc{L, cl})
		}
	}
	outN := 2*R + 50
	pfor(c, k.name+" section G", len(cs), func(i int) {
		g := cs[i]
		msg := dataClass(c, "G-"+k.name, g.class, g.L)
		want := k.stream(msg, max(outN, 1000))
		fail := func(what string, d map[string]any) {
			d["function"] = k.name
			d["msglen"] = g.L
			d["class"] = g.class
			c.Violation(k.name+": "+what, d)
		}
		bad := false
		full := g.class == 0 || c.Thorough
		plans(g.L, R, full, func(plan []int) bool {
			h := k.newHash()
			pos := 0
			for _, n := range plan {
				// the caller owns the buffer: private copy, overwritten after the call
				wbuf := append([]byte(nil), msg[pos:pos+n]...)
				w, err := h.Write(wbuf)
				if w != n || err != nil {
					fail("Write return value wrong", map[string]any{"n": n, "got": w})
					bad = true
					return false
				}
				clobber(wbuf)
				pos += n
			}
			c.Eval(1)
			got := sumInto(h, k.outLen)
			if len(got) != 3+k.outLen || string(got[:3]) != "pfx" || !bytes.Equal(got[3:], want[:k.outLen]) {
				pl := append([]int(nil), plan...)
				if len(pl) > 8 {
					pl = pl[:8]
				}
				fail("Sum != reference digest (length/chunking grid)", map[string]any{"writes(first 8)": pl, "got": fmt.Sprintf("%x", got), "want": fmt.Sprintf("%x", want[:k.outLen])})
				bad = true
				return false
			}
			if k.xof() {
				out := dirty(outN)
				h.(sha3.ShakeHash).Read(out)
				if !bytes.Equal(out, want[:outN]) {
					fail("Read output != reference stream (write chunking grid)", map[string]any{"writes": len(plan)})
					bad = true
					return false
				}
			}
			return true
		})
		if bad {
			return
		}
		// dimension D (non-initial states): the same message with a double Sum in the middle at
		// every cut (class 0; boundary cuts otherwise), and on an object that absorbed L other
		// bytes (and, for odd L, was summed) before being Reset
		if !gridStates(c, k, g.L, g.class, msg, want[:k.outLen], fail) {
			return
		}
		if _, isReader := k.newHash().(io.Reader); isReader {
			// read chunkings of the output: the XOFs, and the squeezing side of the legacy
			// sponge (its concrete type is an io.Reader; Sum only ever squeezes one block)
			plans(outN, R, false, func(plan []int) bool {
				h := k.newHash()
				h.Write(msg)
				pos := 0
				c.Eval(1)
				for _, n := range plan {
					buf := dirty(n) // reused destination: old contents must be overwritten, not combined
					r, err := h.(io.Reader).Read(buf)
					if r != n || err != nil || !bytes.Equal(buf, want[pos:pos+n]) {
						fail("Read output != reference stream (read chunking grid)", map[string]any{"read_size": n, "position": pos})
						bad = true
						return false
					}
					clobber(buf) // the destination is the caller's again
					pos += n
				}
				return true
			})
			if bad {
				return
			}
		}
		if k.xof() {
			for _, on := range []int{0, 1, 32, R - 1, R, R + 1, 2*R + 1, 1000} {
				out := make([]byte, on)
				k.shakeSum(out, msg)
				c.Eval(1)
				if !bytes.Equal(out, want[:on]) {
					fail("ShakeSum != reference stream", map[string]any{"outlen": on})
					return
				}
			}
			if h := k.newShake(); h.Size() != k.outLen || h.BlockSize() != R {
				fail("Size/BlockSize wrong", map[string]any{"size": h.Size(), "blocksize": h.BlockSize()})
			}
		} else {
			if h := k.newHash(); h.Size() != k.outLen || h.BlockSize() != R {
				fail("Size/BlockSize wrong", map[string]any{"size": h.Size(), "blocksize": h.BlockSize()})
			}
			if k.oneShot != nil {
				c.Eval(1)
				if got := k.oneShot(msg); !bytes.Equal(got, want[:k.outLen]) {
					fail("one-shot Sum != reference digest", map[string]any{"got": fmt.Sprintf("%x", got)})
					return
				}
			}
		}
		if g.L >= R-1 {
			c.Nontrivial(fmt.Sprintf("G/%s/%d/%d", k.name, g.L, g.class))
		}
		if g.L == 2*R+1 && g.class == 0 {
			c.Sample(map[string]any{"section": "G", "function": k.name, "msglen": g.L, "rate": R, "digest": vf.Hex8(want[:k.outLen])})
		}
	})
}

func gridStates(c *vf.Ctx, k *kind, L, class int, msg, want []byte, fail func(string, map[string]any)) bool {
	R := k.rate
	midSum := func(cut int) bool {
		h := k.newHash()
		h.Write(msg[:cut])
		s1 := h.Sum(nil)
		s2 := sumInto(h, k.outLen)[3:]
		c.Eval(1)
		if !bytes.Equal(s1, s2) {
			fail("Sum in the middle of a stream is not idempotent", map[string]any{"cut": cut})
			return false
		}
		clobber(s1)
		clobber(s2)
		h.Write(msg[cut:])
		if got := h.Sum(nil); !bytes.Equal(got, want) {
			fail("Sum in the middle of a stream alters the running state", map[string]any{"cut": cut, "got": fmt.Sprintf("%x", got), "want": fmt.Sprintf("%x", want)})
			return false
		}
		return true
	}
	if class == 0 || c.Thorough {
		for cut := 0; cut <= L; cut++ {
			if !midSum(cut) {
				return false
			}
		}
	} else {
		for _, cut := range [...]int{0, 1, R - 1, R, R + 1, 2 * R, L - 1, L} {
			if cut >= 0 && cut <= L && !midSum(cut) {
				return false
			}
		}
	}
	h := k.newHash()
	junk := make([]byte, L)
	for i := range junk {
		junk[i] = ^msg[i] ^ byte(i)
	}
	h.Write(junk)
	if L&1 == 1 {
		h.Sum(nil)
	}
	h.Reset()
	h.Write(msg)
	c.Eval(1)
	if got := h.Sum(nil); !bytes.Equal(got, want) {
		fail("Reset of a used object does not restore the initial state", map[string]any{"got": fmt.Sprintf("%x", got), "want": fmt.Sprintf("%x", want)})
		return false
	}
	return true
}

// ------------------------------------------------------------------ L (long inputs / outputs)

// longGrid: message lengths 2^k+{-1,0,1,R-1,R,R+1} in write chunkings whose boundaries sit
// on and cross those points, and (io.Reader kinds) output streams of those lengths in
// read chunkings likewise. kmax is 22 for the legacy Keccak code that lives in the
// package (20 in quick: the sponge model absorbs only a few MB/s) and smaller for the
// functions that merely forward to the standard library.
func longGrid(c *vf.Ctx, k *kind, legacy bool) {
	R := k.rate
	kmax := 16
	switch {
	case legacy && c.Thorough:
		kmax = 22
	case legacy || c.Thorough:
		kmax = 20
	}
	var lens []int
	seen := map[int]bool{}
	for e := 10; e <= kmax; e++ {
		for _, d := range []int{-1, 0, 1, R - 1, R, R + 1} {
			if L := 1<<e + d; !seen[L] {
				seen[L] = true
				lens = append(lens, L)
			}
		}
	}
	long := c.Bytes("L-"+k.name, 0, 1<<kmax+R+1)
	_, isReader := k.newHash().(io.Reader)
	longPlans := func(L int) [][]int {
		ps := [][]int{{L}, {1, L - 1}, {R - 1, L - R + 1}, {R + 1, L - R - 1}}
		half := 1
		for half*2 < L {
			half *= 2
		}
		ps = append(ps, []int{half/2 + 1, L - half/2 - 1})
		for _, st := range []int{4095, 65537} {
			if L > st {
				var p []int
				for r := L; r > 0; r -= st {
					p = append(p, min(r, st))
				}
				ps = append(ps, p)
			}
		}
		return ps
	}
	modes := 1
	if isReader {
		modes = 2
	}
	pfor(c, k.name+" section L", len(lens)*modes, func(j int) {
		L := lens[len(lens)-1-j/modes] // longest first
		if j%modes == 0 {
			msg := long[:L]
			want := k.stream(msg, k.outLen)
			h := k.newHash()
			for pi, plan := range longPlans(L) {
				if pi > 0 {
					h.Reset() // reused object
				}
				pos := 0
				for _, n := range plan {
					h.Write(msg[pos : pos+n])
					pos += n
				}
				c.Eval(1)
				if got := sumInto(h, k.outLen)[3:]; !bytes.Equal(got, want) {
					c.Violation(k.name+": Sum != reference digest (long input)", map[string]any{"function": k.name, "msglen": L, "chunking": pi, "got": fmt.Sprintf("%x", got), "want": fmt.Sprintf("%x", want)})
					return
				}
			}
			if k.oneShot != nil {
				c.Eval(1)
				if got := k.oneShot(msg); !bytes.Equal(got, want) {
					c.Violation(k.name+": one-shot Sum != reference digest (long input)", map[string]any{"function": k.name, "msglen": L})
					return
				}
			}
			c.Nontrivial(fmt.Sprintf("L/%s/in/%d", k.name, L))
			if L == 1<<kmax+R+1 {
				c.Sample(map[string]any{"section": "L", "function": k.name, "msglen": L, "digest": vf.Hex8(want)})
			}
			return
		}
		// long output of a short message
		msg := long[:R+1]
		want := k.stream(msg, L)
		for pi, plan := range longPlans(L) {
			h := k.newHash()
			h.Write(msg)
			pos := 0
			c.Eval(1)
			for _, n := range plan {
				buf := dirty(n)
				r, err := h.(io.Reader).Read(buf)
				if r != n || err != nil || !bytes.Equal(buf, want[pos:pos+n]) {
					c.Violation(k.name+": Read output != reference stream (long output)", map[string]any{"function": k.name, "outlen": L, "chunking": pi, "position": pos, "read_size": n})
					return
				}
				pos += n
			}
		}
		if k.shakeSum != nil {
			out := dirty(L)
			k.shakeSum(out, msg)
			c.Eval(1)
			if !bytes.Equal(out, want) {
				c.Violation(k.name+": ShakeSum != reference stream (long output)", map[string]any{"function": k.name, "outlen": L})
				return
			}
		}
		c.Nontrivial(fmt.Sprintf("L/%s/out/%d", k.name, L))
	})
}

// ------------------------------------------------------------------ C

func cshakeGrid(c *vf.Ctx) {
	type ns struct{ n, s int }
	var pairs []ns
	for _, n := range []int{0, 1, 200} {
		for _, s := range []int{0, 1, 200} {
			pairs = append(pairs, ns{n, s})
		}
	}
	for _, l := range []int{31, 32, 8191, 8192} {
		pairs = append(pairs, ns{0, l}, ns{l, 0}, ns{l, 3})
	}
	type cc struct {
		bits int
		p    ns
		ml   int
	}
	var cs []cc
	for _, bits := range []int{128, 256} {
		R := 200 - 2*bits/8
		for _, p := range pairs {
			for _, ml := range []int{0, 1, R - 1, R, R + 1, 2*R + 1} {
				cs = append(cs, cc{bits, p, ml})
			}
		}
	}
	pfor(c, "cSHAKE section C", len(cs), func(i int) {
		x := cs[i]
		N := c.Bytes("C-N", x.p.n, x.p.n)
		S := c.Bytes("C-S", x.p.s, x.p.s)
		msg := c.Bytes("C-msg", x.ml, x.ml)
		k := cshake(x.bits, N, S)
		want := k.stream(msg, 1000)
		c.Eval(2)
		h := k.newShake()
		h.Write(msg)
		sum := h.Sum(nil)
		out := make([]byte, 1000)
		h.Read(out)
		if !bytes.Equal(sum, want[:k.outLen]) || !bytes.Equal(out, want) {
			c.Violation(fmt.Sprintf("cSHAKE%d: output != SP 800-185 reference", x.bits), map[string]any{"N_len": x.p.n, "S_len": x.p.s, "msglen": x.ml})
			return
		}
		// split write, chunked read
		h = k.newShake()
		h.Write(msg[:x.ml/2])
		h.Write(msg[x.ml/2:])
		got := make([]byte, 0, 1000)
		for len(got) < 1000 {
			n := min(k.rate-1, 1000-len(got))
			b := make([]byte, n)
			h.Read(b)
			got = append(got, b...)
		}
		if !bytes.Equal(got, want) {
			c.Violation(fmt.Sprintf("cSHAKE%d: chunked output != SP 800-185 reference", x.bits), map[string]any{"N_len": x.p.n, "S_len": x.p.s, "msglen": x.ml})
			return
		}
		if x.p.n > 0 || x.p.s > 0 {
			c.Nontrivial(fmt.Sprintf("C/%d/%d/%d/%d", x.bits, x.p.n, x.p.s, x.ml))
		}
		if x.p.n == 200 && x.p.s == 200 && x.ml == 1 {
			c.Sample(map[string]any{"section": "C", "function": k.name, "msglen": x.ml, "first_bytes": vf.Hex8(want[:16])})
		}
	})
}

// ------------------------------------------------------------------ P (cSHAKE customization pairs in one process)

// cshakePairs: (N,S) pairs that are every split of short strings containing 0x00, 0x01,
// ',', '|' and digits - t[:i] / t[i:] for every i, and t[:i] / t[i+1:] when t[i] is one of
// those separator-like bytes - so that N||S, N||sep||S and digit-prefixed concatenations
// coincide across DIFFERENT pairs. All pairs of a variant are instantiated one after the
// other in ONE process (first string set in ascending order, an isomorphic second set in
// descending order, so each member of a colliding group is once the first and once the
// later one), every earlier instance stays alive, and each instance is compared with the
// SP 800-185 model through Write/Sum/Read/Clone/Reset; a second instance of the same
// (N,S) is created after the first has absorbed data and must start from the initial
// state; all instances are observed once more at the very end.
func cshakePairs(c *vf.Ctx) {
	type pair struct{ N, S string }
	mk := func(strs []string) []pair {
		var ps []pair
		seen := map[pair]bool{}
		add := func(p pair) {
			if !seen[p] {
				seen[p] = true
				ps = append(ps, p)
			}
		}
		for _, t := range strs {
			for i := 0; i <= len(t); i++ {
				add(pair{t[:i], t[i:]})
				if i < len(t) && strings.IndexByte("\x00\x01,|:0123456789", t[i]) >= 0 {
					add(pair{t[:i], t[i+1:]})
				}
			}
		}
		return ps
	}
	set1 := mk([]string{"A\x00B\x00C", "\x00\x00\x00", "A\x01B\x01C", "a,b,c", "a|b|c", "1A1B2", "1:A1:B", "\x00\x01,|", "\x01A\x01B"})
	set2 := mk([]string{"X\x00Y\x00Z", "\x00\x00\x00\x00", "X\x01Y\x01Z", "x,y,z", "x|y|z", "1X1Y2", "1:X1:Y", "\x01\x00|,", "\x01X\x01Y"})
	for i, j := 0, len(set2)-1; i < j; i, j = i+1, j-1 {
		set2[i], set2[j] = set2[j], set2[i]
	}
	order := append(set1, set2...)
	msg := c.Bytes("P-msg", 0, 200)
	for _, bits := range []int{128, 256} {
		type live struct {
			k *kind
			h sha3.ShakeHash
			p pair
		}
		var alive []live
		bad := func(p pair, idx int, what string) {
			c.Violation(fmt.Sprintf("cSHAKE%d: %s (customization pairs in one process)", bits, what),
				map[string]any{"N": fmt.Sprintf("%q", p.N), "S": fmt.Sprintf("%q", p.S), "position_in_sequence": idx})
		}
		for idx, p := range order {
			k := cshake(bits, []byte(p.N), []byte(p.S))
			R := k.rate
			want := k.stream(msg[:R+1], 300)
			want0 := k.stream(nil, 300)
			c.Eval(1)
			fails := ""
			if pn, v, _ := vf.Protect(func() {
				h := k.newShake()
				h.Write(msg[:R+1])
				if got := sumInto(h, k.outLen)[3:]; !bytes.Equal(got, want[:k.outLen]) {
					fails = "Sum != SP 800-185 reference"
					return
				}
				// a second instance of the same (N,S), created while the first holds data
				h2 := k.newShake()
				out := dirty(300)
				h2.Read(out)
				if !bytes.Equal(out, want0) {
					fails = "second instance of the same (N,S) does not start from the initial state"
					return
				}
				cl := h.Clone()
				out = dirty(300)
				h.Read(out)
				if !bytes.Equal(out, want) {
					fails = "Read output != SP 800-185 reference"
					return
				}
				out = dirty(300)
				cl.Read(out)
				if !bytes.Equal(out, want) {
					fails = "Clone output != SP 800-185 reference"
					return
				}
				h.Reset()
				h.Write(msg[:1])
				h.Write(msg[1 : R+1])
				out = dirty(300)
				h.Read(out)
				if !bytes.Equal(out, want) {
					fails = "output after Reset != SP 800-185 reference"
					return
				}
				// a fresh instance kept alive (absorbing) for the final pass
				keep := k.newShake()
				keep.Write(msg[:7])
				alive = append(alive, live{k, keep, p})
			}); pn {
				fails = fmt.Sprintf("unexpected panic: %v", v)
			}
			if fails != "" {
				bad(p, idx, fails)
				continue
			}
			if len(p.N)+len(p.S) > 0 {
				c.Nontrivial(fmt.Sprintf("P/%d/%q/%q", bits, p.N, p.S))
			}
			if p.N == "A" && p.S == "B\x00C" {
				c.Sample(map[string]any{"section": "P", "function": k.name, "N": fmt.Sprintf("%q", p.N), "S": fmt.Sprintf("%q", p.S), "pairs_in_process": len(order), "first_bytes": vf.Hex8(want[:16])})
			}
		}
		// every instance created along the way is still the instance of ITS (N,S)
		for idx, l := range alive {
			c.Eval(1)
			fails := ""
			if pn, v, _ := vf.Protect(func() {
				want := l.k.stream(msg[:7], 100)
				if got := l.h.Sum(nil); !bytes.Equal(got, want[:l.k.outLen]) {
					fails = "instance kept alive: Sum != SP 800-185 reference after other customizations were instantiated"
					return
				}
				cl := l.h.Clone()
				out := dirty(100)
				cl.Read(out)
				if !bytes.Equal(out, want) {
					fails = "instance kept alive: Clone output != SP 800-185 reference after other customizations were instantiated"
					return
				}
				l.h.Reset()
				out = dirty(100)
				l.h.Read(out)
				if !bytes.Equal(out, l.k.stream(nil, 100)) {
					fails = "instance kept alive: output after Reset != SP 800-185 reference after other customizations were instantiated"
				}
			}); pn {
				fails = fmt.Sprintf("unexpected panic: %v", v)
			}
			if fails != "" {
				bad(l.p, idx, fails)
			}
		}
	}
}

// ------------------------------------------------------------------ S

type op struct {
	kind byte // W write, S sum, C clone-switch, K clone-keep, R read, Z reset
	n    int
}

func opName(o op) string {
	switch o.kind {
	case 'W':
		return fmt.Sprintf("Write(%d)", o.n)
	case 'S':
		return "Sum"
	case 'C':
		return "CloneSwitch"
	case 'K':
		return "CloneKeep"
	case 'Z':
		return "Reset"
	}
	return fmt.Sprintf("Read(%d)", o.n)
}

type obj struct {
	h         hash.Hash
	msg       []byte
	squeezing bool
	everRead  bool // a Read happened at some point of this object's (or its ancestor's) life
	outpos    int
	stream    []byte // cached reference stream of msg
}

func (o *obj) want(k *kind, from, n int) []byte {
	if len(o.stream) < from+n {
		o.stream = k.stream(o.msg, from+n+k.rate) // a little ahead; grows on demand
	}
	return o.stream[from : from+n]
}

// sum checks Sum on an absorbing object ("" = fine).
func (o *obj) sum(k *kind) string {
	var got []byte
	dst := dirty(1 + k.outLen + 8)
	dst[0] = 9
	p, v, _ := vf.Protect(func() { got = o.h.Sum(dst[:1]) })
	defer func() { clobber(got) }()
	if p {
		if o.everRead {
			return "" // unspecified after Read+Reset (see assumptions)
		}
		return fmt.Sprintf("Sum panics before any Read | %v", v)
	}
	if len(got) != 1+k.outLen || got[0] != 9 || !bytes.Equal(got[1:], o.want(k, 0, k.outLen)) {
		return "Sum != reference digest of the bytes written"
	}
	return ""
}

func (o *obj) read(k *kind, n int) string {
	buf := dirty(n)
	defer clobber(buf)
	var r int
	var err error
	if p, v, _ := vf.Protect(func() { r, err = o.h.(sha3.ShakeHash).Read(buf) }); p {
		return fmt.Sprintf("Read panics | %v", v)
	}
	o.squeezing, o.everRead = true, true
	if r != n || err != nil {
		return fmt.Sprintf("Read return value wrong | (%d,%v) for %d", r, err, n)
	}
	if !bytes.Equal(buf, o.want(k, o.outpos, n)) {
		return "Read output != reference stream"
	}
	o.outpos += n
	return ""
}

func sequences(c *vf.Ctx, k *kind) {
	R := k.rate
	var ops []op
	if k.xof() {
		ops = []op{{'W', 1}, {'R', 1}, {'S', 0}, {'C', 0}, {'K', 0}, {'Z', 0}, {'W', R - 1}, {'W', R + 1}, {'R', 0}, {'R', R - 1}, {'R', R}, {'R', R + 1}, {'R', 1000}}
	} else {
		ops = []op{{'W', 1}, {'S', 0}, {'Z', 0}, {'W', R - 1}, {'W', R}, {'W', R + 1}}
	}
	depth := 4
	if c.Thorough {
		depth = 5
	}
	if !k.xof() {
		depth += 2
	}
	data := c.Bytes("S-"+k.name, 0, depth*(R+1)+8)
	vf.ExploreSeq(c, "S/"+k.name, vf.SeqSpec[op]{
		Ops: ops, Depth: depth, Parallel: true, Name: opName,
		Class: func(h []op, mis string) string {
			cat, _, _ := strings.Cut(mis, " | ")
			return k.name + ": history: " + cat
		},
		Run: func(hist []op) (key string, stop bool, mis string) {
			defer recoverRun(&stop, &mis)
			cur := &obj{h: k.newHash()}
			var parked []*obj
			pos := 0
			panics := 0
			for _, o := range hist {
				switch o.kind {
				case 'W':
					var n int
					var err error
					wbuf := append([]byte(nil), data[pos:pos+o.n]...) // caller-owned: overwritten after the call
					p, v, _ := vf.Protect(func() { n, err = cur.h.Write(wbuf) })
					clobber(wbuf)
					if cur.squeezing {
						if !p {
							return "", true, "Write after Read does not panic"
						}
						panics++
						break
					}
					if p {
						return "", true, fmt.Sprintf("Write panics while absorbing | %v", v)
					}
					if n != o.n || err != nil {
						return "", true, "Write return value wrong"
					}
					cur.msg = append(cur.msg, data[pos:pos+o.n]...)
					cur.stream = nil
					pos += o.n
				case 'S':
					if cur.squeezing {
						if !vf.Panics(func() { cur.h.Sum(nil) }) {
							return "", true, "Sum after Read does not panic"
						}
						panics++
						break
					}
					if m := cur.sum(k); m != "" {
						return "", true, m
					}
				case 'R':
					if m := cur.read(k, o.n); m != "" {
						return "", true, m
					}
				case 'Z':
					if p, v, _ := vf.Protect(func() { cur.h.Reset() }); p {
						return "", true, fmt.Sprintf("Reset panics | %v", v)
					}
					cur.msg, cur.stream, cur.squeezing, cur.outpos = nil, nil, false, 0
				case 'C', 'K':
					var y sha3.ShakeHash
					if p, v, _ := vf.Protect(func() { y = cur.h.(sha3.ShakeHash).Clone() }); p {
						return "", true, fmt.Sprintf("Clone panics | %v", v)
					}
					other := &obj{h: y, msg: append([]byte{}, cur.msg...), squeezing: cur.squeezing, everRead: cur.everRead, outpos: cur.outpos, stream: cur.stream}
					if o.kind == 'C' {
						parked = append(parked, cur)
						cur = other
					} else {
						parked = append(parked, other)
					}
				}
			}
			for i, o := range append([]*obj{cur}, parked...) {
				who := "current object"
				if i > 0 {
					who = "parked clone/original"
				}
				if !o.squeezing {
					if m := o.sum(k); m != "" {
						return "", true, "final " + who + ": " + m
					}
					// Sum must not have changed the state: extend and observe
					extra := data[len(data)-5:]
					if p, v, _ := vf.Protect(func() { o.h.Write(extra) }); p {
						return "", true, "final " + who + fmt.Sprintf(": Write panics while absorbing | %v", v)
					}
					o.msg = append(o.msg, extra...)
					o.stream = nil
					if m := o.sum(k); m != "" {
						return "", true, "final " + who + " after one more Write: " + m
					}
				}
				if k.xof() {
					if m := o.read(k, R+9); m != "" {
						return "", true, "final " + who + ": " + m
					}
				}
			}
			if len(hist) == depth {
				c.Outcome(fmt.Sprintf("S history end: objects=%d documented-panics=%d squeezing=%v", 1+len(parked), panics, cur.squeezing))
			}
			return "", false, ""
		},
	})
}

// pfor is c.ParallelFor with every case guarded: a panic escaping the code under test
// is recorded as a violation instead of crashing the run.
func pfor(c *vf.Ctx, section string, n int, f func(i int)) {
	c.ParallelFor(n, func(i int) {
		if p, v, st := vf.Protect(func() { f(i) }); p {
			if len(st) > 1500 {
				st = st[:1500]
			}
			c.Violation(section+": unexpected panic in the code under test", map[string]any{"case_index": i, "panic": fmt.Sprint(v), "stack": st})
		}
	})
}

// recoverRun turns a panic inside a history into a mismatch of that history.
func recoverRun(stop *bool, mis *string) {
	if r := recover(); r != nil {
		*stop, *mis = true, fmt.Sprintf("unexpected panic | %v", r)
	}
}
