// C40: SSH signatures verify exactly when valid.
//
//	1  signing matrix: every package signer x every algorithm name (key formats, RSA SHA-2
//	   names, certificate names, unknown, "") -> succeeds exactly for the algorithms the key
//	   format allows, result carries the requested format and verifies under the reference.
//	2  verification matrix: every valid signature (package-made, reference-made, software
//	   security keys) x every verifier key (same, other of the same type, other types, other
//	   size, same key under another sk application, certificates wrapping them) x every
//	   presented format name x {same data, other data}: PublicKey.Verify == reference verdict.
//	3  blob faults of every valid signature: every byte position changed (2 ways), truncated,
//	   extended, ECDSA r/s = 0, +n, negated, n-s, non-minimal, trailing data, RSA short/long,
//	   Ed25519 S+L, sk tail truncated/extended/flags/counter changed.
//	4  sk- keys: all 256 flag bytes x counters, direct Verify, and through a real
//	   client/server handshake x {plain key, certificate} x no-touch-required {absent, in the
//	   callback's Permissions.Extensions, in Permissions.CriticalOptions (no opt-out), nil
//	   Permissions, in the certificate's extensions, in the certificate's critical options}.
//	5  NewSignerWithAlgorithms / MultiAlgorithmSigner / NewCertSigner: every ordered list of
//	   up to 3 names, nested restriction, every requested algorithm.
package main

import (
	"bytes"
	"crypto/dsa"
	"crypto/ecdsa"
	"crypto/ed25519"
	"crypto/elliptic"
	"crypto/rand"
	"crypto/rsa"
	"fmt"
	"io"
	"math/big"
	"sort"
	"strings"
	"sync"
	"time"

	"golang.org/x/crypto/ssh"
	"verif/checks/c39/detkeys"
	cr "verif/ref/sshcertref"
	sr "verif/ref/sshsigref"
	"verif/vf"
)

func main() { vf.Main("C40", vf.Exploration, run) }

// keyEnt is one key of the test universe.
type keyEnt struct {
	name    string
	ref     *sr.PubKey    // plain key (for a certificate: the certified key)
	blob    []byte        // wire form handed to ssh.ParsePublicKey (plain or certificate)
	pub     ssh.PublicKey // parsed by the package
	signer  ssh.Signer    // package signer (software keys only)
	refSign func(format string, data []byte) sr.Sig
	skSign  func(flags byte, counter uint32, data []byte) sr.Sig
	isCert  bool
}

func (k *keyEnt) sameMaterial(o *keyEnt) bool { return bytes.Equal(k.ref.Blob(), o.ref.Blob()) }

var algNames = []string{
	sr.RSA, sr.RSASHA256, sr.RSASHA512, sr.DSA, sr.ECDSA256, sr.ECDSA384, sr.ECDSA521, sr.ED25519, sr.SKECDSA, sr.SKED25519,
	sr.CertTypeOf(sr.RSA), "rsa-sha2-256-cert-v01@openssh.com", "rsa-sha2-512-cert-v01@openssh.com",
	sr.CertTypeOf(sr.ED25519), sr.CertTypeOf(sr.ECDSA256), sr.CertTypeOf(sr.SKED25519), sr.CertTypeOf(sr.SKECDSA),
	"foo", "SSH-RSA", "ssh-ed25519 ", "ecdsa-sha2-nistp224",
}

type sigEnt struct {
	by     *keyEnt
	alg    string
	data   []byte
	sig    sr.Sig
	origin string // "package" | "reference" | "security key"
}

func toSSH(s sr.Sig) *ssh.Signature {
	return &ssh.Signature{Format: s.Format, Blob: s.Blob, Rest: s.Rest}
}

func mustPub(c *vf.Ctx, blob []byte) ssh.PublicKey {
	p, err := ssh.ParsePublicKey(blob)
	if err != nil {
		c.Violation("ParsePublicKey rejects a well-formed key blob", map[string]any{"blob": fmt.Sprintf("%x", blob), "err": err.Error()})
		panic("cannot continue without keys: " + err.Error())
	}
	return p
}

func run(c *vf.Ctx) {
	c.Rule("keys include 17 boundary value classes (ECDSA points with X/Y one or two bytes short on every curve, short scalars, ed25519 public keys starting 00/0000, all-zero seed, 1039-bit RSA modulus, short RSA d) as signers and verifiers; 1: signers{rsa2048,rsa1024,p256,p384,p521,ed25519,dsa,classes} x 22 algorithm names; 2: every valid signature x every verifier key (plain + certificate) x every presented format x {same,other data}; " +
		"3: per valid signature every blob byte (blob length depends on the signature value) x{^01,^80}, length -1/+1 front/back, empty, structured ECDSA/RSA/Ed25519/sk faults; 4: 2 sk types x 256 flag bytes x 3 counters direct, and x 10 server configurations through a real handshake; " +
		"5: every ordered list (len 0..3) over allowed+foreign names, nested lists, x every requested algorithm; non-trivial = distinct (part, key, algorithm/fault/flags/config) whose reference verdict and package result were compared; " +
		"H (hardening): EVERY Verify call of parts 2-4 gets private copies of data and signature and must leave data, signature (format, blob, rest) and the key (Marshal) unchanged; per signer x allowed algorithm: data untouched, earlier signatures unchanged by later Sign calls, signer usable after the caller overwrote them; every ordered triple X,Y,X over {allowed algorithms, '', foo, certificate name, foreign algorithm} on ONE signer object for 7 plain signers and RSA signers restricted to [256,512], [512], [512,ssh-rsa]; messages of 2^k+{-1,0,1} bytes for k in {6,7,10,16,20,22} x 9 keys (package-signed -> reference, reference/security-key-signed -> package, far-end byte flips and truncation rejected); per valid signature one fresh key object decides valid, 4-7 kinds of invalid, valid again; in part 4b every 16th flag value also installs VerifiedPublicKeyCallback and the key objects handed to both callbacks must still refuse a signature without user presence after the handshake; " +
		"oracle = reference verifier written from RFC 4253/5656/8332/8709 and PROTOCOL.u2f over the standard library")
	c.Assume("crypto/rsa, crypto/ecdsa, crypto/ed25519, crypto/dsa, crypto/sha* of the standard library are correct")
	c.Assume("encodings on which the RFCs leave verifiers a choice (short RSA blobs under rsa-sha2-*, non-minimal mpints) are not decided; ECDSA (r, n-s) is a valid signature mathematically and counted as such")
	c.Assume("Signer.Sign on a restricted MultiAlgorithmSigner takes no algorithm argument and is only observed")

	keys, hostSigner, caPriv := buildKeys(c)
	sigs := part1(c, keys)
	sigs = append(sigs, refSigs(c, keys)...)
	part2(c, keys, sigs)
	part3(c, keys, sigs)
	part4(c, keys, hostSigner, caPriv)
	part5(c, keys, caPriv)
	partH(c, keys, sigs)
	partO(c, keys) // last: on a defective tree it can leave process-wide state damaged
}

// ---- keys -------------------------------------------------------------------------

func detDSA(label string) *dsa.PrivateKey {
	var k dsa.PrivateKey
	if err := dsa.GenerateParameters(&k.Parameters, vf.NewRand("dsa-params|"+label), dsa.L1024N160); err != nil {
		panic(err)
	}
	if err := dsa.GenerateKey(&k, vf.NewRand("dsa-key|"+label)); err != nil {
		panic(err)
	}
	return &k
}

func certOver(k *sr.PubKey, caPriv ed25519.PrivateKey, exts, crit []cr.Option, label string) []byte {
	ct := &cr.Cert{TypeName: sr.CertTypeOf(k.Type), Nonce: vf.DetBytes("nonce|"+label, 32), KeyFields: k.KeyFields(), Serial: 7, CertType: cr.User,
		KeyID: "id " + label, Principals: []string{"user"}, ValidAfter: 0, ValidBefore: cr.Forever, Critical: crit, Extensions: exts}
	ct.SignWith(sr.FromEd25519(caPriv.Public().(ed25519.PublicKey)).Blob(), func(tbs []byte) sr.Sig { return sr.SignEd25519(caPriv, tbs) })
	return ct.Bytes()
}

func buildKeys(c *vf.Ctx) ([]*keyEnt, ssh.Signer, ed25519.PrivateKey) {
	seed := fmt.Sprint(c.Seed)
	var keys []*keyEnt
	addSoft := func(name string, ref *sr.PubKey, priv any, refSign func(format string, data []byte) sr.Sig) *keyEnt {
		sg, err := ssh.NewSignerFromKey(priv)
		if err != nil {
			c.Violation("NewSignerFromKey rejects a supported key", map[string]any{"key": name, "err": err.Error()})
			panic(err)
		}
		k := &keyEnt{name: name, ref: ref, blob: ref.Blob(), signer: sg, refSign: refSign}
		k.pub = mustPub(c, k.blob)
		if !bytes.Equal(sg.PublicKey().Marshal(), k.blob) {
			c.Violation("signer.PublicKey().Marshal() differs from the reference blob of the key", name)
		}
		keys = append(keys, k)
		return k
	}
	for _, r := range []struct {
		n    string
		bits int
		l    string
	}{{"rsa2048-A", 2048, "A"}, {"rsa2048-B", 2048, "B"}, {"rsa1024-A", 1024, "A"}} {
		priv := detkeys.RSA(r.bits, seed+r.l)
		addSoft(r.n, sr.FromRSA(&priv.PublicKey), priv, func(f string, d []byte) sr.Sig { return sr.SignRSA(priv, f, d) })
	}
	for _, e := range []struct {
		n string
		c elliptic.Curve
		l string
	}{{"p256-A", elliptic.P256(), "A"}, {"p256-B", elliptic.P256(), "B"}, {"p384-A", elliptic.P384(), "A"}, {"p384-B", elliptic.P384(), "B"}, {"p521-A", elliptic.P521(), "A"}, {"p521-B", elliptic.P521(), "B"}} {
		priv := detkeys.ECDSA(e.c, seed+e.l)
		addSoft(e.n, sr.FromECDSA(&priv.PublicKey), priv, func(f string, d []byte) sr.Sig { return sr.SignECDSA(rand.Reader, priv, d) })
	}
	for _, l := range []string{"A", "B"} {
		priv := detkeys.Ed25519(seed + l)
		addSoft("ed25519-"+l, sr.FromEd25519(priv.Public().(ed25519.PublicKey)), priv, func(f string, d []byte) sr.Sig { return sr.SignEd25519(priv, d) })
	}
	dk := detDSA(seed)
	addSoft("dsa-A", sr.FromDSA(&dk.PublicKey), dk, func(f string, d []byte) sr.Sig { return sr.SignDSA(rand.Reader, dk, d) })

	// software security keys
	addSK := func(name string, ref *sr.PubKey, sign func(flags byte, counter uint32, data []byte) sr.Sig) {
		k := &keyEnt{name: name, ref: ref, blob: ref.Blob(), skSign: sign}
		k.pub = mustPub(c, k.blob)
		keys = append(keys, k)
	}
	for _, l := range []string{"A", "B"} {
		ep := detkeys.ECDSA(elliptic.P256(), seed+"sk"+l)
		addSK("sk-ecdsa-"+l, sr.FromSKECDSA(&ep.PublicKey, "ssh:"), func(fl byte, ct uint32, d []byte) sr.Sig { return sr.SignSKECDSA(rand.Reader, ep, "ssh:", fl, ct, d) })
		if l == "A" {
			addSK("sk-ecdsa-A-otherapp", sr.FromSKECDSA(&ep.PublicKey, "ssh:other"), func(fl byte, ct uint32, d []byte) sr.Sig {
				return sr.SignSKECDSA(rand.Reader, ep, "ssh:other", fl, ct, d)
			})
		}
		dp := detkeys.Ed25519(seed + "sk" + l)
		addSK("sk-ed25519-"+l, sr.FromSKEd25519(dp.Public().(ed25519.PublicKey), "ssh:"), func(fl byte, ct uint32, d []byte) sr.Sig { return sr.SignSKEd25519(dp, "ssh:", fl, ct, d) })
		if l == "A" {
			addSK("sk-ed25519-A-otherapp", sr.FromSKEd25519(dp.Public().(ed25519.PublicKey), "ssh:other"), func(fl byte, ct uint32, d []byte) sr.Sig { return sr.SignSKEd25519(dp, "ssh:other", fl, ct, d) })
		}
	}
	// plain-key twins with the same curve point / ed25519 key as an sk key (type confusion)
	epA := detkeys.ECDSA(elliptic.P256(), seed+"skA")
	addSoft("p256-same-point-as-sk-ecdsa-A", sr.FromECDSA(&epA.PublicKey), epA, func(f string, d []byte) sr.Sig { return sr.SignECDSA(rand.Reader, epA, d) })
	dpA := detkeys.Ed25519(seed + "skA")
	addSoft("ed25519-same-key-as-sk-ed25519-A", sr.FromEd25519(dpA.Public().(ed25519.PublicKey)), dpA, func(f string, d []byte) sr.Sig { return sr.SignEd25519(dpA, d) })

	// boundary value classes (public point coordinates / public keys with leading zero bytes,
	// short scalars, RSA modulus without sign pad, short d): signers and verifiers like the rest
	for _, ck := range detkeys.Classes(seed) {
		switch ck.Name {
		case "p256-point-x1", "p256-point-y1", "p256-point-xy1", "p256-point-x2", "p256-point-y2", "p384-point-x1", "p384-point-xy1", "p521-point-x1", "p521-point-xy1", "p521-point-y2",
			"p256-scalar-2-zero-bytes", "p521-scalar-2-zero-bytes", "ed25519-public-1-zero-byte", "ed25519-public-2-zero-bytes", "ed25519-seed-all-zero",
			"rsa1039-n-and-q-unpadded", "rsa1024-d-2-bytes-short":
		default:
			continue
		}
		switch {
		case ck.RSA != nil:
			priv := ck.RSA
			addSoft("class:"+ck.Name, sr.FromRSA(&priv.PublicKey), priv, func(f string, d []byte) sr.Sig { return sr.SignRSA(priv, f, d) })
		case ck.ECDSA != nil:
			priv := ck.ECDSA
			addSoft("class:"+ck.Name, sr.FromECDSA(&priv.PublicKey), priv, func(f string, d []byte) sr.Sig { return sr.SignECDSA(rand.Reader, priv, d) })
		default:
			priv := ck.Ed25519
			addSoft("class:"+ck.Name, sr.FromEd25519(priv.Public().(ed25519.PublicKey)), priv, func(f string, d []byte) sr.Sig { return sr.SignEd25519(priv, d) })
		}
	}

	// certificates over some of the keys (Verify must behave like the certified key)
	caPriv := detkeys.Ed25519(seed + "CA")
	n := len(keys)
	for i := 0; i < n; i++ {
		k := keys[i]
		if (strings.HasSuffix(k.name, "-B") && k.ref.Type != sr.ED25519) || strings.HasPrefix(k.name, "class:") {
			continue
		}
		ck := &keyEnt{name: "cert(" + k.name + ")", ref: k.ref, isCert: true, skSign: k.skSign, refSign: k.refSign}
		ck.blob = certOver(k.ref, caPriv, []cr.Option{cr.Flag("permit-pty")}, nil, k.name)
		ck.pub = mustPub(c, ck.blob)
		keys = append(keys, ck)
	}
	hostPriv := detkeys.Ed25519(seed + "host")
	hostSigner, err := ssh.NewSignerFromKey(hostPriv)
	if err != nil {
		panic(err)
	}
	c.Set("keys", len(keys))
	return keys, hostSigner, caPriv
}

// ---- part 1: signing matrix ---------------------------------------------------------

func part1(c *vf.Ctx, keys []*keyEnt) []sigEnt {
	var mu sync.Mutex
	var out []sigEnt
	var soft []*keyEnt
	for _, k := range keys {
		if k.signer != nil && !strings.Contains(k.name, "same") && !strings.HasSuffix(k.name, "-B") {
			soft = append(soft, k)
		}
	}
	type job struct {
		k   *keyEnt
		alg string
	}
	var jobs []job
	for _, k := range soft {
		for _, a := range append([]string{""}, algNames...) {
			jobs = append(jobs, job{k, a})
		}
	}
	c.ParallelFor(len(jobs), func(i int) {
		j := jobs[i]
		data := c.Bytes("data1", i, []int{40, 0, 1, 5000}[i%4]) // message lengths incl. empty and multi-block
		as, ok := j.k.signer.(ssh.AlgorithmSigner)
		if !ok {
			c.Violation("package signer does not implement AlgorithmSigner", j.k.name)
			return
		}
		var sig *ssh.Signature
		var err error
		p, pv, _ := vf.Protect(func() { sig, err = as.SignWithAlgorithm(rand.Reader, data, j.alg) })
		c.Eval(1)
		det := map[string]any{"key": j.k.name, "algorithm": j.alg}
		if p {
			det["panic"] = fmt.Sprint(pv)
			c.Violation("SignWithAlgorithm panics", det)
			return
		}
		want := j.alg == "" || sr.FormatAllowed(j.k.ref.Type, j.alg)
		if (err == nil) != want {
			det["err"] = fmt.Sprint(err)
			if want {
				c.Violation("signer refuses an algorithm its key format allows", det)
			} else {
				c.Violation("signer accepts an algorithm its key format does not allow", det)
			}
			return
		}
		c.Nontrivial("1/" + j.k.name + "/" + j.alg)
		if err != nil {
			c.Outcome("sign refused")
			return
		}
		wantFmt := j.alg
		if wantFmt == "" {
			wantFmt = j.k.ref.Type
		}
		if sig.Format != wantFmt {
			det["format"] = sig.Format
			c.Violation("signature carries another format than requested", det)
			return
		}
		rs := sr.Sig{Format: sig.Format, Blob: sig.Blob, Rest: sig.Rest}
		if v, why := sr.Verify(j.k.ref, data, rs, true); v != sr.Valid {
			det["why"] = why
			det["verdict"] = v.String()
			c.Violation("package signature is not valid under the reference verifier", det)
			return
		}
		if j.k.ref.Type == sr.RSA && len(sig.Blob) != (j.k.ref.RSA.N.BitLen()+7)/8 {
			c.Violation("RSA signature blob does not have the length of the modulus (RFC 8332)", det)
		}
		c.Outcome("sign ok")
		if j.alg != "" {
			mu.Lock()
			out = append(out, sigEnt{j.k, j.alg, data, rs, "package"})
			mu.Unlock()
		}
		// Signer.Sign uses the key format name
		if j.alg == "" {
			s2, err := j.k.signer.Sign(rand.Reader, data)
			if err != nil || s2.Format != j.k.ref.Type {
				c.Violation("Signer.Sign fails or does not use the key format name", det)
			}
		}
	})
	sort.Slice(out, func(a, b int) bool { return out[a].by.name+out[a].alg < out[b].by.name+out[b].alg })
	return out
}

// refSigs: signatures made without the package (reference signer, software security keys).
func refSigs(c *vf.Ctx, keys []*keyEnt) []sigEnt {
	var out []sigEnt
	for i, k := range keys {
		if k.isCert || strings.HasSuffix(k.name, "-B") {
			continue
		}
		data := c.Bytes("data-ref", i, 33)
		if k.skSign != nil {
			for _, fl := range []byte{0x01, 0x05} {
				out = append(out, sigEnt{k, k.ref.Type, data, k.skSign(fl, 1000+uint32(fl), data), "security key"})
			}
			continue
		}
		for _, f := range sr.AllowedFormats(k.ref.Type) {
			out = append(out, sigEnt{k, f, data, k.refSign(f, data), "reference"})
		}
	}
	return out
}

// compare runs PublicKey.Verify and the reference on one case.
func compare(c *vf.Ctx, part string, v *keyEnt, data []byte, s sr.Sig, det map[string]any) (sr.Verdict, bool) {
	var err error
	var changed string
	// hardening: Verify gets private copies of data and signature; whatever it changed
	// (data, signature fields, the key itself) is a violation
	p, pv, _ := vf.Protect(func() { err, changed = verifyOwned(v, data, s) })
	c.Eval(1)
	if p {
		det["panic"] = fmt.Sprint(pv)
		c.Violation(part+": Verify panics", det)
		return sr.Invalid, false
	}
	if changed != "" {
		c.Violation("Verify modifies "+changed+" it was given", det)
	}
	want, why := sr.Verify(v.ref, data, s, true)
	switch {
	case want == sr.Valid && err != nil:
		det["err"] = err.Error()
		c.Violation(part+": Verify rejects a valid signature", det)
	case want == sr.Invalid && err == nil:
		det["reference"] = why
		c.Violation(part+": Verify accepts an invalid signature", det)
	}
	if want == sr.Either {
		c.Outcome(fmt.Sprintf("either (%s): accepted=%v", why, err == nil))
	} else {
		c.Outcome(fmt.Sprintf("%s accepted=%v", want, err == nil))
	}
	return want, err == nil
}

// ---- part 2: verification matrix ----------------------------------------------------

func part2(c *vf.Ctx, keys []*keyEnt, sigs []sigEnt) {
	formats := append([]string{}, algNames...)
	c.Set("valid_signatures", len(sigs))
	c.ParallelFor(len(sigs), func(si int) {
		g := sigs[si]
		other := append(append([]byte{}, g.data...), 0)
		flipped := append([]byte{}, g.data...)
		if len(flipped) == 0 {
			flipped = []byte{0x10}
		} else {
			flipped[len(flipped)/2] ^= 0x10
		}
		for _, v := range keys {
			for _, f := range formats {
				for di, data := range [][]byte{g.data, other, flipped, nil} {
					if (di >= 2 && f != g.alg) || (di == 3 && len(g.data) == 0) {
						continue
					}
					s := g.sig
					s.Format = f
					det := map[string]any{"signed_by": g.by.name, "signed_with": g.alg, "origin": g.origin, "verifier": v.name, "presented_format": f, "data": []string{"same", "extended", "bit flipped", "empty"}[di]}
					want, _ := compare(c, "matrix", v, data, s, det)
					// the construction says: valid iff same key material, same format, same data
					truth := v.sameMaterial(g.by) && f == g.alg && di == 0
					if (want == sr.Valid) != truth || want == sr.Either {
						c.Violation("harness: reference verdict differs from how the case was built", det)
					}
					if truth || (v.ref.Type == g.by.ref.Type && di == 0 && f == g.alg) || (v.sameMaterial(g.by) && di == 0) || (v.sameMaterial(g.by) && f == g.alg) {
						c.Nontrivial(fmt.Sprintf("2/%s/%s/%s/%s/%s/%d", g.origin, g.by.name, g.alg, v.name, f, di))
					}
				}
			}
		}
		if c.WantSample() && g.origin == "package" {
			c.Sample(map[string]any{"part": 2, "signed_by": g.by.name, "algorithm": g.alg, "blob_len": len(g.sig.Blob), "verifiers": len(keys), "presented_formats": len(formats)})
		}
	})
}

// ---- part 3: blob faults --------------------------------------------------------------

type nsig struct {
	name string
	s    sr.Sig
}

func mp(n *big.Int) []byte { return sr.Mpint(n) }

func blobFaults(c *vf.Ctx, g sigEnt) []nsig {
	var out []nsig
	b := g.sig.Blob
	with := func(name string, blob []byte) {
		s := g.sig
		s.Blob = blob
		out = append(out, nsig{name, s})
	}
	for i := range b {
		for _, x := range []byte{0x01, 0x80} {
			m := append([]byte{}, b...)
			m[i] ^= x
			with(fmt.Sprintf("blob[%d]^=%02x", i, x), m)
		}
	}
	with("blob minus last byte", b[:len(b)-1])
	with("blob minus first byte", b[1:])
	with("blob + 00", append(append([]byte{}, b...), 0))
	with("00 + blob", append([]byte{0}, b...))
	with("blob + ff", append(append([]byte{}, b...), 0xff))
	with("empty blob", nil)
	with("blob twice", append(append([]byte{}, b...), b...))

	switch g.by.ref.Type {
	case sr.ECDSA256, sr.ECDSA384, sr.ECDSA521, sr.SKECDSA:
		rd := &sr.Reader{B: b}
		r, rb := rd.Mpint()
		s, sb := rd.Mpint()
		n := g.by.ref.ECDSA.Curve.Params().N
		zero := new(big.Int)
		add := func(a, b *big.Int) *big.Int { return new(big.Int).Add(a, b) }
		neg := func(a *big.Int) *big.Int { return new(big.Int).Neg(a) }
		with("r := 0", sr.Cat(mp(zero), mp(s)))
		with("s := 0", sr.Cat(mp(r), mp(zero)))
		with("r := r+n", sr.Cat(mp(add(r, n)), mp(s)))
		with("s := s+n", sr.Cat(mp(r), mp(add(s, n))))
		with("r := n", sr.Cat(mp(n), mp(s)))
		with("s := n", sr.Cat(mp(r), mp(n)))
		with("r := -r", sr.Cat(mp(neg(r)), mp(s)))
		with("s := -s", sr.Cat(mp(r), mp(neg(s))))
		with("r := r-n", sr.Cat(mp(new(big.Int).Sub(r, n)), mp(s)))
		with("s := n-s (same signature, other representative)", sr.Cat(mp(r), mp(new(big.Int).Sub(n, s))))
		with("r and s swapped", sr.Cat(mp(s), mp(r)))
		with("r with redundant 00", sr.Cat(sr.Str(append([]byte{0}, rb...)), sr.Str(sb)))
		with("s with redundant 00 00", sr.Cat(sr.Str(rb), sr.Str(append([]byte{0, 0}, sb...))))
		with("r only", mp(r))
		with("r, s, extra mpint", sr.Cat(mp(r), mp(s), mp(big.NewInt(1))))
		with("r as unsigned bytes with top bit (negative mpint of the same bytes)", sr.Cat(sr.Str(append([]byte{0x80}, rb...)), sr.Str(sb)))
		with("r length field +1", func() []byte {
			m := append([]byte{}, b...)
			m[3]++
			return m
		}())
	case sr.ED25519, sr.SKED25519:
		if len(b) == 64 {
			// S + L: same signature equation, non-canonical scalar (RFC 8032 5.1.7 requires S < L)
			L, _ := new(big.Int).SetString("7237005577332262213973186563042994240857116359379907606001950938285454250989", 10)
			sLE := append([]byte{}, b[32:]...)
			for i, j := 0, len(sLE)-1; i < j; i, j = i+1, j-1 {
				sLE[i], sLE[j] = sLE[j], sLE[i]
			}
			sv := new(big.Int).Add(new(big.Int).SetBytes(sLE), L) // S < L < 2^253: always fits
			be := sv.FillBytes(make([]byte, 32))
			for i, j := 0, 31; i < j; i, j = i+1, j-1 {
				be[i], be[j] = be[j], be[i]
			}
			with("S := S+L", append(append([]byte{}, b[:32]...), be...))
			with("R and S swapped", append(append([]byte{}, b[32:]...), b[:32]...))
		}
	case sr.RSA:
		k := g.by.ref.RSA
		size := (k.N.BitLen() + 7) / 8
		// s+n is the same residue; it needs size or size+1 bytes depending on the values
		sv := new(big.Int).Add(new(big.Int).SetBytes(b), k.N)
		with("s := s+n (same residue mod n)", sv.FillBytes(make([]byte, (sv.BitLen()+7)/8)))
		with("s := s+n left-padded to size+1 bytes", sv.FillBytes(make([]byte, size+1)))
		with("00 00 + blob", append([]byte{0, 0}, b...))
	case sr.DSA:
		with("r := 0", append(make([]byte, 20), b[20:]...))
		with("s := 0", append(append([]byte{}, b[:20]...), make([]byte, 20)...))
	}
	if g.by.skSign != nil {
		rest := g.sig.Rest
		tail := func(name string, t []byte) {
			s := g.sig
			s.Rest = t
			out = append(out, nsig{name, s})
		}
		for n := 0; n < 5; n++ {
			tail(fmt.Sprintf("sk tail truncated to %d bytes", n), rest[:n])
		}
		tail("sk tail + 00", append(append([]byte{}, rest...), 0))
		tail("sk flags ^= 04 (UV)", append([]byte{rest[0] ^ 4}, rest[1:]...))
		tail("sk flags ^= 01 (UP cleared)", append([]byte{rest[0] ^ 1}, rest[1:]...))
		tail("sk flags := ff", append([]byte{0xff}, rest[1:]...))
		for i := 1; i < 5; i++ {
			m := append([]byte{}, rest...)
			m[i] ^= 1
			tail(fmt.Sprintf("sk counter byte %d ^= 01", i-1), m)
		}
	} else {
		s := g.sig
		s.Rest = []byte{1, 0, 0, 0, 0}
		out = append(out, nsig{"bytes after the blob of a non-sk signature (Signature.Rest)", s})
	}
	return out
}

// shortRSA finds a message whose signature starts with a zero byte and returns the
// stripped forms.
func shortRSA(c *vf.Ctx, k *keyEnt, format string) (data []byte, out []nsig) {
	for i := 0; i < 20000; i++ {
		data = []byte(fmt.Sprintf("short-rsa|%d|%s|%d", c.Seed, format, i))
		s := k.refSign(format, data)
		if s.Blob[0] != 0 {
			continue
		}
		st := bytes.TrimLeft(s.Blob, "\x00")
		out = append(out, nsig{"full length with leading zero", s})
		out = append(out, nsig{"leading zero bytes stripped", sr.Sig{Format: format, Blob: st}})
		out = append(out, nsig{"leading zero stripped, then one zero too many removed is impossible; one extra zero prepended", sr.Sig{Format: format, Blob: append([]byte{0}, s.Blob...)}})
		out = append(out, nsig{"stripped and last byte dropped", sr.Sig{Format: format, Blob: st[:len(st)-1]}})
		out = append(out, nsig{"stripped and first byte changed", sr.Sig{Format: format, Blob: append([]byte{st[0] ^ 1}, st[1:]...)}})
		return data, out
	}
	return nil, nil
}

func part3(c *vf.Ctx, keys []*keyEnt, sigs []sigEnt) {
	// one valid signature per (key type, algorithm, origin package/security key)
	seen := map[string]bool{}
	var base []sigEnt
	for _, g := range sigs {
		if g.origin == "reference" || strings.Contains(g.by.name, "same") || strings.Contains(g.by.name, "otherapp") {
			continue
		}
		if g.by.ref.Type == sr.RSA && g.by.name != "rsa1024-A" && !(c.Thorough && g.by.name == "rsa2048-A") {
			continue
		}
		id := g.by.ref.Type + "/" + g.alg
		if g.by.ref.Type == sr.RSA {
			id += g.by.name
		}
		if seen[id] {
			continue
		}
		seen[id] = true
		base = append(base, g)
	}
	// verifiers: the plain key and its certificate
	certOf := map[string]*keyEnt{}
	for _, k := range keys {
		if k.isCert {
			certOf[strings.TrimSuffix(strings.TrimPrefix(k.name, "cert("), ")")] = k
		}
	}
	type job struct {
		g  sigEnt
		f  nsig
		vs []*keyEnt
	}
	var jobs []job
	for _, g := range base {
		vs := []*keyEnt{g.by}
		if ck := certOf[g.by.name]; ck != nil {
			vs = append(vs, ck)
		}
		for _, f := range blobFaults(c, g) {
			jobs = append(jobs, job{g, f, vs})
		}
	}
	for _, k := range keys {
		if k.name != "rsa1024-A" && k.name != "rsa2048-A" {
			continue
		}
		for _, f := range sr.AllowedFormats(sr.RSA) {
			data, fs := shortRSA(c, k, f)
			for _, x := range fs {
				jobs = append(jobs, job{sigEnt{k, f, data, x.s, "reference"}, x, []*keyEnt{k}})
			}
		}
	}
	c.Set("blob_fault_cases", len(jobs))
	c.ParallelFor(len(jobs), func(i int) {
		j := jobs[i]
		for _, v := range j.vs {
			det := map[string]any{"signed_by": j.g.by.name, "algorithm": j.g.alg, "fault": j.f.name, "verifier": v.name, "blob": vf.Hex8(j.f.s.Blob), "rest": fmt.Sprintf("%x", j.f.s.Rest)}
			compare(c, "blob fault", v, j.g.data, j.f.s, det)
		}
		c.Nontrivial("3/" + j.g.by.ref.Type + "/" + j.g.alg + "/" + j.f.name)
		if c.WantSample() && strings.HasPrefix(j.f.name, "s := n-s") {
			c.Sample(map[string]any{"part": 3, "key": j.g.by.name, "fault": j.f.name})
		}
	})
}

// ---- part 4: security key flags -------------------------------------------------------

type skSigner struct {
	pub  ssh.PublicKey
	sign func(data []byte) sr.Sig
}

func (s skSigner) PublicKey() ssh.PublicKey { return s.pub }
func (s skSigner) Sign(_ io.Reader, data []byte) (*ssh.Signature, error) {
	return toSSH(s.sign(data)), nil
}

type srvCfg struct {
	name   string
	cert   bool
	exts   []cr.Option // certificate extensions
	crit   []cr.Option // certificate critical options
	perms  func(base *ssh.Permissions) *ssh.Permissions
	waived bool
}

func handshake(hostSigner ssh.Signer, cb func(ssh.ConnMetadata, ssh.PublicKey) (*ssh.Permissions, error), vcb func(ssh.ConnMetadata, ssh.PublicKey, *ssh.Permissions, string) (*ssh.Permissions, error), signer ssh.Signer) (srvOK bool, srvErr, cliErr error, timedOut bool) {
	a, b := bufPipe()
	defer a.Close()
	defer b.Close()
	scfg := &ssh.ServerConfig{PublicKeyCallback: cb, MaxAuthTries: 2}
	if vcb != nil {
		scfg.VerifiedPublicKeyCallback = vcb
	}
	scfg.AddHostKey(hostSigner)
	ccfg := &ssh.ClientConfig{User: "user", Auth: []ssh.AuthMethod{ssh.PublicKeys(signer)}, HostKeyCallback: ssh.InsecureIgnoreHostKey(), Timeout: 0}
	done := make(chan struct{})
	go func() {
		conn, chans, reqs, err := ssh.NewServerConn(a, scfg)
		srvErr = err
		if err == nil {
			srvOK = true
			go ssh.DiscardRequests(reqs)
			go func() {
				for ch := range chans {
					ch.Reject(ssh.Prohibited, "no")
				}
			}()
			conn.Close()
		}
		close(done)
	}()
	cdone := make(chan struct{})
	go func() {
		conn, chans, reqs, err := ssh.NewClientConn(b, "pipe", ccfg)
		cliErr = err
		if err == nil {
			go ssh.DiscardRequests(reqs)
			go func() {
				for ch := range chans {
					ch.Reject(ssh.Prohibited, "no")
				}
			}()
			conn.Close()
		}
		close(cdone)
	}()
	timer := time.NewTimer(120 * time.Second) // hang protection only, never an oracle
	defer timer.Stop()
	for _, ch := range []chan struct{}{done, cdone} {
		select {
		case <-ch:
		case <-timer.C:
			a.Close()
			b.Close()
			return false, nil, nil, true
		}
	}
	return
}

func part4(c *vf.Ctx, keys []*keyEnt, hostSigner ssh.Signer, caPriv ed25519.PrivateKey) {
	var sks []*keyEnt
	byName := map[string]*keyEnt{}
	for _, k := range keys {
		byName[k.name] = k
		if k.name == "sk-ecdsa-A" || k.name == "sk-ed25519-A" {
			sks = append(sks, k)
		}
	}
	// 4a: direct Verify, all flags x counters, plain key and certificate
	counters := []uint32{0, 1, 0xffffffff}
	if c.Thorough {
		counters = []uint32{0, 1, 2, 0xff, 0x100, 0xffff, 0x10000, 0x7fffffff, 0x80000000, 0xfffffffe, 0xffffffff}
	}
	type job struct {
		k     *keyEnt
		flags int
	}
	var jobs []job
	for _, k := range sks {
		for f := 0; f < 256; f++ {
			jobs = append(jobs, job{k, f})
		}
	}
	c.ParallelFor(len(jobs), func(i int) {
		j := jobs[i]
		data := c.Bytes("data4", i, 20)
		for _, ct := range counters {
			s := j.k.skSign(byte(j.flags), ct, data)
			for _, v := range []*keyEnt{j.k, byName["cert("+j.k.name+")"]} {
				det := map[string]any{"key": v.name, "flags": j.flags, "counter": ct}
				want, got := compare(c, "sk flags", v, data, s, det)
				if (want == sr.Valid) != (j.flags&1 == 1) {
					c.Violation("harness: reference sk verdict is not the UP bit", det)
				}
				_ = got
			}
		}
		c.Nontrivial(fmt.Sprintf("4a/%s/flags%02x", j.k.name, j.flags))
	})

	// 4b: through the server's public key authentication
	ntr := "no-touch-required"
	addExt := func(p *ssh.Permissions) *ssh.Permissions {
		q := &ssh.Permissions{CriticalOptions: map[string]string{}, Extensions: map[string]string{ntr: ""}}
		if p != nil {
			for k, v := range p.CriticalOptions {
				q.CriticalOptions[k] = v
			}
			for k, v := range p.Extensions {
				q.Extensions[k] = v
			}
		}
		return q
	}
	cfgs := []srvCfg{
		{name: "plain key, empty permissions", perms: func(*ssh.Permissions) *ssh.Permissions { return &ssh.Permissions{} }},
		{name: "plain key, nil permissions", perms: func(*ssh.Permissions) *ssh.Permissions { return nil }},
		{name: "plain key, no-touch-required in Permissions.Extensions", perms: addExt, waived: true},
		{name: "plain key, no-touch-required only in Permissions.CriticalOptions", perms: func(*ssh.Permissions) *ssh.Permissions {
			return &ssh.Permissions{CriticalOptions: map[string]string{ntr: ""}}
		}},
		{name: "plain key, other extension only", perms: func(*ssh.Permissions) *ssh.Permissions {
			return &ssh.Permissions{Extensions: map[string]string{"no-touch-required2": "", "permit-pty": ""}}
		}},
		{name: "certificate without the extension", cert: true, exts: []cr.Option{cr.Flag("permit-pty")}},
		{name: "certificate with extension no-touch-required", cert: true, exts: []cr.Option{cr.Flag(ntr), cr.Flag("permit-pty")}, waived: true},
		{name: "certificate without it, callback adds it to Permissions.Extensions", cert: true, exts: []cr.Option{cr.Flag("permit-pty")}, perms: addExt, waived: true},
		{name: "certificate with no-touch-required only as critical option", cert: true, crit: []cr.Option{cr.Flag(ntr)}},
		{name: "certificate with the extension, callback returns fresh empty permissions", cert: true, exts: []cr.Option{cr.Flag(ntr)},
			perms: func(*ssh.Permissions) *ssh.Permissions { return &ssh.Permissions{} }, waived: true},
	}
	caBlob := sr.FromEd25519(caPriv.Public().(ed25519.PublicKey)).Blob()
	type hjob struct {
		k     *keyEnt
		cfg   srvCfg
		flags int
	}
	var hj []hjob
	for _, k := range sks {
		for _, cf := range cfgs {
			for f := 0; f < 256; f++ {
				hj = append(hj, hjob{k, cf, f})
			}
		}
	}
	c.Set("handshakes", len(hj))
	c.ParallelFor(len(hj), func(i int) {
		j := hj[i]
		var pub ssh.PublicKey = j.k.pub
		if j.cfg.cert {
			pub = mustPub(c, certOver(j.k.ref, caPriv, j.cfg.exts, j.cfg.crit, j.k.name+j.cfg.name))
		}
		checker := &ssh.CertChecker{
			IsUserAuthority:          func(a ssh.PublicKey) bool { return bytes.Equal(a.Marshal(), caBlob) },
			SupportedCriticalOptions: []string{ntr},
		}
		// hardening: the key objects the server hands to its callbacks (PublicKeyCallback sees the
		// key of the query, VerifiedPublicKeyCallback the key of the signed request, i.e. the
		// object the server verified with). Every 16th flag value runs with the second callback.
		var seenByCallback []ssh.PublicKey
		var vcb func(ssh.ConnMetadata, ssh.PublicKey, *ssh.Permissions, string) (*ssh.Permissions, error)
		if j.flags%16 == 0 {
			vcb = func(_ ssh.ConnMetadata, key ssh.PublicKey, p *ssh.Permissions, _ string) (*ssh.Permissions, error) {
				seenByCallback = append(seenByCallback, key)
				return p, nil
			}
		}
		cb := func(conn ssh.ConnMetadata, key ssh.PublicKey) (*ssh.Permissions, error) {
			var base *ssh.Permissions
			seenByCallback = append(seenByCallback, key)
			if _, ok := key.(*ssh.Certificate); ok {
				p, err := checker.Authenticate(conn, key)
				if err != nil {
					return nil, err
				}
				base = p
			} else if !bytes.Equal(key.Marshal(), j.k.blob) {
				return nil, fmt.Errorf("unknown key")
			}
			if j.cfg.perms != nil {
				return j.cfg.perms(base), nil
			}
			return base, nil
		}
		counter := uint32(i)
		signer := skSigner{pub: pub, sign: func(data []byte) sr.Sig { return j.k.skSign(byte(j.flags), counter, data) }}
		ok, serr, cerr, timedOut := handshake(hostSigner, cb, vcb, signer)
		c.Eval(1)
		det := map[string]any{"key": j.k.name, "config": j.cfg.name, "flags": j.flags, "server_err": fmt.Sprint(serr), "client_err": fmt.Sprint(cerr)}
		if timedOut {
			// never an oracle: the case is left undecided and the run is marked non-exhaustive
			c.Capped("a handshake did not finish within the hang-protection timeout (case skipped)")
			c.Outcome("handshake timed out (skipped)")
			return
		}
		// hardening: whatever opt-out the server applied for ITS verification, the key object it
		// handed to the callback still requires user presence (the opt-out lives on a clone)
		if !timedOut && j.flags%16 == 0 {
			d2 := c.Bytes("data4c", i, 12)
			noUP, withUP := j.k.skSign(byte(j.flags)&^1, 3, d2), j.k.skSign(byte(j.flags)|1, 3, d2)
			for _, seen := range seenByCallback {
				if err := seen.Verify(d2, toSSH(noUP)); err == nil {
					c.Violation("a key object handed to the server's callbacks accepts an sk signature without user presence after the handshake (the opt-out leaked onto the shared object)", det)
				}
				if err := seen.Verify(d2, toSSH(withUP)); err != nil {
					c.Violation("a key object handed to the server's callbacks rejects a valid sk signature after the handshake", det)
				}
				c.Eval(2)
			}
		}
		want := j.flags&1 == 1 || j.cfg.waived
		switch {
		case ok && !want:
			c.Violation("server authenticates an sk signature without user presence although no no-touch-required opt-out applies", det)
		case !ok && want:
			c.Violation("server rejects an sk signature that has user presence or a no-touch-required opt-out", det)
		case ok != (cerr == nil):
			c.Violation("client and server disagree about the authentication result", det)
		}
		c.Outcome(fmt.Sprintf("handshake %s: up=%v authenticated=%v", map[bool]string{true: "opt-out", false: "no opt-out"}[j.cfg.waived], j.flags&1 == 1, ok))
		c.Nontrivial(fmt.Sprintf("4b/%s/%s/flags%02x", j.k.name, j.cfg.name, j.flags))
		if c.WantSample() && j.flags == 4 && j.cfg.waived {
			c.Sample(map[string]any{"part": 4, "key": j.k.name, "config": j.cfg.name, "flags": j.flags, "authenticated": ok})
		}
	})
}

// ---- part 5: restricted signers ---------------------------------------------------------

func lists(universe []string, maxLen int) [][]string {
	out := [][]string{{}}
	var rec func(cur []string)
	rec = func(cur []string) {
		if len(cur) == maxLen {
			return
		}
		for _, u := range universe {
			dup := false
			for _, x := range cur {
				if x == u {
					dup = true
				}
			}
			if dup {
				continue
			}
			n := append(append([]string{}, cur...), u)
			out = append(out, n)
			rec(n)
		}
	}
	rec(nil)
	return out
}

func contains(l []string, s string) bool {
	for _, x := range l {
		if x == s {
			return true
		}
	}
	return false
}

func subset(a, b []string) bool {
	for _, x := range a {
		if !contains(b, x) {
			return false
		}
	}
	return true
}

// exercise checks one restricted signer against its list.
func exercise(c *vf.Ctx, what string, k *keyEnt, ms ssh.MultiAlgorithmSigner, list []string, idx int) {
	if got := ms.Algorithms(); fmt.Sprint(got) != fmt.Sprint(list) {
		c.Violation(what+": Algorithms() is not the list given", map[string]any{"key": k.name, "list": list, "got": got})
	}
	data := c.Bytes("data5", idx, 16)
	for _, a := range append([]string{""}, algNames...) {
		var sig *ssh.Signature
		var err error
		p, pv, _ := vf.Protect(func() { sig, err = ms.SignWithAlgorithm(rand.Reader, data, a) })
		c.Eval(1)
		det := map[string]any{"key": k.name, "list": list, "requested": a}
		if p {
			det["panic"] = fmt.Sprint(pv)
			c.Violation(what+": SignWithAlgorithm panics", det)
			continue
		}
		if a == "" {
			// default algorithm: whatever it is, it must be one of the list
			if err == nil && !contains(list, sig.Format) {
				det["format"] = sig.Format
				c.Violation(what+": default algorithm signs with a format outside the list", det)
			}
			c.Outcome(fmt.Sprintf("restricted signer, empty algorithm, key format listed=%v: signed=%v", contains(list, k.ref.Type), err == nil))
			continue
		}
		want := contains(list, a)
		switch {
		case err == nil && !want:
			det["format"] = sig.Format
			c.Violation(what+": signs with an algorithm outside its list", det)
		case err != nil && want:
			det["err"] = err.Error()
			c.Violation(what+": refuses an algorithm of its list", det)
		case err == nil:
			if sig.Format != a {
				c.Violation(what+": signature carries another format than requested", det)
			} else if v, _ := sr.Verify(k.ref, data, sr.Sig{Format: sig.Format, Blob: sig.Blob, Rest: sig.Rest}, true); v != sr.Valid {
				c.Violation(what+": signature does not verify", det)
			}
		}
	}
}

func part5(c *vf.Ctx, keys []*keyEnt, caPriv ed25519.PrivateKey) {
	var bases []*keyEnt
	for _, k := range keys {
		switch k.name {
		case "rsa1024-A", "ed25519-A", "p256-A", "dsa-A":
			bases = append(bases, k)
		}
	}
	type job struct {
		k    *keyEnt
		list []string
	}
	var jobs []job
	for _, k := range bases {
		allowed := sr.AllowedFormats(k.ref.Type)
		foreign := []string{sr.ED25519, sr.CertTypeOf(k.ref.Type)}
		if k.ref.Type == sr.ED25519 {
			foreign = []string{sr.RSASHA256, sr.CertTypeOf(k.ref.Type)}
		}
		maxLen := 3
		if c.Thorough {
			maxLen = 5
		}
		for _, l := range lists(append(append([]string{}, allowed...), foreign...), maxLen) {
			jobs = append(jobs, job{k, l})
		}
		jobs = append(jobs, job{k, []string{allowed[0], allowed[0]}}, job{k, []string{""}})
	}
	c.Set("algorithm_lists", len(jobs))
	c.ParallelFor(len(jobs), func(i int) {
		j := jobs[i]
		as := j.k.signer.(ssh.AlgorithmSigner)
		allowed := sr.AllowedFormats(j.k.ref.Type)
		var ms ssh.MultiAlgorithmSigner
		var err error
		p, pv, _ := vf.Protect(func() { ms, err = ssh.NewSignerWithAlgorithms(as, j.list) })
		c.Eval(1)
		det := map[string]any{"key": j.k.name, "list": j.list}
		if p {
			det["panic"] = fmt.Sprint(pv)
			c.Violation("NewSignerWithAlgorithms panics", det)
			return
		}
		want := len(j.list) > 0 && subset(j.list, allowed)
		if (err == nil) != want {
			det["err"] = fmt.Sprint(err)
			if want {
				c.Violation("NewSignerWithAlgorithms rejects a list of allowed algorithms", det)
			} else {
				c.Violation("NewSignerWithAlgorithms accepts an empty list or an algorithm the key format does not allow", det)
			}
			return
		}
		c.Nontrivial(fmt.Sprintf("5/%s/%v", j.k.name, j.list))
		if err != nil {
			c.Outcome("list rejected")
			return
		}
		c.Outcome("list accepted")
		exercise(c, "restricted signer", j.k, ms, j.list, i)
		// Signer.Sign takes no algorithm: observed only
		if s, err := ms.Sign(rand.Reader, []byte("x")); err == nil {
			c.Outcome(fmt.Sprintf("Sign() on restricted signer: format in list=%v", contains(j.list, s.Format)))
		}
		// nested restriction: the second list must be a subset of the first
		for li, l2 := range lists(allowed, 3) {
			var ms2 ssh.MultiAlgorithmSigner
			var err2 error
			if p, pv, _ := vf.Protect(func() { ms2, err2 = ssh.NewSignerWithAlgorithms(ms, l2) }); p {
				c.Violation("NewSignerWithAlgorithms panics (nested)", map[string]any{"key": j.k.name, "outer": j.list, "inner": l2, "panic": fmt.Sprint(pv)})
				continue
			}
			c.Eval(1)
			want2 := len(l2) > 0 && subset(l2, j.list)
			if (err2 == nil) != want2 {
				c.Violation("nested NewSignerWithAlgorithms does not keep the outer restriction", map[string]any{"key": j.k.name, "outer": j.list, "inner": l2, "err": fmt.Sprint(err2)})
				continue
			}
			if err2 == nil {
				exercise(c, "nested restricted signer", j.k, ms2, l2, i*100+li)
			}
		}
		// a certificate signer over the restricted signer keeps the restriction
		certBlob := certOver(j.k.ref, caPriv, nil, nil, "p5"+j.k.name)
		cert := mustPub(c, certBlob).(*ssh.Certificate)
		cs, err := ssh.NewCertSigner(cert, ms)
		if err != nil {
			c.Violation("NewCertSigner rejects the matching signer", map[string]any{"key": j.k.name, "err": err.Error()})
			return
		}
		cms, ok := cs.(ssh.MultiAlgorithmSigner)
		if !ok {
			c.Violation("NewCertSigner over a MultiAlgorithmSigner does not return one (restriction lost)", det)
			return
		}
		if !bytes.Equal(cs.PublicKey().Marshal(), certBlob) {
			c.Violation("cert signer public key is not the certificate", det)
		}
		exercise(c, "certificate signer over restricted signer", j.k, cms, j.list, i+7777)
	})
	// NewCertSigner with a signer for another key must fail
	var a, b *keyEnt
	for _, k := range keys {
		if k.name == "ed25519-A" {
			a = k
		}
		if k.name == "ed25519-B" {
			b = k
		}
	}
	cert := mustPub(c, certOver(a.ref, caPriv, nil, nil, "mismatch")).(*ssh.Certificate)
	if _, err := ssh.NewCertSigner(cert, b.signer); err == nil {
		c.Violation("NewCertSigner accepts a signer whose key is not the certified key", nil)
	}
	c.Eval(1)
	_ = ecdsa.PublicKey{}
	_ = rsa.PublicKey{}
}

// partO: slices handed out by the package belong to the caller. The list returned by
// Algorithms() (plain signers, certificate signers, restricted signers) is overwritten by the
// caller - the usual in-place filter idiom does that - and afterwards every key must still sign
// with its default and with every algorithm it listed, Verify must still accept those
// signatures and a signer must still report its original list.
func partO(c *vf.Ctx, keys []*keyEnt) {
	type ent struct {
		k    *keyEnt
		list []string
	}
	var ents []ent
	for _, k := range keys {
		if k.signer == nil {
			continue
		}
		ms, ok := k.signer.(ssh.MultiAlgorithmSigner)
		if !ok {
			continue
		}
		got := ms.Algorithms()
		ents = append(ents, ent{k, append([]string(nil), got...)})
		for i := range got {
			got[i] = "overwritten-by-the-caller"
		}
		got = got[:0]
		_ = got
	}
	data := []byte("message signed after the caller reused the algorithm list")
	for _, e := range ents {
		ms := e.k.signer.(ssh.MultiAlgorithmSigner)
		c.Eval(1)
		c.Nontrivial("O/" + e.k.name)
		if again := ms.Algorithms(); fmt.Sprint(again) != fmt.Sprint(e.list) {
			c.Violation("Algorithms() changes after a caller overwrote the list it was given earlier", map[string]any{"key": e.k.name, "before": e.list, "after": again})
			continue
		}
		algos := append([]string{""}, e.list...)
		for _, a := range algos {
			var sig *ssh.Signature
			var err error
			if a == "" {
				sig, err = e.k.signer.Sign(rand.Reader, data)
			} else {
				sig, err = ms.SignWithAlgorithm(rand.Reader, data, a)
			}
			if err != nil {
				c.Violation("signing fails after a caller overwrote the list returned by Algorithms()", map[string]any{"key": e.k.name, "algorithm": a, "err": err.Error()})
				break
			}
			if err := e.k.pub.Verify(data, sig); err != nil {
				c.Violation("Verify rejects a valid signature after a caller overwrote the list returned by Algorithms()", map[string]any{"key": e.k.name, "algorithm": a, "format": sig.Format, "err": err.Error()})
				break
			}
			bogus := &ssh.Signature{Format: "overwritten-by-the-caller", Blob: sig.Blob}
			if err := e.k.pub.Verify(data, bogus); err == nil {
				c.Violation("Verify accepts a made-up signature format after a caller overwrote the list returned by Algorithms()", map[string]any{"key": e.k.name})
				break
			}
		}
	}
}
