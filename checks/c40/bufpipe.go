package main

import (
	"io"
	"net"
	"sync"
	"time"
)

// bufPipe is an in-memory full-duplex connection with unbounded buffering in both
// directions (net.Pipe is synchronous: both SSH ends write their version line first
// and would block forever).
type half struct {
	mu     sync.Mutex
	cond   *sync.Cond
	buf    []byte
	closed bool
}

func newHalf() *half { h := &half{}; h.cond = sync.NewCond(&h.mu); return h }

func (h *half) write(p []byte) (int, error) {
	h.mu.Lock()
	defer h.mu.Unlock()
	if h.closed {
		return 0, io.ErrClosedPipe
	}
	h.buf = append(h.buf, p...)
	h.cond.Broadcast()
	return len(p), nil
}

func (h *half) read(p []byte) (int, error) {
	h.mu.Lock()
	defer h.mu.Unlock()
	for len(h.buf) == 0 && !h.closed {
		h.cond.Wait()
	}
	if len(h.buf) == 0 {
		return 0, io.EOF
	}
	n := copy(p, h.buf)
	h.buf = h.buf[n:]
	return n, nil
}

func (h *half) close() {
	h.mu.Lock()
	h.closed = true
	h.cond.Broadcast()
	h.mu.Unlock()
}

type bufConn struct{ in, out *half }

func bufPipe() (net.Conn, net.Conn) {
	x, y := newHalf(), newHalf()
	return &bufConn{in: x, out: y}, &bufConn{in: y, out: x}
}

type memAddr struct{}

func (memAddr) Network() string { return "mem" }
func (memAddr) String() string  { return "mem" }

func (c *bufConn) Read(p []byte) (int, error)       { return c.in.read(p) }
func (c *bufConn) Write(p []byte) (int, error)      { return c.out.write(p) }
func (c *bufConn) Close() error                     { c.in.close(); c.out.close(); return nil }
func (c *bufConn) LocalAddr() net.Addr              { return memAddr{} }
func (c *bufConn) RemoteAddr() net.Addr             { return memAddr{} }
func (c *bufConn) SetDeadline(time.Time) error      { return nil }
func (c *bufConn) SetReadDeadline(time.Time) error  { return nil }
func (c *bufConn) SetWriteDeadline(time.Time) error { return nil }
