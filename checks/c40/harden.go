// C40 hardening pass (HARDEN.md): Verify/Sign leave data, signature and key untouched
// (checked on EVERY Verify call through compare), results handed out by a signer stay valid
// when the signer is used again, ordered algorithm sequences on one signer object (incl. a
// refused algorithm in between), long messages, and the key object handed to the server's
// callbacks keeps requiring user presence after an opt-out handshake.
package main

import (
	"bytes"
	"crypto/rand"
	"fmt"
	"strings"

	"golang.org/x/crypto/ssh"
	sr "verif/ref/sshsigref"
	"verif/vf"
)

// verifyOwned runs pub.Verify on PRIVATE copies of data and signature and reports which of the
// caller's values the call changed ("" = none).
func verifyOwned(v *keyEnt, data []byte, s sr.Sig) (err error, changed string) {
	d := append([]byte(nil), data...)
	if data == nil {
		d = nil
	}
	sg := &ssh.Signature{Format: s.Format, Blob: append([]byte(nil), s.Blob...), Rest: append([]byte(nil), s.Rest...)}
	if s.Blob == nil {
		sg.Blob = nil
	}
	if s.Rest == nil {
		sg.Rest = nil
	}
	err = v.pub.Verify(d, sg)
	switch {
	case !bytes.Equal(d, data):
		changed = "the data"
	case sg.Format != s.Format || !bytes.Equal(sg.Blob, s.Blob) || !bytes.Equal(sg.Rest, s.Rest) || (sg.Blob == nil) != (s.Blob == nil):
		changed = "the signature"
	case !bytes.Equal(v.pub.Marshal(), v.blob):
		changed = "the key"
	}
	return err, changed
}

func partH(c *vf.Ctx, keys []*keyEnt, sigs []sigEnt) {
	hardenSigners(c, keys)
	hardenSequences(c, keys)
	hardenLong(c, keys)
	hardenVerifyAgain(c, keys, sigs)
}

// hardenSigners: (A) per package signer and allowed algorithm: the data slice is untouched; a
// signature handed out earlier is not changed by later Sign calls; overwriting it does not
// disturb the signer; PublicKey() keeps marshalling to the same blob.
func hardenSigners(c *vf.Ctx, keys []*keyEnt) {
	var soft []*keyEnt
	for _, k := range keys {
		if k.signer != nil {
			soft = append(soft, k)
		}
	}
	c.ParallelFor(len(soft), func(i int) {
		k := soft[i]
		as := k.signer.(ssh.AlgorithmSigner)
		for _, alg := range append([]string{""}, sr.AllowedFormats(k.ref.Type)...) {
			det := map[string]any{"key": k.name, "algorithm": alg}
			orig := c.Bytes("dataH1", i, 77)
			data := append([]byte(nil), orig...)
			s1, err := as.SignWithAlgorithm(rand.Reader, data, alg)
			c.Eval(1)
			if err != nil {
				det["err"] = err.Error()
				c.Violation("signer refuses an algorithm its key format allows", det)
				continue
			}
			if !bytes.Equal(data, orig) {
				c.Violation("SignWithAlgorithm modifies the data it signs", det)
				continue
			}
			keep := sr.Sig{Format: s1.Format, Blob: append([]byte(nil), s1.Blob...), Rest: append([]byte(nil), s1.Rest...)}
			wipe(data) // the caller reuses its buffer
			other := c.Bytes("dataH1b", i, 78)
			s2, err := as.SignWithAlgorithm(rand.Reader, other, alg)
			c.Eval(1)
			if err != nil {
				c.Violation("second SignWithAlgorithm on one signer fails", det)
				continue
			}
			if s1.Format != keep.Format || !bytes.Equal(s1.Blob, keep.Blob) || !bytes.Equal(s1.Rest, keep.Rest) {
				c.Violation("a signature handed out earlier changes when the signer signs again", det)
				continue
			}
			if v, why := sr.Verify(k.ref, orig, keep, true); v != sr.Valid {
				det["why"] = why
				c.Violation("package signature is not valid under the reference verifier", det)
			}
			wipe(s1.Blob)
			wipe(s2.Blob)
			s3, err := as.SignWithAlgorithm(rand.Reader, orig, alg)
			c.Eval(1)
			if err != nil {
				c.Violation("SignWithAlgorithm fails after the caller overwrote earlier signatures", det)
				continue
			}
			if v, why := sr.Verify(k.ref, orig, sr.Sig{Format: s3.Format, Blob: s3.Blob, Rest: s3.Rest}, true); v != sr.Valid {
				det["why"] = why
				c.Violation("signature made after the caller overwrote earlier signatures is not valid", det)
			}
			if !bytes.Equal(k.signer.PublicKey().Marshal(), k.blob) {
				c.Violation("signer.PublicKey() changes while the signer is used", det)
			}
			c.Nontrivial("H/signer/" + k.name + "/" + alg)
		}
	})
}

// hardenSequences: (B/D) every ordered triple X, Y, X over {allowed algorithms, "", a refused
// algorithm} on ONE signer object — plain signers of every key type and RSA signers restricted
// to SHA-2: each step must behave as it does on a fresh signer.
func hardenSequences(c *vf.Ctx, keys []*keyEnt) {
	type subject struct {
		k    *keyEnt
		as   ssh.AlgorithmSigner
		list []string // nil: unrestricted
		name string
	}
	var subs []subject
	for _, k := range keys {
		switch k.name {
		case "rsa1024-A", "p256-A", "p384-A", "p521-A", "ed25519-A", "dsa-A", "class:rsa1039-n-and-q-unpadded":
			subs = append(subs, subject{k, k.signer.(ssh.AlgorithmSigner), nil, k.name})
			if k.ref.Type == sr.RSA {
				for _, l := range [][]string{{sr.RSASHA256, sr.RSASHA512}, {sr.RSASHA512}, {sr.RSASHA512, sr.RSA}} {
					ms, err := ssh.NewSignerWithAlgorithms(k.signer.(ssh.AlgorithmSigner), l)
					if err != nil {
						c.Violation("NewSignerWithAlgorithms rejects a list of allowed algorithms", map[string]any{"key": k.name, "list": l})
						continue
					}
					subs = append(subs, subject{k, ms, l, k.name + fmt.Sprint(l)})
				}
			}
		}
	}
	c.ParallelFor(len(subs), func(i int) {
		s := subs[i]
		algs := append([]string{"", "foo", sr.CertTypeOf(s.k.ref.Type)}, sr.AllowedFormats(s.k.ref.Type)...)
		if s.k.ref.Type != sr.ED25519 {
			algs = append(algs, sr.ED25519)
		} else {
			algs = append(algs, sr.RSASHA256)
		}
		// the default algorithm ("") on a restricted signer is not decided here (as in part 5):
		// if it signs, the format must be one of the list
		expect := func(a string) (ok bool, decided bool) {
			if s.list != nil {
				if a == "" {
					return false, false
				}
				return contains(s.list, a), true
			}
			return a == "" || sr.FormatAllowed(s.k.ref.Type, a), true
		}
		n := 0
		for _, x := range algs {
			for _, y := range algs {
				for step, a := range []string{x, y, x} {
					data := c.Bytes("dataH2", i*1000+n, 30+step)
					n++
					var sig *ssh.Signature
					var err error
					p, pv, _ := vf.Protect(func() { sig, err = s.as.SignWithAlgorithm(rand.Reader, data, a) })
					det := map[string]any{"signer": s.name, "sequence": []string{x, y, x}, "step": step}
					if p {
						det["panic"] = fmt.Sprint(pv)
						c.Violation("SignWithAlgorithm panics in a sequence of calls on one signer", det)
						continue
					}
					want, decided := expect(a)
					if !decided {
						if err == nil && !contains(s.list, sig.Format) {
							c.Violation("restricted signer: default algorithm signs with a format outside the list", det)
						}
						continue
					}
					if (err == nil) != want {
						det["err"] = fmt.Sprint(err)
						c.Violation("a signer used for several algorithms in sequence accepts/refuses differently from a fresh signer", det)
						continue
					}
					if err != nil {
						continue
					}
					wantFmt := a
					if a == "" {
						wantFmt = s.k.ref.Type
					}
					if sig.Format != wantFmt {
						det["format"] = sig.Format
						c.Violation("a signer used for several algorithms in sequence returns another format than requested", det)
						continue
					}
					if v, why := sr.Verify(s.k.ref, data, sr.Sig{Format: sig.Format, Blob: sig.Blob, Rest: sig.Rest}, true); v != sr.Valid {
						det["why"] = why
						c.Violation("a signer used for several algorithms in sequence makes an invalid signature", det)
					}
				}
				c.Nontrivial(fmt.Sprintf("H/seq/%s/%s/%s", s.name, x, y))
			}
		}
		c.Eval(n)
	})
}

// hardenLong: (C) messages of 2^k+{-1,0,1} bytes (hash block sizes 64/128 and 2^10, 2^16, 2^20,
// 2^22): package signature valid under the reference, reference / security-key signature
// accepted by the package, and rejected when one byte at the far end differs.
func hardenLong(c *vf.Ctx, keys []*keyEnt) {
	var subj []*keyEnt
	for _, k := range keys {
		switch k.name {
		case "rsa1024-A", "p256-A", "p384-A", "p521-A", "ed25519-A", "dsa-A", "sk-ecdsa-A", "sk-ed25519-A", "cert(ed25519-A)":
			subj = append(subj, k)
		}
	}
	var lens []int
	for _, k := range []int{6, 7, 10, 16, 20, 22} {
		for _, d := range []int{-1, 0, 1} {
			lens = append(lens, 1<<k+d)
		}
	}
	type job struct {
		k *keyEnt
		n int
	}
	var jobs []job
	for _, k := range subj {
		for _, n := range lens {
			if n > 1<<16+1 && !c.Thorough && (k.name == "p384-A" || k.name == "p521-A" || k.name == "dsa-A") {
				continue // quick: the largest sizes on one key per hash function
			}
			jobs = append(jobs, job{k, n})
		}
	}
	base := c.Bytes("dataH3", 0, 1<<22+1)
	c.ParallelFor(len(jobs), func(i int) {
		j := jobs[i]
		data := append([]byte(nil), base[:j.n]...)
		data[0] ^= byte(i)
		det := map[string]any{"key": j.k.name, "data_len": j.n}
		formats := sr.AllowedFormats(j.k.ref.Type)
		for _, f := range formats {
			det["format"] = f
			var s sr.Sig
			switch {
			case j.k.skSign != nil:
				s = j.k.skSign(0x01, 5, data)
			case j.k.signer != nil:
				as := j.k.signer.(ssh.AlgorithmSigner)
				sig, err := as.SignWithAlgorithm(rand.Reader, data, f)
				c.Eval(1)
				if err != nil {
					c.Violation("signer refuses an algorithm its key format allows", det)
					continue
				}
				s = sr.Sig{Format: sig.Format, Blob: sig.Blob, Rest: sig.Rest}
				if v, why := sr.Verify(j.k.ref, data, s, true); v != sr.Valid {
					det["why"] = why
					c.Violation("package signature over a long message is not valid under the reference verifier", det)
					continue
				}
				s = j.k.refSign(f, data) // and the other direction with a reference-made signature
			default:
				s = j.k.refSign(f, data)
			}
			err, changed := verifyOwned(j.k, data, s)
			c.Eval(1)
			if changed != "" {
				c.Violation("Verify modifies "+changed+" it was given", det)
			}
			if err != nil {
				det["err"] = err.Error()
				c.Violation("long message: Verify rejects a valid signature", det)
			}
			for _, pos := range []int{j.n - 1, j.n / 2} {
				data[pos] ^= 0x20
				if err, _ := verifyOwned(j.k, data, s); err == nil {
					det["changed_byte"] = pos
					c.Violation("long message: Verify accepts a signature over different data", det)
				}
				data[pos] ^= 0x20
				c.Eval(1)
			}
			if err, _ := verifyOwned(j.k, data[:j.n-1], s); err == nil {
				c.Violation("long message: Verify accepts a signature over a truncated message", det)
			}
			c.Eval(1)
		}
		c.Nontrivial(fmt.Sprintf("H/long/%s/%d", j.k.name, j.n))
	})
}

// hardenVerifyAgain: (B/D) one key object decides valid, invalid (every kind), valid again: the
// verdict on the valid signature must not depend on what the object verified before.
func hardenVerifyAgain(c *vf.Ctx, keys []*keyEnt, sigs []sigEnt) {
	c.ParallelFor(len(sigs), func(i int) {
		g := sigs[i]
		if strings.HasSuffix(g.by.name, "-B") {
			return
		}
		// a private key object for this sequence
		v := &keyEnt{name: g.by.name, ref: g.by.ref, blob: g.by.blob}
		pub, err := ssh.ParsePublicKey(append([]byte(nil), g.by.blob...))
		if err != nil {
			return
		}
		v.pub = pub
		det := map[string]any{"signed_by": g.by.name, "algorithm": g.alg, "origin": g.origin}
		bad := []sr.Sig{
			{Format: g.sig.Format, Blob: nil, Rest: g.sig.Rest},
			{Format: "foo", Blob: g.sig.Blob, Rest: g.sig.Rest},
			{Format: g.sig.Format, Blob: append([]byte{0}, g.sig.Blob...), Rest: g.sig.Rest},
			{Format: g.sig.Format, Blob: g.sig.Blob[:len(g.sig.Blob)/2], Rest: g.sig.Rest},
		}
		if g.by.skSign != nil {
			bad = append(bad, g.by.skSign(0x00, 9, g.data), g.by.skSign(0xfe, 9, g.data), sr.Sig{Format: g.sig.Format, Blob: g.sig.Blob, Rest: nil})
		}
		for bi, b := range bad {
			if err, ch := verifyOwned(v, g.data, g.sig); err != nil || ch != "" {
				det["step"] = fmt.Sprintf("valid signature before invalid #%d: err=%v changed=%q", bi, err, ch)
				c.Violation("one key object: Verify of a valid signature depends on what the object verified before", det)
				return
			}
			want, _ := sr.Verify(v.ref, g.data, b, true)
			err, ch := verifyOwned(v, g.data, b)
			c.Eval(2)
			if ch != "" {
				c.Violation("Verify modifies "+ch+" it was given", det)
			}
			if want == sr.Invalid && err == nil {
				det["invalid"] = bi
				c.Violation("one key object: Verify accepts an invalid signature after a valid one", det)
			}
		}
		if err, _ := verifyOwned(v, g.data, g.sig); err != nil {
			c.Violation("one key object: Verify of a valid signature depends on what the object verified before", det)
		}
		c.Nontrivial("H/again/" + g.by.name + "/" + g.alg + "/" + g.origin)
	})
}

func wipe(b []byte) {
	for i := range b {
		b[i] ^= 0xFF
	}
}
