// Hardening dimension C of C04 (see MUTATIONS.md, "Hardening pass"): LONG messages.
//
// Message lengths 2^k + {-1, 0, 1, 15, 16, 17} for k = 9..22 (4 MiB) x (key class, message
// pattern) pairs x {one-shot Sum, portable sumGeneric, Verify of the tag and of the tag with
// one flipped bit, and on both MAC paths: a single Write, Writes of 4093 bytes, Writes of 65537
// bytes, two Writes split at 1, 15, 16, 17, 2^j-1 and 2^j+1 (j = 6, 12, 16, 20), n-17, n-16,
// n-1}. Oracle: the math/big definition evaluated incrementally (one accumulator per pair
// carried over the ascending lengths, re-derived from scratch with polyref.Sum at one length
// per pair).
package main

import (
	"fmt"
	"sort"
	"time"

	"golang.org/x/crypto/poly1305"
	"verif/ref/polyref"
	"verif/vf"
)

const longKMin, longKMax = 9, 22

func longLens() []int {
	set := map[int]bool{}
	for k := longKMin; k <= longKMax; k++ {
		for _, d := range []int{-1, 0, 1, 15, 16, 17} {
			set[1<<k+d] = true
		}
	}
	var out []int
	for n := range set {
		out = append(out, n)
	}
	sort.Ints(out)
	return out
}

func longCuts(n int) [][]int {
	set := map[int]bool{1: true, 15: true, 16: true, 17: true, n - 17: true, n - 16: true, n - 1: true}
	for _, j := range []int{6, 12, 16, 20} {
		set[1<<j-1], set[1<<j+1] = true, true
	}
	var pts []int
	for p := range set {
		if p > 0 && p < n {
			pts = append(pts, p)
		}
	}
	sort.Ints(pts)
	var out [][]int
	for _, p := range pts {
		out = append(out, []int{p})
	}
	for _, st := range []int{4093, 65537} {
		var cuts []int
		for i := st; i < n; i += st {
			cuts = append(cuts, i)
		}
		if len(cuts) > 0 {
			out = append(out, cuts)
		}
	}
	return out
}

func cutsName(cuts []int) string {
	switch {
	case cuts == nil:
		return "single-write"
	case len(cuts) == 1:
		return "two-way"
	}
	return fmt.Sprintf("stride%d", cuts[0])
}

func longFamily(c *vf.Ctx, kcs []keyClass, pats map[string][]byte, maxN int) {
	type pair struct {
		kc  int
		pat string
	}
	// quick: two pairs; thorough: every listed key class with both patterns
	pairs := []pair{{0, "seeded"}, {1, "ff"}}
	if c.Thorough {
		pairs = nil
		for _, kc := range []int{0, 1, 2, 8, len(kcs) - 1} {
			for _, p := range []string{"seeded", "ff"} {
				pairs = append(pairs, pair{kc, p})
			}
		}
	}
	lens := longLens()
	t0 := time.Now()
	// model tags
	tags := make([]map[int][16]byte, len(pairs))
	c.ParallelFor(len(pairs), func(pi int) {
		pr := pairs[pi]
		key, data := kcs[pr.kc].key, pats[pr.pat]
		acc := polyref.NewAcc(key[:])
		absorbed := 0
		m := map[int][16]byte{}
		for _, n := range lens {
			for absorbed+16 <= n {
				acc.Block(data[absorbed : absorbed+16])
				absorbed += 16
			}
			a := acc.Clone()
			if n > absorbed {
				a.Block(data[absorbed:n])
			}
			m[n] = a.Tag(key[:])
		}
		n := lens[len(lens)/2+pi%6]
		if polyref.Sum(key[:], data[:n]) != m[n] {
			panic("harness: incremental Poly1305 model disagrees with the one-shot model (long family)")
		}
		tags[pi] = m
	})
	c.Set("long_model_seconds", time.Since(t0).Seconds())
	type unit struct{ pi, n int }
	var units []unit
	for i := len(lens) - 1; i >= 0; i-- {
		for pi := range pairs {
			units = append(units, unit{pi, lens[i]})
		}
	}
	c.ParallelFor(len(units), func(ui int) {
		u := units[ui]
		kc := kcs[pairs[u.pi].kc]
		key := kc.key
		msg := pats[pairs[u.pi].pat][:u.n:u.n]
		want := tags[u.pi][u.n]
		what := fmt.Sprintf("long pattern %s len %d", pairs[u.pi].pat, u.n)
		id := kc.name + " / " + what
		evals := 0
		fail := func(cls string, extra map[string]any) {
			d := map[string]any{"key_class": kc.name, "key": fmt.Sprintf("%x", key), "message": what, "len": len(msg), "want": fmt.Sprintf("%x", want), "family": "long"}
			for k, v := range extra {
				d[k] = v
			}
			c.Violation(cls, d)
		}
		scratch := pool.get(min(maxN, directAbove))[:0] // reused storage for the private copies of the Write chunks
		defer func() { pool.put(scratch) }()
		var got [16]byte
		poly1305.Sum(&got, msg, &key)
		evals++
		if got != want {
			fail("asm path: Sum != definition", map[string]any{"got": fmt.Sprintf("%x", got)})
		}
		poly1305.VerifC04SumGeneric(&got, msg, &key)
		evals++
		if got != want {
			fail("generic path: sumGeneric != definition", map[string]any{"got": fmt.Sprintf("%x", got)})
		}
		evals += 2
		if !poly1305.Verify(&want, msg, &key) {
			fail("Verify rejects the correct tag", nil)
		}
		bad := want
		bad[u.n%16] ^= 1 << uint(u.n%8)
		if poly1305.Verify(&bad, msg, &key) {
			fail("Verify accepts a tag with one flipped bit", map[string]any{"bit": 8*(u.n%16) + u.n%8})
		}
		for _, cuts := range append([][]int{nil}, longCuts(u.n)...) {
			name := cutsName(cuts)
			a := newMAC(&key)
			feed(a, msg, cuts, nil, &scratch)
			out := a.Sum(nil)
			evals++
			if len(out) != 16 || [16]byte(out) != want {
				fail("asm path: MAC.Write/Sum != definition ("+name+")", map[string]any{"cuts": head(cuts), "got": fmt.Sprintf("%x", out)})
			}
			gm := newGenericMAC(&key)
			feed(gm, msg, cuts, nil, &scratch)
			out = gm.Sum(nil)
			evals++
			if len(out) != 16 || [16]byte(out) != want {
				fail("generic path: macGeneric.Write/Sum != definition ("+name+")", map[string]any{"cuts": head(cuts), "got": fmt.Sprintf("%x", out)})
			}
		}
		c.Eval(evals)
		c.Nontrivial(id + " / long")
		if u.n == 1<<16+17 && u.pi == 0 {
			c.Sample(map[string]any{"family": "long", "key_class": kc.name, "message": what, "tag": fmt.Sprintf("%x", want), "chunkings": 1 + len(longCuts(u.n))})
		}
	})
}

func head(cuts []int) []int {
	if len(cuts) > 4 {
		return cuts[:4]
	}
	return cuts
}
