// C04: Poly1305 tags equal the mathematical definition, on the assembly and the portable
// update path, for one-shot Sum and every write chunking; Verify accepts exactly that tag.
//
// Grid: key classes (clamped-maximum r, r in {0,1,2,4,2^123-ish}, s in {0,2^128-1}, RFC key,
// seeded) x message patterns x every length 0..272 plus 4095/4096 x chunkings {one-shot,
// single Write, per byte, every two-way split, every three-way split up to 48 bytes,
// strides 15/16/17} x path {assembly update via the public API, portable via hooks}, plus
// messages SOLVED with math/big so that the accumulator ends at 0..4 mod p (the values with
// a second representative in [p, 2^130)), and small-r families that drive it to p..p+4 and
// past 2^130. Oracle: verif/ref/polyref (math/big definition).
package main

import (
	"bytes"
	"crypto/subtle"
	"fmt"
	"math/big"
	"time"

	"golang.org/x/crypto/poly1305"
	"verif/ref/polyref"
	"verif/vf"
)

func main() { vf.Main("C04", vf.Exploration, run) }

type keyClass struct {
	name string
	key  [32]byte
}

type tcase struct {
	kc   int
	what string
	msg  []byte
}

func rep(b byte, n int) []byte {
	out := make([]byte, n)
	for i := range out {
		out[i] = b
	}
	return out
}

func mkKey(r, s []byte) (k [32]byte) {
	copy(k[:16], r)
	copy(k[16:], s)
	return
}

// classify the accumulator limbs as handed to finalize
func hClass(h [3]uint64) string {
	const p0, p1, p2 = 0xFFFFFFFFFFFFFFFB, 0xFFFFFFFFFFFFFFFF, 3
	switch {
	case h[2] > p2:
		return "final h >= 2^130"
	case h[2] == p2 && h[1] == p1 && h[0] >= p0:
		return "final h in [p, 2^130)"
	}
	return "final h < p"
}

// chunkings of a message of length n: each is a list of cut points 0 < c1 <= c2 ... <= n
// (empty writes allowed), nil = one Write of everything.
func chunkings(n int, f func(name string, cuts []int)) {
	f("single-write", nil)
	if n > 0 {
		all := make([]int, 0, n)
		for i := 1; i < n; i++ {
			all = append(all, i)
		}
		f("per-byte", all)
	}
	for _, st := range []int{15, 16, 17} {
		var cuts []int
		for i := st; i < n; i += st {
			cuts = append(cuts, i)
		}
		if len(cuts) > 0 {
			f(fmt.Sprintf("stride%d", st), cuts)
		}
	}
	if n <= 272 {
		for i := 0; i <= n; i++ {
			f("two-way", []int{i})
		}
	} else {
		for _, i := range []int{0, 1, 15, 16, 17, 31, 32, 33, n - 33, n - 17, n - 16, n - 15, n - 1, n} {
			f("two-way", []int{i})
		}
	}
	if n <= 48 {
		for i := 0; i <= n; i++ {
			for j := i; j <= n; j++ {
				f("three-way", []int{i, j})
			}
		}
	}
}

type writer interface {
	Write([]byte) (int, error)
	Sum([]byte) []byte
}

// feed writes msg in the given chunks. Every chunk is handed over as a private copy that is
// overwritten as soon as Write has returned (the caller owns its buffers); after, if not nil, is
// called after every Write. sp is the reusable storage for those copies (fresh big allocations
// are expensive).
var ones = bytes.Repeat([]byte{0xFF}, 8192)

const directAbove = 1 << 17

func feed(w writer, msg []byte, cuts []int, after func(), sp *[]byte) {
	put := func(chunk []byte) {
		if len(chunk) > directAbove {
			// long family: very long chunks are written directly (no private copy: fresh memory is
			// expensive here); the copy-and-overwrite dimension is exercised by every shorter chunk
			w.Write(chunk)
			if after != nil {
				after()
			}
			return
		}
		scratch := append((*sp)[:0], chunk...)
		*sp = scratch
		w.Write(scratch)
		for o := 0; o < len(scratch); o += len(ones) {
			e := min(o+len(ones), len(scratch))
			subtle.XORBytes(scratch[o:e], scratch[o:e], ones[:e-o])
		}
		if after != nil {
			after()
		}
	}
	prev := 0
	for _, c := range cuts {
		put(msg[prev:c])
		prev = c
	}
	put(msg[prev:])
}

// newMAC / newGenericMAC: the key array handed to the constructor is a private copy that is
// overwritten as soon as the constructor has returned.
func newMAC(key *[32]byte) *poly1305.MAC {
	k := *key
	m := poly1305.New(&k)
	for i := range k {
		k[i] ^= 0xFF
	}
	return m
}

func newGenericMAC(key *[32]byte) *poly1305.VerifC04GenericMAC {
	k := *key
	m := poly1305.VerifC04NewGenericMAC(&k)
	for i := range k {
		k[i] ^= 0xFF
	}
	return m
}

func run(c *vf.Ctx) {
	maxAll := 272
	if c.Thorough {
		maxAll = 600
	}
	c.Rule(fmt.Sprintf("full grid key classes {RFC key, r=ff..ff (clamped max) with s=2^128-1 and s=0, r=0, r=1 (s=0, s=2^128-1), r=2, r=4, r=top-limb-only, seeded} x message patterns {00, ff, fb ff.., ascending, seeded} x every length 0..%d and 4095,4096 "+
		"x chunkings {one-shot Sum, single Write, per byte, EVERY two-way split, EVERY three-way split for length<=48, strides 15/16/17} x path {assembly update (public API), portable (hook)}; "+
		"plus per key class messages solved with math/big to end at accumulator value 0..4 (mod p) after 2,3,4,16,17,18 blocks, and r in {1,2,4} x ff-block families reaching p..p+4 and >= 2^130; "+
		"every MAC gets its key as a private copy that is overwritten after the constructor returned, every Write chunk is a private copy overwritten after the call; after the first Sum the returned slice is overwritten and Sum is repeated into a buffer with spare capacity holding old bytes, then Verify must still accept; on the portable MAC a Sum after EVERY Write must not change the final tag; "+
		"plus the LONG family: lengths 2^k+{-1,0,1,15,16,17} for k=9..22 (4 MiB) x (key class, pattern) pairs {(RFC key, seeded), (clamped-max r, ff)} (thorough: 5 key classes x 2 patterns) x {Sum, sumGeneric, Verify of the tag / of a one-bit-flipped tag, and on both MAC paths: single Write, Writes of 4093 bytes, Writes of 65537 bytes, two Writes split at 1,15,16,17, 2^j-1 and 2^j+1 (j=6,12,16,20), n-17, n-16, n-1}; "+
		"Verify / MAC.Verify must accept the model tag and reject all 128 single-bit flips and wrong-length tags; non-trivial = distinct (key class, message, chunking family) with >= 2 writes, or a message whose final accumulator is >= p; oracle = verif/ref/polyref (math/big)", maxAll))
	c.Assume("math/big arithmetic is correct; key values outside the alphabet are not enumerated (carry classes are targeted, not exhausted)")

	v := c.V()
	ff16, z16 := rep(0xff, 16), rep(0, 16)
	one := append([]byte{1}, rep(0, 15)...)
	two := append([]byte{2}, rep(0, 15)...)
	four := append([]byte{4}, rep(0, 15)...)
	top := append(rep(0, 15), 0x0f) // r = 15 * 2^120: only the top limb's top nibble
	kcs := []keyClass{
		{"rfc8439-2.5.2", mkKey([]byte{0x85, 0xd6, 0xbe, 0x78, 0x57, 0x55, 0x6d, 0x33, 0x7f, 0x44, 0x52, 0xfe, 0x42, 0xd5, 0x06, 0xa8},
			[]byte{0x01, 0x03, 0x80, 0x8a, 0xfb, 0x0d, 0xb2, 0xfd, 0x4a, 0xbf, 0xf6, 0xaf, 0x41, 0x49, 0xf5, 0x1b})},
		{"r=ff..ff(clamped max),s=2^128-1", mkKey(ff16, ff16)},
		{"r=ff..ff(clamped max),s=0", mkKey(ff16, z16)},
		{"r=0,s=seeded", mkKey(z16, c.Bytes("c04-s", 0, 16))},
		{"r=1,s=0", mkKey(one, z16)},
		{"r=1,s=2^128-1", mkKey(one, ff16)},
		{"r=2,s=0", mkKey(two, z16)},
		{"r=4,s=2^128-1", mkKey(four, ff16)},
		{"r=15*2^120,s=1", mkKey(top, one)},
	}
	for i := 0; i < v; i++ {
		var k [32]byte
		copy(k[:], c.Bytes("c04-key", i, 32))
		kcs = append(kcs, keyClass{fmt.Sprintf("seeded%d", i), k})
	}

	maxLen := 4096
	type pattern struct {
		name string
		data []byte
	}
	fb := make([]byte, maxLen)
	for i := range fb {
		fb[i] = 0xff
		if i%16 == 0 {
			fb[i] = 0xfb
		}
	}
	asc := make([]byte, maxLen)
	for i := range asc {
		asc[i] = byte(i)
	}
	pats := []pattern{{"00", rep(0, maxLen)}, {"ff", rep(0xff, maxLen)}, {"fb-ff..", fb}, {"ascending", asc}}
	np := 1
	if c.Thorough {
		np = v
	}
	for i := 0; i < np; i++ {
		pats = append(pats, pattern{fmt.Sprintf("seeded%d", i), c.Bytes("c04-msg", i, maxLen)})
	}

	var cases []tcase
	var lens []int
	for n := 0; n <= maxAll; n++ {
		lens = append(lens, n)
	}
	lens = append(lens, 4095, 4096)
	for ki := range kcs {
		for _, p := range pats {
			for _, n := range lens {
				cases = append(cases, tcase{ki, fmt.Sprintf("pattern %s len %d", p.name, n), p.data[:n:n]})
			}
		}
	}
	// small-r families: k blocks of ff (and a short ff tail) under r = 1, 2, 4
	for ki, kc := range kcs {
		if kc.key[0] > 4 || kc.key[0] == 0 || !allZero(kc.key[1:16]) {
			continue
		}
		for blocks := 1; blocks <= 8; blocks++ {
			for tail := 0; tail <= 15; tail += 5 {
				cases = append(cases, tcase{ki, fmt.Sprintf("family ff x %d blocks + %d", blocks, tail), rep(0xff, 16*blocks+tail)})
			}
		}
		// r=1: ff..ff, (fc+j) ff..ff  ->  2^130-5+j ; and ff..ff,00,00 -> 2^130-1
		for j := 0; j <= 3; j++ {
			m := append(rep(0xff, 16), byte(0xfc+j))
			m = append(m, rep(0xff, 15)...)
			cases = append(cases, tcase{ki, fmt.Sprintf("family ff-block then %02x ff..", 0xfc+j), m})
		}
		cases = append(cases, tcase{ki, "family ff-block, two zero blocks", append(rep(0xff, 16), rep(0, 32)...)})
	}
	// solved messages: final accumulator value T in 0..4 and p-1
	solved := 0
	for ki, kc := range kcs {
		r := new(big.Int).SetBytes(reverse(polyref.Clamp(kc.key[:16])))
		if r.Sign() == 0 {
			continue
		}
		rinv := new(big.Int).ModInverse(r, polyref.P)
		for _, pre := range []int{1, 2, 3, 15, 16, 17} {
			for _, T := range []int64{0, 1, 2, 3, 4, -1} {
				target := big.NewInt(T)
				if T < 0 {
					target.Add(polyref.P, target)
				}
				for try := 0; try < 200; try++ {
					m0 := c.Bytes(fmt.Sprintf("c04-solve-%d-%d-%d", ki, pre, T), try, 16*pre)
					if pre == 0 && try > 0 {
						break
					}
					acc := polyref.NewAcc(kc.key[:])
					acc.Write(m0)
					m := new(big.Int).Mul(target, rinv)
					m.Sub(m, acc.Value())
					m.Mod(m, polyref.P)
					// the last block contributes block + 2^128 with block < 2^128
					lo := new(big.Int).Lsh(big.NewInt(1), 128)
					hi := new(big.Int).Lsh(big.NewInt(1), 129)
					if m.Cmp(lo) < 0 || m.Cmp(hi) >= 0 {
						continue
					}
					m.Sub(m, lo)
					blk := make([]byte, 16)
					be := m.Bytes()
					for i := range be {
						blk[i] = be[len(be)-1-i]
					}
					msg := append(append([]byte(nil), m0...), blk...)
					// self-check of the construction
					chk := polyref.NewAcc(kc.key[:])
					chk.Write(msg)
					if chk.Value().Cmp(target) != 0 {
						panic("harness: solved message does not reach the target accumulator value")
					}
					cases = append(cases, tcase{ki, fmt.Sprintf("solved acc=%d after %d+1 blocks", T, pre), msg})
					solved++
					break
				}
			}
		}
	}
	tl := time.Now()
	longN := 1<<longKMax + 17
	longFamily(c, kcs, map[string][]byte{"ff": rep(0xff, longN), "seeded": c.Bytes("c04-long-msg", 0, longN)}, longN)
	c.Set("long_family_seconds", time.Since(tl).Seconds())
	c.Set("solved_messages", solved)
	c.Set("cases", len(cases))

	c.ParallelFor(len(cases), func(i int) {
		tc := cases[i]
		kc := kcs[tc.kc]
		key := kc.key
		msg := tc.msg
		want := polyref.Sum(key[:], msg)
		evals := 0
		id := kc.name + " / " + tc.what
		fail := func(cls string, extra map[string]any) {
			d := map[string]any{"key_class": kc.name, "key": fmt.Sprintf("%x", key), "message": tc.what, "len": len(msg), "want": fmt.Sprintf("%x", want)}
			for k, v := range extra {
				d[k] = v
			}
			c.Violation(cls, d)
		}

		// one-shot functions
		var got [16]byte
		poly1305.Sum(&got, msg, &key)
		evals++
		if got != want {
			fail("asm path: Sum != definition", map[string]any{"got": fmt.Sprintf("%x", got)})
		}
		poly1305.VerifC04SumGeneric(&got, msg, &key)
		evals++
		if got != want {
			fail("generic path: sumGeneric != definition", map[string]any{"got": fmt.Sprintf("%x", got)})
		}
		// final-reduction class (read from the portable state; classification only)
		g := newGenericMAC(&key)
		g.Write(msg)
		hc := hClass(g.VerifC04FinalH())
		c.Outcome(hc)
		if hc != "final h < p" {
			c.Nontrivial(id + " / " + hc)
		}

		// every chunking on both paths
		pfx := []byte{0xAA, 0xBB, 0xCC}
		seenShape := map[string]bool{}
		var spare [40]byte
		scratch := make([]byte, 0, len(msg))
		chunkings(len(msg), func(name string, cuts []int) {
			a := newMAC(&key)
			feed(a, msg, cuts, nil, &scratch)
			out := a.Sum(pfx[:3:3])
			evals++
			if len(out) != 19 || out[0] != 0xAA || out[1] != 0xBB || out[2] != 0xCC || [16]byte(out[3:]) != want {
				fail("asm path: MAC.Write/Sum != definition ("+name+")", map[string]any{"cuts": cuts, "got": fmt.Sprintf("%x", out)})
			}
			// the returned slice is the caller's: overwrite it, then Sum again, now into a buffer that
			// has spare capacity holding old bytes; the object must still give the tag, and Verify
			// after Sum must accept it
			for i := range out {
				out[i] ^= 0xFF
			}
			for i := range spare {
				spare[i] = 0xEE
			}
			copy(spare[:], pfx)
			out = a.Sum(spare[:3])
			evals++
			if len(out) != 19 || out[0] != 0xAA || out[1] != 0xBB || out[2] != 0xCC || [16]byte(out[3:]) != want {
				fail("asm path: second MAC.Sum (into spare capacity) != definition ("+name+")", map[string]any{"cuts": cuts, "got": fmt.Sprintf("%x", out)})
			}
			for i := range out {
				out[i] ^= 0xFF
			}
			evals++
			if !a.Verify(want[:]) {
				fail("asm path: MAC.Verify after Sum rejects the correct tag ("+name+")", map[string]any{"cuts": cuts})
			}
			gm := newGenericMAC(&key)
			feed(gm, msg, cuts, nil, &scratch)
			out = gm.Sum(nil)
			evals++
			if len(out) != 16 || [16]byte(out) != want {
				fail("generic path: macGeneric.Write/Sum != definition ("+name+")", map[string]any{"cuts": cuts, "got": fmt.Sprintf("%x", out)})
			}
			out = gm.Sum(out[:0])
			evals++
			if len(out) != 16 || [16]byte(out) != want {
				fail("generic path: second macGeneric.Sum != definition ("+name+")", map[string]any{"cuts": cuts, "got": fmt.Sprintf("%x", out)})
			}
			// non-initial state on the portable MAC (its Sum does not finalize): a Sum after every
			// Write must not disturb the final tag
			if len(cuts) > 0 && name != "per-byte" || len(msg) <= 64 {
				g2 := newGenericMAC(&key)
				feed(g2, msg, cuts, func() { g2.Sum(nil) }, &scratch)
				out = g2.Sum(nil)
				evals++
				if len(out) != 16 || [16]byte(out) != want {
					fail("generic path: macGeneric.Sum between Writes changes the final tag ("+name+")", map[string]any{"cuts": cuts, "got": fmt.Sprintf("%x", out)})
				}
			}
			if len(cuts) > 0 && !seenShape[name] {
				seenShape[name] = true
				c.Nontrivial(id + " / " + name)
			}
		})

		// Verify accepts exactly the model tag
		if !poly1305.Verify(&want, msg, &key) {
			fail("Verify rejects the correct tag", nil)
		}
		evals++
		a := newMAC(&key)
		a.Write(msg)
		if !a.Verify(want[:]) {
			fail("MAC.Verify rejects the correct tag", nil)
		}
		evals++
		for bit := 0; bit < 128; bit++ {
			bad := want
			bad[bit/8] ^= 1 << (bit % 8)
			evals++
			if poly1305.Verify(&bad, msg, &key) {
				fail("Verify accepts a tag with one flipped bit", map[string]any{"bit": bit})
			}
			// MAC.Verify on the incremental object for a subset of cases (cost)
			if len(msg) <= 80 || len(msg)%16 == 15 {
				b := newMAC(&key)
				b.Write(msg)
				evals++
				if b.Verify(bad[:]) {
					fail("MAC.Verify accepts a tag with one flipped bit", map[string]any{"bit": bit})
				}
			}
		}
		for _, wrong := range [][]byte{want[:15], append(append([]byte(nil), want[:]...), 0), nil} {
			b := newMAC(&key)
			b.Write(msg)
			evals++
			if b.Verify(wrong) {
				fail("MAC.Verify accepts a tag of the wrong length", map[string]any{"tag_len": len(wrong)})
			}
		}
		c.Eval(evals)
		if c.WantSample() && len(msg) == 33 {
			c.Sample(map[string]any{"key_class": kc.name, "message": tc.what, "tag": fmt.Sprintf("%x", want), "final_h_class": hc})
		}
	})
}

func allZero(b []byte) bool {
	for _, x := range b {
		if x != 0 {
			return false
		}
	}
	return true
}

func reverse(b []byte) []byte {
	out := make([]byte, len(b))
	for i := range b {
		out[len(b)-1-i] = b[i]
	}
	return out
}
