// C05: BLAKE2b and BLAKE2s digests are RFC 7693 on every SIMD path.
//
// Every hashBlocks implementation the CPU offers (blake2b: AVX2, AVX, SSE4, generic;
// blake2s: SSE4, SSSE3, SSE2, generic) is forced in turn through the verif-tagged
// dispatch hook, and on each of them the real package is compared byte for byte with
// the RFC 7693 reference model verif/ref/blake2ref over
//
//	A  every digest size x every key length x boundary message lengths,
//	B  every message length 0..4B+1 (and 2000) x chunkings (one call, byte-wise, strides,
//	   every two-way split, boundary three-way splits) for a set of (size,key) configs,
//	   plus the one-shot SumNNN functions (separate code path),
//	C  every history over {Write(0,1,B-1,B,B+1,2B+3), Sum, Reset} up to a depth
//	   (Sum idempotent / does not alter state, Reset == fresh keyed state),
//	D  states seeded (through the documented marshal layout) with offset counters just
//	   below 2^64 (2b) / 2^32 (2s) so that the counter carry/borrow of each
//	   implementation is exercised,
//	E  the constructor argument rules,
//	L  long inputs 2^k + {-1,0,1,B-1,B,B+1} up to 4 MiB with chunkings crossing those points.
//
// Hardening pass: caller-owned key/message/result buffers are overwritten after each call
// (A, C), every message is also hashed from non-initial states (mid-stream Sum at every
// cut, Reset of a used object) in B, and D seeds counters 100 blocks below the carry.
package main

import (
	"bytes"
	"crypto"
	"encoding"
	"encoding/binary"
	"fmt"
	"hash"
	"strings"
	"time"

	"golang.org/x/crypto/blake2b"
	"golang.org/x/crypto/blake2s"
	"verif/ref/blake2ref"
	"verif/vf"
)

func main() { vf.Main("C05", vf.ModelChecking, run) }

type alg struct {
	name      string
	B         int // block size
	maxSize   int
	maxKey    int
	wantPaths []string
	paths     func() []string
	setPath   func(string) bool
	restore   func()
	current   func() string
	// sizes that the public API can construct, and whether a size needs a key
	sizes    []int
	needsKey func(size int) bool
	newHash  func(size int, key []byte) (hash.Hash, error)
	ref      func(size int, key, msg []byte) []byte
	oneShot  map[int]func([]byte) []byte
}

func algs() []*alg {
	b := &alg{name: "blake2b", B: 128, maxSize: 64, maxKey: 64,
		wantPaths: []string{"AVX2", "AVX", "SSE4", "generic"},
		paths:     blake2b.VerifC05Paths, setPath: blake2b.VerifC05SetPath, restore: blake2b.VerifC05RestorePath, current: blake2b.VerifC05CurrentPath,
		needsKey: func(int) bool { return false },
		newHash:  func(size int, key []byte) (hash.Hash, error) { return blake2b.New(size, key) },
		ref:      blake2ref.SumB,
		oneShot: map[int]func([]byte) []byte{
			64: func(m []byte) []byte { s := blake2b.Sum512(m); return s[:] },
			48: func(m []byte) []byte { s := blake2b.Sum384(m); return s[:] },
			32: func(m []byte) []byte { s := blake2b.Sum256(m); return s[:] },
		}}
	for i := 1; i <= 64; i++ {
		b.sizes = append(b.sizes, i)
	}
	s := &alg{name: "blake2s", B: 64, maxSize: 32, maxKey: 32,
		wantPaths: []string{"SSE4", "SSSE3", "SSE2", "generic"},
		paths:     blake2s.VerifC05Paths, setPath: blake2s.VerifC05SetPath, restore: blake2s.VerifC05RestorePath, current: blake2s.VerifC05CurrentPath,
		sizes:    []int{16, 32},
		needsKey: func(size int) bool { return size == 16 },
		newHash: func(size int, key []byte) (hash.Hash, error) {
			switch size {
			case 32:
				return blake2s.New256(key)
			case 16:
				return blake2s.New128(key)
			}
			return nil, fmt.Errorf("blake2s: no public constructor for size %d", size)
		},
		ref: blake2ref.SumS,
		oneShot: map[int]func([]byte) []byte{
			32: func(m []byte) []byte { s := blake2s.Sum256(m); return s[:] },
		}}
	return []*alg{b, s}
}

type config struct {
	size int
	key  []byte
}

func (a *alg) class(what string) string { return a.name + ": " + what }

var ones = func() []int {
	o := make([]int, 4096)
	for i := range o {
		o[i] = 1
	}
	return o
}()

// plans calls f with each write chunking used for a message of length L in grid B
// (the slice is only valid during the call); it stops when f returns false and
// returns the number of chunkings visited. full adds every two-way split and the
// boundary three-way splits.
func (a *alg) plans(L int, full bool, f func(plan []int) bool) int {
	B := a.B
	n := 0
	var buf [3]int
	emit := func(p []int) bool { n++; return f(p) }
	buf[0] = L
	if !emit(buf[:1]) {
		return n
	}
	if L > 0 && !emit(ones[:L]) {
		return n
	}
	for _, st := range []int{7, B - 1, B, B + 1} {
		if L > st {
			var p []int
			for r := L; r > 0; r -= st {
				if r < st {
					p = append(p, r)
				} else {
					p = append(p, st)
				}
			}
			if !emit(p) {
				return n
			}
		}
	}
	cuts := [...]int{0, 1, 2, B - 2, B - 1, B, B + 1, B + 2, 2*B - 1, 2 * B, 2*B + 1, 3 * B, 3*B + 1, 4 * B, 4*B + 1, L - 1, L}
	if full {
		for x := 0; x <= L; x++ {
			buf[0], buf[1] = x, L-x
			if !emit(buf[:2]) {
				return n
			}
		}
		for i, x := range cuts {
			for j, y := range cuts {
				if x < 0 || x > y || y > L || (i > j) {
					continue
				}
				buf[0], buf[1], buf[2] = x, y-x, L-y
				if !emit(buf[:3]) {
					return n
				}
			}
		}
	} else {
		for _, x := range cuts {
			if x >= 0 && x <= L {
				buf[0], buf[1] = x, L-x
				if !emit(buf[:2]) {
					return n
				}
			}
		}
	}
	return n
}

func hashWith(a *alg, cf config, msg []byte, plan []int) (sum []byte, err error) {
	h, err := a.newHash(cf.size, cf.key)
	if err != nil {
		return nil, err
	}
	pos := 0
	for _, n := range plan {
		k, werr := h.Write(msg[pos : pos+n])
		if werr != nil || k != n {
			return nil, fmt.Errorf("Write(%d) returned (%d,%v)", n, k, werr)
		}
		pos += n
	}
	if pos != len(msg) {
		panic("bad plan")
	}
	return h.Sum(nil), nil
}

func run(c *vf.Ctx) {
	c.Rule("for each algorithm {blake2b, blake2s} and each hashBlocks implementation forced in turn: " +
		"(A) all digest sizes x all key lengths x msg len {0,1,B-1,B,B+1,2B,2B+1}; " +
		"(B) configs (size in {1,20,32,48,64}/{16,32} x key len {0,1,max}) x every msg len 0..4B+1 and 2000 x chunkings {one Write, byte-wise, strides 7/B-1/B/B+1, boundary two-way splits; for max size x key {0,max}: every two-way split and boundary three-way splits} x value classes, plus one-shot SumNNN; " +
		"(C) every history over {Write 0,1,B-1,B,B+1,2B+3; Sum; Reset} to depth D without state merging; " +
		"(D) marshal-seeded states with counters 1,2,3 or 100 blocks below the 2^64/2^32 carry (and the sign / 16-bit boundaries) x write lengths up to 300 blocks, so the carry also happens deep inside one long hashBlocks call; (E) constructor argument rules; " +
		"(L) long inputs: every length 2^k+{-1,0,1,B-1,B,B+1}, k=10..22, x {unkeyed, max key} x chunkings {one Write, 1/B-1/B+1 bytes then the rest, two parts meeting at 2^(k-1)+1, strides 4095 and 65537} on a reused (Reset) object, plus one-shot SumNNN. " +
		"Caller-owned buffers: in (A) a second object is built from private key/message copies that are overwritten right after New/Write return (digest and digest after Reset must be those of the original key; Write must not modify its argument), in (C) every Write gets a private copy that is overwritten afterwards, keys are overwritten after New, and every Sum result incl. spare capacity is overwritten. " +
		"Non-initial states: in (B) every message is also hashed with a (double) Sum in the middle at every cut (boundary cuts for the smaller configs) and on an object that absorbed L other bytes and was Reset. " +
		"non-trivial = distinct (alg,path,size,keylen,msglen[,section]) that is keyed, or not the maximal size, or spans more than one block; a history is non-trivial from depth 2. oracle = RFC 7693 model (ref/blake2ref)")
	c.Assume("the reference model verif/ref/blake2ref is correct (validated against RFC 7693 App. A/E vectors, the official BLAKE2X KATs and CPython hashlib)")
	c.Assume("message/key values are a fixed alphabet plus seeded classes: every shape is enumerated, not every value")
	c.Assume("marshal layout magic|h|c|size|block|offset (big-endian words) as documented in the package source is used to seed counter states in section D")

	for _, a := range algs() {
		have := a.paths()
		if fmt.Sprint(have) != fmt.Sprint(a.wantPaths) {
			// never an alarm: the CPU simply cannot run some variant
			c.Capped(fmt.Sprintf("%s: CPU offers only implementations %v of %v", a.name, have, a.wantPaths))
		}
		c.Set(a.name+"_paths", have)
		sectionE(c, a)
		tabA := prepA(c, a)
		tabB := prepB(c, a)
		tabL := prepL(c, a)
		for _, p := range have {
			if !a.setPath(p) || a.current() != p {
				c.Violation(a.class("dispatch hook could not select "+p), nil)
				continue
			}
			t0 := time.Now()
			sectionA(c, a, p, tabA)
			t1 := time.Now()
			sectionB(c, a, p, tabB)
			t2 := time.Now()
			sectionC(c, a, p)
			t3 := time.Now()
			sectionD(c, a, p)
			t4 := time.Now()
			sectionL(c, a, p, tabL)
			c.Set("wall_s_"+a.name+"_"+p, fmt.Sprintf("A=%.1f B=%.1f C=%.1f D=%.1f L=%.1f", t1.Sub(t0).Seconds(), t2.Sub(t1).Seconds(), t3.Sub(t2).Seconds(), t4.Sub(t3).Seconds(), time.Since(t4).Seconds()))
			c.Outcome(a.name + "/" + p + " done")
		}
		a.restore()
	}
}

// ---------------------------------------------------------------- section A

type caseA struct {
	size, klen, mlen int
	key, msg, want   []byte
}

func prepA(c *vf.Ctx, a *alg) []caseA {
	B := a.B
	var cs []caseA
	for _, size := range a.sizes {
		for klen := 0; klen <= a.maxKey; klen++ {
			if klen == 0 && a.needsKey(size) {
				continue
			}
			for _, mlen := range []int{0, 1, B - 1, B, B + 1, 2 * B, 2*B + 1} {
				cs = append(cs, caseA{size: size, klen: klen, mlen: mlen})
			}
		}
	}
	pfor(c, a.name+" section A-prep", len(cs), func(i int) {
		x := &cs[i]
		x.key = c.Bytes(a.name+"-A-key", x.klen, x.klen)
		x.msg = c.Bytes(a.name+"-A-msg", x.size, x.mlen)
		x.want = a.ref(x.size, x.key, x.msg)
	})
	return cs
}

func sectionA(c *vf.Ctx, a *alg, path string, cs []caseA) {
	pfor(c, a.name+" section A", len(cs), func(i int) {
		x := &cs[i]
		var key []byte
		if x.klen > 0 {
			key = x.key
		}
		h, err := a.newHash(x.size, key)
		c.Eval(1)
		if err != nil {
			c.Violation(a.class("constructor rejects valid size/key"), map[string]any{"size": x.size, "keylen": x.klen, "err": err.Error()})
			return
		}
		if h.Size() != x.size || h.BlockSize() != a.B {
			c.Violation(a.class("Size/BlockSize wrong"), map[string]any{"size": x.size, "got": h.Size(), "block": h.BlockSize()})
		}
		h.Write(x.msg)
		got := h.Sum(nil)
		if !bytes.Equal(got, x.want) {
			c.Violation(a.class("digest != RFC 7693 ["+path+"] (size/key grid)"),
				map[string]any{"path": path, "size": x.size, "keylen": x.klen, "msglen": x.mlen, "got": fmt.Sprintf("%x", got), "want": fmt.Sprintf("%x", x.want)})
		}
		// dimension A (the caller owns its buffers): a second object is built from PRIVATE
		// copies of key and message which the caller overwrites as soon as New / Write
		// return; the digest, and the digest after Reset, must still be those of the
		// ORIGINAL key. Write must leave its argument untouched, Sum's result is the caller's.
		var pkey []byte
		if x.klen > 0 {
			pkey = append([]byte(nil), x.key...)
		}
		h2, err := a.newHash(x.size, pkey)
		c.Eval(2)
		if err != nil {
			return
		}
		clobber(pkey)
		pmsg := append([]byte(nil), x.msg...)
		h2.Write(pmsg)
		if !bytes.Equal(pmsg, x.msg) {
			c.Violation(a.class("Write modifies the caller's message buffer ["+path+"]"), map[string]any{"size": x.size, "keylen": x.klen, "msglen": x.mlen})
		}
		clobber(pmsg)
		got2 := h2.Sum(nil)
		if !bytes.Equal(got2, x.want) {
			c.Violation(a.class("digest depends on key/message buffers the caller overwrote after New/Write returned ["+path+"]"),
				map[string]any{"path": path, "size": x.size, "keylen": x.klen, "msglen": x.mlen, "got": fmt.Sprintf("%x", got2), "want": fmt.Sprintf("%x", x.want)})
		}
		clobber(got2)
		h2.Reset()
		h2.Write(x.msg)
		if got3 := h2.Sum(nil); !bytes.Equal(got3, x.want) {
			c.Violation(a.class("Reset does not restore the keyed initial state of the ORIGINAL key once the caller overwrote its key buffer ["+path+"]"),
				map[string]any{"path": path, "size": x.size, "keylen": x.klen, "msglen": x.mlen, "got": fmt.Sprintf("%x", got3), "want": fmt.Sprintf("%x", x.want)})
		}
		if x.klen > 0 || x.size != a.maxSize || x.mlen > a.B {
			c.Nontrivial(fmt.Sprintf("A/%s/%s/%d/%d/%d", a.name, path, x.size, x.klen, x.mlen))
		}
		if x.size == a.maxSize && x.klen == a.maxKey && x.mlen == 2*a.B+1 {
			c.Sample(map[string]any{"section": "A", "alg": a.name, "path": path, "size": x.size, "keylen": x.klen, "msglen": x.mlen, "digest": vf.Hex8(got)})
		}
	})
}

// ---------------------------------------------------------------- section B

type caseB struct {
	cf    config
	cfi   int
	class int
	L     int
	msg   []byte
	want  []byte
	full  bool
}

func (a *alg) configsB(c *vf.Ctx) []config {
	var sizes []int
	if a.name == "blake2b" {
		sizes = []int{1, 20, 32, 48, 64}
	} else {
		sizes = []int{16, 32}
	}
	var out []config
	for _, s := range sizes {
		for _, kl := range []int{0, 1, a.maxKey} {
			if kl == 0 && a.needsKey(s) {
				continue
			}
			var key []byte
			if kl > 0 {
				key = c.Bytes(a.name+"-B-key", s, kl)
			}
			out = append(out, config{s, key})
		}
	}
	return out
}

func dataClass(c *vf.Ctx, label string, class, n int) []byte {
	switch class {
	case 0:
		return c.Bytes(label, 0, n)
	case 1:
		return bytes.Repeat([]byte{0xff}, n)
	case 2:
		return make([]byte, n)
	case 3:
		b := make([]byte, n)
		for i := range b {
			b[i] = byte(i)
		}
		return b
	}
	return c.Bytes(label, class, n)
}

func prepB(c *vf.Ctx, a *alg) []caseB {
	var cs []caseB
	var lens []int
	for L := 0; L <= 4*a.B+1; L++ {
		lens = append(lens, L)
	}
	lens = append(lens, 2000)
	for cfi, cf := range a.configsB(c) {
		rich := cf.size == a.maxSize && (len(cf.key) == 0 || len(cf.key) == a.maxKey)
		// every two-way split and the boundary three-way splits: extreme sizes x extreme keys
		full := (cf.size == a.maxSize || cf.size == a.sizes[0]) && (len(cf.key) == 0 || len(cf.key) == a.maxKey)
		if c.Thorough {
			full = true
		}
		nclass := 1
		if rich {
			nclass = 2 // seeded + all-0xFF
			if len(cf.key) == 0 {
				nclass = 4 // + all-zero + ascending
			}
			if c.Thorough {
				nclass = 4 + c.V()
			}
		} else if c.Thorough {
			nclass = 4
		}
		for cl := 0; cl < nclass; cl++ {
			for _, L := range lens {
				// every two-way split only for the first two classes of a full config
				cs = append(cs, caseB{cf: cf, cfi: cfi, class: cl, L: L, full: full && (cl < 2 || c.Thorough)})
			}
		}
	}
	pfor(c, a.name+" section B-prep", len(cs), func(i int) {
		x := &cs[i]
		x.msg = dataClass(c, fmt.Sprintf("%s-B-msg-%d", a.name, x.cfi), x.class, x.L)
		x.want = a.ref(x.cf.size, x.cf.key, x.msg)
	})
	return cs
}

func sectionB(c *vf.Ctx, a *alg, path string, cs []caseB) {
	pfor(c, a.name+" section B", len(cs), func(i int) {
		x := &cs[i]
		failed := false
		nplans := a.plans(x.L, x.full, func(plan []int) bool {
			got, err := hashWith(a, x.cf, x.msg, plan)
			c.Eval(1)
			if err != nil {
				c.Violation(a.class("constructor/Write error"), map[string]any{"size": x.cf.size, "keylen": len(x.cf.key), "err": err.Error()})
				failed = true
				return false
			}
			if !bytes.Equal(got, x.want) {
				pl := append([]int(nil), plan...)
				if len(pl) > 8 {
					pl = pl[:8]
				}
				c.Violation(a.class("digest != RFC 7693 ["+path+"] (length/chunking grid)"),
					map[string]any{"path": path, "size": x.cf.size, "keylen": len(x.cf.key), "msglen": x.L, "class": x.class, "writes(first 8)": pl,
						"got": fmt.Sprintf("%x", got), "want": fmt.Sprintf("%x", x.want)})
				failed = true
				return false
			}
			return true
		})
		if failed {
			return
		}
		// dimension D (non-initial states): the same message from a state reached by a short
		// history - a Sum in the middle at every cut (all cuts for the full configs, the
		// boundary cuts otherwise), and a Reset of an object that already absorbed x.L
		// other bytes (so every buffer offset / counter state is Reset once).
		if !sectionBStates(c, a, path, x) {
			return
		}
		if f, ok := a.oneShot[x.cf.size]; ok && len(x.cf.key) == 0 {
			c.Eval(1)
			if got := f(x.msg); !bytes.Equal(got, x.want) {
				c.Violation(a.class(fmt.Sprintf("one-shot Sum%d != RFC 7693 [%s]", 8*x.cf.size, path)),
					map[string]any{"path": path, "msglen": x.L, "class": x.class, "got": fmt.Sprintf("%x", got), "want": fmt.Sprintf("%x", x.want)})
			}
		}
		if len(x.cf.key) > 0 || x.cf.size != a.maxSize || x.L > a.B {
			c.Nontrivial(fmt.Sprintf("B/%s/%s/%d/%d/%d/%d", a.name, path, x.cf.size, len(x.cf.key), x.class, x.L))
		}
		if x.L == 2000 && x.full && x.class == 0 {
			c.Sample(map[string]any{"section": "B", "alg": a.name, "path": path, "size": x.cf.size, "keylen": len(x.cf.key), "msglen": x.L, "chunkings": nplans})
		}
	})
}

func sectionBStates(c *vf.Ctx, a *alg, path string, x *caseB) bool {
	B, L := a.B, x.L
	bad := func(what string, cut int, got []byte) bool {
		c.Violation(a.class(what+" ["+path+"]"),
			map[string]any{"path": path, "size": x.cf.size, "keylen": len(x.cf.key), "msglen": L, "class": x.class, "cut": cut,
				"got": fmt.Sprintf("%x", got), "want": fmt.Sprintf("%x", x.want)})
		return false
	}
	midSum := func(cut int) bool {
		h, err := a.newHash(x.cf.size, x.cf.key)
		if err != nil {
			return false
		}
		h.Write(x.msg[:cut])
		s1 := h.Sum(nil)
		s2 := h.Sum(make([]byte, 0, 80))
		c.Eval(1)
		if !bytes.Equal(s1, s2) {
			return bad("Sum in the middle of a stream is not idempotent", cut, s2)
		}
		clobber(s1)
		clobber(s2)
		h.Write(x.msg[cut:])
		if got := h.Sum(nil); !bytes.Equal(got, x.want) {
			return bad("Sum in the middle of a stream alters the running state", cut, got)
		}
		return true
	}
	if x.full {
		for cut := 0; cut <= L; cut++ {
			if !midSum(cut) {
				return false
			}
		}
	} else {
		for _, cut := range [...]int{0, 1, B - 1, B, B + 1, 2 * B, 2*B + 1, L - 1, L} {
			if cut >= 0 && cut <= L && !midSum(cut) {
				return false
			}
		}
	}
	// Reset from the state "L junk bytes absorbed" (with a Sum before the Reset for odd L)
	h, err := a.newHash(x.cf.size, x.cf.key)
	if err != nil {
		return false
	}
	junk := make([]byte, L)
	for i := range junk {
		junk[i] = ^x.msg[i] ^ byte(i)
	}
	h.Write(junk)
	if L&1 == 1 {
		h.Sum(nil)
	}
	h.Reset()
	h.Write(x.msg)
	c.Eval(1)
	if got := h.Sum(nil); !bytes.Equal(got, x.want) {
		return bad("Reset of a used object does not restore the keyed initial state", L, got)
	}
	return true
}

func clobber(b []byte) {
	for i := range b {
		b[i] ^= 0xFF
	}
}

// ---------------------------------------------------------------- section C

type op struct {
	kind byte // 'W', 'S', 'R'
	n    int
}

func sectionC(c *vf.Ctx, a *alg, path string) {
	B := a.B
	ops := []op{{'W', 1}, {'S', 0}, {'W', B}, {'R', 0}, {'W', B - 1}, {'W', B + 1}, {'W', 2*B + 3}, {'W', 0}}
	depth := 5
	if c.Thorough {
		depth = 6
	}
	var cfgs []config
	stream := c.Bytes(a.name+"-C-stream", 0, depth*(2*B+3))
	if a.name == "blake2b" {
		cfgs = []config{{64, nil}, {64, c.Bytes("C-key", 0, 64)}, {32, nil}, {20, c.Bytes("C-key", 1, 17)}}
	} else {
		cfgs = []config{{32, nil}, {32, c.Bytes("C-key", 0, 32)}, {16, c.Bytes("C-key", 1, 5)}}
	}
	for ci, cf := range cfgs {
		label := fmt.Sprintf("C/%s/%s/size%d/key%d", a.name, path, cf.size, len(cf.key))
		// quick: depth 5 for the unkeyed maximal-size config, 4 for the others;
		// thorough: depth 6 for the unkeyed and the max-keyed config, 5 for the others
		d := depth
		if (c.Thorough && ci > 1) || (!c.Thorough && ci > 0) {
			d = depth - 1
		}
		vf.ExploreSeq(c, label, vf.SeqSpec[op]{
			Ops: ops, Depth: d, Parallel: true,
			Name: func(o op) string {
				switch o.kind {
				case 'W':
					return fmt.Sprintf("Write(%d)", o.n)
				case 'S':
					return "Sum"
				}
				return "Reset"
			},
			Class: func(h []op, mis string) string {
				cat, _, _ := strings.Cut(mis, " | ")
				return a.class(cat + " [" + path + "]")
			},
			Run: func(hist []op) (key string, stop bool, mis string) {
				defer recoverRun(&stop, &mis)
				pk := append([]byte(nil), cf.key...) // nil stays nil
				h, err := a.newHash(cf.size, pk)
				if err != nil {
					return "", true, "constructor error in history"
				}
				clobber(pk) // every later Reset must restore the state keyed with the ORIGINAL key
				pos := 0    // bytes written since the last Reset; data always comes from stream[pos:]
				sums := 0
				for _, o := range hist {
					switch o.kind {
					case 'W':
						// the caller owns the buffer: private copy, overwritten after the call
						p := append([]byte(nil), stream[pos:pos+o.n]...)
						n, err := h.Write(p)
						if n != o.n || err != nil {
							return "", true, "Write return value wrong in history"
						}
						clobber(p)
						pos += o.n
					case 'R':
						h.Reset()
						pos = 0
					case 'S':
						prefix := append(make([]byte, 0, 3+cf.size+5), "pfx"...)
						got := h.Sum(prefix)
						want := a.ref(cf.size, cf.key, stream[:pos])
						sums++
						if len(got) != 3+cf.size || string(got[:3]) != "pfx" || !bytes.Equal(got[3:], want) {
							return "", true, "history: Sum != RFC 7693 digest of bytes written since Reset"
						}
						clobber(got[:cap(got)]) // the result (and the spare capacity behind it) is the caller's
					}
				}
				// final observation so that Write/Reset as last operation are observed as well
				if got, want := h.Sum(nil), a.ref(cf.size, cf.key, stream[:pos]); !bytes.Equal(got, want) {
					return "", true, "history: final Sum != RFC 7693 digest of bytes written since Reset"
				}
				return "", false, ""
			},
		})
	}
}

// ---------------------------------------------------------------- section L (long inputs)

type caseL struct {
	cf    config
	class int
	L     int
	msg   []byte // prefix of the class's long buffer (shared, never written)
	want  []byte
}

// longPlans calls f with the chunkings used for a long message: one Write; the bulk
// after a 1-byte / (B-1)-byte / (B+1)-byte first write (unaligned source, partly filled buffer);
// two halves meeting one byte past the power of two below; strides 4095 and 65537
// (write boundaries cross every 2^j + small point).
func (a *alg) longPlans(L int, f func(name string, plan []int) bool) {
	B := a.B
	if !f("one", []int{L}) {
		return
	}
	for _, first := range []int{1, B - 1, B + 1} {
		if !f(fmt.Sprintf("%d+rest", first), []int{first, L - first}) {
			return
		}
	}
	half := 1
	for half*2 < L {
		half *= 2
	}
	if !f("pow2+1|rest", []int{half/2 + 1, L - half/2 - 1}) {
		return
	}
	for _, st := range []int{4095, 65537} {
		if L <= st {
			continue
		}
		var p []int
		for r := L; r > 0; r -= st {
			p = append(p, min(r, st))
		}
		if !f(fmt.Sprintf("stride%d", st), p) {
			return
		}
	}
}

func prepL(c *vf.Ctx, a *alg) []caseL {
	B := a.B
	kmax := 22
	var lens []int
	seen := map[int]bool{}
	for k := 10; k <= kmax; k++ {
		for _, d := range []int{-1, 0, 1, B - 1, B, B + 1} {
			if L := 1<<k + d; !seen[L] {
				seen[L] = true
				lens = append(lens, L)
			}
		}
	}
	cfgs := []config{{a.maxSize, nil}, {a.maxSize, c.Bytes(a.name+"-L-key", 0, a.maxKey)}}
	nclass := 1
	if c.Thorough {
		cfgs = append(cfgs, config{a.sizes[0], c.Bytes(a.name+"-L-key", 1, 1)})
		nclass = 2
	}
	var cs []caseL
	for cl := 0; cl < nclass; cl++ {
		long := c.Bytes(a.name+"-L-msg", cl, 1<<kmax+B+1)
		if cl == 1 {
			for i := range long {
				long[i] = 0xff // every carry-propagating addend at its maximum
			}
		}
		for _, cf := range cfgs {
			for _, L := range lens {
				cs = append(cs, caseL{cf: cf, class: cl, L: L, msg: long[:L]})
			}
		}
	}
	pfor(c, a.name+" section L-prep", len(cs), func(i int) {
		x := &cs[len(cs)-1-i] // longest first
		x.want = a.ref(x.cf.size, x.cf.key, x.msg)
	})
	return cs
}

func sectionL(c *vf.Ctx, a *alg, path string, cs []caseL) {
	pfor(c, a.name+" section L", len(cs), func(j int) {
		x := &cs[len(cs)-1-j]
		h, err := a.newHash(x.cf.size, x.cf.key)
		if err != nil {
			c.Violation(a.class("constructor/Write error"), map[string]any{"size": x.cf.size, "keylen": len(x.cf.key), "err": err.Error()})
			return
		}
		nplans := 0
		a.longPlans(x.L, func(name string, plan []int) bool {
			nplans++
			h.Reset() // the object is reused: every plan also starts from a used-and-Reset state
			pos := 0
			for _, n := range plan {
				h.Write(x.msg[pos : pos+n])
				pos += n
			}
			if pos != x.L {
				panic("bad long plan")
			}
			got := h.Sum(nil)
			c.Eval(1)
			if !bytes.Equal(got, x.want) {
				c.Violation(a.class("digest != RFC 7693 ["+path+"] (long input)"),
					map[string]any{"path": path, "size": x.cf.size, "keylen": len(x.cf.key), "msglen": x.L, "class": x.class, "chunking": name,
						"got": fmt.Sprintf("%x", got), "want": fmt.Sprintf("%x", x.want)})
				return false
			}
			return true
		})
		if f, ok := a.oneShot[x.cf.size]; ok && len(x.cf.key) == 0 {
			c.Eval(1)
			if got := f(x.msg); !bytes.Equal(got, x.want) {
				c.Violation(a.class(fmt.Sprintf("one-shot Sum%d != RFC 7693 [%s] (long input)", 8*x.cf.size, path)),
					map[string]any{"path": path, "msglen": x.L, "class": x.class, "got": fmt.Sprintf("%x", got), "want": fmt.Sprintf("%x", x.want)})
			}
		}
		c.Nontrivial(fmt.Sprintf("L/%s/%s/%d/%d/%d/%d", a.name, path, x.cf.size, len(x.cf.key), x.class, x.L))
		if x.L == 1<<22+a.B+1 && x.class == 0 && len(x.cf.key) > 0 {
			c.Sample(map[string]any{"section": "L", "alg": a.name, "path": path, "size": x.cf.size, "keylen": len(x.cf.key), "msglen": x.L, "chunkings": nplans})
		}
	})
}

// ---------------------------------------------------------------- section D

// knownSignedCompare is the class of the one divergence from RFC 7693 that the unchanged
// tree shows (see known_findings.txt): the three blake2b assembly implementations decide
// "did the low counter word wrap" with a signed comparison (CMPQ R8,$128; JGE noinc), so
// the high counter word is bumped for every block once the low word is >= 2^63.
const knownSignedCompare = "blake2b: asm hashBlocks (AVX2/AVX/SSE4) increment the high counter word whenever the low word is >= 2^63 (signed CMPQ/JGE); generic and RFC 7693 do not"

// signedCompareModelB computes what BLAKE2b returns if, and only if, the counter is
// advanced exactly as by that defect; it is used solely to tell the known defect apart
// from any other counter error (which is reported under a different class).
func signedCompareModelB(h [8]uint64, t [2]uint64, data []byte) []byte {
	bump := func() {
		t[0] += 128
		if int64(t[0]) < 128 {
			t[1]++
		}
	}
	for len(data) > 128 {
		bump()
		blake2ref.CompressB(&h, data[:128], t, false)
		data = data[128:]
	}
	var last [128]byte
	copy(last[:], data)
	rem := uint64(128 - len(data))
	if t[0] < rem {
		t[1]--
	}
	t[0] -= rem
	bump()
	blake2ref.CompressB(&h, last[:], t, true)
	out := make([]byte, 64)
	for i, w := range h {
		binary.LittleEndian.PutUint64(out[8*i:], w)
	}
	return out
}

func sectionD(c *vf.Ctx, a *alg, path string) {
	B := a.B
	type seed struct {
		top    uint64 // low counter word = top - back*B (top = 0 means 2^w)
		back   int
		hi     uint64
		offset int
	}
	var seeds []seed
	tops := []uint64{0} // 2^64 resp. 2^32: true carry into the high word
	if a.name == "blake2b" {
		tops = append(tops, 1<<63, 1<<32) // sign boundary of the low word; 32-bit boundary
	} else {
		tops = append(tops, 1<<31, 1<<16)
	}
	for _, top := range tops {
		for _, back := range []int{1, 2, 3, 100} { // 100: the carry happens deep inside one long hashBlocks call
			for _, hi := range []uint64{0, 5} {
				for _, off := range []int{0, 1, B - 1, B} {
					seeds = append(seeds, seed{top, back, hi, off})
				}
			}
		}
	}
	wlens := []int{0, 1, B - 1, B, B + 1, 2 * B, 2*B + 1, 3 * B, 3*B + 1, 4*B + 1, 6 * B, 100 * B, 100*B + 1, 101*B + 1, 300*B + 7}
	maxw := wlens[len(wlens)-1]
	pfor(c, a.name+" section D", len(seeds), func(i int) {
		s := seeds[i]
		hbytes := c.Bytes(a.name+"-D-h", i, 64)
		block := c.Bytes(a.name+"-D-block", i, B)
		// unused part of the buffer is zero in every reachable state
		for j := s.offset; j < B; j++ {
			block[j] = 0
		}
		data := c.Bytes(a.name+"-D-data", i, maxw)
		var st []byte
		var hb [8]uint64
		var hs [8]uint32
		var tb [2]uint64
		var ts [2]uint32
		if a.name == "blake2b" {
			st = append(st, "b2b"...)
			for k := 0; k < 8; k++ {
				hb[k] = binary.LittleEndian.Uint64(hbytes[8*k:])
				st = binary.BigEndian.AppendUint64(st, hb[k])
			}
			tb = [2]uint64{s.top - uint64(s.back*B), s.hi}
			st = binary.BigEndian.AppendUint64(st, tb[0])
			st = binary.BigEndian.AppendUint64(st, tb[1])
		} else {
			st = append(st, "b2s"...)
			for k := 0; k < 8; k++ {
				hs[k] = binary.LittleEndian.Uint32(hbytes[4*k:])
				st = binary.BigEndian.AppendUint32(st, hs[k])
			}
			ts = [2]uint32{uint32(s.top) - uint32(s.back*B), uint32(s.hi)}
			st = binary.BigEndian.AppendUint32(st, ts[0])
			st = binary.BigEndian.AppendUint32(st, ts[1])
		}
		st = append(st, byte(a.maxSize))
		st = append(st, block...)
		st = append(st, byte(s.offset))
		for _, wl := range wlens {
			for _, split := range []bool{false, true} {
				if split && wl < 2 {
					continue
				}
				h, _ := a.newHash(a.maxSize, nil)
				u, ok := h.(encoding.BinaryUnmarshaler)
				if !ok {
					c.Violation(a.class("unkeyed hash does not implement BinaryUnmarshaler"), nil)
					return
				}
				if err := u.UnmarshalBinary(st); err != nil {
					c.Violation(a.class("UnmarshalBinary rejects a well-formed state (counter seeding)"), map[string]any{"err": err.Error(), "state": fmt.Sprintf("%x", st)})
					return
				}
				if split {
					h.Write(data[:wl/2])
					h.Write(data[wl/2 : wl])
				} else {
					h.Write(data[:wl])
				}
				got := h.Sum(nil)
				c.Eval(1)
				in := append(append([]byte{}, block[:s.offset]...), data[:wl]...)
				var want []byte
				if a.name == "blake2b" {
					w := blake2ref.FinishB(hb, tb, in)
					want = w[:]
				} else {
					w := blake2ref.FinishS(hs, ts, in)
					want = w[:]
				}
				crosses := s.offset+wl > s.back*B
				if crosses {
					c.Nontrivial(fmt.Sprintf("D/%s/%s/%d/%d/%d/%d/%d/%v", a.name, path, s.top, s.back, s.hi, s.offset, wl, split))
				}
				if bytes.Equal(got, want) {
					continue
				}
				detail := map[string]any{"path": path, "counter_low": fmt.Sprintf("%#x - %d*%d", s.top, s.back, B), "counter_high": s.hi, "buffered": s.offset, "write": wl, "split": split,
					"got": fmt.Sprintf("%x", got), "want": fmt.Sprintf("%x", want), "state": fmt.Sprintf("%x", st)}
				if a.name == "blake2b" && path != "generic" && bytes.Equal(got, signedCompareModelB(hb, tb, in)) {
					c.Violation(knownSignedCompare, detail)
					continue
				}
				c.Violation(a.class("offset counter carry/borrow wrong ["+path+"]"), detail)
				return
			}
		}
		if s.back == 2 && s.hi == 5 && s.offset == B {
			c.Sample(map[string]any{"section": "D", "alg": a.name, "path": path, "counter": fmt.Sprintf("low=%#x-%d*B (0 means 2^w), high=%d", s.top, s.back, s.hi), "buffered": s.offset, "write_lengths": wlens})
		}
	})
}

// ---------------------------------------------------------------- section E

func sectionE(c *vf.Ctx, a *alg) {
	if a.name == "blake2b" {
		for _, size := range []int{-1, 0, 65, 66, 128, 256, 1 << 20} {
			c.Eval(1)
			if _, err := blake2b.New(size, nil); err == nil {
				c.Violation("blake2b: New accepts digest size outside 1..64", size)
			}
		}
		for size := 1; size <= 64; size++ {
			c.Eval(1)
			if _, err := blake2b.New(size, make([]byte, 65)); err == nil {
				c.Violation("blake2b: New accepts 65-byte key", size)
			}
		}
		for _, f := range []func([]byte) (hash.Hash, error){blake2b.New512, blake2b.New384, blake2b.New256} {
			c.Eval(2)
			if _, err := f(make([]byte, 65)); err == nil {
				c.Violation("blake2b: NewNNN accepts 65-byte key", nil)
			}
			if _, err := f(make([]byte, 64)); err != nil {
				c.Violation("blake2b: NewNNN rejects 64-byte key", nil)
			}
		}
		// fixed-size constructors and the crypto.Hash registrations produce the documented sizes
		msg := c.Bytes("E-msg", 0, 300)
		for _, x := range []struct {
			size int
			f    func([]byte) (hash.Hash, error)
			id   crypto.Hash
		}{{64, blake2b.New512, crypto.BLAKE2b_512}, {48, blake2b.New384, crypto.BLAKE2b_384}, {32, blake2b.New256, crypto.BLAKE2b_256}} {
			want := blake2ref.SumB(x.size, nil, msg)
			h, _ := x.f(nil)
			h.Write(msg)
			c.Eval(2)
			if !bytes.Equal(h.Sum(nil), want) {
				c.Violation("blake2b: NewNNN digest wrong", x.size)
			}
			if !x.id.Available() {
				c.Violation("blake2b: crypto.Hash not registered", x.size)
				continue
			}
			g := x.id.New()
			g.Write(msg)
			if !bytes.Equal(g.Sum(nil), want) {
				c.Violation("blake2b: crypto.Hash registration computes wrong digest", x.size)
			}
			registryHistory(c, "blake2b", x.id, func(m []byte) []byte { return blake2ref.SumB(x.size, nil, m) })
		}
		return
	}
	c.Eval(4)
	if _, err := blake2s.New256(make([]byte, 33)); err == nil {
		c.Violation("blake2s: New256 accepts 33-byte key", nil)
	}
	if _, err := blake2s.New128(make([]byte, 33)); err == nil {
		c.Violation("blake2s: New128 accepts 33-byte key", nil)
	}
	if _, err := blake2s.New128(nil); err == nil {
		c.Violation("blake2s: New128 accepts empty key", nil)
	}
	if _, err := blake2s.New128([]byte{}); err == nil {
		c.Violation("blake2s: New128 accepts empty key", nil)
	}
	msg := c.Bytes("E-msg", 0, 300)
	if crypto.BLAKE2s_256.Available() {
		g := crypto.BLAKE2s_256.New()
		g.Write(msg)
		if !bytes.Equal(g.Sum(nil), blake2ref.SumS(32, nil, msg)) {
			c.Violation("blake2s: crypto.Hash registration computes wrong digest", nil)
		}
		registryHistory(c, "blake2s", crypto.BLAKE2s_256, func(m []byte) []byte { return blake2ref.SumS(32, nil, m) })
	} else {
		c.Violation("blake2s: crypto.Hash not registered", nil)
	}
}

// pfor is c.ParallelFor with every case guarded: a panic escaping the code under test
// is recorded as a violation instead of crashing the run.
func pfor(c *vf.Ctx, section string, n int, f func(i int)) {
	c.ParallelFor(n, func(i int) {
		if p, v, st := vf.Protect(func() { f(i) }); p {
			if len(st) > 1500 {
				st = st[:1500]
			}
			c.Violation(section+": unexpected panic in the code under test", map[string]any{"case_index": i, "panic": fmt.Sprint(v), "stack": st})
		}
	})
}

// recoverRun turns a panic inside a history into a mismatch of that history.
func recoverRun(stop *bool, mis *string) {
	if r := recover(); r != nil {
		*stop, *mis = true, fmt.Sprintf("unexpected panic | %v", r)
	}
}

// registryHistory: hashes obtained through the crypto.Hash registry are independent objects
// that start empty - three live ones are fed different messages in interleaved pieces, and one
// obtained after the others were used must start from the initial state.
func registryHistory(c *vf.Ctx, name string, id crypto.Hash, ref func([]byte) []byte) {
	msgs := [][]byte{c.Bytes("reg-a", 0, 300), c.Bytes("reg-b", 1, 129), c.Bytes("reg-c", 2, 64)}
	hs := []hash.Hash{id.New(), id.New(), id.New()}
	for step := 0; step < 3; step++ {
		for i, h := range hs {
			m := msgs[i]
			lo, hi := step*len(m)/3, (step+1)*len(m)/3
			h.Write(m[lo:hi])
		}
	}
	c.Eval(4)
	for i, h := range hs {
		if !bytes.Equal(h.Sum(nil), ref(msgs[i])) {
			c.Violation(name+": hashes handed out by the crypto.Hash registry are not independent objects (interleaved use of three of them)", map[string]any{"hash": fmt.Sprint(id), "object": i})
			return
		}
	}
	late := id.New()
	late.Write(msgs[1])
	if !bytes.Equal(late.Sum(nil), ref(msgs[1])) {
		c.Violation(name+": a hash obtained from the crypto.Hash registry after earlier ones were used does not start empty", fmt.Sprint(id))
	}
}
