// C53: in-place and overlapping buffers are handled as documented.
//
// One backing array; the input sits at a fixed offset; the output region is placed at
// EVERY offset -64..+64 relative to the input, for several lengths and dst capacity
// variants, for chacha20, salsa20, chacha20poly1305 (assembly and portable path, both
// nonce sizes, Seal and Open, plus additional-data placements), xts, secretbox, box and
// sign. Oracle (differential, no reference model needed): the same real function run on
// separate buffers. Exactly overlapping buffers (documented in-place convention) must give
// that result; inexactly overlapping buffers must panic; nothing may ever return a result
// that differs from the separate-buffer result or write outside its output region.
package main

import (
	"bytes"
	"crypto/aes"
	"fmt"
	"sort"
	"strings"

	"golang.org/x/crypto/chacha20"
	"golang.org/x/crypto/chacha20poly1305"
	"golang.org/x/crypto/nacl/box"
	"golang.org/x/crypto/nacl/secretbox"
	"golang.org/x/crypto/nacl/sign"
	"golang.org/x/crypto/salsa20"
	"golang.org/x/crypto/xts"
	"verif/vf"
)

func main() { vf.Main("C53", vf.Exploration, run) }

const (
	poison = 0xEE
	bufLen = 768 // adPlacement only; runUnit sizes its backing array from the shifts it enumerates
)

// op is one function under test, normalised to "read in, produce out".
type op struct {
	name     string
	appendTo bool // append-style API (dst prefix + capacity) vs fixed dst slice
	// inPlace: the documentation allows the output to start exactly where the input starts
	inPlace bool
	lens    []int
	// input builds the input bytes for nominal length n (for Open-type ops: a valid sealed message)
	input func(n int) []byte
	// outLen is the number of bytes produced for an input of inLen bytes
	outLen func(inLen int) int
	// call runs the function; for append-style ops dst is the slice to append to and the
	// result is returned; for fixed ops dst is the destination slice (len >= outLen).
	call func(dst, in []byte) (out []byte, ok bool)
	// geom labels an overlap geometry that concerns only a part of the input or output with a
	// special role (tag, embedded key); "" otherwise. It becomes part of the violation class so
	// that a listed finding never hides a violation with a different geometry.
	geom func(r0, r1, i0, i1 int) string
}

const (
	longLen1 = 1 << 16
	longLen2 = 1<<20 + 16
)

// shiftsFor lists the offsets of the output region relative to the input that are enumerated for
// one (function, length): every offset -maxShift..+maxShift for inputs below 64 KiB, a sparse set
// around the same small values for long inputs, and always the far boundary of the overlap
// relation: output region ending / starting exactly at, one byte before and one byte behind the
// start / end of the input (+-(len-1), +-len, +-(len+1) for both the input and the output length),
// and half-way.
func shiftsFor(maxShift, inLen, need int) []int {
	set := map[int]bool{}
	if inLen < longLen1 {
		for s := -maxShift; s <= maxShift; s++ {
			set[s] = true
		}
	} else {
		for _, s := range []int{0, 1, 16, 65, 4096, inLen / 2} {
			set[s], set[-s] = true, true
		}
	}
	for _, l := range []int{inLen, need} {
		for _, s := range []int{l - 1, l, l + 1} {
			if s > 0 {
				set[s], set[-s] = true, true
			}
		}
	}
	if inLen < longLen1 && inLen/2 > 0 {
		set[inLen/2], set[-inLen/2] = true, true
	}
	var out []int
	for s := range set {
		out = append(out, s)
	}
	sort.Ints(out)
	return out
}

func seq(from, n int) []byte {
	b := make([]byte, n)
	for i := range b {
		b[i] = byte(from + i)
	}
	return b
}

func ops(c *vf.Ctx) []op {
	stdLens := []int{1, 16, 63, 64, 65, 200}
	if c.Thorough {
		stdLens = nil
		for n := 1; n <= 130; n++ {
			stdLens = append(stdLens, n)
		}
		stdLens = append(stdLens, 200, 255, 256, 257)
	}
	// medium lengths: one on each side of every length class of the block/assembly code (128/129, 192/193,
	// 320/321, 512/513: chacha20poly1305_amd64.s; 256: salsa20 4-block path), 1000, 4097; long: 64 KiB, 1 MiB+16
	// (sparse shift set, see shiftsFor); 0: the empty input
	stdLens = append([]int{0}, stdLens...)
	stdLens = append(stdLens, 129, 193, 321, 513, 1000, 4097, longLen1, longLen2)
	var longer []int // thorough only
	if c.Thorough {
		longer = []int{1<<18 + 16, 1 << 22}
		stdLens = append(stdLens, longer...)
	}
	key := seq(0x11, 32)
	var key32 [32]byte
	copy(key32[:], key)
	var nonce24 [24]byte
	copy(nonce24[:], seq(0x61, 24))
	msgOf := func(n int) []byte { return c.Bytes("c53-msg", n, n) }
	same := func(n int) int { return n }
	var out []op

	// --- chacha20 (12- and 24-byte nonce), fresh and STATEFUL: k bytes of key stream are consumed
	// first, so that the Cipher holds 64-(k mod 64) buffered key-stream bytes (none for k = 0, 64)
	// when the overlapping call arrives; the separate-buffer reference is built the same way
	clens := map[int]bool{}
	for _, n := range stdLens {
		clens[n] = true
	}
	for _, n := range []int{1, 4, 16, 32, 50, 53, 54, 60, 63, 64, 65, 200} {
		clens[n] = true
	}
	var chachaLens []int
	for n := range clens {
		chachaLens = append(chachaLens, n)
	}
	sort.Ints(chachaLens)
	for _, nl := range []int{12, 24} {
		nonce := seq(0x31, nl)
		for _, k := range []int{0, 1, 10, 63, 64, 65} {
			name := fmt.Sprintf("chacha20.XORKeyStream/nonce%d", nl)
			if k > 0 {
				name += fmt.Sprintf("/after%dbytes", k)
			}
			lens := chachaLens
			if k != 0 && k != 10 {
				lens = nil
				for _, n := range chachaLens {
					if n < longLen1 {
						lens = append(lens, n)
					}
				}
			}
			out = append(out, op{name: name, inPlace: true, lens: lens, input: msgOf, outLen: same,
				call: func(dst, in []byte) ([]byte, bool) {
					ci, _ := chacha20.NewUnauthenticatedCipher(key, nonce)
					if k > 0 {
						pre := make([]byte, k)
						ci.XORKeyStream(pre, pre)
					}
					ci.XORKeyStream(dst, in)
					return dst[:len(in)], true
				}})
		}
	}
	// --- salsa20 (8- and 24-byte nonce)
	for _, nl := range []int{8, 24} {
		nonce := seq(0x41, nl)
		out = append(out, op{name: fmt.Sprintf("salsa20.XORKeyStream/nonce%d", nl), inPlace: true, lens: stdLens, input: msgOf, outLen: same,
			call: func(dst, in []byte) ([]byte, bool) {
				salsa20.XORKeyStream(dst, in, nonce, &key32)
				return dst[:len(in)], true
			}})
	}
	// --- xts
	xk, _ := xts.NewCipher(aes.NewCipher, seq(0x21, 32))
	xlens := []int{16, 64, 208}
	if c.Thorough {
		xlens = []int{16, 32, 48, 64, 80, 128, 208, 256}
	}
	xlens = append(append(xlens, 512, 528, 4096, 4112, longLen1, longLen2), longer...)
	out = append(out, op{name: "xts.Encrypt", inPlace: true, lens: xlens, input: msgOf, outLen: same,
		call: func(dst, in []byte) ([]byte, bool) { xk.Encrypt(dst, in, 7); return dst[:len(in)], true }})
	out = append(out, op{name: "xts.Decrypt", inPlace: true, lens: xlens, input: msgOf, outLen: same,
		call: func(dst, in []byte) ([]byte, bool) { xk.Decrypt(dst, in, 7); return dst[:len(in)], true }})

	// --- chacha20poly1305: the path is selected by the caller of run (global switch); ops are path-agnostic
	ad := seq(0x51, 13)
	a12, _ := chacha20poly1305.New(key)
	a24, _ := chacha20poly1305.NewX(key)
	n12, n24 := seq(0x71, 12), seq(0x71, 24)
	for _, v := range []struct {
		name  string
		seal  func(dst, nonce, pt, ad []byte) []byte
		open  func(dst, nonce, ct, ad []byte) ([]byte, error)
		nonce []byte
	}{
		{"chacha20poly1305", a12.Seal, a12.Open, n12},
		{"xchacha20poly1305", a24.Seal, a24.Open, n24},
	} {
		out = append(out, op{name: v.name + ".Seal", appendTo: true, inPlace: true, lens: stdLens, input: msgOf, outLen: func(n int) int { return n + 16 },
			call: func(dst, in []byte) ([]byte, bool) { return v.seal(dst, v.nonce, in, ad), true }})
		out = append(out, op{name: v.name + ".Open", appendTo: true, inPlace: true, lens: stdLens,
			input:  func(n int) []byte { return v.seal(nil, v.nonce, msgOf(n), ad) },
			outLen: func(n int) int { return n - 16 },
			geom: func(r0, r1, i0, i1 int) string {
				if !overlaps(r0, r1, i0, i1-16) && overlaps(r0, r1, i1-16, i1) {
					return " [output overlaps only the tag of the ciphertext argument]"
				}
				return ""
			},
			call: func(dst, in []byte) ([]byte, bool) {
				o, err := v.open(dst, v.nonce, in, ad)
				return o, err == nil
			}})
	}
	// --- secretbox
	out = append(out, op{name: "secretbox.Seal", appendTo: true, lens: stdLens, input: msgOf, outLen: func(n int) int { return n + secretbox.Overhead },
		call: func(dst, in []byte) ([]byte, bool) { return secretbox.Seal(dst, in, &nonce24, &key32), true }})
	out = append(out, op{name: "secretbox.Open", appendTo: true, lens: stdLens,
		input:  func(n int) []byte { return secretbox.Seal(nil, msgOf(n), &nonce24, &key32) },
		outLen: func(n int) int { return n - secretbox.Overhead },
		call:   func(dst, in []byte) ([]byte, bool) { return secretbox.Open(dst, in, &nonce24, &key32) }})
	// --- box
	pubA, privA, _ := box.GenerateKey(vf.NewRand("c53-A"))
	pubB, privB, _ := box.GenerateKey(vf.NewRand("c53-B"))
	var shared [32]byte
	box.Precompute(&shared, pubB, privA)
	blens := append([]int{0, 1, 16, 63, 65, 200, 1000, 4097, longLen1, longLen2}, longer...)
	out = append(out, op{name: "box.Seal", appendTo: true, lens: blens, input: msgOf, outLen: func(n int) int { return n + box.Overhead },
		call: func(dst, in []byte) ([]byte, bool) { return box.Seal(dst, in, &nonce24, pubB, privA), true }})
	out = append(out, op{name: "box.Open", appendTo: true, lens: blens,
		input:  func(n int) []byte { return box.Seal(nil, msgOf(n), &nonce24, pubB, privA) },
		outLen: func(n int) int { return n - box.Overhead },
		call:   func(dst, in []byte) ([]byte, bool) { return box.Open(dst, in, &nonce24, pubA, privB) }})
	out = append(out, op{name: "box.SealAfterPrecomputation", appendTo: true, lens: stdLens, input: msgOf, outLen: func(n int) int { return n + box.Overhead },
		call: func(dst, in []byte) ([]byte, bool) {
			return box.SealAfterPrecomputation(dst, in, &nonce24, &shared), true
		}})
	out = append(out, op{name: "box.OpenAfterPrecomputation", appendTo: true, lens: stdLens,
		input:  func(n int) []byte { return box.SealAfterPrecomputation(nil, msgOf(n), &nonce24, &shared) },
		outLen: func(n int) int { return n - box.Overhead },
		call:   func(dst, in []byte) ([]byte, bool) { return box.OpenAfterPrecomputation(dst, in, &nonce24, &shared) }})
	out = append(out, op{name: "box.SealAnonymous", appendTo: true, lens: blens, input: msgOf, outLen: func(n int) int { return n + box.AnonymousOverhead },
		geom: func(r0, r1, i0, i1 int) string {
			if overlaps(r0, r0+32, i0, i1) && !overlaps(r0+32, r1, i0, i1) {
				return " [message overlaps only the ephemeral-key part of the output]"
			}
			return ""
		},
		call: func(dst, in []byte) ([]byte, bool) {
			o, err := box.SealAnonymous(dst, in, pubB, vf.NewRand("c53-eph"))
			return o, err == nil
		}})
	out = append(out, op{name: "box.OpenAnonymous", appendTo: true, lens: blens,
		input: func(n int) []byte {
			o, _ := box.SealAnonymous(nil, msgOf(n), pubB, vf.NewRand("c53-eph"))
			return o
		},
		outLen: func(n int) int { return n - box.AnonymousOverhead },
		geom: func(r0, r1, i0, i1 int) string {
			if overlaps(r0, r1, i0, i0+32) && !overlaps(r0, r1, i0+32, i1) {
				return " [output overlaps only the ephemeral-key prefix of box]"
			}
			return ""
		},
		call: func(dst, in []byte) ([]byte, bool) { return box.OpenAnonymous(dst, in, pubB, privB) }})
	// --- sign
	spub, spriv, _ := sign.GenerateKey(vf.NewRand("c53-sign"))
	out = append(out, op{name: "sign.Sign", appendTo: true, lens: blens, input: msgOf, outLen: func(n int) int { return n + sign.Overhead },
		call: func(dst, in []byte) ([]byte, bool) { return sign.Sign(dst, in, spriv), true }})
	out = append(out, op{name: "sign.Open", appendTo: true, lens: blens,
		input:  func(n int) []byte { return sign.Sign(nil, msgOf(n), spriv) },
		outLen: func(n int) int { return n - sign.Overhead },
		call:   func(dst, in []byte) ([]byte, bool) { return sign.Open(dst, in, spub) }})
	return out
}

// expectation classes
const (
	expCorrect = iota // must not panic, result == separate-buffer result
	expPanic          // must panic
	expEither         // documentation forbids or leaves open: panic or the correct result, never anything else
)

var expName = [...]string{"must-equal-separate-buffers", "must-panic", "panic-or-correct"}

func overlaps(a0, a1, b0, b1 int) bool { return a0 < a1 && b0 < b1 && a0 < b1 && b0 < a1 }

func run(c *vf.Ctx) {
	maxShift := 64
	if c.Thorough {
		maxShift = 80
	}
	c.Rule(fmt.Sprintf("for each of chacha20 (12/24-byte nonce; fresh and after consuming k in {1,10,63,64,65} key-stream bytes, lengths {1,4,16,32,50,53,54,60,63,64,65,200}), salsa20 (8/24), xts Encrypt/Decrypt, {ChaCha20,XChaCha20}-Poly1305 Seal/Open x path{asm,generic}, secretbox Seal/Open, "+
		"box Seal/Open/SealAfterPrecomputation/OpenAfterPrecomputation/SealAnonymous/OpenAnonymous, sign Sign/Open: input at a fixed offset of one backing array, output region at EVERY offset -%d..+%d "+
		"x lengths {0,1,16,63,64,65,200,129,193,321,513,1000,4097} (xts {16,64,208,512,528,4096,4112}) x dst variants {exact length/capacity, longer dst or spare capacity, capacity one short, 3-byte dst prefix}, "+
		"plus for EVERY length the far boundary of the overlap relation: offsets +-(len-1), +-len, +-(len+1) for input and output length and +-len/2; long inputs 64 KiB and 1 MiB+16 (thorough also 256 KiB+16, 4 MiB) at offsets {0,+-1,+-16,+-65,+-4096,+-len/2} and the far boundary; AEAD additional data at 9 placements around the output region; "+
		"expected: same start + documented in-place => equals separate-buffer result; other overlap => panic; disjoint => equals separate-buffer result; "+
		"where the documentation forbids/leaves open (NaCl same start, capacity-only overlap, reallocation) => panic or correct; always: no write outside the output region; "+
		"non-trivial = distinct (function,path,length,offset,variant) whose output region overlaps the input", maxShift, maxShift))
	c.Assume("differential oracle: the same real function on separate buffers is taken as the correct result (its correctness is the business of C01/C03/C09/C10/C13)")

	initial := chacha20poly1305.VerifC01UseAVX2()
	defer chacha20poly1305.VerifC01SetAVX2(initial)
	type phase struct {
		name string
		avx2 bool
	}
	var phases []phase
	if chacha20poly1305.VerifC01HasAsm && initial {
		phases = append(phases, phase{"asm", true})
	} else {
		c.Capped("assembly path of chacha20poly1305 not available on this CPU/build: only the generic path was checked")
	}
	phases = append(phases, phase{"generic", false})

	all := ops(c)
	for pi, ph := range phases {
		chacha20poly1305.VerifC01SetAVX2(ph.avx2)
		type unit struct {
			o *op
			n int
		}
		var units []unit
		for i := range all {
			o := &all[i]
			isAEAD := len(o.name) > 16 && (o.name[:16] == "chacha20poly1305" || o.name[:17] == "xchacha20poly1305")
			if pi > 0 && !isAEAD {
				continue // only chacha20poly1305 has two paths
			}
			for _, n := range o.lens {
				units = append(units, unit{o, n})
			}
		}
		c.ParallelFor(len(units), func(ui int) {
			u := units[ui]
			name := u.o.name
			isAEAD := len(name) > 16 && (name[:16] == "chacha20poly1305" || name[:17] == "xchacha20poly1305")
			if isAEAD {
				name += "/" + ph.name
			}
			runUnit(c, u.o, name, u.n, maxShift)
		})
		adPlacement(c, ph.name)
	}
}

func runUnit(c *vf.Ctx, o *op, name string, n, maxShift int) {
	in := o.input(n)
	need := o.outLen(len(in))
	// reference: separate buffers
	var ref []byte
	var refOK bool
	if o.appendTo {
		ref, refOK = o.call(nil, append([]byte(nil), in...))
	} else {
		ref, refOK = o.call(make([]byte, need), append([]byte(nil), in...))
	}
	if !refOK || len(ref) != need {
		c.Violation(name+": fails on separate buffers", map[string]any{"len": n})
		return
	}
	ref = append([]byte(nil), ref...)
	evals := 0
	shifts := shiftsFor(maxShift, len(in), need)
	maxAbs := shifts[len(shifts)-1]
	if -shifts[0] > maxAbs {
		maxAbs = -shifts[0]
	}
	off := maxAbs + 8 // offset of the input in the backing array
	span := len(in)
	if need > span {
		span = need
	}
	B := make([]byte, off+maxAbs+span+64)
	pristine := bytes.Repeat([]byte{poison}, len(B))
	copy(pristine[off:], in)
	before := make([]byte, len(B))
	type variant struct {
		name   string
		extra  int // fixed ops: dst is this much longer than needed; append ops: spare capacity (-1 = one short)
		prefix int
	}
	var variants []variant
	if o.appendTo {
		variants = []variant{{"cap=exact", 0, 0}, {"cap=spare", 40, 0}, {"cap=one-short", -1, 0}, {"prefix3+spare", 40, 3}}
	} else {
		variants = []variant{{"len=exact", 0, 0}, {"len=longer", 17, 0}}
	}
	for _, shift := range shifts {
		ds := off + shift // start of the output region
		for _, va := range variants {
			if len(in) >= longLen1 && (va.name == "prefix3+spare" || va.name == "cap=one-short" && shift != 0 && shift != 1 && shift != -1) {
				continue // long inputs: no dst prefix; the reallocating variant for same start and +-1 only
			}
			copy(B, pristine)
			I := B[off : off+len(in) : off+len(in)]
			var dst []byte
			i0, i1 := off, off+len(in)
			r0, r1 := ds, ds+need // region that receives the output if no reallocation happens
			capEnd := r1          // end of the memory the callee may legitimately consider its own
			realloc := false
			if o.appendTo {
				switch {
				case va.extra < 0:
					if need == 0 {
						continue
					}
					dst = B[ds-va.prefix : ds : ds+need-1]
					realloc = true
				default:
					dst = B[ds-va.prefix : ds : ds+need+va.extra]
					capEnd = ds + need + va.extra
				}
				// a non-empty dst prefix consists of whatever bytes are there (poison or input
				// bytes): nothing is written, so the input stays intact
			} else {
				dst = B[ds : ds+need+va.extra : ds+need+va.extra]
				capEnd = ds + need + va.extra
			}
			pre := append([]byte(nil), dst...) // dst prefix as passed (append ops)
			if !o.appendTo {
				pre = nil
			}
			copy(before, B)

			// expectation
			exp := expCorrect
			switch {
			case realloc:
				exp = expEither
				if !overlaps(ds-va.prefix, ds+need-1, i0, i1) {
					exp = expCorrect // nothing of dst touches the input
				}
			case overlaps(r0, r1, i0, i1):
				switch {
				case r0 == i0 && o.inPlace:
					exp = expCorrect
				case r0 == i0:
					exp = expEither // same start, but the documentation says "must not overlap"
				default:
					exp = expPanic
				}
			case overlaps(r1, capEnd, i0, i1):
				exp = expEither // only unused capacity / the unused tail of a longer dst overlaps the input
			}

			var got []byte
			var ok bool
			panicked, pv, _ := vf.Protect(func() { got, ok = o.call(dst, I) })
			evals++
			g := ""
			if o.geom != nil && !realloc {
				g = o.geom(r0, r1, i0, i1)
			}
			det := func() map[string]any {
				return map[string]any{"function": name, "len": n, "in_len": len(in), "out_len": need, "offset": shift, "variant": va.name, "expected": expName[exp]}
			}
			if overlaps(r0, r1, i0, i1) && !realloc {
				c.Nontrivial(fmt.Sprintf("%s/%d/%d/%s", name, n, shift, va.name))
			}
			if panicked {
				c.Outcome(classOf(name) + ": panic (" + expName[exp] + ")")
				if exp == expCorrect {
					c.Violation(fmt.Sprintf("%s: panics on %s buffers", name, map[bool]string{true: "exactly overlapping (documented in-place)", false: "non-overlapping"}[overlaps(r0, r1, i0, i1)]),
						map[string]any{"at": det(), "panic": fmt.Sprint(pv)})
				}
				continue
			}
			c.Outcome(classOf(name) + ": returned (" + expName[exp] + ")")
			if exp == expPanic {
				cls := "returns the separate-buffer result"
				switch {
				case !ok:
					cls = "reports failure for a genuine input"
				case len(got) != len(pre)+need || !bytes.Equal(got[len(pre):], ref):
					cls = "returns CORRUPTED output"
				}
				d := det()
				d["observed"] = cls
				if g != "" {
					// special-role geometry: what comes back depends on data coincidences (an
					// overwritten byte may happen to equal the byte it replaces), so the class names
					// the geometry only and the observation goes into the detail
					c.Violation(fmt.Sprintf("%s: inexactly overlapping buffers do not panic%s", family(name), g), d)
				} else {
					c.Violation(fmt.Sprintf("%s: inexactly overlapping buffers do not panic (%s)", family(name), cls), d)
				}
				continue
			}
			// returned: must be exactly the separate-buffer result, appended to the prefix
			if !ok || len(got) != len(pre)+need || !bytes.Equal(got[:len(pre)], pre) || !bytes.Equal(got[len(pre):], ref) {
				kind := map[int]string{expCorrect: "differs from the separate-buffer result", expEither: "silently corrupted output where overlap is forbidden"}[exp]
				if exp == expCorrect && overlaps(r0, r1, i0, i1) {
					kind = "exactly overlapping (in-place) result differs from the separate-buffer result"
				}
				c.Violation(fmt.Sprintf("%s: %s%s", family(name), kind, g), det())
				continue
			}
			// nothing outside the output region may change (when the output went to a fresh
			// allocation: nothing at all)
			w0, w1 := r0, r1
			if realloc || (len(got) > 0 && need > 0 && &got[len(pre)] != &B[ds]) {
				w0, w1 = 0, 0
			}
			if !bytes.Equal(B[:w0], before[:w0]) || !bytes.Equal(B[w1:], before[w1:]) {
				for i := range B {
					if (i < w0 || i >= w1) && B[i] != before[i] {
						c.Violation(fmt.Sprintf("%s: writes outside its output region", name), map[string]any{"at": det(), "index_rel_to_input": i - off})
						break
					}
				}
			}
		}
	}
	c.Eval(evals)
	if n == 65 || n == 64 {
		c.Sample(map[string]any{"function": name, "len": n, "offsets": len(shifts), "variants": len(variants), "calls": evals})
	}
}

// family merges the two nonce-size variants of the AEAD (one implementation underneath) for
// violation classes; the exact function is in the detail.
func family(name string) string {
	return strings.Replace(name, "xchacha20poly1305.", "chacha20poly1305.", 1)
}

// classOf maps a function name to its package (and path) for the outcome tally.
func classOf(name string) string {
	pkg, rest, _ := strings.Cut(name, ".")
	if _, path, ok := strings.Cut(rest, "/"); ok && strings.HasSuffix(pkg, "chacha20poly1305") {
		return pkg + "/" + path
	}
	return pkg
}

// adPlacement: ChaCha20-Poly1305 additional data relative to the output region. dst and
// additionalData may not overlap at all (crypto/cipher.AEAD); plaintext elsewhere.
func adPlacement(c *vf.Ctx, path string) {
	key := seq(0x11, 32)
	a12, _ := chacha20poly1305.New(key)
	a24, _ := chacha20poly1305.NewX(key)
	const adLen = 13
	for _, v := range []struct {
		name  string
		seal  func(dst, nonce, pt, ad []byte) []byte
		open  func(dst, nonce, ct, ad []byte) ([]byte, error)
		nonce []byte
	}{{"chacha20poly1305", a12.Seal, a12.Open, seq(0x71, 12)}, {"xchacha20poly1305", a24.Seal, a24.Open, seq(0x71, 24)}} {
		for _, n := range []int{1, 16, 65, 200} {
			pt := c.Bytes("c53-msg", n, n)
			ad := seq(0x51, adLen)
			sealed := v.seal(nil, v.nonce, pt, ad)
			for _, isOpen := range []bool{false, true} {
				need := n + 16
				if isOpen {
					need = n
				}
				fn := fmt.Sprintf("%s.%s/%s", v.name, map[bool]string{false: "Seal", true: "Open"}[isOpen], path)
				// output region at [300, 300+need); input far away at 20; AD start relative to the region
				const r0 = 300
				r1 := r0 + need
				for _, a0 := range []int{r0 - adLen - 1, r0 - adLen, r0 - adLen + 1, r0 - 1, r0, r0 + 1, r1 - 1, r1, r1 + 1} {
					B := make([]byte, bufLen)
					for i := range B {
						B[i] = poison
					}
					in := B[20 : 20+len(pt) : 20+len(pt)]
					copy(in, pt)
					if isOpen {
						in = append([]byte(nil), sealed...)
					}
					A := B[a0 : a0+adLen : a0+adLen]
					copy(A, ad)
					dst := B[r0:r0:r1]
					ov := overlaps(r0, r1, a0, a0+adLen)
					var got []byte
					var err error
					panicked, pv, _ := vf.Protect(func() {
						if isOpen {
							got, err = v.open(dst, v.nonce, in, A)
						} else {
							got = v.seal(dst, v.nonce, in, A)
						}
					})
					c.Eval(1)
					det := map[string]any{"function": fn, "len": n, "ad_start_rel_to_output": a0 - r0, "ad_len": adLen, "overlap": ov}
					if ov {
						c.Nontrivial(fmt.Sprintf("%s/ad/%d/%d", fn, n, a0-r0))
					}
					want := sealed
					if isOpen {
						want = pt
					}
					switch {
					case panicked && !ov:
						c.Violation(fn+": panics although additional data does not overlap the output", map[string]any{"at": det, "panic": fmt.Sprint(pv)})
					case panicked:
						c.Outcome(fn + ": AD overlap panic")
					case ov && a0 != r0:
						cls := "returns the separate-buffer result"
						if err != nil || !bytes.Equal(got, want) {
							cls = "returns CORRUPTED output"
						}
						c.Violation(fmt.Sprintf("%s: additional data inexactly overlapping the output does not panic (%s)", fn, cls), det)
					default:
						// disjoint, or same start (forbidden by the documentation: panic or correct)
						if err != nil || !bytes.Equal(got, want) {
							c.Violation(fn+": wrong result with additional data placed next to the output", det)
						} else {
							c.Outcome(fn + ": AD placement returned correct result")
						}
					}
				}
			}
		}
	}
}
