// C07: hash state marshaling is transparent and rejects corrupt states
// (blake2b, blake2s, sha3 legacy Keccak-256/512).
//
//	T  transparency: every history over {Write(1,B-1,B,B+1,600), Sum, Reset, M} to a depth
//	   (Keccak also Read(1), Read(rate), Read(rate+1): the squeezing direction), where M =
//	   MarshalBinary, UnmarshalBinary into a fresh hash of the same kind, continue on the
//	   restored hash while the original is kept; every Sum/Read of every object is compared
//	   with the independent reference model (RFC 7693 / Keccak sponge) of the bytes written;
//	   at the end every object takes one more Write+Sum.
//	H  transparency for crafted well-formed BLAKE2 states with large offset counters
//	   (high counter word in use), which no feasible history reaches.
//	F  corrupt states: for valid marshaled states of several histories, every value of the
//	   size / offset (BLAKE2) and rate / n / direction (Keccak) bytes, boundary values of the
//	   counter words, every other value of each magic byte, four faults at every byte
//	   position, every truncation and some extensions, all size x offset corner pairs; all
//	   byte strings of length <= 2; seeded random strings with and without a valid magic.
//	   UnmarshalBinary must not panic, and must either return an error or leave a hash on
//	   which Write, Sum and Reset (five operation orders) do not panic. The documented
//	   "Write/Sum after Read" panics of a Keccak state whose direction byte says squeezing
//	   are the same behaviour as the original's and are not counted.
package main

import (
	"bytes"
	"encoding"
	"encoding/binary"
	"fmt"
	"hash"
	"io"
	"strings"

	"golang.org/x/crypto/blake2b"
	"golang.org/x/crypto/blake2s"
	"golang.org/x/crypto/sha3"
	"verif/ref/blake2ref"
	"verif/ref/keccakref"
	"verif/vf"
)

func main() { vf.Main("C07", vf.ModelChecking, run) }

type kind struct {
	name   string // violation-class prefix
	label  string // distinguishes digest sizes of the same package
	B      int    // block size / rate
	size   int    // digest size
	fresh  func() hash.Hash
	digest func(msg []byte) []byte
	// Keccak only: squeeze stream of the message (digest is its prefix)
	stream func(msg []byte, n int) []byte
	keccak bool
	// marshal layout (documented in the package sources)
	mlen                  int
	magicLen              int
	sizeIdx, offIdx       int // blake2: size byte, buffer offset byte
	ctrIdx, ctrWord       int // blake2: first counter byte, bytes per counter word
	rateIdx, nIdx, dirIdx int // keccak
	maxSize               int
	finish                func(st []byte, data []byte) []byte // blake2: reference continuation of a well-formed state
}

func kinds() []*kind {
	var ks []*kind
	for _, sz := range []int{64, 32, 1} {
		sz := sz
		ks = append(ks, &kind{name: "blake2b", label: fmt.Sprintf("blake2b-%d", 8*sz), B: 128, size: sz, maxSize: 64,
			fresh:  func() hash.Hash { h, _ := blake2b.New(sz, nil); return h },
			digest: func(m []byte) []byte { return blake2ref.SumB(sz, nil, m) },
			mlen:   3 + 64 + 16 + 1 + 128 + 1, magicLen: 3, sizeIdx: 3 + 64 + 16, offIdx: 3 + 64 + 16 + 1 + 128, ctrIdx: 3 + 64, ctrWord: 8,
			finish: func(st, data []byte) []byte {
				var h [8]uint64
				for i := range h {
					h[i] = binary.BigEndian.Uint64(st[3+8*i:])
				}
				t := [2]uint64{binary.BigEndian.Uint64(st[67:]), binary.BigEndian.Uint64(st[75:])}
				off := int(st[3+64+16+1+128])
				in := append(append([]byte{}, st[84:84+off]...), data...)
				o := blake2ref.FinishB(h, t, in)
				return o[:st[83]]
			},
		})
	}
	ks = append(ks, &kind{name: "blake2s", label: "blake2s-256", B: 64, size: 32, maxSize: 32,
		fresh:  func() hash.Hash { h, _ := blake2s.New256(nil); return h },
		digest: func(m []byte) []byte { return blake2ref.SumS(32, nil, m) },
		mlen:   3 + 32 + 8 + 1 + 64 + 1, magicLen: 3, sizeIdx: 3 + 32 + 8, offIdx: 3 + 32 + 8 + 1 + 64, ctrIdx: 3 + 32, ctrWord: 4,
		finish: func(st, data []byte) []byte {
			var h [8]uint32
			for i := range h {
				h[i] = binary.BigEndian.Uint32(st[3+4*i:])
			}
			t := [2]uint32{binary.BigEndian.Uint32(st[35:]), binary.BigEndian.Uint32(st[39:])}
			off := int(st[3+32+8+1+64])
			in := append(append([]byte{}, st[44:44+off]...), data...)
			o := blake2ref.FinishS(h, t, in)
			return o[:st[43]]
		},
	})
	for _, bits := range []int{256, 512} {
		bits := bits
		rate := 200 - 2*bits/8
		f := sha3.NewLegacyKeccak256
		if bits == 512 {
			f = sha3.NewLegacyKeccak512
		}
		ks = append(ks, &kind{name: "sha3 legacy Keccak", label: fmt.Sprintf("keccak-%d", bits), B: rate, size: bits / 8, keccak: true,
			fresh:  f,
			digest: func(m []byte) []byte { return keccakref.LegacyKeccak(bits, m) },
			stream: func(m []byte, n int) []byte { return keccakref.Sponge(rate, keccakref.DsKeccak, m, n) },
			mlen:   4 + 1 + 200 + 1 + 1, magicLen: 4, rateIdx: 4, nIdx: 4 + 1 + 200, dirIdx: 4 + 1 + 200 + 1,
		})
	}
	return ks
}

func run(c *vf.Ctx) {
	c.Rule("kinds {blake2b-512,-256,-8, blake2s-256, legacy Keccak-256, -512}. " +
		"(T) every history over {Write 1,B-1,B,B+1,600; Sum; Reset; M=marshal->unmarshal into fresh->continue on the restored hash} (+Read 1,rate,rate+1 for Keccak) to depth D, no state merging, every object finally extended by one Write+Sum; " +
		"(H) crafted well-formed BLAKE2 states with high counter words x buffer fill {0,1,B-1,B} x continuation {0,1,B,B+1,3B+1}; " +
		"(F) single faults of valid marshaled states (all 256 values of each structural byte, counter boundary values, all other values of each magic byte, 4 faults at every byte position, every truncation, extensions, size x offset corner pairs), all strings of length <= 2, seeded random strings, each accepted state driven through 5 operation orders. " +
		"non-trivial = distinct fault (kind, base, fault) that UnmarshalBinary accepted and that differs from the valid state, or a distinct history of depth >= 2 containing M. oracle = RFC 7693 / Keccak reference models; error-or-no-panic")
	c.Assume("reference models verif/ref/blake2ref and verif/ref/keccakref (KAT-validated)")
	c.Assume("marshal layouts as written in the package sources: blake2 magic|h|c|size|block|offset; Keccak magic|rate|a|n|direction")
	c.Assume("a Keccak state whose direction byte is 'squeezing' legitimately panics on Write/Sum until Reset (documented behaviour, identical to the original that was marshaled after Read)")

	for _, k := range kinds() {
		transparency(c, k)
		if !k.keccak {
			highCounters(c, k)
		}
		faults(c, k)
	}
	keyedMarshal(c)
}

// ------------------------------------------------------------------ T

type op struct {
	kind byte // W write, S sum, Z reset, M marshal round trip, R read (keccak)
	n    int
}

func opName(o op) string {
	switch o.kind {
	case 'W':
		return fmt.Sprintf("Write(%d)", o.n)
	case 'S':
		return "Sum"
	case 'Z':
		return "Reset"
	case 'M':
		return "MarshalUnmarshal"
	}
	return fmt.Sprintf("Read(%d)", o.n)
}

// obj is one live hash with the model of what it must contain.
type obj struct {
	h         hash.Hash
	msg       []byte // bytes written since the last Reset
	squeezing bool
	outpos    int
}

func roundTrip(k *kind, h hash.Hash) (hash.Hash, []byte, string) {
	m, ok := h.(encoding.BinaryMarshaler)
	if !ok {
		return nil, nil, "hash does not implement encoding.BinaryMarshaler"
	}
	var b []byte
	var err error
	if p, v, _ := vf.Protect(func() { b, err = m.MarshalBinary() }); p {
		return nil, nil, fmt.Sprintf("MarshalBinary panics | %v", v)
	}
	if err != nil {
		return nil, nil, "MarshalBinary of an unkeyed hash fails | " + err.Error()
	}
	f := k.fresh()
	u, ok := f.(encoding.BinaryUnmarshaler)
	if !ok {
		return nil, nil, "hash does not implement encoding.BinaryUnmarshaler"
	}
	if p, v, _ := vf.Protect(func() { err = u.UnmarshalBinary(b) }); p {
		return nil, nil, fmt.Sprintf("UnmarshalBinary panics on MarshalBinary output | %v", v)
	}
	if err != nil {
		return nil, nil, "UnmarshalBinary rejects MarshalBinary output | " + err.Error()
	}
	return f, b, ""
}

func (k *kind) check(o *obj, data []byte) string {
	// observe the object without the model assuming anything about internals
	if o.squeezing {
		// Write and Sum must panic as documented, Read continues the stream
		if !vf.Panics(func() { o.h.Write([]byte{1}) }) {
			return "restored/original squeezing Keccak state: Write after Read does not panic"
		}
		if !vf.Panics(func() { o.h.Sum(nil) }) {
			return "restored/original squeezing Keccak state: Sum after Read does not panic"
		}
		buf := make([]byte, k.B+3)
		var n int
		var err error
		if p, v, _ := vf.Protect(func() { n, err = o.h.(io.Reader).Read(buf) }); p {
			return fmt.Sprintf("Read panics | %v", v)
		}
		if n != len(buf) || err != nil || !bytes.Equal(buf, k.stream(o.msg, o.outpos+len(buf))[o.outpos:]) {
			return "Read output differs from the Keccak sponge stream of the bytes written"
		}
		o.outpos += len(buf)
		return ""
	}
	var got []byte
	if p, v, _ := vf.Protect(func() { got = o.h.Sum(nil) }); p {
		return fmt.Sprintf("Sum panics | %v", v)
	}
	if !bytes.Equal(got, k.digest(o.msg)) {
		return "Sum differs from the reference digest of the bytes written"
	}
	if o.h.Size() != k.size || o.h.BlockSize() != k.B {
		return "Size/BlockSize changed by the round trip"
	}
	return ""
}

func transparency(c *vf.Ctx, k *kind) {
	B := k.B
	ops := []op{{'W', 1}, {'M', 0}, {'S', 0}, {'W', B}, {'Z', 0}, {'W', B - 1}, {'W', B + 1}, {'W', 600}}
	if k.keccak {
		ops = append(ops, op{'R', 1}, op{'R', B}, op{'R', B + 1})
	}
	depth := 4
	if c.Thorough {
		depth = 5
	}
	if k.label == "blake2b-512" || k.label == "blake2s-256" {
		depth++
	}
	stream := c.Bytes("T-"+k.label, 0, depth*600+8)
	vf.ExploreSeq(c, "T/"+k.label, vf.SeqSpec[op]{
		Ops: ops, Depth: depth, Parallel: true, Name: opName,
		Class: func(h []op, mis string) string {
			cat, _, _ := strings.Cut(mis, " | ")
			return k.name + ": transparency: " + cat
		},
		Run: func(hist []op) (key string, stop bool, mis string) {
			defer recoverRun(&stop, &mis)
			cur := &obj{h: k.fresh()}
			var parked []*obj
			pos := 0 // stream position: every written byte is fresh data
			trips := 0
			for _, o := range hist {
				switch o.kind {
				case 'W':
					var n int
					var err error
					p, v, _ := vf.Protect(func() { n, err = cur.h.Write(stream[pos : pos+o.n]) })
					if cur.squeezing {
						if !p {
							return "", true, "Write after Read does not panic"
						}
						break
					}
					if p {
						return "", true, fmt.Sprintf("Write panics | %v", v)
					}
					if n != o.n || err != nil {
						return "", true, "Write return value wrong"
					}
					cur.msg = append(cur.msg, stream[pos:pos+o.n]...)
					pos += o.n
				case 'S':
					if cur.squeezing {
						if !vf.Panics(func() { cur.h.Sum(nil) }) {
							return "", true, "Sum after Read does not panic"
						}
						break
					}
					if m := k.check(cur, nil); m != "" {
						return "", true, m
					}
				case 'Z':
					if p, v, _ := vf.Protect(func() { cur.h.Reset() }); p {
						return "", true, fmt.Sprintf("Reset panics | %v", v)
					}
					cur.msg, cur.squeezing, cur.outpos = nil, false, 0
				case 'R':
					buf := make([]byte, o.n)
					var n int
					var err error
					if p, v, _ := vf.Protect(func() { n, err = cur.h.(io.Reader).Read(buf) }); p {
						return "", true, fmt.Sprintf("Read panics | %v", v)
					}
					cur.squeezing = true
					if n != o.n || err != nil || !bytes.Equal(buf, k.stream(cur.msg, cur.outpos+o.n)[cur.outpos:]) {
						return "", true, "Read output differs from the Keccak sponge stream of the bytes written"
					}
					cur.outpos += o.n
				case 'M':
					f, _, m := roundTrip(k, cur.h)
					if m != "" {
						return "", true, m
					}
					trips++
					parked = append(parked, cur)
					cur = &obj{h: f, msg: append([]byte{}, cur.msg...), squeezing: cur.squeezing, outpos: cur.outpos}
				}
			}
			// final: every object (restored and originals) is observed, extended, observed again
			for i, o := range append([]*obj{cur}, parked...) {
				who := "restored/current hash"
				if i > 0 {
					who = "original kept after MarshalBinary"
				}
				if m := k.check(o, nil); m != "" {
					return "", true, who + ": " + m
				}
				if !o.squeezing {
					extra := stream[len(stream)-7:]
					if p, v, _ := vf.Protect(func() { o.h.Write(extra) }); p {
						return "", true, who + fmt.Sprintf(": Write panics | %v", v)
					}
					o.msg = append(o.msg, extra...)
					if m := k.check(o, nil); m != "" {
						return "", true, who + " after one more Write: " + m
					}
				}
			}
			if len(hist) == depth {
				c.Outcome(fmt.Sprintf("T history end: round-trips=%d squeezing=%v", trips, cur.squeezing))
			}
			return "", false, ""
		},
	})
}

// ------------------------------------------------------------------ H

func highCounters(c *vf.Ctx, k *kind) {
	B := k.B
	type hc struct {
		lo, hi uint64
		off    int
	}
	var cs []hc
	los := []uint64{uint64(B), 1 << 20, 1<<31 - uint64(B), 1 << 31, 1<<32 - uint64(B)}
	if k.ctrWord == 8 {
		los = append(los, 1<<32, 1<<62+uint64(5*B)) // stay below 2^63: see the C05 known finding
	}
	for _, lo := range los {
		for _, hi := range []uint64{0, 1, 7, 1<<31 + 3} {
			for _, off := range []int{0, 1, B - 1, B} {
				cs = append(cs, hc{lo, hi, off})
			}
		}
	}
	pfor(c, k.name+" section H", len(cs), func(i int) {
		x := cs[i]
		st := make([]byte, 0, k.mlen)
		if k.name == "blake2b" {
			st = append(st, "b2b"...)
		} else {
			st = append(st, "b2s"...)
		}
		st = append(st, c.Bytes("H-h-"+k.label, i, 8*k.ctrWord)...)
		if k.ctrWord == 8 {
			st = binary.BigEndian.AppendUint64(st, x.lo)
			st = binary.BigEndian.AppendUint64(st, x.hi)
		} else {
			st = binary.BigEndian.AppendUint32(st, uint32(x.lo))
			st = binary.BigEndian.AppendUint32(st, uint32(x.hi))
		}
		st = append(st, byte(k.size))
		blk := c.Bytes("H-blk-"+k.label, i, B)
		for j := x.off; j < B; j++ {
			blk[j] = 0
		}
		st = append(st, blk...)
		st = append(st, byte(x.off))
		data := c.Bytes("H-data-"+k.label, i, 3*B+1)
		for _, wl := range []int{0, 1, B, B + 1, 3*B + 1} {
			a := k.fresh()
			if err := a.(encoding.BinaryUnmarshaler).UnmarshalBinary(st); err != nil {
				c.Violation(k.name+": UnmarshalBinary rejects a well-formed state", map[string]any{"kind": k.label, "state": fmt.Sprintf("%x", st), "err": err.Error()})
				return
			}
			b, _, m := roundTrip(k, a)
			c.Eval(1)
			if m != "" {
				c.Violation(k.name+": transparency (high counters): "+cutBar(m), map[string]any{"kind": k.label, "state": fmt.Sprintf("%x", st), "mismatch": m})
				return
			}
			want := k.finish(st, data[:wl])
			for who, h := range map[string]hash.Hash{"original": a, "restored": b} {
				h.Write(data[:wl])
				if got := h.Sum(nil); !bytes.Equal(got, want) {
					c.Violation(k.name+": transparency (high counters): "+who+" hash continues differently from the reference continuation of the state",
						map[string]any{"kind": k.label, "counter_lo": x.lo, "counter_hi": x.hi, "buffered": x.off, "write": wl, "got": fmt.Sprintf("%x", got), "want": fmt.Sprintf("%x", want)})
					return
				}
			}
			c.Nontrivial(fmt.Sprintf("H/%s/%d/%d/%d/%d", k.label, x.lo, x.hi, x.off, wl))
		}
	})
}

func cutBar(m string) string { a, _, _ := strings.Cut(m, " | "); return a }

// ------------------------------------------------------------------ F

type fault struct {
	base string
	desc string
	b    []byte
}

func (k *kind) baseStates(c *vf.Ctx) map[string][]byte {
	B := k.B
	out := map[string][]byte{}
	data := c.Bytes("F-base-"+k.label, 0, 2*B+600)
	for _, n := range []int{0, 1, B - 1, B, B + 1, 2 * B, 600} {
		h := k.fresh()
		h.Write(data[:n])
		b, err := h.(encoding.BinaryMarshaler).MarshalBinary()
		if err != nil || len(b) != k.mlen {
			c.Violation(k.name+": MarshalBinary fails or has unexpected length", map[string]any{"kind": k.label, "len": len(b), "err": fmt.Sprint(err)})
			continue
		}
		out[fmt.Sprintf("after Write(%d)", n)] = b
	}
	if k.keccak {
		for _, r := range []int{1, B} {
			h := k.fresh()
			h.Write(data[:5])
			h.(io.Reader).Read(make([]byte, r))
			b, _ := h.(encoding.BinaryMarshaler).MarshalBinary()
			out[fmt.Sprintf("after Write(5),Read(%d)", r)] = b
		}
	}
	return out
}

func (k *kind) faultsOf(c *vf.Ctx, baseName string, s []byte) []fault {
	var fs []fault
	add := func(desc string, b []byte) { fs = append(fs, fault{baseName, desc, b}) }
	set := func(i int, v byte) []byte { b := append([]byte{}, s...); b[i] = v; return b }
	var structural []int
	if k.keccak {
		structural = []int{k.rateIdx, k.nIdx, k.dirIdx}
	} else {
		structural = []int{k.sizeIdx, k.offIdx}
	}
	for _, i := range structural {
		for v := 0; v < 256; v++ {
			add(fmt.Sprintf("byte[%d]=%d", i, v), set(i, byte(v)))
		}
	}
	if !k.keccak {
		for w := 0; w < 2; w++ {
			for _, v := range []uint64{0, 1, 1<<(8*uint(k.ctrWord)-1) - 1, 1 << (8*uint(k.ctrWord) - 1), ^uint64(0)} {
				b := append([]byte{}, s...)
				if k.ctrWord == 8 {
					binary.BigEndian.PutUint64(b[k.ctrIdx+8*w:], v)
				} else {
					binary.BigEndian.PutUint32(b[k.ctrIdx+4*w:], uint32(v))
				}
				add(fmt.Sprintf("counter[%d]=%#x", w, v), b)
			}
		}
		for _, sz := range []int{0, 1, k.maxSize, k.maxSize + 1, 255} {
			for _, off := range []int{0, 1, k.B, k.B + 1, 255} {
				b := set(k.sizeIdx, byte(sz))
				b[k.offIdx] = byte(off)
				add(fmt.Sprintf("size=%d,offset=%d", sz, off), b)
			}
		}
	} else {
		for _, n := range []int{0, k.B - 1, k.B, k.B + 1, 255} {
			for _, d := range []int{0, 1, 2, 255} {
				b := set(k.nIdx, byte(n))
				b[k.dirIdx] = byte(d)
				add(fmt.Sprintf("n=%d,direction=%d", n, d), b)
			}
		}
	}
	for i := 0; i < k.magicLen; i++ {
		for v := 0; v < 256; v++ {
			if byte(v) != s[i] {
				add(fmt.Sprintf("magic[%d]=%d", i, v), set(i, byte(v)))
			}
		}
	}
	for i := range s {
		for _, v := range []byte{0x00, 0xff, s[i] ^ 0x01, s[i] ^ 0x80} {
			if v != s[i] {
				add(fmt.Sprintf("byte[%d]=%#x", i, v), set(i, v))
			}
		}
	}
	for n := 0; n < len(s); n++ {
		add(fmt.Sprintf("truncated to %d", n), append([]byte{}, s[:n]...))
	}
	for _, e := range []int{1, 2, 8, len(s)} {
		add(fmt.Sprintf("extended by %d", e), append(append([]byte{}, s...), c.Bytes("F-ext", e, e)...))
	}
	return fs
}

// drive runs the operation orders on states restored from b; it returns the first
// undocumented panic as (op, value).
func (k *kind) drive(b []byte) (accepted bool, op string, val any) {
	B := k.B
	one := []byte{0x5a}
	big := bytes.Repeat([]byte{0xa5}, B+1)
	squeezing := k.keccak && len(b) == k.mlen && b[k.dirIdx] == 1
	type step struct {
		name string
		f    func(h hash.Hash)
		ws   bool // Write or Sum: documented panic while squeezing
		rst  bool
	}
	W1 := step{"Write(1)", func(h hash.Hash) { h.Write(one) }, true, false}
	WB := step{fmt.Sprintf("Write(%d)", B+1), func(h hash.Hash) { h.Write(big) }, true, false}
	W0 := step{"Write(0)", func(h hash.Hash) { h.Write(nil) }, true, false}
	S := step{"Sum", func(h hash.Hash) { h.Sum(nil) }, true, false}
	Z := step{"Reset", func(h hash.Hash) { h.Reset() }, false, true}
	orders := [][]step{
		{S, W1, S, WB, S, Z, S, W1, S},
		{W1, S},
		{WB, S, W1, S},
		{Z, WB, S, W1, S},
		{W0, S, Z, S},
	}
	for oi, ord := range orders {
		h := k.fresh()
		var err error
		if p, v, _ := vf.Protect(func() { err = h.(encoding.BinaryUnmarshaler).UnmarshalBinary(b) }); p {
			return false, "UnmarshalBinary", v
		}
		if err != nil {
			return false, "", nil
		}
		sq := squeezing
		for _, st := range ord {
			p, v, _ := vf.Protect(func() { st.f(h) })
			if st.rst {
				sq = false
			}
			if p {
				if sq && st.ws {
					if s, ok := v.(string); ok && strings.HasPrefix(s, "sha3: ") && strings.HasSuffix(s, " after Read") {
						continue // documented
					}
				}
				return true, fmt.Sprintf("%s (order %d)", st.name, oi), v
			}
		}
		if k.keccak && oi == 0 {
			// a restored Keccak state must also be readable
			if p, v, _ := vf.Protect(func() { h.(io.Reader).Read(make([]byte, B+1)) }); p {
				return true, "Read", v
			}
		}
	}
	return true, "", nil
}

func faults(c *vf.Ctx, k *kind) {
	var fs []fault
	bases := k.baseStates(c)
	for name, s := range bases {
		fs = append(fs, k.faultsOf(c, name, s)...)
	}
	// all byte strings of length <= 2 (once per package, not per digest size)
	if k.size == 64 || k.label == "blake2s-256" || k.label == "keccak-256" {
		fs = append(fs, fault{"-", "empty string", []byte{}})
		for a := 0; a < 256; a++ {
			fs = append(fs, fault{"-", "1-byte string", []byte{byte(a)}})
			for b := 0; b < 256; b++ {
				fs = append(fs, fault{"-", "2-byte string", []byte{byte(a), byte(b)}})
			}
		}
	}
	// seeded random strings of the right length, with and without a valid magic
	nr := 200 * c.V()
	valid := bases["after Write(0)"]
	for i := 0; i < nr; i++ {
		r := c.Bytes("F-rand-"+k.label, i, k.mlen)
		fs = append(fs, fault{"-", "random string", r})
		if valid != nil {
			r2 := append([]byte{}, r...)
			copy(r2, valid[:k.magicLen])
			fs = append(fs, fault{"-", "random string with valid magic", r2})
			if k.keccak {
				r3 := append([]byte{}, r2...)
				r3[k.rateIdx] = valid[k.rateIdx]
				fs = append(fs, fault{"-", "random string with valid magic and rate", r3})
			}
		}
	}
	pfor(c, k.name+" section F", len(fs), func(i int) {
		f := fs[i]
		c.Eval(1)
		accepted, op, val := k.drive(f.b)
		detail := map[string]any{"kind": k.label, "base_state": f.base, "fault": f.desc, "input": fmt.Sprintf("%x", f.b), "panicking_op": op, "panic": fmt.Sprint(val)}
		switch {
		case op == "UnmarshalBinary":
			c.Violation(k.name+".UnmarshalBinary panics", detail)
			c.Outcome(k.label + ": Unmarshal panics")
		case !accepted:
			c.Outcome(k.label + ": rejected")
		case op == "":
			c.Outcome(k.label + ": accepted, safe")
			if b, ok := bases[f.base]; !ok || !bytes.Equal(b, f.b) {
				c.Nontrivial(k.label + "/" + f.base + "/" + f.desc + fmt.Sprintf("/%d", i))
			}
		default:
			c.Outcome(k.label + ": accepted, later panic")
			c.Violation(k.classify(f.b, op), detail)
		}
		if f.desc == fmt.Sprintf("byte[%d]=200", k.offIdx) || f.desc == fmt.Sprintf("byte[%d]=1", k.dirIdx) {
			c.Sample(map[string]any{"section": "F", "kind": k.label, "base_state": f.base, "fault": f.desc, "accepted": accepted, "panicking_op": op})
		}
	})
}

// classify names the violation for an accepted state that later panics. The two
// already-known BLAKE2 defects (no range check on the size and offset bytes) get
// their own precise classes; anything else is reported under a different class.
func (k *kind) classify(b []byte, op string) string {
	opk := op
	if i := strings.IndexByte(opk, '('); i >= 0 {
		opk = strings.TrimSpace(opk[:i])
	}
	if !k.keccak && len(b) == k.mlen {
		sizeBad := int(b[k.sizeIdx]) > k.maxSize
		offBad := int(b[k.offIdx]) > k.B
		switch {
		case offBad && (!sizeBad || opk == "Write"):
			return fmt.Sprintf("%s.UnmarshalBinary accepts offset byte > %d; later Write or Sum panics", k.name, k.B)
		case sizeBad && opk == "Sum":
			return fmt.Sprintf("%s.UnmarshalBinary accepts size byte > %d; later Sum panics", k.name, k.maxSize)
		}
	}
	return fmt.Sprintf("%s.UnmarshalBinary accepts a state on which %s panics (size/offset/n/direction bytes in range or not the cause)", k.name, opk)
}

// ------------------------------------------------------------------ keyed hashes

// MarshalBinary of a keyed BLAKE2 hash is documented to be unsupported; it must fail
// cleanly (no panic).
func keyedMarshal(c *vf.Ctx) {
	key := c.Bytes("keyed", 0, 16)
	hb, _ := blake2b.New512(key)
	hs, _ := blake2s.New256(key)
	hs128, _ := blake2s.New128(key)
	for name, h := range map[string]hash.Hash{"blake2b": hb, "blake2s": hs, "blake2s-128": hs128} {
		c.Eval(1)
		m, ok := h.(encoding.BinaryMarshaler)
		if !ok {
			continue
		}
		if p, v, _ := vf.Protect(func() { m.MarshalBinary() }); p {
			c.Violation(name+": MarshalBinary of a keyed hash panics", fmt.Sprint(v))
		}
	}
}

// pfor is c.ParallelFor with every case guarded: a panic escaping the code under test
// is recorded as a violation instead of crashing the run.
func pfor(c *vf.Ctx, section string, n int, f func(i int)) {
	c.ParallelFor(n, func(i int) {
		if p, v, st := vf.Protect(func() { f(i) }); p {
			if len(st) > 1500 {
				st = st[:1500]
			}
			c.Violation(section+": unexpected panic in the code under test", map[string]any{"case_index": i, "panic": fmt.Sprint(v), "stack": st})
		}
	})
}

// recoverRun turns a panic inside a history into a mismatch of that history.
func recoverRun(stop *bool, mis *string) {
	if r := recover(); r != nil {
		*stop, *mis = true, fmt.Sprintf("unexpected panic | %v", r)
	}
}
