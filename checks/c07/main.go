// C07: hash state marshaling is transparent and rejects corrupt states
// (blake2b, blake2s, sha3 legacy Keccak-256/512).
//
//	T  transparency: every history over {Write(1,B-1,B,B+1,600), Sum, Reset, M} to a depth
//	   (Keccak also Read(1), Read(rate), Read(rate+1): the squeezing direction), where M =
//	   MarshalBinary, UnmarshalBinary into a fresh hash of the same kind, continue on the
//	   restored hash while the original is kept; every Sum/Read of every object is compared
//	   with the independent reference model (RFC 7693 / Keccak sponge) of the bytes written;
//	   at the end every object takes one more Write+Sum.
//	H  transparency for crafted well-formed BLAKE2 states with large offset counters
//	   (high counter word in use), which no feasible history reaches.
//	F  corrupt states: for valid marshaled states of several histories, every value of the
//	   size / offset (BLAKE2) and rate / n / direction (Keccak) bytes, boundary values of the
//	   counter words, every other value of each magic byte, four faults at every byte
//	   position, every truncation and some extensions, all size x offset corner pairs; all
//	   byte strings of length <= 2; seeded random strings with and without a valid magic.
//	   UnmarshalBinary must not panic, and must either return an error or leave a hash on
//	   which Write, Sum and Reset (five operation orders) do not panic. The documented
//	   "Write/Sum after Read" panics of a Keccak state whose direction byte says squeezing
//	   are the same behaviour as the original's and are not counted.
//	L  long histories: marshal after one Write (Keccak: also after one Read) of
//	   2^k+{-1,0,1,B-1,B,B+1} bytes, k = 8..22; original and restored hashes must continue alike.
//
// Hardening pass: every restore is also done into receivers that already hold another
// state (used, and just after a failing UnmarshalBinary), the blobs are caller-owned
// (private copies, overwritten after each call).
package main

import (
	"bytes"
	"encoding"
	"encoding/binary"
	"fmt"
	"hash"
	"io"
	"strings"

	"golang.org/x/crypto/blake2b"
	"golang.org/x/crypto/blake2s"
	"golang.org/x/crypto/sha3"
	"verif/ref/blake2ref"
	"verif/ref/keccakref"
	"verif/vf"
)

func main() { vf.Main("C07", vf.ModelChecking, run) }

type kind struct {
	name   string // violation-class prefix
	label  string // distinguishes digest sizes of the same package
	B      int    // block size / rate
	size   int    // digest size
	fresh  func() hash.Hash
	digest func(msg []byte) []byte
	// Keccak only: squeeze stream of the message (digest is its prefix)
	stream func(msg []byte, n int) []byte
	keccak bool
	// marshal layout (documented in the package sources)
	mlen                  int
	magicLen              int
	sizeIdx, offIdx       int // blake2: size byte, buffer offset byte
	ctrIdx, ctrWord       int // blake2: first counter byte, bytes per counter word
	rateIdx, nIdx, dirIdx int // keccak
	maxSize               int
	finish                func(st []byte, data []byte) []byte // blake2: reference continuation of a well-formed state
}

func kinds() []*kind {
	var ks []*kind
	for _, sz := range []int{64, 32, 1} {
		sz := sz
		ks = append(ks, &kind{name: "blake2b", label: fmt.Sprintf("blake2b-%d", 8*sz), B: 128, size: sz, maxSize: 64,
			fresh:  func() hash.Hash { h, _ := blake2b.New(sz, nil); return h },
			digest: func(m []byte) []byte { return blake2ref.SumB(sz, nil, m) },
			mlen:   3 + 64 + 16 + 1 + 128 + 1, magicLen: 3, sizeIdx: 3 + 64 + 16, offIdx: 3 + 64 + 16 + 1 + 128, ctrIdx: 3 + 64, ctrWord: 8,
			finish: func(st, data []byte) []byte {
				var h [8]uint64
				for i := range h {
					h[i] = binary.BigEndian.Uint64(st[3+8*i:])
				}
				t := [2]uint64{binary.BigEndian.Uint64(st[67:]), binary.BigEndian.Uint64(st[75:])}
				off := int(st[3+64+16+1+128])
				in := append(append([]byte{}, st[84:84+off]...), data...)
				o := blake2ref.FinishB(h, t, in)
				return o[:st[83]]
			},
		})
	}
	ks = append(ks, &kind{name: "blake2s", label: "blake2s-256", B: 64, size: 32, maxSize: 32,
		fresh:  func() hash.Hash { h, _ := blake2s.New256(nil); return h },
		digest: func(m []byte) []byte { return blake2ref.SumS(32, nil, m) },
		mlen:   3 + 32 + 8 + 1 + 64 + 1, magicLen: 3, sizeIdx: 3 + 32 + 8, offIdx: 3 + 32 + 8 + 1 + 64, ctrIdx: 3 + 32, ctrWord: 4,
		finish: func(st, data []byte) []byte {
			var h [8]uint32
			for i := range h {
				h[i] = binary.BigEndian.Uint32(st[3+4*i:])
			}
			t := [2]uint32{binary.BigEndian.Uint32(st[35:]), binary.BigEndian.Uint32(st[39:])}
			off := int(st[3+32+8+1+64])
			in := append(append([]byte{}, st[44:44+off]...), data...)
			o := blake2ref.FinishS(h, t, in)
			return o[:st[43]]
		},
	})
	for _, bits := range []int{256, 512} {
		bits := bits
		rate := 200 - 2*bits/8
		f := sha3.NewLegacyKeccak256
		if bits == 512 {
			f = sha3.NewLegacyKeccak512
		}
		ks = append(ks, &kind{name: "sha3 legacy Keccak", label: fmt.Sprintf("keccak-%d", bits), B: rate, size: bits / 8, keccak: true,
			fresh:  f,
			digest: func(m []byte) []byte { return keccakref.LegacyKeccak(bits, m) },
			stream: func(m []byte, n int) []byte { return keccakref.Sponge(rate, keccakref.DsKeccak, m, n) },
			mlen:   4 + 1 + 200 + 1 + 1, magicLen: 4, rateIdx: 4, nIdx: 4 + 1 + 200, dirIdx: 4 + 1 + 200 + 1,
		})
	}
	return ks
}

func run(c *vf.Ctx) {
	c.Rule("kinds {blake2b-512,-256,-8, blake2s-256, legacy Keccak-256, -512}. " +
		"(T) every history over {Write 1,B-1,B,B+1,600; Sum; Reset; M=marshal->unmarshal into fresh->continue on the restored hash} (+Read 1,rate,rate+1 for Keccak) to depth D, no state merging, every object finally extended by one Write+Sum; " +
		"Value classes of the written data {seeded, all-0x00, all-0xFF, one set bit per 97 bytes, ascending}: (T) is explored once per class (seeded to depth D, the structured classes to D-1), and (V) every length 0..2B+1 and 600 x every class (Keccak also after a short Read) is marshaled and restored into a fresh and two used receivers, all continued and compared with the reference; " +
		"(H) crafted well-formed BLAKE2 states with high counter words x buffer fill {0,1,B-1,B} x continuation {0,1,B,B+1,3B+1}; " +
		"(F) single faults of valid marshaled states (all 256 values of each structural byte, counter boundary values, all other values of each magic byte, 4 faults at every byte position, every truncation, extensions, size x offset corner pairs), all strings of length <= 2, seeded random strings, each accepted state driven through 5 operation orders. " +
		"(L) long histories: state marshaled after one Write of 2^k+{-1,0,1,B-1,B,B+1} bytes, k=8..22 (Keccak also after squeezing that many bytes), restored into a fresh and into two used receivers, all continued with the same Write(B+3)+Sum / Read(2B+5) and compared with the original (and with the reference up to 2^16+B+1). " +
		"Reused receivers: at every M of (T), in (H) and (L) the state is additionally restored into receivers that already hold another state (absorbed 2B-1 / 2B non-zero bytes, summed, Keccak variant 1 also squeezed, each just after a failing UnmarshalBinary) and these are observed/extended/observed like every other object; in (F) three of the five operation orders restore into such receivers. " +
		"Caller-owned buffers: UnmarshalBinary gets a private copy of the blob; that copy and the slice returned by MarshalBinary (incl. spare capacity) are overwritten right after the call; every Write gets a private copy overwritten afterwards. " +
		"non-trivial = distinct fault (kind, base, fault) that UnmarshalBinary accepted and that differs from the valid state, or a distinct history of depth >= 2 containing M. oracle = RFC 7693 / Keccak reference models; error-or-no-panic")
	c.Assume("reference models verif/ref/blake2ref and verif/ref/keccakref (KAT-validated)")
	c.Assume("marshal layouts as written in the package sources: blake2 magic|h|c|size|block|offset; Keccak magic|rate|a|n|direction")
	c.Assume("a Keccak state whose direction byte is 'squeezing' legitimately panics on Write/Sum until Reset (documented behaviour, identical to the original that was marshaled after Read)")

	for _, k := range kinds() {
		transparency(c, k)
		if !k.keccak {
			highCounters(c, k)
		}
		faults(c, k)
		valueGrid(c, k)
		longStates(c, k)
		snapshots(c, k)
	}
	keyedMarshal(c)
}

// ------------------------------------------------------------------ R
// snapshots: the blob returned by MarshalBinary belongs to the caller. On ONE object, after
// every prefix of a write sequence a snapshot is taken and KEPT (not copied); none of them
// may change when the object is written to, summed or marshaled again, and restoring each of
// them later and writing the rest must give the digest of the whole message.
func snapshots(c *vf.Ctx, k *kind) {
	chunkSets := [][]int{{1, k.B - 1, 1, k.B, 3}, {k.B, k.B, 1}, {0, 5, 2*k.B + 7, 0, 9}, {k.B - 1, 2, k.B - 3}}
	for ci, chunks := range chunkSets {
		total := 0
		for _, n := range chunks {
			total += n
		}
		msg := c.Bytes("c07-snap-"+k.label, ci, total)
		h := k.fresh()
		m, ok := h.(encoding.BinaryMarshaler)
		if !ok {
			return
		}
		type snap struct {
			raw, copy []byte
			at        int
		}
		var snaps []snap
		pos := 0
		take := func() bool {
			var b []byte
			var err error
			if p, v, _ := vf.Protect(func() { b, err = m.MarshalBinary() }); p || err != nil {
				c.Violation(k.name+": MarshalBinary fails or panics on an unkeyed hash", fmt.Sprint(v, err))
				return false
			}
			snaps = append(snaps, snap{b, append([]byte(nil), b...), pos})
			return true
		}
		if !take() {
			return
		}
		for _, n := range chunks {
			h.Write(append([]byte(nil), msg[pos:pos+n]...))
			pos += n
			h.Sum(nil)
			if !take() {
				return
			}
		}
		c.Eval(len(snaps))
		want := k.digest(msg)
		for i, sn := range snaps {
			what := map[string]any{"kind": k.label, "chunks": chunks, "snapshot": i, "taken_after_bytes": sn.at}
			if !bytes.Equal(sn.raw, sn.copy) {
				c.Violation(k.name+": a snapshot returned by MarshalBinary changes when the hash is used or marshaled again (the result is not the caller's own)", what)
				break
			}
			f := k.fresh()
			if err := f.(encoding.BinaryUnmarshaler).UnmarshalBinary(sn.raw); err != nil {
				c.Violation(k.name+": UnmarshalBinary rejects a snapshot kept by the caller", what)
				break
			}
			f.Write(msg[sn.at:])
			if got := f.Sum(nil); !bytes.Equal(got[:len(want)], want) {
				c.Violation(k.name+": restoring a kept snapshot and writing the rest gives a wrong digest", what)
				break
			}
			c.Nontrivial(fmt.Sprintf("snap|%s|%d|%d", k.label, ci, i))
		}
	}
}

// ------------------------------------------------------------------ T

type op struct {
	kind byte // W write, S sum, Z reset, M marshal round trip, R read (keccak)
	n    int
}

func opName(o op) string {
	switch o.kind {
	case 'W':
		return fmt.Sprintf("Write(%d)", o.n)
	case 'S':
		return "Sum"
	case 'Z':
		return "Reset"
	case 'M':
		return "MarshalUnmarshal"
	}
	return fmt.Sprintf("Read(%d)", o.n)
}

// obj is one live hash with the model of what it must contain.
type obj struct {
	h         hash.Hash
	msg       []byte // bytes written since the last Reset
	squeezing bool
	outpos    int
	reused    bool // restored into a receiver that had been used before
}

// valueClasses: the DATA written in the histories is a dimension of its own - a state
// field may depend on the values absorbed (a sponge that is still all zero, a buffer of
// 0xFF, a single set bit), not only on how many bytes were absorbed.
var valueClassNames = []string{"seeded", "all-0x00", "all-0xFF", "one-bit", "ascending"}

func valueClass(c *vf.Ctx, label string, class, n int) []byte {
	b := make([]byte, n)
	switch class {
	case 0:
		return c.Bytes(label, 0, n)
	case 1:
	case 2:
		for i := range b {
			b[i] = 0xFF
		}
	case 3:
		// zeros with one set bit every 97 bytes (and in the very first byte)
		for i := 0; i < n; i += 97 {
			b[i] = 0x80 >> uint(i/97%8)
		}
	case 4:
		for i := range b {
			b[i] = byte(i)
		}
	}
	return b
}

func clobber(b []byte) {
	for i := range b {
		b[i] ^= 0xFF
	}
}

// used returns a receiver of the same kind that already holds ANOTHER state: it has
// absorbed more than a block of non-zero bytes (variant 0: buffer almost full, variant 1:
// buffer completely full / Keccak: additionally squeezed, so its direction is "squeezing"),
// was summed, and has just returned an error from an UnmarshalBinary of a state that is
// well-formed up to its last structural byte (state after an error return).
func (k *kind) used(variant int) hash.Hash {
	h := k.fresh()
	junk := bytes.Repeat([]byte{0xEE}, 2*k.B-1+variant%2)
	h.Write(junk)
	if good, err := h.(encoding.BinaryMarshaler).MarshalBinary(); err == nil && len(good) == k.mlen {
		bad := append([]byte(nil), good...)
		clobber(bad[k.magicLen+1 : k.mlen-2])
		if k.keccak {
			bad[k.nIdx] = 255
		} else {
			bad[k.offIdx] = 255
		}
		h.(encoding.BinaryUnmarshaler).UnmarshalBinary(bad) // must fail; what it leaves behind must not matter
	}
	h.Sum(nil)
	if k.keccak && variant%2 == 1 {
		h.(io.Reader).Read(make([]byte, 1))
	}
	return h
}

func roundTrip(k *kind, h hash.Hash) (hash.Hash, []byte, string) {
	return roundTripInto(k, h, nil)
}

// roundTripInto marshals h and unmarshals into recv (nil = a fresh hash). The caller owns
// its buffers: UnmarshalBinary gets a private copy of the blob, and both the blob returned
// by MarshalBinary and that copy are overwritten afterwards - neither the original nor
// the restored hash may depend on them. The returned blob is an intact copy.
func roundTripInto(k *kind, h hash.Hash, recv hash.Hash) (hash.Hash, []byte, string) {
	m, ok := h.(encoding.BinaryMarshaler)
	if !ok {
		return nil, nil, "hash does not implement encoding.BinaryMarshaler"
	}
	var b []byte
	var err error
	if p, v, _ := vf.Protect(func() { b, err = m.MarshalBinary() }); p {
		return nil, nil, fmt.Sprintf("MarshalBinary panics | %v", v)
	}
	if err != nil {
		return nil, nil, "MarshalBinary of an unkeyed hash fails | " + err.Error()
	}
	f := recv
	if f == nil {
		f = k.fresh()
	}
	u, ok := f.(encoding.BinaryUnmarshaler)
	if !ok {
		return nil, nil, "hash does not implement encoding.BinaryUnmarshaler"
	}
	keep := append([]byte(nil), b...)
	priv := append([]byte(nil), b...)
	if p, v, _ := vf.Protect(func() { err = u.UnmarshalBinary(priv) }); p {
		return nil, nil, fmt.Sprintf("UnmarshalBinary panics on MarshalBinary output | %v", v)
	}
	if err != nil {
		return nil, nil, "UnmarshalBinary rejects MarshalBinary output | " + err.Error()
	}
	clobber(priv)
	clobber(b[:cap(b)])
	return f, keep, ""
}

func (k *kind) check(o *obj, data []byte) string {
	// observe the object without the model assuming anything about internals
	if o.squeezing {
		// Write and Sum must panic as documented, Read continues the stream
		if !vf.Panics(func() { o.h.Write([]byte{1}) }) {
			return "restored/original squeezing Keccak state: Write after Read does not panic"
		}
		if !vf.Panics(func() { o.h.Sum(nil) }) {
			return "restored/original squeezing Keccak state: Sum after Read does not panic"
		}
		buf := make([]byte, k.B+3)
		var n int
		var err error
		if p, v, _ := vf.Protect(func() { n, err = o.h.(io.Reader).Read(buf) }); p {
			return fmt.Sprintf("Read panics | %v", v)
		}
		if n != len(buf) || err != nil || !bytes.Equal(buf, k.stream(o.msg, o.outpos+len(buf))[o.outpos:]) {
			return "Read output differs from the Keccak sponge stream of the bytes written"
		}
		o.outpos += len(buf)
		return ""
	}
	var got []byte
	if p, v, _ := vf.Protect(func() { got = o.h.Sum(nil) }); p {
		return fmt.Sprintf("Sum panics | %v", v)
	}
	if !bytes.Equal(got, k.digest(o.msg)) {
		return "Sum differs from the reference digest of the bytes written"
	}
	if o.h.Size() != k.size || o.h.BlockSize() != k.B {
		return "Size/BlockSize changed by the round trip"
	}
	return ""
}

func transparency(c *vf.Ctx, k *kind) {
	for class := range valueClassNames {
		transparencyClass(c, k, class)
	}
}

// transparencyClass explores the histories with the written data taken from one value
// class: the seeded class to the full depth, the structured classes to depth-1.
func transparencyClass(c *vf.Ctx, k *kind, class int) {
	B := k.B
	ops := []op{{'W', 1}, {'M', 0}, {'S', 0}, {'W', B}, {'Z', 0}, {'W', B - 1}, {'W', B + 1}, {'W', 600}}
	if k.keccak {
		ops = append(ops, op{'R', 1}, op{'R', B}, op{'R', B + 1})
	}
	depth := 4
	if c.Thorough {
		depth = 5
	}
	if k.label == "blake2b-512" || k.label == "blake2s-256" {
		depth++
	}
	label := "T/" + k.label
	if class > 0 {
		depth--
		label += "/" + valueClassNames[class]
	}
	stream := valueClass(c, "T-"+k.label, class, depth*600+8)
	vf.ExploreSeq(c, label, vf.SeqSpec[op]{
		Ops: ops, Depth: depth, Parallel: true, Name: opName,
		Class: func(h []op, mis string) string {
			cat, _, _ := strings.Cut(mis, " | ")
			if class > 0 {
				return k.name + ": transparency (" + valueClassNames[class] + " data): " + cat
			}
			return k.name + ": transparency: " + cat
		},
		Run: func(hist []op) (key string, stop bool, mis string) {
			defer recoverRun(&stop, &mis)
			cur := &obj{h: k.fresh()}
			var parked []*obj
			pos := 0 // stream position: every written byte is fresh data
			trips := 0
			for _, o := range hist {
				switch o.kind {
				case 'W':
					var n int
					var err error
					wbuf := append([]byte(nil), stream[pos:pos+o.n]...) // caller-owned: overwritten after the call
					p, v, _ := vf.Protect(func() { n, err = cur.h.Write(wbuf) })
					clobber(wbuf)
					if cur.squeezing {
						if !p {
							return "", true, "Write after Read does not panic"
						}
						break
					}
					if p {
						return "", true, fmt.Sprintf("Write panics | %v", v)
					}
					if n != o.n || err != nil {
						return "", true, "Write return value wrong"
					}
					cur.msg = append(cur.msg, stream[pos:pos+o.n]...)
					pos += o.n
				case 'S':
					if cur.squeezing {
						if !vf.Panics(func() { cur.h.Sum(nil) }) {
							return "", true, "Sum after Read does not panic"
						}
						break
					}
					if m := k.check(cur, nil); m != "" {
						return "", true, m
					}
				case 'Z':
					if p, v, _ := vf.Protect(func() { cur.h.Reset() }); p {
						return "", true, fmt.Sprintf("Reset panics | %v", v)
					}
					cur.msg, cur.squeezing, cur.outpos = nil, false, 0
				case 'R':
					buf := make([]byte, o.n)
					var n int
					var err error
					if p, v, _ := vf.Protect(func() { n, err = cur.h.(io.Reader).Read(buf) }); p {
						return "", true, fmt.Sprintf("Read panics | %v", v)
					}
					cur.squeezing = true
					if n != o.n || err != nil || !bytes.Equal(buf, k.stream(cur.msg, cur.outpos+o.n)[cur.outpos:]) {
						return "", true, "Read output differs from the Keccak sponge stream of the bytes written"
					}
					cur.outpos += o.n
				case 'M':
					f, _, m := roundTrip(k, cur.h)
					if m != "" {
						return "", true, m
					}
					trips++
					// dimension B: the same state restored into a receiver that already holds
					// another state (both variants of used()); they are parked and
					// observed / extended / observed at the end like every other object
					parked = append(parked, cur)
					for variant := 0; variant < 2; variant++ {
						g, _, m := roundTripInto(k, cur.h, k.used(variant))
						if m != "" {
							return "", true, "receiver that had been used before: " + m
						}
						parked = append(parked, &obj{h: g, msg: append([]byte{}, cur.msg...), squeezing: cur.squeezing, outpos: cur.outpos, reused: true})
					}
					cur = &obj{h: f, msg: append([]byte{}, cur.msg...), squeezing: cur.squeezing, outpos: cur.outpos}
				}
			}
			// final: every object (restored and originals) is observed, extended, observed again
			for i, o := range append([]*obj{cur}, parked...) {
				who := "restored/current hash"
				if i > 0 {
					who = "original kept after MarshalBinary"
				}
				if o.reused {
					who = "hash restored into a receiver that had been used before"
				}
				if m := k.check(o, nil); m != "" {
					return "", true, who + ": " + m
				}
				if !o.squeezing {
					extra := stream[len(stream)-7:]
					if p, v, _ := vf.Protect(func() { o.h.Write(extra) }); p {
						return "", true, who + fmt.Sprintf(": Write panics | %v", v)
					}
					o.msg = append(o.msg, extra...)
					if m := k.check(o, nil); m != "" {
						return "", true, who + " after one more Write: " + m
					}
				}
			}
			if len(hist) == depth && class == 0 {
				c.Outcome(fmt.Sprintf("T history end: round-trips=%d squeezing=%v", trips, cur.squeezing))
			}
			return "", false, ""
		},
	})
}

// ------------------------------------------------------------------ V (every length x value class)

// valueGrid: for every value class and EVERY length 0..2B+1 (and 600): Write(L) in one
// call or split in two, marshal, restore into a fresh and two used receivers, then all
// four objects take Write(7)+Sum (Keccak additionally: Read(L%5+1) before the marshal in
// a second pass, continued by Read) and must equal the reference.
func valueGrid(c *vf.Ctx, k *kind) {
	B := k.B
	var lens []int
	for L := 0; L <= 2*B+1; L++ {
		lens = append(lens, L)
	}
	lens = append(lens, 600)
	modes := 1
	if k.keccak {
		modes = 2
	}
	n := len(valueClassNames) * len(lens) * modes
	pfor(c, k.name+" section V", n, func(i int) {
		class := i / (len(lens) * modes)
		L := lens[i/modes%len(lens)]
		squeeze := i%modes == 1
		data := valueClass(c, "V-"+k.label, class, L+7)
		msg, extra := data[:L], data[L:]
		bad := func(what string, d map[string]any) {
			if d == nil {
				d = map[string]any{}
			}
			d["kind"], d["length"], d["value_class"], d["squeezed_before_marshal"] = k.label, L, valueClassNames[class], squeeze
			c.Violation(k.name+": transparency ("+valueClassNames[class]+" data, length grid): "+what, d)
		}
		orig := k.fresh()
		orig.Write(append([]byte(nil), msg[:L/2]...))
		orig.Write(append([]byte(nil), msg[L/2:]...))
		pre := 0
		if squeeze {
			pre = L%5 + 1
			buf := make([]byte, pre)
			orig.(io.Reader).Read(buf)
			if !bytes.Equal(buf, k.stream(msg, pre)) {
				bad("Read output differs from the Keccak sponge stream", nil)
				return
			}
		}
		c.Eval(1)
		objs := []hash.Hash{orig}
		for r := 0; r < 3; r++ {
			var recv hash.Hash
			if r > 0 {
				recv = k.used(r - 1)
			}
			f, blob, m := roundTripInto(k, orig, recv)
			if m != "" {
				who := ""
				if r > 0 {
					who = "receiver that had been used before: "
				}
				bad(who+cutBar(m), map[string]any{"mismatch": m, "state": fmt.Sprintf("%x", blob)})
				return
			}
			objs = append(objs, f)
		}
		var want []byte
		if squeeze {
			want = k.stream(msg, pre+B+3)[pre:]
		} else {
			want = k.digest(append(append([]byte{}, msg...), extra...))
		}
		for oi, h := range objs {
			var got []byte
			if p, v, _ := vf.Protect(func() {
				if squeeze {
					got = make([]byte, B+3)
					h.(io.Reader).Read(got)
				} else {
					h.Write(extra)
					got = h.Sum(nil)
				}
			}); p {
				bad("continuing a restored hash panics", map[string]any{"object": oi, "panic": fmt.Sprint(v)})
				return
			}
			if !bytes.Equal(got, want) {
				bad([]string{"original", "restored hash", "hash restored into a receiver that had been used before", "hash restored into a receiver that had been used before"}[oi]+" continues differently from the reference", map[string]any{"got": fmt.Sprintf("%x", got), "want": fmt.Sprintf("%x", want)})
				return
			}
		}
		if class > 0 && L > 0 {
			c.Nontrivial(fmt.Sprintf("V/%s/%d/%d/%v", k.label, class, L, squeeze))
		}
		if class == 1 && L == B-1 && !squeeze {
			c.Sample(map[string]any{"section": "V", "kind": k.label, "value_class": valueClassNames[class], "length": L})
		}
	})
}

// ------------------------------------------------------------------ L (long histories)

// longStates: the state is marshaled after ONE long Write of 2^k+{-1,0,1,B-1,B,B+1} bytes
// (k = 8..22; Keccak additionally after squeezing that many bytes), restored into a fresh
// and into a used receiver, and original and both restored hashes are continued with the
// same extra Write; all must agree (the property's own differential oracle), and for
// lengths up to 2^16+B+1 also with the reference digest.
func longStates(c *vf.Ctx, k *kind) {
	B := k.B
	kmax := 22
	var lens []int
	seen := map[int]bool{}
	for e := 8; e <= kmax; e++ {
		for _, d := range []int{-1, 0, 1, B - 1, B, B + 1} {
			if L := 1<<e + d; !seen[L] {
				seen[L] = true
				lens = append(lens, L)
			}
		}
	}
	long := c.Bytes("L-"+k.label, 0, 1<<kmax+B+1)
	extra := c.Bytes("L-extra-"+k.label, 0, B+3)
	modes := 1
	if k.keccak {
		modes = 2 // 0: marshal while absorbing, 1: marshal after squeezing L bytes
	}
	pfor(c, k.name+" section L", len(lens)*modes, func(j int) {
		L := lens[len(lens)-1-j/modes] // longest first
		squeeze := j%modes == 1
		bad := func(what string, detail map[string]any) {
			if detail == nil {
				detail = map[string]any{}
			}
			detail["kind"], detail["length"], detail["squeezed"] = k.label, L, squeeze
			c.Violation(k.name+": transparency (long history): "+what, detail)
		}
		orig := k.fresh()
		var msg []byte
		if squeeze {
			msg = long[:B+1]
			orig.Write(msg)
			buf := make([]byte, L)
			orig.(io.Reader).Read(buf)
			if L <= 1<<16+B+1 && !bytes.Equal(buf, k.stream(msg, L)) {
				bad("Read output differs from the Keccak sponge stream", nil)
				return
			}
		} else {
			msg = long[:L]
			orig.Write(msg)
		}
		c.Eval(1)
		r1, blob, m := roundTripInto(k, orig, nil)
		if m != "" {
			bad(cutBar(m), map[string]any{"mismatch": m})
			return
		}
		r2, _, m := roundTripInto(k, orig, k.used(0))
		if m != "" {
			bad("receiver that had been used before: "+cutBar(m), map[string]any{"mismatch": m})
			return
		}
		r3, _, m := roundTripInto(k, orig, k.used(1))
		if m != "" {
			bad("receiver that had been used before: "+cutBar(m), map[string]any{"mismatch": m})
			return
		}
		var outs [4][]byte
		for i, h := range []hash.Hash{orig, r1, r2, r3} {
			if p, v, _ := vf.Protect(func() {
				if squeeze {
					outs[i] = make([]byte, 2*B+5)
					h.(io.Reader).Read(outs[i])
				} else {
					h.Write(extra)
					outs[i] = h.Sum(nil)
				}
			}); p {
				bad("continuing a restored hash panics", map[string]any{"object": []string{"original", "restored into fresh", "restored into used (absorbing)", "restored into used (full buffer / squeezing)"}[i], "panic": fmt.Sprint(v)})
				return
			}
		}
		if !bytes.Equal(outs[0], outs[1]) {
			bad("restored hash continues differently from the original", map[string]any{"state": fmt.Sprintf("%x", blob), "original": fmt.Sprintf("%x", outs[0]), "restored": fmt.Sprintf("%x", outs[1])})
			return
		}
		if !bytes.Equal(outs[0], outs[2]) || !bytes.Equal(outs[0], outs[3]) {
			bad("hash restored into a receiver that had been used before continues differently from the original", map[string]any{"state": fmt.Sprintf("%x", blob), "original": fmt.Sprintf("%x", outs[0]), "restored": fmt.Sprintf("%x", outs[2])})
			return
		}
		if L <= 1<<16+B+1 {
			var want []byte
			if squeeze {
				want = k.stream(msg, L+2*B+5)[L:]
			} else {
				want = k.digest(append(append([]byte{}, msg...), extra...))
			}
			if !bytes.Equal(outs[0], want) {
				bad("original and restored hash agree but differ from the reference", nil)
				return
			}
		}
		c.Nontrivial(fmt.Sprintf("L/%s/%d/%v", k.label, L, squeeze))
		if L == 1<<22+B+1 {
			c.Sample(map[string]any{"section": "L", "kind": k.label, "length": L, "squeezed": squeeze, "state_prefix": vf.Hex8(blob[:16])})
		}
	})
}

// ------------------------------------------------------------------ H

func highCounters(c *vf.Ctx, k *kind) {
	B := k.B
	type hc struct {
		lo, hi uint64
		off    int
	}
	var cs []hc
	los := []uint64{uint64(B), 1 << 20, 1<<31 - uint64(B), 1 << 31, 1<<32 - uint64(B)}
	if k.ctrWord == 8 {
		los = append(los, 1<<32, 1<<62+uint64(5*B)) // stay below 2^63: see the C05 known finding
	}
	for _, lo := range los {
		for _, hi := range []uint64{0, 1, 7, 1<<31 + 3} {
			for _, off := range []int{0, 1, B - 1, B} {
				cs = append(cs, hc{lo, hi, off})
			}
		}
	}
	pfor(c, k.name+" section H", len(cs), func(i int) {
		x := cs[i]
		st := make([]byte, 0, k.mlen)
		if k.name == "blake2b" {
			st = append(st, "b2b"...)
		} else {
			st = append(st, "b2s"...)
		}
		st = append(st, c.Bytes("H-h-"+k.label, i, 8*k.ctrWord)...)
		if k.ctrWord == 8 {
			st = binary.BigEndian.AppendUint64(st, x.lo)
			st = binary.BigEndian.AppendUint64(st, x.hi)
		} else {
			st = binary.BigEndian.AppendUint32(st, uint32(x.lo))
			st = binary.BigEndian.AppendUint32(st, uint32(x.hi))
		}
		st = append(st, byte(k.size))
		blk := c.Bytes("H-blk-"+k.label, i, B)
		for j := x.off; j < B; j++ {
			blk[j] = 0
		}
		st = append(st, blk...)
		st = append(st, byte(x.off))
		data := c.Bytes("H-data-"+k.label, i, 3*B+1)
		for _, wl := range []int{0, 1, B, B + 1, 3*B + 1} {
			a := k.fresh()
			if err := a.(encoding.BinaryUnmarshaler).UnmarshalBinary(append([]byte(nil), st...)); err != nil {
				c.Violation(k.name+": UnmarshalBinary rejects a well-formed state", map[string]any{"kind": k.label, "state": fmt.Sprintf("%x", st), "err": err.Error()})
				return
			}
			b, _, m := roundTrip(k, a)
			c.Eval(1)
			if m != "" {
				c.Violation(k.name+": transparency (high counters): "+cutBar(m), map[string]any{"kind": k.label, "state": fmt.Sprintf("%x", st), "mismatch": m})
				return
			}
			b2, _, m := roundTripInto(k, a, k.used(i+wl))
			if m != "" {
				c.Violation(k.name+": transparency (high counters): receiver that had been used before: "+cutBar(m), map[string]any{"kind": k.label, "state": fmt.Sprintf("%x", st), "mismatch": m})
				return
			}
			want := k.finish(st, data[:wl])
			for who, h := range map[string]hash.Hash{"original": a, "restored": b, "restored into a receiver that had been used before,": b2} {
				h.Write(data[:wl])
				if got := h.Sum(nil); !bytes.Equal(got, want) {
					c.Violation(k.name+": transparency (high counters): "+who+" hash continues differently from the reference continuation of the state",
						map[string]any{"kind": k.label, "counter_lo": x.lo, "counter_hi": x.hi, "buffered": x.off, "write": wl, "got": fmt.Sprintf("%x", got), "want": fmt.Sprintf("%x", want)})
					return
				}
			}
			c.Nontrivial(fmt.Sprintf("H/%s/%d/%d/%d/%d", k.label, x.lo, x.hi, x.off, wl))
		}
	})
}

func cutBar(m string) string { a, _, _ := strings.Cut(m, " | "); return a }

// ------------------------------------------------------------------ F

type fault struct {
	base string
	desc string
	b    []byte
}

func (k *kind) baseStates(c *vf.Ctx) map[string][]byte {
	B := k.B
	out := map[string][]byte{}
	data := c.Bytes("F-base-"+k.label, 0, 2*B+600)
	for _, n := range []int{0, 1, B - 1, B, B + 1, 2 * B, 600} {
		h := k.fresh()
		h.Write(data[:n])
		b, err := h.(encoding.BinaryMarshaler).MarshalBinary()
		if err != nil || len(b) != k.mlen {
			c.Violation(k.name+": MarshalBinary fails or has unexpected length", map[string]any{"kind": k.label, "len": len(b), "err": fmt.Sprint(err)})
			continue
		}
		out[fmt.Sprintf("after Write(%d)", n)] = b
	}
	if k.keccak {
		for _, r := range []int{1, B} {
			h := k.fresh()
			h.Write(data[:5])
			h.(io.Reader).Read(make([]byte, r))
			b, _ := h.(encoding.BinaryMarshaler).MarshalBinary()
			out[fmt.Sprintf("after Write(5),Read(%d)", r)] = b
		}
	}
	return out
}

func (k *kind) faultsOf(c *vf.Ctx, baseName string, s []byte) []fault {
	var fs []fault
	add := func(desc string, b []byte) { fs = append(fs, fault{baseName, desc, b}) }
	set := func(i int, v byte) []byte { b := append([]byte{}, s...); b[i] = v; return b }
	var structural []int
	if k.keccak {
		structural = []int{k.rateIdx, k.nIdx, k.dirIdx}
	} else {
		structural = []int{k.sizeIdx, k.offIdx}
	}
	for _, i := range structural {
		for v := 0; v < 256; v++ {
			add(fmt.Sprintf("byte[%d]=%d", i, v), set(i, byte(v)))
		}
	}
	if !k.keccak {
		for w := 0; w < 2; w++ {
			for _, v := range []uint64{0, 1, 1<<(8*uint(k.ctrWord)-1) - 1, 1 << (8*uint(k.ctrWord) - 1), ^uint64(0)} {
				b := append([]byte{}, s...)
				if k.ctrWord == 8 {
					binary.BigEndian.PutUint64(b[k.ctrIdx+8*w:], v)
				} else {
					binary.BigEndian.PutUint32(b[k.ctrIdx+4*w:], uint32(v))
				}
				add(fmt.Sprintf("counter[%d]=%#x", w, v), b)
			}
		}
		for _, sz := range []int{0, 1, k.maxSize, k.maxSize + 1, 255} {
			for _, off := range []int{0, 1, k.B, k.B + 1, 255} {
				b := set(k.sizeIdx, byte(sz))
				b[k.offIdx] = byte(off)
				add(fmt.Sprintf("size=%d,offset=%d", sz, off), b)
			}
		}
	} else {
		for _, n := range []int{0, k.B - 1, k.B, k.B + 1, 255} {
			for _, d := range []int{0, 1, 2, 255} {
				b := set(k.nIdx, byte(n))
				b[k.dirIdx] = byte(d)
				add(fmt.Sprintf("n=%d,direction=%d", n, d), b)
			}
		}
	}
	for i := 0; i < k.magicLen; i++ {
		for v := 0; v < 256; v++ {
			if byte(v) != s[i] {
				add(fmt.Sprintf("magic[%d]=%d", i, v), set(i, byte(v)))
			}
		}
	}
	for i := range s {
		for _, v := range []byte{0x00, 0xff, s[i] ^ 0x01, s[i] ^ 0x80} {
			if v != s[i] {
				add(fmt.Sprintf("byte[%d]=%#x", i, v), set(i, v))
			}
		}
	}
	for n := 0; n < len(s); n++ {
		add(fmt.Sprintf("truncated to %d", n), append([]byte{}, s[:n]...))
	}
	for _, e := range []int{1, 2, 8, len(s)} {
		add(fmt.Sprintf("extended by %d", e), append(append([]byte{}, s...), c.Bytes("F-ext", e, e)...))
	}
	return fs
}

// drive runs the operation orders on states restored from b; it returns the first
// undocumented panic as (op, value).
func (k *kind) drive(b []byte) (accepted bool, op string, val any) {
	B := k.B
	one := []byte{0x5a}
	big := bytes.Repeat([]byte{0xa5}, B+1)
	squeezing := k.keccak && len(b) == k.mlen && b[k.dirIdx] == 1
	type step struct {
		name string
		f    func(h hash.Hash)
		ws   bool // Write or Sum: documented panic while squeezing
		rst  bool
	}
	W1 := step{"Write(1)", func(h hash.Hash) { h.Write(one) }, true, false}
	WB := step{fmt.Sprintf("Write(%d)", B+1), func(h hash.Hash) { h.Write(big) }, true, false}
	W0 := step{"Write(0)", func(h hash.Hash) { h.Write(nil) }, true, false}
	S := step{"Sum", func(h hash.Hash) { h.Sum(nil) }, true, false}
	Z := step{"Reset", func(h hash.Hash) { h.Reset() }, false, true}
	orders := [][]step{
		{S, W1, S, WB, S, Z, S, W1, S},
		{W1, S},
		{WB, S, W1, S},
		{Z, WB, S, W1, S},
		{W0, S, Z, S},
	}
	for oi, ord := range orders {
		// orders 1, 2, 4 restore into a receiver that already holds another state
		// (order 1: absorbing, buffer nearly full; 2 and 4: buffer full / Keccak squeezing)
		h := k.fresh()
		switch oi {
		case 1:
			h = k.used(0)
		case 2, 4:
			h = k.used(1)
		}
		var err error
		if p, v, _ := vf.Protect(func() { err = h.(encoding.BinaryUnmarshaler).UnmarshalBinary(b) }); p {
			return false, "UnmarshalBinary", v
		}
		if err != nil {
			return false, "", nil
		}
		sq := squeezing
		for _, st := range ord {
			p, v, _ := vf.Protect(func() { st.f(h) })
			if st.rst {
				sq = false
			}
			if p {
				if sq && st.ws {
					if s, ok := v.(string); ok && strings.HasPrefix(s, "sha3: ") && strings.HasSuffix(s, " after Read") {
						continue // documented
					}
				}
				return true, fmt.Sprintf("%s (order %d)", st.name, oi), v
			}
		}
		if k.keccak && oi == 0 {
			// a restored Keccak state must also be readable
			if p, v, _ := vf.Protect(func() { h.(io.Reader).Read(make([]byte, B+1)) }); p {
				return true, "Read", v
			}
		}
	}
	return true, "", nil
}

func faults(c *vf.Ctx, k *kind) {
	var fs []fault
	bases := k.baseStates(c)
	for name, s := range bases {
		fs = append(fs, k.faultsOf(c, name, s)...)
	}
	// all byte strings of length <= 2 (once per package, not per digest size)
	if k.size == 64 || k.label == "blake2s-256" || k.label == "keccak-256" {
		fs = append(fs, fault{"-", "empty string", []byte{}})
		for a := 0; a < 256; a++ {
			fs = append(fs, fault{"-", "1-byte string", []byte{byte(a)}})
			for b := 0; b < 256; b++ {
				fs = append(fs, fault{"-", "2-byte string", []byte{byte(a), byte(b)}})
			}
		}
	}
	// seeded random strings of the right length, with and without a valid magic
	nr := 200 * c.V()
	valid := bases["after Write(0)"]
	for i := 0; i < nr; i++ {
		r := c.Bytes("F-rand-"+k.label, i, k.mlen)
		fs = append(fs, fault{"-", "random string", r})
		if valid != nil {
			r2 := append([]byte{}, r...)
			copy(r2, valid[:k.magicLen])
			fs = append(fs, fault{"-", "random string with valid magic", r2})
			if k.keccak {
				r3 := append([]byte{}, r2...)
				r3[k.rateIdx] = valid[k.rateIdx]
				fs = append(fs, fault{"-", "random string with valid magic and rate", r3})
			}
		}
	}
	pfor(c, k.name+" section F", len(fs), func(i int) {
		f := fs[i]
		c.Eval(1)
		accepted, op, val := k.drive(f.b)
		detail := map[string]any{"kind": k.label, "base_state": f.base, "fault": f.desc, "input": fmt.Sprintf("%x", f.b), "panicking_op": op, "panic": fmt.Sprint(val)}
		switch {
		case op == "UnmarshalBinary":
			c.Violation(k.name+".UnmarshalBinary panics", detail)
			c.Outcome(k.label + ": Unmarshal panics")
		case !accepted:
			c.Outcome(k.label + ": rejected")
		case op == "":
			c.Outcome(k.label + ": accepted, safe")
			if b, ok := bases[f.base]; !ok || !bytes.Equal(b, f.b) {
				c.Nontrivial(k.label + "/" + f.base + "/" + f.desc + fmt.Sprintf("/%d", i))
			}
		default:
			c.Outcome(k.label + ": accepted, later panic")
			c.Violation(k.classify(f.b, op), detail)
		}
		if f.desc == fmt.Sprintf("byte[%d]=200", k.offIdx) || f.desc == fmt.Sprintf("byte[%d]=1", k.dirIdx) {
			c.Sample(map[string]any{"section": "F", "kind": k.label, "base_state": f.base, "fault": f.desc, "accepted": accepted, "panicking_op": op})
		}
	})
}

// classify names the violation for an accepted state that later panics. The two
// already-known BLAKE2 defects (no range check on the size and offset bytes) get
// their own precise classes; anything else is reported under a different class.
func (k *kind) classify(b []byte, op string) string {
	opk := op
	if i := strings.IndexByte(opk, '('); i >= 0 {
		opk = strings.TrimSpace(opk[:i])
	}
	if !k.keccak && len(b) == k.mlen {
		sizeBad := int(b[k.sizeIdx]) > k.maxSize
		offBad := int(b[k.offIdx]) > k.B
		switch {
		case offBad && (!sizeBad || opk == "Write"):
			return fmt.Sprintf("%s.UnmarshalBinary accepts offset byte > %d; later Write or Sum panics", k.name, k.B)
		case sizeBad && opk == "Sum":
			return fmt.Sprintf("%s.UnmarshalBinary accepts size byte > %d; later Sum panics", k.name, k.maxSize)
		}
	}
	return fmt.Sprintf("%s.UnmarshalBinary accepts a state on which %s panics (size/offset/n/direction bytes in range or not the cause)", k.name, opk)
}

// ------------------------------------------------------------------ keyed hashes

// MarshalBinary of a keyed BLAKE2 hash is documented to be unsupported; it must fail
// cleanly (no panic).
func keyedMarshal(c *vf.Ctx) {
	key := c.Bytes("keyed", 0, 16)
	hb, _ := blake2b.New512(key)
	hs, _ := blake2s.New256(key)
	hs128, _ := blake2s.New128(key)
	for name, h := range map[string]hash.Hash{"blake2b": hb, "blake2s": hs, "blake2s-128": hs128} {
		c.Eval(1)
		m, ok := h.(encoding.BinaryMarshaler)
		if !ok {
			continue
		}
		if p, v, _ := vf.Protect(func() { m.MarshalBinary() }); p {
			c.Violation(name+": MarshalBinary of a keyed hash panics", fmt.Sprint(v))
		}
	}
}

// pfor is c.ParallelFor with every case guarded: a panic escaping the code under test
// is recorded as a violation instead of crashing the run.
func pfor(c *vf.Ctx, section string, n int, f func(i int)) {
	c.ParallelFor(n, func(i int) {
		if p, v, st := vf.Protect(func() { f(i) }); p {
			if len(st) > 1500 {
				st = st[:1500]
			}
			c.Violation(section+": unexpected panic in the code under test", map[string]any{"case_index": i, "panic": fmt.Sprint(v), "stack": st})
		}
	})
}

// recoverRun turns a panic inside a history into a mismatch of that history.
func recoverRun(stop *bool, mis *string) {
	if r := recover(); r != nil {
		*stop, *mis = true, fmt.Sprintf("unexpected panic | %v", r)
	}
}
