// C46: ASCII armor and cleartext signatures round-trip.
//
// A. armor.Encode -> armor.Decode identity over body length x header map x block type x
//
//	write chunking x read size, output compared byte for byte with a reference armor
//	encoder written from RFC 4880 section 6 (own CRC-24, own radix-64), decoded by a strict
//	reference decoder, and by `gpg --dearmor` when gpg is present; `gpg --enarmor`
//	output is decoded by armor.Decode.
//
// B. CRC faults: every bit of the CRC line and every radix-64 character of the body
//
//	changed -> rejected, never a different body accepted.
//
// C. clearsign.Encode -> clearsign.Decode over a line grammar (all combinations up to 3
//
//	lines) against an independent section 7.1 canonicalisation; signature verified by
//	the package, by a reference RFC 4880 section 5.2.4 verifier, and by `gpg --verify-files`.
//
//go:debug cryptocustomrand=1
package main

import (
	"bytes"
	"crypto"
	_ "crypto/sha1"
	_ "crypto/sha256"
	_ "crypto/sha512"
	"fmt"
	"io"
	"sort"
	"strings"
	"sync"
	"time"

	"golang.org/x/crypto/openpgp"
	"golang.org/x/crypto/openpgp/armor"
	"golang.org/x/crypto/openpgp/clearsign"
	"golang.org/x/crypto/openpgp/packet"
	"verif/ref/pgpfix"
	"verif/ref/pgpref"
	"verif/vf"
)

func main() { vf.Main("C46", vf.Exploration, run) }

func run(c *vf.Ctx) {
	c.Rule("A: armor body length {0..130, 10000} (thorough 0..520, 10000, 100000) x 9 header maps x 3 block types x write chunkings x read sizes; " +
		"non-trivial = distinct (length, header set, type) with length>=1; B: for 8 body lengths every bit of the 5-character CRC line and every " +
		"radix-64 character x {2 other alphabet characters, 8 bit flips}; C: every text of <=3 lines over line starts x trailing whitespace {none,' ','\\t',' \\t'} " +
		"x EOL {LF, CRLF, none at the end}, non-trivial = distinct texts; oracles: reference armor codec + CRC-24, RFC 4880 7.1 canonicalisation, " +
		"reference v4 signature verification, gpg 2.2 when present; " +
		"hardening dimensions: (A) every Write to armor.Encode / clearsign.Encode gets a private copy that is overwritten when Write returns, the header map is a copy modified after Encode returned, clearsign.Decode must not write to its input, read buffers hold old bytes before and are overwritten after every Read; " +
		"(C) armor bodies of 2^k+{-1,0,1,47,48,49} octets for k=12,16,20 (thorough 22) written whole / in 65537- / in 4093-octet pieces, read with ReadAll / 4096 / 57, byte-for-byte against the reference encoder, plus one flipped character mid-body; clearsign texts with lines and blank runs of 4095/4096/4097/65537 octets, 400-5000 lines; " +
		"(D) armor.Decode behind 4 kinds of leading lines (garbage, a 150-character line, an abandoned block with a header, a bare BEGIN), clearsign.Decode of every message embedded between other text, text written whole / octet-wise / in two pieces cut at a moving position, Read after EOF; " +
		"(E) empty Writes around the body and no Write at all, lengths 190..194, 766..770 (one base64 encoder buffer), 1534..1538")
	c.Assume("crypto/* of the standard library (hashes, rsa, dsa, ecdsa) is correct; header keys without \": \" and values without leading/trailing whitespace or line breaks; GnuPG is an additional oracle only")

	g, why := pgpfix.NewGPG("c46")
	if g == nil {
		c.Set("external_oracle", "absent: "+why)
	} else {
		c.Set("external_oracle", g.Version)
		defer g.Close()
	}
	t0 := time.Now()
	phase := map[string]float64{}
	armorRoundTrip(c, g)
	phase["A_armor"] = time.Since(t0).Seconds()
	t0 = time.Now()
	armorLong(c)
	phase["A_armor_long"] = time.Since(t0).Seconds()
	t0 = time.Now()
	crcFaults(c)
	phase["B_crc_faults"] = time.Since(t0).Seconds()
	t0 = time.Now()
	clearsignGrammar(c, g)
	phase["C_clearsign"] = time.Since(t0).Seconds()
	gpgCleartextFixtures(c)
	c.Set("phase_seconds", phase)
}

// ---------------------------------------------------------------- A

type hdrSet struct {
	name string
	m    map[string]string
}

func headerSets() []hdrSet {
	long := strings.Repeat("0123456789abcdefghijklmnopqrstuvwxyz", 7) // 252 characters, no whitespace
	return []hdrSet{
		{"nil", nil},
		{"empty", map[string]string{}},
		{"version", map[string]string{"Version": "GnuPG v2"}},
		{"two", map[string]string{"Comment": "a: b : c", "Hash": "SHA256"}},
		{"spacekey", map[string]string{"My Key": "value with  two spaces"}},
		{"colons", map[string]string{"k:": ":v"}},
		{"long", map[string]string{"Comment": long}},
		{"longsp", map[string]string{"Comment": long[:40] + " " + long[40:130] + " : " + long[130:]}},
		{"three", map[string]string{"A": "1", "B": "2 2", "C": "3:3"}},
	}
}

// ownedWrite hands w a private copy of p and overwrites the copy as soon as Write has
// returned (the caller owns its buffer again).
func ownedWrite(w io.Writer, p []byte) error {
	q := append(make([]byte, 0, len(p)+4), p...)
	_, err := w.Write(q)
	for i := range q {
		q[i] ^= 0xFF
	}
	return err
}

// encodeArmor armors body. chunk > 0: written in pieces of chunk octets; chunk == 0: one
// Write; chunk == -1: one Write with empty Writes before and after it (for an empty body
// that is: only empty Writes); chunk == -2: no Write call at all when the body is empty.
// The header map handed to Encode is a private copy that is modified once Encode returned.
func encodeArmor(typ string, h map[string]string, body []byte, chunk int) ([]byte, error) {
	var buf bytes.Buffer
	var hc map[string]string
	if h != nil {
		hc = make(map[string]string, len(h))
		for k, v := range h {
			hc[k] = v
		}
	}
	w, err := armor.Encode(&buf, typ, hc)
	if err != nil {
		return nil, err
	}
	for k := range hc {
		hc[k] = "overwritten after Encode returned"
	}
	if hc != nil {
		hc["Added-Later"] = "x"
	}
	switch {
	case chunk == -2 && len(body) == 0:
	case chunk <= 0:
		if chunk == -1 {
			if err := ownedWrite(w, nil); err != nil {
				return nil, err
			}
			if err := ownedWrite(w, []byte{}); err != nil {
				return nil, err
			}
		}
		if err := ownedWrite(w, body); err != nil {
			return nil, err
		}
		if chunk == -1 {
			if err := ownedWrite(w, []byte{}); err != nil {
				return nil, err
			}
		}
	default:
		for i := 0; i < len(body); i += chunk {
			j := i + chunk
			if j > len(body) {
				j = len(body)
			}
			if err := ownedWrite(w, body[i:j]); err != nil {
				return nil, err
			}
		}
	}
	if err := w.Close(); err != nil {
		return nil, err
	}
	return buf.Bytes(), nil
}

// readChunks reads r to EOF with the given buffer size (0 = io.ReadAll), with a step budget.
// The buffer holds old bytes before every Read and is overwritten after every Read (it is
// the caller's); a reader that has reported EOF is asked twice more.
func readChunks(r io.Reader, size int) ([]byte, error) {
	if size <= 0 {
		return io.ReadAll(r)
	}
	var out []byte
	buf := make([]byte, size)
	for steps := 0; steps < 1<<24; steps++ {
		for i := range buf {
			buf[i] = 0xEE
		}
		n, err := r.Read(buf)
		out = append(out, buf[:n]...)
		if err == io.EOF {
			r.Read(buf)
			r.Read(buf[:0])
			return out, nil
		}
		if err != nil {
			return out, err
		}
	}
	return out, fmt.Errorf("reader did not reach EOF within 2^24 Read calls")
}

func sameHeaders(got map[string]string, want map[string]string) bool {
	if len(got) != len(want) {
		return false
	}
	for k, v := range want {
		if gv, ok := got[k]; !ok || gv != v {
			return false
		}
	}
	return true
}

func armorRoundTrip(c *vf.Ctx, g *pgpfix.GPG) {
	var lengths []int
	maxLen := 130
	if c.Thorough {
		maxLen = 520
	}
	for n := 0; n <= maxLen; n++ {
		lengths = append(lengths, n)
	}
	if !c.Thorough {
		// E: 4 full lines (192 octets); 768 octets = one 1024-character buffer of the base64
		// encoder = 16 full lines, and twice that
		lengths = append(lengths, 190, 191, 192, 193, 194, 766, 767, 768, 769, 770)
	} else {
		lengths = append(lengths, 766, 767, 768, 769, 770)
	}
	lengths = append(lengths, 1534, 1535, 1536, 1537, 1538, 10000)
	if c.Thorough {
		lengths = append(lengths, 100000)
	}
	types := []string{"PGP MESSAGE", "PGP SIGNATURE", "X"}
	// -1: empty Writes around one Write; -2: no Write at all for the empty body
	chunks := []int{0, 1, 2, 5, 47, 48, 49, 64, 1000, -1, -2}
	// D: the decoder reaches the block after skipping lines / after abandoning a block
	prefixes := []string{"leading garbage\n", strings.Repeat("g", 150) + "\n", "-----BEGIN BROKEN-----\nStale: header of the abandoned block\nthis line has no separator\n", "\n\n-----BEGIN \n"}
	reads := []int{0, 1, 3, 57, 4096}
	hs := headerSets()

	type gpgJob struct {
		out  []byte
		body []byte
		desc string
	}
	var gpgJobs []gpgJob
	var mu sync.Mutex

	c.ParallelFor(len(lengths), func(li int) {
		n := lengths[li]
		values := [][]byte{c.Bytes("armor-body", n, n)}
		if n <= 130 {
			values = append(values, bytes.Repeat([]byte{0}, n), bytes.Repeat([]byte{0xff}, n))
		}
		for hi, h := range hs {
			for ti, typ := range types {
				for ci, chunk := range chunks {
					if n > 1000 && (ci%4 != 0 || hi > 2 || ti > 0) {
						continue // long bodies: fewer variants
					}
					if chunk == -2 && n > 0 {
						continue
					}
					for vi, body := range values {
						if vi > 0 && (chunk != 0 || ti != 0) {
							continue
						}
						out, err := encodeArmor(typ, h.m, body, chunk)
						c.Eval(1)
						desc := map[string]any{"len": n, "headers": h.name, "type": typ, "chunk": chunk, "value": vi}
						if err != nil {
							c.Violation("armor.Encode fails", map[string]any{"case": desc, "err": err.Error()})
							continue
						}
						// reference decoder: structure, CRC, line lengths
						ra, rerr := pgpref.ArmorDecode(out)
						if rerr != nil {
							c.Violation("armor.Encode output is rejected by the reference decoder (RFC 4880 section 6)", map[string]any{"case": desc, "err": rerr.Error(), "out": string(trunc(out))})
							continue
						}
						refHdr := map[string]string{}
						for _, x := range ra.Headers {
							refHdr[x.Key] = x.Value
						}
						if ra.Type != typ || !bytes.Equal(ra.Body, body) || !sameHeaders(refHdr, h.m) || len(ra.Headers) != len(h.m) {
							c.Violation("armor.Encode output decodes (reference decoder) to a different type/headers/body", map[string]any{"case": desc, "out": string(trunc(out))})
						}
						if !ra.HasCRC {
							c.Violation("armor.Encode output has no CRC-24 line", desc)
						}
						for i, l := range ra.DataLines {
							if n == 0 {
								break
							}
							if (i < len(ra.DataLines)-1 && len(l) != 64) || len(l) > 64 || len(l) == 0 {
								c.Violation("armor.Encode does not wrap radix-64 lines at 64 characters", map[string]any{"case": desc, "line": i, "linelen": len(l)})
								break
							}
						}
						// byte-for-byte against the reference encoder (header order is free for >1 header)
						if n > 0 && len(h.m) <= 1 {
							var rh []pgpref.Header
							for k, v := range h.m {
								rh = append(rh, pgpref.Header{Key: k, Value: v})
							}
							if want := pgpref.ArmorEncode(typ, rh, body, 64); !bytes.Equal(out, want) {
								c.Violation("armor.Encode output differs from the reference encoding", map[string]any{"case": desc, "got": string(trunc(out)), "want": string(trunc(want))})
							}
						}
						// the package's own decoder, every read size
						for _, rs := range reads {
							if n > 1000 && rs == 1 {
								continue
							}
							var blk *armor.Block
							var derr error
							var got []byte
							var rerr2 error
							p, pv, st := vf.Protect(func() {
								blk, derr = armor.Decode(bytes.NewReader(out))
								if derr == nil {
									got, rerr2 = readChunks(blk.Body, rs)
								}
							})
							c.Eval(1)
							if p {
								c.Violation("armor.Decode panics on armor.Encode output", map[string]any{"case": desc, "panic": fmt.Sprint(pv), "stack": st})
								continue
							}
							if derr != nil {
								c.Violation(decodeFailClass(h), map[string]any{"case": desc, "err": derr.Error(), "out": string(trunc(out))})
								break
							}
							if rerr2 != nil {
								c.Violation("reading the body of armor.Decode(armor.Encode(x)) fails", map[string]any{"case": desc, "read": rs, "err": rerr2.Error()})
								break
							}
							if blk.Type != typ {
								c.Violation("armor round trip changes the block type", map[string]any{"case": desc, "got": blk.Type})
							}
							if !sameHeaders(blk.Header, h.m) {
								c.Violation(headerLossClass(h, blk.Header), map[string]any{"case": desc, "got": blk.Header, "want": h.m})
							}
							if !bytes.Equal(got, body) {
								c.Violation("armor round trip changes the body", map[string]any{"case": desc, "read": rs, "gotlen": len(got)})
							}
						}
						if chunk == 0 && vi == 0 && n <= 200 {
							for pi, pre := range prefixes {
								var blk *armor.Block
								var derr, rerr2 error
								var got []byte
								p, pv, st := vf.Protect(func() {
									blk, derr = armor.Decode(bytes.NewReader(append([]byte(pre), out...)))
									if derr == nil {
										got, rerr2 = readChunks(blk.Body, reads[(n+pi)%len(reads)])
									}
								})
								c.Eval(1)
								switch {
								case p:
									c.Violation("armor.Decode panics on armor.Encode output behind leading lines", map[string]any{"case": desc, "prefix": pre, "panic": fmt.Sprint(pv), "stack": st})
								case derr != nil || rerr2 != nil:
									c.Violation("armor.Decode fails on armor.Encode output behind leading lines", map[string]any{"case": desc, "prefix": pre, "err": fmt.Sprint(derr, rerr2)})
								case blk.Type != typ || !sameHeaders(blk.Header, h.m) || !bytes.Equal(got, body):
									c.Violation("armor.Decode returns a different block for armor.Encode output behind leading lines", map[string]any{"case": desc, "prefix": pre, "type": blk.Type, "headers": blk.Header})
								}
							}
						}
						if n >= 1 {
							c.Nontrivial(fmt.Sprintf("A/%d/%s/%s", n, h.name, typ))
						}
						c.Outcome("armor round trip ok")
						if c.WantSample() && n == 49 && hi == 3 && ti == 0 && chunk == 0 && vi == 0 {
							c.Sample(map[string]any{"part": "A", "case": desc, "armored": string(out)})
						}
						if g != nil && chunk == 0 && vi == 0 && ti == 0 && hi < 4 && (c.Thorough || ((hi == 0 && n%5 == 0) || (hi > 0 && n%48 == 1) || n > 1000)) {
							mu.Lock()
							gpgJobs = append(gpgJobs, gpgJob{out, body, fmt.Sprint(desc)})
							mu.Unlock()
						}
					}
				}
			}
		}
	})

	// boundary sweep for long header lines: a space at every position around the decoder's 100-byte line buffer
	for pos := 80; pos <= 110; pos++ {
		v := strings.Repeat("x", pos) + " " + strings.Repeat("y", 30)
		h := map[string]string{"C": v}
		out, err := encodeArmor("PGP MESSAGE", h, []byte("abc"), 0)
		c.Eval(1)
		if err != nil {
			c.Violation("armor.Encode fails", err.Error())
			continue
		}
		blk, derr := armor.Decode(bytes.NewReader(out))
		if derr != nil {
			c.Violation("armor.Decode rejects armor.Encode output with a long header line", map[string]any{"pos": pos, "err": derr.Error()})
			continue
		}
		if blk.Header["C"] != v {
			if strings.ReplaceAll(blk.Header["C"], " ", "") == strings.ReplaceAll(v, " ", "") && len(blk.Header["C"]) == len(v)-1 {
				c.Violation("armor.Decode drops a space that falls on the 100-byte read boundary of a long header line", map[string]any{"space_at_line_offset": pos + 3, "got": blk.Header["C"]})
			} else {
				c.Violation("armor round trip changes a long header value", map[string]any{"pos": pos, "got": blk.Header["C"]})
			}
		}
		c.Nontrivial(fmt.Sprintf("A/longhdr/%d", pos))
	}
	// a header with an empty value
	{
		h := map[string]string{"Comment": ""}
		out, _ := encodeArmor("PGP MESSAGE", h, []byte("abc"), 0)
		c.Eval(1)
		blk, derr := armor.Decode(bytes.NewReader(out))
		if derr != nil {
			c.Violation("armor.Decode rejects a header with an empty value written by armor.Encode", map[string]any{"err": derr.Error(), "armored": string(out)})
		} else if v, ok := blk.Header["Comment"]; !ok || v != "" || len(blk.Header) != 1 {
			c.Violation("armor round trip changes an empty header value", blk.Header)
		}
	}

	// every key and value of up to 3 tokens over {a : space -} (keys non-empty and without ": ",
	// values without leading/trailing space): one header, then the same header next to a
	// second one; Encode -> Decode must return exactly the map written
	{
		toks := []string{"a", ":", " ", "-"}
		var strs []string
		var gen func(p string, d int)
		gen = func(p string, d int) {
			strs = append(strs, p)
			if d == 0 {
				return
			}
			for _, t := range toks {
				gen(p+t, d-1)
			}
		}
		gen("", 3)
		okKey := func(k string) bool {
			return k != "" && !strings.Contains(k, ": ") && !strings.HasPrefix(k, " ") && !strings.HasSuffix(k, " ") && !strings.HasPrefix(k, "-")
		}
		okVal := func(v string) bool { return !strings.HasPrefix(v, " ") && !strings.HasSuffix(v, " ") }
		var keys, vals []string
		for _, x := range strs {
			if okKey(x) {
				keys = append(keys, x)
			}
			if okVal(x) {
				vals = append(vals, x)
			}
		}
		type kv struct{ k, v string }
		var grid []kv
		for _, k := range keys {
			for _, v := range vals {
				grid = append(grid, kv{k, v})
			}
		}
		c.ParallelFor(len(grid), func(i int) {
			g := grid[i]
			for two := 0; two < 2; two++ {
				h := map[string]string{g.k: g.v}
				if two == 1 {
					if g.k == "Version" {
						continue
					}
					h["Version"] = "x: y:"
				}
				out, err := encodeArmor("PGP MESSAGE", h, []byte("abc"), 0)
				c.Eval(1)
				if err != nil {
					c.Violation("armor.Encode fails", err.Error())
					return
				}
				blk, derr := armor.Decode(bytes.NewReader(out))
				if derr != nil {
					c.Violation("armor.Decode rejects armor.Encode output [header token grid]", map[string]any{"key": g.k, "value": g.v, "err": derr.Error()})
					return
				}
				if !sameHeaders(blk.Header, h) || len(blk.Header) != len(h) {
					c.Violation("armor round trip changes the headers [header token grid]", map[string]any{"key": g.k, "value": g.v, "got": blk.Header})
					return
				}
				if body, err := readChunks(blk.Body, 0); err != nil || string(body) != "abc" {
					c.Violation("armor round trip changes the body [header token grid]", map[string]any{"key": g.k, "value": g.v, "err": fmt.Sprint(err)})
				}
			}
			c.Nontrivial("A/hdrgrid/" + g.k + "|" + g.v)
		})
	}

	if g == nil {
		return
	}
	// gpg --dearmor of Go output, gpg --enarmor output into Go
	c.ParallelFor(len(gpgJobs), func(i int) {
		j := gpgJobs[i]
		out, serr, err := g.Run(j.out, "--dearmor")
		c.Eval(1)
		for try := 0; try < 3 && (err != nil || !bytes.Equal(out, j.body)); try++ {
			out, serr, err = g.Run(j.out, "--dearmor") // a failure must be reproducible (external process on a shared machine)
		}
		if err != nil || !bytes.Equal(out, j.body) {
			c.Violation("gpg --dearmor does not return the body armored by armor.Encode", map[string]any{"case": j.desc, "err": fmt.Sprint(err), "stderr": string(trunc(serr)), "gotlen": len(out)})
		} else {
			c.Outcome("gpg dearmor ok")
		}
	})
	c.Add("gpg_dearmor_runs", int64(len(gpgJobs)))
	var enl []int
	for _, n := range lengths {
		if n <= 130 && (n > 4 && n%8 != 0) && !c.Thorough {
			continue // quick: lengths 0..4 and every multiple of 8
		}
		if n <= 10000 {
			enl = append(enl, n)
		}
	}
	c.ParallelFor(len(enl), func(i int) {
		n := enl[i]
		body := c.Bytes("enarmor-body", n, n)
		out, serr, err := g.Run(body, "--enarmor")
		c.Eval(1)
		for try := 0; try < 3 && err != nil; try++ {
			out, serr, err = g.Run(body, "--enarmor")
		}
		if err != nil {
			c.Capped("gpg --enarmor failed: " + string(trunc(serr)))
			return
		}
		var blk *armor.Block
		var derr, rerr error
		var got []byte
		if p, pv, _ := vf.Protect(func() {
			blk, derr = armor.Decode(bytes.NewReader(out))
			if derr == nil {
				got, rerr = readChunks(blk.Body, 0)
			}
		}); p {
			c.Violation("armor.Decode panics on gpg --enarmor output", fmt.Sprint(pv))
			return
		}
		if derr != nil || rerr != nil || !bytes.Equal(got, body) || blk.Type != "PGP ARMORED FILE" {
			c.Violation("armor.Decode does not return the body armored by gpg --enarmor", map[string]any{"len": n, "decode_err": fmt.Sprint(derr), "read_err": fmt.Sprint(rerr), "armored": string(trunc(out))})
		} else {
			c.Outcome("gpg enarmor -> Decode ok")
		}
	})
	c.Add("gpg_enarmor_runs", int64(len(enl)))
}

// armorLong (C): body lengths 2^k + {-1, 0, 1, 47, 48, 49} (48 octets = one armor line, 3 = one
// radix-64 quantum) for k = 12, 16, 20 (thorough also 22), written in one piece, in pieces of
// 65537 octets and in pieces of 4093 octets (piece boundaries cross the 2^k points and the
// encoder's 768-octet / 1024-character buffer), read back with io.ReadAll, 4096- and 57-octet
// reads. Oracle: reference encoder (byte for byte), reference decoder, body identity.
func armorLong(c *vf.Ctx) {
	ks := []int{12, 16, 20}
	if c.Thorough {
		ks = append(ks, 22)
	}
	var lengths []int
	for _, k := range ks {
		for _, d := range []int{-1, 0, 1, 47, 48, 49} {
			lengths = append(lengths, 1<<k+d)
		}
	}
	pool := c.Bytes("armor-long", 0, 1<<16+1)
	c.ParallelFor(len(lengths), func(li int) {
		n := lengths[li]
		body := make([]byte, n)
		for i := 0; i < n; i += len(pool) {
			copy(body[i:], pool)
		}
		want := pgpref.ArmorEncode("PGP MESSAGE", nil, body, 64)
		for _, chunk := range []int{0, 65537, 4093} {
			if chunk >= n && chunk != 0 {
				continue
			}
			desc := map[string]any{"len": n, "chunk": chunk}
			out, err := encodeArmor("PGP MESSAGE", nil, body, chunk)
			c.Eval(1)
			if err != nil {
				c.Violation("armor.Encode fails", map[string]any{"case": desc, "err": err.Error()})
				continue
			}
			if !bytes.Equal(out, want) {
				c.Violation("armor.Encode output differs from the reference encoding [long body]", map[string]any{"case": desc, "gotlen": len(out), "wantlen": len(want)})
				continue
			}
			for _, rs := range []int{0, 4096, 57} {
				var blk *armor.Block
				var derr, rerr error
				var got []byte
				p, pv, st := vf.Protect(func() {
					blk, derr = armor.Decode(bytes.NewReader(out))
					if derr == nil {
						got, rerr = readChunks(blk.Body, rs)
					}
				})
				c.Eval(1)
				switch {
				case p:
					c.Violation("armor.Decode panics on armor.Encode output", map[string]any{"case": desc, "panic": fmt.Sprint(pv), "stack": st})
				case derr != nil || rerr != nil:
					c.Violation("reading the body of armor.Decode(armor.Encode(x)) fails", map[string]any{"case": desc, "read": rs, "err": fmt.Sprint(derr, rerr)})
				case blk.Type != "PGP MESSAGE" || len(blk.Header) != 0 || !bytes.Equal(got, body):
					c.Violation("armor round trip changes the body", map[string]any{"case": desc, "read": rs, "gotlen": len(got)})
				}
			}
		}
		// one flipped bit in the middle of the long body: the CRC-24 must catch it
		if ra, err := pgpref.ArmorDecode(want); err != nil || !bytes.Equal(ra.Body, body) {
			c.Violation("reference codec does not round-trip a long body (harness)", map[string]any{"len": n, "err": fmt.Sprint(err)})
		}
		mut := append([]byte{}, want...)
		at := len(mut) / 2
		for mut[at] == '\n' {
			at++
		}
		if mut[at] == 'A' {
			mut[at] = 'B'
		} else {
			mut[at] = 'A'
		}
		blk, derr := armor.Decode(bytes.NewReader(mut))
		c.Eval(1)
		if derr == nil {
			got, rerr := readChunks(blk.Body, 4096)
			if rerr == nil {
				cls := "armored body with a CRC-24 mismatch is accepted with a DIFFERENT body"
				if bytes.Equal(got, body) {
					cls = "harness: mutated long body decodes to the same body"
				}
				c.Violation(cls, map[string]any{"len": n, "offset": at})
			}
		}
		c.Nontrivial(fmt.Sprintf("A/long/%d", n))
	})
	c.Set("armor_long_lengths", lengths)
}

func decodeFailClass(h hdrSet) string {
	return "armor.Decode rejects armor.Encode output [headers=" + h.name + "]"
}

func headerLossClass(h hdrSet, got map[string]string) string {
	return "armor round trip changes the headers [headers=" + h.name + "]"
}

func trunc(b []byte) []byte {
	if len(b) > 600 {
		return append(append([]byte{}, b[:600]...), "..."...)
	}
	return b
}

// ---------------------------------------------------------------- B

const b64 = "ABCDEFGHIJKLMNOPQRSTUVWXYZabcdefghijklmnopqrstuvwxyz0123456789+/"

func crcFaults(c *vf.Ctx) {
	lens := []int{1, 2, 3, 47, 48, 49, 96, 100}
	if c.Thorough {
		lens = append(lens, 4, 5, 6, 95, 97, 143, 144, 145, 300)
	}
	type job struct {
		n, off int
		sub    byte
		crc    bool
	}
	var jobs []job
	bodies := map[int][]byte{}
	armored := map[int][]byte{}
	crcOff := map[int]int{}
	for _, n := range lens {
		body := c.Bytes("crc-body", n, n)
		out, err := encodeArmor("PGP MESSAGE", nil, body, 0)
		if err != nil {
			c.Violation("armor.Encode fails", err.Error())
			return
		}
		bodies[n], armored[n] = body, out
		// locate the CRC line and the data characters with the reference knowledge of the layout
		i := bytes.Index(out, []byte("\n="))
		if i < 0 || !pgpref.WellFormedCRCLine(string(out[i+1:i+6])) {
			c.Violation("armor.Encode output has no well-formed CRC line", string(out))
			return
		}
		crcOff[n] = i + 1
		for k := 0; k < 5; k++ {
			for bit := 0; bit < 8; bit++ {
				jobs = append(jobs, job{n, i + 1 + k, out[i+1+k] ^ (1 << bit), true})
			}
		}
		start := bytes.Index(out, []byte("\n\n")) + 2
		for off := start; off < i; off++ {
			ch := out[off]
			if ch == '\n' {
				continue
			}
			seen := map[byte]bool{ch: true}
			add := func(s byte) {
				if !seen[s] {
					seen[s] = true
					jobs = append(jobs, job{n, off, s, false})
				}
			}
			if k := strings.IndexByte(b64, ch); k >= 0 {
				add(b64[(k+1)%64])
				add(b64[k^32])
			} else { // '=' padding
				add('A')
				add('B')
			}
			for bit := 0; bit < 8; bit++ {
				add(ch ^ (1 << bit))
			}
		}
	}
	c.ParallelFor(len(jobs), func(i int) {
		j := jobs[i]
		mut := append([]byte{}, armored[j.n]...)
		mut[j.off] = j.sub
		var blk *armor.Block
		var derr, rerr error
		var got []byte
		p, pv, st := vf.Protect(func() {
			blk, derr = armor.Decode(bytes.NewReader(mut))
			if derr == nil {
				got, rerr = readChunks(blk.Body, []int{0, 1, 5, 64}[i%4])
			}
		})
		c.Eval(1)
		detail := map[string]any{"len": j.n, "offset": j.off, "was": string(armored[j.n][j.off : j.off+1]), "now": string([]byte{j.sub}), "armored": string(mut)}
		if p {
			c.Violation("armor.Decode panics on a single-character fault", map[string]any{"case": detail, "panic": fmt.Sprint(pv), "stack": st})
			return
		}
		c.Nontrivial(fmt.Sprintf("B/%d/%d/%02x", j.n, j.off, j.sub))
		switch {
		case derr != nil:
			c.Outcome("fault: Decode error")
		case rerr != nil:
			c.Outcome("fault: body read error (" + errKind(rerr) + ")")
		default:
			same := bytes.Equal(got, bodies[j.n])
			if !same {
				c.Violation("armored body with a CRC-24 mismatch is accepted with a DIFFERENT body", detail)
				return
			}
			if j.crc {
				o := crcOff[j.n]
				line := string(mut[o : o+5])
				if pgpref.WellFormedCRCLine(line) {
					c.Violation("a well-formed CRC-24 line that does not match the body is accepted", detail)
					return
				}
				c.Outcome("fault: CRC line no longer well-formed, ignored, body identical")
			} else {
				// the changed character carried only unused padding bits (RFC 4880 does not forbid non-zero ones): same octets, same CRC
				ref, err := pgpref.ArmorDecode(mut)
				if err != nil || !bytes.Equal(ref.Body, bodies[j.n]) {
					c.Violation("faulted radix-64 character accepted although the reference decoder rejects the block", map[string]any{"case": detail, "ref_err": fmt.Sprint(err)})
					return
				}
				c.Outcome("fault: normalises away (unused radix-64 bits), body identical")
			}
		}
	})
	c.Add("crc_fault_cases", int64(len(jobs)))
	// special checksum VALUES (not reachable by single-character faults): the whole 24-bit value
	// replaced by 0, 2^24-1, 1, 2^23 and the byte-swapped real value - a well-formed checksum
	// line that does not match the body must be rejected whatever its value is
	for n, out := range armored {
		o := crcOff[n]
		real := string(out[o+1 : o+5])
		swapped := []byte(real)
		swapped[0], swapped[3] = swapped[3], swapped[0]
		for _, v := range []string{"AAAA", "////", "AAAB", "gAAA", string(swapped)} {
			if v == real {
				continue
			}
			mut := append([]byte{}, out...)
			copy(mut[o+1:o+5], v)
			var derr, rerr error
			p, pv, _ := vf.Protect(func() {
				var blk *armor.Block
				blk, derr = armor.Decode(bytes.NewReader(mut))
				if derr == nil {
					_, rerr = readChunks(blk.Body, 0)
				}
			})
			c.Eval(1)
			c.Nontrivial(fmt.Sprintf("B/value/%d/%s", n, v))
			if p {
				c.Violation("armor.Decode panics on a replaced checksum value", map[string]any{"len": n, "checksum": v, "panic": fmt.Sprint(pv)})
			} else if derr == nil && rerr == nil {
				c.Violation("a well-formed CRC-24 line that does not match the body is accepted", map[string]any{"len": n, "checksum_line": "=" + v, "real": "=" + real, "armored": string(mut)})
			}
		}
	}
}

func errKind(err error) string {
	s := err.Error()
	switch {
	case strings.Contains(s, "armor invalid"):
		return "armor invalid"
	case strings.Contains(s, "base64"):
		return "base64"
	case strings.Contains(s, "EOF"):
		return "unexpected EOF"
	}
	return "other"
}

// ---------------------------------------------------------------- C

type signer struct {
	name string
	ent  *openpgp.Entity
	pub  any // reference-parsed public key
}

func loadSigners(c *vf.Ctx) ([]signer, openpgp.EntityList) {
	var out []signer
	var ring openpgp.EntityList
	for _, n := range []string{"p256", "rsa", "dsa", "p384", "p521"} {
		el, err := openpgp.ReadArmoredKeyRing(bytes.NewReader(pgpfix.Sec(n)))
		if err != nil || len(el) != 1 {
			c.Violation("key generated by GnuPG is rejected by ReadArmoredKeyRing", map[string]any{"key": n, "err": fmt.Sprint(err)})
			return nil, nil
		}
		a, err := pgpref.ArmorDecode(pgpfix.Pub(n))
		if err != nil {
			panic(err)
		}
		ks, err := pgpref.ParseKeys(a.Body)
		if err != nil {
			panic(err)
		}
		out = append(out, signer{n, el[0], ks[0].Pub})
		ring = append(ring, el[0])
	}
	return out, ring
}

var hashNames = map[crypto.Hash]string{crypto.SHA1: "SHA1", crypto.SHA224: "SHA224", crypto.SHA256: "SHA256", crypto.SHA384: "SHA384", crypto.SHA512: "SHA512"}

// gpgAccepts reports whether GnuPG's policy admits (key, hash): (EC)DSA needs a hash at least as wide as the group order.
func gpgAccepts(key string, h crypto.Hash) bool {
	need := map[string]int{"rsa": 0, "dsa": 32, "p256": 32, "p384": 48, "p521": 64}[key]
	return h.Size() >= need
}

func clearsignGrammar(c *vf.Ctx, g *pgpfix.GPG) {
	signers, ring := loadSigners(c)
	if signers == nil {
		return
	}
	// line starts: the first six are the grammar of the design; the extras need dash-escaping
	// of an inner "- " and of the signature armor header itself
	starts := []string{"", "-", "- ", "-----", "From ", "text", "- x", "-----BEGIN PGP SIGNATURE-----"}
	starts3 := starts[:6] // three-line texts (quick): the six starts of the design grammar
	if c.Thorough {
		starts = append(starts, "-text", "- -", "-----BEGIN PGP SIGNED MESSAGE-----", "été")
		starts3 = starts
	}
	trails := []string{"", " ", "\t", " \t"}
	eols := []string{"\n", "\r\n"}
	type lineT struct {
		s      string
		simple bool // trailing whitespace in {none, " \t"}: the subset handed to gpg in quick mode
	}
	mk := func(starts []string) (inner, last []lineT) {
		for _, st := range starts {
			for ti, t := range trails {
				simple := ti == 0 || ti == 3
				for _, e := range eols {
					inner = append(inner, lineT{st + t + e, simple})
					last = append(last, lineT{st + t + e, simple})
				}
				last = append(last, lineT{st + t, simple})
			}
		}
		return
	}
	inner, last := mk(starts)
	inner3, last3 := mk(starts3)
	var texts []string
	var forGPG []bool
	for _, l := range last {
		texts = append(texts, l.s)
		forGPG = append(forGPG, true)
	}
	for _, a := range inner {
		for _, b := range last {
			texts = append(texts, a.s+b.s)
			forGPG = append(forGPG, c.Thorough || (a.simple && b.simple))
		}
	}
	two := len(texts)
	for _, a := range inner3 {
		for _, b := range inner3 {
			for _, d := range last3 {
				texts = append(texts, a.s+b.s+d.s)
				forGPG = append(forGPG, c.Thorough && len(texts)%64 == 3)
			}
		}
	}
	// C (long inputs): lines and whitespace runs around the 4096-octet bufio.Writer of the
	// encoder, a long run of trailing whitespace (buffered until the line ends), many lines
	grammar := len(texts)
	for _, n := range []int{4095, 4096, 4097, 1<<16 + 1} {
		x := strings.Repeat("x", n)
		sp := strings.Repeat(" \t", n/2)
		for _, t := range []string{x + "\n", "-" + x, x + "\r\n- tail", "a" + sp + "\nb\n", "a" + sp + "b\n", sp + "\n-\n"} {
			texts = append(texts, t)
			forGPG = append(forGPG, n <= 4097)
		}
	}
	texts = append(texts, strings.Repeat("- line \t\r\nFrom x\n\n", 400), strings.Repeat("\n", 5000), strings.Repeat("-\n", 3000))
	forGPG = append(forGPG, true, true, true)
	c.Set("clearsign_texts", map[string]int{"one_or_two_lines": two, "three_lines": grammar - two, "long": len(texts) - grammar})
	hashes := []crypto.Hash{crypto.SHA256, crypto.SHA512, crypto.SHA1, crypto.SHA384, crypto.SHA224}
	fixed := time.Unix(pgpfix.FixtureTime, 0)

	type gjob struct {
		idx int
		out []byte
	}
	var gj []gjob
	var mu sync.Mutex

	c.ParallelFor(len(texts), func(i int) {
		text := []byte(texts[i])
		// signer and hash: every (signer, hash) pair occurs among the <=2-line texts; 3-line texts mostly use the fast P-256 key
		var sg signer
		var h crypto.Hash
		if i < two {
			sg, h = signers[i%len(signers)], hashes[(i/len(signers))%len(hashes)]
		} else if i%64 == 5 {
			sg, h = signers[1+(i/64)%4], hashes[(i/256)%len(hashes)]
		} else {
			sg, h = signers[0], hashes[i%2]
		}
		cfg := &packet.Config{Rand: vf.NewRand(fmt.Sprintf("c46-%d-%d", c.Seed, i)), DefaultHash: h, Time: func() time.Time { return fixed }}
		desc := map[string]any{"text": string(trunc([]byte(texts[i]))), "textlen": len(texts[i]), "signer": sg.name, "hash": hashNames[h]}
		var out bytes.Buffer
		var encErr error
		if p, pv, st := vf.Protect(func() {
			w, err := clearsign.Encode(&out, sg.ent.PrivateKey, cfg)
			if err != nil {
				encErr = err
				return
			}
			// every Write gets a private copy that is overwritten when Write returns (A); the text
			// is written whole / octet by octet / in two pieces cut at position (i/3) mod (len+1)
			switch i % 3 {
			case 0:
				encErr = ownedWrite(w, text)
			case 1:
				for k := range text {
					if encErr = ownedWrite(w, text[k:k+1]); encErr != nil {
						break
					}
				}
			default:
				cut := (i / 3) % (len(text) + 1)
				if encErr = ownedWrite(w, text[:cut]); encErr == nil {
					encErr = ownedWrite(w, text[cut:])
				}
			}
			if encErr == nil {
				encErr = w.Close()
			}
		}); p {
			c.Violation("clearsign.Encode panics", map[string]any{"case": desc, "panic": fmt.Sprint(pv), "stack": st})
			return
		}
		c.Eval(1)
		if encErr != nil {
			c.Violation("clearsign.Encode fails", map[string]any{"case": desc, "err": encErr.Error()})
			return
		}
		msg := out.Bytes()
		lines := pgpref.CleartextLines(text)
		wantSigned := pgpref.CleartextSigned(lines)
		wantPlain := pgpref.CleartextPlain(lines)

		// 1. reference view of the encoder's output
		ct, err := pgpref.ParseCleartext(msg)
		if err != nil {
			c.Violation("clearsign.Encode output is not a well-formed cleartext message (RFC 4880 section 7): "+classOf(err), map[string]any{"case": desc, "err": err.Error(), "msg": string(msg)})
			return
		}
		if !sameLines(ct.Lines, lines) {
			c.Violation("clearsign.Encode output carries different text lines than the canonicalised plaintext", map[string]any{"case": desc, "msg": string(msg), "want": fmt.Sprintf("%q", lines), "got": fmt.Sprintf("%q", ct.Lines)})
			return
		}
		if len(ct.Hashes) != 1 || ct.Hashes[0] != hashNames[h] {
			c.Violation("clearsign.Encode writes a wrong Hash header", map[string]any{"case": desc, "got": ct.Hashes})
		}
		ra, err := pgpref.ArmorDecode(ct.Armor)
		if err != nil || ra.Type != "PGP SIGNATURE" {
			c.Violation("signature armor of clearsign.Encode rejected by the reference decoder", map[string]any{"case": desc, "err": fmt.Sprint(err)})
			return
		}
		pk, err := pgpref.SplitPackets(ra.Body)
		if err != nil || len(pk) != 1 || pk[0].Tag != 2 {
			c.Violation("signature armor of clearsign.Encode does not hold exactly one signature packet", map[string]any{"case": desc, "err": fmt.Sprint(err)})
			return
		}
		rs, err := pgpref.ParseSigV4(pk[0].Body)
		if err != nil {
			c.Violation("signature packet of clearsign.Encode rejected by the reference parser", map[string]any{"case": desc, "err": err.Error()})
			return
		}
		if rs.Type != 1 {
			c.Violation("cleartext signature is not of type 0x01 (canonical text)", map[string]any{"case": desc, "type": rs.Type})
		}
		if err := rs.Verify(sg.pub, wantSigned); err != nil {
			c.Violation("cleartext signature does not verify over the canonicalised text (reference RFC 4880 5.2.4 verifier)", map[string]any{"case": desc, "err": err.Error(), "msg": string(msg)})
			return
		}

		// 2. the package's decoder
		var b *clearsign.Block
		var rest []byte
		if p, pv, st := vf.Protect(func() { b, rest = clearsign.Decode(msg) }); p {
			c.Violation("clearsign.Decode panics on clearsign.Encode output", map[string]any{"case": desc, "panic": fmt.Sprint(pv), "stack": st})
			return
		}
		if b == nil {
			c.Violation("clearsign.Decode does not find the message written by clearsign.Encode", map[string]any{"case": desc, "msg": string(msg)})
			return
		}
		if len(rest) != 0 {
			c.Violation("clearsign.Decode leaves a rest after a complete message", map[string]any{"case": desc, "rest": string(rest)})
		}
		if !bytes.Equal(b.Plaintext, wantPlain) {
			c.Violation("clearsign.Decode Plaintext is not the canonicalised plaintext with dash-escaping undone", map[string]any{"case": desc, "got": string(b.Plaintext), "want": string(wantPlain), "msg": string(msg)})
			return
		}
		if !bytes.Equal(b.Bytes, wantSigned) {
			c.Violation("clearsign.Decode Bytes is not the canonical signed text", map[string]any{"case": desc, "got": string(b.Bytes), "want": string(wantSigned)})
			return
		}
		if got := b.Headers.Get("Hash"); got != hashNames[h] {
			c.Violation("clearsign.Decode returns a wrong Hash header", map[string]any{"case": desc, "got": got})
		}
		var who *openpgp.Entity
		var verr error
		if p, pv, st := vf.Protect(func() {
			who, verr = openpgp.CheckDetachedSignature(ring, bytes.NewReader(b.Bytes), b.ArmoredSignature.Body)
		}); p {
			c.Violation("CheckDetachedSignature panics on a clearsign block", map[string]any{"case": desc, "panic": fmt.Sprint(pv), "stack": st})
			return
		}
		if verr != nil || who != sg.ent {
			c.Violation("embedded signature of clearsign.Decode(clearsign.Encode(x)) does not verify", map[string]any{"case": desc, "err": fmt.Sprint(verr), "msg": string(msg)})
			return
		}
		// D: the same message behind other text and followed by more text (Decode skips to the
		// first message and returns the suffix); Decode only reads its input
		{
			const pre, post = "-----BEGIN PGP MESSAGE-----\nnot this one\n\nsome text\n", "trailing text\n-----BEGIN PGP SIGNED MESSAGE-----\n"
			in := append(append([]byte(pre), msg...), post...)
			keep := append([]byte{}, in...)
			var b2 *clearsign.Block
			var rest2 []byte
			if p, pv, st := vf.Protect(func() { b2, rest2 = clearsign.Decode(in) }); p {
				c.Violation("clearsign.Decode panics on clearsign.Encode output", map[string]any{"case": desc, "panic": fmt.Sprint(pv), "stack": st, "embedded": true})
				return
			}
			switch {
			case b2 == nil:
				c.Violation("clearsign.Decode does not find the message written by clearsign.Encode when other text precedes it", map[string]any{"case": desc})
			case !bytes.Equal(b2.Plaintext, wantPlain) || !bytes.Equal(b2.Bytes, wantSigned):
				c.Violation("clearsign.Decode returns a different text when other text precedes the message", map[string]any{"case": desc, "got": string(b2.Plaintext)})
			case string(rest2) != post:
				c.Violation("clearsign.Decode returns a wrong rest", map[string]any{"case": desc, "rest": string(trunc(rest2))})
			}
			if !bytes.Equal(in, keep) {
				c.Violation("clearsign.Decode writes to its input", map[string]any{"case": desc})
			}
		}
		if len(texts[i]) <= 200 {
			c.Nontrivial("C/" + texts[i])
		} else {
			c.Nontrivial(fmt.Sprintf("C/long/%d", i))
		}
		c.Outcome(fmt.Sprintf("clearsign ok (%d lines)", len(lines)))
		if c.WantSample() && i == len(last)+3*len(last)+7 {
			c.Sample(map[string]any{"part": "C", "case": desc, "message": string(msg)})
		}
		if g != nil && forGPG[i] && gpgAccepts(sg.name, h) {
			mu.Lock()
			gj = append(gj, gjob{i, append([]byte{}, msg...)})
			mu.Unlock()
		}
	})

	if g == nil || len(gj) == 0 {
		return
	}
	sort.Slice(gj, func(a, b int) bool { return gj[a].idx < gj[b].idx })
	// gpg --verify-files in batches; gpg stops at the first bad signature, so resume after it
	const batch = 400
	nb := (len(gj) + batch - 1) / batch
	c.ParallelFor(nb, func(bi int) {
		lo, hi := bi*batch, (bi+1)*batch
		if hi > len(gj) {
			hi = len(gj)
		}
		files := make([]string, 0, hi-lo)
		for k := lo; k < hi; k++ {
			files = append(files, g.File(fmt.Sprintf("cs%d", gj[k].idx), gj[k].out))
		}
		pos := 0
		for pos < len(files) {
			args := append([]string{"--status-fd", "1", "--verify-files"}, files[pos:]...)
			out, serr, _ := g.Run(nil, args...)
			good, cur, advanced := false, -1, 0
			for _, ln := range strings.Split(string(out), "\n") {
				switch {
				case strings.HasPrefix(ln, "[GNUPG:] FILE_START"):
					cur++
					good = false
				case strings.HasPrefix(ln, "[GNUPG:] GOODSIG"):
					good = true
				case strings.HasPrefix(ln, "[GNUPG:] FILE_DONE"):
					c.Eval(1)
					if good {
						c.Outcome("gpg --verify ok")
					} else if j := gj[lo+pos+cur]; verifyAlone(g, files[pos+cur]) {
						c.Outcome("gpg --verify ok (on retry)")
					} else {
						c.Violation("gpg does not verify the cleartext message written by clearsign.Encode", map[string]any{"text": texts[j.idx], "msg": string(j.out)})
					}
					advanced = cur + 1
				}
			}
			if advanced < len(files)-pos && cur >= advanced {
				// gpg aborted inside file number cur (BADSIG or parse failure)
				j := gj[lo+pos+cur]
				c.Eval(1)
				if verifyAlone(g, files[pos+cur]) {
					c.Outcome("gpg --verify ok (on retry)")
				} else {
					c.Violation("gpg does not verify the cleartext message written by clearsign.Encode", map[string]any{"text": texts[j.idx], "msg": string(j.out), "status": string(trunc(out)), "stderr": string(trunc(serr))})
				}
				advanced = cur + 1
			}
			if advanced == 0 {
				c.Capped("gpg --verify-files produced no status output: " + string(trunc(serr)))
				return
			}
			pos += advanced
		}
	})
	c.Add("gpg_verified_cleartext_messages", int64(len(gj)))
}

// verifyAlone: a gpg failure must be reproducible (gpg is an external process on a shared machine):
// the same file is handed to a gpg process of its own up to three times.
func verifyAlone(g *pgpfix.GPG, file string) bool {
	for try := 0; try < 3; try++ {
		out, _, _ := g.Run(nil, "--status-fd", "1", "--verify", file)
		if strings.Contains(string(out), "[GNUPG:] GOODSIG") && !strings.Contains(string(out), "BADSIG") {
			return true
		}
	}
	return false
}

func classOf(err error) string {
	s := err.Error()
	if i := strings.IndexByte(s, ':'); i > 0 {
		s = s[:i]
	}
	return s
}

func sameLines(a, b [][]byte) bool {
	if len(a) != len(b) {
		return false
	}
	for i := range a {
		if !bytes.Equal(a[i], b[i]) {
			return false
		}
	}
	return true
}

// ---------------------------------------------------------------- D

// gpgCleartextFixtures: cleartext messages produced by GnuPG 2.2.40 (committed fixtures; GnuPG also
// dash-escapes "From " lines) are decoded by clearsign.Decode to the canonical text and verify.
func gpgCleartextFixtures(c *vf.Ctx) {
	signers, ring := loadSigners(c)
	if signers == nil {
		return
	}
	lines := pgpref.CleartextLines(pgpfix.Plain())
	for _, sg := range signers {
		msg := pgpfix.Msg("clear." + sg.name + ".asc")
		// prefix and trailing data must be skipped / returned
		for vi, in := range [][]byte{msg, append([]byte("junk before\n\n"), append(append([]byte{}, msg...), "trailing text\n"...)...)} {
			var b *clearsign.Block
			var rest []byte
			c.Eval(1)
			if p, pv, st := vf.Protect(func() { b, rest = clearsign.Decode(in) }); p {
				c.Violation("clearsign.Decode panics on a GnuPG cleartext message", map[string]any{"signer": sg.name, "panic": fmt.Sprint(pv), "stack": st})
				continue
			}
			if b == nil {
				c.Violation("clearsign.Decode does not find a GnuPG cleartext message", map[string]any{"signer": sg.name, "variant": vi})
				continue
			}
			if !bytes.Equal(b.Plaintext, pgpref.CleartextPlain(lines)) || !bytes.Equal(b.Bytes, pgpref.CleartextSigned(lines)) {
				c.Violation("clearsign.Decode of a GnuPG cleartext message does not return the canonical text with dash-escaping undone", map[string]any{"signer": sg.name, "got": string(b.Plaintext)})
				continue
			}
			if vi == 1 && string(rest) != "trailing text\n" {
				c.Violation("clearsign.Decode returns a wrong rest", map[string]any{"signer": sg.name, "rest": string(rest)})
			}
			who, err := openpgp.CheckDetachedSignature(ring, bytes.NewReader(b.Bytes), b.ArmoredSignature.Body)
			if err != nil || who != sg.ent {
				c.Violation("signature of a GnuPG cleartext message does not verify after clearsign.Decode", map[string]any{"signer": sg.name, "err": fmt.Sprint(err)})
				continue
			}
			c.Nontrivial(fmt.Sprintf("D/%s/%d", sg.name, vi))
			c.Outcome("gpg cleartext fixture decoded and verified")
		}
	}
}
