// C24: SSH wire encoding round-trips and parsing is total.
//
// Real code: ssh.Marshal / ssh.Unmarshal (reflection codec), the packet decoder
// `decode`, and the mpint/string/name-list primitives of ssh/messages.go.
// Oracle: verif/ref/sshwire, an RFC 4251 codec written from the RFC text.
//
// Enumerated (see c.Rule): every message struct of messages.go and a set of ad hoc
// structs covering every supported field kind x per-field value alphabet sweeps
// (round trip, byte-exact encoding); an mpint grid over every bit length with
// +-1 offsets and both signs; a prefix-length x mpint-length grid (buffer growth in
// marshalStruct); and, for totality, every byte string of length <= 3 plus every
// truncation, every value of every length-prefix byte, whole-length substitutions,
// byte flips, all 256 type bytes and trailing bytes of every sampled valid encoding,
// each compared with the reference decoder's accept/reject decision and values.
package main

import (
	"bytes"
	"fmt"
	"go/ast"
	"go/parser"
	"go/token"
	"math/big"
	"os"
	"path/filepath"
	"reflect"
	"runtime/pprof"
	"sort"
	"strconv"
	"strings"
	"time"

	"golang.org/x/crypto/ssh"
	"verif/ref/sshwire"
	"verif/vf"
)

func main() { vf.Main("C24", vf.FaultEnumeration, run) }

// ---------------------------------------------------------------------------------
// struct descriptions

type msgInfo struct {
	name      string
	typ       reflect.Type
	tags      []byte // accepted type bytes (from the sshtype tag of field 0); nil = untagged
	layout    []sshwire.Field
	fields    []int // struct field index of each layout entry
	synthetic bool
	// roundTrips is false for layouts that cannot round trip by construction (a rest
	// field that is not last swallows the following fields on decode).
	roundTrips bool
	// otherEnc: reference encoding of base assignment 1, marshalled after every round trip's
	// Marshal call to see that an earlier result is not overwritten by a later call
	otherVals []sshwire.Value
	otherEnc  []byte
}

var bigIntPtr = reflect.TypeOf((*big.Int)(nil))

// layoutOf maps Go field types to RFC 4251 types the way the package documentation
// describes the correspondence. ok=false: the struct has a field kind the codec does
// not support.
func layoutOf(t reflect.Type) (layout []sshwire.Field, idx []int, ok bool) {
	for i := 0; i < t.NumField(); i++ {
		ft := t.Field(i)
		var f sshwire.Field
		switch ft.Type.Kind() {
		case reflect.Bool:
			f.Kind = sshwire.Bool
		case reflect.Uint8:
			f.Kind = sshwire.Byte
		case reflect.Uint32:
			f.Kind = sshwire.Uint32
		case reflect.Uint64:
			f.Kind = sshwire.Uint64
		case reflect.String:
			f.Kind = sshwire.String
		case reflect.Array:
			if ft.Type.Elem().Kind() != reflect.Uint8 {
				return nil, nil, false
			}
			f.Kind, f.N = sshwire.Fixed, ft.Type.Len()
		case reflect.Slice:
			switch ft.Type.Elem().Kind() {
			case reflect.Uint8:
				if ft.Tag.Get("ssh") == "rest" {
					f.Kind = sshwire.Rest
				} else {
					f.Kind = sshwire.String
				}
			case reflect.String:
				f.Kind = sshwire.NameList
			default:
				return nil, nil, false
			}
		case reflect.Ptr:
			if ft.Type != bigIntPtr {
				return nil, nil, false
			}
			f.Kind = sshwire.Mpint
		default:
			return nil, nil, false
		}
		layout = append(layout, f)
		idx = append(idx, i)
	}
	return layout, idx, true
}

func tagsOf(t reflect.Type) []byte {
	if t.NumField() == 0 {
		return nil
	}
	s := t.Field(0).Tag.Get("sshtype")
	if s == "" {
		return nil
	}
	var out []byte
	for _, p := range strings.Split(s, "|") {
		if n, err := strconv.Atoi(p); err == nil {
			out = append(out, byte(n))
		}
	}
	return out
}

func describe(ptr interface{}, synthetic bool) (msgInfo, bool) {
	t := reflect.TypeOf(ptr).Elem()
	layout, idx, ok := layoutOf(t)
	if !ok {
		return msgInfo{}, false
	}
	mi := msgInfo{name: t.Name(), typ: t, tags: tagsOf(t), layout: layout, fields: idx, synthetic: synthetic, roundTrips: true}
	for i, f := range layout {
		if f.Kind == sshwire.Rest && i != len(layout)-1 {
			mi.roundTrips = false
		}
	}
	return mi, true
}

const (
	spareCap  = 8
	sentinelB = 0xA5
	sentinelS = "\x00SENTINEL"
)

// ownedBytes returns a private copy of b with spareCap sentinel bytes of spare capacity.
func ownedBytes(b []byte) []byte {
	out := make([]byte, len(b), len(b)+spareCap)
	copy(out, b)
	tail := out[len(b):cap(out)]
	for i := range tail {
		tail[i] = sentinelB
	}
	return out
}

// fill builds a new *struct holding vals. Every slice is a private copy with spare
// capacity that holds sentinels (Marshal reads the argument, it never appends to it);
// mpint fields whose model values are the same *big.Int share one *big.Int in the struct
// as well (a value used twice in a message, or in two messages).
func (mi *msgInfo) fill(vals []sshwire.Value) reflect.Value {
	p := reflect.New(mi.typ)
	s := p.Elem()
	var shared map[*big.Int]*big.Int
	for i, f := range mi.layout {
		fv := s.Field(mi.fields[i])
		v := vals[i]
		switch f.Kind {
		case sshwire.Byte, sshwire.Uint32, sshwire.Uint64:
			fv.SetUint(v.U)
		case sshwire.Bool:
			fv.SetBool(v.Flag)
		case sshwire.String:
			if fv.Kind() == reflect.String {
				fv.SetString(string(v.B))
			} else {
				fv.SetBytes(ownedBytes(v.B))
			}
		case sshwire.Rest:
			fv.SetBytes(ownedBytes(v.B))
		case sshwire.Fixed:
			for j := 0; j < f.N; j++ {
				fv.Index(j).SetUint(uint64(v.B[j]))
			}
		case sshwire.Mpint:
			if shared == nil {
				shared = map[*big.Int]*big.Int{}
			}
			n := shared[v.Int]
			if n == nil {
				n = new(big.Int).Set(v.Int)
				shared[v.Int] = n
			}
			fv.Set(reflect.ValueOf(n))
		case sshwire.NameList:
			l := make([]string, len(v.Names), len(v.Names)+2)
			copy(l, v.Names)
			l[:cap(l)][len(l)], l[:cap(l)][len(l)+1] = sentinelS, sentinelS
			fv.Set(reflect.ValueOf(l).Convert(fv.Type()))
		}
	}
	return p
}

// intact reports what Marshal changed in its argument p (filled from vals): a field
// value, or a sentinel in the spare capacity of a slice.
func (mi *msgInfo) intact(p reflect.Value, vals []sshwire.Value) string {
	if ok, i := valsEqual(mi.layout, vals, mi.read(p)); !ok {
		return "field " + mi.typ.Field(mi.fields[i]).Name + " changed"
	}
	s := p.Elem()
	for i, f := range mi.layout {
		fv := s.Field(mi.fields[i])
		switch {
		case (f.Kind == sshwire.String || f.Kind == sshwire.Rest) && fv.Kind() == reflect.Slice:
			b := fv.Bytes()
			if cap(b) != len(b)+spareCap {
				return "field " + mi.typ.Field(mi.fields[i]).Name + " was re-sliced"
			}
			for _, x := range b[len(b):cap(b)] {
				if x != sentinelB {
					return "spare capacity of field " + mi.typ.Field(mi.fields[i]).Name + " was written to"
				}
			}
		case f.Kind == sshwire.NameList:
			if fv.Cap() != fv.Len()+2 {
				return "field " + mi.typ.Field(mi.fields[i]).Name + " was re-sliced"
			}
			full := fv.Slice(0, fv.Cap())
			if full.Index(fv.Len()).String() != sentinelS || full.Index(fv.Len()+1).String() != sentinelS {
				return "spare capacity of field " + mi.typ.Field(mi.fields[i]).Name + " was written to"
			}
		}
	}
	return ""
}

// clobber overwrites everything the struct points to (the caller reuses its buffers as
// soon as Marshal has returned).
func (mi *msgInfo) clobber(p reflect.Value) {
	s := p.Elem()
	for i, f := range mi.layout {
		fv := s.Field(mi.fields[i])
		switch f.Kind {
		case sshwire.String, sshwire.Rest:
			if fv.Kind() == reflect.Slice {
				b := fv.Bytes()
				b = b[:cap(b)]
				for j := range b {
					b[j] ^= 0xFF
				}
			}
		case sshwire.Mpint:
			if !fv.IsNil() {
				n := fv.Interface().(*big.Int)
				for j, w := range n.Bits() {
					n.Bits()[j] = ^w
				}
				n.SetInt64(-0x5a5a5a)
			}
		case sshwire.NameList:
			for j := 0; j < fv.Len(); j++ {
				fv.Index(j).SetString("clobbered,")
			}
		}
	}
}

// read extracts the field values of a *struct.
func (mi *msgInfo) read(p reflect.Value) []sshwire.Value {
	s := p.Elem()
	vals := make([]sshwire.Value, len(mi.layout))
	for i, f := range mi.layout {
		fv := s.Field(mi.fields[i])
		switch f.Kind {
		case sshwire.Byte, sshwire.Uint32, sshwire.Uint64:
			vals[i].U = fv.Uint()
		case sshwire.Bool:
			vals[i].Flag = fv.Bool()
		case sshwire.String:
			if fv.Kind() == reflect.String {
				vals[i].B = []byte(fv.String())
			} else {
				vals[i].B = fv.Bytes()
			}
		case sshwire.Rest:
			vals[i].B = fv.Bytes()
		case sshwire.Fixed:
			b := make([]byte, f.N)
			for j := range b {
				b[j] = byte(fv.Index(j).Uint())
			}
			vals[i].B = b
		case sshwire.Mpint:
			if !fv.IsNil() {
				vals[i].Int = fv.Interface().(*big.Int)
			}
		case sshwire.NameList:
			n := fv.Len()
			vals[i].Names = make([]string, n)
			for j := 0; j < n; j++ {
				vals[i].Names[j] = fv.Index(j).String()
			}
		}
	}
	return vals
}

// hasOwnedField: some field is a string, name-list or mpint (copied out of the packet).
func (mi *msgInfo) hasOwnedField() bool {
	for i, f := range mi.layout {
		switch f.Kind {
		case sshwire.Mpint, sshwire.NameList:
			return true
		case sshwire.String:
			if mi.typ.Field(mi.fields[i]).Type.Kind() == reflect.String {
				return true
			}
		}
	}
	return false
}

// refEncode is the specification's encoding of a message: type byte (first tag) + fields.
func (mi *msgInfo) refEncode(vals []sshwire.Value) (enc []byte, lenOffs []int) {
	body, offs := sshwire.Encode(mi.layout, vals)
	if len(mi.tags) > 0 {
		enc = append([]byte{mi.tags[0]}, body...)
		for _, o := range offs {
			lenOffs = append(lenOffs, o+1)
		}
		return enc, lenOffs
	}
	return body, offs
}

// refDecode is the specification of Unmarshal: non-empty input, first byte one of
// the (non-zero) tags when the struct is tagged, all fields present, no trailing bytes.
func (mi *msgInfo) refDecode(data []byte) ([]sshwire.Value, error) {
	if len(data) == 0 {
		return nil, fmt.Errorf("empty packet")
	}
	if len(mi.tags) > 0 {
		ok := false
		for _, t := range mi.tags {
			if t != 0 && t == data[0] {
				ok = true
			}
		}
		if !ok {
			return nil, fmt.Errorf("wrong message type %d", data[0])
		}
		data = data[1:]
	}
	return sshwire.Decode(mi.layout, data)
}

func valsEqual(layout []sshwire.Field, a, b []sshwire.Value) (bool, int) {
	for i, f := range layout {
		if !sshwire.Equal(f, a[i], b[i]) {
			return false, i
		}
	}
	return true, -1
}

// ---------------------------------------------------------------------------------
// ad hoc structs: every supported field kind, tag variants, named field types

type namedU32 uint32
type namedStr string
type namedBytes []byte
type namedBool bool
type namedList []string

type synAllKinds struct {
	Flag  bool `sshtype:"201"`
	Arr   [4]byte
	U64   uint64
	U32   uint32
	U8    uint8
	Str   string
	Blob  []byte
	Names []string
	Int   *big.Int
	Tail  []byte `ssh:"rest"`
}

type synNoTag struct {
	A uint32
	B string
}

type synMultiTag struct {
	S string `sshtype:"7|9"`
	N *big.Int
}

// (tagged, so that the encoding is never empty: an untagged struct whose only field is an
// empty rest field marshals to zero bytes, a degenerate case no SSH message has)
type synRestOnly struct {
	R []byte `sshtype:"7" ssh:"rest"`
}

type synMpints struct {
	E *big.Int
	N *big.Int
	R []byte `ssh:"rest"`
}

type synSig struct {
	R *big.Int
	S *big.Int
}

type synNamed struct {
	Reason namedU32 `sshtype:"92"`
	Text   namedStr
	Data   namedBytes
	Ok     namedBool
	List   namedList
}

type synBytesOnly struct {
	A uint8 `sshtype:"255"`
	B uint8
	C [1]byte
	D [0]byte
}

type synGrow struct {
	S string
	N *big.Int
	T string
}

// rest field that is not last (ssh/keys.go marshals such a struct for SK signatures)
type synRestMid struct {
	Digest  []byte `ssh:"rest"`
	Flags   byte
	Counter uint32
	Msg     []byte `ssh:"rest"`
}

// every field kind as the LAST field of a struct and as the last field before a rest field:
// a short read of the final field is masked by nothing (no later field reports it)
type synLastU64 struct {
	A uint8 `sshtype:"210"`
	V uint64
}
type synLastU64Rest struct {
	A uint8 `sshtype:"211"`
	V uint64
	R []byte `ssh:"rest"`
}
type synLastU32 struct {
	A uint8 `sshtype:"212"`
	V uint32
}
type synLastU32Rest struct {
	A uint8 `sshtype:"213"`
	V uint32
	R []byte `ssh:"rest"`
}
type synLastBool struct {
	A uint32 `sshtype:"214"`
	V bool
}
type synLastArr struct {
	A uint8 `sshtype:"215"`
	V [16]byte
}
type synLastStr struct {
	A uint64 `sshtype:"216"`
	V string
}
type synLastBlob struct {
	A uint64 `sshtype:"217"`
	V []byte
}
type synLastNames struct {
	A uint8 `sshtype:"218"`
	V []string
}
type synLastInt struct {
	A uint8 `sshtype:"219"`
	V *big.Int
}
type synLastU64x2 struct {
	A uint64 `sshtype:"220"`
	V uint64
}

// field kinds the codec does not support: Unmarshal must return an error, never panic
type badInt struct{ A int }
type badSliceInt struct {
	A uint32
	B []int
}
type badPtr struct{ A *int }
type badArr struct{ A [2]uint16 }
type badFloat struct {
	S string
	F float64
}
type badNested struct{ A struct{ B uint32 } }

// ---------------------------------------------------------------------------------
// value alphabets

type alphabet struct {
	c       *vf.Ctx
	mpints  []*big.Int
	strings [][]byte
	lists   [][]string
}

func pow2(k int) *big.Int { return new(big.Int).Lsh(big.NewInt(1), uint(k)) }

// mpintGrid: for every bit position k in ks: 2^k-1, 2^k, 2^k+1 and their negations,
// plus seeded values of every byte length 1..maxLen with the leading byte forced into
// each sign/padding class.
func mpintGrid(c *vf.Ctx, ks []int, maxLen int) []*big.Int {
	seen := map[string]bool{}
	var out []*big.Int
	add := func(n *big.Int) {
		k := n.String()
		if !seen[k] {
			seen[k] = true
			out = append(out, n)
		}
	}
	add(big.NewInt(0))
	for _, k := range ks {
		p := pow2(k)
		for _, d := range []int64{-1, 0, 1} {
			v := new(big.Int).Add(p, big.NewInt(d))
			add(v)
			add(new(big.Int).Neg(v))
		}
	}
	for l := 1; l <= maxLen; l++ {
		for vi := 0; vi < c.V(); vi++ {
			raw := c.Bytes("mpint", l*16+vi, l)
			for _, lead := range []int{-1, 0x00, 0x01, 0x7f, 0x80, 0xff} {
				b := append([]byte(nil), raw...)
				if lead >= 0 {
					b[0] = byte(lead)
				}
				v := new(big.Int).SetBytes(b)
				add(v)
				add(new(big.Int).Neg(v))
			}
		}
	}
	return out
}

func newAlphabet(c *vf.Ctx) *alphabet {
	a := &alphabet{c: c}
	var ks []int
	top := 136
	if c.Thorough {
		top = 1100
	}
	for k := 0; k <= top; k++ {
		ks = append(ks, k)
	}
	for _, k := range []int{255, 256, 257, 511, 512, 513, 1023, 1024, 1025, 2047, 2048, 2049, 4095, 4096, 8191, 8192} {
		if k > top {
			ks = append(ks, k)
		}
	}
	maxLen := 40
	if c.Thorough {
		maxLen = 130
	}
	a.mpints = mpintGrid(c, ks, maxLen)

	a.strings = [][]byte{{}, []byte("a"), {0}, []byte("a,b"), {0xff, 0xfe}, []byte("ssh-connection"), {0, 0, 0, 1, 'x'}, []byte(",")}
	for _, n := range []int{255, 256, 257, 65535, 65536} {
		a.strings = append(a.strings, c.Bytes("str", n, n))
	}
	for i := 0; i < c.V(); i++ {
		a.strings = append(a.strings, c.Bytes("strv", i, 5+i*11))
	}

	// name-lists: every tuple of length 0..3 over the alphabet (duplicates included);
	// RFC 4251: a name is non-empty and contains no comma.
	names := []string{"a", "none", "zlib@openssh.com", "x-y"}
	a.lists = append(a.lists, []string{})
	for _, x := range names {
		a.lists = append(a.lists, []string{x})
		for _, y := range names {
			a.lists = append(a.lists, []string{x, y})
			for _, z := range names {
				a.lists = append(a.lists, []string{x, y, z})
			}
		}
	}
	// empty entries are "entries without commas" too; only the one-element list [""] is left
	// out: it has the same encoding as the empty list, so it cannot round-trip by construction
	a.lists = append(a.lists, []string{"", "a"}, []string{"a", ""}, []string{"", "", "a"}, []string{"a", "", "none"}, []string{"", ""}, []string{"", "a", ""})
	return a
}

func (a *alphabet) values(f sshwire.Field, label string) []sshwire.Value {
	var out []sshwire.Value
	switch f.Kind {
	case sshwire.Byte:
		for _, u := range []uint64{0, 1, 0x7f, 0x80, 0xff, ','} {
			out = append(out, sshwire.Value{U: u})
		}
	case sshwire.Bool:
		out = []sshwire.Value{{Flag: false}, {Flag: true}}
	case sshwire.Uint32:
		for _, u := range []uint64{0, 1, 0xff, 0x100, 0x7fffffff, 0x80000000, 0xffffffff, 0x01020304} {
			out = append(out, sshwire.Value{U: u})
		}
		for i := 0; i < a.c.V(); i++ {
			b := a.c.Bytes(label+"u32", i, 4)
			out = append(out, sshwire.Value{U: uint64(b[0])<<24 | uint64(b[1])<<16 | uint64(b[2])<<8 | uint64(b[3])})
		}
	case sshwire.Uint64:
		for _, u := range []uint64{0, 1, 1<<32 - 1, 1 << 32, 1<<63 - 1, 1 << 63, 1<<64 - 1, 0x0102030405060708} {
			out = append(out, sshwire.Value{U: u})
		}
	case sshwire.String, sshwire.Rest:
		for _, s := range a.strings {
			out = append(out, sshwire.Value{B: s})
		}
	case sshwire.Fixed:
		for _, b := range a.c.ValueClasses(label+"fixed", f.N, a.c.V()) {
			out = append(out, sshwire.Value{B: b})
		}
	case sshwire.Mpint:
		for _, n := range a.mpints {
			out = append(out, sshwire.Value{Int: n})
		}
	case sshwire.NameList:
		for _, l := range a.lists {
			out = append(out, sshwire.Value{Names: l})
		}
	}
	return out
}

func smallOnly(f sshwire.Field, in []sshwire.Value) []sshwire.Value {
	switch f.Kind {
	case sshwire.String, sshwire.Rest:
		return in[:8] // the fixed short strings
	case sshwire.Mpint:
		return in[:200] // 0 and +-(2^k-1), +-2^k, +-(2^k+1) for small k
	}
	return in
}

// bases: a minimal assignment (everything empty/zero) and a non-trivial one.
func (a *alphabet) base(mi *msgInfo, which int) []sshwire.Value {
	vals := make([]sshwire.Value, len(mi.layout))
	for i, f := range mi.layout {
		switch f.Kind {
		case sshwire.Byte:
			vals[i].U = uint64(which * 0x81)
		case sshwire.Bool:
			vals[i].Flag = which == 1
		case sshwire.Uint32:
			vals[i].U = uint64(which) * 0x80000001
		case sshwire.Uint64:
			vals[i].U = uint64(which) * 0x8000000000000001
		case sshwire.String, sshwire.Rest:
			if which == 1 {
				vals[i].B = []byte(fmt.Sprintf("f%d", i))
			} else {
				vals[i].B = []byte{}
			}
		case sshwire.Fixed:
			vals[i].B = make([]byte, f.N)
			if which == 1 {
				for j := range vals[i].B {
					vals[i].B[j] = byte(0xf0 + j)
				}
			}
		case sshwire.Mpint:
			if which == 1 {
				vals[i].Int = big.NewInt(-32768 - int64(i))
			} else {
				vals[i].Int = big.NewInt(0)
			}
		case sshwire.NameList:
			if which == 1 {
				vals[i].Names = []string{"a", "none"}
			} else {
				vals[i].Names = []string{}
			}
		}
	}
	return vals
}

// ---------------------------------------------------------------------------------

type checker struct {
	c *vf.Ctx
	a *alphabet
}

// tally batches the per-call counters of one worker (the Ctx counters take a lock).
type tally struct {
	evals  int
	counts map[string]int
}

func (t *tally) outcome(k string) {
	if t.counts == nil {
		t.counts = map[string]int{}
	}
	t.counts[k]++
}

func (t *tally) flush(c *vf.Ctx) {
	c.Eval(t.evals)
	for k, n := range t.counts {
		for i := 0; i < n && i < 1; i++ {
			c.Outcome(k)
		}
		c.Add("outcome_"+k, int64(n))
	}
	t.evals, t.counts = 0, nil
}

func short(b []byte) string { return vf.Hex8(b) }

// roundTrip: Marshal(fill(vals)) must equal the reference encoding byte for byte and
// Unmarshal of it must reproduce vals. Returns the encoding.
func (k *checker) roundTrip(mi *msgInfo, vals []sshwire.Value, what string) []byte {
	c := k.c
	want, _ := mi.refEncode(vals)
	p := mi.fill(vals)
	var got []byte
	if pan, v, _ := vf.Protect(func() { got = ssh.Marshal(p.Interface()) }); pan {
		c.Violation("Marshal panics on "+mi.name, map[string]any{"case": what, "panic": fmt.Sprint(v)})
		return want
	}
	c.Eval(1)
	if !bytes.Equal(got, want) {
		c.Violation("Marshal("+mi.name+") differs from RFC 4251 encoding", map[string]any{"case": what, "got": fmt.Sprintf("%x", clip(got)), "want": fmt.Sprintf("%x", clip(want))})
		return want
	}
	// Marshal of the struct value (not pointer) is documented to work too
	var got2 []byte
	if pan, v, _ := vf.Protect(func() { got2 = ssh.Marshal(p.Elem().Interface()) }); pan || !bytes.Equal(got2, want) {
		c.Violation("Marshal(struct value) differs from Marshal(pointer) for "+mi.name, map[string]any{"case": what, "panic": fmt.Sprint(v)})
	}
	// A: Marshal only reads its argument ...
	if why := mi.intact(p, vals); why != "" {
		c.Violation("Marshal modifies its argument ("+mi.name+")", map[string]any{"case": what, "what": why})
	}
	// ... its result does not share memory with the argument (the caller wipes / reuses the
	// message's buffers and big.Ints right away) ...
	mi.clobber(p)
	if !bytes.Equal(got, want) || !bytes.Equal(got2, want) {
		c.Violation("Marshal output changes when the caller overwrites the marshalled message ("+mi.name+")", map[string]any{"case": what})
		return want
	}
	// ... nor with the result of a later Marshal call.
	var got3 []byte
	if pan, _, _ := vf.Protect(func() { got3 = ssh.Marshal(mi.fill(mi.otherVals).Interface()) }); pan || !bytes.Equal(got3, mi.otherEnc) || !bytes.Equal(got, want) {
		c.Violation("Marshal output is overwritten by a later Marshal call ("+mi.name+")", map[string]any{"case": what})
		return want
	}
	if !mi.roundTrips {
		return want
	}
	out := reflect.New(mi.typ)
	var err error
	if pan, v, _ := vf.Protect(func() { err = ssh.Unmarshal(got, out.Interface()) }); pan {
		c.Violation("Unmarshal panics on own Marshal output of "+mi.name, map[string]any{"case": what, "panic": fmt.Sprint(v)})
		return want
	}
	if err != nil {
		cls := "Unmarshal(Marshal(m)) fails for " + mi.name
		if len(got) == 0 {
			cls = "Unmarshal(Marshal(m)) fails when the encoding is empty (untagged struct, empty rest field): " + mi.name
		}
		c.Violation(cls, map[string]any{"case": what, "err": err.Error(), "encoding": fmt.Sprintf("%x", clip(got))})
		return want
	}
	back := mi.read(out)
	if ok, i := valsEqual(mi.layout, vals, back); !ok {
		c.Violation("Unmarshal(Marshal(m)) != m for "+mi.name, map[string]any{"case": what, "field": mi.typ.Field(mi.fields[i]).Name, "encoding": fmt.Sprintf("%x", clip(got))})
	}
	return want
}

func (k *checker) prepare(mi *msgInfo) {
	if len(mi.layout) > 0 && mi.otherVals == nil {
		mi.otherVals = k.a.base(mi, 1)
		mi.otherEnc, _ = mi.refEncode(mi.otherVals)
	}
}

func clip(b []byte) []byte {
	if len(b) > 96 {
		return b[:96]
	}
	return b
}

// conform: Unmarshal(data) into mi must agree with the reference decoder: same
// accept/reject decision, same values; never a panic.
func (k *checker) conform(mi *msgInfo, data []byte, what string, t *tally) {
	c := k.c
	want, werr := mi.refDecode(data)
	out := reflect.New(mi.typ)
	var err error
	in := append([]byte(nil), data...)
	pan, pv, _ := vf.Protect(func() { err = ssh.Unmarshal(in, out.Interface()) })
	t.evals++
	if pan {
		c.Violation("Unmarshal panics ("+mi.name+", "+what+")", map[string]any{"input": fmt.Sprintf("%x", clip(data)), "len": len(data), "panic": fmt.Sprint(pv)})
		return
	}
	if !bytes.Equal(in, data) {
		c.Violation("Unmarshal writes to its input ("+mi.name+")", map[string]any{"input": fmt.Sprintf("%x", clip(data)), "after": fmt.Sprintf("%x", clip(in))})
		return
	}
	if (err == nil) != (werr == nil) {
		cls := "Unmarshal accepts what RFC decoding rejects"
		if err != nil {
			cls = "Unmarshal rejects what RFC decoding accepts"
		}
		c.Violation(cls+" ("+mi.name+", "+what+")", map[string]any{"input": fmt.Sprintf("%x", clip(data)), "len": len(data), "go_err": fmt.Sprint(err), "ref_err": fmt.Sprint(werr)})
		return
	}
	if err != nil {
		t.outcome("reject")
		return
	}
	t.outcome("accept")
	if ok, i := valsEqual(mi.layout, want, mi.read(out)); !ok {
		c.Violation("Unmarshal value differs from RFC decoding ("+mi.name+", "+what+")", map[string]any{"input": fmt.Sprintf("%x", clip(data)), "field": mi.typ.Field(mi.fields[i]).Name})
		return
	}
	// the packet buffer is reused by the caller: only []byte fields are documented to alias
	// it; strings, name-lists, mpints, arrays and integers must survive its being overwritten
	if mi.hasOwnedField() {
		for i := range in {
			in[i] ^= 0xFF
		}
		back := mi.read(out)
		for i, f := range mi.layout {
			if (f.Kind == sshwire.String || f.Kind == sshwire.Rest) && out.Elem().Field(mi.fields[i]).Kind() == reflect.Slice {
				continue
			}
			if !sshwire.Equal(f, want[i], back[i]) {
				c.Violation("Unmarshal result changes when the packet buffer is overwritten ("+mi.name+")", map[string]any{"input": fmt.Sprintf("%x", clip(data)), "field": mi.typ.Field(mi.fields[i]).Name})
				return
			}
		}
	}
	// the same input into a destination that still holds an earlier message (callers reuse
	// message structs): every field must be overwritten, the result is the same
	dirty := mi.fill(k.a.base(mi, 1))
	in2 := append([]byte(nil), data...)
	pan, pv, _ = vf.Protect(func() { err = ssh.Unmarshal(in2, dirty.Interface()) })
	t.evals++
	if pan || err != nil {
		c.Violation("Unmarshal into a reused destination fails or panics ("+mi.name+", "+what+")", map[string]any{"input": fmt.Sprintf("%x", clip(data)), "err": fmt.Sprint(err), "panic": fmt.Sprint(pv)})
		return
	}
	if ok, i := valsEqual(mi.layout, want, mi.read(dirty)); !ok {
		c.Violation("Unmarshal into a reused destination keeps data of the earlier message ("+mi.name+", "+what+")", map[string]any{"input": fmt.Sprintf("%x", clip(data)), "field": mi.typ.Field(mi.fields[i]).Name})
	}
}

// ---------------------------------------------------------------------------------

var phaseStart = time.Now()

func phase(name string) {
	if os.Getenv("VERIF_DEBUG") != "" {
		fmt.Fprintf(os.Stderr, "phase %-28s +%.1fs\n", name, time.Since(phaseStart).Seconds())
	}
}

func run(c *vf.Ctx) {
	c.Rule("structs = every struct type of ssh/messages.go + 10 ad hoc structs covering every supported field kind, tag variants and named field types. " +
		"(1) round trip: per struct, two base assignments, then each field swept over its whole value alphabet with the others at either base " +
		"(mpint: 0, +-(2^k-1), +-2^k, +-(2^k+1) for every k<=136 [thorough 1100] and around 256..8192, seeded values of every byte length with lead byte in {00,01,7f,80,ff}; " +
		"name-lists: all tuples of <=3 names over 4 names; strings incl. empty, commas, NUL, 255/256/257/65535/65536 bytes); Marshal output compared byte for byte with the RFC 4251 model, Unmarshal must reproduce the values. " +
		"(2) mpint primitives intLength/marshalInt/writeInt/parseInt on the whole mpint grid and parseInt on every body of <=2 bytes; prefix-length 0..80 x mpint-length 0..80 grid through Marshal (buffer growth). " +
		"(3) totality + conformance: for every struct, every byte string of length <=2, every 3-byte string whose first byte is an accepted type byte (all 3-byte strings in thorough), and for each sampled valid encoding: every truncation, every value 0..255 of every length-prefix byte, " +
		"whole length := {0,1,rem-1,rem,rem+1,2^31-1,2^31,2^32-1}, every byte ^01/^80/^ff, all 256 type bytes, 1..5 trailing bytes; Unmarshal must not panic and must accept exactly what the RFC model accepts with equal values. " +
		"decode: every byte string of length <=3 and every fault case above. non-trivial = distinct (struct, fault kind, position) resp. (struct, field, value index). " +
		"hardening dimensions on every round trip: (A) the marshalled struct's slices are private copies with sentinels in their spare capacity; after Marshal the struct must be unchanged (values, slice headers, sentinels, *big.Int values), then everything it points to is overwritten and the output must still be the model's, " +
		"and a later Marshal of another message must not change it; Unmarshal/decode must leave the packet unchanged, and string / name-list / mpint / array / integer fields must survive the packet buffer being overwritten ([]byte fields alias it by documentation); intLength/marshalInt/writeInt must not modify n, parseInt not its input; " +
		"(B) every struct with >=2 mpint fields with ONE *big.Int in all of them, over the whole mpint alphabet; Unmarshal into a struct holding an earlier message; (C) mpints of 65535/65536 (thorough 65537) bytes through the primitives and through Marshal/Unmarshal of 3 structs (thorough: every struct with an mpint field), a 2^24-byte string field (thorough: string, []byte and rest fields of 2^24 and 2^24+1 bytes)")
	c.Assume("math/big and reflect are correct; field values outside the stated alphabets are not enumerated")
	c.Assume("names in name-lists are non-empty and comma-free (RFC 4251 section 5); *big.Int fields are non-nil")

	k := &checker{c: c, a: newAlphabet(c)}
	if f := os.Getenv("C24_PPROF"); f != "" {
		w, _ := os.Create(f)
		pprof.StartCPUProfile(w)
		defer pprof.StopCPUProfile()
	}

	// ---- struct inventory
	var msgs []*msgInfo
	hookNames := map[string]bool{}
	for _, p := range ssh.VerifC24Messages() {
		mi, ok := describe(p, false)
		if !ok {
			c.Violation("message struct with unsupported field kind", reflect.TypeOf(p).Elem().Name())
			continue
		}
		hookNames[mi.name] = true
		m := mi
		msgs = append(msgs, &m)
	}
	checkInventory(c, hookNames)
	crossCheckSpecTable(c, msgs)
	for _, p := range []interface{}{new(synAllKinds), new(synNoTag), new(synMultiTag), new(synRestOnly), new(synMpints), new(synSig),
		new(synNamed), new(synBytesOnly), new(synGrow), new(synRestMid), new(synLastU64), new(synLastU64Rest), new(synLastU32), new(synLastU32Rest),
		new(synLastBool), new(synLastArr), new(synLastStr), new(synLastBlob), new(synLastNames), new(synLastInt), new(synLastU64x2)} {
		mi, ok := describe(p, true)
		if !ok {
			panic("synthetic struct not describable: " + reflect.TypeOf(p).String())
		}
		m := mi
		msgs = append(msgs, &m)
	}
	c.Set("structs", len(msgs))
	for _, mi := range msgs {
		k.prepare(mi)
	}

	// ---- (2) mpint primitives
	phase("inventory done")
	k.mpintPrimitives()
	phase("mpint primitives done")
	k.growGrid(msgs)
	phase("grow grid done")

	// ---- (1) round trips, collecting sample encodings for the fault enumeration
	var samples []sample
	for _, mi := range msgs {
		if len(mi.layout) == 0 {
			// userAuthSuccessMsg: no fields; typeTags() reads Field(0) of the struct type, so
			// neither Marshal nor Unmarshal can be applied to it. decode special-cases it.
			k.fieldless(mi)
			continue
		}
		for which := 0; which < 2; which++ {
			base := k.a.base(mi, which)
			k.roundTrip(mi, base, fmt.Sprintf("base%d", which))
			samples = append(samples, sample{mi, base})
			for fi, f := range mi.layout {
				alts := k.a.values(f, mi.name)
				for vi, v := range alts {
					vals := append([]sshwire.Value(nil), base...)
					vals[fi] = v
					k.roundTrip(mi, vals, fmt.Sprintf("base%d field %s value#%d", which, mi.typ.Field(mi.fields[fi]).Name, vi))
					if which == 1 {
						c.Nontrivial(fmt.Sprintf("rt/%s/%d/%d", mi.name, fi, vi))
					}
				}
			}
		}
		// diagonal: every field non-default at once
		for d := 0; d < 12; d++ {
			vals := make([]sshwire.Value, len(mi.layout))
			for fi, f := range mi.layout {
				alts := k.a.values(f, mi.name)
				if d < 2 {
					// these two also seed the fault enumeration: keep them short (and seed-independent in shape)
					alts = smallOnly(f, alts)
				}
				vals[fi] = alts[(d*7+fi*3+1)%len(alts)]
			}
			k.roundTrip(mi, vals, fmt.Sprintf("diagonal %d", d))
			if d < 2 {
				samples = append(samples, sample{mi, vals})
			}
		}
	}
	phase("field sweeps done")
	// shared *big.Int: every struct with two or more mpint fields, all of them pointing to
	// ONE *big.Int, for every value of the mpint alphabet (Marshal reads it once per field)
	var ljobs []func()
	for _, mi := range msgs {
		mi := mi
		var mp []int
		for fi, f := range mi.layout {
			if f.Kind == sshwire.Mpint {
				mp = append(mp, fi)
			}
		}
		if len(mp) < 2 {
			continue
		}
		ljobs = append(ljobs, func() {
			for vi, n := range k.a.mpints {
				vals := k.a.base(mi, 1)
				for _, fi := range mp {
					vals[fi] = sshwire.Value{Int: n}
				}
				k.roundTrip(mi, vals, fmt.Sprintf("one *big.Int in %d fields, value#%d", len(mp), vi))
			}
			c.Nontrivial("shared-mpint/" + mi.name)
		})
	}
	// long values (C): mpints of 65535..65537 bytes in three structs (thorough: every struct with an mpint field);
	// string / []byte / rest fields of 2^24 and 2^24+1 bytes in the all-kinds struct
	long := longMpints(c)
	pool := c.Bytes("c24-long", 0, 1<<16)
	huge := bytes.Repeat(pool, 1<<8+1)[:1<<24+1]
	for _, mi := range msgs {
		mi := mi
		for fi, f := range mi.layout {
			fi := fi
			if f.Kind == sshwire.Mpint {
				if !c.Thorough && mi.name != "synSig" && mi.name != "synGrow" && mi.name != "kexDHReplyMsg" {
					break // quick: three structs (mpint first / in the middle / last); thorough: every struct
				}
				for vi, n := range long {
					vi, n := vi, n
					ljobs = append(ljobs, func() {
						vals := k.a.base(mi, 1)
						vals[fi] = sshwire.Value{Int: n}
						k.roundTrip(mi, vals, fmt.Sprintf("long mpint #%d in field %s", vi, mi.typ.Field(mi.fields[fi]).Name))
					})
				}
				c.Nontrivial("long-mpint/" + mi.name)
				break // the first mpint field of each struct
			}
		}
		if mi.name != "synAllKinds" {
			continue
		}
		for fi, f := range mi.layout {
			if f.Kind != sshwire.String && f.Kind != sshwire.Rest {
				continue
			}
			for _, n := range []int{1 << 24, 1<<24 + 1} {
				fi, n := fi, n
				if !c.Thorough && !(mi.typ.Field(mi.fields[fi]).Name == "Str" && n == 1<<24) {
					continue // quick: the string field with exactly 2^24 bytes only (each case moves ~10 x 16 MiB)
				}
				ljobs = append(ljobs, func() {
					vals := k.a.base(mi, 1)
					vals[fi] = sshwire.Value{B: huge[:n]}
					k.roundTrip(mi, vals, fmt.Sprintf("%d-byte value in field %s", n, mi.typ.Field(mi.fields[fi]).Name))
					c.Nontrivial(fmt.Sprintf("long-string/%s/%d", mi.typ.Field(mi.fields[fi]).Name, n))
				})
			}
		}
	}
	phase("long jobs built")
	c.ParallelFor(len(ljobs), func(i int) { ljobs[i]() })
	phase("shared/long values done")
	if c.WantSample() {
		mi := msgs[1]
		enc, _ := mi.refEncode(k.a.base(mi, 1))
		c.Sample(map[string]any{"struct": mi.name, "encoding": fmt.Sprintf("%x", enc)})
	}

	phase("round trips done")
	// ---- unsupported field kinds: Unmarshal returns an error, never panics
	for _, p := range []func() interface{}{func() interface{} { return new(badInt) }, func() interface{} { return new(badSliceInt) }, func() interface{} { return new(badPtr) },
		func() interface{} { return new(badArr) }, func() interface{} { return new(badFloat) }, func() interface{} { return new(badNested) }} {
		name := reflect.TypeOf(p()).Elem().Name()
		for _, in := range [][]byte{{}, {0}, {0, 0, 0, 0}, {0, 0, 0, 1, 'a', 0, 0, 0, 0, 0, 0, 0, 0}, bytes.Repeat([]byte{0}, 32)} {
			var err error
			pan, pv, _ := vf.Protect(func() { err = ssh.Unmarshal(in, p()) })
			c.Eval(1)
			if pan {
				c.Violation("Unmarshal panics on struct with unsupported field kind "+name, fmt.Sprint(pv))
			} else if err == nil {
				c.Violation("Unmarshal silently accepts struct with unsupported field kind "+name, fmt.Sprintf("%x", in))
			}
		}
	}

	// ---- (3) totality / conformance
	// 3a: all short strings
	var tagged, untagged []*msgInfo
	for _, mi := range msgs {
		if len(mi.layout) == 0 {
			continue
		}
		if len(mi.tags) > 0 {
			tagged = append(tagged, mi)
		} else {
			untagged = append(untagged, mi)
		}
	}
	all := append(append([]*msgInfo(nil), tagged...), untagged...)
	// length 0,1,2: everything, every struct
	c.ParallelFor(len(all), func(i int) {
		mi := all[i]
		var t tally
		k.conform(mi, []byte{}, "empty", &t)
		for a := 0; a < 256; a++ {
			k.conform(mi, []byte{byte(a)}, "len1", &t)
			for b := 0; b < 256; b++ {
				k.conform(mi, []byte{byte(a), byte(b)}, "len2", &t)
			}
		}
		t.flush(c)
		c.Nontrivial("short/" + mi.name)
	})
	phase("len<=2 done")
	// length 3
	type job struct {
		mi    *msgInfo
		first int
	}
	var jobs []job
	for _, mi := range all {
		for first := 0; first < 256; first++ {
			isTag := false
			for _, t := range mi.tags {
				if int(t) == first {
					isTag = true
				}
			}
			// quick: for tagged structs the 255 wrong first bytes are covered by len<=2 and the
			// all-256-type-bytes fault class; enumerate the tails only behind an accepted type byte,
			// and behind a neighbouring wrong one as a control. Untagged structs (first byte is data):
			// the boundary first bytes. thorough: every first byte for every struct.
			bnd := first == 0 || first == 1 || first == 0x7f || first == 0x80 || first == 0xff
			if c.Thorough || (len(mi.tags) == 0 && bnd) || isTag || (len(mi.tags) > 0 && first == int(mi.tags[0])+1) {
				jobs = append(jobs, job{mi, first})
			}
		}
	}
	c.ParallelFor(len(jobs), func(i int) {
		j := jobs[i]
		buf := []byte{byte(j.first), 0, 0}
		var t tally
		for a := 0; a < 256; a++ {
			for b := 0; b < 256; b++ {
				buf[1], buf[2] = byte(a), byte(b)
				k.conform(j.mi, buf, "len3", &t)
			}
		}
		t.flush(c)
		c.Nontrivial(fmt.Sprintf("len3/%s/%d", j.mi.name, j.first))
	})
	c.Set("len3_first_bytes_enumerated", len(jobs))

	phase("len3 done")
	// 3b: faults of valid encodings
	c.ParallelFor(len(samples), func(i int) {
		s := samples[i]
		enc, lenOffs := s.mi.refEncode(s.vals)
		n := k.faults(s.mi, enc, lenOffs, i)
		c.Add("fault_inputs", int64(n))
	})

	phase("faults done")
	// ---- decode
	k.decodeCheck(msgs, samples2enc(samples))
}

type encSample struct {
	mi      *msgInfo
	enc     []byte
	lenOffs []int
}

type sample struct {
	mi   *msgInfo
	vals []sshwire.Value
}

func samples2enc(in []sample) []encSample {
	var out []encSample
	for _, s := range in {
		enc, offs := s.mi.refEncode(s.vals)
		out = append(out, encSample{s.mi, enc, offs})
	}
	return out
}

// faultSet enumerates the single-fault variants of a valid encoding.
func faultSet(c *vf.Ctx, enc []byte, lenOffs []int, tagged bool, visit func(kind string, pos int, data []byte)) {
	// every truncation
	for cut := 0; cut < len(enc); cut++ {
		visit("truncate", cut, enc[:cut])
	}
	// every value of every length-prefix byte
	for _, off := range lenOffs {
		for bi := 0; bi < 4; bi++ {
			for v := 0; v < 256; v++ {
				if byte(v) == enc[off+bi] {
					continue
				}
				m := append([]byte(nil), enc...)
				m[off+bi] = byte(v)
				visit("lenbyte", off+bi, m)
			}
		}
		rem := uint64(len(enc) - off - 4)
		for _, l := range []uint64{0, 1, rem - 1, rem, rem + 1, 1<<31 - 1, 1 << 31, 1<<32 - 1} {
			m := append([]byte(nil), enc...)
			m[off], m[off+1], m[off+2], m[off+3] = byte(l>>24), byte(l>>16), byte(l>>8), byte(l)
			visit("lenword", off, m)
		}
	}
	// byte flips
	for pos := range enc {
		for _, x := range []byte{0x01, 0x80, 0xff} {
			m := append([]byte(nil), enc...)
			m[pos] ^= x
			visit("flip", pos, m)
		}
	}
	// all type bytes
	if len(enc) > 0 {
		for v := 0; v < 256; v++ {
			m := append([]byte(nil), enc...)
			m[0] = byte(v)
			visit("typebyte", v, m)
		}
	}
	// trailing bytes
	for n := 1; n <= 5; n++ {
		for ti, t := range [][]byte{bytes.Repeat([]byte{0}, n), bytes.Repeat([]byte{0xff}, n), c.Bytes("trail", n, n)} {
			visit("trailing", n*4+ti, append(append([]byte(nil), enc...), t...))
		}
	}
}

func (k *checker) faults(mi *msgInfo, enc []byte, lenOffs []int, si int) int {
	n := 0
	var t tally
	seen := map[string]bool{}
	faultSet(k.c, enc, lenOffs, len(mi.tags) > 0, func(kind string, pos int, data []byte) {
		k.conform(mi, data, kind, &t)
		seen[fmt.Sprintf("fault/%s/%s/%d", mi.name, kind, pos)] = true
		n++
	})
	t.flush(k.c)
	for key := range seen {
		k.c.Nontrivial(key)
	}
	return n
}

// fieldless: a struct without fields cannot be passed to Marshal/Unmarshal (typeTags
// indexes field 0). Recorded as a finding of its own class if it panics.
func (k *checker) fieldless(mi *msgInfo) {
	c := k.c
	p := reflect.New(mi.typ)
	if pan, v, _ := vf.Protect(func() { ssh.Marshal(p.Interface()) }); pan {
		c.Violation("Marshal/Unmarshal panic on field-less message struct "+mi.name, "Marshal: "+fmt.Sprint(v))
	}
	if pan, v, _ := vf.Protect(func() { _ = ssh.Unmarshal([]byte{52}, p.Interface()) }); pan {
		c.Violation("Marshal/Unmarshal panic on field-less message struct "+mi.name, "Unmarshal: "+fmt.Sprint(v))
	}
	c.Eval(2)
}

// longMpints (C/E): magnitudes of 65535 and 65536 (thorough also 65537) bytes - the second and
// third length octet change, the padding byte pushes the body over 2^16 - with the leading
// byte 01 / 80 (thorough also 7f / ff), both signs, and +-2^(8l-1).
func longMpints(c *vf.Ctx) []*big.Int {
	var out []*big.Int
	lens, leads := []int{65535, 65536}, []byte{0x01, 0x80}
	if c.Thorough {
		lens, leads = []int{65535, 65536, 65537}, []byte{0x01, 0x7f, 0x80, 0xff}
	}
	for _, l := range lens {
		raw := c.Bytes("longmpint", l, l)
		for _, lead := range leads {
			b := append([]byte(nil), raw...)
			b[0] = lead
			v := new(big.Int).SetBytes(b)
			out = append(out, v, new(big.Int).Neg(v))
		}
	}
	// exactly -2^(8l-1): minimal form 80 00..00 without padding
	for _, l := range []int{65535, 65536} {
		out = append(out, new(big.Int).Neg(pow2(8*l-1)), pow2(8*l-1))
	}
	return out
}

func (k *checker) mpintPrimitives() {
	c := k.c
	k.mpintValues(k.a.mpints)
	long := longMpints(c)
	k.mpintValues(long)
	c.Set("mpint_long_values", len(long))
	k.mpintBodies()
}

func (k *checker) mpintValues(list []*big.Int) {
	for i, n := range list {
		k.mpintOne(i, n)
	}
}

func (k *checker) mpintOne(i int, n *big.Int) {
	c := k.c
	{
		// A: the primitives only read n
		orig := new(big.Int).Set(n)
		defer func() {
			if n.Cmp(orig) != 0 {
				c.Violation("intLength/marshalInt/writeInt modify their *big.Int argument", map[string]any{"n": clipS(orig.Text(16)), "after": clipS(n.Text(16))})
				n.Set(orig)
			}
		}()
		want := sshwire.EncodeMpint(n)
		body := want[4:]
		if !sshwire.MpintMinimal(body) {
			panic("reference encoder produced non-minimal mpint")
		}
		c.Eval(1)
		var l int
		if pan, v, _ := vf.Protect(func() { l = ssh.VerifC24IntLength(n) }); pan {
			c.Violation("intLength panics", map[string]any{"n": clipS(n.Text(16)), "panic": fmt.Sprint(v)})
			return
		}
		if l != len(want) {
			c.Violation("intLength differs from minimal two's complement length", map[string]any{"n": clipS(n.Text(16)), "got": l, "want": len(want)})
			return
		}
		buf := make([]byte, l+3)
		for j := range buf {
			buf[j] = 0xA5
		}
		var w int
		if pan, v, _ := vf.Protect(func() { w = ssh.VerifC24MarshalInt(buf, n) }); pan {
			c.Violation("marshalInt panics", map[string]any{"n": clipS(n.Text(16)), "panic": fmt.Sprint(v)})
			return
		}
		if w != len(want) || !bytes.Equal(buf[:w], want) || !bytes.Equal(buf[w:], []byte{0xA5, 0xA5, 0xA5}[:len(buf)-w]) {
			c.Violation("marshalInt output is not the minimal two's complement mpint", map[string]any{"n": clipS(n.Text(16)), "got": fmt.Sprintf("%x", clip(buf[:w])), "want": fmt.Sprintf("%x", clip(want))})
		}
		var bb bytes.Buffer
		if pan, pv, _ := vf.Protect(func() { ssh.VerifC24WriteInt(&bb, n) }); pan {
			c.Violation("writeInt panics", map[string]any{"n": clipS(n.Text(16)), "panic": fmt.Sprint(pv)})
			return
		}
		if !bytes.Equal(bb.Bytes(), want) {
			c.Violation("writeInt output is not the minimal two's complement mpint", map[string]any{"n": clipS(n.Text(16))})
		}
		// parse back, with a tail that must be returned untouched
		in := append(append([]byte(nil), want...), 0xde, 0xad)
		var got *big.Int
		var rest []byte
		var ok bool
		if pan, pv, _ := vf.Protect(func() { got, rest, ok = ssh.VerifC24ParseInt(in) }); pan {
			c.Violation("parseInt panics", map[string]any{"n": clipS(n.Text(16)), "panic": fmt.Sprint(pv)})
			return
		}
		if !ok || got.Cmp(n) != 0 || !bytes.Equal(rest, []byte{0xde, 0xad}) {
			c.Violation("parseInt(marshalInt(n)) != n", map[string]any{"n": clipS(n.Text(16)), "ok": ok})
		}
		if !bytes.Equal(in[:len(want)], want) {
			c.Violation("parseInt writes to its input", map[string]any{"n": clipS(n.Text(16))})
		}
		if n.Sign() != 0 && len(body)%1 == 0 {
			c.Nontrivial(fmt.Sprintf("mpint/%d/%d/%x", n.Sign(), len(body), body[0]&0x80))
		}
		if i == 7 && c.WantSample() {
			c.Sample(map[string]any{"mpint": n.String(), "encoding": fmt.Sprintf("%x", want)})
		}
	}
}

func (k *checker) mpintBodies() {
	c := k.c
	c.Set("mpint_grid", len(k.a.mpints))
	// parseInt on every body of <= 2 bytes (non-minimal forms included): value per two's complement
	bodies := [][]byte{{}}
	for a := 0; a < 256; a++ {
		bodies = append(bodies, []byte{byte(a)})
		for b := 0; b < 256; b++ {
			bodies = append(bodies, []byte{byte(a), byte(b)})
		}
	}
	for _, extra := range [][]byte{{0, 0, 0x80}, {0xff, 0xff, 0x7f}, {0xff, 0xff, 0xff}, {0, 0, 0}, {0x80, 0, 0, 0, 0}, {0x7f, 0xff, 0xff, 0xff, 0xff, 0xff, 0xff, 0xff, 0xff}} {
		bodies = append(bodies, extra)
	}
	for _, b := range bodies {
		in := sshwire.EncodeString(b)
		var got *big.Int
		var rest []byte
		var ok bool
		if pan, pv, _ := vf.Protect(func() { got, rest, ok = ssh.VerifC24ParseInt(in) }); pan {
			c.Violation("parseInt panics", map[string]any{"body": fmt.Sprintf("%x", b), "panic": fmt.Sprint(pv)})
			continue
		}
		c.Eval(1)
		if !ok || len(rest) != 0 || got.Cmp(sshwire.MpintValue(b)) != 0 {
			c.Violation("parseInt value differs from two's complement reading", map[string]any{"body": fmt.Sprintf("%x", b), "ok": ok})
		}
	}
	// parseString / parseNameList / parseInt on short and inconsistent inputs
	for _, in := range [][]byte{{}, {0}, {0, 0, 0}, {0, 0, 0, 1}, {0, 0, 0, 2, 'a'}, {0xff, 0xff, 0xff, 0xff}, {0x80, 0, 0, 0, 'a'}, {0xff, 0xff, 0xff, 0xff, 'a', 'b'},
		{0x7f, 0xff, 0xff, 0xff, 'a'}, {0x80, 0, 0, 1, 'a', 'b'}, {0, 0, 1, 0, 'a'}} {
		c.Eval(3)
		pan, pv, _ := vf.Protect(func() {
			if _, _, ok := ssh.VerifC24ParseString(in); ok {
				c.Violation("parseString accepts short input", fmt.Sprintf("%x", in))
			}
			if _, _, ok := ssh.VerifC24ParseInt(in); ok {
				c.Violation("parseInt accepts short input", fmt.Sprintf("%x", in))
			}
			if _, _, ok := ssh.VerifC24ParseNameList(in); ok {
				c.Violation("parseNameList accepts short input", fmt.Sprintf("%x", in))
			}
		})
		if pan {
			c.Violation("parseString/parseInt/parseNameList panic on short input", map[string]any{"input": fmt.Sprintf("%x", in), "panic": fmt.Sprint(pv)})
		}
	}
	// name-list bodies: every string of length <= 3 over {a , -} and the empty body
	alpha := []byte{'a', ',', '-'}
	var nb [][]byte
	nb = append(nb, []byte{})
	for _, x := range alpha {
		nb = append(nb, []byte{x})
		for _, y := range alpha {
			nb = append(nb, []byte{x, y})
			for _, z := range alpha {
				nb = append(nb, []byte{x, y, z})
			}
		}
	}
	for _, b := range nb {
		in := append(sshwire.EncodeString(b), 'T')
		var got []string
		var rest []byte
		var ok bool
		if pan, pv, _ := vf.Protect(func() { got, rest, ok = ssh.VerifC24ParseNameList(in) }); pan {
			c.Violation("parseNameList panics", map[string]any{"body": string(b), "panic": fmt.Sprint(pv)})
			continue
		}
		want := sshwire.SplitNames(b)
		c.Eval(1)
		if !ok || !bytes.Equal(rest, []byte{'T'}) || !sshwire.Equal(sshwire.Field{Kind: sshwire.NameList}, sshwire.Value{Names: got}, sshwire.Value{Names: want}) {
			c.Violation("parseNameList differs from comma split", map[string]any{"body": string(b), "got": got, "want": want})
		}
	}
}

func clipS(s string) string {
	if len(s) > 80 {
		return s[:40] + ".." + s[len(s)-20:] + fmt.Sprintf("(len %d)", len(s))
	}
	return s
}

// growGrid: marshalStruct grows its buffer by hand when an mpint does not fit; the
// path taken depends on how many bytes precede the mpint and on its length.
func (k *checker) growGrid(msgs []*msgInfo) {
	var mi *msgInfo
	for _, m := range msgs {
		if m.name == "synGrow" {
			mi = m
		}
	}
	if mi == nil {
		d, _ := describe(new(synGrow), true)
		mi = &d
		k.prepare(mi)
	}
	c := k.c
	maxN := 80
	if c.Thorough {
		maxN = 200
	}
	type pt struct{ pre, ml int }
	var grid []pt
	for pre := 0; pre <= maxN; pre++ {
		for ml := 0; ml <= maxN; ml++ {
			grid = append(grid, pt{pre, ml})
		}
	}
	c.ParallelFor(len(grid), func(i int) {
		g := grid[i]
		for sign := 0; sign < 2; sign++ {
			var n *big.Int
			if g.ml == 0 {
				n = big.NewInt(0)
			} else {
				b := c.Bytes("grow", g.ml, g.ml)
				b[0] = 0x40 | b[0]&0x3f // exactly ml bytes, no padding byte
				n = new(big.Int).SetBytes(b)
				if sign == 1 {
					n.Neg(n)
				}
			}
			vals := []sshwire.Value{{B: bytes.Repeat([]byte{'p'}, g.pre)}, {Int: n}, {B: []byte("tail")}}
			k.roundTrip(mi, vals, fmt.Sprintf("grow pre=%d mpintlen=%d sign=%d", g.pre, g.ml, sign))
		}
		c.Nontrivial(fmt.Sprintf("grow/%d/%d", g.pre, g.ml))
	})
}

// decodeCheck: the packet decoder. Its dispatch (type byte -> struct) is learned from
// what it returns for valid encodings; after that every input starting with that byte
// must be decoded exactly as the reference decodes it under that struct's layout, and
// bytes it does not dispatch on must be rejected.
func (k *checker) decodeCheck(msgs []*msgInfo, samples []encSample) {
	c := k.c
	byType := map[reflect.Type]*msgInfo{}
	for _, mi := range msgs {
		if !mi.synthetic {
			byType[mi.typ] = mi
		}
	}
	dispatch := map[byte]*msgInfo{}
	for _, s := range samples {
		if s.mi.synthetic || len(s.enc) == 0 {
			continue
		}
		var v interface{}
		var err error
		if pan, pv, _ := vf.Protect(func() { v, err = ssh.VerifC24Decode(append([]byte(nil), s.enc...)) }); pan {
			c.Violation("decode panics on a valid encoding of "+s.mi.name, fmt.Sprint(pv))
			continue
		}
		if err != nil || v == nil {
			continue
		}
		t := reflect.TypeOf(v)
		if t.Kind() != reflect.Ptr || byType[t.Elem()] == nil {
			c.Violation("decode returns a value that is not a pointer to a message struct", fmt.Sprint(t))
			continue
		}
		mi := byType[t.Elem()]
		if prev, ok := dispatch[s.enc[0]]; ok && prev != mi {
			c.Violation("decode dispatches one type byte to two structs", map[string]any{"type": s.enc[0], "a": prev.name, "b": mi.name})
		}
		dispatch[s.enc[0]] = mi
	}
	// the field-less USERAUTH_SUCCESS
	if v, err := ssh.VerifC24Decode([]byte{52}); err == nil && v != nil {
		if mi := byType[reflect.TypeOf(v).Elem()]; mi != nil {
			dispatch[52] = mi
		}
	}
	var names []string
	for b, mi := range dispatch {
		names = append(names, fmt.Sprintf("%d:%s", b, mi.name))
	}
	sort.Strings(names)
	c.Set("decode_dispatch", names)

	one := func(data []byte, what string, t *tally) {
		var v interface{}
		var err error
		in := append([]byte(nil), data...)
		pan, pv, _ := vf.Protect(func() { v, err = ssh.VerifC24Decode(in) })
		t.evals++
		if pan {
			cls := "decode panics (" + what + ")"
			if len(data) == 0 {
				cls = "decode panics on the empty packet"
			}
			c.Violation(cls, map[string]any{"input": fmt.Sprintf("%x", clip(data)), "panic": fmt.Sprint(pv)})
			return
		}
		if !bytes.Equal(in, data) {
			c.Violation("decode writes to its input", map[string]any{"input": fmt.Sprintf("%x", clip(data)), "after": fmt.Sprintf("%x", clip(in))})
			return
		}
		if err == nil && v == nil {
			c.Violation("decode returns neither value nor error", fmt.Sprintf("%x", clip(data)))
			return
		}
		if len(data) == 0 {
			if err == nil {
				c.Violation("decode accepts the empty packet", "")
			}
			return
		}
		mi := dispatch[data[0]]
		if mi == nil {
			if err == nil {
				c.Violation("decode accepts a packet with a type byte it has no struct for ("+what+")", fmt.Sprintf("%x", clip(data)))
			}
			t.outcome("decode-unknown-type")
			return
		}
		want, werr := mi.refDecode(data)
		if len(mi.layout) == 0 {
			// a message without fields is exactly its type byte
			want, werr = nil, nil
			if len(data) != 1 {
				werr = sshwire.ErrTrailing
			}
		}
		if (err == nil) != (werr == nil) {
			cls := "decode accepts what RFC decoding rejects"
			if err != nil {
				cls = "decode rejects what RFC decoding accepts"
			}
			if err == nil && len(mi.layout) == 0 {
				cls = "decode accepts trailing bytes after SSH_MSG_USERAUTH_SUCCESS"
			} else {
				cls += " (" + mi.name + ", " + what + ")"
			}
			c.Violation(cls, map[string]any{"input": fmt.Sprintf("%x", clip(data)), "go_err": fmt.Sprint(err), "ref_err": fmt.Sprint(werr)})
			return
		}
		if err != nil {
			t.outcome("decode-reject")
			return
		}
		t.outcome("decode-accept")
		rv := reflect.ValueOf(v)
		if rv.Type().Elem() != mi.typ {
			c.Violation("decode returns a different struct for the same type byte", map[string]any{"input": fmt.Sprintf("%x", clip(data)), "got": rv.Type().String(), "want": mi.name})
			return
		}
		if ok, i := valsEqual(mi.layout, want, mi.read(rv)); !ok {
			c.Violation("decode value differs from RFC decoding ("+mi.name+")", map[string]any{"input": fmt.Sprintf("%x", clip(data)), "field": mi.typ.Field(mi.fields[i]).Name})
		}
	}

	var t0 tally
	one([]byte{}, "empty", &t0)
	t0.flush(c)
	c.ParallelFor(256, func(a int) {
		var t tally
		one([]byte{byte(a)}, "len1", &t)
		buf2 := []byte{byte(a), 0}
		buf3 := []byte{byte(a), 0, 0}
		for b := 0; b < 256; b++ {
			buf2[1] = byte(b)
			one(buf2, "len2", &t)
			for d := 0; d < 256; d++ {
				buf3[1], buf3[2] = byte(b), byte(d)
				one(buf3, "len3", &t)
			}
		}
		t.flush(c)
		c.Nontrivial(fmt.Sprintf("decode/short/%d", a))
	})
	c.ParallelFor(len(samples), func(i int) {
		s := samples[i]
		if s.mi.synthetic {
			return
		}
		var t tally
		seen := map[string]bool{}
		faultSet(c, s.enc, s.lenOffs, true, func(kind string, pos int, data []byte) {
			one(data, kind, &t)
			seen[fmt.Sprintf("decode/%s/%s/%d", s.mi.name, kind, pos)] = true
		})
		t.flush(c)
		for key := range seen {
			c.Nontrivial(key)
		}
	})
}

// checkInventory parses ssh/messages.go of the tree under test and reports struct
// types that the hook list does not cover (coverage note, not a violation).
func checkInventory(c *vf.Ctx, have map[string]bool) {
	fset := token.NewFileSet()
	f, err := parser.ParseFile(fset, filepath.Join(vf.RepoDir(), "ssh", "messages.go"), nil, 0)
	if err != nil {
		c.Set("inventory_note", "messages.go not parsed: "+err.Error())
		return
	}
	var missing []string
	total := 0
	for _, d := range f.Decls {
		gd, ok := d.(*ast.GenDecl)
		if !ok || gd.Tok != token.TYPE {
			continue
		}
		for _, sp := range gd.Specs {
			ts := sp.(*ast.TypeSpec)
			if _, ok := ts.Type.(*ast.StructType); ok {
				total++
				if !have[ts.Name.Name] {
					missing = append(missing, ts.Name.Name)
				}
			}
		}
	}
	c.Set("structs_declared_in_messages_go", total)
	if len(missing) > 0 {
		sort.Strings(missing)
		c.Set("structs_not_covered_by_hook_list", missing)
		fmt.Println("note: struct types in messages.go missing from VerifC24Messages():", missing)
	}
}

// crossCheckSpecTable compares the struct-derived layouts and type numbers with the
// table transcribed from the RFCs. Disagreements are reported as notes in the evidence
// (conformance of message numbering with the RFCs is not part of property C24).
func crossCheckSpecTable(c *vf.Ctx, msgs []*msgInfo) {
	var notes []string
	for _, mi := range msgs {
		spec, ok := sshwire.Messages[mi.name]
		if !ok {
			notes = append(notes, mi.name+": not in the RFC table")
			continue
		}
		if len(mi.layout) > 0 && (len(mi.tags) == 0 || int(mi.tags[0]) != spec.Number) {
			notes = append(notes, fmt.Sprintf("%s: Go type byte %v, %s says %d", mi.name, mi.tags, spec.Doc, spec.Number))
		}
		same := len(spec.Layout) == len(mi.layout)
		for i := 0; same && i < len(spec.Layout); i++ {
			same = spec.Layout[i] == mi.layout[i]
		}
		if !same {
			notes = append(notes, fmt.Sprintf("%s: field layout differs from %s", mi.name, spec.Doc))
		}
	}
	c.Set("rfc_table_notes", notes)
}
