package ssh

// Second harness for C37: the real Client (ListenTCP / ListenUnix, Accept, Close) over a
// real mux on the in-memory packet pipe; the peer is scripted.

import (
	"net"
)

type VerifC37ClientParams struct {
	Unix        bool
	Forwards    int  // channel opens for the listener's address, sent right after the listen request is granted
	Strangers   int  // channel opens for an address nobody listens on
	Accepts     int  // Accept calls before Close (<= Forwards)
	CancelOK    bool // the peer's answer to the cancel request that Close sends
	LateForward bool // after Close returned the peer sends one more open for the address
	DenyFirst   bool // the peer denies the first listen request; an open for the address is then sent (must be rejected) and the application asks again (granted)
}

type VerifC37ClientResult struct {
	ListenErr         string
	Accepted          int
	CloseReturned     bool
	CloseErr          string
	AfterCloseConns   int  // connections Accept still handed out after Close (buffered ones)
	AfterCloseErrored bool // Accept finally returned an error
	Confirmed         []uint32 // peer channel ids the client accepted
	Rejected          []uint32 // peer channel ids the client rejected
	FirstListenErr    bool     // DenyFirst: the denied listen request returned an error
}

const (
	verifC37FwdBase      = 500
	verifC37StrangerBase = 700
	verifC37LateID       = 900
	verifC37DeniedID     = 950
)

func VerifC37Client(p VerifC37ClientParams) *VerifC37ClientResult {
	res := &VerifC37ClientResult{}
	a, b := VerifMemPipe()
	m := newMux(a)
	conn := &connection{mux: m}
	cl := NewClient(conn, m.incomingChannels, m.incomingRequests)

	openFor := func(id uint32, stranger bool) []byte {
		if p.Unix {
			path := "/sock"
			if stranger {
				path = "/other"
			}
			return Marshal(channelOpenMsg{ChanType: "forwarded-streamlocal@openssh.com", PeersID: id, PeersWindow: 1 << 20, MaxPacketSize: 1 << 15,
				TypeSpecificData: Marshal(&forwardedStreamLocalPayload{SocketPath: path})})
		}
		port := uint32(2222)
		if stranger {
			port = 2223
		}
		return Marshal(channelOpenMsg{ChanType: "forwarded-tcpip", PeersID: id, PeersWindow: 1 << 20, MaxPacketSize: 1 << 15,
			TypeSpecificData: Marshal(&forwardedTCPPayload{Addr: "10.0.0.1", Port: port, OriginAddr: "192.0.2.7", OriginPort: 4711})})
	}
	deny := p.DenyFirst
	// the scripted peer
	go func() {
		for {
			pkt, err := b.ReadPacket()
			if err != nil {
				return
			}
			msg, err := decode(pkt)
			if err != nil {
				continue
			}
			switch x := msg.(type) {
			case *globalRequestMsg:
				switch x.Type {
				case "tcpip-forward", "streamlocal-forward@openssh.com":
					if deny {
						deny = false
						b.WritePacket(Marshal(globalRequestFailureMsg{}))
					} else {
						b.WritePacket(Marshal(globalRequestSuccessMsg{}))
					}
				case "cancel-tcpip-forward", "cancel-streamlocal-forward@openssh.com":
					if p.CancelOK {
						b.WritePacket(Marshal(globalRequestSuccessMsg{}))
					} else {
						b.WritePacket(Marshal(globalRequestFailureMsg{}))
					}
				default:
					if x.WantReply {
						b.WritePacket(Marshal(globalRequestFailureMsg{}))
					}
				}
			case *channelOpenConfirmMsg:
				res.Confirmed = append(res.Confirmed, x.PeersID)
			case *channelOpenFailureMsg:
				res.Rejected = append(res.Rejected, x.PeersID)
			}
		}
	}()

	var l net.Listener
	var err error
	listen := func() {
		if p.Unix {
			l, err = cl.ListenUnix("/sock")
		} else {
			l, err = cl.ListenTCP(&net.TCPAddr{IP: net.IPv4(10, 0, 0, 1), Port: 2222})
		}
	}
	listen()
	if p.DenyFirst {
		res.FirstListenErr = err != nil
		// nobody listens: an open for the address must be answered with a rejection
		b.WritePacket(openFor(verifC37DeniedID, false))
		verifWaitIdle()
		listen()
	}
	if err != nil {
		res.ListenErr = err.Error()
		b.Close()
		return res
	}
	// The peer's connections arrive once the listener exists on the client side. (A forward
	// that overtakes the registration is rejected as "no forward for address": allowed by the
	// property, but the application could then not count on Accepts <= Forwards.)
	for i := 0; i < p.Forwards; i++ {
		b.WritePacket(openFor(uint32(verifC37FwdBase+i), false))
	}
	for i := 0; i < p.Strangers; i++ {
		b.WritePacket(openFor(uint32(verifC37StrangerBase+i), true))
	}
	for i := 0; i < p.Accepts; i++ {
		if _, err := l.Accept(); err != nil {
			break
		}
		res.Accepted++
	}
	if err := l.Close(); err != nil {
		res.CloseErr = err.Error()
	}
	res.CloseReturned = true
	if p.LateForward {
		b.WritePacket(openFor(verifC37LateID, false))
	}
	for {
		if _, err := l.Accept(); err != nil {
			res.AfterCloseErrored = true
			break
		}
		res.AfterCloseConns++
	}
	verifWaitIdle()
	b.Close()
	return res
}
