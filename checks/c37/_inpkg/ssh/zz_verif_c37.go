package ssh

// Harness for property C37 (remote forward listeners never hang on close). This
// file is added to package ssh through the build overlay and instrumented with it.

import (
	"net"
)

// VerifC37Chan is a stub NewChannel that records what happened to it.
type VerifC37Chan struct {
	Typ      string
	Extra    []byte
	Want     string // "network|addr" the forward was addressed to
	Rejected bool
	Reason   RejectionReason
	GotBy    string // "network|addr" of the listener queue that received it
}

func (c *VerifC37Chan) Accept() (Channel, <-chan *Request, error) { return nil, nil, nil }
func (c *VerifC37Chan) Reject(reason RejectionReason, message string) error {
	c.Rejected = true
	c.Reason = reason
	return nil
}
func (c *VerifC37Chan) ChannelType() string { return c.Typ }
func (c *VerifC37Chan) ExtraData() []byte   { return c.Extra }

// VerifC37Listener describes one registered listener of the scenario.
type VerifC37Listener struct {
	Network, Addr string
	Accepts       int  // Accept calls made by the application before Close
	Close         bool // application closes the listener
}

// VerifC37Forward describes one incoming channel open.
type VerifC37Forward struct {
	Streamlocal bool
	Host        string
	Port        uint32
	Path        string
}

// VerifC37Result is the observation of one execution.
type VerifC37Result struct {
	Chans           []*VerifC37Chan
	Accepted        [][]string // per listener: Want keys of forwards it received
	AcceptAfterOK   []bool     // per closed listener: an Accept after Close and after draining returned an error
	CloseReturned   []bool
	DrainedAfter    []int // forwards returned by Accept after Close (buffered ones)
}

func verifC37Key(network, addr string) string { return network + "|" + addr }

// VerifC37Narrow drives forwardList + handleChannels exactly as Client does
// (handleForwards starts one handleChannels goroutine per channel type, tcpListener /
// unixListener Accept reads the queue, Close calls remove), with stub channels.
// Every application-side listener runs in its own goroutine: Accepts, then Close,
// then Accept until error. The peer goroutine feeds the channel opens.
func VerifC37Narrow(ls []VerifC37Listener, fs []VerifC37Forward) *VerifC37Result {
	l := &forwardList{}
	res := &VerifC37Result{
		Accepted:      make([][]string, len(ls)),
		AcceptAfterOK: make([]bool, len(ls)),
		CloseReturned: make([]bool, len(ls)),
		DrainedAfter:  make([]int, len(ls)),
	}
	tcpIn := make(chan NewChannel, chanSize)
	unixIn := make(chan NewChannel, chanSize)
	go l.handleChannels(tcpIn)
	go l.handleChannels(unixIn)

	queues := make([]chan forward, len(ls))
	for i, li := range ls {
		queues[i] = l.add(li.Network, li.Addr)
	}
	for _, f := range fs {
		c := &VerifC37Chan{}
		if f.Streamlocal {
			c.Typ = "forwarded-streamlocal@openssh.com"
			c.Extra = Marshal(&forwardedStreamLocalPayload{SocketPath: f.Path})
			c.Want = verifC37Key("unix", f.Path)
		} else {
			c.Typ = "forwarded-tcpip"
			c.Extra = Marshal(&forwardedTCPPayload{Addr: f.Host, Port: f.Port, OriginAddr: "192.0.2.7", OriginPort: 4711})
			c.Want = verifC37Key("tcp", net.JoinHostPort(f.Host, itoa(int(f.Port))))
		}
		res.Chans = append(res.Chans, c)
	}
	done := make(chan int, len(ls)+1)
	// the peer: mux delivers channel opens into the per-type queues
	go func() {
		for _, c := range res.Chans {
			if c.Typ == "forwarded-tcpip" {
				tcpIn <- c
			} else {
				unixIn <- c
			}
		}
		done <- -1
	}()
	for i := range ls {
		i := i
		go func() {
			li := ls[i]
			q := queues[i]
			for k := 0; k < li.Accepts; k++ {
				fw, ok := <-q // Accept
				if !ok {
					break
				}
				vc := fw.newCh.(*VerifC37Chan)
				vc.GotBy = verifC37Key(li.Network, li.Addr)
				res.Accepted[i] = append(res.Accepted[i], vc.Want)
			}
			if li.Close {
				l.remove(li.Network, li.Addr) // Listener.Close
				res.CloseReturned[i] = true
				// later Accept calls: buffered forwards may still come out, then an error
				for {
					fw, ok := <-q
					if !ok {
						res.AcceptAfterOK[i] = true
						break
					}
					vc := fw.newCh.(*VerifC37Chan)
					vc.GotBy = verifC37Key(li.Network, li.Addr)
					res.Accepted[i] = append(res.Accepted[i], vc.Want)
					res.DrainedAfter[i]++
				}
			}
			done <- i
		}()
	}
	for i := 0; i < len(ls)+1; i++ {
		<-done
	}
	verifWaitIdle() // handleChannels has dealt with every forward it is going to deal with
	return res
}

func itoa(n int) string {
	if n == 0 {
		return "0"
	}
	var b []byte
	for n > 0 {
		b = append([]byte{byte('0' + n%10)}, b...)
		n /= 10
	}
	return string(b)
}
