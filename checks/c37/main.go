// C37: remote forward listeners never hang on close; forwards go only to a listener
// registered for exactly their address. Interleaving exploration of the real
// forwardList/handleChannels code (package ssh instrumented by cmd/instr).
package main

import (
	"fmt"
	"strings"

	"golang.org/x/crypto/ssh"
	"verif/schedx"
	"verif/vf"
)

func main() { vf.Main("C37", vf.ModelChecking, run) }

type scen struct {
	name string
	ls   []ssh.VerifC37Listener
	fs   []ssh.VerifC37Forward
}

func tcpF(host string, port uint32) ssh.VerifC37Forward { return ssh.VerifC37Forward{Host: host, Port: port} }
func unixF(path string) ssh.VerifC37Forward              { return ssh.VerifC37Forward{Streamlocal: true, Path: path} }

func scenarios(thorough bool) []scen {
	var out []scen
	maxF := 3
	if thorough {
		maxF = 4
	}
	// one tcp listener h:1, F forwards to it, A accepts before Close
	for F := 0; F <= maxF; F++ {
		for A := 0; A <= F; A++ {
			fs := []ssh.VerifC37Forward{}
			for i := 0; i < F; i++ {
				fs = append(fs, tcpF("h", 1))
			}
			out = append(out, scen{fmt.Sprintf("tcp1 F=%d A=%d", F, A), []ssh.VerifC37Listener{{Network: "tcp", Addr: "h:1", Accepts: A, Close: true}}, fs})
		}
	}
	// unix listener
	for F := 0; F <= 3; F++ {
		fs := []ssh.VerifC37Forward{}
		for i := 0; i < F; i++ {
			fs = append(fs, unixF("/s"))
		}
		out = append(out, scen{fmt.Sprintf("unix1 F=%d A=0", F), []ssh.VerifC37Listener{{Network: "unix", Addr: "/s", Accepts: 0, Close: true}}, fs})
	}
	// two listeners, different addresses; forwards for both and for a third, unregistered address
	out = append(out, scen{"tcp2 mixed", []ssh.VerifC37Listener{
		{Network: "tcp", Addr: "h:1", Accepts: 1, Close: true}, {Network: "tcp", Addr: "h:2", Accepts: 0, Close: true}},
		[]ssh.VerifC37Forward{tcpF("h", 1), tcpF("h", 2), tcpF("h", 3), tcpF("g", 1)}})
	// address lookalikes: same port other host, same host other port, tcp vs unix with the same string
	out = append(out, scen{"lookalike", []ssh.VerifC37Listener{
		{Network: "tcp", Addr: "h:1", Accepts: 1, Close: true}, {Network: "unix", Addr: "h:1", Accepts: 1, Close: true}},
		[]ssh.VerifC37Forward{unixF("h:1"), tcpF("h", 1), tcpF("h", 10), tcpF("hh", 1)}})
	// two listeners with the same address (second registration)
	out = append(out, scen{"same-addr twice", []ssh.VerifC37Listener{
		{Network: "tcp", Addr: "h:1", Accepts: 0, Close: true}, {Network: "tcp", Addr: "h:1", Accepts: 0, Close: true}},
		[]ssh.VerifC37Forward{tcpF("h", 1)}})
	// tcp + unix listeners closing concurrently
	out = append(out, scen{"tcp+unix", []ssh.VerifC37Listener{
		{Network: "tcp", Addr: "h:1", Accepts: 0, Close: true}, {Network: "unix", Addr: "/s", Accepts: 0, Close: true}},
		[]ssh.VerifC37Forward{tcpF("h", 1), unixF("/s"), tcpF("h", 1), unixF("/s")}})
	return out
}

func check(sc scen) func(obs any) (string, string) {
	return func(obs any) (string, string) {
		r, _ := obs.(*ssh.VerifC37Result)
		if r == nil {
			return "", ""
		}
		registered := map[string]bool{}
		for _, l := range sc.ls {
			registered[l.Network+"|"+l.Addr] = true
		}
		for i, c := range r.Chans {
			if c.GotBy != "" && c.GotBy != c.Want {
				return "forward delivered to a listener with a different address", fmt.Sprintf("forward %d for %s accepted by listener %s", i, c.Want, c.GotBy)
			}
			if c.GotBy != "" && c.Rejected {
				return "forward both delivered and rejected", fmt.Sprintf("forward %d for %s", i, c.Want)
			}
			if !registered[c.Want] && c.GotBy != "" {
				return "forward for an unregistered address delivered", fmt.Sprintf("forward %d for %s", i, c.Want)
			}
		}
		// every forward for an address whose listeners have all been closed (or that nobody
		// listens on) must have been answered by now: handed to an Accept or rejected;
		// otherwise the peer's channel open hangs for ever
		open := map[string]bool{}
		for _, l := range sc.ls {
			if !l.Close {
				open[l.Network+"|"+l.Addr] = true
			}
		}
		for i, c := range r.Chans {
			if !open[c.Want] && c.GotBy == "" && !c.Rejected {
				return "forward for a closed listener neither delivered nor rejected (the peer's channel open is never answered)", fmt.Sprintf("forward %d for %s", i, c.Want)
			}
		}
		for i, l := range sc.ls {
			if l.Close && !r.CloseReturned[i] {
				return "Close did not return", fmt.Sprint(i)
			}
			if l.Close && !r.AcceptAfterOK[i] {
				return "Accept after Close did not report an error", fmt.Sprint(i)
			}
		}
		return "", ""
	}
}

func outcome(obs any) string {
	r, _ := obs.(*ssh.VerifC37Result)
	if r == nil {
		return "<nil>"
	}
	var b strings.Builder
	for _, c := range r.Chans {
		switch {
		case c.GotBy != "":
			b.WriteString("D")
		case c.Rejected:
			b.WriteString("R")
		default:
			b.WriteString("-")
		}
	}
	fmt.Fprintf(&b, " drained=%v", r.DrainedAfter)
	return b.String()
}

func deadlockClass(blocked []string) string {
	rm, fw := false, false
	for _, b := range blocked {
		if strings.Contains(b, "waits: lock") && strings.Contains(b, "forwardList).remove") {
			rm = true
		}
		if strings.Contains(b, "waits: send") && strings.Contains(b, "forwardList).forward") {
			fw = true
		}
	}
	if rm && fw {
		return "Listener.Close never returns: forwardList.forward blocks sending to a full listener queue while holding the list lock that remove needs"
	}
	return ""
}

func has(l []uint32, id uint32) bool {
	for _, x := range l {
		if x == id {
			return true
		}
	}
	return false
}

func clientCheck(p ssh.VerifC37ClientParams) func(any) (string, string) {
	return func(obs any) (string, string) {
		r, _ := obs.(*ssh.VerifC37ClientResult)
		if r == nil {
			return "", ""
		}
		d := fmt.Sprintf("%+v -> %+v", p, *r)
		if r.ListenErr != "" {
			return "Listen failed although the peer granted the request", d
		}
		if !r.CloseReturned {
			return "Close did not return", d
		}
		if !r.AfterCloseErrored {
			return "Accept after Close did not report an error", d
		}
		if r.Accepted+r.AfterCloseConns > p.Forwards {
			return "more connections accepted than forwards were sent for the address", d
		}
		for i := 0; i < p.Strangers; i++ {
			if has(r.Confirmed, uint32(700+i)) {
				return "forward for an unregistered address delivered", d
			}
			if !has(r.Rejected, uint32(700+i)) {
				return "forward for an unregistered address was not rejected", d
			}
		}
		if p.DenyFirst {
			if !r.FirstListenErr {
				return "Listen reports success although the peer denied the request", d
			}
			if has(r.Confirmed, 950) || !has(r.Rejected, 950) {
				return "forward for an address whose listen request was denied was not rejected", d
			}
		}
		if p.LateForward {
			if has(r.Confirmed, 900) {
				return "forward delivered to a listener after its Close returned", d
			}
			if !has(r.Rejected, 900) {
				return "forward for a closed listener was not rejected", d
			}
		}
		if len(r.Confirmed) != r.Accepted+r.AfterCloseConns {
			return "accepted connections and channel confirmations disagree", d
		}
		return "", ""
	}
}

func clientOutcome(obs any) string {
	r, _ := obs.(*ssh.VerifC37ClientResult)
	if r == nil {
		return "<nil>"
	}
	return fmt.Sprintf("acc=%d after=%d conf=%d rej=%d closeErr=%v", r.Accepted, r.AfterCloseConns, len(r.Confirmed), len(r.Rejected), r.CloseErr != "")
}

// bound 3 (thorough) only for the small narrow scenarios; the larger ones stay at 2
func narrowBound(b, forwards, listeners int) int {
	if b > 2 && (forwards > 2 || listeners > 1) {
		return 2
	}
	return b
}

func run(c *vf.Ctx) {
	bound := 2
	if c.Thorough {
		bound = 3
	}
	c.Rule(fmt.Sprintf("every interleaving with <=%d deviations (narrow harness; <=2 for scenarios with >2 forwards or 2 listeners; real-Client scenarios <=1 quick, <=2 thorough) from the default schedule of each scenario (listeners x forwards x accepts-before-close; real Client: tcp/unix x cancel reply ok/failure x forwards x accepts x late forward), real forwardList/handleChannels/Client goroutines under the cooperative scheduler; non-trivial = scenario with more than one execution; states = distinct end observations", bound))
	c.Assume("package ssh is data-race free (checked by a separate free-running -race pass, not by this check)")
	c.Assume("stub NewChannel values stand in for mux channels; Accept()/Reject() of the stub only record the call")
	var scs []schedx.Scenario
	for _, s := range scenarios(c.Thorough) {
		s := s
		scs = append(scs, schedx.Scenario{
			Name: s.name, Bound: narrowBound(bound, len(s.fs), len(s.ls)),
			Body:          func() any { return ssh.VerifC37Narrow(s.ls, s.fs) },
			Check:         check(s),
			Outcome:       outcome,
			DeadlockClass: deadlockClass,
		})
	}
	// the real Client path: ListenTCP/ListenUnix, Accept, Close over a real mux
	for _, unix := range []bool{false, true} {
		for _, cancelOK := range []bool{true, false} {
			for F := 0; F <= 2; F++ {
				for A := 0; A <= F; A++ {
					for _, late := range []bool{false, true} {
						p := ssh.VerifC37ClientParams{Unix: unix, Forwards: F, Strangers: 1, Accepts: A, CancelOK: cancelOK, LateForward: late}
						cb := 1
						if c.Thorough {
							cb = 2
						}
						scs = append(scs, schedx.Scenario{
							Name: fmt.Sprintf("client unix=%v cancelOK=%v F=%d A=%d late=%v", unix, cancelOK, F, A, late), Group: fmt.Sprintf("real Client unix=%v", unix), Bound: cb,
							Body:          func() any { return ssh.VerifC37Client(p) },
							Check:         clientCheck(p),
							Outcome:       clientOutcome,
							DeadlockClass: deadlockClass,
						})
					}
				}
			}
		}
	}
	// a listen request that the peer denies, an open for that address (must be rejected), then
	// the application asks again and is granted: the second listener must behave like a first one
	for _, unix := range []bool{false, true} {
		for F := 1; F <= 2; F++ {
			for A := 0; A <= F; A++ {
				p := ssh.VerifC37ClientParams{Unix: unix, Forwards: F, Strangers: 1, Accepts: A, CancelOK: true, LateForward: A == F, DenyFirst: true}
				scs = append(scs, schedx.Scenario{
					Name: fmt.Sprintf("client unix=%v first listen denied, retry F=%d A=%d", unix, F, A), Group: fmt.Sprintf("real Client unix=%v denied then granted", unix), Bound: 1,
					Body:          func() any { return ssh.VerifC37Client(p) },
					Check:         clientCheck(p),
					Outcome:       clientOutcome,
					DeadlockClass: deadlockClass,
				})
			}
		}
	}
	schedx.Explore(c, scs)
}
