// C43 hardening pass (HARDEN.md): histories that start from non-empty agent states, requests of
// very different sizes through one connection, long comments / passphrases / messages, and
// passphrases on each side of the comparison's shortcuts. (The caller-owned-buffer dimension
// lives in apply(), ops.go, and so covers every history of the exploration.)
package main

import (
	"fmt"
	"strings"

	"golang.org/x/crypto/ssh/agent"
)

// find returns the index of the alphabet operation with the given name.
func (w *world) find(name string) int {
	for i := 0; i < w.nAlpha; i++ {
		if w.ops[i].name == name {
			return i
		}
	}
	panic("no operation " + name)
}

// script appends a scripted (non-alphabet) operation and returns its index.
func (w *world) script(p op) int {
	names := []string{"E", "R", "C", "CC"}
	switch p.kind {
	case kAdd:
		p.name = fmt.Sprintf("Add(%s,life=%d,comment of %d bytes)", names[p.id], p.life, len(p.comment))
	case kLock:
		p.name = fmt.Sprintf("Lock(passphrase of %d bytes %q..)", len(p.pass), clip(p.pass))
	case kUnlock:
		p.name = fmt.Sprintf("Unlock(passphrase of %d bytes %q..)", len(p.pass), clip(p.pass))
	case kSign:
		p.name = fmt.Sprintf("Sign(%s,flags=%d,data of %d bytes)", names[p.id], p.flags, p.dlen)
	}
	w.ops = append(w.ops, p)
	return len(w.ops) - 1
}

func clip(s string) string {
	if len(s) > 6 {
		return s[:6]
	}
	return s
}

func (w *world) report(h []int, mis string) {
	if mis == "" {
		return
	}
	var names []string
	for _, oi := range h {
		names = append(names, w.ops[oi].name)
	}
	w.c.Violation(classOf(mis), map[string]any{"history": strings.Join(names, " ; "), "mismatch": mis})
}

func (w *world) hardening() {
	w.big = w.c.Bytes("bigdata", 0, 4<<20+1)
	w.fromStates()
	w.sizes()
}

// fromStates: (D) every history of length <= 2 (thorough 3) over the whole alphabet, appended to
// each of 8 prefixes that build a non-empty state: four identities with staggered lifetimes,
// partly expired, locked, with replaced entries — states the breadth-first exploration from
// the empty agent only reaches at depth 5..7.
func (w *world) fromStates() {
	c := w.c
	f := w.find
	addE, addEl := f(`Add(E,life=0,"e")`), f(`Add(E,life=1000,"e-life")`)
	addR := f(`Add(R,life=0,"r")`)
	addC, addCl := f(`Add(C,life=0,"c")`), f(`Add(C,life=1000,"c-life")`)
	addCC, addCCl := f(`Add(CC,life=0,"cert")`), f(`Add(CC,life=1000,"cert-life")`)
	adv := f("Advance(600s)")
	lock := f(`Lock("pw")`)
	rmE, rmR := f("Remove(E)"), f("Remove(R)")
	prefixes := []struct {
		name string
		h    []int
	}{
		{"4 keys, first and third expiring", []int{addEl, addR, addCl, addCC}},
		{"4 keys, last three expiring", []int{addR, addEl, addCCl, addCl}},
		{"4 keys, all expiring, staggered", []int{addEl, addCl, adv, addCCl, addR}},
		{"4 keys, two about to expire, locked", []int{addEl, addR, addCl, addCC, adv, lock}},
		{"4 permanent keys", []int{addE, addR, addC, addCC}},
		{"expiring key replaced by a permanent one, others expiring", []int{addEl, addCl, addCCl, addE, adv}},
		{"permanent key replaced by an expiring one after a removal reordered the slice", []int{addE, addR, addC, addCC, rmE, addCl, addEl}},
		{"slice reordered by two removals, expiring keys at both ends", []int{addEl, addR, addC, addCCl, rmR, addR, adv}},
	}
	depth := 2
	if c.Thorough {
		depth = 3
	}
	n := w.nAlpha
	c.Set("start_state_prefixes", len(prefixes))
	for pi, pf := range prefixes {
		if _, _, mis := w.runHistory(pf.h); mis != "" {
			w.report(pf.h, mis)
			continue
		}
		total := 1
		for d := 1; d <= depth; d++ {
			total *= n
			L := d
			c.ParallelFor(total, func(x int) {
				h := append([]int(nil), pf.h...)
				t := make([]int, L)
				for i := L - 1; i >= 0; i-- {
					t[i] = x % n
					x /= n
				}
				h = append(h, t...)
				key, _, mis := w.runHistory(h)
				c.Transition(3 * len(h))
				c.TraceValidated(3)
				c.Eval(1)
				if mis != "" {
					w.report(h, mis)
					return
				}
				c.State(fmt.Sprintf("H%d|%s", pi, key))
				c.Nontrivial(fmt.Sprintf("H/from/%d/%v", pi, t))
			})
		}
	}
}

// sizes: (A/C/E) scripted histories through ONE connection (and on the keyring directly) whose
// requests differ in size by six orders of magnitude: Sign over 1 byte .. 4 MiB, comments and
// passphrases of 2^k+{-1,0,1} bytes, the small Lock/Unlock/List/Remove requests in between, in
// ascending, descending and alternating order; wrong passphrases that differ from the right one
// only in length, in the last byte, or by a trailing NUL. Every step is compared with the
// abstract agent; keys added BEFORE the big requests must still sign after them and the
// passphrase set before them must still unlock.
func (w *world) sizes() {
	c := w.c
	f := w.find
	long := func(n int, ch string) string { return strings.Repeat(ch, n) }
	signLens := []int{1, 47, 59, 60, 255, 256, 257, 4095, 4096, 4097, 65535, 65536, 65537, 1 << 20, 1<<20 + 1, 4 << 20, 4<<20 + 1}
	var signE, signR, signC, signCC []int
	for _, n := range signLens {
		signE = append(signE, w.script(op{kind: kSign, id: idE, dlen: n}))
		signR = append(signR, w.script(op{kind: kSign, id: idR, dlen: n, flags: agent.SignatureFlagRsaSha256}))
		signC = append(signC, w.script(op{kind: kSign, id: idC, dlen: n}))
		signCC = append(signCC, w.script(op{kind: kSign, id: idCC, dlen: n}))
	}
	var addLong, lockLong, unlockLong, unlockShort, unlockFlip []int
	for _, n := range []int{255, 256, 257, 65535, 65536, 65537} {
		addLong = append(addLong, w.script(op{kind: kAdd, id: idE, comment: long(n, "c")}))
		pw := long(n-1, "p") + "Q"
		lockLong = append(lockLong, w.script(op{kind: kLock, pass: pw}))
		unlockLong = append(unlockLong, w.script(op{kind: kUnlock, pass: pw}))
		unlockShort = append(unlockShort, w.script(op{kind: kUnlock, pass: pw[:n-1]}))
		unlockFlip = append(unlockFlip, w.script(op{kind: kUnlock, pass: long(n-1, "p") + "R"}))
	}
	addE, addR, addC, addCC := f(`Add(E,life=0,"e")`), f(`Add(R,life=0,"r")`), f(`Add(C,life=0,"c")`), f(`Add(CC,life=1000,"cert-life")`)
	list, lock, unlock, signers := f("List"), f(`Lock("pw")`), f(`Unlock("pw")`), f("Signers")
	sE, sR, sC, sCC := f("Sign(E,flags=0)"), f("Sign(R,flags=4)"), f("Sign(C,flags=0)"), f("Sign(CC,flags=0)")
	rmE, rmR := f("Remove(E)"), f("Remove(R)")
	var hs [][]int
	// ascending, descending, alternating message sizes around small requests
	asc := []int{addE, addR, addC, addCC, lock}
	for i := range signLens {
		asc = append(asc, unlock, signE[i], signR[i], list, signC[i], lock)
	}
	asc = append(asc, unlock, sE, sR, sC, sCC, signers)
	hs = append(hs, asc)
	desc := []int{addR, addE, addCC, addC}
	for i := len(signLens) - 1; i >= 0; i-- {
		desc = append(desc, signCC[i], lock, signE[i], unlock, signR[i], list)
	}
	desc = append(desc, sE, sR, sC, sCC, signers)
	hs = append(hs, desc)
	alt := []int{addE, addC}
	for i := range signLens {
		j := len(signLens) - 1 - i
		alt = append(alt, signE[j], signC[i], lock, list, unlock, sE, sC)
	}
	hs = append(hs, alt)
	// keys added, then one very large request, then every key must still sign (and the other way round)
	for i := range signLens {
		hs = append(hs, []int{addE, addR, addC, addCC, lock, unlock, signE[i], sE, sR, sC, sCC, list, rmE, signE[i], sR, rmR, signR[i], sC, signers})
		hs = append(hs, []int{addE, signE[i], addR, signR[i], sE, addC, sR, sE, signC[i], addCC, sC, signCC[i], sCC, list})
	}
	// long comments and passphrases; wrong passphrases close to the right one
	for i := range addLong {
		hs = append(hs, []int{addR, addLong[i], list, sE, lockLong[i], list, unlockShort[i], unlockFlip[i], unlock, sE, unlockLong[i], list, sE, sR, addE, list})
		hs = append(hs, []int{addC, lockLong[i], addLong[i], unlockFlip[i], unlockLong[i], addLong[i], lock, unlockLong[i], unlock, list, sE, sC})
	}
	near := func(pw string) int { return w.script(op{kind: kUnlock, pass: pw}) }
	wrong := []int{near("p"), near("pwx"), near("pw\x00"), near("\x00pw"), near("PW"), near("pw "), near("wp")}
	h := []int{addE, lock}
	for _, u := range wrong {
		h = append(h, u, list, sE)
	}
	h = append(h, unlock, list, sE)
	hs = append(hs, h)
	lockNul := w.script(op{kind: kLock, pass: "pw\x00"})
	hs = append(hs, []int{addE, lockNul, unlock, list, near("pw\x00\x00"), sE, near("pw\x00"), sE})
	c.Set("scripted_size_histories", len(hs))
	c.ParallelFor(len(hs), func(i int) {
		_, _, mis := w.runHistory(hs[i])
		c.Transition(3 * len(hs[i]))
		c.TraceValidated(3)
		c.Eval(1)
		if mis != "" {
			w.report(hs[i], mis)
			return
		}
		c.Nontrivial(fmt.Sprintf("H/sizes/%d", i))
	})
}
