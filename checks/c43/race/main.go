// Free-running companion of C43, built with -race by bin/check (see DESIGN §2.3, "race pass").
// The keyring returned by agent.NewKeyring is documented as safe for concurrent use. The
// sequence exploration of C43 is sequential; this program is the side condition that the
// sequential model is meaningful: goroutines use ONE keyring at the same time (List, Sign,
// Signers, Add, Remove, Lock/Unlock) in states with keys whose lifetime has just run out, and
// the race detector watches. It decides nothing by timing: a report means two conflicting
// accesses inside package ssh/agent are not ordered by any synchronisation.
package main

import (
	"crypto/ed25519"
	"crypto/rand"
	"fmt"
	"os"
	"sync"
	"time"

	"golang.org/x/crypto/ssh"
	"golang.org/x/crypto/ssh/agent"
)

func main() {
	var privs []ed25519.PrivateKey
	for i := 0; i < 6; i++ {
		_, p, err := ed25519.GenerateKey(rand.Reader)
		if err != nil {
			fmt.Println("keygen:", err)
			os.Exit(0)
		}
		privs = append(privs, p)
	}
	rounds := 0
	for round := 0; round < 12; round++ {
		kr := agent.NewKeyring()
		for i, p := range privs[:5] {
			k := agent.AddedKey{PrivateKey: &p, Comment: fmt.Sprint("k", i)}
			if i%2 == 1 {
				k.LifetimeSecs = 1000
			}
			if err := kr.Add(k); err != nil {
				fmt.Println("add:", err)
				os.Exit(0)
			}
		}
		if round%2 == 0 {
			agent.VerifC43AdvanceClock(kr, 1200*time.Second) // the keys with a lifetime have expired, nothing purged them yet
		}
		perm, _ := ssh.NewPublicKey(privs[0].Public())
		var wg sync.WaitGroup
		run := func(f func()) {
			wg.Add(1)
			go func() { defer wg.Done(); f() }()
		}
		run(func() { kr.List() })
		run(func() { kr.List() })
		run(func() { kr.Sign(perm, []byte("data")) })
		run(func() { kr.Signers() })
		switch round % 4 {
		case 1:
			run(func() { kr.Remove(perm) })
		case 2:
			run(func() { kr.Add(agent.AddedKey{PrivateKey: &privs[5], LifetimeSecs: 5}) })
		case 3:
			run(func() { kr.Lock([]byte("pw")); kr.Unlock([]byte("pw")) })
		}
		wg.Wait()
		rounds++
	}
	fmt.Println("race companion: rounds completed:", rounds)
}
