package main

import (
	"crypto/dsa"
	"encoding/binary"
	"errors"
	"fmt"
	"io"
	"strings"

	"golang.org/x/crypto/ssh"
	"golang.org/x/crypto/ssh/agent"
	"verif/vf"
)

// unmerged runs every history of length <= depth (no state merging at all).
func (w *world) unmerged(depth int) {
	c := w.c
	n := w.nAlpha
	total := 1
	for d := 1; d <= depth; d++ {
		total *= n
		L := d
		c.ParallelFor(total, func(x int) {
			h := make([]int, L)
			for i := L - 1; i >= 0; i-- {
				h[i] = x % n
				x /= n
			}
			_, _, mis := w.runHistory(h)
			c.Transition(3 * L)
			c.TraceValidated(3)
			c.Eval(1)
			if mis != "" {
				var names []string
				for _, oi := range h {
					names = append(names, w.ops[oi].name)
				}
				c.Violation(classOf(mis), map[string]any{"history": strings.Join(names, " ; "), "mismatch": mis})
			}
		})
		if c.Expired() {
			c.Capped(fmt.Sprintf("unmerged enumeration stopped inside depth %d", d))
			return
		}
		c.Set("unmerged_depth_completed", d)
	}
}

// classOf strips the per-history part of a mismatch text.
func classOf(mis string) string {
	if i := strings.Index(mis, " [step "); i >= 0 {
		return mis[:i]
	}
	return mis
}

// ---------------------------------------------------------------------------
// ServeAgent totality
// ---------------------------------------------------------------------------

// frameFeeder is the io.ReadWriter handed to ServeAgent: Read delivers the bytes of
// in, Write counts the replies.
type frameFeeder struct {
	in      []byte
	next    func() []byte // optional: produces more input when in is used up (nil = EOF)
	replies int
	hdr     bool
	first   map[byte]int
}

func (f *frameFeeder) Read(p []byte) (int, error) {
	for len(f.in) == 0 {
		if f.next == nil {
			return 0, io.EOF
		}
		f.in = f.next()
		if f.in == nil {
			return 0, io.EOF
		}
	}
	n := copy(p, f.in)
	f.in = f.in[n:]
	return n, nil
}

// ServeAgent writes the 4-byte length and the body with two Write calls.
func (f *frameFeeder) Write(p []byte) (int, error) {
	f.hdr = !f.hdr
	if !f.hdr {
		f.replies++
		if f.first != nil && len(p) > 0 {
			f.first[p[0]]++
		}
	}
	return len(p), nil
}

func frame(length uint32, body []byte) []byte {
	out := make([]byte, 4+len(body))
	binary.BigEndian.PutUint32(out, length)
	copy(out[4:], body)
	return out
}

// loadedKeyring returns a fresh keyring holding every identity.
func (w *world) loadedKeyring() agent.Agent {
	kr := agent.NewKeyring()
	for _, id := range w.ids {
		if err := kr.Add(agent.AddedKey{PrivateKey: id.priv, Certificate: id.cert, Comment: id.name}); err != nil {
			panic(err)
		}
	}
	return kr
}

// recorder captures the request a client call writes and answers SSH_AGENT_FAILURE.
type recorder struct {
	reqs  [][]byte
	reply []byte
}

func (r *recorder) Write(p []byte) (int, error) {
	r.reqs = append(r.reqs, append([]byte(nil), p[4:]...))
	r.reply = append(r.reply, 0, 0, 0, 1, 5)
	return len(p), nil
}

func (r *recorder) Read(p []byte) (int, error) {
	if len(r.reply) == 0 {
		return 0, errors.New("no reply pending")
	}
	n := copy(p, r.reply)
	r.reply = r.reply[n:]
	return n, nil
}

type namedReq struct {
	name string
	body []byte
}

// validRequests records the request message of every client operation, for every key
// type the server can parse.
func (w *world) validRequests() []namedReq {
	rec := &recorder{}
	cl := agent.NewClient(rec) // recorder has no Close: serial client, no goroutine
	var out []namedReq
	do := func(name string, f func()) {
		before := len(rec.reqs)
		f()
		for _, b := range rec.reqs[before:] {
			out = append(out, namedReq{name, b})
		}
	}
	ca := mustSigner(rawKey("ecdsap384"))
	type kt struct {
		name string
		key  any
	}
	keys := []kt{{"rsa", w.ids[idR].priv}, {"dsa", rawKey("dsa").(*dsa.PrivateKey)}, {"ecdsap256", rawKey("ecdsap256")},
		{"ecdsap384", rawKey("ecdsap384")}, {"ecdsap521", rawKey("ecdsap521")}, {"ed25519", w.ids[idE].priv}}
	ext := []agent.ConstraintExtension{{ExtensionName: "verif@example.com", ExtensionDetails: []byte{9, 9}}}
	for _, k := range keys {
		k := k
		do("add "+k.name, func() { cl.Add(agent.AddedKey{PrivateKey: k.key, Comment: "c"}) })
		do("add "+k.name+" constrained", func() {
			cl.Add(agent.AddedKey{PrivateKey: k.key, Comment: "c", LifetimeSecs: lifeSecs, ConfirmBeforeUse: true, ConstraintExtensions: ext})
		})
		cert := &ssh.Certificate{Key: mustSigner(k.key).PublicKey(), CertType: ssh.UserCert, KeyId: "t", ValidBefore: ssh.CertTimeInfinity}
		if err := cert.SignCert(vf.NewRand("c43cert"+k.name), ca); err != nil {
			panic(err)
		}
		do("add "+k.name+" cert", func() { cl.Add(agent.AddedKey{PrivateKey: k.key, Certificate: cert, Comment: "c", LifetimeSecs: 5}) })
	}
	for i, id := range w.ids {
		id := id
		do("remove "+id.name, func() { cl.Remove(id.pub) })
		flags := []agent.SignatureFlags{0}
		if i == idR {
			flags = []agent.SignatureFlags{0, agent.SignatureFlagRsaSha256, agent.SignatureFlagRsaSha512, 8}
		}
		for _, fl := range flags {
			fl := fl
			do(fmt.Sprintf("sign %s flags=%d", id.name, fl), func() { cl.SignWithFlags(id.pub, w.data, fl) })
		}
	}
	do("remove-all", func() { cl.RemoveAll() })
	do("lock", func() { cl.Lock([]byte("pw")) })
	do("lock empty", func() { cl.Lock(nil) })
	do("unlock", func() { cl.Unlock([]byte("pw")) })
	do("list", func() { cl.List() })
	do("extension", func() { cl.Extension("verif@example.com", []byte{1, 2, 3}) })
	return out
}

// serve runs ServeAgent over input on a fresh loaded keyring; a panic is a violation.
func (w *world) serve(what, name string, input []byte, tally map[byte]int) (replies int) {
	f := &frameFeeder{in: input, first: tally}
	kr := w.loadedKeyring()
	if p, v, st := vf.Protect(func() { agent.ServeAgent(kr, f) }); p {
		w.c.Violation("ServeAgent panics: "+what+" ("+strings.SplitN(name, " ", 2)[0]+" request)",
			map[string]any{"request": name, "input_hex": fmt.Sprintf("%x", input), "panic": fmt.Sprint(v), "stack": st})
	}
	return f.replies
}

func (w *world) totality() {
	c := w.c

	// (1) every request body of 1..3 bytes (and the empty frame), sharded by first byte.
	var short int64
	c.ParallelFor(256, func(b0 int) {
		i := -1 // -1: body {b0}; 0..255: {b0,i}; then {b0,x,y}
		f := &frameFeeder{}
		f.next = func() []byte {
			defer func() { i++ }()
			switch {
			case i == -1:
				return frame(1, []byte{byte(b0)})
			case i < 256:
				return frame(2, []byte{byte(b0), byte(i)})
			case i < 256+65536:
				j := i - 256
				return frame(3, []byte{byte(b0), byte(j >> 8), byte(j)})
			}
			return nil
		}
		kr := w.loadedKeyring()
		if p, v, st := vf.Protect(func() { agent.ServeAgent(kr, f) }); p {
			c.Violation(fmt.Sprintf("ServeAgent panics: request body of <=3 bytes (type %d)", b0),
				map[string]any{"first_byte": b0, "index": i, "panic": fmt.Sprint(v), "stack": st})
		}
		n := 1 + 256 + 65536
		c.Eval(n)
		c.Add("short_frames", int64(n))
		c.Add("short_frame_replies", int64(f.replies))
		_ = short
	})
	w.serve("zero-length frame", "empty", frame(0, nil), nil)
	for n := 0; n < 4; n++ { // input ending inside the length prefix
		w.serve("input ends inside the length prefix", "eof", make([]byte, n), nil)
	}

	// (2) faults of every valid request message
	reqs := w.validRequests()
	c.Set("valid_request_messages", len(reqs))
	tally := make([]map[byte]int, len(reqs))
	c.ParallelFor(len(reqs), func(ri int) {
		r := reqs[ri]
		m := r.body
		t := map[byte]int{}
		tally[ri] = t
		cases := 0
		// the message itself must be answered
		if w.serve("valid message", r.name, frame(uint32(len(m)), m), t) != 1 {
			c.Violation("ServeAgent does not answer a valid request", map[string]any{"request": r.name})
		}
		// every truncation, framed consistently
		for k := 1; k < len(m); k++ {
			w.serve("truncated message", r.name, frame(uint32(k), m[:k]), t)
			cases++
		}
		// every truncation with the original frame length (input ends early)
		for k := 0; k < len(m); k += 1 + len(m)/64 {
			w.serve("input ends inside the message", r.name, frame(uint32(len(m)), m[:k]), t)
			cases++
		}
		// frame length rewrites
		for _, l := range []uint32{0, 1, uint32(len(m)) - 1, uint32(len(m)) + 1, 16 << 20, 16<<20 + 1, 0x7fffffff, 0xffffffff} {
			w.serve("frame length rewritten", r.name, frame(l, m), t)
			cases++
		}
		// internal length fields: every offset whose 32-bit value could be a length (it does not
		// exceed what follows) is rewritten
		for i := 1; i+4 <= len(m); i++ {
			orig := binary.BigEndian.Uint32(m[i:])
			rest := uint32(len(m) - i - 4)
			if orig > rest {
				continue
			}
			for _, v := range []uint32{0, orig - 1, orig + 1, rest, rest + 1, 0x7fffffff, 0x80000000, 0xffffffff} {
				if v == orig {
					continue
				}
				mm := append([]byte(nil), m...)
				binary.BigEndian.PutUint32(mm[i:], v)
				w.serve("length field rewritten", r.name, frame(uint32(len(mm)), mm), t)
				cases++
			}
		}
		c.Eval(cases + 1)
		c.Add("request_fault_cases", int64(cases))
		c.Nontrivial("faults of " + r.name)
	})
	success, failure, other := 0, 0, 0
	for _, t := range tally {
		for b, n := range t {
			switch b {
			case 6, 12, 14:
				success += n
			case 5:
				failure += n
			default:
				other += n
			}
		}
	}
	c.Set("fault_replies", map[string]int{"success/answer": success, "failure": failure, "other": other})
	if success == 0 || failure == 0 {
		c.Violation("harness: request faults never produced both successes and failures", map[string]int{"success": success, "failure": failure})
	}
}
