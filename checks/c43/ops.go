package main

import (
	"fmt"
	"io"
	"math"
	"net"
	"sort"
	"strings"
	"time"

	"golang.org/x/crypto/ssh"
	"golang.org/x/crypto/ssh/agent"
	"verif/ref/agentref"
	sig "verif/ref/sshsigref"
	"verif/vf"
)

const (
	lifeSecs    = 1000 // lifetime constraint used by the histories
	advanceSecs = 600  // one clock step
)

type opKind int

const (
	kAdd opKind = iota
	kRemove
	kRemoveAll
	kLock
	kUnlock
	kList
	kSign
	kSigners
	kExtension
	kAdvance
)

type op struct {
	kind    opKind
	id      int
	life    uint32
	comment string
	confirm bool
	ext     bool
	pass    string
	flags   agent.SignatureFlags
	secs    int64 // kAdvance
	name    string
	dlen    int // kSign: length of the signed data (0 = the default 48 bytes)
}

func alphabet() []op {
	var o []op
	add := func(id int, life uint32, comment string) {
		o = append(o, op{kind: kAdd, id: id, life: life, comment: comment})
	}
	add(idE, 0, "e")
	add(idE, lifeSecs, "e-life")
	add(idR, 0, "r")
	add(idC, 0, "c")
	add(idC, lifeSecs, "c-life")
	add(idCC, 0, "cert")
	add(idCC, lifeSecs, "cert-life")
	o = append(o, op{kind: kAdd, id: idE, comment: "e-confirm", confirm: true})
	o = append(o, op{kind: kAdd, id: idC, comment: "c-ext", ext: true})
	for id := 0; id < nIdent; id++ {
		o = append(o, op{kind: kRemove, id: id})
	}
	o = append(o, op{kind: kRemoveAll})
	o = append(o, op{kind: kLock, pass: "pw"}, op{kind: kLock, pass: ""})
	o = append(o, op{kind: kUnlock, pass: "pw"}, op{kind: kUnlock, pass: "pW"}, op{kind: kUnlock, pass: ""})
	o = append(o, op{kind: kList})
	o = append(o, op{kind: kSign, id: idE}, op{kind: kSign, id: idC}, op{kind: kSign, id: idCC})
	o = append(o, op{kind: kSign, id: idR}, op{kind: kSign, id: idR, flags: agent.SignatureFlagRsaSha256},
		op{kind: kSign, id: idR, flags: agent.SignatureFlagRsaSha512}, op{kind: kSign, id: idR, flags: 8})
	o = append(o, op{kind: kSigners}, op{kind: kExtension}, op{kind: kAdvance, secs: advanceSecs}, op{kind: kAdvance, secs: 2 * advanceSecs})
	names := []string{"E", "R", "C", "CC"}
	for i := range o {
		p := &o[i]
		switch p.kind {
		case kAdd:
			p.name = fmt.Sprintf("Add(%s,life=%d,%q", names[p.id], p.life, p.comment)
			if p.confirm {
				p.name += ",confirm"
			}
			if p.ext {
				p.name += ",constraint-ext"
			}
			p.name += ")"
		case kRemove:
			p.name = "Remove(" + names[p.id] + ")"
		case kRemoveAll:
			p.name = "RemoveAll"
		case kLock:
			p.name = fmt.Sprintf("Lock(%q)", p.pass)
		case kUnlock:
			p.name = fmt.Sprintf("Unlock(%q)", p.pass)
		case kList:
			p.name = "List"
		case kSign:
			p.name = fmt.Sprintf("Sign(%s,flags=%d)", names[p.id], p.flags)
		case kSigners:
			p.name = "Signers"
		case kExtension:
			p.name = "Extension"
		case kAdvance:
			p.name = fmt.Sprintf("Advance(%ds)", p.secs)
		}
	}
	return o
}

// kindName is the coarse operation name used in violation classes.
func (p op) kindName() string {
	switch p.kind {
	case kAdd:
		s := "Add"
		if p.cert() {
			s += "(cert)"
		}
		if p.confirm {
			s += "(confirm)"
		}
		if p.ext {
			s += "(constraint-ext)"
		}
		if p.life > 0 {
			s += "(lifetime)"
		}
		return s
	case kSign:
		if p.flags != 0 {
			return fmt.Sprintf("Sign(flags=%d)", p.flags)
		}
		return "Sign"
	}
	return strings.SplitN(p.name, "(", 2)[0]
}

func (p op) cert() bool { return p.id == idCC }

// ---------------------------------------------------------------------------
// one real agent under test
// ---------------------------------------------------------------------------

type sut struct {
	mode    string
	ag      agent.ExtendedAgent // what the history talks to
	keyring agent.Agent         // the keyring behind it (for the clock and state hooks)
	close   func()
}

type noCloser struct {
	io.Reader
	io.Writer
}

func newSUT(mode int) *sut {
	kr := agent.NewKeyring()
	switch mode {
	case 0:
		return &sut{mode: "direct", ag: kr.(agent.ExtendedAgent), keyring: kr, close: func() {}}
	default:
		cli, srv := net.Pipe()
		done := make(chan struct{})
		go func() {
			defer close(done)
			defer func() { recover() }() // a panic in ServeAgent surfaces as a failed call below
			agent.ServeAgent(kr, srv)
		}()
		s := &sut{keyring: kr}
		if mode == 1 {
			s.mode = "pipelined client"
			s.ag = agent.NewClient(cli)
		} else {
			s.mode = "serial client"
			s.ag = agent.NewClient(noCloser{cli, cli})
		}
		s.close = func() { cli.Close(); srv.Close(); <-done }
		return s
	}
}

// ---------------------------------------------------------------------------
// running one history
// ---------------------------------------------------------------------------

func listString(ids []string) string { return "[" + strings.Join(ids, " ") + "]" }

// apply performs p on the real agent and returns its observation.
func (w *world) apply(s *sut, p op) string {
	errStr := func(err error) string {
		if err != nil {
			return "err"
		}
		return "ok"
	}
	id := w.ids[p.id]
	// hardening (the caller owns its buffers): every slice handed to the agent is a private copy
	// that is overwritten as soon as the call has returned, and every slice the agent hands out
	// (listed blobs, signature blobs) is overwritten once it has been looked at. One exception:
	// the passphrase given to Lock on the keyring ITSELF is not overwritten, because
	// keyring.Lock keeps the caller's slice (as upstream does; not documented either way).
	// Through ServeAgent the passphrase travels in the request and is overwritten here.
	own := func(b []byte) []byte { return append(make([]byte, 0, len(b)+8), b...) }
	switch p.kind {
	case kAdd:
		k := agent.AddedKey{PrivateKey: id.priv, Certificate: id.cert, Comment: p.comment, LifetimeSecs: p.life, ConfirmBeforeUse: p.confirm}
		if p.ext {
			k.ConstraintExtensions = []agent.ConstraintExtension{{ExtensionName: "verif@example.com", ExtensionDetails: []byte{1, 2, 3}}}
		}
		return errStr(s.ag.Add(k))
	case kRemove:
		return errStr(s.ag.Remove(id.pub))
	case kRemoveAll:
		return errStr(s.ag.RemoveAll())
	case kLock:
		pw := own([]byte(p.pass))
		r := errStr(s.ag.Lock(pw))
		if string(pw) != p.pass {
			return "BAD: Lock modifies the passphrase slice it was given"
		}
		if s.mode != "direct" {
			wipe(pw)
		}
		return r
	case kUnlock:
		pw := own([]byte(p.pass))
		r := errStr(s.ag.Unlock(pw))
		if string(pw) != p.pass {
			return "BAD: Unlock modifies the passphrase slice it was given"
		}
		wipe(pw)
		return r
	case kList:
		keys, err := s.ag.List()
		if err != nil {
			return "err"
		}
		var out []string
		seen := map[int]bool{}
		defer func() {
			for _, k := range keys {
				if k != nil {
					wipe(k.Blob)
				}
			}
		}()
		for _, k := range keys {
			i, ok := w.byBlob[string(k.Blob)]
			switch {
			case !ok:
				return "BAD: lists a key nobody added"
			case seen[i]:
				return "BAD: lists an identity twice"
			case k.Format != w.ids[i].pub.Type():
				return "BAD: listed key format does not match its blob"
			}
			seen[i] = true
			out = append(out, fmt.Sprintf("%s(%q)", w.ids[i].name, k.Comment))
		}
		sort.Strings(out)
		return listString(out)
	case kSign:
		var sg *ssh.Signature
		var err error
		orig := w.msg(p)
		data := own(orig)
		if p.flags == 0 {
			sg, err = s.ag.Sign(id.pub, data)
		} else {
			sg, err = s.ag.SignWithFlags(id.pub, data, p.flags)
		}
		if string(data) != string(orig) {
			return "BAD: Sign modifies the data it was given"
		}
		wipe(data)
		if err != nil {
			return "err"
		}
		r := w.checkSig(id, sg, orig)
		if sg != nil {
			wipe(sg.Blob)
		}
		return r
	case kSigners:
		signers, err := s.ag.Signers()
		if err != nil {
			return "signers-err"
		}
		var out []string
		seen := map[int]bool{}
		for _, sn := range signers {
			i, ok := w.byBlob[string(sn.PublicKey().Marshal())]
			if !ok {
				return "BAD: signer for a key nobody added"
			}
			if seen[i] {
				return "BAD: two signers for one identity"
			}
			seen[i] = true
			sg, err := sn.Sign(nil, own(w.data))
			if err != nil {
				return "BAD: a returned signer cannot sign"
			}
			if r := w.checkSig(w.ids[i], sg, w.data); strings.HasPrefix(r, "BAD") {
				return r
			}
			out = append(out, w.ids[i].name)
		}
		sort.Strings(out)
		return listString(out)
	case kExtension:
		_, err := s.ag.Extension("verif@example.com", []byte{1, 2})
		if err == agent.ErrExtensionUnsupported {
			return "unsupported"
		}
		return fmt.Sprintf("other(%v)", err)
	case kAdvance:
		if !agent.VerifC43AdvanceClock(s.keyring, time.Duration(p.secs)*time.Second) {
			return "BAD: hook failed"
		}
		return "-"
	}
	panic("unknown op")
}

// checkSig verifies a signature under the named identity with the independent verifier.
func (w *world) checkSig(id ident, sg *ssh.Signature, data []byte) string {
	if sg == nil {
		return "BAD: nil signature without error"
	}
	if len(sg.Rest) != 0 {
		return "BAD: signature with trailing data"
	}
	if v, _ := sig.Verify(id.ref, data, sig.Sig{Format: sg.Format, Blob: sg.Blob}, false); v != sig.Valid {
		return "BAD: signature does not verify under the named key"
	}
	return "sig:" + sg.Format
}

// expect performs p on the model and returns the set of acceptable observations.
func (w *world) expect(m *agentref.Agent, p op) []string {
	okStr := func(b bool) []string {
		if b {
			return []string{"ok"}
		}
		return []string{"err"}
	}
	name := w.ids[p.id].name
	switch p.kind {
	case kAdd:
		return okStr(m.Add(name, p.comment, p.life, p.confirm || p.ext))
	case kRemove:
		return okStr(m.Remove(name))
	case kRemoveAll:
		return okStr(m.RemoveAll())
	case kLock:
		return okStr(m.Lock(p.pass))
	case kUnlock:
		return okStr(m.Unlock(p.pass))
	case kList:
		var out []string
		for _, id := range m.List() {
			out = append(out, fmt.Sprintf("%s(%q)", id, m.Keys[id].Comment))
		}
		return []string{listString(out)}
	case kSign:
		if !m.CanSign(name) {
			return []string{"err"}
		}
		plain := w.ids[p.id].ref.Type // the signature format of a non-RSA key is its plain key format
		switch {
		case p.id != idR:
			return []string{"sig:" + plain}
		case p.flags == 0:
			return []string{"sig:" + sig.RSA}
		case p.flags == agent.SignatureFlagRsaSha256:
			return []string{"sig:" + sig.RSASHA256}
		case p.flags == agent.SignatureFlagRsaSha512:
			return []string{"sig:" + sig.RSASHA512}
		default: // unknown flag bit: refusing and ignoring the bit are both defensible
			return []string{"err", "sig:" + sig.RSA, "sig:" + sig.RSASHA256, "sig:" + sig.RSASHA512}
		}
	case kSigners:
		if m.Locked {
			return []string{"[]", "signers-err"}
		}
		return []string{listString(m.List())}
	case kExtension:
		return []string{"unsupported"}
	case kAdvance:
		m.Advance(p.secs)
		return []string{"-"}
	}
	panic("unknown op")
}

// realState renders the keyring's private state (hook) and checks it against the model:
// the stored, unexpired keys are exactly the model's, with the model's comment and
// remaining life; locked flag and (while locked) passphrase agree.
func (w *world) realState(s *sut, m *agentref.Agent) (key string, bad string) {
	keys, locked, pass, ok := agent.VerifC43State(s.keyring)
	if !ok {
		return "", "hook failed"
	}
	var sb strings.Builder
	live := map[string]bool{}
	for _, k := range keys {
		i, known := w.byBlob[string(k.Blob)]
		if !known {
			return "", "keyring stores a key nobody added"
		}
		name := w.ids[i].name
		life := agentref.Forever
		if k.HasExpiry {
			// remaining time to the nearest 100 s; the histories only produce 1000, 400, -200, ...
			life = int64(math.Round(k.Remaining.Seconds()/100)) * 100
		}
		fmt.Fprintf(&sb, "%s(%q,%d) ", name, k.Comment, life)
		if k.HasExpiry && life <= 0 {
			continue // expired, waiting to be purged: invisible
		}
		if live[name] {
			return "", "keyring stores an identity twice"
		}
		live[name] = true
		mk, held := m.Keys[name]
		switch {
		case !held:
			return "", "keyring holds a key the model does not"
		case mk.Comment != k.Comment:
			return "", "stored comment differs from the model"
		case mk.Life != life:
			return "", "stored remaining lifetime differs from the model"
		}
	}
	if len(live) != len(m.Keys) {
		return "", "model holds a key the keyring does not"
	}
	if locked != m.Locked {
		return "", "locked flag differs from the model"
	}
	if locked {
		if string(pass) != m.Pass {
			return "", "stored passphrase differs from the model"
		}
		fmt.Fprintf(&sb, "LOCKED(%q)", pass)
	}
	return sb.String(), ""
}

const classRemoveExpired = "Remove succeeds for a key whose lifetime has already expired (expired keys are only purged by List/Sign/Signers)"

func (w *world) histNames(h []int) string {
	var n []string
	for _, oi := range h {
		n = append(n, w.ops[oi].name)
	}
	return strings.Join(n, " ; ")
}

func contains(v []string, s string) bool {
	for _, x := range v {
		if x == s {
			return true
		}
	}
	return false
}

// runModes replays hist on a fresh agent in every mode against a fresh model.
func (w *world) runHistory(hist []int) (key string, stop bool, mismatch string) {
	for mode := 0; mode < 3; mode++ {
		k, mis := w.runOne(mode, hist)
		if mis != "" {
			return "", false, mis
		}
		if mode == 0 {
			key = k
		} else if k != key {
			return "", false, "keyring state behind ServeAgent differs from the directly driven keyring"
		}
	}
	return key, false, ""
}

func (w *world) runOne(mode int, hist []int) (key string, mismatch string) {
	s := newSUT(mode)
	defer s.close()
	m := agentref.New()
	// expired: identities the model dropped because their lifetime ran out and that have
	// not been added or removed since.
	expired := map[string]bool{}
	for step, oi := range hist {
		p := w.ops[oi]
		var got string
		panicked, pv, _ := vf.Protect(func() { got = w.apply(s, p) })
		if panicked {
			return "", fmt.Sprintf("%s via %s panics: %v", p.kindName(), s.mode, pv)
		}
		held := map[string]bool{}
		for id := range m.Keys {
			held[id] = true
		}
		want := w.expect(m, p)
		name := w.ids[p.id].name
		switch p.kind {
		case kAdvance:
			for id := range held {
				if _, still := m.Keys[id]; !still {
					expired[id] = true
				}
			}
		case kAdd:
			if want[0] == "ok" {
				delete(expired, name)
			}
		case kRemoveAll:
			if want[0] == "ok" {
				expired = map[string]bool{}
			}
		case kRemove:
			if expired[name] && !m.Locked {
				delete(expired, name)
				if got == "ok" {
					// Known deviation (see known_findings.txt): reported, then tolerated so that
					// the histories behind it are still explored.
					w.c.Violation(classRemoveExpired, map[string]any{"history": w.histNames(hist[:step+1]), "mode": s.mode,
						"real": "Remove returns nil", "abstract agent": "the key expired, Remove fails (not found)"})
					got = "err"
				}
			}
		}
		w.c.Outcome(p.kindName() + " -> " + coarse(got))
		if strings.HasPrefix(got, "BAD") {
			return "", fmt.Sprintf("%s via %s: %s", p.kindName(), s.mode, got[5:])
		}
		if !contains(want, got) {
			return "", fmt.Sprintf("%s via %s: real %s, abstract agent %s (locked=%v) [step %d: got %s want %s]",
				p.kindName(), s.mode, coarse(got), coarse(want[0]), lockedBefore(m, p), step+1, got, strings.Join(want, "|"))
		}
		k, bad := w.realState(s, m)
		if bad != "" {
			return "", fmt.Sprintf("after %s via %s: %s", p.kindName(), s.mode, bad)
		}
		key = k
	}
	return key + "|" + m.StateKey(), ""
}

// lockedBefore is only used to make violation classes informative; after Lock/Unlock the
// model has already moved, which is fine for a label.
func lockedBefore(m *agentref.Agent, p op) bool { return m.Locked }

// coarse maps an observation to its class (for outcome tallies and violation classes).
func coarse(o string) string {
	switch {
	case strings.HasPrefix(o, "["):
		if o == "[]" {
			return "empty-list"
		}
		return "list"
	case strings.HasPrefix(o, "other("):
		return "other"
	}
	return o
}

func wipe(b []byte) {
	for i := range b {
		b[i] ^= 0xFF
	}
}

// msg is the data a Sign operation signs.
func (w *world) msg(p op) []byte {
	if p.dlen == 0 {
		return w.data
	}
	return w.big[:p.dlen]
}
