// C43: the SSH agent keyring and protocol behave like the abstract agent.
//
// Sequence mode: every history over the operation alphabet up to depth D (state merging
// on the keyring's private state read through the verif hook + the model state) is run
// on a fresh agent.NewKeyring (a) directly, (b) through agent.NewClient (pipelined
// transport) <-> agent.ServeAgent over net.Pipe, (c) through the serialised client
// (transport without Close), each compared step by step with verif/ref/agentref.
// Totality: see totality.go.
package main

import (
	"crypto/ecdsa"
	"crypto/ed25519"
	"crypto/rand"
	"crypto/rsa"
	"fmt"
	"io"
	"log"

	"golang.org/x/crypto/ssh"
	"golang.org/x/crypto/ssh/testdata"
	sig "verif/ref/sshsigref"
	"verif/vf"
)

func main() { vf.Main("C43", vf.ModelChecking, run) }

// ident is one identity (plain key or certificate) the histories work with.
type ident struct {
	name string
	priv any              // what goes into AddedKey.PrivateKey
	cert *ssh.Certificate // non-nil for the certificate identity
	pub  ssh.PublicKey    // the identity as listed / named in requests
	blob []byte
	ref  *sig.PubKey // independent verifier's view of the underlying public key
}

func rawKey(name string) any {
	k, err := ssh.ParseRawPrivateKey(testdata.PEMBytes[name])
	if err != nil {
		panic(err)
	}
	return k
}

func mustSigner(k any) ssh.Signer {
	s, err := ssh.NewSignerFromKey(k)
	if err != nil {
		panic(err)
	}
	return s
}

func refKey(k any) *sig.PubKey {
	switch p := k.(type) {
	case *rsa.PrivateKey:
		return sig.FromRSA(&p.PublicKey)
	case *ecdsa.PrivateKey:
		return sig.FromECDSA(&p.PublicKey)
	case *ed25519.PrivateKey:
		return sig.FromEd25519((*p).Public().(ed25519.PublicKey))
	case ed25519.PrivateKey:
		return sig.FromEd25519(p.Public().(ed25519.PublicKey))
	}
	panic(fmt.Sprintf("refKey: %T", k))
}

func mkIdent(name string, k any, ca ssh.Signer) ident {
	s := mustSigner(k)
	id := ident{name: name, priv: k, pub: s.PublicKey(), ref: refKey(k)}
	if ca != nil {
		cert := &ssh.Certificate{Key: s.PublicKey(), Serial: 43, CertType: ssh.UserCert, KeyId: "c43",
			ValidPrincipals: []string{"u"}, ValidBefore: ssh.CertTimeInfinity}
		if err := cert.SignCert(rand.Reader, ca); err != nil {
			panic(err)
		}
		id.cert, id.pub = cert, cert
	}
	id.blob = id.pub.Marshal()
	return id
}

// identity indices
const (
	idE  = iota // ed25519
	idR         // rsa 2048
	idC         // ecdsa p256
	idCC        // certificate over the ecdsa p256 key
	nIdent
)

type world struct {
	c      *vf.Ctx
	ids    []ident
	byBlob map[string]int
	data   []byte
	ops    []op
	big    []byte // source of long messages (hardening)
	nAlpha int    // w.ops[:nAlpha] is the alphabet of the exploration; the rest are scripted operations
}

func run(c *vf.Ctx) {
	log.SetOutput(io.Discard) // ServeAgent logs every failed request
	c.RaceCompanion("one keyring", "golang.org/x/crypto/ssh/agent.")
	c.Rule("sequence mode: every history over the operation alphabet up to depth D (4 quick, 6 thorough), a successor being expanded only when (private keyring state read verbatim through the hook, model state) is new; each history replayed from scratch on a fresh keyring directly, through the pipelined client<->ServeAgent and through the serialised client<->ServeAgent, every step compared with the abstract agent. A state is non-trivial from depth 2 on. Hardening: in EVERY history each slice handed to the agent (passphrase, data) is a private copy that is overwritten when the call returns and each slice handed out (listed blobs, signature blobs) is overwritten after inspection (exception: the passphrase given to Lock on the keyring directly, which keyring.Lock keeps as upstream does); every history of length <=2 (thorough 3) over the whole alphabet appended to 8 prefixes that build non-empty states (four identities, staggered / partly elapsed lifetimes, locked, replaced entries, slice reordered by removals); 51 scripted histories through one connection with Sign over 1 B .. 4 MiB+1 (17 sizes incl. 2^k+-1) in ascending / descending / alternating order between small Lock/Unlock/List/Remove requests, comments and passphrases of 255..65537 bytes, and wrong passphrases that differ from the right one in length, last byte, case, a NUL or a blank. Totality: every request body of <=3 bytes, and every truncation, internal length-field rewrite and frame-length rewrite of every valid request message, through ServeAgent without panic")
	c.Assume("keys are fixed test keys (ssh/testdata); signatures are verified by the independent verifier ref/sshsigref (stdlib rsa/ecdsa/ed25519)")
	c.Assume("time: lifetimes are 1000 s and the clock advances in steps of 600 s by moving the stored expiry times through the verif hook (keyring.go reads time.Now() directly); no real waiting, the 400 s margin makes wall-clock jitter irrelevant")
	c.Assume("List/Signers are compared as sets (the abstract agent has no order); Signers on a locked agent may fail or return nothing")
	c.Assume("Sign with an unknown flag bit on a held RSA key may fail or produce any valid signature; flags are only used with the RSA key")

	rsaKey := rawKey("rsa").(*rsa.PrivateKey)
	rsaKey.Precompute() // so that the client's own Precompute call never writes to the shared key
	ca := mustSigner(rawKey("ecdsap384"))
	w := &world{c: c, byBlob: map[string]int{}, data: c.Bytes("data", 0, 48)}
	w.ids = []ident{
		mkIdent("E", rawKey("ed25519"), nil),
		mkIdent("R", rsaKey, nil),
		mkIdent("C", rawKey("ecdsap256"), nil),
		mkIdent("CC", rawKey("ecdsap256"), ca),
	}
	for i, id := range w.ids {
		w.byBlob[string(id.blob)] = i
	}
	w.ops = alphabet()
	w.nAlpha = len(w.ops)
	c.Set("alphabet_ops", len(w.ops))

	depth := 4
	if c.Thorough {
		depth = 6
	}
	idx := make([]int, w.nAlpha)
	for i := range idx {
		idx[i] = i
	}
	vf.ExploreSeq(c, "agent", vf.SeqSpec[int]{
		Ops:      idx,
		Depth:    depth,
		Parallel: true,
		Name:     func(i int) string { return w.ops[i].name },
		Run:      w.runHistory,
		Class:    func(h []int, mis string) string { return classOf(mis) },
	})
	c.Set("modes", []string{"direct keyring", "pipelined client <-> ServeAgent", "serial client <-> ServeAgent"})

	// Without merging, to a smaller depth: every history, whatever state it reaches.
	plainDepth := 3
	if c.Thorough {
		plainDepth = 4
	}
	w.unmerged(plainDepth)
	w.hardening()

	w.totality()
}
