// Free-running companion of C09, built with -race by bin/check (DESIGN §2.3 (7b)).
// salsa.XORKeyStream and the portable implementation behind it are pure functions of their
// arguments; several goroutines call them at the same time with different keys and counters.
// Every result is compared with the result of the same call made alone beforehand, and the race
// detector watches for package-level scratch state.
package main

import (
	"bytes"
	"fmt"
	"sync"

	"golang.org/x/crypto/salsa20"
	"golang.org/x/crypto/salsa20/salsa"
)

type fn struct {
	name string
	f    func(out, in []byte, ctr *[16]byte, key *[32]byte)
}

func main() {
	fns := []fn{
		{"salsa.XORKeyStream", salsa.XORKeyStream},
		{"genericXORKeyStream", salsa.VerifC09GenericXORKeyStream},
		{"salsa20.XORKeyStream(24-byte nonce)", func(out, in []byte, ctr *[16]byte, key *[32]byte) {
			nonce := append(append([]byte{}, ctr[:]...), ctr[:8]...)
			salsa20.XORKeyStream(out, in, nonce, key)
		}},
	}
	rounds := 0
	for _, f := range fns {
		const G, N = 4, 200
		type job struct {
			key      [32]byte
			ctr      [16]byte
			in, want []byte
		}
		jobs := make([][]*job, G)
		for g := 0; g < G; g++ {
			for i := 0; i < N; i++ {
				j := &job{in: bytes.Repeat([]byte{byte(g*31 + i)}, 1+(i*53)%900)}
				for k := range j.key {
					j.key[k] = byte(g*17 + i + k)
				}
				j.ctr[0], j.ctr[8] = byte(i), byte(g)
				j.want = make([]byte, len(j.in))
				f.f(j.want, j.in, &j.ctr, &j.key)
				jobs[g] = append(jobs[g], j)
			}
		}
		var wg sync.WaitGroup
		var mu sync.Mutex
		bad := ""
		for g := 0; g < G; g++ {
			wg.Add(1)
			go func(g int) {
				defer wg.Done()
				for i, j := range jobs[g] {
					out := make([]byte, len(j.in))
					f.f(out, j.in, &j.ctr, &j.key)
					if !bytes.Equal(out, j.want) {
						mu.Lock()
						if bad == "" {
							bad = fmt.Sprintf("%s: goroutine %d call %d (%d bytes) differs from the same call made alone", f.name, g, i, len(j.in))
						}
						mu.Unlock()
						return
					}
				}
			}(g)
		}
		wg.Wait()
		if bad != "" {
			fmt.Println("COMPANION-MISMATCH:", bad)
		}
		rounds++
	}
	fmt.Println("race companion: rounds completed:", rounds)
}
