// C09: Salsa20 / XSalsa20 keystream = specification, 64-bit block-counter carry and wrap,
// assembly and portable implementations agree; HSalsa20 and Core208 equal their definitions.
//
// Grid (all points enumerated, nothing sampled):
//
//	salsa.XORKeyStream (amd64 assembly) and the portable genericXORKeyStream (hook)
//	  x starting block counter in {0,1, 2^(8k)-3..2^(8k) for k=1..7, 2^32-9..2^32+1, 2^64-9..2^64-1, seeded}
//	  x every length 0..L (L=1100 quick, 4200 thorough) and {2000,4096}
//	  x {disjoint buffers, in==out} x key/nonce value classes x data classes
//	one-hot sweep: every single bit of key and of the 16-byte counter block, both paths
//	long inputs: 2^k+{-1,0,1,63,64,65}, k=16..22 (24 thorough), both paths, 13 starting counters
//	  (carry / wrap / byte-carry placed 2^j blocks deep inside the call)
//	salsa20.XORKeyStream: nonce 8 and 24 bytes x every length x {disjoint, longer out, in==out}
//	  x value classes; one-hot sweep over key and nonce bits; the long lengths again
//	HSalsa20, Core208: value classes + every one-hot input, with and without out aliasing an input,
//	  destination pre-loaded; every argument (key, nonce, counter, input, Sigma) unchanged after the call
package main

import (
	"bytes"
	"encoding/binary"
	"fmt"
	"runtime"

	"golang.org/x/crypto/salsa20"
	"golang.org/x/crypto/salsa20/salsa"
	"verif/ref/salsaref"
	"verif/vf"
)

func main() { vf.Main("C09", vf.Exploration, run) }

type pathT struct {
	name string
	f    func(out, in []byte, counter *[16]byte, key *[32]byte)
}

var paths = []pathT{
	{"salsa.XORKeyStream", salsa.XORKeyStream},
	{"generic", salsa.VerifC09GenericXORKeyStream},
}

const guard = 24

func run(c *vf.Ctx) {
	c.RaceCompanion("the key-stream functions", "golang.org/x/crypto/salsa20/salsa.", "golang.org/x/crypto/salsa20.")
	c.Rule("full grid path{salsa.XORKeyStream(asm on amd64), genericXORKeyStream} x start-counter{0,1,2^(8k)-3..2^(8k) k=1..7, 2^32-9..2^32+1, 2^64-9..2^64-1 (wrap), seeded} " +
		"x every length 0..L plus 2000,4096 x {disjoint,in==out} x key/nonce/data value classes; one-hot sweep over all 384 key+counter bits; " +
		"long inputs 2^k+{-1,0,1,63,64,65} k=16..22 (24 thorough) x both paths x {disjoint,in==out} x 13 starts incl. carries/wrap 2^j blocks deep inside the call; " +
		"salsa20.XORKeyStream nonce{8,24} x every length x {len(out)==len(in), len(out)>len(in), in==out}, one-hot sweep over all key+nonce bits, the same long lengths for Salsa20 and XSalsa20; " +
		"HSalsa20/Core208 on value classes and all one-hot inputs into a pre-loaded destination; after every call key, nonce, counter, input and salsa.Sigma must be unchanged. " +
		"non-trivial = distinct (path,start,length) whose processed blocks carry out of the low 32-bit counter word or wrap at 2^64; " +
		"oracle = literal model of the Salsa20 specification (ref/salsaref, KAT-validated)")
	c.Assume("values outside the alphabet (keys, nonces, data) are not enumerated; control flow of the implementations depends only on length and counter position")
	c.Set("asm_path_compiled", runtime.GOARCH == "amd64")

	L := 1100
	if c.Thorough {
		L = 4200
	}
	lengths := []int{}
	for n := 0; n <= L; n++ {
		lengths = append(lengths, n)
	}
	for _, n := range []int{2000, 4096} {
		if n > L {
			lengths = append(lengths, n)
		}
	}
	maxLen := lengths[len(lengths)-1]

	var starts []uint64
	starts = append(starts, 0, 1)
	for k := uint(1); k <= 7; k++ {
		if k == 4 {
			continue
		}
		for d := uint64(0); d <= 3; d++ {
			starts = append(starts, uint64(1)<<(8*k)-d)
		}
	}
	for d := uint64(9); d >= 1; d-- {
		starts = append(starts, 1<<32-d)
	}
	starts = append(starts, 1<<32, 1<<32+1)
	for d := uint64(9); d >= 1; d-- {
		starts = append(starts, -d) // 2^64-d
	}
	starts = append(starts, binary.LittleEndian.Uint64(c.Bytes("c09-start", 0, 8)))

	nv := c.V()
	keys := c.ValueClasses("c09-key", 32, nv)
	nonces := c.ValueClasses("c09-nonce", 8, nv)
	dataAll := c.ValueClasses("c09-data", maxLen, 1)
	datas := [][]byte{dataAll[0], dataAll[3], dataAll[4]} // zero (pure keystream), ascending, seeded
	if c.Thorough {
		datas = append(datas, dataAll[1])
	}

	// ---- 1. salsa.XORKeyStream, both implementations, counter grid ------------------------
	type task struct{ si, ki int }
	var tasks []task
	for si := range starts {
		for ki := range keys {
			tasks = append(tasks, task{si, ki})
		}
	}
	c.ParallelFor(len(tasks), func(ti int) {
		t := tasks[ti]
		start := starts[t.si]
		var key [32]byte
		copy(key[:], keys[t.ki])
		var nonce [8]byte
		copy(nonce[:], nonces[t.ki])
		var ctr [16]byte
		copy(ctr[:8], nonce[:])
		binary.LittleEndian.PutUint64(ctr[8:], start)
		ks := salsaref.KeyStream(key, nonce, start, maxLen)
		off := t.ki % 2 // odd value classes run on unaligned buffers
		for di, data := range datas {
			wantFull := salsaref.XOR(data, ks)
			inBack := make([]byte, maxLen+off)
			outBack := make([]byte, maxLen+off+2+guard)
			for _, n := range lengths {
				blocks := uint64((n + 63) / 64)
				carry32 := blocks > 0 && uint32(start)+uint32(blocks-1) < uint32(start) // low word wraps inside the run
				wrap64 := blocks > 0 && start+(blocks-1) < start
				for pi, p := range paths {
					// disjoint
					in := inBack[off : off+n]
					copy(in, data[:n])
					out := outBack[off+2 : off+2+n+guard]
					for i := range out {
						out[i] = 0xA5
					}
					kk, cc := key, ctr
					pan, val, _ := vf.Protect(func() { p.f(out[:n:n+guard], in, &cc, &kk) })
					c.Eval(1)
					det := map[string]any{"path": p.name, "start": fmt.Sprintf("%#x", start), "len": n, "keyclass": t.ki, "dataclass": di, "aliasing": "disjoint"}
					if pan {
						det["panic"] = fmt.Sprint(val)
						c.Violation(p.name+" panics on valid input", det)
						continue
					}
					if !bytes.Equal(out[:n], wantFull[:n]) {
						det["first_diff_at"] = firstDiff(out[:n], wantFull[:n])
						c.Violation(p.name+" output != Salsa20 spec keystream XOR input"+carryClass(carry32, wrap64), det)
					}
					for _, b := range out[n:] {
						if b != 0xA5 {
							c.Violation(p.name+" writes beyond len(in)", det)
							break
						}
					}
					if !bytes.Equal(in, data[:n]) {
						c.Violation(p.name+" modifies its input buffer", det)
					}
					if cc != ctr || kk != key {
						c.Violation(p.name+" modifies its counter or key argument", det)
					}
					// in == out
					buf := outBack[off : off+n]
					copy(buf, data[:n])
					kk, cc = key, ctr
					pan, val, _ = vf.Protect(func() { p.f(buf, buf, &cc, &kk) })
					c.Eval(1)
					if pan {
						det["aliasing"] = "in==out"
						det["panic"] = fmt.Sprint(val)
						c.Violation(p.name+" panics on valid input", det)
						continue
					}
					if !bytes.Equal(buf, wantFull[:n]) {
						det["aliasing"] = "in==out"
						det["first_diff_at"] = firstDiff(buf, wantFull[:n])
						c.Violation(p.name+" in-place output != Salsa20 spec keystream XOR input"+carryClass(carry32, wrap64), det)
					}
					if cc != ctr || kk != key {
						det["aliasing"] = "in==out"
						c.Violation(p.name+" modifies its counter or key argument", det)
					}
					if di == 0 && t.ki == 0 {
						switch {
						case wrap64:
							c.Nontrivial(fmt.Sprintf("%d/%x/%d", pi, start, n))
							c.Outcome("wrap-2^64")
						case carry32:
							c.Nontrivial(fmt.Sprintf("%d/%x/%d", pi, start, n))
							c.Outcome("carry-into-high-word")
						case n == 0:
							c.Outcome("empty")
						default:
							c.Outcome("no-carry")
						}
					}
				}
			}
		}
		if c.WantSample() && start == 1<<32-2 {
			c.Sample(map[string]any{"start": fmt.Sprintf("%#x", start), "keyclass": t.ki, "lengths": len(lengths), "paths": 2, "model_keystream_at_64": vf.Hex8(ks[64:80])})
		}
	})

	// ---- 1b. long inputs: lengths around every power of two up to 4 MiB (16 MiB thorough) ---
	// (an implementation that splits a long call into pieces must carry the counter from
	// piece to piece; nothing below a few KiB can show that)
	{
		maxK := 22
		if c.Thorough {
			maxK = 24
		}
		var longs []int
		for k := 16; k <= maxK; k++ {
			for _, d := range []int{-1, 0, 1, 63, 64, 65} {
				longs = append(longs, 1<<uint(k)+d)
			}
		}
		longMax := longs[len(longs)-1]
		lstarts := []uint64{0, 1<<32 - 5, binary.LittleEndian.Uint64(c.Bytes("c09-start", 0, 8))}
		// carries DEEP inside the long call: the low counter word overflows (or the 64-bit counter
		// wraps, or a higher byte carries) 2^j blocks = 2^(j+6) bytes after the start, i.e. just
		// behind the 64 KiB, 256 KiB, 1 MiB, 2 MiB, 4 MiB points of the length grid
		for _, j := range []uint{10, 12, 14, 15, 16} {
			lstarts = append(lstarts, uint64(1)<<32-uint64(1)<<j-1)
		}
		one := uint64(1)
		lstarts = append(lstarts, -(one<<14)-2, -(one<<16)+3, one<<40-one<<13-1, one<<56-one<<15-2, 0x7fffffff<<32|(one<<32-one<<14+1))
		longData := make([]byte, longMax)
		for i := range longData {
			longData[i] = byte(i*7 + i>>11)
		}
		c.ParallelFor(len(lstarts), func(si int) {
			start := lstarts[si]
			var key [32]byte
			copy(key[:], keys[len(keys)-1])
			var nonce [8]byte
			copy(nonce[:], nonces[len(nonces)-1])
			var ctr [16]byte
			copy(ctr[:8], nonce[:])
			binary.LittleEndian.PutUint64(ctr[8:], start)
			ks := salsaref.KeyStream(key, nonce, start, longMax)
			data := longData
			want := salsaref.XOR(data, ks)
			ks = nil
			out := make([]byte, longMax)
			for _, n := range longs {
				for _, p := range paths {
					for _, inplace := range []bool{false, true} {
						in := data[:n]
						dst := out[:n]
						if inplace {
							copy(dst, in)
							in = dst
						}
						kk, cc := key, ctr
						pan, val, _ := vf.Protect(func() { p.f(dst, in, &cc, &kk) })
						c.Eval(1)
						det := map[string]any{"path": p.name, "start": fmt.Sprintf("%#x", start), "len": n, "inplace": inplace}
						if pan {
							det["panic"] = fmt.Sprint(val)
							c.Violation(p.name+" panics on a long input", det)
							continue
						}
						if !bytes.Equal(dst, want[:n]) {
							k := 0
							for dst[k] == want[k] {
								k++
							}
							det["first_diff_at"] = k
							c.Violation(p.name+" differs from the Salsa20 model on a long input (>= 64 KiB)", det)
						}
						if cc != ctr || kk != key {
							c.Violation(p.name+" modifies its counter or key argument", det)
						}
					}
				}
				c.Nontrivial(fmt.Sprintf("long/%#x/%d", start, n))
			}
		})
	}

	// ---- 2. one-hot sweep over key and counter bits --------------------------------------
	c.ParallelFor(384, func(bit int) {
		var key [32]byte
		var ctr [16]byte
		if bit < 256 {
			key[bit/8] = 1 << (bit % 8)
		} else {
			ctr[(bit-256)/8] = 1 << (bit % 8)
		}
		var nonce [8]byte
		copy(nonce[:], ctr[:8])
		n := 64*5 + 7
		ks := salsaref.KeyStream(key, nonce, binary.LittleEndian.Uint64(ctr[8:]), n)
		for _, p := range paths {
			out := make([]byte, n)
			kk, cc := key, ctr
			pan, val, _ := vf.Protect(func() { p.f(out, make([]byte, n), &cc, &kk) })
			c.Eval(1)
			if pan {
				c.Violation(p.name+" panics on valid input", map[string]any{"onehot_bit": bit, "panic": fmt.Sprint(val)})
			} else if !bytes.Equal(out, ks) {
				c.Violation(p.name+" keystream wrong for one-hot key/counter", map[string]any{"onehot_bit": bit, "first_diff_at": firstDiff(out, ks)})
			}
		}
	})

	// ---- 3. salsa20.XORKeyStream, 8- and 24-byte nonces -----------------------------------
	nonces24 := c.ValueClasses("c09-nonce24", 24, nv)
	type t3 struct{ ki, nl int }
	var tasks3 []t3
	for ki := range keys {
		tasks3 = append(tasks3, t3{ki, 8}, t3{ki, 24})
	}
	c.ParallelFor(len(tasks3), func(ti int) {
		t := tasks3[ti]
		var key [32]byte
		copy(key[:], keys[t.ki])
		var nonce []byte
		var ks []byte
		if t.nl == 8 {
			var v [8]byte
			copy(v[:], nonces[t.ki])
			nonce = v[:]
			ks = salsaref.KeyStream(key, v, 0, maxLen)
		} else {
			var v [24]byte
			copy(v[:], nonces24[t.ki])
			nonce = v[:]
			ks = salsaref.XSalsa20KeyStream(key, v, 0, maxLen)
		}
		for di, data := range datas {
			wantFull := salsaref.XOR(data, ks)
			for _, n := range lengths {
				in := append([]byte(nil), data[:n]...)
				out := make([]byte, n+guard)
				for i := range out {
					out[i] = 0xA5
				}
				kk := key
				// the nonce lives in a larger buffer with foreign bytes behind it (len decides, not cap)
				nn := append(append(make([]byte, 0, len(nonce)+9), nonce...), 0xEE, 0xEE, 0xEE, 0xEE, 0xEE, 0xEE, 0xEE, 0xEE, 0xEE)[:len(nonce)]
				det := map[string]any{"noncelen": t.nl, "len": n, "keyclass": t.ki, "dataclass": di}
				pan, val, _ := vf.Protect(func() { salsa20.XORKeyStream(out[:n:n+guard], in, nn, &kk) })
				c.Eval(1)
				if pan {
					det["panic"] = fmt.Sprint(val)
					c.Violation("salsa20.XORKeyStream panics on valid input", det)
					continue
				}
				cls := "Salsa20"
				if t.nl == 24 {
					cls = "XSalsa20"
				}
				if !bytes.Equal(out[:n], wantFull[:n]) {
					det["first_diff_at"] = firstDiff(out[:n], wantFull[:n])
					c.Violation("salsa20.XORKeyStream != "+cls+" spec", det)
				}
				if !bytes.Equal(out[n:], bytes.Repeat([]byte{0xA5}, guard)) {
					c.Violation("salsa20.XORKeyStream writes beyond len(in)", det)
				}
				if kk != key || !bytes.Equal(nn, nonce) || !bytes.Equal(in, data[:n]) {
					c.Violation("salsa20.XORKeyStream modifies its key, nonce or input argument ("+cls+")", det)
				}
				// out longer than in is allowed: only len(in) bytes are written
				for i := range out {
					out[i] = 0x5A
				}
				pan, _, _ = vf.Protect(func() { salsa20.XORKeyStream(out, in, nn, &kk) })
				c.Eval(1)
				if pan || !bytes.Equal(out[:n], wantFull[:n]) || !bytes.Equal(out[n:], bytes.Repeat([]byte{0x5A}, guard)) {
					det["outlen"] = n + guard
					c.Violation("salsa20.XORKeyStream with len(out) > len(in) != "+cls+" spec or writes beyond len(in)", det)
				}
				pan, _, _ = vf.Protect(func() { salsa20.XORKeyStream(in, in, nn, &kk) })
				c.Eval(1)
				if pan || !bytes.Equal(in, wantFull[:n]) {
					det["aliasing"] = "in==out"
					c.Violation("salsa20.XORKeyStream in-place != "+cls+" spec", det)
				}
				if kk != key || !bytes.Equal(nn, nonce) {
					c.Violation("salsa20.XORKeyStream modifies its key or nonce argument ("+cls+")", det)
				}
				if di == 0 && n > 64 {
					c.Nontrivial(fmt.Sprintf("x/%d/%d", t.nl, n))
				}
			}
		}
		if c.WantSample() {
			c.Sample(map[string]any{"func": "salsa20.XORKeyStream", "noncelen": t.nl, "keyclass": t.ki, "lengths": len(lengths)})
		}
	})

	// ---- 3b. salsa20.XORKeyStream: one-hot sweep over every key and nonce bit ---------------
	for _, nl := range []int{8, 24} {
		nl := nl
		c.ParallelFor(256+8*nl, func(bit int) {
			var key [32]byte
			nonce := make([]byte, nl)
			if bit < 256 {
				key[bit/8] = 1 << (bit % 8)
			} else {
				nonce[(bit-256)/8] = 1 << (bit % 8)
			}
			n := 64*5 + 7
			var ks []byte
			if nl == 8 {
				var v [8]byte
				copy(v[:], nonce)
				ks = salsaref.KeyStream(key, v, 0, n)
			} else {
				var v [24]byte
				copy(v[:], nonce)
				ks = salsaref.XSalsa20KeyStream(key, v, 0, n)
			}
			out := make([]byte, n)
			kk := key
			nn := append([]byte(nil), nonce...)
			pan, val, _ := vf.Protect(func() { salsa20.XORKeyStream(out, make([]byte, n), nn, &kk) })
			c.Eval(1)
			if pan {
				c.Violation("salsa20.XORKeyStream panics on valid input", map[string]any{"noncelen": nl, "onehot_bit": bit, "panic": fmt.Sprint(val)})
			} else if !bytes.Equal(out, ks) {
				c.Violation("salsa20.XORKeyStream keystream wrong for one-hot key/nonce", map[string]any{"noncelen": nl, "onehot_bit": bit, "first_diff_at": firstDiff(out, ks)})
			}
			if kk != key || !bytes.Equal(nn, nonce) {
				c.Violation("salsa20.XORKeyStream modifies its key or nonce argument (one-hot)", map[string]any{"noncelen": nl, "onehot_bit": bit})
			}
		})
	}

	// ---- 3c. salsa20.XORKeyStream on long inputs (Salsa20 and XSalsa20) ----------------------
	{
		maxK := 22
		if c.Thorough {
			maxK = 24
		}
		var longs []int
		for k := 16; k <= maxK; k++ {
			for _, d := range []int{-1, 0, 1, 63, 64, 65} {
				longs = append(longs, 1<<uint(k)+d)
			}
		}
		longMax := longs[len(longs)-1]
		data := make([]byte, longMax)
		for i := range data {
			data[i] = byte(i*11 + i>>9)
		}
		type t3c struct{ nl, ki int }
		t3cs := []t3c{{8, len(keys) - 1}, {24, len(keys) - 1}, {24, 3}}
		c.ParallelFor(len(t3cs), func(ti int) {
			t := t3cs[ti]
			var key [32]byte
			copy(key[:], keys[t.ki])
			var nonce, ks []byte
			cls := "Salsa20"
			if t.nl == 8 {
				var v [8]byte
				copy(v[:], nonces[t.ki])
				nonce = v[:]
				ks = salsaref.KeyStream(key, v, 0, longMax)
			} else {
				var v [24]byte
				copy(v[:], nonces24[t.ki])
				nonce = v[:]
				ks = salsaref.XSalsa20KeyStream(key, v, 0, longMax)
				cls = "XSalsa20"
			}
			want := salsaref.XOR(data, ks)
			ks = nil
			out := make([]byte, longMax+guard)
			for _, n := range longs {
				for _, inplace := range []bool{false, true} {
					in := data[:n]
					dst := out[:n]
					if inplace {
						copy(dst, in)
						in = dst
					} else {
						for i := range out[:n+guard] {
							out[i] = 0xA5
						}
					}
					kk := key
					nn := append([]byte(nil), nonce...)
					pan, val, _ := vf.Protect(func() { salsa20.XORKeyStream(dst, in, nn, &kk) })
					c.Eval(1)
					det := map[string]any{"noncelen": t.nl, "len": n, "inplace": inplace, "keyclass": t.ki}
					if pan {
						det["panic"] = fmt.Sprint(val)
						c.Violation("salsa20.XORKeyStream panics on a long input", det)
						continue
					}
					if !bytes.Equal(dst, want[:n]) {
						det["first_diff_at"] = firstDiff(dst, want[:n])
						c.Violation("salsa20.XORKeyStream differs from the "+cls+" model on a long input (>= 64 KiB)", det)
					}
					if !inplace && !bytes.Equal(out[n:n+guard], bytes.Repeat([]byte{0xA5}, guard)) {
						c.Violation("salsa20.XORKeyStream writes beyond len(in) on a long input", det)
					}
					if kk != key || !bytes.Equal(nn, nonce) {
						c.Violation("salsa20.XORKeyStream modifies its key or nonce argument (long input, "+cls+")", det)
					}
				}
				c.Nontrivial(fmt.Sprintf("xlong/%d/%d/%d", t.nl, t.ki, n))
			}
		})
	}

	// ---- 4. HSalsa20 and Core208 ----------------------------------------------------------
	hs := func(k [32]byte, in, cst [16]byte, tag string) {
		want := salsaref.HSalsa20(cst, k, in)
		var out [32]byte
		for i := range out {
			out[i] = 0xC3 ^ byte(i) // the destination holds an old value
		}
		kk, ii, cc := k, in, cst
		pan, _, _ := vf.Protect(func() { salsa.HSalsa20(&out, &ii, &kk, &cc) })
		c.Eval(1)
		if pan || out != want {
			c.Violation("HSalsa20 != definition", map[string]any{"case": tag, "got": fmt.Sprintf("%x", out), "want": fmt.Sprintf("%x", want)})
		}
		if kk != k || ii != in || cc != cst {
			c.Violation("HSalsa20 modifies an input argument", map[string]any{"case": tag})
		}
		// out aliasing the key (this is how nacl/box.Precompute calls it)
		kk = k
		pan, _, _ = vf.Protect(func() { salsa.HSalsa20(&kk, &ii, &kk, &cc) })
		c.Eval(1)
		if pan || kk != want {
			c.Violation("HSalsa20 with out==key != definition", map[string]any{"case": tag})
		}
		if ii != in || cc != cst {
			c.Violation("HSalsa20 modifies an input argument", map[string]any{"case": tag, "aliasing": "out==key"})
		}
	}
	nh := 64
	if c.Thorough {
		nh = 2000
	}
	k32 := c.ValueClasses("c09-hk", 32, nh)
	i16 := c.ValueClasses("c09-hin", 16, nh)
	c16 := c.ValueClasses("c09-hc", 16, nh)
	c16[0] = salsa.Sigma[:]
	if string(salsa.Sigma[:]) != "expand 32-byte k" {
		c.Violation("salsa.Sigma != \"expand 32-byte k\"", fmt.Sprintf("%q", salsa.Sigma[:]))
	}
	// full product of the 4 fixed classes + 2 seeded, then the remaining seeded classes diagonally
	for a := 0; a < 6; a++ {
		for b := 0; b < 6; b++ {
			for d := 0; d < 6; d++ {
				var k [32]byte
				var in, cst [16]byte
				copy(k[:], k32[a])
				copy(in[:], i16[b])
				copy(cst[:], c16[d])
				hs(k, in, cst, fmt.Sprintf("classes %d/%d/%d", a, b, d))
			}
		}
	}
	for a := 6; a < len(k32); a++ {
		var k [32]byte
		var in, cst [16]byte
		copy(k[:], k32[a])
		copy(in[:], i16[a])
		copy(cst[:], c16[a])
		if a%2 == 0 {
			cst = salsa.Sigma
		}
		hs(k, in, cst, fmt.Sprintf("seeded %d", a))
		c.Nontrivial(fmt.Sprintf("hs/%d", a))
	}
	for bit := 0; bit < 512; bit++ {
		var all [64]byte
		all[bit/8] = 1 << (bit % 8)
		var k [32]byte
		var in, cst [16]byte
		copy(k[:], all[:32])
		copy(in[:], all[32:48])
		copy(cst[:], all[48:])
		hs(k, in, cst, fmt.Sprintf("one-hot bit %d", bit))
	}
	c.Sample(map[string]any{"func": "HSalsa20", "cases": 216 + len(k32) - 6 + 512})

	core := func(in [64]byte, tag string) {
		want := salsaref.Salsa208(in)
		var out [64]byte
		for i := range out {
			out[i] = 0x3C ^ byte(i) // the destination holds an old value
		}
		ii := in
		pan, _, _ := vf.Protect(func() { salsa.Core208(&out, &ii) })
		c.Eval(1)
		if pan || out != want {
			c.Violation("Core208 != Salsa20/8 core", map[string]any{"case": tag, "got": fmt.Sprintf("%x", out), "want": fmt.Sprintf("%x", want)})
		}
		if ii != in {
			c.Violation("Core208 modifies its input", map[string]any{"case": tag})
		}
		ii = in
		pan, _, _ = vf.Protect(func() { salsa.Core208(&ii, &ii) })
		c.Eval(1)
		if pan || ii != want {
			c.Violation("Core208 with out==in != Salsa20/8 core", map[string]any{"case": tag})
		}
	}
	for i, v := range c.ValueClasses("c09-core", 64, nh) {
		var in [64]byte
		copy(in[:], v)
		core(in, fmt.Sprintf("class %d", i))
		c.Nontrivial(fmt.Sprintf("core/%d", i))
	}
	for bit := 0; bit < 512; bit++ {
		var in [64]byte
		in[bit/8] = 1 << (bit % 8)
		core(in, fmt.Sprintf("one-hot bit %d", bit))
	}
	c.Sample(map[string]any{"func": "Core208", "cases": nh + 4 + 512})
	if string(salsa.Sigma[:]) != "expand 32-byte k" {
		c.Violation("salsa.Sigma modified by a call", fmt.Sprintf("%q", salsa.Sigma[:]))
	}
}

func carryClass(carry32, wrap64 bool) string {
	switch {
	case wrap64:
		return " (run wraps the 64-bit block counter)"
	case carry32:
		return " (run carries into the high counter word)"
	}
	return ""
}

func firstDiff(a, b []byte) int {
	for i := range a {
		if i >= len(b) || a[i] != b[i] {
			return i
		}
	}
	return -1
}
