// C10: nacl/secretbox, nacl/box (incl. anonymous sealed boxes), nacl/sign and nacl/auth
// produce and accept exactly the NaCl / libsodium constructions.
//
// libsodium/PyNaCl is not installed in this image; the oracle is ref/naclref, a model written
// from the NaCl paper and the libsodium documentation on top of independent Salsa20/HSalsa20,
// math/big Poly1305, math/big X25519, BLAKE2b and math/big Ed25519 models, validated on the
// published NaCl secretbox/box/onetimeauth/auth vectors and the RFC 8032/7748/4231 vectors.
//
// Grid: every message length 0..L (L=700 quick, 2100 thorough) plus {1000,2000,4096,16384}
// x key classes x nonce classes (full product) for secretbox; all ordered key-pair
// combinations for box plus every small-order / non-canonical peer key; sealed boxes with a
// deterministic rand; sign over seed classes x every length 0..LS; auth over key classes x
// every length; each Seal/Sign/Sum compared byte for byte, each Open/Verify fed model-produced
// values (accept) and every single-byte corruption / truncation class (reject).
//
// Hardening pass: five out-argument modes (nil, prefix, prefix+spare, prefix+exact capacity, prefix
// with capacity one short; spare capacity pre-loaded with old bytes); all arguments are private
// copies, checked unchanged and wiped before results are compared; results handed out earlier
// (GenerateKey, auth.Sum) must survive later calls; long messages around 2^16..2^22 (2^24).
package main

import (
	"bytes"
	"fmt"
	"io"
	"sync"

	"golang.org/x/crypto/nacl/auth"
	"golang.org/x/crypto/nacl/box"
	"golang.org/x/crypto/nacl/secretbox"
	"golang.org/x/crypto/nacl/sign"
	"verif/ref/naclref"
	"verif/ref/x25519ref"
	"verif/vf"
)

func main() { vf.Main("C10", vf.Exploration, run) }

func a32(b []byte) (a [32]byte) { copy(a[:], b); return }
func a24(b []byte) (a [24]byte) { copy(a[:], b); return }

// appendModes: how the `out` argument of the append-style APIs is supplied.
//
//	0: nil   1: 5-byte prefix without spare capacity   2: 5-byte prefix with more than enough capacity
//	3: 5-byte prefix with EXACTLY the needed capacity   4: 5-byte prefix whose capacity is one byte short
//
// The spare capacity always holds old non-zero contents (a reused destination buffer).
const nModes = 5

func mkOut(mode, need int) []byte {
	var b []byte
	switch mode {
	case 0:
		return nil
	case 1:
		return []byte("PREFX")
	case 2:
		b = make([]byte, 5+need+8)
	case 3:
		b = make([]byte, 5+need)
	case 4:
		if need == 0 {
			return []byte("PREFX")
		}
		b = make([]byte, 5+need-1)
	}
	for i := range b {
		b[i] = 0xA5 ^ byte(i)
	}
	copy(b, "PREFX")
	return b[:5]
}

func wipe(b []byte) {
	for i := range b {
		b[i] ^= 0xFF
	}
}

func checkAppended(got []byte, mode int, want []byte) bool {
	if mode == 0 {
		return bytes.Equal(got, want)
	}
	return len(got) == 5+len(want) && string(got[:5]) == "PREFX" && bytes.Equal(got[5:], want)
}

// corruptions of a valid artefact: flip one bit in each byte position class, truncate, extend.
func corruptions(b []byte, dense bool) [][]byte {
	var out [][]byte
	pos := map[int]bool{}
	if dense {
		for i := range b {
			pos[i] = true
		}
	} else {
		for _, i := range []int{0, 1, 15, 16, 17, 31, 32, 33, 47, 48, 49, 63, 64, 65, 79, 80, 95, 96, len(b) / 2, len(b) - 2, len(b) - 1} {
			if i >= 0 && i < len(b) {
				pos[i] = true
			}
		}
	}
	for i := range b {
		if pos[i] {
			c := append([]byte(nil), b...)
			c[i] ^= 1 << (uint(i) % 8)
			out = append(out, c)
		}
	}
	if len(b) > 0 {
		out = append(out, append([]byte(nil), b[:len(b)-1]...))
	}
	out = append(out, append(append([]byte(nil), b...), 0))
	return out
}

func run(c *vf.Ctx) {
	c.RaceCompanion("the nacl functions", "golang.org/x/crypto/nacl/", "golang.org/x/crypto/salsa20/", "golang.org/x/crypto/curve25519.", "golang.org/x/crypto/internal/poly1305.")
	c.Rule("full grid: secretbox {key classes} x {nonce classes} x every message length 0..L plus 1000,2000,4096,16384 x out-argument mode {nil, prefix, prefix+spare capacity, prefix+EXACT capacity, prefix+capacity one short} (spare capacity holds old bytes); " +
		"every argument (key, nonce, key pair, message, box) is a private copy that must be unchanged after the call and is wiped before the result is compared; " +
		"array arguments that are the SAME array: box.Precompute with sharedKey==privateKey, sharedKey==peersPublicKey, peersPublicKey==privateKey and all three, for all ordered key-pair combinations, every special peer key and in place on GenerateKey results; " +
		"input arrays/slices sharing memory (nonce = key[8:32], key/nonce/out/message adjacent in one backing array, peersPublicKey==privateKey for box.Seal/Open, sk||pk in one array for OpenAnonymous, message inside the sign key array, auth key==message==digest array) x key classes x lengths {0,1,31,32,33,64,65,200}, model computed from copies; " +
		"long messages 2^k+{-1,0,1,31,32,33,95,96,97} for k=16..22 (24 thorough) through secretbox Seal/Open, box Seal/Open, SealAnonymous/OpenAnonymous, 2^k+{-1,0,1} (k even) through sign and auth; " +
		"box: all ordered pairs of key-pair classes x nonce classes x lengths, plus every small-order/non-canonical/bit-255 peer key; sealed boxes: recipient classes x lengths with a deterministic rand; " +
		"sign: seed classes x every length 0..LS; auth: key classes x every length 0..LA. Open/Verify: model-produced value accepted, every single-byte corruption (dense for short inputs) and truncation/extension rejected. " +
		"non-trivial = distinct (function, length) with length > 32 (past the first-block split) or distinct key-pair combination; " +
		"oracle = ref/naclref (NaCl/libsodium constructions over independent primitive models, KAT-validated)")
	c.Assume("libsodium itself is not available off-line: the published NaCl vectors and the constructions' specifications stand in for it; crypto/sha512 is trusted; values outside the alphabet are not enumerated")
	c.Set("external_oracle", "absent (libsodium/PyNaCl not installed)")

	L, LS, LA := 700, 300, 400
	if c.Thorough {
		L, LS, LA = 2100, 1100, 1100
	}
	var lengths []int
	for n := 0; n <= L; n++ {
		lengths = append(lengths, n)
	}
	lengths = append(lengths, 4096, 16384)
	if L < 1000 {
		lengths = append(lengths, 1000, 2000)
	}
	maxLen := 16384
	nv := c.V()
	keys := c.ValueClasses("c10-key", 32, nv)
	nonces := c.ValueClasses("c10-nonce", 24, nv)
	msgs := c.ValueClasses("c10-msg", maxLen, 2)
	pickMsg := func(i, n int) []byte { return msgs[[]int{0, 3, 4, 5, 1}[i%5]][:n] }

	// ---- 1. secretbox ---------------------------------------------------------------------
	type kn struct{ ki, ni int }
	var kns []kn
	for ki := range keys {
		for ni := range nonces {
			kns = append(kns, kn{ki, ni})
		}
	}
	c.ParallelFor(len(kns)*len(lengths), func(i int) {
		t, n := kns[i/len(lengths)], lengths[i%len(lengths)]
		key, nonce := a32(keys[t.ki]), a24(nonces[t.ni])
		msg := pickMsg(t.ki+t.ni, n)
		want := naclref.SecretboxSeal(msg, nonce, key)
		det := map[string]any{"len": n, "keyclass": t.ki, "nonceclass": t.ni}
		mc, bc := make([]byte, 0, n+3), make([]byte, 0, n+19)
		for mode := 0; mode < nModes; mode++ {
			if n > 1000 && (mode == 1 || mode == 4) {
				continue
			}
			if mode >= 3 && t.ki != t.ni && n > 70 {
				continue // capacity-boundary modes: every length on the diagonal, lengths 0..70 everywhere
			}
			var got []byte
			k2, n2 := key, nonce
			mc = append(mc[:0], msg...) // private copy of the message: the caller owns it
			pan, val, _ := vf.Protect(func() { got = secretbox.Seal(mkOut(mode, len(want)), mc, &n2, &k2) })
			c.Eval(1)
			if pan {
				det["panic"] = fmt.Sprint(val)
				c.Violation("secretbox.Seal panics", det)
				return
			}
			if k2 != key || n2 != nonce || !bytes.Equal(mc, msg) {
				det["outmode"] = mode
				c.Violation("secretbox.Seal modifies its key, nonce or message argument", det)
			}
			wipe(mc) // the caller reuses its buffers: the returned box must not depend on them any more
			wipe(k2[:])
			wipe(n2[:])
			if !checkAppended(got, mode, want) {
				det["outmode"] = mode
				det["first_diff_at"] = firstDiff(got, want, mode)
				c.Violation("secretbox.Seal != crypto_secretbox_easy (tag || ciphertext)", det)
			}
			var back []byte
			var ok bool
			k2, n2 = key, nonce
			bc = append(bc[:0], want...)
			pan, val, _ = vf.Protect(func() { back, ok = secretbox.Open(mkOut(mode, n), bc, &n2, &k2) })
			c.Eval(1)
			if pan {
				det["panic"] = fmt.Sprint(val)
				c.Violation("secretbox.Open panics", det)
				return
			}
			if k2 != key || n2 != nonce || !bytes.Equal(bc, want) {
				det["outmode"] = mode
				c.Violation("secretbox.Open modifies its key, nonce or box argument", det)
			}
			wipe(bc)
			wipe(k2[:])
			wipe(n2[:])
			if !ok || !checkAppended(back, mode, msg) {
				det["outmode"] = mode
				det["ok"] = ok
				c.Violation("secretbox.Open rejects or mis-decrypts a crypto_secretbox_easy box", det)
			}
		}
		if secretbox.Overhead != 16 {
			c.Violation("secretbox.Overhead != 16", secretbox.Overhead)
		}
		// forged boxes
		if t.ni == t.ki || n <= 40 {
			for ci, bad := range corruptions(want, n <= 40) {
				var ok bool
				var back []byte
				k2, n2 := key, nonce
				pan, _, _ := vf.Protect(func() { back, ok = secretbox.Open(nil, bad, &n2, &k2) })
				c.Eval(1)
				_, mok := naclref.SecretboxOpen(bad, nonce, key)
				if pan || ok != mok || (!ok && back != nil) {
					det["corruption"] = ci
					c.Violation("secretbox.Open accepts a corrupted box (or panics)", det)
				}
			}
		}
		if t.ki == 0 && t.ni == 0 {
			if n > 32 {
				c.Nontrivial(fmt.Sprintf("secretbox/%d", n))
			}
			if c.WantSample() && n == 33 {
				c.Sample(map[string]any{"func": "secretbox.Seal", "len": n, "model_box": vf.Hex8(want)})
			}
		}
	})
	// boxes shorter than the overhead
	for n := 0; n < 16; n++ {
		k, nn := a32(keys[3]), a24(nonces[3])
		var ok bool
		pan, _, _ := vf.Protect(func() { _, ok = secretbox.Open(nil, make([]byte, n), &nn, &k) })
		c.Eval(1)
		if pan || ok {
			c.Violation("secretbox.Open accepts or panics on a box shorter than 16 bytes", n)
		}
	}

	// ---- 2. box ---------------------------------------------------------------------------
	type kp struct {
		name   string
		sk, pk [32]byte
	}
	var pairs []kp
	for i, s := range c.ValueClasses("c10-boxsk", 32, nv) {
		sk := a32(s)
		pairs = append(pairs, kp{fmt.Sprintf("class%d", i), sk, naclref.BoxKeyPair(sk)})
	}
	// GenerateKey: secret = 32 bytes from rand, public = X25519(secret, 9)
	{
		var gpks, gsks []*[32]byte
		var wsks [][32]byte
		for i := 0; i < 4; i++ {
			label := fmt.Sprintf("c10-genkey-%d-%d", c.Seed, i)
			var sk [32]byte
			io.ReadFull(vf.NewRand(label), sk[:])
			var pk, gsk *[32]byte
			var err error
			pan, _, _ := vf.Protect(func() { pk, gsk, err = box.GenerateKey(vf.NewRand(label)) })
			c.Eval(1)
			if pan || err != nil || *gsk != sk || *pk != naclref.BoxKeyPair(sk) {
				c.Violation("box.GenerateKey != (rand bytes, X25519(sk, 9))", map[string]any{"i": i, "err": fmt.Sprint(err)})
				continue
			}
			gpks, gsks, wsks = append(gpks, pk), append(gsks, gsk), append(wsks, sk)
		}
		// the key pairs handed out earlier belong to their callers: later calls must not change them
		for i := range gpks {
			if *gsks[i] != wsks[i] || *gpks[i] != naclref.BoxKeyPair(wsks[i]) {
				c.Violation("box.GenerateKey: a later call changed a key pair returned earlier", map[string]any{"i": i})
			}
		}
	}
	if box.Overhead != 16 || box.AnonymousOverhead != 48 {
		c.Violation("box.Overhead/AnonymousOverhead wrong", []int{box.Overhead, box.AnonymousOverhead})
	}
	// 2a. Precompute: all ordered pairs, symmetry and model
	shared := map[[2]int][32]byte{}
	for a := range pairs {
		for b := range pairs {
			want, _ := naclref.BoxBeforeNM(pairs[b].pk, pairs[a].sk)
			shared[[2]int{a, b}] = want
		}
	}
	for a := range pairs {
		for b := range pairs {
			var k1, k2 [32]byte
			for j := range k1 {
				k1[j], k2[j] = 0xA5, 0x5A
			}
			pa, pb, sa, sb := pairs[a].pk, pairs[b].pk, pairs[a].sk, pairs[b].sk
			pan, _, _ := vf.Protect(func() {
				box.Precompute(&k1, &pb, &sa)
				box.Precompute(&k2, &pa, &sb)
			})
			c.Eval(2)
			det := map[string]any{"a": pairs[a].name, "b": pairs[b].name}
			if pan {
				c.Violation("box.Precompute panics", det)
				continue
			}
			if k1 != k2 {
				c.Violation("box.Precompute is not symmetric between the two parties", det)
			}
			if pa != pairs[a].pk || pb != pairs[b].pk || sa != pairs[a].sk || sb != pairs[b].sk {
				c.Violation("box.Precompute modifies a key argument", det)
			}
			if k1 != shared[[2]int{a, b}] {
				c.Violation("box.Precompute != HSalsa20(X25519(sk, pk), 0)", det)
			}
			c.Nontrivial(fmt.Sprintf("pair/%d/%d", a, b))
		}
	}
	// 2b. special peer keys: small order (all 14 encodings), non-canonical, bit 255 set
	type sp struct {
		name string
		pk   [32]byte
	}
	var specials []sp
	for i, e := range x25519ref.SmallOrderEncodings() {
		specials = append(specials, sp{fmt.Sprintf("small-order encoding %d", i), e})
	}
	for _, k := range []int64{2, 3, 9, 18} { // p+k: non-canonical encodings of k
		v := x25519ref.IntToLE32(x25519ref.P)
		v[0] += byte(k) // p ends in 0xed: no carry for k <= 18
		specials = append(specials, sp{fmt.Sprintf("non-canonical p+%d", k), v})
		v[31] |= 0x80
		specials = append(specials, sp{fmt.Sprintf("non-canonical p+%d | bit255", k), v})
	}
	hb := pairs[4].pk
	hb[31] |= 0x80
	specials = append(specials, sp{"honest key | bit255", hb})
	for _, s := range specials {
		for a := range pairs {
			want, weak := naclref.BoxBeforeNM(s.pk, pairs[a].sk)
			var k1 [32]byte
			for j := range k1 {
				k1[j] = 0xA5
			}
			pk, sk := s.pk, pairs[a].sk
			pan, _, _ := vf.Protect(func() { box.Precompute(&k1, &pk, &sk) })
			c.Eval(1)
			det := map[string]any{"peer": s.name, "peer_hex": fmt.Sprintf("%x", s.pk), "sk": pairs[a].name, "shared_secret_all_zero": weak}
			if pan || k1 != want {
				det["got"] = fmt.Sprintf("%x", k1)
				det["want"] = fmt.Sprintf("%x", want)
				c.Violation("box.Precompute != HSalsa20(X25519(sk, pk), 0) for a special peer key", det)
			}
			if pk != s.pk || sk != pairs[a].sk {
				c.Violation("box.Precompute modifies a key argument", det)
			}
			if weak {
				c.Outcome("small-order peer: key derived from all-zero secret")
			} else {
				c.Outcome("shared key")
			}
			// Seal/Open with such a peer follow the same construction
			msg := pickMsg(a, 50)
			nonce := a24(nonces[a%len(nonces)])
			wantBox := naclref.SecretboxSeal(msg, nonce, want)
			var got []byte
			pan, _, _ = vf.Protect(func() { got = box.Seal(nil, msg, &nonce, &pk, &sk) })
			c.Eval(1)
			if pan || !bytes.Equal(got, wantBox) {
				c.Violation("box.Seal != crypto_box construction for a special peer key", det)
			}
			c.Nontrivial("special/" + s.name)
		}
	}
	// 2b'. ARRAY arguments that are the same array: Precompute(sharedKey, peersPublicKey, privateKey) with
	// every aliasing pattern of its three *[32]byte parameters (dst==priv, dst==peer, peer==priv, all three).
	// curve25519.ScalarMult and the in-place HSalsa20 both tolerate dst == input, so does libsodium's
	// crypto_box_beforenm; the model value is computed from COPIES of the values.
	selfShared := make([][32]byte, len(pairs)) // peer == priv: the private key bytes used as peer point too
	c.ParallelFor(len(pairs), func(a int) {
		selfShared[a], _ = naclref.BoxBeforeNM(pairs[a].sk, pairs[a].sk)
	})
	precomputeAliased := func(peer, sk [32]byte, want [32]byte, det map[string]any) {
		// dst == privateKey
		k, pc := sk, peer
		pan, _, _ := vf.Protect(func() { box.Precompute(&k, &pc, &k) })
		c.Eval(1)
		if pan || k != want || pc != peer {
			det["got"] = fmt.Sprintf("%x", k)
			c.Violation("box.Precompute with sharedKey == privateKey (same array) != HSalsa20(X25519(sk, pk), 0)", det)
		}
		// dst == peersPublicKey
		k, sc := peer, sk
		pan, _, _ = vf.Protect(func() { box.Precompute(&k, &k, &sc) })
		c.Eval(1)
		if pan || k != want || sc != sk {
			det["got"] = fmt.Sprintf("%x", k)
			c.Violation("box.Precompute with sharedKey == peersPublicKey (same array) != HSalsa20(X25519(sk, pk), 0)", det)
		}
	}
	for a := range pairs {
		for b := range pairs {
			precomputeAliased(pairs[b].pk, pairs[a].sk, shared[[2]int{a, b}], map[string]any{"sk": pairs[a].name, "peer": pairs[b].name, "model": fmt.Sprintf("%x", shared[[2]int{a, b}])})
		}
		// peer == priv (inputs only), and all three the same array
		x := pairs[a].sk
		var dst [32]byte
		for j := range dst {
			dst[j] = 0xA5
		}
		pan, _, _ := vf.Protect(func() { box.Precompute(&dst, &x, &x) })
		c.Eval(1)
		det := map[string]any{"sk": pairs[a].name, "model": fmt.Sprintf("%x", selfShared[a])}
		if pan || dst != selfShared[a] || x != pairs[a].sk {
			c.Violation("box.Precompute with peersPublicKey == privateKey (same array) != HSalsa20(X25519(sk, pk), 0)", det)
		}
		pan, _, _ = vf.Protect(func() { box.Precompute(&x, &x, &x) })
		c.Eval(1)
		if pan || x != selfShared[a] {
			det["got"] = fmt.Sprintf("%x", x)
			c.Violation("box.Precompute with all three arguments the same array != HSalsa20(X25519(sk, pk), 0)", det)
		}
		c.Nontrivial(fmt.Sprintf("alias-precompute/%d", a))
	}
	for _, s := range specials {
		for _, a := range []int{0, 4, len(pairs) - 1} {
			want, _ := naclref.BoxBeforeNM(s.pk, pairs[a].sk)
			precomputeAliased(s.pk, pairs[a].sk, want, map[string]any{"sk": pairs[a].name, "peer": s.name})
		}
	}
	// keys straight from GenerateKey, replaced in place by the derived key (k = Precompute(k, peer, k))
	{
		pubA, privA, _ := box.GenerateKey(vf.NewRand("c10-alias-A"))
		pubB, privB, _ := box.GenerateKey(vf.NewRand("c10-alias-B"))
		want, _ := naclref.BoxBeforeNM(*pubB, *privA)
		pb := *pubB
		pan, _, _ := vf.Protect(func() {
			box.Precompute(privA, pubB, privA) // Alice: secret replaced by the shared key
			box.Precompute(pubA, pubA, privB)  // Bob: Alice's public key replaced by the shared key
		})
		c.Eval(2)
		if pan || *privA != want || *pubA != want || *pubB != pb {
			c.Violation("box.Precompute in place on GenerateKey results: the two parties do not get HSalsa20(X25519(sk, pk), 0)", nil)
		}
	}
	// 2b''. secretbox / box / sign / auth: array (and slice) INPUT arguments that share memory with each other or sit
	// in the same backing array as out. Inputs are only read, so every such layout is legal; results = model from copies.
	{
		lens := []int{0, 1, 31, 32, 33, 64, 65, 200}
		c.ParallelFor(len(keys)*len(lens), func(i int) {
			ki, n := i/len(lens), lens[i%len(lens)]
			// one backing array: [key 32 bytes, whose last 24 bytes are ALSO the nonce][out region][message]
			kv := a32(keys[ki])
			var nv24 [24]byte
			copy(nv24[:], kv[8:])
			msg := pickMsg(ki, n)
			want := naclref.SecretboxSeal(msg, nv24, kv)
			buf := make([]byte, 32+n+16+n+8)
			copy(buf, kv[:])
			copy(buf[32+n+16:], msg)
			key := (*[32]byte)(buf[0:32])
			nonce := (*[24]byte)(buf[8:32])
			m := buf[32+n+16 : 32+n+16+n]
			det := map[string]any{"len": n, "keyclass": ki, "layout": "nonce = key[8:32] (same memory); key, out, message adjacent in one backing array"}
			var got, got2, back, back2 []byte
			var ok, ok2 bool
			pan, val, _ := vf.Protect(func() {
				got = secretbox.Seal(buf[32:32:32+n+16], m, nonce, key)
				got2 = box.SealAfterPrecomputation(nil, m, nonce, key)
			})
			c.Eval(2)
			if pan || !bytes.Equal(got, want) || !bytes.Equal(got2, want) || *key != kv || !bytes.Equal(m, msg) {
				det["panic"] = fmt.Sprint(val)
				c.Violation("secretbox.Seal / box.SealAfterPrecomputation with nonce and key sharing memory != crypto_secretbox_easy", det)
			}
			// Open: box, then key+nonce, then out, adjacent
			buf2 := make([]byte, n+16+32+n)
			copy(buf2, want)
			copy(buf2[n+16:], kv[:])
			key = (*[32]byte)(buf2[n+16 : n+48])
			nonce = (*[24]byte)(buf2[n+24 : n+48])
			pan, val, _ = vf.Protect(func() {
				back, ok = secretbox.Open(buf2[n+48:n+48:n+48+n], buf2[:n+16], nonce, key)
				back2, ok2 = box.OpenAfterPrecomputation(nil, buf2[:n+16], nonce, key)
			})
			c.Eval(2)
			if pan || !ok || !ok2 || !bytes.Equal(back, msg) || !bytes.Equal(back2, msg) || *key != kv || !bytes.Equal(buf2[:n+16], want) {
				det["panic"] = fmt.Sprint(val)
				c.Violation("secretbox.Open / box.OpenAfterPrecomputation with nonce and key sharing memory rejects or mis-decrypts", det)
			}
			// box.Seal / Open / sealed boxes with peersPublicKey == privateKey (one array for both)
			p := pairs[ki%len(pairs)]
			x := p.sk
			nn := a24(nonces[ki%len(nonces)])
			wantB := naclref.SecretboxSeal(msg, nn, selfShared[ki%len(pairs)])
			pan, val, _ = vf.Protect(func() {
				got = box.Seal(nil, msg, &nn, &x, &x)
				back, ok = box.Open(nil, wantB, &nn, &x, &x)
			})
			c.Eval(2)
			if pan || !bytes.Equal(got, wantB) || !ok || !bytes.Equal(back, msg) || x != p.sk {
				det["panic"] = fmt.Sprint(val)
				c.Violation("box.Seal/Open with peersPublicKey == privateKey (same array) != crypto_box_easy", det)
			}
			// OpenAnonymous with the recipient's keys inside one 64-byte array (sk || pk, the libsodium keypair layout)
			esk := a32(keys[(ki+1)%len(keys)])
			wantS := naclref.SealedBoxSeal(msg, p.pk, esk)
			var kp [64]byte
			copy(kp[:32], p.sk[:])
			copy(kp[32:], p.pk[:])
			pan, val, _ = vf.Protect(func() {
				back, ok = box.OpenAnonymous(nil, wantS, (*[32]byte)(kp[32:]), (*[32]byte)(kp[:32]))
			})
			c.Eval(1)
			if pan || !ok || !bytes.Equal(back, msg) {
				det["panic"] = fmt.Sprint(val)
				c.Violation("box.OpenAnonymous with both keys in one array rejects or mis-decrypts a crypto_box_seal box", det)
			}
			// sign: the message IS (part of) the private key array / the public key array
			seed := a32(keys[ki])
			spk, ssk := naclref.SignKeyPair(seed)
			skc, pkc := ssk, spk
			mlen := n
			if mlen > 64 {
				mlen = 64
			}
			wantG := naclref.Sign(seed, ssk[64-mlen:])
			pan, val, _ = vf.Protect(func() {
				got = sign.Sign(nil, skc[64-mlen:], &skc) // signs the tail of the key array (= public key bytes)
			})
			c.Eval(1)
			if pan || !bytes.Equal(got, wantG) || skc != ssk {
				det["panic"] = fmt.Sprint(val)
				c.Violation("sign.Sign with the message inside the private-key array != crypto_sign", det)
			}
			// signed message and public key in one backing array
			sb := append(append([]byte(nil), wantG...), spk[:]...)
			pan, val, _ = vf.Protect(func() { back, ok = sign.Open(nil, sb[:len(wantG)], (*[32]byte)(sb[len(wantG):])) })
			c.Eval(1)
			if pan || !ok || !bytes.Equal(back, ssk[64-mlen:]) || pkc != spk {
				det["panic"] = fmt.Sprint(val)
				c.Violation("sign.Open with signed message and public key in one backing array rejects or mangles a crypto_sign message", det)
			}
			// auth: message == key array, digest slice == a Sum result array, key == an earlier Sum result
			ak := kv
			wantA := naclref.Auth(kv[:], kv)
			var ga *[32]byte
			pan, val, _ = vf.Protect(func() { ga = auth.Sum(ak[:], &ak) })
			c.Eval(1)
			if pan || *ga != wantA || ak != kv {
				c.Violation("auth.Sum with the message being the key array != crypto_auth", det)
				return
			}
			wantA2 := naclref.Auth(wantA[:], wantA) // chained: the authenticator array is key AND message of the next call
			var gb *[32]byte
			var okv, okw bool
			pan, val, _ = vf.Protect(func() {
				gb = auth.Sum(ga[:], ga)
				okv = auth.Verify(gb[:], ga[:], ga)
				okw = auth.Verify(ga[:], ga[:], ga) // digest == message == key: not the authenticator
			})
			c.Eval(3)
			if pan || *gb != wantA2 || !okv || okw || *ga != wantA {
				det["panic"] = fmt.Sprint(val)
				c.Violation("auth.Sum/Verify with key, message and digest sharing one array != crypto_auth", det)
			}
			c.Nontrivial(fmt.Sprintf("alias-inputs/%d/%d", ki, n))
		})
	}
	// 2c. Seal / Open / AfterPrecomputation over pairs x nonces x lengths
	boxLens := lengths
	type bt struct{ a, b, ni int }
	var bts []bt
	for a := range pairs {
		for b := range pairs {
			bts = append(bts, bt{a, b, (a + 2*b) % len(nonces)})
		}
	}
	c.ParallelFor(len(bts)*len(boxLens), func(i int) {
		t, n := bts[i/len(boxLens)], boxLens[i%len(boxLens)]
		if n > 1000 && t.a != t.b {
			return
		}
		A, B := pairs[t.a], pairs[t.b]
		nonce := a24(nonces[t.ni])
		msg := pickMsg(t.a+t.b, n)
		k := shared[[2]int{t.a, t.b}]
		want := naclref.SecretboxSeal(msg, nonce, k) // == BoxSeal (checked in the model's KATs); avoids a ladder per point
		det := map[string]any{"sender": A.name, "recipient": B.name, "nonceclass": t.ni, "len": n}
		mode := (t.a + n) % nModes
		det["outmode"] = mode
		var got, got2, back, back2 []byte
		var ok, ok2 bool
		// every argument is a private copy that is wiped after the calls
		mc, bc := append([]byte(nil), msg...), append([]byte(nil), want...)
		nc, kc, apk, ask, bpk, bsk := nonce, k, A.pk, A.sk, B.pk, B.sk
		pan, val, _ := vf.Protect(func() {
			got = box.Seal(mkOut(mode, len(want)), mc, &nc, &bpk, &ask)
			got2 = box.SealAfterPrecomputation(mkOut(mode, len(want)), mc, &nc, &kc)
			back, ok = box.Open(mkOut(mode, n), bc, &nc, &apk, &bsk)
			back2, ok2 = box.OpenAfterPrecomputation(mkOut(mode, n), bc, &nc, &kc)
		})
		c.Eval(4)
		if pan {
			det["panic"] = fmt.Sprint(val)
			c.Violation("box Seal/Open panics", det)
			return
		}
		if !bytes.Equal(mc, msg) || !bytes.Equal(bc, want) || nc != nonce || kc != k || apk != A.pk || ask != A.sk || bpk != B.pk || bsk != B.sk {
			c.Violation("box Seal/Open modifies a key, nonce, message or box argument", det)
		}
		wipe(mc)
		wipe(bc)
		wipe(nc[:])
		wipe(kc[:])
		wipe(apk[:])
		wipe(ask[:])
		wipe(bpk[:])
		wipe(bsk[:])
		if !checkAppended(got, mode, want) {
			c.Violation("box.Seal != crypto_box_easy", det)
		}
		if !checkAppended(got2, mode, want) {
			c.Violation("box.SealAfterPrecomputation != crypto_box_easy_afternm", det)
		}
		if !ok || !checkAppended(back, mode, msg) {
			c.Violation("box.Open rejects or mis-decrypts a crypto_box_easy box", det)
		}
		if !ok2 || !checkAppended(back2, mode, msg) {
			c.Violation("box.OpenAfterPrecomputation rejects or mis-decrypts a crypto_box_easy box", det)
		}
		if t.a == 0 && t.b == 1 && n > 32 {
			c.Nontrivial(fmt.Sprintf("box/%d", n))
		}
		if n == 40 {
			for ci, bad := range corruptions(want, true) {
				var ok bool
				pan, _, _ := vf.Protect(func() { _, ok = box.Open(nil, bad, &nonce, &A.pk, &B.sk) })
				c.Eval(1)
				if pan || ok {
					det["corruption"] = ci
					c.Violation("box.Open accepts a corrupted box (or panics)", det)
				}
			}
			// wrong sender key must not open
			other := pairs[(t.a+1)%len(pairs)].pk
			if other != A.pk {
				var ok bool
				vf.Protect(func() { _, ok = box.Open(nil, want, &nonce, &other, &B.sk) })
				c.Eval(1)
				if ok {
					c.Violation("box.Open accepts a box under the wrong sender key", det)
				}
			}
		}
	})

	// ---- 2d. long messages: lengths around every power of two up to 4 MiB (16 MiB thorough) ---
	// secretbox hands message[32:] to the Salsa20 code and the ciphertext to Poly1305; nothing in the
	// grid above is longer than 16 KiB. The model is computed ONCE per (key, nonce) for the longest
	// message (naclref.SecretboxPrefixes: ciphertext prefix + Poly1305 of every prefix).
	{
		maxK := 22
		if c.Thorough {
			maxK = 24
		}
		var longs []int
		for k := 16; k <= maxK; k++ {
			// n = 2^k+{-1,0,1} and n-32 (what the Salsa20 code sees after the first-block split) = 2^k+{-1,0,1,63,64,65}
			for _, d := range []int{-1, 0, 1, 31, 32, 33, 95, 96, 97} {
				longs = append(longs, 1<<uint(k)+d)
			}
		}
		longMax := longs[len(longs)-1]
		longMsg := make([]byte, longMax)
		for i := range longMsg {
			longMsg[i] = byte(i*5 + i>>10)
		}
		type lk struct {
			key   [32]byte
			nonce [24]byte
			a, b  int // key pair indices when the key is a box key, else -1; a == -2: sealed box for recipient b
			esk   [32]byte
			ct    []byte
			tags  map[int][16]byte
		}
		lks := []*lk{
			{key: a32(keys[len(keys)-1]), nonce: a24(nonces[len(nonces)-1]), a: -1, b: -1},
			{key: shared[[2]int{4, 5}], nonce: a24(nonces[3]), a: 4, b: 5},
		}
		{
			// sealed box: epk || crypto_box(m, BLAKE2b-192(epk || pk), pk, esk)
			esk := a32(keys[len(keys)-2])
			epk := naclref.BoxKeyPair(esk)
			k, _ := naclref.BoxBeforeNM(pairs[5].pk, esk)
			lks = append(lks, &lk{key: k, nonce: naclref.SealNonce(epk, pairs[5].pk), a: -2, b: 5, esk: esk})
		}
		c.ParallelFor(len(lks), func(i int) {
			lks[i].ct, lks[i].tags = naclref.SecretboxPrefixes(longMsg, lks[i].nonce, lks[i].key, longs)
		})
		// tie the one-pass model to the plain one at the shortest long length
		for _, l := range lks {
			n := longs[0]
			tg := l.tags[n]
			if !bytes.Equal(append(tg[:], l.ct[:n]...), naclref.SecretboxSeal(longMsg[:n], l.nonce, l.key)) {
				panic("C10: SecretboxPrefixes disagrees with SecretboxSeal")
			}
			if l.a == -2 {
				epk := naclref.BoxKeyPair(l.esk)
				if !bytes.Equal(append(append(epk[:], tg[:]...), l.ct[:n]...), naclref.SealedBoxSeal(longMsg[:n], pairs[l.b].pk, l.esk)) {
					panic("C10: sealed-box composition disagrees with SealedBoxSeal")
				}
			}
		}
		// scratch buffers are recycled (old contents = a reused destination)
		pool := sync.Pool{New: func() any {
			b := make([]byte, longMax+64)
			for i := range b {
				b[i] = 0xA5 ^ byte(i)
			}
			return &b
		}}
		outBuf := func(b []byte, mode, need int) []byte {
			copy(b, "PREFX")
			switch mode {
			case 2:
				return b[: 5 : 5+need+8]
			case 3:
				return b[: 5 : 5+need]
			}
			return nil
		}
		c.ParallelFor(len(lks)*len(longs), func(i int) {
			l, n := lks[i/len(longs)], longs[i%len(longs)]
			tg := l.tags[n]
			wb, ob := pool.Get().(*[]byte), pool.Get().(*[]byte)
			defer pool.Put(wb)
			defer pool.Put(ob)
			want := append(append((*wb)[:0], tg[:]...), l.ct[:n]...)
			msg := longMsg[:n]
			det := map[string]any{"len": n, "long": true, "keyset": i / len(longs)}
			if l.a == -1 {
				mode := []int{0, 3, 2}[i%3]
				det["outmode"] = mode
				var got, back []byte
				var ok bool
				k2, n2 := l.key, l.nonce
				pan, val, _ := vf.Protect(func() { got = secretbox.Seal(outBuf(*ob, mode, len(want)), msg, &n2, &k2) })
				c.Eval(1)
				if pan {
					det["panic"] = fmt.Sprint(val)
					c.Violation("secretbox.Seal panics on a long message", det)
					return
				}
				if k2 != l.key || n2 != l.nonce {
					c.Violation("secretbox.Seal modifies its key, nonce or message argument", det)
				}
				if !checkAppended(got, mode, want) {
					det["first_diff_at"] = firstDiff(got, want, mode)
					c.Violation("secretbox.Seal != crypto_secretbox_easy on a long message (>= 64 KiB)", det)
				}
				got = nil
				pan, val, _ = vf.Protect(func() { back, ok = secretbox.Open(outBuf(*ob, mode, n), want, &n2, &k2) })
				c.Eval(1)
				if pan {
					det["panic"] = fmt.Sprint(val)
					c.Violation("secretbox.Open panics on a long box", det)
					return
				}
				if !ok || !checkAppended(back, mode, msg) {
					det["ok"] = ok
					c.Violation("secretbox.Open rejects or mis-decrypts a long crypto_secretbox_easy box (>= 64 KiB)", det)
				}
			}
			// one corrupted byte far behind the first block must be rejected
			want[len(want)-1-n/3] ^= 0x40
			var ok bool
			pan, _, _ := vf.Protect(func() { _, ok = secretbox.Open(nil, want, &l.nonce, &l.key) })
			c.Eval(1)
			if pan || ok {
				c.Violation("secretbox.Open accepts a corrupted long box (or panics)", det)
			}
			want[len(want)-1-n/3] ^= 0x40
			if l.a >= 0 {
				A, B := pairs[l.a], pairs[l.b]
				var got, back []byte
				nonce := l.nonce
				pan, val, _ := vf.Protect(func() {
					got = box.Seal(nil, msg, &nonce, &B.pk, &A.sk)
					back, ok = box.Open(nil, want, &nonce, &A.pk, &B.sk)
				})
				c.Eval(2)
				if pan || !bytes.Equal(got, want) || !ok || !bytes.Equal(back, msg) {
					det["panic"] = fmt.Sprint(val)
					c.Violation("box.Seal/Open != crypto_box_easy on a long message (>= 64 KiB)", det)
				}
			}
			if l.a == -2 {
				R := pairs[l.b]
				epk := naclref.BoxKeyPair(l.esk)
				wantS := append(append(make([]byte, 0, 32+len(want)), epk[:]...), want...)
				mode := []int{3, 0, 2}[i%3]
				det["outmode"] = mode
				var got, back []byte
				var err error
				pan, val, _ := vf.Protect(func() {
					got, err = box.SealAnonymous(outBuf(*ob, mode, len(wantS)), msg, &R.pk, bytes.NewReader(l.esk[:]))
				})
				c.Eval(1)
				if pan || err != nil || !checkAppended(got, mode, wantS) {
					det["panic"] = fmt.Sprint(val, err)
					c.Violation("box.SealAnonymous != crypto_box_seal on a long message (>= 64 KiB)", det)
				}
				pan, val, _ = vf.Protect(func() { back, ok = box.OpenAnonymous(outBuf(*ob, mode, n), wantS, &R.pk, &R.sk) })
				c.Eval(1)
				if pan || !ok || !checkAppended(back, mode, msg) {
					det["panic"] = fmt.Sprint(val)
					c.Violation("box.OpenAnonymous rejects or mis-decrypts a long crypto_box_seal box (>= 64 KiB)", det)
				}
			}
			c.Nontrivial(fmt.Sprintf("long/%d/%d", i/len(longs), n))
		})
		// signed messages and authenticators of long messages (one key each)
		var few []int
		for k := 16; k <= maxK; k += 2 {
			few = append(few, 1<<uint(k)-1, 1<<uint(k), 1<<uint(k)+1)
		}
		c.ParallelFor(len(few), func(i int) {
			n := few[i]
			msg := longMsg[:n]
			det := map[string]any{"len": n, "long": true}
			var got, back []byte
			var ok bool
			seed := a32(keys[len(keys)-1])
			pk, sk := naclref.SignKeyPair(seed)
			wantG := naclref.Sign(seed, msg)
			pan, val, _ := vf.Protect(func() {
				got = sign.Sign(nil, msg, &sk)
				back, ok = sign.Open(nil, wantG, &pk)
			})
			c.Eval(2)
			if pan || !bytes.Equal(got, wantG) || !ok || !bytes.Equal(back, msg) {
				det["panic"] = fmt.Sprint(val)
				c.Violation("sign.Sign/Open != crypto_sign on a long message (>= 64 KiB)", det)
			}
			wantG[len(wantG)-1-n/2] ^= 1
			pan, _, _ = vf.Protect(func() { _, ok = sign.Open(nil, wantG, &pk) })
			c.Eval(1)
			if pan || ok {
				c.Violation("sign.Open accepts a corrupted long signed message (or panics)", det)
			}
			key := a32(keys[len(keys)-1])
			wantA := naclref.Auth(msg, key)
			var ga *[32]byte
			pan, _, _ = vf.Protect(func() {
				ga = auth.Sum(msg, &key)
				ok = auth.Verify(wantA[:], msg, &key)
			})
			c.Eval(2)
			if pan || *ga != wantA || !ok {
				c.Violation("auth.Sum/Verify != crypto_auth on a long message (>= 64 KiB)", det)
			}
			c.Nontrivial(fmt.Sprintf("long-sign-auth/%d", n))
		})
	}

	// ---- 3. sealed boxes ------------------------------------------------------------------
	sealLens := lengths
	c.ParallelFor(len(pairs)*len(sealLens), func(i int) {
		R, n := pairs[i/len(sealLens)], sealLens[i%len(sealLens)]
		if n > 1000 && i/len(sealLens) > 1 {
			return
		}
		msg := pickMsg(i/len(sealLens)+1, n)
		label := fmt.Sprintf("c10-seal-%d-%d-%d", c.Seed, i/len(sealLens), n%7)
		var esk [32]byte
		io.ReadFull(vf.NewRand(label), esk[:])
		if n%5 == 0 { // boundary ephemeral secrets as well: the reader may return any bytes
			esk = a32(keys[(n/5)%len(keys)])
		}
		want := naclref.SealedBoxSeal(msg, R.pk, esk)
		det := map[string]any{"recipient": R.name, "len": n, "esk": fmt.Sprintf("%x", esk)}
		mode := n % nModes
		det["outmode"] = mode
		var got []byte
		var err error
		mc, bc, rpk, rsk, ec := append([]byte(nil), msg...), append([]byte(nil), want...), R.pk, R.sk, esk
		pan, val, _ := vf.Protect(func() { got, err = box.SealAnonymous(mkOut(mode, len(want)), mc, &rpk, bytes.NewReader(ec[:])) })
		c.Eval(1)
		if pan || err != nil {
			det["panic"] = fmt.Sprint(val, err)
			c.Violation("box.SealAnonymous panics or fails", det)
			return
		}
		if !bytes.Equal(mc, msg) || rpk != R.pk {
			c.Violation("box.SealAnonymous modifies its message or recipient argument", det)
		}
		wipe(mc)
		wipe(ec[:]) // the bytes the reader handed out
		if !checkAppended(got, mode, want) {
			det["first_diff_at"] = firstDiff(got, want, mode)
			c.Violation("box.SealAnonymous != crypto_box_seal (epk || box with BLAKE2b-192(epk||pk) nonce)", det)
		}
		var back []byte
		var ok bool
		pan, val, _ = vf.Protect(func() { back, ok = box.OpenAnonymous(mkOut(mode, n), bc, &rpk, &rsk) })
		c.Eval(1)
		if !bytes.Equal(bc, want) || rpk != R.pk || rsk != R.sk {
			c.Violation("box.OpenAnonymous modifies its box or key arguments", det)
		}
		wipe(bc)
		wipe(rpk[:])
		wipe(rsk[:])
		if pan || !ok || !checkAppended(back, mode, msg) {
			det["ok"] = ok
			c.Violation("box.OpenAnonymous rejects or mis-decrypts a crypto_box_seal box", det)
		}
		if i/len(sealLens) == 0 && n > 32 {
			c.Nontrivial(fmt.Sprintf("seal/%d", n))
		}
		if n == 20 || n == 0 {
			for ci, bad := range corruptions(want, true) {
				var ok bool
				pan, _, _ := vf.Protect(func() { _, ok = box.OpenAnonymous(nil, bad, &R.pk, &R.sk) })
				c.Eval(1)
				if pan || ok {
					det["corruption"] = ci
					c.Violation("box.OpenAnonymous accepts a corrupted sealed box (or panics)", det)
				}
			}
			// rand == nil uses crypto/rand: the output must be opened by the model (crypto_box_seal_open)
			var got []byte
			pan, _, _ := vf.Protect(func() { got, err = box.SealAnonymous(nil, msg, &R.pk, nil) })
			c.Eval(1)
			m, mok := naclref.SealedBoxOpen(got, R.pk, R.sk)
			if pan || err != nil || !mok || !bytes.Equal(m, msg) {
				c.Violation("box.SealAnonymous(rand=nil) output is not opened by crypto_box_seal_open", det)
			}
		}
	})
	for n := 0; n < 48; n++ {
		var ok bool
		pan, _, _ := vf.Protect(func() { _, ok = box.OpenAnonymous(nil, make([]byte, n), &pairs[4].pk, &pairs[4].sk) })
		c.Eval(1)
		if pan || ok {
			c.Violation("box.OpenAnonymous accepts or panics on a box shorter than 48 bytes", n)
		}
	}
	// a failing rand is reported, not ignored
	{
		var got []byte
		var err error
		pan, _, _ := vf.Protect(func() {
			got, err = box.SealAnonymous(nil, []byte("x"), &pairs[4].pk, bytes.NewReader(make([]byte, 31)))
		})
		c.Eval(1)
		if pan || err == nil || got != nil {
			c.Violation("box.SealAnonymous ignores a short read from rand", fmt.Sprint(err))
		}
	}

	// ---- 4. sign --------------------------------------------------------------------------
	seeds := c.ValueClasses("c10-signseed", 32, nv)
	type spair struct {
		seed [32]byte
		pk   [32]byte
		sk   [64]byte
	}
	sp2 := make([]spair, len(seeds))
	c.ParallelFor(len(seeds), func(i int) {
		seed := a32(seeds[i])
		pk, sk := naclref.SignKeyPair(seed)
		sp2[i] = spair{seed, pk, sk}
		var gpk *[32]byte
		var gsk *[64]byte
		var err error
		pan, _, _ := vf.Protect(func() { gpk, gsk, err = sign.GenerateKey(bytes.NewReader(seed[:])) })
		c.Eval(1)
		if pan || err != nil || *gpk != pk || *gsk != sk {
			c.Violation("sign.GenerateKey != crypto_sign_seed_keypair (sk = seed || pk)", map[string]any{"seedclass": i, "err": fmt.Sprint(err)})
		}
	})
	if sign.Overhead != 64 {
		c.Violation("sign.Overhead != 64", sign.Overhead)
	}
	c.ParallelFor(len(seeds)*(LS+1), func(i int) {
		si, n := i/(LS+1), i%(LS+1)
		kp := sp2[si]
		msg := pickMsg(si+2, n)
		want := naclref.Sign(kp.seed, msg)
		det := map[string]any{"seedclass": si, "len": n}
		mode := (si + n) % nModes
		det["outmode"] = mode
		var got, back []byte
		var ok bool
		sk, pk := kp.sk, kp.pk
		mc, sc := append([]byte(nil), msg...), append([]byte(nil), want...)
		pan, val, _ := vf.Protect(func() {
			got = sign.Sign(mkOut(mode, len(want)), mc, &sk)
			back, ok = sign.Open(mkOut(mode, n), sc, &pk)
		})
		c.Eval(2)
		if pan {
			det["panic"] = fmt.Sprint(val)
			c.Violation("sign.Sign/Open panics", det)
			return
		}
		if !bytes.Equal(mc, msg) || !bytes.Equal(sc, want) || pk != kp.pk {
			c.Violation("sign.Sign/Open modifies its message, signed message or public key argument", det)
		}
		wipe(mc) // the results were appended to out: they must not alias the inputs
		wipe(sc)
		if !checkAppended(got, mode, want) {
			det["first_diff_at"] = firstDiff(got, want, mode)
			c.Violation("sign.Sign != crypto_sign (Ed25519 signature || message)", det)
		}
		if !ok || !checkAppended(back, mode, msg) {
			c.Violation("sign.Open rejects or mangles a crypto_sign message", det)
		}
		if sk != kp.sk {
			c.Violation("sign.Sign modifies the private key", det)
		}
		if si == 0 && n > 0 {
			c.Nontrivial(fmt.Sprintf("sign/%d", n))
		}
		if n <= 3 || n == 47 || n == 111 {
			for ci, bad := range corruptions(want, n <= 3) {
				var ok bool
				var back []byte
				pan, _, _ := vf.Protect(func() { back, ok = sign.Open(nil, bad, &pk) })
				c.Eval(1)
				if pan || ok || back != nil {
					det["corruption"] = ci
					c.Violation("sign.Open accepts a corrupted signed message (or panics)", det)
				}
			}
			pk = kp.pk
			other := sp2[(si+1)%len(sp2)].pk
			var ok bool
			vf.Protect(func() { _, ok = sign.Open(nil, want, &other) })
			c.Eval(1)
			if ok && other != pk {
				c.Violation("sign.Open accepts a message under the wrong public key", det)
			}
		}
		if c.WantSample() && n == 3 && si == 4 {
			c.Sample(map[string]any{"func": "sign.Sign", "len": n, "model_signed": vf.Hex8(want)})
		}
	})
	for n := 0; n < 64; n++ {
		var ok bool
		pan, _, _ := vf.Protect(func() { _, ok = sign.Open(nil, make([]byte, n), &sp2[4].pk) })
		c.Eval(1)
		if pan || ok {
			c.Violation("sign.Open accepts or panics on input shorter than 64 bytes", n)
		}
	}

	// ---- 5. auth --------------------------------------------------------------------------
	if auth.Size != 32 || auth.KeySize != 32 {
		c.Violation("auth.Size/KeySize wrong", []int{auth.Size, auth.KeySize})
	}
	akeys := c.ValueClasses("c10-authkey", 32, nv)
	c.ParallelFor(len(akeys)*(LA+1), func(i int) {
		ki, n := i/(LA+1), i%(LA+1)
		key := a32(akeys[ki])
		msg := pickMsg(ki, n)
		want := naclref.Auth(msg, key)
		det := map[string]any{"keyclass": ki, "len": n}
		var got, got2 *[32]byte
		var ok bool
		kc, k2 := key, a32(akeys[(ki+1)%len(akeys)])
		mc, dc := append([]byte(nil), msg...), want
		pan, val, _ := vf.Protect(func() {
			got = auth.Sum(mc, &kc)
			got2 = auth.Sum(mc, &k2) // the first authenticator belongs to the caller: a later Sum must not change it
			ok = auth.Verify(dc[:], mc, &kc)
		})
		c.Eval(3)
		if !pan && (got == got2 || kc != key || dc != want || !bytes.Equal(mc, msg)) {
			c.Violation("auth.Sum/Verify modifies an argument or returns shared storage", det)
		}
		if !pan && *got2 != naclref.Auth(msg, k2) {
			c.Violation("auth.Sum != crypto_auth (HMAC-SHA-512 truncated to 32 bytes)", det)
		}
		wipe(mc)
		wipe(kc[:])
		if pan {
			det["panic"] = fmt.Sprint(val)
			c.Violation("auth.Sum/Verify panics", det)
			return
		}
		if *got != want {
			det["got"] = fmt.Sprintf("%x", *got)
			det["want"] = fmt.Sprintf("%x", want)
			c.Violation("auth.Sum != crypto_auth (HMAC-SHA-512 truncated to 32 bytes)", det)
		}
		if !ok {
			c.Violation("auth.Verify rejects a crypto_auth authenticator", det)
		}
		if ki == 0 && (n >= 111 || n == 0) {
			c.Nontrivial(fmt.Sprintf("auth/%d", n))
		}
		if n < 4 || n == 112 || n == 128 {
			full := naclref.HMACSHA512(key[:], msg)
			bads := corruptions(want[:], true)
			bads = append(bads, nil, want[:16], full[:], full[32:]) // wrong lengths, the other half of the HMAC
			for ci, bad := range bads {
				var ok bool
				pan, _, _ := vf.Protect(func() { ok = auth.Verify(bad, msg, &key) })
				c.Eval(1)
				if pan || ok {
					det["corruption"] = ci
					c.Violation("auth.Verify accepts a wrong authenticator (or panics)", det)
				}
			}
			if n > 0 {
				m2 := append([]byte(nil), msg...)
				m2[n-1] ^= 0x80
				var ok bool
				vf.Protect(func() { ok = auth.Verify(want[:], m2, &key) })
				c.Eval(1)
				if ok {
					c.Violation("auth.Verify accepts an authenticator for a different message", det)
				}
			}
		}
	})
	c.Sample(map[string]any{"secretbox_points": len(kns) * len(lengths), "box_pairs": len(pairs) * len(pairs), "special_peers": len(specials), "sign_points": len(seeds) * (LS + 1), "auth_points": len(akeys) * (LA + 1)})
}

func firstDiff(got, want []byte, mode int) int {
	if mode != 0 && len(got) >= 5 {
		got = got[5:]
	}
	for i := range want {
		if i >= len(got) || got[i] != want[i] {
			return i
		}
	}
	if len(got) != len(want) {
		return len(want)
	}
	return -1
}
