// C10: nacl/secretbox, nacl/box (incl. anonymous sealed boxes), nacl/sign and nacl/auth
// produce and accept exactly the NaCl / libsodium constructions.
//
// libsodium/PyNaCl is not installed in this image; the oracle is ref/naclref, a model written
// from the NaCl paper and the libsodium documentation on top of independent Salsa20/HSalsa20,
// math/big Poly1305, math/big X25519, BLAKE2b and math/big Ed25519 models, validated on the
// published NaCl secretbox/box/onetimeauth/auth vectors and the RFC 8032/7748/4231 vectors.
//
// Grid: every message length 0..L (L=700 quick, 2100 thorough) plus {1000,2000,4096,16384}
// x key classes x nonce classes (full product) for secretbox; all ordered key-pair
// combinations for box plus every small-order / non-canonical peer key; sealed boxes with a
// deterministic rand; sign over seed classes x every length 0..LS; auth over key classes x
// every length; each Seal/Sign/Sum compared byte for byte, each Open/Verify fed model-produced
// values (accept) and every single-byte corruption / truncation class (reject).
package main

import (
	"bytes"
	"fmt"
	"io"

	"golang.org/x/crypto/nacl/auth"
	"golang.org/x/crypto/nacl/box"
	"golang.org/x/crypto/nacl/secretbox"
	"golang.org/x/crypto/nacl/sign"
	"verif/ref/naclref"
	"verif/ref/x25519ref"
	"verif/vf"
)

func main() { vf.Main("C10", vf.Exploration, run) }

func a32(b []byte) (a [32]byte) { copy(a[:], b); return }
func a24(b []byte) (a [24]byte) { copy(a[:], b); return }

// appendModes: how the `out` argument of the append-style APIs is supplied.
//
//	0: nil   1: 5-byte prefix without spare capacity   2: 5-byte prefix with enough capacity
func mkOut(mode, need int) []byte {
	switch mode {
	case 1:
		return []byte("PREFX")
	case 2:
		b := make([]byte, 5, 5+need+8)
		copy(b, "PREFX")
		return b
	}
	return nil
}

func checkAppended(got []byte, mode int, want []byte) bool {
	if mode == 0 {
		return bytes.Equal(got, want)
	}
	return len(got) == 5+len(want) && string(got[:5]) == "PREFX" && bytes.Equal(got[5:], want)
}

// corruptions of a valid artefact: flip one bit in each byte position class, truncate, extend.
func corruptions(b []byte, dense bool) [][]byte {
	var out [][]byte
	pos := map[int]bool{}
	if dense {
		for i := range b {
			pos[i] = true
		}
	} else {
		for _, i := range []int{0, 1, 15, 16, 17, 31, 32, 33, 47, 48, 49, 63, 64, 65, 79, 80, 95, 96, len(b) / 2, len(b) - 2, len(b) - 1} {
			if i >= 0 && i < len(b) {
				pos[i] = true
			}
		}
	}
	for i := range b {
		if pos[i] {
			c := append([]byte(nil), b...)
			c[i] ^= 1 << (uint(i) % 8)
			out = append(out, c)
		}
	}
	if len(b) > 0 {
		out = append(out, append([]byte(nil), b[:len(b)-1]...))
	}
	out = append(out, append(append([]byte(nil), b...), 0))
	return out
}

func run(c *vf.Ctx) {
	c.Rule("full grid: secretbox {key classes} x {nonce classes} x every message length 0..L plus 1000,2000,4096,16384 x out-argument mode {nil, prefix, prefix+capacity}; " +
		"box: all ordered pairs of key-pair classes x nonce classes x lengths, plus every small-order/non-canonical/bit-255 peer key; sealed boxes: recipient classes x lengths with a deterministic rand; " +
		"sign: seed classes x every length 0..LS; auth: key classes x every length 0..LA. Open/Verify: model-produced value accepted, every single-byte corruption (dense for short inputs) and truncation/extension rejected. " +
		"non-trivial = distinct (function, length) with length > 32 (past the first-block split) or distinct key-pair combination; " +
		"oracle = ref/naclref (NaCl/libsodium constructions over independent primitive models, KAT-validated)")
	c.Assume("libsodium itself is not available off-line: the published NaCl vectors and the constructions' specifications stand in for it; crypto/sha512 is trusted; values outside the alphabet are not enumerated")
	c.Set("external_oracle", "absent (libsodium/PyNaCl not installed)")

	L, LS, LA := 700, 300, 400
	if c.Thorough {
		L, LS, LA = 2100, 1100, 1100
	}
	var lengths []int
	for n := 0; n <= L; n++ {
		lengths = append(lengths, n)
	}
	lengths = append(lengths, 4096, 16384)
	if L < 1000 {
		lengths = append(lengths, 1000, 2000)
	}
	maxLen := 16384
	nv := c.V()
	keys := c.ValueClasses("c10-key", 32, nv)
	nonces := c.ValueClasses("c10-nonce", 24, nv)
	msgs := c.ValueClasses("c10-msg", maxLen, 2)
	pickMsg := func(i, n int) []byte { return msgs[[]int{0, 3, 4, 5, 1}[i%5]][:n] }

	// ---- 1. secretbox ---------------------------------------------------------------------
	type kn struct{ ki, ni int }
	var kns []kn
	for ki := range keys {
		for ni := range nonces {
			kns = append(kns, kn{ki, ni})
		}
	}
	c.ParallelFor(len(kns)*len(lengths), func(i int) {
		t, n := kns[i/len(lengths)], lengths[i%len(lengths)]
		key, nonce := a32(keys[t.ki]), a24(nonces[t.ni])
		msg := pickMsg(t.ki+t.ni, n)
		want := naclref.SecretboxSeal(msg, nonce, key)
		det := map[string]any{"len": n, "keyclass": t.ki, "nonceclass": t.ni}
		for mode := 0; mode < 3; mode++ {
			if n > 1000 && mode == 1 {
				continue
			}
			var got []byte
			k2, n2 := key, nonce
			pan, val, _ := vf.Protect(func() { got = secretbox.Seal(mkOut(mode, len(want)), msg, &n2, &k2) })
			c.Eval(1)
			if pan {
				det["panic"] = fmt.Sprint(val)
				c.Violation("secretbox.Seal panics", det)
				return
			}
			if !checkAppended(got, mode, want) {
				det["outmode"] = mode
				det["first_diff_at"] = firstDiff(got, want, mode)
				c.Violation("secretbox.Seal != crypto_secretbox_easy (tag || ciphertext)", det)
			}
			var back []byte
			var ok bool
			pan, val, _ = vf.Protect(func() { back, ok = secretbox.Open(mkOut(mode, n), want, &n2, &k2) })
			c.Eval(1)
			if pan {
				det["panic"] = fmt.Sprint(val)
				c.Violation("secretbox.Open panics", det)
				return
			}
			if !ok || !checkAppended(back, mode, msg) {
				det["outmode"] = mode
				det["ok"] = ok
				c.Violation("secretbox.Open rejects or mis-decrypts a crypto_secretbox_easy box", det)
			}
		}
		if secretbox.Overhead != 16 {
			c.Violation("secretbox.Overhead != 16", secretbox.Overhead)
		}
		// forged boxes
		if t.ni == t.ki || n <= 40 {
			for ci, bad := range corruptions(want, n <= 40) {
				var ok bool
				var back []byte
				k2, n2 := key, nonce
				pan, _, _ := vf.Protect(func() { back, ok = secretbox.Open(nil, bad, &n2, &k2) })
				c.Eval(1)
				_, mok := naclref.SecretboxOpen(bad, nonce, key)
				if pan || ok != mok || (!ok && back != nil) {
					det["corruption"] = ci
					c.Violation("secretbox.Open accepts a corrupted box (or panics)", det)
				}
			}
		}
		if t.ki == 0 && t.ni == 0 {
			if n > 32 {
				c.Nontrivial(fmt.Sprintf("secretbox/%d", n))
			}
			if c.WantSample() && n == 33 {
				c.Sample(map[string]any{"func": "secretbox.Seal", "len": n, "model_box": vf.Hex8(want)})
			}
		}
	})
	// boxes shorter than the overhead
	for n := 0; n < 16; n++ {
		k, nn := a32(keys[3]), a24(nonces[3])
		var ok bool
		pan, _, _ := vf.Protect(func() { _, ok = secretbox.Open(nil, make([]byte, n), &nn, &k) })
		c.Eval(1)
		if pan || ok {
			c.Violation("secretbox.Open accepts or panics on a box shorter than 16 bytes", n)
		}
	}

	// ---- 2. box ---------------------------------------------------------------------------
	type kp struct {
		name   string
		sk, pk [32]byte
	}
	var pairs []kp
	for i, s := range c.ValueClasses("c10-boxsk", 32, nv) {
		sk := a32(s)
		pairs = append(pairs, kp{fmt.Sprintf("class%d", i), sk, naclref.BoxKeyPair(sk)})
	}
	// GenerateKey: secret = 32 bytes from rand, public = X25519(secret, 9)
	for i := 0; i < 4; i++ {
		label := fmt.Sprintf("c10-genkey-%d-%d", c.Seed, i)
		var sk [32]byte
		io.ReadFull(vf.NewRand(label), sk[:])
		var pk, gsk *[32]byte
		var err error
		pan, _, _ := vf.Protect(func() { pk, gsk, err = box.GenerateKey(vf.NewRand(label)) })
		c.Eval(1)
		if pan || err != nil || *gsk != sk || *pk != naclref.BoxKeyPair(sk) {
			c.Violation("box.GenerateKey != (rand bytes, X25519(sk, 9))", map[string]any{"i": i, "err": fmt.Sprint(err)})
		}
	}
	if box.Overhead != 16 || box.AnonymousOverhead != 48 {
		c.Violation("box.Overhead/AnonymousOverhead wrong", []int{box.Overhead, box.AnonymousOverhead})
	}
	// 2a. Precompute: all ordered pairs, symmetry and model
	shared := map[[2]int][32]byte{}
	for a := range pairs {
		for b := range pairs {
			want, _ := naclref.BoxBeforeNM(pairs[b].pk, pairs[a].sk)
			shared[[2]int{a, b}] = want
		}
	}
	for a := range pairs {
		for b := range pairs {
			var k1, k2 [32]byte
			for j := range k1 {
				k1[j], k2[j] = 0xA5, 0x5A
			}
			pa, pb, sa, sb := pairs[a].pk, pairs[b].pk, pairs[a].sk, pairs[b].sk
			pan, _, _ := vf.Protect(func() {
				box.Precompute(&k1, &pb, &sa)
				box.Precompute(&k2, &pa, &sb)
			})
			c.Eval(2)
			det := map[string]any{"a": pairs[a].name, "b": pairs[b].name}
			if pan {
				c.Violation("box.Precompute panics", det)
				continue
			}
			if k1 != k2 {
				c.Violation("box.Precompute is not symmetric between the two parties", det)
			}
			if k1 != shared[[2]int{a, b}] {
				c.Violation("box.Precompute != HSalsa20(X25519(sk, pk), 0)", det)
			}
			c.Nontrivial(fmt.Sprintf("pair/%d/%d", a, b))
		}
	}
	// 2b. special peer keys: small order (all 14 encodings), non-canonical, bit 255 set
	type sp struct {
		name string
		pk   [32]byte
	}
	var specials []sp
	for i, e := range x25519ref.SmallOrderEncodings() {
		specials = append(specials, sp{fmt.Sprintf("small-order encoding %d", i), e})
	}
	for _, k := range []int64{2, 3, 9, 18} { // p+k: non-canonical encodings of k
		v := x25519ref.IntToLE32(x25519ref.P)
		v[0] += byte(k) // p ends in 0xed: no carry for k <= 18
		specials = append(specials, sp{fmt.Sprintf("non-canonical p+%d", k), v})
		v[31] |= 0x80
		specials = append(specials, sp{fmt.Sprintf("non-canonical p+%d | bit255", k), v})
	}
	hb := pairs[4].pk
	hb[31] |= 0x80
	specials = append(specials, sp{"honest key | bit255", hb})
	for _, s := range specials {
		for a := range pairs {
			want, weak := naclref.BoxBeforeNM(s.pk, pairs[a].sk)
			var k1 [32]byte
			for j := range k1 {
				k1[j] = 0xA5
			}
			pk, sk := s.pk, pairs[a].sk
			pan, _, _ := vf.Protect(func() { box.Precompute(&k1, &pk, &sk) })
			c.Eval(1)
			det := map[string]any{"peer": s.name, "peer_hex": fmt.Sprintf("%x", s.pk), "sk": pairs[a].name, "shared_secret_all_zero": weak}
			if pan || k1 != want {
				det["got"] = fmt.Sprintf("%x", k1)
				det["want"] = fmt.Sprintf("%x", want)
				c.Violation("box.Precompute != HSalsa20(X25519(sk, pk), 0) for a special peer key", det)
			}
			if weak {
				c.Outcome("small-order peer: key derived from all-zero secret")
			} else {
				c.Outcome("shared key")
			}
			// Seal/Open with such a peer follow the same construction
			msg := pickMsg(a, 50)
			nonce := a24(nonces[a%len(nonces)])
			wantBox := naclref.SecretboxSeal(msg, nonce, want)
			var got []byte
			pan, _, _ = vf.Protect(func() { got = box.Seal(nil, msg, &nonce, &pk, &sk) })
			c.Eval(1)
			if pan || !bytes.Equal(got, wantBox) {
				c.Violation("box.Seal != crypto_box construction for a special peer key", det)
			}
			c.Nontrivial("special/" + s.name)
		}
	}
	// 2c. Seal / Open / AfterPrecomputation over pairs x nonces x lengths
	boxLens := lengths
	type bt struct{ a, b, ni int }
	var bts []bt
	for a := range pairs {
		for b := range pairs {
			bts = append(bts, bt{a, b, (a + 2*b) % len(nonces)})
		}
	}
	c.ParallelFor(len(bts)*len(boxLens), func(i int) {
		t, n := bts[i/len(boxLens)], boxLens[i%len(boxLens)]
		if n > 1000 && t.a != t.b {
			return
		}
		A, B := pairs[t.a], pairs[t.b]
		nonce := a24(nonces[t.ni])
		msg := pickMsg(t.a+t.b, n)
		k := shared[[2]int{t.a, t.b}]
		want := naclref.SecretboxSeal(msg, nonce, k) // == BoxSeal (checked in the model's KATs); avoids a ladder per point
		det := map[string]any{"sender": A.name, "recipient": B.name, "nonceclass": t.ni, "len": n}
		mode := (t.a + n) % 3
		var got, got2, back, back2 []byte
		var ok, ok2 bool
		pan, val, _ := vf.Protect(func() {
			got = box.Seal(mkOut(mode, len(want)), msg, &nonce, &B.pk, &A.sk)
			got2 = box.SealAfterPrecomputation(mkOut(mode, len(want)), msg, &nonce, &k)
			back, ok = box.Open(mkOut(mode, n), want, &nonce, &A.pk, &B.sk)
			back2, ok2 = box.OpenAfterPrecomputation(mkOut(mode, n), want, &nonce, &k)
		})
		c.Eval(4)
		if pan {
			det["panic"] = fmt.Sprint(val)
			c.Violation("box Seal/Open panics", det)
			return
		}
		if !checkAppended(got, mode, want) {
			c.Violation("box.Seal != crypto_box_easy", det)
		}
		if !checkAppended(got2, mode, want) {
			c.Violation("box.SealAfterPrecomputation != crypto_box_easy_afternm", det)
		}
		if !ok || !checkAppended(back, mode, msg) {
			c.Violation("box.Open rejects or mis-decrypts a crypto_box_easy box", det)
		}
		if !ok2 || !checkAppended(back2, mode, msg) {
			c.Violation("box.OpenAfterPrecomputation rejects or mis-decrypts a crypto_box_easy box", det)
		}
		if t.a == 0 && t.b == 1 && n > 32 {
			c.Nontrivial(fmt.Sprintf("box/%d", n))
		}
		if n == 40 {
			for ci, bad := range corruptions(want, true) {
				var ok bool
				pan, _, _ := vf.Protect(func() { _, ok = box.Open(nil, bad, &nonce, &A.pk, &B.sk) })
				c.Eval(1)
				if pan || ok {
					det["corruption"] = ci
					c.Violation("box.Open accepts a corrupted box (or panics)", det)
				}
			}
			// wrong sender key must not open
			other := pairs[(t.a+1)%len(pairs)].pk
			if other != A.pk {
				var ok bool
				vf.Protect(func() { _, ok = box.Open(nil, want, &nonce, &other, &B.sk) })
				c.Eval(1)
				if ok {
					c.Violation("box.Open accepts a box under the wrong sender key", det)
				}
			}
		}
	})

	// ---- 3. sealed boxes ------------------------------------------------------------------
	sealLens := lengths
	c.ParallelFor(len(pairs)*len(sealLens), func(i int) {
		R, n := pairs[i/len(sealLens)], sealLens[i%len(sealLens)]
		if n > 1000 && i/len(sealLens) > 1 {
			return
		}
		msg := pickMsg(i/len(sealLens)+1, n)
		label := fmt.Sprintf("c10-seal-%d-%d-%d", c.Seed, i/len(sealLens), n%7)
		var esk [32]byte
		io.ReadFull(vf.NewRand(label), esk[:])
		if n%5 == 0 { // boundary ephemeral secrets as well: the reader may return any bytes
			esk = a32(keys[(n/5)%len(keys)])
		}
		want := naclref.SealedBoxSeal(msg, R.pk, esk)
		det := map[string]any{"recipient": R.name, "len": n, "esk": fmt.Sprintf("%x", esk)}
		mode := n % 3
		var got []byte
		var err error
		pan, val, _ := vf.Protect(func() { got, err = box.SealAnonymous(mkOut(mode, len(want)), msg, &R.pk, bytes.NewReader(esk[:])) })
		c.Eval(1)
		if pan || err != nil {
			det["panic"] = fmt.Sprint(val, err)
			c.Violation("box.SealAnonymous panics or fails", det)
			return
		}
		if !checkAppended(got, mode, want) {
			det["first_diff_at"] = firstDiff(got, want, mode)
			c.Violation("box.SealAnonymous != crypto_box_seal (epk || box with BLAKE2b-192(epk||pk) nonce)", det)
		}
		var back []byte
		var ok bool
		pan, val, _ = vf.Protect(func() { back, ok = box.OpenAnonymous(mkOut(mode, n), want, &R.pk, &R.sk) })
		c.Eval(1)
		if pan || !ok || !checkAppended(back, mode, msg) {
			det["ok"] = ok
			c.Violation("box.OpenAnonymous rejects or mis-decrypts a crypto_box_seal box", det)
		}
		if i/len(sealLens) == 0 && n > 32 {
			c.Nontrivial(fmt.Sprintf("seal/%d", n))
		}
		if n == 20 || n == 0 {
			for ci, bad := range corruptions(want, true) {
				var ok bool
				pan, _, _ := vf.Protect(func() { _, ok = box.OpenAnonymous(nil, bad, &R.pk, &R.sk) })
				c.Eval(1)
				if pan || ok {
					det["corruption"] = ci
					c.Violation("box.OpenAnonymous accepts a corrupted sealed box (or panics)", det)
				}
			}
			// rand == nil uses crypto/rand: the output must be opened by the model (crypto_box_seal_open)
			var got []byte
			pan, _, _ := vf.Protect(func() { got, err = box.SealAnonymous(nil, msg, &R.pk, nil) })
			c.Eval(1)
			m, mok := naclref.SealedBoxOpen(got, R.pk, R.sk)
			if pan || err != nil || !mok || !bytes.Equal(m, msg) {
				c.Violation("box.SealAnonymous(rand=nil) output is not opened by crypto_box_seal_open", det)
			}
		}
	})
	for n := 0; n < 48; n++ {
		var ok bool
		pan, _, _ := vf.Protect(func() { _, ok = box.OpenAnonymous(nil, make([]byte, n), &pairs[4].pk, &pairs[4].sk) })
		c.Eval(1)
		if pan || ok {
			c.Violation("box.OpenAnonymous accepts or panics on a box shorter than 48 bytes", n)
		}
	}
	// a failing rand is reported, not ignored
	{
		var got []byte
		var err error
		pan, _, _ := vf.Protect(func() {
			got, err = box.SealAnonymous(nil, []byte("x"), &pairs[4].pk, bytes.NewReader(make([]byte, 31)))
		})
		c.Eval(1)
		if pan || err == nil || got != nil {
			c.Violation("box.SealAnonymous ignores a short read from rand", fmt.Sprint(err))
		}
	}

	// ---- 4. sign --------------------------------------------------------------------------
	seeds := c.ValueClasses("c10-signseed", 32, nv)
	type spair struct {
		seed [32]byte
		pk   [32]byte
		sk   [64]byte
	}
	sp2 := make([]spair, len(seeds))
	c.ParallelFor(len(seeds), func(i int) {
		seed := a32(seeds[i])
		pk, sk := naclref.SignKeyPair(seed)
		sp2[i] = spair{seed, pk, sk}
		var gpk *[32]byte
		var gsk *[64]byte
		var err error
		pan, _, _ := vf.Protect(func() { gpk, gsk, err = sign.GenerateKey(bytes.NewReader(seed[:])) })
		c.Eval(1)
		if pan || err != nil || *gpk != pk || *gsk != sk {
			c.Violation("sign.GenerateKey != crypto_sign_seed_keypair (sk = seed || pk)", map[string]any{"seedclass": i, "err": fmt.Sprint(err)})
		}
	})
	if sign.Overhead != 64 {
		c.Violation("sign.Overhead != 64", sign.Overhead)
	}
	c.ParallelFor(len(seeds)*(LS+1), func(i int) {
		si, n := i/(LS+1), i%(LS+1)
		kp := sp2[si]
		msg := pickMsg(si+2, n)
		want := naclref.Sign(kp.seed, msg)
		det := map[string]any{"seedclass": si, "len": n}
		mode := (si + n) % 3
		var got, back []byte
		var ok bool
		sk, pk := kp.sk, kp.pk
		pan, val, _ := vf.Protect(func() {
			got = sign.Sign(mkOut(mode, len(want)), msg, &sk)
			back, ok = sign.Open(mkOut(mode, n), want, &pk)
		})
		c.Eval(2)
		if pan {
			det["panic"] = fmt.Sprint(val)
			c.Violation("sign.Sign/Open panics", det)
			return
		}
		if !checkAppended(got, mode, want) {
			det["first_diff_at"] = firstDiff(got, want, mode)
			c.Violation("sign.Sign != crypto_sign (Ed25519 signature || message)", det)
		}
		if !ok || !checkAppended(back, mode, msg) {
			c.Violation("sign.Open rejects or mangles a crypto_sign message", det)
		}
		if sk != kp.sk {
			c.Violation("sign.Sign modifies the private key", det)
		}
		if si == 0 && n > 0 {
			c.Nontrivial(fmt.Sprintf("sign/%d", n))
		}
		if n <= 3 || n == 47 || n == 111 {
			for ci, bad := range corruptions(want, n <= 3) {
				var ok bool
				var back []byte
				pan, _, _ := vf.Protect(func() { back, ok = sign.Open(nil, bad, &pk) })
				c.Eval(1)
				if pan || ok || back != nil {
					det["corruption"] = ci
					c.Violation("sign.Open accepts a corrupted signed message (or panics)", det)
				}
			}
			other := sp2[(si+1)%len(sp2)].pk
			var ok bool
			vf.Protect(func() { _, ok = sign.Open(nil, want, &other) })
			c.Eval(1)
			if ok && other != pk {
				c.Violation("sign.Open accepts a message under the wrong public key", det)
			}
		}
		if c.WantSample() && n == 3 && si == 4 {
			c.Sample(map[string]any{"func": "sign.Sign", "len": n, "model_signed": vf.Hex8(want)})
		}
	})
	for n := 0; n < 64; n++ {
		var ok bool
		pan, _, _ := vf.Protect(func() { _, ok = sign.Open(nil, make([]byte, n), &sp2[4].pk) })
		c.Eval(1)
		if pan || ok {
			c.Violation("sign.Open accepts or panics on input shorter than 64 bytes", n)
		}
	}

	// ---- 5. auth --------------------------------------------------------------------------
	if auth.Size != 32 || auth.KeySize != 32 {
		c.Violation("auth.Size/KeySize wrong", []int{auth.Size, auth.KeySize})
	}
	akeys := c.ValueClasses("c10-authkey", 32, nv)
	c.ParallelFor(len(akeys)*(LA+1), func(i int) {
		ki, n := i/(LA+1), i%(LA+1)
		key := a32(akeys[ki])
		msg := pickMsg(ki, n)
		want := naclref.Auth(msg, key)
		det := map[string]any{"keyclass": ki, "len": n}
		var got *[32]byte
		var ok bool
		pan, val, _ := vf.Protect(func() {
			got = auth.Sum(msg, &key)
			ok = auth.Verify(want[:], msg, &key)
		})
		c.Eval(2)
		if pan {
			det["panic"] = fmt.Sprint(val)
			c.Violation("auth.Sum/Verify panics", det)
			return
		}
		if *got != want {
			det["got"] = fmt.Sprintf("%x", *got)
			det["want"] = fmt.Sprintf("%x", want)
			c.Violation("auth.Sum != crypto_auth (HMAC-SHA-512 truncated to 32 bytes)", det)
		}
		if !ok {
			c.Violation("auth.Verify rejects a crypto_auth authenticator", det)
		}
		if ki == 0 && (n >= 111 || n == 0) {
			c.Nontrivial(fmt.Sprintf("auth/%d", n))
		}
		if n < 4 || n == 112 || n == 128 {
			full := naclref.HMACSHA512(key[:], msg)
			bads := corruptions(want[:], true)
			bads = append(bads, nil, want[:16], full[:], full[32:]) // wrong lengths, the other half of the HMAC
			for ci, bad := range bads {
				var ok bool
				pan, _, _ := vf.Protect(func() { ok = auth.Verify(bad, msg, &key) })
				c.Eval(1)
				if pan || ok {
					det["corruption"] = ci
					c.Violation("auth.Verify accepts a wrong authenticator (or panics)", det)
				}
			}
			if n > 0 {
				m2 := append([]byte(nil), msg...)
				m2[n-1] ^= 0x80
				var ok bool
				vf.Protect(func() { ok = auth.Verify(want[:], m2, &key) })
				c.Eval(1)
				if ok {
					c.Violation("auth.Verify accepts an authenticator for a different message", det)
				}
			}
		}
	})
	c.Sample(map[string]any{"secretbox_points": len(kns) * len(lengths), "box_pairs": len(pairs) * len(pairs), "special_peers": len(specials), "sign_points": len(seeds) * (LS + 1), "auth_points": len(akeys) * (LA + 1)})
}

func firstDiff(got, want []byte, mode int) int {
	if mode != 0 && len(got) >= 5 {
		got = got[5:]
	}
	for i := range want {
		if i >= len(got) || got[i] != want[i] {
			return i
		}
	}
	if len(got) != len(want) {
		return len(want)
	}
	return -1
}
