package main

import (
	"bytes"
	"fmt"
	"sync"

	"golang.org/x/crypto/nacl/auth"
	"golang.org/x/crypto/nacl/box"
	"golang.org/x/crypto/nacl/secretbox"
	"golang.org/x/crypto/nacl/sign"
)

type job struct {
	key, key2 [32]byte
	nonce     [24]byte
	signKey   [64]byte
	msg       []byte
	want      [][]byte
}

func (j *job) run() [][]byte {
	var out [][]byte
	sb := secretbox.Seal(nil, j.msg, &j.nonce, &j.key)
	out = append(out, sb)
	if m, ok := secretbox.Open(nil, sb, &j.nonce, &j.key); ok {
		out = append(out, m)
	} else {
		out = append(out, []byte("open failed"))
	}
	out = append(out, box.Seal(nil, j.msg, &j.nonce, &j.key2, &j.key))
	var shared [32]byte
	box.Precompute(&shared, &j.key2, &j.key)
	out = append(out, shared[:])
	out = append(out, sign.Sign(nil, j.msg, &j.signKey))
	a := auth.Sum(j.msg, &j.key)
	out = append(out, a[:])
	return out
}

func main() {
	const G, N = 4, 60
	jobs := make([][]*job, G)
	for g := 0; g < G; g++ {
		for i := 0; i < N; i++ {
			j := &job{msg: bytes.Repeat([]byte{byte(g*13 + i)}, (i*29)%300)}
			for k := range j.key {
				j.key[k], j.key2[k] = byte(g*7+i+k), byte(g+i*3+k*5)
			}
			for k := range j.signKey {
				j.signKey[k] = byte(g*11 + i*2 + k)
			}
			j.nonce[0], j.nonce[23] = byte(g), byte(i)
			j.want = j.run()
			jobs[g] = append(jobs[g], j)
		}
	}
	var wg sync.WaitGroup
	var mu sync.Mutex
	bad := ""
	for g := 0; g < G; g++ {
		wg.Add(1)
		go func(g int) {
			defer wg.Done()
			for i, j := range jobs[g] {
				got := j.run()
				for k := range got {
					if !bytes.Equal(got[k], j.want[k]) {
						mu.Lock()
						if bad == "" {
							bad = fmt.Sprintf("goroutine %d call %d result %d differs from the same call made alone", g, i, k)
						}
						mu.Unlock()
						return
					}
				}
			}
		}(g)
	}
	wg.Wait()
	if bad != "" {
		fmt.Println("COMPANION-MISMATCH:", bad)
	}
	fmt.Println("race companion: rounds completed:", 1)
}
