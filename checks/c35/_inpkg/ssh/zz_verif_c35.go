package ssh

// Harness for property C35 (channel flow control and data integrity under all
// schedules). Added to package ssh through the build overlay and instrumented.

import (
	"fmt"
	"io"
	"sync"
)

// VerifC35Writer is one application writer goroutine on the channel under test.
type VerifC35Writer struct {
	Ext    uint32 // 0 = data, 1 = stderr (extended data)
	Chunks []int  // sizes of successive Write calls
}

// VerifC35SendParams describes a "sender under test" scenario: the real mux/channel
// writes, the peer is a model receiver that does its own window accounting.
type VerifC35SendParams struct {
	Inbound    bool   // true: peer opens the channel and the application accepts; false: application opens
	Window     uint32 // window the model receiver advertises
	MaxPacket  uint32 // max packet size the model receiver advertises
	Writers    []VerifC35Writer
	Credit     uint32 // bytes of window the model grants later without having received data (initial window may be 0)
	AdjustUnit uint32 // 0: each adjust returns everything consumed so far; n>0: at most n bytes per adjust
	NoReturn   bool   // the receiver never returns window for data it consumed (only Credit is granted): a receiver whose window is still above its adjust threshold
}

// VerifC35SendResult is the observation of one execution.
type VerifC35SendResult struct {
	Complaints  []string       // model receiver's findings (window or packet size exceeded, corrupt stream)
	Received    map[uint32]int // bytes received per stream
	WriterN     []int
	WriterErr   []string
	Packets     int
	Adjusts     int
	MaxInFlight uint32
}

func verifC35Byte(ext uint32, i int) byte { return byte(i*7 + int(ext)*101 + 3) }

// VerifC35Send runs one sender-side scenario to completion.
func VerifC35Send(p VerifC35SendParams) *VerifC35SendResult {
	res := &VerifC35SendResult{Received: map[uint32]int{}, WriterN: make([]int, len(p.Writers)), WriterErr: make([]string, len(p.Writers))}
	a, b := VerifMemPipe()
	m := newMux(a)
	want := map[uint32]int{}
	total := 0
	for _, w := range p.Writers {
		for _, c := range w.Chunks {
			want[w.Ext] += c
			total += c
		}
	}

	const peerID = 7
	var ch Channel
	var localID uint32
	if p.Inbound {
		b.WritePacket(Marshal(channelOpenMsg{ChanType: "verif", PeersID: peerID, PeersWindow: p.Window, MaxPacketSize: p.MaxPacket}))
		nc := <-m.incomingChannels
		c, _, err := nc.Accept()
		if err != nil {
			res.Complaints = append(res.Complaints, "accept: "+err.Error())
			return res
		}
		ch = c
		pkt, _ := b.ReadPacket()
		var conf channelOpenConfirmMsg
		if err := Unmarshal(pkt, &conf); err != nil {
			res.Complaints = append(res.Complaints, "confirm: "+err.Error())
			return res
		}
		localID = conf.MyID
	} else {
		opened := make(chan struct{})
		go func() {
			pkt, _ := b.ReadPacket()
			var open channelOpenMsg
			if err := Unmarshal(pkt, &open); err != nil {
				res.Complaints = append(res.Complaints, "open: "+err.Error())
				close(opened)
				return
			}
			localID = open.PeersID
			b.WritePacket(Marshal(channelOpenConfirmMsg{PeersID: open.PeersID, MyID: peerID, MyWindow: p.Window, MaxPacketSize: p.MaxPacket}))
			close(opened)
		}()
		c, _, err := m.OpenChannel("verif", nil)
		<-opened
		if err != nil {
			res.Complaints = append(res.Complaints, "open: "+err.Error())
			return res
		}
		ch = c
	}

	// model receiver state
	var mu sync.Mutex
	cond := sync.NewCond(&mu)
	win := p.Window
	consumed := p.Credit
	got := 0
	recvDone := false

	// receiver: reads packets, accounts the window, checks the streams
	rdone := make(chan struct{})
	go func() {
		defer close(rdone)
		for {
			mu.Lock()
			if got >= total {
				recvDone = true
				cond.Broadcast()
				mu.Unlock()
				return
			}
			mu.Unlock()
			pkt, err := b.ReadPacket()
			if err != nil {
				mu.Lock()
				res.Complaints = append(res.Complaints, "peer read: "+err.Error())
				recvDone = true
				cond.Broadcast()
				mu.Unlock()
				return
			}
			var ext uint32
			var data []byte
			switch pkt[0] {
			case msgChannelData:
				data = pkt[9:]
			case msgChannelExtendedData:
				ext = uint32(pkt[5])<<24 | uint32(pkt[6])<<16 | uint32(pkt[7])<<8 | uint32(pkt[8])
				data = pkt[13:]
			default:
				continue
			}
			mu.Lock()
			res.Packets++
			if uint32(len(data)) > p.MaxPacket {
				res.Complaints = append(res.Complaints, fmt.Sprintf("packet of %d bytes exceeds max packet %d", len(data), p.MaxPacket))
			}
			if uint32(len(data)) > win {
				res.Complaints = append(res.Complaints, fmt.Sprintf("packet of %d bytes exceeds window %d", len(data), win))
				win = 0
			} else {
				win -= uint32(len(data))
			}
			if inflight := p.Window + p.Credit - win; win <= p.Window+p.Credit && inflight > res.MaxInFlight {
				res.MaxInFlight = inflight
			}
			for _, c := range data {
				if c != verifC35Byte(ext, res.Received[ext]) {
					res.Complaints = append(res.Complaints, fmt.Sprintf("stream %d corrupt at offset %d", ext, res.Received[ext]))
					break
				}
				res.Received[ext]++
			}
			got += len(data)
			if !p.NoReturn {
				consumed += uint32(len(data))
			}
			cond.Broadcast()
			mu.Unlock()
		}
	}()
	// adjuster: gives window back whenever it gets to run (the scheduler decides when)
	adone := make(chan struct{})
	go func() {
		defer close(adone)
		for {
			mu.Lock()
			for consumed == 0 && !recvDone {
				cond.Wait()
			}
			if consumed == 0 && recvDone {
				mu.Unlock()
				return
			}
			n := consumed
			if p.AdjustUnit > 0 && n > p.AdjustUnit {
				n = p.AdjustUnit
			}
			consumed -= n
			win += n
			res.Adjusts++
			mu.Unlock()
			b.WritePacket(Marshal(windowAdjustMsg{PeersID: localID, AdditionalBytes: n}))
		}
	}()

	var wg sync.WaitGroup
	for i, w := range p.Writers {
		i, w := i, w
		wg.Add(1)
		go func() {
			defer wg.Done()
			var dst io.Writer = ch
			if w.Ext != 0 {
				dst = ch.(*channel).Extended(w.Ext)
			}
			off := 0
			for _, c := range w.Chunks {
				buf := make([]byte, c)
				for k := range buf {
					buf[k] = verifC35Byte(w.Ext, off+k)
				}
				n, err := dst.Write(buf)
				res.WriterN[i] += n
				off += n
				if err != nil {
					res.WriterErr[i] = err.Error()
					return
				}
			}
		}()
	}
	wg.Wait()
	<-rdone
	<-adone
	m.Close()
	for ext, n := range want {
		if res.Received[ext] != n {
			res.Complaints = append(res.Complaints, fmt.Sprintf("stream %d: received %d of %d bytes", ext, res.Received[ext], n))
		}
	}
	return res
}

// ---------------------------------------------------------------------------
// Receiver under test: the peer is a model sender that always stays within the
// window the real channel advertised and honours its WINDOW_ADJUST messages.
// ---------------------------------------------------------------------------

type VerifC35RecvParams struct {
	Inbound         bool
	Packets         []VerifC35Pkt // what the model sender sends, in order
	Prefill         int           // the first Prefill packets are sent (within the window) before any reader starts; the mux digests them, then the explorer's mark is set
	Readers         []VerifC35Reader
	SendEOF         bool
	CloseWriteFirst bool // the application half-closes its own direction (CloseWrite) before it reads anything
}

type VerifC35Pkt struct {
	Ext uint32 // 0 data, 1 stderr, other: discarded by the implementation
	N   int
}

type VerifC35Reader struct {
	Ext uint32
	Buf int // read buffer size
}

type VerifC35RecvResult struct {
	Complaints    []string
	MuxErr        string
	ReadBytes     map[uint32]int
	Adjusts       int
	AdjustTotal   uint64
	SenderBlocked int // times the model sender had to wait for window
}

func VerifC35Recv(p VerifC35RecvParams) *VerifC35RecvResult {
	res := &VerifC35RecvResult{ReadBytes: map[uint32]int{}}
	a, b := VerifMemPipe()
	m := newMux(a)
	const peerID = 9
	var ch Channel
	var localID, window, maxPkt uint32
	if p.Inbound {
		b.WritePacket(Marshal(channelOpenMsg{ChanType: "verif", PeersID: peerID, PeersWindow: 1 << 20, MaxPacketSize: 1 << 15}))
		nc := <-m.incomingChannels
		c, _, err := nc.Accept()
		if err != nil {
			res.Complaints = append(res.Complaints, "accept: "+err.Error())
			return res
		}
		ch = c
		pkt, _ := b.ReadPacket()
		var conf channelOpenConfirmMsg
		Unmarshal(pkt, &conf)
		localID, window, maxPkt = conf.MyID, conf.MyWindow, conf.MaxPacketSize
	} else {
		opened := make(chan struct{})
		go func() {
			pkt, _ := b.ReadPacket()
			var open channelOpenMsg
			Unmarshal(pkt, &open)
			localID, window, maxPkt = open.PeersID, open.PeersWindow, open.MaxPacketSize
			b.WritePacket(Marshal(channelOpenConfirmMsg{PeersID: open.PeersID, MyID: peerID, MyWindow: 1 << 20, MaxPacketSize: 1 << 15}))
			close(opened)
		}()
		c, _, err := m.OpenChannel("verif", nil)
		<-opened
		if err != nil {
			res.Complaints = append(res.Complaints, "open: "+err.Error())
			return res
		}
		ch = c
	}
	if p.CloseWriteFirst {
		if err := ch.CloseWrite(); err != nil {
			res.Complaints = append(res.Complaints, "CloseWrite: "+err.Error())
		}
	}
	want := map[uint32]int{}
	for _, k := range p.Packets {
		if uint32(k.N) > maxPkt {
			res.Complaints = append(res.Complaints, "scenario error: packet larger than advertised max packet")
			return res
		}
		if k.Ext <= 1 {
			want[k.Ext] += k.N
		}
	}

	var mu sync.Mutex
	cond := sync.NewCond(&mu)
	win := window
	peerClosed := false
	// the model sender's input side: WINDOW_ADJUST messages from the implementation
	if p.Prefill == 0 {
		go func() {
			for {
				pkt, err := b.ReadPacket()
				if err != nil {
					mu.Lock()
					peerClosed = true
					cond.Broadcast()
					mu.Unlock()
					return
				}
				if pkt[0] == msgChannelWindowAdjust {
					var adj windowAdjustMsg
					if err := Unmarshal(pkt, &adj); err == nil {
						mu.Lock()
						res.Adjusts++
						res.AdjustTotal += uint64(adj.AdditionalBytes)
						win += adj.AdditionalBytes
						cond.Broadcast()
						mu.Unlock()
					}
				}
			}
		}()
	}
	// the model sender
	sdone := make(chan struct{})
	off := map[uint32]int{}
	sendAll := func(pkts []VerifC35Pkt) {
		for _, k := range pkts {
			mu.Lock()
			waited := false
			for win < uint32(k.N) && !peerClosed {
				if !waited {
					res.SenderBlocked++
					waited = true
				}
				cond.Wait()
			}
			if peerClosed {
				mu.Unlock()
				return
			}
			win -= uint32(k.N)
			mu.Unlock()
			data := make([]byte, k.N)
			for i := range data {
				data[i] = verifC35Byte(k.Ext, off[k.Ext]+i)
			}
			off[k.Ext] += k.N
			var pkt []byte
			if k.Ext == 0 {
				pkt = make([]byte, 9+k.N)
				pkt[0] = msgChannelData
				putU32(pkt[1:], localID)
				putU32(pkt[5:], uint32(k.N))
				copy(pkt[9:], data)
			} else {
				pkt = make([]byte, 13+k.N)
				pkt[0] = msgChannelExtendedData
				putU32(pkt[1:], localID)
				putU32(pkt[5:], k.Ext)
				putU32(pkt[9:], uint32(k.N))
				copy(pkt[13:], data)
			}
			if err := b.WritePacket(pkt); err != nil {
				return
			}
		}
	}
	var syncPeer func()
	if p.Prefill > 0 {
		sendAll(p.Packets[:p.Prefill])
		verifWaitIdle() // the mux loop has accounted for all of them
		verifMark()
		// From here the body itself is the peer: it answers every WINDOW_ADJUST at once with
		// as much data as the new window allows (one goroutine fewer than the general model,
		// so "credit sent, data arrives before the receiver has finished its own bookkeeping"
		// is two deviations away).
		syncPeer = func() {
			defer close(sdone)
			rest := p.Packets[p.Prefill:]
			for len(rest) > 0 {
				for len(rest) > 0 && win >= uint32(rest[0].N) {
					sendAll(rest[:1])
					rest = rest[1:]
				}
				if len(rest) == 0 {
					break
				}
				pkt, err := b.ReadPacket()
				if err != nil {
					return
				}
				if pkt[0] == msgChannelWindowAdjust {
					var adj windowAdjustMsg
					if err := Unmarshal(pkt, &adj); err == nil {
						mu.Lock()
						res.Adjusts++
						res.AdjustTotal += uint64(adj.AdditionalBytes)
						win += adj.AdditionalBytes
						mu.Unlock()
					}
				}
			}
		}
	} else {
		go func() {
			defer close(sdone)
			sendAll(p.Packets)
			if p.SendEOF {
				b.WritePacket(Marshal(channelEOFMsg{PeersID: localID}))
			}
		}()
	}

	var wg sync.WaitGroup
	for _, r := range p.Readers {
		r := r
		wg.Add(1)
		go func() {
			defer wg.Done()
			var src io.Reader = ch
			if r.Ext == 1 {
				src = ch.Stderr()
			}
			buf := make([]byte, r.Buf)
			n := 0
			for n < want[r.Ext] {
				k, err := src.Read(buf)
				for i := 0; i < k; i++ {
					if buf[i] != verifC35Byte(r.Ext, n+i) {
						mu.Lock()
						res.Complaints = append(res.Complaints, fmt.Sprintf("stream %d corrupt at offset %d", r.Ext, n+i))
						mu.Unlock()
						break
					}
				}
				n += k
				if err != nil {
					if !(err == io.EOF && n == want[r.Ext]) {
						mu.Lock()
						res.Complaints = append(res.Complaints, fmt.Sprintf("stream %d: read error after %d of %d bytes: %v", r.Ext, n, want[r.Ext], err))
						mu.Unlock()
					}
					break
				}
			}
			mu.Lock()
			res.ReadBytes[r.Ext] = n
			mu.Unlock()
		}()
	}
	if syncPeer != nil {
		syncPeer()
	}
	wg.Wait()
	<-sdone
	m.Close()
	if err := m.Wait(); err != nil && err != io.EOF {
		res.MuxErr = err.Error()
	}
	return res
}

func putU32(b []byte, v uint32) {
	b[0], b[1], b[2], b[3] = byte(v>>24), byte(v>>16), byte(v>>8), byte(v)
}
