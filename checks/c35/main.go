// C35: channel flow control and data integrity hold under all schedules.
// Interleaving exploration of the real ssh mux/channel/window/buffer code (package
// instrumented), once with the implementation as sender against a model receiver that
// does its own window accounting, once as receiver against a compliant model sender.
package main

import (
	"fmt"
	"strings"

	"golang.org/x/crypto/ssh"
	"verif/schedx"
	"verif/vf"
)

func main() { vf.Main("C35", vf.ModelChecking, run) }

func sendCheck(obs any) (string, string) {
	r, _ := obs.(*ssh.VerifC35SendResult)
	if r == nil {
		return "", ""
	}
	for _, c := range r.Complaints {
		switch {
		case strings.Contains(c, "exceeds window"):
			return "sender transmitted more payload than the peer's window", c
		case strings.Contains(c, "exceeds max packet"):
			return "sender transmitted a packet larger than the peer's maximum packet size", c
		case strings.Contains(c, "corrupt"):
			return "stream bytes corrupted or reordered (sender side)", c
		case strings.Contains(c, "received"):
			return "stream bytes lost (sender side)", c
		default:
			return "sender scenario failed: " + c, c
		}
	}
	for i, e := range r.WriterErr {
		if e != "" {
			return "Write returned an error although the peer kept reading", fmt.Sprintf("writer %d: %s", i, e)
		}
	}
	return "", ""
}

func sendOutcome(obs any) string {
	r, _ := obs.(*ssh.VerifC35SendResult)
	if r == nil {
		return "<nil>"
	}
	return fmt.Sprintf("packets=%d adjusts=%d maxinflight=%d", r.Packets, r.Adjusts, r.MaxInFlight)
}

func recvCheck(obs any) (string, string) {
	r, _ := obs.(*ssh.VerifC35RecvResult)
	if r == nil {
		return "", ""
	}
	if r.MuxErr != "" {
		if strings.Contains(r.MuxErr, "wrote too much") {
			return "receiver reported a window violation against a compliant sender", r.MuxErr
		}
		return "connection failed against a compliant sender: " + r.MuxErr, r.MuxErr
	}
	for _, c := range r.Complaints {
		if strings.Contains(c, "corrupt") {
			return "stream bytes corrupted or reordered (receiver side)", c
		}
		return "receiver scenario failed: " + strings.SplitN(c, ":", 2)[0], c
	}
	return "", ""
}

func recvOutcome(obs any) string {
	r, _ := obs.(*ssh.VerifC35RecvResult)
	if r == nil {
		return "<nil>"
	}
	return fmt.Sprintf("adjusts=%d total=%d blocked=%d", r.Adjusts, r.AdjustTotal, r.SenderBlocked)
}

func run(c *vf.Ctx) {
	bound := 2
	if c.Thorough {
		bound = 3
	}
	c.Rule(fmt.Sprintf("every interleaving with <=%d deviations from the default schedule of each closed scenario; sender scenarios: window x max packet x 1-2 writers (data/stderr) x write sizes x adjust granularity x inbound/outbound open; receiver scenarios: compliant model sender x 1-2 readers x buffer sizes crossing the adjust thresholds; non-trivial = scenario with more than one execution; states = distinct end observations", bound))
	c.Assume("package ssh is data-race free (separate free-running -race pass); one writer per stream (concurrent Write calls on the same stream are documented as unsupported)")
	var scs []schedx.Scenario
	W := func(ext uint32, chunks ...int) ssh.VerifC35Writer {
		return ssh.VerifC35Writer{Ext: ext, Chunks: chunks}
	}
	type sp = ssh.VerifC35SendParams
	sends := []struct {
		name string
		p    sp
		b    int
	}{
		{"send w9 p9 one writer 30B", sp{Window: 9, MaxPacket: 9, Writers: []ssh.VerifC35Writer{W(0, 30)}}, bound},
		{"send w20 p9 data+stderr", sp{Window: 20, MaxPacket: 9, Writers: []ssh.VerifC35Writer{W(0, 25), W(1, 25)}}, bound},
		{"send w20 p16 data+stderr inbound", sp{Inbound: true, Window: 20, MaxPacket: 16, Writers: []ssh.VerifC35Writer{W(0, 1, 30), W(1, 17)}}, bound},
		{"send w9 p64 unit1", sp{Window: 9, MaxPacket: 64, AdjustUnit: 1, Writers: []ssh.VerifC35Writer{W(0, 12)}}, bound},
		{"send w64 p16 two chunks each", sp{Window: 64, MaxPacket: 16, AdjustUnit: 5, Writers: []ssh.VerifC35Writer{W(0, 40, 40), W(1, 0, 33)}}, 1 + bound/3},
		{"send w32 p16 two chunks", sp{Window: 32, MaxPacket: 16, AdjustUnit: 5, Writers: []ssh.VerifC35Writer{W(0, 20, 13), W(1, 0, 17)}}, bound},
		{"send w0-initial then adjust", sp{Window: 0, Credit: 7, MaxPacket: 32, Writers: []ssh.VerifC35Writer{W(0, 10)}}, bound},
		// one WINDOW_ADJUST has to serve two blocked writers: nothing comes back afterwards
		// (a real receiver only adjusts once its window has fallen below its threshold)
		{"send w0 then ONE adjust for two blocked writers, no window returned", sp{Window: 0, Credit: 64, NoReturn: true, MaxPacket: 32, Writers: []ssh.VerifC35Writer{W(0, 10), W(1, 10)}}, bound},
		{"send w12 two writers 10B+10B then one adjust, no window returned", sp{Window: 12, Credit: 40, NoReturn: true, MaxPacket: 9, Writers: []ssh.VerifC35Writer{W(0, 10, 3), W(1, 10)}}, bound},
	}
	if c.Thorough {
		sends = append(sends, struct {
			name string
			p    sp
			b    int
		}{"send w64 p64 200B two writers", sp{Window: 64, MaxPacket: 64, AdjustUnit: 16, Writers: []ssh.VerifC35Writer{W(0, 200), W(1, 200)}}, 2})
	}
	for _, s := range sends {
		s := s
		scs = append(scs, schedx.Scenario{Name: s.name, Bound: s.b, Body: func() any { return ssh.VerifC35Send(s.p) }, Check: sendCheck, Outcome: sendOutcome})
	}
	P := func(ext uint32, n int) ssh.VerifC35Pkt { return ssh.VerifC35Pkt{Ext: ext, N: n} }
	rep := func(n int, k ssh.VerifC35Pkt) []ssh.VerifC35Pkt {
		var o []ssh.VerifC35Pkt
		for i := 0; i < n; i++ {
			o = append(o, k)
		}
		return o
	}
	type rp = ssh.VerifC35RecvParams
	K := 32768
	recvs := []struct {
		name string
		p    rp
		b    int
	}{
		{"recv 4x32K one reader 1MiB buf", rp{Packets: rep(4, P(0, K)), Readers: []ssh.VerifC35Reader{{Ext: 0, Buf: 1 << 20}}, SendEOF: true}, bound},
		{"recv data+stderr+discarded readers 32K", rp{Inbound: true, Packets: []ssh.VerifC35Pkt{P(0, K), P(1, K), P(7, K), P(0, K), P(1, K), P(7, 100), P(0, 1)}, Readers: []ssh.VerifC35Reader{{Ext: 0, Buf: K}, {Ext: 1, Buf: K}}}, bound},
		{"recv small packets 1B reader", rp{Packets: []ssh.VerifC35Pkt{P(0, 3), P(1, 2), P(0, 2)}, Readers: []ssh.VerifC35Reader{{Ext: 0, Buf: 1}, {Ext: 1, Buf: 1}}, SendEOF: true}, bound},
		// the whole 2 MiB window and more: the model sender must block and be released by adjusts
		{"recv 70x32K fills window", rp{Packets: rep(70, P(0, K)), Readers: []ssh.VerifC35Reader{{Ext: 0, Buf: 1 << 20}}}, 1},
		{"recv 66x32K discarded ext fills window", rp{Packets: append(rep(66, P(5, K)), P(0, 10)), Readers: []ssh.VerifC35Reader{{Ext: 0, Buf: 16}}}, 1},
	}
	for _, s := range recvs {
		s := s
		scs = append(scs, schedx.Scenario{Name: s.name, Bound: s.b, Body: func() any { return ssh.VerifC35Recv(s.p) }, Check: recvCheck, Outcome: recvOutcome})
	}
	// The peer has used the whole 2 MiB window before the application reads anything; then
	// credit and new data race with the receiver's own accounting. Deviations are placed only
	// after the window has been filled (the explorer's mark), which makes bound 2 affordable.
	{
		p := rp{Packets: rep(70, P(0, K)), Prefill: 64, Readers: []ssh.VerifC35Reader{{Ext: 0, Buf: 1 << 20}}}
		scs = append(scs, schedx.Scenario{Name: "recv window exhausted, then credit and data race (from mark)", Bound: 2, FromMark: true,
			Body: func() any { return ssh.VerifC35Recv(p) }, Check: recvCheck, Outcome: recvOutcome})
		// the application has half-closed its own direction (CloseWrite, EOF sent) and goes on
		// reading: credit must still be returned for what it reads
		p3 := rp{Packets: rep(70, P(0, K)), Prefill: 64, CloseWriteFirst: true, Readers: []ssh.VerifC35Reader{{Ext: 0, Buf: 1 << 20}}}
		scs = append(scs, schedx.Scenario{Name: "recv after CloseWrite: window exhausted, then credit and data (from mark)", Bound: 1, FromMark: true,
			Body: func() any { return ssh.VerifC35Recv(p3) }, Check: recvCheck, Outcome: recvOutcome})
		p2 := rp{Packets: append(rep(64, P(1, K)), P(0, 5), P(1, K), P(1, K)), Prefill: 64, Readers: []ssh.VerifC35Reader{{Ext: 1, Buf: 3 * K}, {Ext: 0, Buf: 8}}}
		scs = append(scs, schedx.Scenario{Name: "recv window exhausted by stderr, two readers (from mark)", Bound: 2, FromMark: true,
			Body: func() any { return ssh.VerifC35Recv(p2) }, Check: recvCheck, Outcome: recvOutcome})
	}
	schedx.Explore(c, scs)
}
