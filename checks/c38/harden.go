// C38 hardening pass (HARDEN.md): caller-owned buffers, repeated use of one key object,
// long lines / long files, and one case on each side of the option scanner's shortcuts.
package main

import (
	"bytes"
	"fmt"
	"reflect"
	"strings"

	"golang.org/x/crypto/ssh"
	kf "verif/ref/sshkeyfmt"
	"verif/vf"
)

func wipe(b []byte) {
	for i := range b {
		b[i] ^= 0xFF
	}
}

// blobIndependent: plain formats for which the unchanged ParsePublicKey copies every field out
// of the wire blob (big.Int / elliptic.Unmarshal). ssh-ed25519 and sk-ssh-ed25519 keys and all
// certificates (Nonce, Reserved, Signature.Blob) keep sub-slices of the blob handed to
// ParsePublicKey; nothing in the documentation promises otherwise, so independence of the
// returned key from the *wire blob* is only demanded where it holds by construction.
func blobIndependent(ref *kf.Key) bool {
	if ref.Cert != nil {
		return false
	}
	switch ref.Type {
	case kf.RSA, kf.DSA, kf.ECDSA256, kf.ECDSA384, kf.ECDSA521, kf.SKECDSA:
		return true
	}
	return false
}

func (e *env) hardening() {
	e.ownedBuffers()
	phase("owned buffers")
	e.longLines()
	phase("long lines")
}

// ownedBuffers: (A) every parser leaves the bytes it was given untouched; the key, comment,
// options, marker and hosts returned by the TEXT parsers do not change when the caller
// overwrites the line buffer afterwards (bufio.Scanner pattern: the next line lands in the same
// buffer); what Marshal / MarshalAuthorizedKey returned belongs to the caller. (B/D) the same
// key object marshalled and fingerprinted repeatedly gives the same bytes every time.
func (e *env) ownedBuffers() {
	c := e.c
	all := append(append([]*testKey(nil), e.keys...), e.cert...)
	layouts := []struct{ pre, post, next string }{
		{"", "", ""},
		{"", " user@host", "\n# next line\n"},
		{`restrict,command="echo \"hi, you\"",from="a,b" `, " two words", "\r\nssh-foo AAAA x\r\n"},
		{"  ", "\t c ", "\n"},
	}
	khLayouts := []struct{ pre, post, next string }{
		{"host.example.com ", "", ""},
		{"@cert-authority *.example.com,!b.example.com ", " note", "\nh2 ssh-foo AAAA\n"},
		{"@revoked [h.example]:2222,192.0.2.7\t", "\tx", "\r\n"},
	}
	c.ParallelFor(len(all), func(i int) {
		k := all[i]
		det := func(extra string) map[string]any {
			return map[string]any{"key": k.name, "blob": hexClip(k.blob), "detail": extra}
		}
		n := 0
		in := append([]byte(nil), k.blob...)
		var pk ssh.PublicKey
		var err error
		if pan, _, _ := vf.Protect(func() { pk, err = ssh.ParsePublicKey(in) }); pan || err != nil {
			return // reported by roundTrips
		}
		n++
		if !bytes.Equal(in, k.blob) {
			c.Violation("ParsePublicKey modifies the blob it was given ("+k.ref.Type+")", det(hexClip(in)))
			return
		}
		sha0, md0 := ssh.FingerprintSHA256(pk), ssh.FingerprintLegacyMD5(pk)
		if blobIndependent(k.ref) {
			wipe(in)
			n++
			if m := pk.Marshal(); !bytes.Equal(m, k.blob) {
				c.Violation("key returned by ParsePublicKey changes when the caller overwrites the blob ("+k.ref.Type+")", det(hexClip(m)))
				return
			}
		}
		// the slices handed out by Marshal / MarshalAuthorizedKey are the caller's
		wantLine := k.ref.Type + " " + kf.B64Encode(k.blob) + "\n"
		for round := 0; round < 3; round++ {
			m := pk.Marshal()
			n++
			if !bytes.Equal(m, k.blob) {
				c.Violation("PublicKey.Marshal differs on a repeated call after the caller overwrote the previous result ("+k.ref.Type+")", det(fmt.Sprintf("round %d: %s", round, hexClip(m))))
				return
			}
			wipe(m)
			line := ssh.MarshalAuthorizedKey(pk)
			n++
			if string(line) != wantLine {
				c.Violation("MarshalAuthorizedKey differs on a repeated call after the caller overwrote the previous result ("+k.ref.Type+")", det(fmt.Sprintf("round %d", round)))
				return
			}
			wipe(line)
			if s, m5 := ssh.FingerprintSHA256(pk), ssh.FingerprintLegacyMD5(pk); s != sha0 || m5 != md0 {
				c.Violation("fingerprint of one key object changes between calls ("+k.ref.Type+")", det(fmt.Sprintf("round %d", round)))
				return
			}
			n += 2
		}
		c.Nontrivial("own/blob/" + k.name)

		// later(): the parsers are used on other keys (same format, next key of the set) in between
		var others []*testKey
		for d := 1; d < len(all) && len(others) < 2; d++ {
			o := all[(i+d)%len(all)]
			if len(others) == 0 || o.ref.Type == k.ref.Type {
				others = append(others, o)
			}
		}
		later := func() {
			for _, o := range others {
				ol := o.ref.Type + " " + kf.B64Encode(o.blob)
				vf.Protect(func() {
					ssh.ParseAuthorizedKey([]byte("no-pty " + ol + " other\n"))
					ssh.ParseKnownHosts([]byte("o.example " + ol + " other\n"))
					ssh.ParsePublicKey(append([]byte(nil), o.blob...))
				})
			}
		}
		b64 := kf.B64Encode(k.blob)
		nl := len(layouts)
		if !k.rep && !k.edge {
			nl = 2
		}
		for li := 0; li < nl; li++ {
			l := layouts[li]
			text := l.pre + k.ref.Type + " " + b64 + l.post + l.next
			kl, off, want := kf.FirstAuthorizedKey(text)
			buf := []byte(text)
			var out ssh.PublicKey
			var comment string
			var options []string
			var rest []byte
			if pan, pv, _ := vf.Protect(func() { out, comment, options, rest, err = ssh.ParseAuthorizedKey(buf) }); pan {
				c.Violation("ParseAuthorizedKey panics (owned-buffer layouts)", det(fmt.Sprint(pv)))
				continue
			}
			n++
			if string(buf) != text {
				c.Violation("ParseAuthorizedKey modifies the bytes it was given ("+k.ref.Type+")", det(fmt.Sprintf("layout %d: %q", li, clipLine(string(buf)))))
				continue
			}
			if err != nil || !want {
				if (err == nil) != want {
					c.Violation("ParseAuthorizedKey accept/reject differs from sshd's procedure (owned-buffer layouts)", det(fmt.Sprint(li, err)))
				}
				continue
			}
			restStr := string(rest)
			optCopy := append([]string(nil), options...)
			wipe(buf)
			// the next line of the file arrives in the same buffer
			copy(buf, "ssh-ed25519 AAAAC3NzaC1lZDI1NTE5AAAAIMMMMMMMMMMMMMMMMMMMMMMMMMMMMMMMMMMMMMMMMMMM other\n")
			later() // and other keys are parsed before the first result is used
			n++
			switch {
			case !bytes.Equal(out.Marshal(), k.blob) || matchKey(out, k.ref) != "":
				c.Violation("key returned by ParseAuthorizedKey changes after the caller reused the line buffer and parsed other keys ("+k.ref.Type+")", det(fmt.Sprintf("layout %d: %s", li, hexClip(out.Marshal()))))
			case comment != kl.Comment || len(options) != len(kl.Options) || (len(options) > 0 && !reflect.DeepEqual(options, kl.Options)) || !reflect.DeepEqual(options, optCopy):
				c.Violation("comment/options returned by ParseAuthorizedKey change after the caller reused the line buffer and parsed other keys", det(fmt.Sprint(li, comment, options)))
			case restStr != text[off:]:
				c.Violation("ParseAuthorizedKey rest is not the input after the key's line", det(fmt.Sprint(li)))
			case ssh.FingerprintSHA256(out) != sha0:
				c.Violation("fingerprint of the key returned by ParseAuthorizedKey changes after the caller reused the line buffer and parsed other keys", det(fmt.Sprint(li)))
			}
			c.Nontrivial(fmt.Sprintf("own/ak/%s/%d", k.name, li))
		}
		nk := len(khLayouts)
		if !k.rep && !k.edge {
			nk = 1
		}
		for li := 0; li < nk; li++ {
			l := khLayouts[li]
			line := l.pre + k.ref.Type + " " + b64 + l.post
			text := line + l.next
			hl, want, _ := kf.ParseKnownHostsLine(line)
			buf := []byte(text)
			var marker, comment string
			var hosts []string
			var hpk ssh.PublicKey
			if pan, pv, _ := vf.Protect(func() { marker, hosts, hpk, comment, _, err = ssh.ParseKnownHosts(buf) }); pan {
				c.Violation("ParseKnownHosts panics (owned-buffer layouts)", det(fmt.Sprint(pv)))
				continue
			}
			n++
			if string(buf) != text {
				c.Violation("ParseKnownHosts modifies the bytes it was given ("+k.ref.Type+")", det(fmt.Sprintf("layout %d: %q", li, clipLine(string(buf)))))
				continue
			}
			if err != nil || !want {
				if (err == nil) != want {
					c.Violation("ParseKnownHosts accept/reject differs from the reference (owned-buffer layouts)", det(fmt.Sprint(li, err)))
				}
				continue
			}
			wipe(buf)
			copy(buf, "other.example ssh-ed25519 AAAAC3NzaC1lZDI1NTE5AAAAIMMMMMMMMMMMMMMMMMMMMMMMMMMMMMMMMMMMMMMMMMMM other\n")
			later()
			n++
			switch {
			case !bytes.Equal(hpk.Marshal(), k.blob) || matchKey(hpk, k.ref) != "":
				c.Violation("key returned by ParseKnownHosts changes after the caller reused the line buffer and parsed other keys ("+k.ref.Type+")", det(fmt.Sprintf("layout %d: %s", li, hexClip(hpk.Marshal()))))
			case marker != hl.Marker || !reflect.DeepEqual(hosts, hl.Hosts) || comment != normBlanks(hl.Comment):
				c.Violation("marker/hosts/comment returned by ParseKnownHosts change after the caller reused the line buffer and parsed other keys", det(fmt.Sprint(li, marker, hosts, comment)))
			}
			c.Nontrivial(fmt.Sprintf("own/kh/%s/%d", k.name, li))
		}
		c.Eval(n)
	})
}

// longLines: (C/E) fields whose length sits on both sides of 2^8, 2^12, 2^16 (thorough: 2^20,
// 2^22) — comment, one option value, the option count, the host list — and files in which
// 255/256/257/4096 skipped lines precede the key; all compared with the reference procedure.
func (e *env) longLines() {
	c := e.c
	lks := e.lineKeys()
	ks := []akKey{lks[0], lks[2]} // ed25519 and a 1024-bit RSA key
	var lens []int
	ks2 := []int{8, 12, 16}
	if c.Thorough {
		ks2 = append(ks2, 20, 22)
	}
	for _, k := range ks2 {
		for _, d := range []int{-1, 0, 1} {
			lens = append(lens, 1<<k+d)
		}
	}
	type job struct {
		kh         bool
		text, what string
	}
	var jobs []job
	for _, lk := range ks {
		key := lk.k.ref.Type + " " + kf.B64Encode(lk.k.blob)
		for _, L := range lens {
			long := strings.Repeat("c", L)
			// total line length exactly L as well (the comment fills up)
			fill := func(prefix string) string {
				if L <= len(prefix)+1 {
					return prefix + " x"
				}
				return prefix + " " + strings.Repeat("f", L-len(prefix)-1)
			}
			jobs = append(jobs,
				job{false, key + " " + long, fmt.Sprintf("long comment %d %s", L, lk.k.ref.Type)},
				job{false, fill(key), fmt.Sprintf("line of %d bytes %s", L, lk.k.ref.Type)},
				job{false, `command="` + long + `" ` + key + " c", fmt.Sprintf("long quoted option %d %s", L, lk.k.ref.Type)},
				job{false, `command="` + strings.Repeat(`\"`, L/2) + `" ` + key + " c", fmt.Sprintf("option of %d escaped quotes %s", L/2, lk.k.ref.Type)},
				job{false, `command="` + long + ` ` + key + " c", fmt.Sprintf("long unterminated option %d %s", L, lk.k.ref.Type)},
				job{false, strings.Repeat("o", L) + " " + key, fmt.Sprintf("long bare option %d %s", L, lk.k.ref.Type)},
				job{false, lk.other + strings.Repeat("x", L) + " " + kf.B64Encode(lk.k.blob) + " c", fmt.Sprintf("long wrong type %d %s", L, lk.k.ref.Type)},
				job{false, lk.k.ref.Type + " " + kf.B64Encode(lk.k.blob) + strings.Repeat("A", L) + " c", fmt.Sprintf("base64 followed by %d more characters %s", L, lk.k.ref.Type)},
				job{true, strings.Repeat("h", L) + " " + key + " note", fmt.Sprintf("kh long host %d %s", L, lk.k.ref.Type)},
				job{true, "h.example " + key + " " + long, fmt.Sprintf("kh long comment %d %s", L, lk.k.ref.Type)},
				job{true, "@revoked h.example" + strings.Repeat(" ", L) + key, fmt.Sprintf("kh run of %d blanks %s", L, lk.k.ref.Type)},
			)
			if L <= 1<<16+1 {
				jobs = append(jobs,
					job{false, strings.TrimSuffix(strings.Repeat("no-pty,", L), ",") + " " + key + " c", fmt.Sprintf("%d options %s", L, lk.k.ref.Type)},
					job{true, strings.TrimSuffix(strings.Repeat("h,", L), ",") + " " + key, fmt.Sprintf("kh %d hosts %s", L, lk.k.ref.Type)},
				)
			}
		}
		// files: N skipped lines of each kind before the entry
		for _, N := range []int{255, 256, 257, 4096} {
			for _, skipped := range []string{"", "# c", "lonelyword", `command="never closed ` + key, "ssh-rsa " + kf.B64Encode(lks[0].k.blob) + " wrong-type"} {
				for _, nl := range []string{"\n", "\r\n"} {
					f := strings.Repeat(skipped+nl, N) + key + " found" + nl + "tail"
					jobs = append(jobs, job{false, f, fmt.Sprintf("file with %d skipped lines %q before the key", N, clipLine(skipped))})
					if skipped == "" || skipped == "# c" {
						jobs = append(jobs, job{true, strings.Repeat(skipped+nl, N) + "h.example " + key + " found" + nl + "tail", fmt.Sprintf("kh file with %d skipped lines %q", N, skipped)})
					}
				}
			}
		}
	}
	c.Set("long_line_cases", len(jobs))
	c.ParallelFor(len(jobs), func(i int) {
		j := jobs[i]
		switch {
		case j.kh && strings.Contains(j.text, "\n"):
			e.cmpKnownHostsFile(j.text)
		case j.kh:
			e.cmpKnownHostsLine(j.text, j.what)
		case strings.Contains(j.text, "\n"):
			e.cmpAuthFile(j.text, j.what)
		default:
			e.cmpAuthLine(j.text, j.what)
		}
		c.Eval(1)
		c.Nontrivial("long/" + j.what)
	})
}
