// C38: SSH public key and authorized_keys/known_hosts formats round-trip and match OpenSSH.
//
// Real code: ssh.ParsePublicKey, PublicKey.Marshal, ssh.NewPublicKey, MarshalAuthorizedKey,
// ParseAuthorizedKey, ParseKnownHosts, FingerprintSHA256, FingerprintLegacyMD5.
// Oracle: verif/ref/sshkeyfmt (blob formats from RFC 4253/5656/8709, PROTOCOL.u2f,
// PROTOCOL.certkeys; sshd's authorized_keys procedure; OpenSSH fingerprint formats),
// plus the ssh-keygen binary as an additional oracle when it is installed.
package main

import (
	"bytes"
	"crypto/dsa"
	"crypto/ecdsa"
	"crypto/ed25519"
	"crypto/rsa"
	"fmt"
	"math/big"
	"os"
	"reflect"
	"sort"
	"strings"
	"time"

	"golang.org/x/crypto/ssh"
	kf "verif/ref/sshkeyfmt"
	"verif/ref/sshwire"
	"verif/vf"
)

func main() { vf.Main("C38", vf.Exploration, run) }

var t0 = time.Now()

func phase(name string) {
	if os.Getenv("VERIF_DEBUG") != "" {
		fmt.Fprintf(os.Stderr, "phase %-32s +%.1fs\n", name, time.Since(t0).Seconds())
	}
}

const certFingerprintClass = "FingerprintSHA256/FingerprintLegacyMD5 of a certificate differ from ssh-keygen -l (Go hashes the certificate blob, OpenSSH the certified key)"

func hexClip(b []byte) string {
	if len(b) > 80 {
		return fmt.Sprintf("%x..(len %d)", b[:80], len(b))
	}
	return fmt.Sprintf("%x", b)
}

// ---------------------------------------------------------------------------------
// comparing a parsed ssh.PublicKey with the reference description

func optMap(o []kf.Option) map[string]string {
	m := map[string]string{}
	for _, x := range o {
		m[x.Name] = x.Value
	}
	return m
}

func sameMap(a, b map[string]string) bool {
	if len(a) != len(b) {
		return false
	}
	for k, v := range a {
		if w, ok := b[k]; !ok || w != v {
			return false
		}
	}
	return true
}

func cmpBig(a, b *big.Int) bool { return a != nil && b != nil && a.Cmp(b) == 0 }

// matchKey reports the first difference between pk and ref ("" if none).
func matchKey(pk ssh.PublicKey, ref *kf.Key) string {
	if pk.Type() != ref.Type {
		return fmt.Sprintf("Type() = %q, blob says %q", pk.Type(), ref.Type)
	}
	if ref.Cert != nil {
		ct, ok := pk.(*ssh.Certificate)
		if !ok {
			return fmt.Sprintf("certificate blob parsed to %T", pk)
		}
		rc := ref.Cert
		plain := *ref
		plain.Cert = nil
		plain.Type = ref.PlainType()
		if d := matchKey(ct.Key, &plain); d != "" {
			return "certified key: " + d
		}
		switch {
		case !bytes.Equal(ct.Nonce, rc.Nonce):
			return "Nonce"
		case ct.Serial != rc.Serial:
			return "Serial"
		case ct.CertType != rc.CertType:
			return "CertType"
		case ct.KeyId != rc.KeyID:
			return "KeyId"
		case len(ct.ValidPrincipals) != len(rc.Principals) || (len(rc.Principals) > 0 && !reflect.DeepEqual(ct.ValidPrincipals, rc.Principals)):
			return "ValidPrincipals"
		case ct.ValidAfter != rc.ValidAfter:
			return "ValidAfter"
		case ct.ValidBefore != rc.ValidBefore:
			return "ValidBefore"
		case !sameMap(ct.CriticalOptions, optMap(rc.CriticalOptions)):
			return "CriticalOptions"
		case !sameMap(ct.Extensions, optMap(rc.Extensions)):
			return "Extensions"
		case !bytes.Equal(ct.Reserved, rc.Reserved):
			return "Reserved"
		case ct.SignatureKey == nil || !bytes.Equal(ct.SignatureKey.Marshal(), rc.SignatureKey):
			return "SignatureKey"
		}
		sv, err := sshwire.Decode([]sshwire.Field{{Kind: sshwire.String}, {Kind: sshwire.String}, {Kind: sshwire.Rest}}, rc.Signature)
		if err != nil {
			return "reference signature undecodable"
		}
		if ct.Signature == nil || ct.Signature.Format != string(sv[0].B) || !bytes.Equal(ct.Signature.Blob, sv[1].B) || !bytes.Equal(ct.Signature.Rest, sv[2].B) {
			return "Signature"
		}
		return ""
	}
	cp, ok := pk.(ssh.CryptoPublicKey)
	if !ok {
		return fmt.Sprintf("%T does not expose CryptoPublicKey", pk)
	}
	switch k := cp.CryptoPublicKey().(type) {
	case *rsa.PublicKey:
		if ref.PlainType() != kf.RSA || !cmpBig(k.N, ref.N) || ref.E == nil || !ref.E.IsInt64() || int64(k.E) != ref.E.Int64() {
			return "RSA numbers"
		}
	case *dsa.PublicKey:
		if ref.PlainType() != kf.DSA || !cmpBig(k.P, ref.P) || !cmpBig(k.Q, ref.Q) || !cmpBig(k.G, ref.G) || !cmpBig(k.Y, ref.Y) {
			return "DSA numbers"
		}
	case *ecdsa.PublicKey:
		if ref.Curve != curveName(k.Curve) || !bytes.Equal(pointBytes(k.Curve, k.X, k.Y), ref.Point) {
			return "EC point"
		}
	case ed25519.PublicKey:
		if !bytes.Equal(k, ref.Pub) {
			return "Ed25519 key bytes"
		}
	default:
		return fmt.Sprintf("unexpected crypto key %T", k)
	}
	return ""
}

// ---------------------------------------------------------------------------------

type env struct {
	c    *vf.Ctx
	keys []*testKey // plain keys
	cert []*testKey // certificates
	skg  *keygen
}

func run(c *vf.Ctx) {
	c.Rule("keys: every format (ssh-rsa, ssh-dss, ecdsa-sha2-nistp256/384/521, ssh-ed25519, sk-ecdsa, sk-ed25519) with systematic boundary classes (RSA moduli 1024..16384 bits and exponents 3..2^24-1 on both sides of every mpint pad-byte boundary; DSA g,y of 1015/1016/1017/1023 bits and one-byte 7f/80/ff; EC points kG with X short / Y short / both short / X resp. Y two bytes short for ecdsa on all curves and for sk-ecdsa; Ed25519 and sk-ed25519 value classes and keys with leading/trailing zero bytes; sk application strings), certificates for every certified format x every CA signature format x 4 field variants, and for every boundary-class key a certificate over it and a certificate with it as CA key. " +
		"(1) per key: ParsePublicKey(blob) = reference fields, Marshal = specification blob byte for byte, NewPublicKey(crypto key).Marshal likewise, MarshalAuthorizedKey text, ParseAuthorizedKey/ParseKnownHosts of it, fingerprints = OpenSSH format over the OpenSSH blob (and = ssh-keygen -l / -E md5 when installed). " +
		"(2) blob faults: for a representative blob of every format and certificate: every truncation, single-byte substitutions at every position (all 255 values for every byte of every length prefix incl. nested ones, {^b,b^01,b^80,00,ff} elsewhere; thorough: 255 values everywhere and every plain key), trailing bytes; ParsePublicKey must not panic, must reject what the reference grammar rejects, accept what it proves valid, and re-marshal accepted blobs consistently. " +
		"(3) authorized_keys grammar: option lists of <=2 [thorough <=3] atoms over {flag, k=\"v\", quoted blank, quoted comma, escaped quote, literal tab in quotes, mid-word quote} + unterminated quotes x declared type {right, other format, certificate name, unknown, case-changed, suffixed, missing} x blob {valid, truncated, trailing byte, bad base64, stripped padding} x 4 key formats, and the blank/comment/leading/trailing layout product; multi-line files (all sequences of <=3 lines over 6 line kinds x LF/CRLF/no final newline); compared with sshd's procedure (reference) and with ssh-keygen -lf. " +
		"(4) known_hosts grammar: marker x hosts x declared type x blob x comment x blanks, multi-line. (5) totality: every byte string of length <=2 [thorough <=3] into the three parsers; every single-byte deletion and substitution by {blank,tab,\",\\,comma,#,LF,@,=} of valid lines. " +
		"(6) hardening: caller-owned buffers — for every key and certificate: the blob/line handed to ParsePublicKey/ParseAuthorizedKey/ParseKnownHosts (4 authorized_keys layouts, 3 known_hosts layouts) is left untouched; after the caller overwrote the line buffer with the next line and parsed two other keys, the returned key/comment/options/marker/hosts are unchanged (for ParsePublicKey the blob is overwritten for rsa/dss/ecdsa/sk-ecdsa only: ed25519 keys and certificates keep sub-slices of the blob as upstream does); 3 rounds of Marshal / MarshalAuthorizedKey / both fingerprints on ONE key object with the returned slices overwritten in between. Long inputs: comment, line, quoted option, run of escaped quotes, unterminated option, bare option, wrong type name, base64 tail, host, blank run of 2^k+{-1,0,1} bytes for k in {8,12,16} [thorough +20,22], 2^k+-1 options/hosts, files with 255/256/257/4096 skipped lines of 5 kinds before the key; option atoms with a quote as first byte of the line and an escaped quote outside quotes. non-trivial = distinct (key, check) resp. distinct line/fault")
	c.Assume("crypto/sha256, crypto/md5, math/big, crypto/elliptic curve constants are correct; ssh-keygen (when present) is OpenSSH's")
	c.Assume("RSA/DSA number-range policy (exponent range, modulus size limits) is implementation policy: for blobs outside the known-good keys only rejection of malformed structure is demanded")

	e := &env{c: c}
	e.skg = newKeygen(c)
	defer e.skg.cleanup()
	e.skg.startGeneration() // ssh-keygen key generation runs while the rest proceeds

	e.keys = buildKeys(c)
	e.cert = buildCerts(c, e.keys)
	c.Set("plain_keys", len(e.keys))
	c.Set("certificates", len(e.cert))
	phase("key set built")

	e.roundTrips()
	phase("round trips")
	e.goBuiltCertificates()
	phase("go-built certificates")
	e.craftedBlobs()
	e.blobFaults()
	phase("blob faults")
	e.authorizedKeysGrammar()
	phase("authorized_keys grammar")
	e.authorizedKeysFiles()
	phase("authorized_keys files")
	e.knownHosts()
	phase("known_hosts")
	e.totality()
	phase("totality")
	e.hardening()
	e.keygenKeys()
	phase("ssh-keygen keys")
}

// ---------------------------------------------------------------------------------
// (1) round trips and fingerprints

func (e *env) roundTrips() {
	c := e.c
	all := append(append([]*testKey(nil), e.keys...), e.cert...)
	type fpRec struct {
		k        *testKey
		pk       ssh.PublicKey
		sha, md5 string
	}
	recs := make([]*fpRec, len(all))
	c.ParallelFor(len(all), func(i int) {
		k := all[i]
		det := func(extra string) map[string]any {
			return map[string]any{"key": k.name, "blob": hexClip(k.blob), "detail": extra}
		}
		var pk ssh.PublicKey
		var err error
		if pan, pv, _ := vf.Protect(func() { pk, err = ssh.ParsePublicKey(append([]byte(nil), k.blob...)) }); pan {
			c.Violation("ParsePublicKey panics on a valid "+k.ref.Type+" blob", det(fmt.Sprint(pv)))
			return
		}
		c.Eval(1)
		if err != nil {
			c.Violation("ParsePublicKey rejects a valid "+k.ref.Type+" blob", det(err.Error()))
			return
		}
		if d := matchKey(pk, k.ref); d != "" {
			c.Violation("ParsePublicKey("+k.ref.Type+") result differs from the blob's fields", det(d))
			return
		}
		var m []byte
		if pan, pv, _ := vf.Protect(func() { m = pk.Marshal() }); pan {
			c.Violation("Marshal panics ("+k.ref.Type+")", det(fmt.Sprint(pv)))
			return
		}
		if !bytes.Equal(m, k.blob) {
			c.Violation("ParsePublicKey(b).Marshal() != b ("+k.ref.Type+")", det(hexClip(m)))
			return
		}
		// the other way round: a key built from crypto/* values marshals to the specification blob
		if k.crypto != nil {
			npk, err := ssh.NewPublicKey(k.crypto)
			if err != nil {
				c.Violation("NewPublicKey rejects a valid "+k.ref.Type+" key", det(err.Error()))
			} else if nm := npk.Marshal(); !bytes.Equal(nm, k.blob) || npk.Type() != k.ref.Type {
				c.Violation("NewPublicKey(k).Marshal() differs from the specification blob ("+k.ref.Type+")", det(hexClip(nm)))
			} else if back, err := ssh.ParsePublicKey(nm); err != nil || matchKey(back, k.ref) != "" {
				c.Violation("ParsePublicKey(Marshal(k)) != k ("+k.ref.Type+")", det(fmt.Sprint(err)))
			}
		}
		// text form
		wantLine := k.ref.Type + " " + kf.B64Encode(k.blob) + "\n"
		line := ssh.MarshalAuthorizedKey(pk)
		if string(line) != wantLine {
			c.Violation("MarshalAuthorizedKey output is not \"type base64(blob)\\n\" ("+k.ref.Type+")", det(string(line)))
			return
		}
		out, comment, options, rest, err := ssh.ParseAuthorizedKey(line)
		c.Eval(1)
		if err != nil || comment != "" || len(options) != 0 || len(rest) != 0 {
			c.Violation("ParseAuthorizedKey(MarshalAuthorizedKey(k)) fails ("+k.ref.Type+")", det(fmt.Sprint(err, comment, options, rest)))
		} else if !bytes.Equal(out.Marshal(), k.blob) || matchKey(out, k.ref) != "" {
			c.Violation("ParseAuthorizedKey(MarshalAuthorizedKey(k)) != k ("+k.ref.Type+")", det(matchKey(out, k.ref)))
		}
		// the same key as a known_hosts entry
		kh := "host.example.com,192.0.2.7 " + strings.TrimSuffix(string(line), "\n") + " note\n"
		marker, hosts, hpk, hcomment, hrest, err := ssh.ParseKnownHosts([]byte(kh))
		c.Eval(1)
		if err != nil || marker != "" || !reflect.DeepEqual(hosts, []string{"host.example.com", "192.0.2.7"}) || hcomment != "note" || len(hrest) != 0 {
			c.Violation("ParseKnownHosts of a well-formed entry fails ("+k.ref.Type+")", det(fmt.Sprint(err, marker, hosts, hcomment)))
		} else if !bytes.Equal(hpk.Marshal(), k.blob) {
			c.Violation("ParseKnownHosts returns a different key ("+k.ref.Type+")", det(""))
		}
		// fingerprints
		var sha, md string
		if pan, pv, _ := vf.Protect(func() { sha, md = ssh.FingerprintSHA256(pk), ssh.FingerprintLegacyMD5(pk) }); pan {
			c.Violation("Fingerprint panics ("+k.ref.Type+")", det(fmt.Sprint(pv)))
			return
		}
		c.Eval(2)
		fb := kf.KeyFingerprintBlob(k.ref)
		wantSHA, wantMD := kf.FingerprintSHA256(fb), kf.FingerprintMD5Hex(fb)
		if sha != wantSHA || md != wantMD {
			cls := "fingerprint differs from OpenSSH format (" + k.ref.Type + ")"
			if k.ref.Cert != nil && sha == kf.FingerprintSHA256(k.blob) && md == kf.FingerprintMD5Hex(k.blob) {
				cls = certFingerprintClass
			}
			c.Violation(cls, map[string]any{"key": k.name, "go_sha256": sha, "openssh_sha256": wantSHA, "go_md5": md, "openssh_md5": wantMD})
		}
		if k.ref.Cert != nil {
			// the certified key itself must fingerprint like OpenSSH prints the certificate
			ck := pk.(*ssh.Certificate).Key
			if ssh.FingerprintSHA256(ck) != wantSHA || ssh.FingerprintLegacyMD5(ck) != wantMD {
				c.Violation("fingerprint of the certified key differs from OpenSSH format ("+k.ref.Type+")", det(""))
			}
		}
		recs[i] = &fpRec{k, pk, sha, md}
		c.Nontrivial("rt/" + k.name)
		if i == 0 || (k.ref.Cert != nil && k.rep && k.ref.PlainType() == kf.ED25519) {
			c.Sample(map[string]any{"key": k.name, "type": k.ref.Type, "blob_len": len(k.blob), "sha256": sha})
		}
	})

	// ssh-keygen as additional oracle for the plain keys and the certificates that carry a
	// genuine CA signature (OpenSSH verifies the CA signature when it loads a certificate)
	if !e.skg.present {
		return
	}
	var lines []string
	var idx []int
	for i, k := range all {
		if recs[i] == nil || (k.ref.Cert != nil && !k.signed) {
			continue
		}
		lines = append(lines, fmt.Sprintf("%s %s K%05d", k.ref.Type, kf.B64Encode(k.blob), i))
		idx = append(idx, i)
	}
	for _, md5 := range []bool{false, true} {
		res, err := e.skg.fingerprintFile(lines, md5)
		if err != nil {
			c.Set("ssh_keygen_note", err.Error())
			return
		}
		byComment := map[string]keygenLine{}
		for _, r := range res {
			byComment[r.comment] = r
		}
		skipped := []string{}
		for li, i := range idx {
			_ = li
			k := all[i]
			r, ok := byComment[fmt.Sprintf("K%05d", i)]
			if !ok {
				skipped = append(skipped, k.name)
				continue
			}
			c.Eval(1)
			got := recs[i].sha
			if md5 {
				got = "MD5:" + recs[i].md5
			}
			if ct, isCert := recs[i].pk.(*ssh.Certificate); isCert {
				// OpenSSH prints the certified key's fingerprint for a certificate
				plain := ssh.FingerprintSHA256(ct.Key)
				if md5 {
					plain = "MD5:" + ssh.FingerprintLegacyMD5(ct.Key)
				}
				if plain != r.fp {
					c.Violation("fingerprint of the certified key differs from ssh-keygen -l ("+k.ref.Type+")", map[string]any{"key": k.name, "go": plain, "ssh-keygen": r.fp})
				} else if got != r.fp {
					c.Violation(certFingerprintClass, map[string]any{"key": k.name, "go": got, "ssh-keygen": r.fp})
				}
			} else if r.fp != got {
				c.Violation("fingerprint differs from ssh-keygen -l ("+k.ref.Type+")", map[string]any{"key": k.name, "go": got, "ssh-keygen": r.fp})
			}
			if k.ref.PlainType() == kf.RSA && r.bits != k.ref.N.BitLen() {
				c.Violation("reference/ssh-keygen disagree on RSA size", map[string]any{"key": k.name, "ssh-keygen": r.bits, "reference": k.ref.N.BitLen()})
			}
			c.Nontrivial(fmt.Sprintf("skg-fp/%v/%s", md5, k.name))
		}
		if len(skipped) > 0 {
			sort.Strings(skipped)
			c.Set("ssh_keygen_did_not_load", skipped)
		}
	}
}

// goBuiltCertificates: Certificate values assembled from public API pieces (not through
// the parser) must marshal to the PROTOCOL.certkeys layout.
func (e *env) goBuiltCertificates() {
	c := e.c
	for _, k := range e.cert {
		rc := k.ref.Cert
		plain := *k.ref
		plain.Cert = nil
		plain.Type = k.ref.PlainType()
		key, err1 := ssh.ParsePublicKey(kf.Encode(&plain))
		ca, err2 := ssh.ParsePublicKey(rc.SignatureKey)
		if err1 != nil || err2 != nil {
			continue // reported by roundTrips
		}
		sv, _ := sshwire.Decode([]sshwire.Field{{Kind: sshwire.String}, {Kind: sshwire.String}, {Kind: sshwire.Rest}}, rc.Signature)
		ct := &ssh.Certificate{Nonce: rc.Nonce, Key: key, Serial: rc.Serial, CertType: rc.CertType, KeyId: rc.KeyID, ValidPrincipals: rc.Principals,
			ValidAfter: rc.ValidAfter, ValidBefore: rc.ValidBefore, Reserved: rc.Reserved, SignatureKey: ca,
			Signature: &ssh.Signature{Format: string(sv[0].B), Blob: sv[1].B, Rest: sv[2].B}}
		ct.CriticalOptions = optMap(rc.CriticalOptions)
		ct.Extensions = optMap(rc.Extensions)
		var m []byte
		var typ string
		if pan, pv, _ := vf.Protect(func() { m, typ = ct.Marshal(), ct.Type() }); pan {
			c.Violation("Certificate.Marshal panics", map[string]any{"key": k.name, "panic": fmt.Sprint(pv)})
			continue
		}
		c.Eval(1)
		if typ != k.ref.Type || !bytes.Equal(m, k.blob) {
			c.Violation("Certificate.Marshal differs from PROTOCOL.certkeys layout ("+k.ref.Type+")", map[string]any{"key": k.name, "got": hexClip(m), "want": hexClip(k.blob)})
		}
		c.Nontrivial("gocert/" + k.name)
	}
}

// ---------------------------------------------------------------------------------
// (2) blob faults

func (e *env) blobFaults() {
	c := e.c
	var reps []*testKey
	for _, k := range append(append([]*testKey(nil), e.keys...), e.cert...) {
		if k.rep || c.Thorough && k.ref.Cert == nil {
			reps = append(reps, k)
		}
	}
	c.Set("fault_seed_blobs", len(reps))
	type job struct {
		k        *testKey
		from, to int // byte positions
		lenByte  map[int]bool
	}
	var jobs []job
	for _, k := range reps {
		lb := map[int]bool{}
		for _, o := range kf.LengthOffsets(k.ref) {
			lb[o], lb[o+1], lb[o+2], lb[o+3] = true, true, true, true
		}
		for p := 0; p < len(k.blob); p += 16 {
			to := p + 16
			if to > len(k.blob) {
				to = len(k.blob)
			}
			jobs = append(jobs, job{k, p, to, lb})
		}
	}
	c.ParallelFor(len(jobs), func(i int) {
		j := jobs[i]
		n := 0
		for pos := j.from; pos < j.to; pos++ {
			if j.from == 0 && pos == 0 {
				for cut := 0; cut < len(j.k.blob); cut++ {
					e.oneBlob(j.k, j.k.blob[:cut], "truncate")
					n++
				}
				for t := 1; t <= 4; t++ {
					e.oneBlob(j.k, append(append([]byte(nil), j.k.blob...), bytes.Repeat([]byte{byte(t - 1)}, t)...), "trailing")
					n++
				}
			}
			orig := j.k.blob[pos]
			for v := 0; v < 256; v++ {
				if byte(v) == orig {
					continue
				}
				// quick: all 255 values for the bytes of length prefixes, five values elsewhere
				if !c.Thorough && !j.lenByte[pos] && byte(v) != ^orig && byte(v) != orig^1 && byte(v) != orig^0x80 && v != 0 && v != 0xff {
					continue
				}
				m := append([]byte(nil), j.k.blob...)
				m[pos] = byte(v)
				e.oneBlob(j.k, m, "substitute")
				n++
			}
			c.Nontrivial(fmt.Sprintf("fault/%s/%d", j.k.name, pos))
		}
		c.Eval(n)
	})
}

// craftedBlobs: multi-byte inconsistencies that single-byte faults cannot reach.
func (e *env) craftedBlobs() {
	c := e.c
	byType := map[string]*testKey{}
	for _, k := range e.keys {
		if k.rep {
			byType[k.ref.Type] = k
		}
	}
	n := 0
	try := func(seed *testKey, ref *kf.Key, what string) {
		e.oneBlob(seed, kf.Encode(ref), "crafted: "+what)
		c.Nontrivial("crafted/" + seed.name + "/" + what)
		n++
	}
	ec := []string{kf.ECDSA256, kf.ECDSA384, kf.ECDSA521}
	for _, a := range ec {
		for _, b := range ec {
			if a == b {
				continue
			}
			// format name of a, curve identifier and/or point of b
			ka, kb := byType[a], byType[b]
			try(ka, &kf.Key{Type: a, Curve: kb.ref.Curve, Point: kb.ref.Point}, "curve id and point of "+b)
			try(ka, &kf.Key{Type: a, Curve: kb.ref.Curve, Point: ka.ref.Point}, "curve id of "+b)
			try(ka, &kf.Key{Type: a, Curve: ka.ref.Curve, Point: kb.ref.Point}, "point of "+b)
		}
		ka := byType[a]
		size := (len(ka.ref.Point) - 1) / 2
		try(ka, &kf.Key{Type: a, Curve: ka.ref.Curve, Point: []byte{0}}, "point at infinity")
		comp := append([]byte{2 + ka.ref.Point[len(ka.ref.Point)-1]&1}, ka.ref.Point[1:1+size]...)
		try(ka, &kf.Key{Type: a, Curve: ka.ref.Curve, Point: comp}, "compressed point")
		try(ka, &kf.Key{Type: a, Curve: ka.ref.Curve, Point: append([]byte{4}, make([]byte, 2*size)...)}, "point (0,0)")
		try(ka, &kf.Key{Type: a, Curve: ka.ref.Curve, Point: ka.ref.Point[:len(ka.ref.Point)-1]}, "point one byte short")
		try(ka, &kf.Key{Type: a, Curve: ka.ref.Curve, Point: append(append([]byte(nil), ka.ref.Point...), 0)}, "point one byte long")
		try(ka, &kf.Key{Type: a, Curve: strings.ToUpper(ka.ref.Curve), Point: ka.ref.Point}, "curve id in upper case")
	}
	sk := byType[kf.SKECDSA]
	p384 := byType[kf.ECDSA384]
	try(sk, &kf.Key{Type: kf.SKECDSA, Curve: "nistp384", Point: p384.ref.Point, App: "ssh:"}, "sk-ecdsa on nistp384")
	try(sk, &kf.Key{Type: kf.SKECDSA, Curve: "nistp384", Point: sk.ref.Point, App: "ssh:"}, "sk-ecdsa with curve id nistp384")
	ed := byType[kf.ED25519]
	for _, l := range []int{0, 1, 31, 33, 64} {
		try(ed, &kf.Key{Type: kf.ED25519, Pub: bytes.Repeat([]byte{7}, l)}, fmt.Sprintf("ed25519 key of %d bytes", l))
		try(byType[kf.SKED25519], &kf.Key{Type: kf.SKED25519, Pub: bytes.Repeat([]byte{7}, l), App: "ssh:"}, fmt.Sprintf("sk-ed25519 key of %d bytes", l))
	}
	// certificates: a certificate as CA key; a plain format name with certificate fields; nested material of another format
	var edCert *testKey
	for _, k := range e.cert {
		if k.rep && k.ref.PlainType() == kf.ED25519 {
			edCert = k
		}
	}
	if edCert != nil {
		bad := *edCert.ref
		cc := *bad.Cert
		cc.SignatureKey = edCert.blob
		bad.Cert = &cc
		try(edCert, &bad, "signature key is itself a certificate")
		bad2 := *edCert.ref
		cc2 := *bad2.Cert
		cc2.Signature = append(append([]byte(nil), cc2.Signature...), 0)
		bad2.Cert = &cc2
		try(edCert, &bad2, "signature with a trailing byte")
		bad3 := *edCert.ref
		cc3 := *bad3.Cert
		cc3.CriticalOptions = []kf.Option{{Name: "b"}, {Name: "a"}}
		bad3.Cert = &cc3
		try(edCert, &bad3, "options out of lexical order")
		bad4 := *edCert.ref
		cc4 := *bad4.Cert
		cc4.Extensions = []kf.Option{{Name: "a"}, {Name: "a"}}
		bad4.Cert = &cc4
		try(edCert, &bad4, "repeated extension name")
		// the certificate body under the plain format name, and the plain key under the certificate name
		m := append(sshwire.EncodeString([]byte(kf.ED25519)), edCert.blob[4+len(edCert.ref.Type):]...)
		e.oneBlob(edCert, m, "crafted: certificate body under plain name")
		m = append(sshwire.EncodeString([]byte(edCert.ref.Type)), ed.blob[4+len(kf.ED25519):]...)
		e.oneBlob(edCert, m, "crafted: plain key under certificate name")
		n += 2
	}
	// signature algorithm names are not key formats
	rsa := byType[kf.RSA]
	for _, name := range []string{"rsa-sha2-256", "rsa-sha2-512", "rsa-sha2-256-cert-v01@openssh.com", "ssh-rsa ", "", "ssh-ed25519\x00"} {
		m := append(sshwire.EncodeString([]byte(name)), rsa.blob[4+len(kf.RSA):]...)
		e.oneBlob(rsa, m, "crafted: format name "+fmt.Sprintf("%q", name))
		n++
	}
	c.Eval(n)
}

func (e *env) oneBlob(seed *testKey, m []byte, kind string) {
	c := e.c
	var pk ssh.PublicKey
	var err error
	in := append([]byte(nil), m...)
	det := func(extra string) map[string]any {
		return map[string]any{"seed": seed.name, "fault": kind, "blob": hexClip(m), "len": len(m), "detail": extra}
	}
	if pan, pv, _ := vf.Protect(func() { pk, err = ssh.ParsePublicKey(in) }); pan {
		c.Violation("ParsePublicKey panics ("+seed.ref.Type+", "+kind+")", det(fmt.Sprint(pv)))
		return
	}
	if err == nil && pk == nil {
		c.Violation("ParsePublicKey returns neither key nor error", det(""))
		return
	}
	rk, rerr := kf.Decode(m)
	val := kf.Invalid
	if rerr == nil {
		val = kf.Validate(rk)
	}
	if err == nil && val == kf.Invalid {
		c.Violation("ParsePublicKey accepts a malformed blob ("+seed.ref.Type+", "+kind+")", det(fmt.Sprint(rerr)))
		return
	}
	if err != nil && val == kf.Valid {
		c.Violation("ParsePublicKey rejects a well-formed blob ("+seed.ref.Type+", "+kind+")", det(err.Error()))
		return
	}
	if err != nil {
		c.Outcome("blob-rejected")
		return
	}
	c.Outcome("blob-accepted")
	if pk.Type() != rk.Type {
		c.Violation("ParsePublicKey: Type() differs from the format name in the blob", det(pk.Type()))
		return
	}
	var out []byte
	if pan, pv, _ := vf.Protect(func() { out = pk.Marshal() }); pan {
		c.Violation("Marshal panics on a parsed key ("+seed.ref.Type+")", det(fmt.Sprint(pv)))
		return
	}
	if bytes.Equal(kf.Encode(rk), m) && !bytes.Equal(out, m) {
		c.Violation("ParsePublicKey(b).Marshal() != b for a canonical blob ("+seed.ref.Type+", "+kind+")", det(hexClip(out)))
		return
	}
	pk2, err := ssh.ParsePublicKey(out)
	if err != nil || !bytes.Equal(pk2.Marshal(), out) {
		c.Violation("ParsePublicKey(Marshal(k)) != k for a parsed key ("+seed.ref.Type+", "+kind+")", det(fmt.Sprint(err)))
	}
}

// ---------------------------------------------------------------------------------
// (3) authorized_keys

// cmpAuthLine runs ParseAuthorizedKey on a single line (no terminator) and compares
// with the reference procedure. It returns whether Go accepted.
func (e *env) cmpAuthLine(line, what string) (accepted bool) {
	c := e.c
	kl, want := kf.ParseAuthorizedKeysLine(line)
	var out ssh.PublicKey
	var comment string
	var options []string
	var rest []byte
	var err error
	det := func(extra string) map[string]any {
		return map[string]any{"line": clipLine(line), "case": what, "detail": extra, "model_accepts": want, "model_options": kl.Options, "model_comment": kl.Comment}
	}
	if pan, pv, _ := vf.Protect(func() { out, comment, options, rest, err = ssh.ParseAuthorizedKey([]byte(line)) }); pan {
		c.Violation("ParseAuthorizedKey panics ("+what+")", det(fmt.Sprint(pv)))
		return false
	}
	if err == nil && out == nil {
		c.Violation("ParseAuthorizedKey returns neither key nor error", det(""))
		return false
	}
	if err == nil {
		// whatever the line looks like: a returned key must be preceded by its own type name
		if !declaredTypePrecedesBlob(line, out) {
			c.Violation("ParseAuthorizedKey returns a key whose declared type does not match the blob ("+what+")", det(out.Type()))
			return true
		}
	}
	if (err == nil) != want {
		if err == nil {
			c.Violation("ParseAuthorizedKey accepts a line sshd's procedure rejects ("+what+")", det(fmt.Sprint(options)))
		} else {
			c.Violation("ParseAuthorizedKey rejects a line sshd's procedure accepts ("+what+")", det(err.Error()))
		}
		return err == nil
	}
	if err != nil {
		c.Outcome("ak-rejected")
		return false
	}
	c.Outcome("ak-accepted")
	switch {
	case !bytes.Equal(out.Marshal(), kl.Blob):
		c.Violation("ParseAuthorizedKey returns a different key ("+what+")", det(""))
	case comment != kl.Comment:
		c.Violation("ParseAuthorizedKey comment differs ("+what+")", det(comment))
	case len(options) != len(kl.Options) || (len(options) > 0 && !reflect.DeepEqual(options, kl.Options)):
		c.Violation("ParseAuthorizedKey options differ from sshd's splitting ("+what+")", det(strings.Join(options, " | ")))
	case len(rest) != 0:
		c.Violation("ParseAuthorizedKey returns a rest for single-line input ("+what+")", det(string(rest)))
	}
	return true
}

// declaredTypePrecedesBlob: some blank-delimited token of some line decodes to the
// returned key's blob and the token before it is the key's type name.
func declaredTypePrecedesBlob(data string, pk ssh.PublicKey) bool {
	blob := pk.Marshal()
	for _, ln := range strings.FieldsFunc(data, func(r rune) bool { return r == '\n' || r == '\r' }) {
		toks := strings.Fields(ln) // any white space: the parsers under test use bytes.Fields/TrimSpace
		for i := 1; i < len(toks); i++ {
			if toks[i-1] != pk.Type() {
				continue
			}
			if b, ok := lenientB64(toks[i]); ok && bytes.Equal(b, blob) {
				return true
			}
		}
	}
	return false
}

// normBlanks: ParseKnownHosts re-joins the fields of an entry with single blanks, so runs
// of blanks inside a comment come back as one blank (not a property matter).
func normBlanks(s string) string { return strings.Join(strings.Fields(s), " ") }

func clipLine(s string) string {
	if len(s) > 300 {
		return s[:200] + "..." + s[len(s)-80:]
	}
	return s
}

type akKey struct {
	k     *testKey
	other string // another valid format name
}

func (e *env) lineKeys() []akKey {
	pick := func(name string) *testKey {
		for _, k := range append(append([]*testKey(nil), e.keys...), e.cert...) {
			if k.name == name {
				return k
			}
		}
		panic("no key " + name)
	}
	var certName string
	for _, k := range e.cert {
		if k.rep && k.ref.PlainType() == kf.ED25519 {
			certName = k.name
		}
	}
	return []akKey{{pick("ed25519-real"), kf.RSA}, {pick(kf.ECDSA256 + "-testdata"), kf.ECDSA384}, {pick("rsa-synthetic-1024"), kf.ED25519}, {pick(certName), kf.ED25519}}
}

var optAtoms = []string{
	`restrict`,
	`no-pty`,
	`command="echo hi"`,
	`from="*.a.example,!b.a.example"`,
	`command="say \"hi, you\" twice"`,
	`tunnel="0"`,
	"environment=\"A=tab\there\"",
	`x"mid word"y`,
	`principals=",a,!,b\\,c,"`,
	// hardening: one case on each side of the scanner's special cases — a quote as the very first
	// byte of the line (the `i == 0` branch), an escaped quote outside quotes
	`"lead quote",x`,
	`a\"b`,
}

var optUnterminated = []string{
	`command="oops`,
	`command="x\"`,
	`restrict,command="oops`,
	`command="a",from="b`,
}

func optLists(maxLen int) []string {
	out := []string{""}
	prev := []string{""}
	for l := 1; l <= maxLen; l++ {
		var next []string
		for _, p := range prev {
			for _, a := range optAtoms {
				if p == "" {
					next = append(next, a)
				} else {
					next = append(next, p+","+a)
				}
			}
		}
		out = append(out, next...)
		prev = next
	}
	return append(out, optUnterminated...)
}

func blobTexts(k *testKey) map[string]string {
	full := kf.B64Encode(k.blob)
	m := map[string]string{
		"valid":     full,
		"truncated": kf.B64Encode(k.blob[:len(k.blob)-1]),
		"trailing":  kf.B64Encode(append(append([]byte(nil), k.blob...), 0)),
		"badchar":   full[:10] + "*" + full[11:],
	}
	if strings.HasSuffix(full, "=") {
		m["nopad"] = strings.TrimRight(full, "=")
	} else {
		// padded form of blob+1 byte with the padding removed: an incomplete final quantum
		m["nopad"] = strings.TrimRight(kf.B64Encode(append(append([]byte(nil), k.blob...), 0)), "=")
	}
	return m
}

func declaredTypes(k akKey) map[string]string {
	t := k.k.ref.Type
	cert := kf.CertType(k.k.ref.PlainType())
	if k.k.ref.Cert != nil {
		cert = k.k.ref.PlainType() // for a certificate blob: the plain name
	}
	return map[string]string{"right": t, "other": k.other, "cert-or-plain": cert, "unknown": "ssh-foo", "upper": strings.ToUpper(t), "suffixed": t + "x", "missing": ""}
}

type akLine struct {
	text    string
	what    string
	keygen  bool // structure ssh-keygen -lf handles like sshd (single blank after the options field)
	keyType string
}

func (e *env) authorizedKeysGrammar() {
	c := e.c
	maxOpts := 2
	if c.Thorough {
		maxOpts = 3
	}
	lists := optLists(maxOpts)
	lkeys := e.lineKeys()
	var lines []akLine
	// core product
	for _, lk := range lkeys {
		blobs := blobTexts(lk.k)
		types := declaredTypes(lk)
		for _, ol := range lists {
			for tn, tv := range types {
				for bn, bv := range blobs {
					var sb strings.Builder
					if ol != "" {
						sb.WriteString(ol + " ")
					}
					if tv != "" {
						sb.WriteString(tv + " ")
					}
					sb.WriteString(bv + " user@host")
					lines = append(lines, akLine{sb.String(), fmt.Sprintf("opts=%q type=%s blob=%s", ol, tn, bn), true, lk.k.ref.Type})
				}
			}
		}
	}
	// layout product on a reduced option/type set
	lk := lkeys[0]
	full := kf.B64Encode(lk.k.blob)
	seps := []string{" ", "\t", "  ", " \t "}
	for _, ol := range []string{"", "restrict", `command="echo hi",no-pty`, `command="say \"hi, you\" twice"`, `command="oops`} {
		for _, tv := range []string{lk.k.ref.Type, lk.other} {
			for _, lead := range []string{"", " ", "\t"} {
				for _, s1 := range seps {
					for _, s2 := range seps {
						for _, s3 := range seps {
							for _, cm := range []string{"", "user@host", "two  words", "#hash", `"quoted" \`, "ssh-rsa AAAA"} {
								for _, trail := range []string{"", " ", "\t "} {
									var sb strings.Builder
									sb.WriteString(lead)
									if ol != "" {
										sb.WriteString(ol + s1)
									}
									sb.WriteString(tv + s2 + full)
									if cm != "" {
										sb.WriteString(s3 + cm)
									}
									sb.WriteString(trail)
									lines = append(lines, akLine{sb.String(), fmt.Sprintf("layout opts=%q lead=%q s1=%q s2=%q s3=%q comment=%q trail=%q", ol, lead, s1, s2, s3, cm, trail),
										(ol == "" || s1 == " " || s1 == "\t") && cm != "" && cm != "#hash", lk.k.ref.Type})
								}
							}
						}
					}
				}
			}
		}
	}
	c.Set("authorized_keys_lines", len(lines))
	accepted := make([]bool, len(lines))
	chunk := 256
	c.ParallelFor((len(lines)+chunk-1)/chunk, func(ci int) {
		n := 0
		for i := ci * chunk; i < (ci+1)*chunk && i < len(lines); i++ {
			accepted[i] = e.cmpAuthLine(lines[i].text, lines[i].what)
			n++
		}
		c.Eval(n)
	})
	for i := range lines {
		c.Nontrivial("ak/" + lines[i].what)
	}
	if len(lines) > 0 {
		for _, l := range lines {
			if strings.Contains(l.what, `twice`) && strings.Contains(l.what, "type=right blob=valid") {
				kl, _ := kf.ParseAuthorizedKeysLine(l.text)
				c.Sample(map[string]any{"line": clipLine(l.text), "options": kl.Options, "comment": kl.Comment})
				break
			}
		}
	}

	// ssh-keygen -lf as additional oracle on the same lines
	if !e.skg.present {
		return
	}
	// only keys that this ssh-keygen loads at all take part (an OpenSSH build may have dropped a
	// key type or raised its minimum RSA size; that is not x/crypto's business)
	var probe []string
	for _, lk := range lkeys {
		probe = append(probe, lk.k.ref.Type+" "+kf.B64Encode(lk.k.blob)+" probe")
	}
	loads, err := e.skg.acceptFile(probe)
	if err != nil {
		c.Set("ssh_keygen_lines_note", err.Error())
		return
	}
	usable := map[string]bool{}
	for i, lk := range lkeys {
		if loads[i] {
			usable[lk.k.ref.Type] = true
		} else {
			c.Set("ssh_keygen_does_not_load_"+lk.k.ref.Type, true)
		}
	}
	var sel []int
	var texts []string
	for i, l := range lines {
		if l.keygen && usable[l.keyType] {
			sel = append(sel, i)
			texts = append(texts, l.text)
		}
	}
	acc, err := e.skg.acceptFile(texts)
	if err != nil {
		c.Set("ssh_keygen_lines_note", err.Error())
		return
	}
	n := 0
	for j, i := range sel {
		n++
		if acc[j] != accepted[i] {
			cls := "ParseAuthorizedKey rejects a line ssh-keygen -lf reads a key from"
			if accepted[i] {
				cls = "ParseAuthorizedKey accepts a line ssh-keygen -lf finds no key in"
			}
			c.Violation(cls, map[string]any{"line": clipLine(lines[i].text), "case": lines[i].what})
		}
	}
	c.Eval(n)
	c.Set("authorized_keys_lines_checked_with_ssh_keygen", n)
}

// authorizedKeysFiles: multi-line input; invalid lines are skipped, rest starts after
// the line that held the key.
func (e *env) authorizedKeysFiles() {
	c := e.c
	lk := e.lineKeys()
	k1 := lk[0].k.ref.Type + " " + kf.B64Encode(lk[0].k.blob)
	k2 := lk[1].k.ref.Type + " " + kf.B64Encode(lk[1].k.blob)
	kinds := []string{
		"",
		"# a comment " + k1,
		"ssh-rsa " + kf.B64Encode(lk[0].k.blob) + " wrong-type",
		k1 + " first",
		`command="echo \"x\"",no-pty ` + k2 + " second",
		`command="never closed ` + k1,
		"onlyoneword",
	}
	var files []string
	var rec func(prefix []string, depth int)
	rec = func(prefix []string, depth int) {
		if len(prefix) > 0 {
			for _, nl := range []string{"\n", "\r\n"} {
				for _, final := range []bool{true, false} {
					s := strings.Join(prefix, nl)
					if final {
						s += nl
					}
					files = append(files, s)
				}
			}
		}
		if depth == 3 {
			return
		}
		for _, k := range kinds {
			rec(append(append([]string(nil), prefix...), k), depth+1)
		}
	}
	rec(nil, 0)
	c.Set("authorized_keys_files", len(files))
	n := 0
	for _, f := range files {
		kl, off, want := kf.FirstAuthorizedKey(f)
		var out ssh.PublicKey
		var comment string
		var options []string
		var rest []byte
		var err error
		det := map[string]any{"file": clipLine(f), "model_accepts": want, "model_rest_offset": off}
		if pan, pv, _ := vf.Protect(func() { out, comment, options, rest, err = ssh.ParseAuthorizedKey([]byte(f)) }); pan {
			det["panic"] = fmt.Sprint(pv)
			c.Violation("ParseAuthorizedKey panics (multi-line file)", det)
			continue
		}
		n++
		if (err == nil) != want {
			c.Violation("ParseAuthorizedKey on a multi-line file: accept/reject differs from skipping invalid lines", det)
			continue
		}
		if err != nil {
			continue
		}
		if !bytes.Equal(out.Marshal(), kl.Blob) || comment != kl.Comment || len(options) != len(kl.Options) || (len(options) > 0 && !reflect.DeepEqual(options, kl.Options)) {
			det["got_comment"], det["got_options"] = comment, options
			c.Violation("ParseAuthorizedKey on a multi-line file returns a different key/comment/options than the first valid line", det)
			continue
		}
		if string(rest) != f[off:] {
			det["got_rest"] = clipLine(string(rest))
			c.Violation("ParseAuthorizedKey rest is not the input after the key's line", det)
		}
		c.Nontrivial("akfile/" + fmt.Sprint(len(f), off))
	}
	c.Eval(n)
}

// ---------------------------------------------------------------------------------
// (4) known_hosts

func (e *env) knownHosts() {
	c := e.c
	lks := e.lineKeys()
	type kh struct{ text, what string }
	var lines []kh
	for ki, lk := range lks {
		blobs := blobTexts(lk.k)
		types := declaredTypes(lk)
		for _, marker := range []string{"", "@cert-authority", "@revoked", "@bogus"} {
			for _, hosts := range []string{"host.example.com", "a.example,b.example,192.0.2.1", "[h.example]:2222", "|1|F1E1KeoE/eEWhi10WpGv4OdiO6Y=|3988QV0VE8wmZL7suNrYQLITLCg=", "*.example.com,!bad.example.com"} {
				for tn, tv := range types {
					if tv == "" {
						continue
					}
					for bn, bv := range blobs {
						for _, cm := range []string{"", "note", "two words", "one two three"} {
							if ki > 0 && (cm == "two words" || cm == "one two three" || marker == "@bogus") {
								continue
							}
							for _, sep := range []string{" ", "\t", "  "} {
								if ki > 0 && sep != " " {
									continue
								}
								s := ""
								if marker != "" {
									s = marker + sep
								}
								s += hosts + sep + tv + sep + bv
								if cm != "" {
									s += sep + cm
								}
								lines = append(lines, kh{s, fmt.Sprintf("marker=%q hosts=%q type=%s blob=%s comment=%q sep=%q", marker, hosts, tn, bn, cm, sep)})
							}
						}
					}
				}
			}
		}
	}
	c.Set("known_hosts_lines", len(lines))
	chunk := 256
	c.ParallelFor((len(lines)+chunk-1)/chunk, func(ci int) {
		n := 0
		for i := ci * chunk; i < (ci+1)*chunk && i < len(lines); i++ {
			e.cmpKnownHostsLine(lines[i].text, lines[i].what)
			n++
		}
		c.Eval(n)
	})
	for _, l := range lines {
		c.Nontrivial("kh/" + l.what)
	}

	// multi-line: blank and comment lines are skipped, the first entry decides
	k1 := lks[0].k.ref.Type + " " + kf.B64Encode(lks[0].k.blob)
	kinds := []string{"", "# comment", "h1.example " + k1 + " one", "@revoked h2.example " + k1, "h3.example ssh-rsa " + kf.B64Encode(lks[0].k.blob), "lonelyword"}
	for _, a := range kinds {
		for _, b := range kinds {
			for _, d := range kinds {
				for _, nl := range []string{"\n", "\r\n"} {
					f := a + nl + b + nl + d
					e.cmpKnownHostsFile(f)
					e.cmpKnownHostsFile(f + nl)
				}
			}
		}
	}
}

func (e *env) cmpKnownHostsLine(line, what string) {
	c := e.c
	hl, want, _ := kf.ParseKnownHostsLine(line)
	var marker, comment string
	var hosts []string
	var pk ssh.PublicKey
	var rest []byte
	var err error
	det := func(extra string) map[string]any {
		return map[string]any{"line": clipLine(line), "case": what, "detail": extra, "model_accepts": want}
	}
	if pan, pv, _ := vf.Protect(func() { marker, hosts, pk, comment, rest, err = ssh.ParseKnownHosts([]byte(line)) }); pan {
		c.Violation("ParseKnownHosts panics ("+what+")", det(fmt.Sprint(pv)))
		return
	}
	if err == nil && pk == nil {
		c.Violation("ParseKnownHosts returns neither key nor error", det(""))
		return
	}
	if err == nil && !declaredTypePrecedesBlob(line, pk) {
		c.Violation("ParseKnownHosts returns a key whose declared type does not match the blob ("+what+")", det(pk.Type()))
		return
	}
	if err == nil && !want {
		c.Violation("ParseKnownHosts accepts a malformed entry ("+what+")", det(""))
		return
	}
	if err != nil {
		// x/crypto limits an entry to five blank-separated fields, so entries with a longer comment
		// are refused although sshd(8) allows them; the property does not demand their acceptance.
		if want && len(strings.Fields(line)) <= 5 {
			c.Violation("ParseKnownHosts rejects a well-formed entry ("+what+")", det(err.Error()))
		} else if want {
			c.Outcome("kh-long-comment-refused")
		} else {
			c.Outcome("kh-rejected")
		}
		return
	}
	c.Outcome("kh-accepted")
	switch {
	case marker != hl.Marker:
		c.Violation("ParseKnownHosts marker differs ("+what+")", det(marker))
	case !reflect.DeepEqual(hosts, hl.Hosts):
		c.Violation("ParseKnownHosts hosts differ ("+what+")", det(strings.Join(hosts, "|")))
	case !bytes.Equal(pk.Marshal(), hl.Blob):
		c.Violation("ParseKnownHosts returns a different key ("+what+")", det(""))
	case comment != normBlanks(hl.Comment):
		c.Violation("ParseKnownHosts comment differs ("+what+")", det(comment))
	case len(rest) != 0:
		c.Violation("ParseKnownHosts returns a rest for single-line input", det(string(rest)))
	}
}

func (e *env) cmpKnownHostsFile(f string) {
	c := e.c
	lines, ends := kf.Lines(f)
	// Blank and comment lines are skipped. The first remaining line decides when it is a
	// well-formed entry. When it is malformed, ParseKnownHosts may report the error
	// (what it does today) or go on to a later entry; it must not produce a key from it.
	type cand struct {
		hl  kf.HostLine
		off int
	}
	var first *cand
	firstMalformed := false
	var later []cand
	for i, ln := range lines {
		h, ok, skip := kf.ParseKnownHostsLine(ln)
		if skip {
			continue
		}
		if ok && len(strings.Fields(ln)) > 5 {
			ok = false // more blank-separated fields than x/crypto reads: treated like a malformed entry here
		}
		if first == nil && !firstMalformed {
			if ok {
				first = &cand{h, ends[i]}
			} else {
				firstMalformed = true
			}
			continue
		}
		if ok {
			later = append(later, cand{h, ends[i]})
		}
	}
	var marker, comment string
	var hosts []string
	var pk ssh.PublicKey
	var rest []byte
	var err error
	det := map[string]any{"file": clipLine(f)}
	if pan, pv, _ := vf.Protect(func() { marker, hosts, pk, comment, rest, err = ssh.ParseKnownHosts([]byte(f)) }); pan {
		det["panic"] = fmt.Sprint(pv)
		c.Violation("ParseKnownHosts panics (multi-line)", det)
		return
	}
	c.Eval(1)
	same := func(x cand) bool {
		return marker == x.hl.Marker && reflect.DeepEqual(hosts, x.hl.Hosts) && bytes.Equal(pk.Marshal(), x.hl.Blob) && comment == normBlanks(x.hl.Comment) && string(rest) == f[x.off:]
	}
	if err != nil {
		if first != nil && !firstMalformed {
			det["err"] = err.Error()
			c.Violation("ParseKnownHosts on multi-line input fails although the first entry is well-formed", det)
		}
		return
	}
	if first != nil {
		if !same(*first) {
			det["got"] = fmt.Sprint(marker, hosts, comment, len(rest))
			c.Violation("ParseKnownHosts on multi-line input returns a different entry or rest than the first entry", det)
		}
		return
	}
	for _, x := range later {
		if same(x) {
			return
		}
	}
	det["got"] = fmt.Sprint(marker, hosts, comment, len(rest))
	c.Violation("ParseKnownHosts on multi-line input returns an entry that no well-formed line holds", det)
}

// ---------------------------------------------------------------------------------
// (5) totality

func (e *env) totality() {
	c := e.c
	maxLen := 2
	if c.Thorough {
		maxLen = 3
	}
	one := func(b []byte) {
		in := append([]byte(nil), b...)
		if pan, pv, _ := vf.Protect(func() {
			if pk, err := ssh.ParsePublicKey(in); err == nil {
				c.Violation("ParsePublicKey accepts a string of <=3 bytes", map[string]any{"input": hexClip(b), "type": pk.Type()})
			}
		}); pan {
			c.Violation("ParsePublicKey panics on a short string", map[string]any{"input": hexClip(b), "panic": fmt.Sprint(pv)})
		}
		if pan, pv, _ := vf.Protect(func() {
			if pk, _, _, _, err := ssh.ParseAuthorizedKey(in); err == nil {
				c.Violation("ParseAuthorizedKey accepts a string of <=3 bytes", map[string]any{"input": hexClip(b), "type": pk.Type()})
			}
		}); pan {
			c.Violation("ParseAuthorizedKey panics on a short string", map[string]any{"input": hexClip(b), "panic": fmt.Sprint(pv)})
		}
		if pan, pv, _ := vf.Protect(func() {
			if _, _, pk, _, _, err := ssh.ParseKnownHosts(in); err == nil {
				c.Violation("ParseKnownHosts accepts a string of <=3 bytes", map[string]any{"input": hexClip(b), "type": pk.Type()})
			}
		}); pan {
			c.Violation("ParseKnownHosts panics on a short string", map[string]any{"input": hexClip(b), "panic": fmt.Sprint(pv)})
		}
	}
	one(nil)
	c.Eval(3)
	c.ParallelFor(256, func(a int) {
		n := 0
		one([]byte{byte(a)})
		n += 3
		if maxLen >= 2 {
			for b := 0; b < 256; b++ {
				one([]byte{byte(a), byte(b)})
				n += 3
				if maxLen >= 3 {
					for d := 0; d < 256; d++ {
						one([]byte{byte(a), byte(b), byte(d)})
						n += 3
					}
				}
			}
		}
		c.Eval(n)
		c.Nontrivial(fmt.Sprintf("short/%d", a))
	})

	// single-byte faults of valid lines, compared with the reference procedure (the
	// substitutes keep the line within what the text grammar talks about)
	lks := e.lineKeys()
	k1 := lks[0].k.ref.Type + " " + kf.B64Encode(lks[0].k.blob)
	seedsAK := []string{
		k1 + " user@host",
		`restrict,command="echo \"hi, you\"",from="a,b" ` + k1 + " two words",
		"  " + lks[1].k.ref.Type + "\t" + kf.B64Encode(lks[1].k.blob) + "  c  ",
	}
	subs := []byte{' ', '\t', '"', '\\', ',', '#', '\n', '@', '=', 'A'}
	type job struct {
		seed string
		kh   bool
	}
	var jobs []job
	for _, s := range seedsAK {
		jobs = append(jobs, job{s, false})
	}
	for _, s := range []string{"host.example.com " + k1 + " note", "@cert-authority *.example.com,h2 " + k1, "[h]:22\t" + k1} {
		jobs = append(jobs, job{s, true})
	}
	c.ParallelFor(len(jobs), func(ji int) {
		j := jobs[ji]
		n := 0
		try := func(m, what string) {
			n++
			if j.kh {
				if strings.Contains(m, "\n") {
					e.cmpKnownHostsFile(m)
				} else {
					e.cmpKnownHostsLine(m, what)
				}
				return
			}
			if strings.Contains(m, "\n") {
				e.cmpAuthFile(m, what)
			} else {
				e.cmpAuthLine(m, what)
			}
		}
		for pos := 0; pos < len(j.seed); pos++ {
			try(j.seed[:pos]+j.seed[pos+1:], "delete one byte")
			for _, s := range subs {
				if j.seed[pos] != s {
					try(j.seed[:pos]+string(s)+j.seed[pos+1:], "substitute one byte")
				}
			}
			for _, s := range []byte{' ', '"', ','} {
				try(j.seed[:pos]+string(s)+j.seed[pos:], "insert one byte")
			}
			c.Nontrivial(fmt.Sprintf("linefault/%d/%d", ji, pos))
		}
		// bytes outside the text grammar: only totality and the declared-type rule
		for pos := 0; pos < len(j.seed); pos++ {
			for _, s := range []byte{0x00, 0x0b, 0x0c, '\r', 0x7f, 0x80, 0x85, 0xa0, 0xff} {
				m := j.seed[:pos] + string(s) + j.seed[pos+1:]
				n++
				e.totalOnly(m, j.kh)
			}
		}
		c.Eval(n)
	})
}

func (e *env) cmpAuthFile(f, what string) {
	c := e.c
	kl, off, want := kf.FirstAuthorizedKey(f)
	var out ssh.PublicKey
	var comment string
	var options []string
	var rest []byte
	var err error
	det := map[string]any{"file": clipLine(f), "case": what, "model_accepts": want}
	if pan, pv, _ := vf.Protect(func() { out, comment, options, rest, err = ssh.ParseAuthorizedKey([]byte(f)) }); pan {
		det["panic"] = fmt.Sprint(pv)
		c.Violation("ParseAuthorizedKey panics ("+what+")", det)
		return
	}
	if (err == nil) != want {
		c.Violation("ParseAuthorizedKey accept/reject differs from sshd's procedure ("+what+", line break inserted)", det)
		return
	}
	if err != nil {
		return
	}
	if !bytes.Equal(out.Marshal(), kl.Blob) || comment != kl.Comment || len(options) != len(kl.Options) || (len(options) > 0 && !reflect.DeepEqual(options, kl.Options)) || string(rest) != f[off:] {
		det["got"] = fmt.Sprint(comment, options, len(rest))
		c.Violation("ParseAuthorizedKey result differs from sshd's procedure ("+what+", line break inserted)", det)
	}
}

func (e *env) totalOnly(m string, kh bool) {
	c := e.c
	if kh {
		var pk ssh.PublicKey
		var err error
		if pan, pv, _ := vf.Protect(func() { _, _, pk, _, _, err = ssh.ParseKnownHosts([]byte(m)) }); pan {
			c.Violation("ParseKnownHosts panics (byte outside the text grammar)", map[string]any{"input": clipLine(fmt.Sprintf("%q", m)), "panic": fmt.Sprint(pv)})
		} else if err == nil && !declaredTypePrecedesBlob(m, pk) {
			c.Violation("ParseKnownHosts returns a key whose declared type does not match the blob (byte outside the text grammar)", clipLine(fmt.Sprintf("%q", m)))
		}
		return
	}
	var pk ssh.PublicKey
	var err error
	if pan, pv, _ := vf.Protect(func() { pk, _, _, _, err = ssh.ParseAuthorizedKey([]byte(m)) }); pan {
		c.Violation("ParseAuthorizedKey panics (byte outside the text grammar)", map[string]any{"input": clipLine(fmt.Sprintf("%q", m)), "panic": fmt.Sprint(pv)})
	} else if err == nil && !declaredTypePrecedesBlob(m, pk) {
		c.Violation("ParseAuthorizedKey returns a key whose declared type does not match the blob (byte outside the text grammar)", clipLine(fmt.Sprintf("%q", m)))
	}
}
