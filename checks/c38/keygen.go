package main

import (
	"bytes"
	"crypto/x509"
	"encoding/base64"
	"encoding/hex"
	"encoding/pem"
	"errors"
	"fmt"
	"os"
	"os/exec"
	"path/filepath"
	"reflect"
	"sort"
	"strconv"
	"strings"
	"sync"
	"time"

	"golang.org/x/crypto/ssh"
	kf "verif/ref/sshkeyfmt"
	"verif/vf"
)

// keygen wraps the ssh-keygen binary. It is an additional oracle: when the binary is
// missing every method is a no-op and the evidence records external_oracle: absent.
type keygen struct {
	c       *vf.Ctx
	present bool
	path    string
	dir     string
	mu      sync.Mutex
	seq     int
	genDone chan struct{}
	genErr  error
	pubs    []string // generated public key files
	certs   []string // generated certificate files
}

func newKeygen(c *vf.Ctx) *keygen {
	k := &keygen{c: c, genDone: make(chan struct{})}
	p, err := exec.LookPath("ssh-keygen")
	if err != nil {
		c.Set("external_oracle", "absent (ssh-keygen not found)")
		close(k.genDone)
		return k
	}
	base := os.Getenv("VERIF_WORK")
	if base == "" {
		base = os.TempDir()
	}
	d, err := os.MkdirTemp(base, "c38-keygen-")
	if err != nil {
		c.Set("external_oracle", "absent (no scratch directory: "+err.Error()+")")
		close(k.genDone)
		return k
	}
	k.present, k.path, k.dir = true, p, d
	c.Set("external_oracle", "ssh-keygen at "+p)
	return k
}

func (k *keygen) cleanup() {
	if k.dir != "" {
		os.RemoveAll(k.dir)
	}
}

func (k *keygen) run(args ...string) (string, string, error) {
	cmd := exec.Command(k.path, args...)
	cmd.Dir = k.dir
	var out, errb bytes.Buffer
	cmd.Stdout, cmd.Stderr = &out, &errb
	done := make(chan error, 1)
	if err := cmd.Start(); err != nil {
		return "", "", err
	}
	go func() { done <- cmd.Wait() }()
	select {
	case err := <-done:
		return out.String(), errb.String(), err
	case <-time.After(120 * time.Second):
		cmd.Process.Kill()
		return out.String(), errb.String(), errors.New("ssh-keygen did not finish (killed; budget, not an oracle)")
	}
}

func (k *keygen) tmpFile(content string) (string, error) {
	k.mu.Lock()
	k.seq++
	name := filepath.Join(k.dir, fmt.Sprintf("f%04d", k.seq))
	k.mu.Unlock()
	return name, os.WriteFile(name, []byte(content), 0o600)
}

type keygenLine struct {
	bits    int
	fp      string
	comment string
	typ     string
}

// parseFingerprintOutput parses lines "bits fingerprint comment (TYPE)".
func parseFingerprintOutput(out string) []keygenLine {
	var res []keygenLine
	for _, ln := range strings.Split(out, "\n") {
		f := strings.Fields(ln)
		if len(f) < 3 {
			continue
		}
		bits, err := strconv.Atoi(f[0])
		if err != nil {
			continue
		}
		last := f[len(f)-1]
		if !strings.HasPrefix(last, "(") || !strings.HasSuffix(last, ")") {
			continue
		}
		// comment: text between the fingerprint and the final "(TYPE)"
		i := strings.Index(ln, f[1]) + len(f[1])
		j := strings.LastIndex(ln, "(")
		res = append(res, keygenLine{bits: bits, fp: f[1], comment: strings.TrimSpace(ln[i:j]), typ: strings.Trim(last, "()")})
	}
	return res
}

// fingerprintFile writes lines to a file and returns what ssh-keygen -l prints for it.
func (k *keygen) fingerprintFile(lines []string, md5 bool) ([]keygenLine, error) {
	name, err := k.tmpFile(strings.Join(lines, "\n") + "\n")
	if err != nil {
		return nil, err
	}
	args := []string{"-l", "-f", name}
	if md5 {
		args = []string{"-l", "-E", "md5", "-f", name}
	}
	out, errs, err := k.run(args...)
	if err != nil && out == "" {
		return nil, fmt.Errorf("ssh-keygen -l failed: %v %s", err, strings.TrimSpace(errs))
	}
	return parseFingerprintOutput(out), nil
}

// sentinel key: a fixed Ed25519 blob that no test line uses
var sentinelBlob = kf.Encode(&kf.Key{Type: kf.ED25519, Pub: bytes.Repeat([]byte{0x5e}, 32)})

// acceptFile tells for every text line whether ssh-keygen -lf reads a key from it.
// Lines are interleaved with sentinel key lines; ssh-keygen prints one line per key it
// finds, in file order, so the outputs between two sentinels belong to the line between them.
func (k *keygen) acceptFile(texts []string) ([]bool, error) {
	sline := kf.ED25519 + " " + kf.B64Encode(sentinelBlob) + " sentinel"
	sfp := kf.FingerprintSHA256(sentinelBlob)
	var sb strings.Builder
	for _, t := range texts {
		sb.WriteString(sline + "\n" + t + "\n")
	}
	sb.WriteString(sline + "\n")
	name, err := k.tmpFile(sb.String())
	if err != nil {
		return nil, err
	}
	out, errs, err := k.run("-l", "-f", name)
	if err != nil && out == "" {
		return nil, fmt.Errorf("ssh-keygen -l failed: %v %s", err, strings.TrimSpace(errs))
	}
	acc := make([]bool, len(texts))
	idx := -1
	for _, r := range parseFingerprintOutput(out) {
		if r.fp == sfp {
			idx++
			continue
		}
		if idx < 0 || idx >= len(texts) {
			return nil, errors.New("ssh-keygen output out of step with the sentinel lines")
		}
		acc[idx] = true
	}
	if idx != len(texts) {
		return nil, fmt.Errorf("ssh-keygen printed %d sentinels, expected %d", idx+1, len(texts)+1)
	}
	return acc, nil
}

// startGeneration lets ssh-keygen write keys of every type it can generate, and
// certificates for them, in the background.
func (k *keygen) startGeneration() {
	if !k.present {
		return
	}
	go func() {
		defer close(k.genDone)
		type spec struct {
			name string
			args []string
		}
		specs := []spec{
			{"g-ed25519", []string{"-t", "ed25519"}},
			{"g-ecdsa256", []string{"-t", "ecdsa", "-b", "256"}},
			{"g-ecdsa384", []string{"-t", "ecdsa", "-b", "384"}},
			{"g-ecdsa521", []string{"-t", "ecdsa", "-b", "521"}},
			{"g-rsa2048", []string{"-t", "rsa", "-b", "2048"}},
			{"g-dsa", []string{"-t", "dsa"}},
		}
		if k.c.Thorough {
			specs = append(specs, spec{"g-rsa1024", []string{"-t", "rsa", "-b", "1024"}}, spec{"g-rsa3072", []string{"-t", "rsa", "-b", "3072"}},
				spec{"g-rsa4096", []string{"-t", "rsa", "-b", "4096"}}, spec{"g-ed25519-b", []string{"-t", "ed25519"}}, spec{"g-ecdsa256-b", []string{"-t", "ecdsa", "-b", "256"}})
		}
		var wg sync.WaitGroup
		var mu sync.Mutex
		for _, s := range specs {
			wg.Add(1)
			go func(s spec) {
				defer wg.Done()
				args := append([]string{"-q", "-N", "", "-C", "comment of " + s.name, "-f", s.name}, s.args...)
				if _, errs, err := k.run(args...); err != nil {
					mu.Lock()
					k.c.Add("ssh_keygen_generation_failures", 1)
					k.c.Set("ssh_keygen_generation_note_"+s.name, strings.TrimSpace(errs))
					mu.Unlock()
					return
				}
				mu.Lock()
				k.pubs = append(k.pubs, s.name+".pub")
				mu.Unlock()
			}(s)
		}
		wg.Wait()
		sort.Strings(k.pubs)
		// certificates: each generated key signed by three CAs with different signature algorithms
		has := func(n string) bool {
			for _, p := range k.pubs {
				if p == n+".pub" {
					return true
				}
			}
			return false
		}
		type ca struct {
			key  string
			args []string
		}
		var cas []ca
		if has("g-ed25519") {
			cas = append(cas, ca{"g-ed25519", nil})
		}
		if has("g-rsa2048") {
			cas = append(cas, ca{"g-rsa2048", []string{"-t", "rsa-sha2-256"}}, ca{"g-rsa2048", []string{"-t", "rsa-sha2-512"}})
		}
		if has("g-ecdsa384") {
			cas = append(cas, ca{"g-ecdsa384", nil})
		}
		for _, p := range k.pubs {
			base := strings.TrimSuffix(p, ".pub")
			rich := base == "g-ed25519" || base == "g-rsa2048" || k.c.Thorough
			for ci, a := range cas {
				if ci > 0 && !rich {
					continue
				}
				// a private copy of the public key per certificate, because ssh-keygen names the output after it
				for vi, variant := range [][]string{
					{"-I", "user id " + base, "-n", "alice,bob", "-z", "7", "-V", "20200101:20300101", "-O", "force-command=echo \"hi\", there", "-O", "source-address=192.0.2.0/24", "-O", "no-pty"},
					{"-h", "-I", "host-" + base, "-n", "host.example.com", "-V", "always:forever", "-z", "18446744073709551615"},
					{"-I", "", "-O", "clear", "-O", "extension:custom@example.com=v"},
				} {
					if (ci > 0 || !rich) && vi > 0 {
						continue
					}
					cp := fmt.Sprintf("%s-c%d-v%d", base, ci, vi)
					b, err := os.ReadFile(filepath.Join(k.dir, p))
					if err != nil {
						continue
					}
					if os.WriteFile(filepath.Join(k.dir, cp+".pub"), b, 0o600) != nil {
						continue
					}
					args := append([]string{"-q", "-s", a.key}, a.args...)
					args = append(args, variant...)
					args = append(args, cp+".pub")
					if _, errs, err := k.run(args...); err != nil {
						k.c.Add("ssh_keygen_signing_failures", 1)
						k.c.Set("ssh_keygen_signing_note", strings.TrimSpace(errs))
						continue
					}
					k.certs = append(k.certs, cp+"-cert.pub")
				}
			}
		}
	}()
}

// certInfo is what ssh-keygen -L prints.
type certInfo struct {
	typeLine   string
	keyID      string
	serial     string
	principals []string
	critical   map[string]string
	extensions map[string]string
	pubFP      string
	caFP       string
}

func parseCertListing(out string) certInfo {
	ci := certInfo{critical: map[string]string{}, extensions: map[string]string{}}
	section := ""
	for _, ln := range strings.Split(out, "\n") {
		t := strings.TrimSpace(ln)
		switch {
		case strings.HasPrefix(t, "Type:"):
			ci.typeLine, section = strings.TrimSpace(strings.TrimPrefix(t, "Type:")), ""
		case strings.HasPrefix(t, "Public key:"):
			f := strings.Fields(t)
			ci.pubFP, section = f[len(f)-1], ""
		case strings.HasPrefix(t, "Signing CA:"):
			f := strings.Fields(t)
			for _, x := range f {
				if strings.HasPrefix(x, "SHA256:") {
					ci.caFP = x
				}
			}
			section = ""
		case strings.HasPrefix(t, "Key ID:"):
			v := strings.TrimSpace(strings.TrimPrefix(t, "Key ID:"))
			ci.keyID, section = strings.TrimSuffix(strings.TrimPrefix(v, "\""), "\""), ""
		case strings.HasPrefix(t, "Serial:"):
			ci.serial, section = strings.TrimSpace(strings.TrimPrefix(t, "Serial:")), ""
		case strings.HasPrefix(t, "Valid:"):
			section = ""
		case strings.HasPrefix(t, "Principals:"):
			section = "p"
		case strings.HasPrefix(t, "Critical Options:"):
			section = "c"
		case strings.HasPrefix(t, "Extensions:"):
			section = "e"
		case t == "" || t == "(none)":
		default:
			switch section {
			case "p":
				ci.principals = append(ci.principals, t)
			case "c", "e":
				name, val, _ := strings.Cut(t, " ")
				if h, ok := strings.CutPrefix(val, "UNKNOWN OPTION: "); ok {
					// unknown options are printed as the hex of their data field: a string in a string
					h, _, _ = strings.Cut(h, " ")
					if raw, err := hex.DecodeString(h); err == nil && len(raw) >= 4 {
						val = string(raw[4:])
					}
				} else if strings.HasPrefix(val, "UNKNOWN FLAG OPTION") {
					val = ""
				}
				if section == "c" {
					ci.critical[name] = val
				} else {
					ci.extensions[name] = val
				}
			}
		}
	}
	return ci
}

// keygenKeys: "keys written by ssh-keygen parse to the same key".
func (e *env) keygenKeys() {
	k := e.skg
	c := e.c
	if !k.present {
		return
	}
	<-k.genDone
	c.Set("ssh_keygen_generated_keys", len(k.pubs))
	c.Set("ssh_keygen_generated_certificates", len(k.certs))
	files := append(append([]string(nil), k.pubs...), k.certs...)
	c.ParallelFor(len(files), func(fi int) { e.keygenFile(files[fi]) })
}

func (e *env) keygenFile(name string) {
	k := e.skg
	c := e.c
	for once := true; once; once = false {
		raw, err := os.ReadFile(filepath.Join(k.dir, name))
		if err != nil {
			continue
		}
		isCert := strings.HasSuffix(name, "-cert.pub")
		f := strings.Fields(string(raw))
		if len(f) < 2 {
			continue
		}
		blob, ok := kf.B64Decode(f[1])
		det := func(extra string) map[string]any {
			return map[string]any{"file": name, "content": clipLine(string(raw)), "detail": extra}
		}
		if !ok {
			c.Set("ssh_keygen_note_"+name, "base64 of the generated file not decodable by the reference")
			continue
		}
		ref, rerr := kf.Decode(blob)
		if rerr != nil || ref.Type != f[0] || kf.Validate(ref) == kf.Invalid {
			// the reference model disagrees with OpenSSH about OpenSSH's own file: a model error, say so loudly
			c.Violation("reference model cannot decode a file written by ssh-keygen", det(fmt.Sprint(rerr)))
			continue
		}
		var pk ssh.PublicKey
		var comment string
		var options []string
		rawIn := append([]byte(nil), raw...) // the parser gets a private copy; it must leave it untouched
		if pan, pv, _ := vf.Protect(func() { pk, comment, options, _, err = ssh.ParseAuthorizedKey(rawIn) }); pan {
			c.Violation("ParseAuthorizedKey panics on a file written by ssh-keygen", det(fmt.Sprint(pv)))
			continue
		}
		if !bytes.Equal(rawIn, raw) {
			c.Violation("ParseAuthorizedKey modifies the bytes it was given ("+ref.Type+")", det("file written by ssh-keygen"))
			continue
		}
		c.Eval(1)
		if err != nil {
			c.Violation("ParseAuthorizedKey rejects a file written by ssh-keygen ("+ref.Type+")", det(err.Error()))
			continue
		}
		wantComment := strings.TrimSpace(strings.SplitN(strings.TrimSpace(string(raw)), f[1], 2)[1])
		if d := matchKey(pk, ref); d != "" || !bytes.Equal(pk.Marshal(), blob) || comment != wantComment || len(options) != 0 {
			c.Violation("key written by ssh-keygen parses to a different key ("+ref.Type+")", det(d+" comment="+comment))
			continue
		}
		c.Nontrivial("skg-key/" + name)
		// fingerprints
		for _, md5 := range []bool{false, true} {
			args := []string{"-l", "-f", name}
			if md5 {
				args = []string{"-l", "-E", "md5", "-f", name}
			}
			out, _, _ := k.run(args...)
			res := parseFingerprintOutput(out)
			if len(res) != 1 {
				c.Set("ssh_keygen_note_fp_"+name, "unexpected -l output: "+strings.TrimSpace(out))
				continue
			}
			goFP := ssh.FingerprintSHA256(pk)
			plainFP := goFP
			if md5 {
				goFP = "MD5:" + ssh.FingerprintLegacyMD5(pk)
				plainFP = goFP
			}
			if ct, ok := pk.(*ssh.Certificate); ok {
				plainFP = ssh.FingerprintSHA256(ct.Key)
				if md5 {
					plainFP = "MD5:" + ssh.FingerprintLegacyMD5(ct.Key)
				}
			}
			c.Eval(1)
			if goFP != res[0].fp {
				cls := "fingerprint differs from ssh-keygen -l (" + ref.Type + ")"
				if isCert && plainFP == res[0].fp {
					cls = certFingerprintClass
				}
				c.Violation(cls, map[string]any{"file": name, "go": goFP, "ssh-keygen": res[0].fp})
			}
			if plainFP != res[0].fp {
				c.Violation("fingerprint of the (certified) key differs from ssh-keygen -l ("+ref.Type+")", map[string]any{"file": name, "go": plainFP, "ssh-keygen": res[0].fp})
			}
			if !md5 && ref.PlainType() == kf.RSA && res[0].bits != ref.N.BitLen() {
				c.Violation("reference/ssh-keygen disagree on RSA size", det(fmt.Sprint(res[0].bits, ref.N.BitLen())))
			}
		}
		if isCert {
			e.compareCertListing(name, pk.(*ssh.Certificate))
		} else {
			e.comparePKIX(name, pk, ref)
		}
	}
}

func (e *env) compareCertListing(name string, ct *ssh.Certificate) {
	c := e.c
	out, _, err := e.skg.run("-L", "-f", name)
	if err != nil {
		c.Set("ssh_keygen_note_L_"+name, err.Error())
		return
	}
	ci := parseCertListing(out)
	c.Eval(1)
	det := map[string]any{"file": name, "listing": out}
	wantType := "user"
	if ct.CertType == ssh.HostCert {
		wantType = "host"
	}
	switch {
	case !strings.HasPrefix(ci.typeLine, ct.Type()+" "+wantType):
		c.Violation("certificate type differs from ssh-keygen -L", det)
	case ci.keyID != ct.KeyId:
		c.Violation("certificate key id differs from ssh-keygen -L", det)
	case ci.serial != strconv.FormatUint(ct.Serial, 10):
		c.Violation("certificate serial differs from ssh-keygen -L", det)
	case len(ci.principals) != len(ct.ValidPrincipals) || (len(ci.principals) > 0 && !reflect.DeepEqual(ci.principals, ct.ValidPrincipals)):
		c.Violation("certificate principals differ from ssh-keygen -L", det)
	case !sameMap(ci.critical, ct.CriticalOptions):
		det["go"] = ct.CriticalOptions
		c.Violation("certificate critical options differ from ssh-keygen -L", det)
	case !sameMap(ci.extensions, ct.Extensions):
		det["go"] = ct.Extensions
		c.Violation("certificate extensions differ from ssh-keygen -L", det)
	case ci.pubFP != ssh.FingerprintSHA256(ct.Key):
		c.Violation("certified key fingerprint differs from ssh-keygen -L", det)
	case ci.caFP != ssh.FingerprintSHA256(ct.SignatureKey):
		c.Violation("CA key fingerprint differs from ssh-keygen -L", det)
	}
	c.Nontrivial("skg-L/" + name)
}

// comparePKIX: ssh-keygen exports the key as SubjectPublicKeyInfo; crypto/x509 decodes
// that independently of any SSH code.
func (e *env) comparePKIX(name string, pk ssh.PublicKey, ref *kf.Key) {
	c := e.c
	out, _, err := e.skg.run("-e", "-m", "PKCS8", "-f", name)
	if err != nil {
		c.Add("pkix_export_unsupported", 1)
		return
	}
	blk, _ := pem.Decode([]byte(out))
	if blk == nil {
		return
	}
	pub, err := x509.ParsePKIXPublicKey(blk.Bytes)
	if err != nil {
		c.Add("pkix_parse_unsupported", 1)
		return
	}
	npk, err := ssh.NewPublicKey(pub)
	c.Eval(1)
	if err != nil {
		c.Violation("NewPublicKey rejects the PKIX export of an ssh-keygen key", map[string]any{"file": name, "err": err.Error()})
		return
	}
	if !bytes.Equal(npk.Marshal(), pk.Marshal()) {
		c.Violation("key parsed from the ssh-keygen file differs from its PKIX export ("+ref.Type+")", map[string]any{"file": name})
	}
	c.Nontrivial("skg-pkix/" + name)
}

// lenientB64 decodes like a tolerant reader (used only to locate a blob inside a line).
func lenientB64(s string) ([]byte, bool) {
	b, err := base64.StdEncoding.DecodeString(s)
	return b, err == nil
}
