package main

import (
	"crypto/dsa"
	"crypto/ecdsa"
	"crypto/ed25519"
	"crypto/elliptic"
	"crypto/rsa"
	"crypto/x509"
	"encoding/asn1"
	"encoding/pem"
	"fmt"
	"math/big"

	"golang.org/x/crypto/ssh/testdata"
	kf "verif/ref/sshkeyfmt"
	"verif/ref/sshwire"
	"verif/vf"
)

// testKey is one public key of the enumerated key set: its reference description,
// the blob the specification prescribes for it, and (for the plain non-sk formats)
// the crypto/* value that ssh.NewPublicKey accepts.
type testKey struct {
	name   string
	ref    *kf.Key
	blob   []byte
	crypto any  // *rsa.PublicKey, *dsa.PublicKey, *ecdsa.PublicKey, ed25519.PublicKey or nil
	rep    bool // representative of its format (used for the fault enumeration / certificates)
	signed bool // certificate with a genuine CA signature
}

var (
	caPriv ed25519.PrivateKey
	caKey  *testKey
)

func mustPEM(name string) *pem.Block {
	b, _ := pem.Decode(testdata.PEMBytes[name])
	if b == nil {
		panic("testdata PEM " + name + " missing")
	}
	return b
}

func pointBytes(curve elliptic.Curve, x, y *big.Int) []byte {
	size := (curve.Params().BitSize + 7) / 8
	out := make([]byte, 1+2*size)
	out[0] = 4
	x.FillBytes(out[1 : 1+size])
	y.FillBytes(out[1+size:])
	return out
}

func curveName(c elliptic.Curve) string {
	return fmt.Sprintf("nistp%d", c.Params().BitSize)
}

func buildKeys(c *vf.Ctx) []*testKey {
	var keys []*testKey
	add := func(name string, ref *kf.Key, crypto any, rep bool) *testKey {
		k := &testKey{name: name, ref: ref, blob: kf.Encode(ref), crypto: crypto, rep: rep}
		keys = append(keys, k)
		return k
	}

	// ---- RSA: the two real test keys, then synthetic moduli of boundary sizes (a public
	// key blob is just two numbers; primality does not matter to the format)
	for i, n := range []string{"rsa", "ca"} {
		priv, err := x509.ParsePKCS1PrivateKey(mustPEM(n).Bytes)
		if err != nil {
			panic(err)
		}
		pub := &priv.PublicKey
		add("rsa-testdata-"+n, &kf.Key{Type: kf.RSA, E: big.NewInt(int64(pub.E)), N: pub.N}, pub, i == 0)
	}
	rsaBits := []int{1024, 1025, 1031, 2047, 2048, 2049, 3072, 4096, 8192, 16384}
	for _, bits := range rsaBits {
		nb := (bits + 7) / 8
		raw := c.Bytes("rsa-n", bits, nb)
		top := uint(bits - 8*(nb-1)) // number of bits in the leading byte, 1..8
		raw[0] = raw[0]&byte(1<<top-1) | byte(1<<(top-1))
		raw[nb-1] |= 1
		n := new(big.Int).SetBytes(raw)
		if n.BitLen() != bits {
			panic("rsa modulus construction")
		}
		add(fmt.Sprintf("rsa-synthetic-%d", bits), &kf.Key{Type: kf.RSA, E: big.NewInt(65537), N: n}, &rsa.PublicKey{E: 65537, N: n}, false)
	}
	for _, e := range []int64{3, 5, 17, 257, 65535, 0xFFFFFF} {
		raw := c.Bytes("rsa-n-e", int(e), 256)
		raw[0] |= 0x80
		raw[255] |= 1
		n := new(big.Int).SetBytes(raw)
		add(fmt.Sprintf("rsa-e-%d", e), &kf.Key{Type: kf.RSA, E: big.NewInt(e), N: n}, &rsa.PublicKey{E: int(e), N: n}, false)
	}

	// ---- DSA: the test key (OpenSSL "DSA PRIVATE KEY": SEQUENCE{version,p,q,g,y,x}) and Y at the group's ends
	var dk struct {
		Version       int
		P, Q, G, Y, X *big.Int
	}
	if _, err := asn1.Unmarshal(mustPEM("dsa").Bytes, &dk); err != nil {
		panic(err)
	}
	mkdsa := func(y *big.Int) (*kf.Key, *dsa.PublicKey) {
		return &kf.Key{Type: kf.DSA, P: dk.P, Q: dk.Q, G: dk.G, Y: y}, &dsa.PublicKey{Parameters: dsa.Parameters{P: dk.P, Q: dk.Q, G: dk.G}, Y: y}
	}
	r, p := mkdsa(dk.Y)
	add("dsa-testdata", r, p, true)
	r, p = mkdsa(big.NewInt(1))
	add("dsa-y-1", r, p, false)
	r, p = mkdsa(new(big.Int).Sub(dk.P, big.NewInt(1)))
	add("dsa-y-p-1", r, p, false)

	// ---- ECDSA: test keys, small multiples of the base point, points with a leading zero byte in X resp. Y
	curves := []struct {
		c    elliptic.Curve
		typ  string
		test string
	}{{elliptic.P256(), kf.ECDSA256, "ecdsap256"}, {elliptic.P384(), kf.ECDSA384, "ecdsap384"}, {elliptic.P521(), kf.ECDSA521, "ecdsap521"}}
	var p256points [][]byte
	for _, cv := range curves {
		priv, err := x509.ParseECPrivateKey(mustPEM(cv.test).Bytes)
		if err != nil {
			panic(err)
		}
		mk := func(name string, x, y *big.Int, rep bool) {
			pt := pointBytes(cv.c, x, y)
			add(name, &kf.Key{Type: cv.typ, Curve: curveName(cv.c), Point: pt}, &ecdsa.PublicKey{Curve: cv.c, X: x, Y: y}, rep)
			if cv.typ == kf.ECDSA256 {
				p256points = append(p256points, pt)
			}
		}
		mk(cv.typ+"-testdata", priv.X, priv.Y, true)
		size := (cv.c.Params().BitSize + 7) / 8
		lim := new(big.Int).Lsh(big.NewInt(1), uint(8*(size-1)))
		var haveX0, haveY0 bool
		for k := int64(1); k <= 4000 && !(k > 3 && haveX0 && haveY0); k++ {
			x, y := cv.c.ScalarBaseMult(big.NewInt(k).Bytes())
			x0, y0 := x.Cmp(lim) < 0, y.Cmp(lim) < 0
			switch {
			case k <= 3:
				mk(fmt.Sprintf("%s-%dG", cv.typ, k), x, y, false)
			case x0 && !haveX0:
				haveX0 = true
				mk(fmt.Sprintf("%s-%dG-x-leading-zero", cv.typ, k), x, y, false)
			case y0 && !haveY0:
				haveY0 = true
				mk(fmt.Sprintf("%s-%dG-y-leading-zero", cv.typ, k), x, y, false)
			}
		}
	}
	if other, err := x509.ParseECPrivateKey(mustPEM("ecdsa").Bytes); err == nil {
		pt := pointBytes(other.Curve, other.X, other.Y)
		add("ecdsa-testdata-2", &kf.Key{Type: kf.ECDSA256, Curve: "nistp256", Point: pt}, &other.PublicKey, false)
	}

	// ---- Ed25519: a real key and the value alphabet (the format does not validate the point)
	seed := c.Bytes("ed25519-seed", 0, 32)
	real := ed25519.NewKeyFromSeed(seed).Public().(ed25519.PublicKey)
	add("ed25519-real", &kf.Key{Type: kf.ED25519, Pub: []byte(real)}, real, true)
	// the certificate authority key used for properly signed certificates
	caPriv = ed25519.NewKeyFromSeed(c.Bytes("ed25519-ca-seed", 0, 32))
	caPub := caPriv.Public().(ed25519.PublicKey)
	caKey = add("ed25519-ca", &kf.Key{Type: kf.ED25519, Pub: []byte(caPub)}, caPub, false)
	for i, v := range c.ValueClasses("ed25519", 32, c.V()) {
		add(fmt.Sprintf("ed25519-class%d", i), &kf.Key{Type: kf.ED25519, Pub: v}, ed25519.PublicKey(v), false)
	}

	// ---- security-key formats (PROTOCOL.u2f): same key material plus an application string
	apps := []string{"ssh:", "", "ssh:" + string(c.Bytes("app", 0, 90)), "ssh:ü,\" x"}
	for ai, app := range apps {
		for pi, pt := range p256points[:3] {
			add(fmt.Sprintf("sk-ecdsa-app%d-pt%d", ai, pi), &kf.Key{Type: kf.SKECDSA, Curve: "nistp256", Point: pt, App: app}, nil, ai == 0 && pi == 0)
		}
		add(fmt.Sprintf("sk-ed25519-app%d", ai), &kf.Key{Type: kf.SKED25519, Pub: []byte(real), App: app}, nil, ai == 0)
	}
	return keys
}

// signature builds the contents of a certificate's signature field: string format,
// string blob and, for the sk formats, byte flags + uint32 counter. Parsing a
// certificate does not verify it, so the blob only has to have the right shape.
func signature(c *vf.Ctx, format string) []byte {
	var blob []byte
	var rest []byte
	switch format {
	case "ssh-rsa", "rsa-sha2-256", "rsa-sha2-512":
		blob = c.Bytes("sig-rsa", 0, 256)
	case kf.ECDSA256, kf.ECDSA384, kf.ECDSA521, kf.SKECDSA:
		r := new(big.Int).SetBytes(c.Bytes("sig-r", 0, 32))
		s := new(big.Int).SetBytes(append([]byte{0x80}, c.Bytes("sig-s", 0, 31)...))
		blob = append(sshwire.EncodeMpint(r), sshwire.EncodeMpint(s)...)
	case kf.ED25519, kf.SKED25519:
		blob = c.Bytes("sig-ed", 0, 64)
	case kf.DSA:
		blob = c.Bytes("sig-dsa", 0, 40)
	}
	if format == kf.SKECDSA || format == kf.SKED25519 {
		rest = []byte{0x01, 0, 0, 0, 42}
	}
	out := append(sshwire.EncodeString([]byte(format)), sshwire.EncodeString(blob)...)
	return append(out, rest...)
}

type certVariant struct {
	name string
	c    kf.Cert
}

func certVariants(c *vf.Ctx) []certVariant {
	nonce := c.Bytes("nonce", 0, 32)
	full := kf.Cert{Nonce: nonce, Serial: 7, CertType: 1, KeyID: "user key", Principals: []string{"alice", "bob", "carol"},
		ValidAfter: 0x5e0be100, ValidBefore: 0x70dbd880,
		CriticalOptions: []kf.Option{{Name: "force-command", Value: "echo \"hi\", there"}, {Name: "source-address", Value: "192.0.2.0/24,2001:db8::/32"}},
		Extensions:      []kf.Option{{Name: "permit-X11-forwarding"}, {Name: "permit-agent-forwarding"}, {Name: "permit-port-forwarding"}, {Name: "permit-pty"}, {Name: "permit-user-rc"}}}
	minimal := kf.Cert{Nonce: []byte{}, CertType: 2, ValidBefore: 0xffffffffffffffff}
	extreme := kf.Cert{Nonce: c.Bytes("nonce", 1, 16), Serial: 0xffffffffffffffff, CertType: 2, KeyID: "", Principals: []string{"host.example.com"},
		ValidAfter: 0xffffffffffffffff, ValidBefore: 0, Extensions: []kf.Option{{Name: "custom@example.com", Value: "v"}}, Reserved: []byte{}}
	oneEach := kf.Cert{Nonce: nonce, Serial: 1 << 32, CertType: 1, KeyID: "k", Principals: []string{""}, ValidAfter: 1, ValidBefore: 2,
		CriticalOptions: []kf.Option{{Name: "verify-required"}}, Extensions: []kf.Option{{Name: "a", Value: "1"}, {Name: "b"}}}
	return []certVariant{{"full", full}, {"minimal", minimal}, {"extreme", extreme}, {"one-each", oneEach}}
}

// buildCerts: every representative plain key x every CA format/signature algorithm x
// field variants (all variants with an Ed25519 CA, the "full" variant with every CA).
func buildCerts(c *vf.Ctx, keys []*testKey) []*testKey {
	var reps []*testKey
	byType := map[string]*testKey{}
	for _, k := range keys {
		if k.rep {
			reps = append(reps, k)
			byType[k.ref.Type] = k
		}
	}
	type ca struct {
		key    *testKey
		format string
	}
	cas := []ca{{caKey, kf.ED25519}, {byType[kf.RSA], "ssh-rsa"}, {byType[kf.RSA], "rsa-sha2-256"}, {byType[kf.RSA], "rsa-sha2-512"},
		{byType[kf.ECDSA256], kf.ECDSA256}, {byType[kf.ECDSA384], kf.ECDSA384}, {byType[kf.ECDSA521], kf.ECDSA521}, {byType[kf.DSA], kf.DSA},
		{byType[kf.SKECDSA], kf.SKECDSA}, {byType[kf.SKED25519], kf.SKED25519}}
	var out []*testKey
	for _, k := range reps {
		for ci, a := range cas {
			for vi, v := range certVariants(c) {
				if ci != 0 && vi != 0 {
					continue
				}
				cert := v.c
				cert.SignatureKey = a.key.blob
				cert.Signature = signature(c, a.format)
				ref := *k.ref
				ref.Type = kf.CertType(k.ref.Type)
				ref.Cert = &cert
				if ci == 0 {
					// a real CA signature (OpenSSH verifies it when it loads a certificate)
					sig := ed25519.Sign(caPriv, kf.SignedBytes(&ref))
					cert.Signature = append(sshwire.EncodeString([]byte(kf.ED25519)), sshwire.EncodeString(sig)...)
				}
				out = append(out, &testKey{name: fmt.Sprintf("cert[%s]/ca=%s/%s", k.name, a.format, v.name), ref: &ref, blob: kf.Encode(&ref), rep: ci == 0 && vi == 0, signed: ci == 0})
			}
		}
	}
	return out
}
