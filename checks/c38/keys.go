package main

import (
	"crypto/dsa"
	"crypto/ecdsa"
	"crypto/ed25519"
	"crypto/elliptic"
	"crypto/rsa"
	"crypto/x509"
	"encoding/asn1"
	"encoding/pem"
	"fmt"
	"math/big"
	"strings"

	"golang.org/x/crypto/ssh/testdata"
	kf "verif/ref/sshkeyfmt"
	"verif/ref/sshwire"
	"verif/vf"
)

// testKey is one public key of the enumerated key set: its reference description,
// the blob the specification prescribes for it, and (for the plain non-sk formats)
// the crypto/* value that ssh.NewPublicKey accepts.
type testKey struct {
	name   string
	ref    *kf.Key
	blob   []byte
	crypto any  // *rsa.PublicKey, *dsa.PublicKey, *ecdsa.PublicKey, ed25519.PublicKey or nil
	rep    bool // representative of its format (used for the fault enumeration / certificates)
	signed bool // certificate with a genuine CA signature
	// edge: the key has a field at an encoding boundary (fixed-width coordinate or key with
	// leading zero bytes, mpint with the top bit set resp. clear at a byte boundary). Every
	// edge key is also certified and used as a CA key inside a certificate.
	edge bool
}

var (
	caPriv ed25519.PrivateKey
	caKey  *testKey
)

func mustPEM(name string) *pem.Block {
	b, _ := pem.Decode(testdata.PEMBytes[name])
	if b == nil {
		panic("testdata PEM " + name + " missing")
	}
	return b
}

func pointBytes(curve elliptic.Curve, x, y *big.Int) []byte {
	size := (curve.Params().BitSize + 7) / 8
	out := make([]byte, 1+2*size)
	out[0] = 4
	x.FillBytes(out[1 : 1+size])
	y.FillBytes(out[1+size:])
	return out
}

func curveName(c elliptic.Curve) string {
	return fmt.Sprintf("nistp%d", c.Params().BitSize)
}

func buildKeys(c *vf.Ctx) []*testKey {
	var keys []*testKey
	add := func(name string, ref *kf.Key, crypto any, rep bool) *testKey {
		k := &testKey{name: name, ref: ref, blob: kf.Encode(ref), crypto: crypto, rep: rep}
		keys = append(keys, k)
		return k
	}
	addEdge := func(name string, ref *kf.Key, crypto any) *testKey {
		k := add(name, ref, crypto, false)
		k.edge = true
		return k
	}

	// ---- RSA: the two real test keys, then synthetic moduli of boundary sizes (a public
	// key blob is just two numbers; primality does not matter to the format)
	for i, n := range []string{"rsa", "ca"} {
		priv, err := x509.ParsePKCS1PrivateKey(mustPEM(n).Bytes)
		if err != nil {
			panic(err)
		}
		pub := &priv.PublicKey
		add("rsa-testdata-"+n, &kf.Key{Type: kf.RSA, E: big.NewInt(int64(pub.E)), N: pub.N}, pub, i == 0)
	}
	rsaBits := []int{1024, 1025, 1031, 2047, 2048, 2049, 3072, 4096, 8192, 16384}
	for _, bits := range rsaBits {
		nb := (bits + 7) / 8
		raw := c.Bytes("rsa-n", bits, nb)
		top := uint(bits - 8*(nb-1)) // number of bits in the leading byte, 1..8
		raw[0] = raw[0]&byte(1<<top-1) | byte(1<<(top-1))
		raw[nb-1] |= 1
		n := new(big.Int).SetBytes(raw)
		if n.BitLen() != bits {
			panic("rsa modulus construction")
		}
		k := add(fmt.Sprintf("rsa-synthetic-%d", bits), &kf.Key{Type: kf.RSA, E: big.NewInt(65537), N: n}, &rsa.PublicKey{E: 65537, N: n}, false)
		// top bit of the leading byte set (00 pad byte) / clear (no pad) / one bit into the next byte
		k.edge = bits == 1024 || bits == 1025 || bits == 2047 || bits == 2048 || bits == 2049
	}
	// exponents on both sides of every mpint pad-byte boundary (0x7f|0x81, 0x7fff|0x8001, 0x7fffff|0x800001)
	for _, e := range []int64{3, 5, 17, 0x7f, 0x81, 0xff, 257, 0x7fff, 0x8001, 65535, 0x7fffff, 0x800001, 0xFFFFFF} {
		raw := c.Bytes("rsa-n-e", int(e), 256)
		raw[0] |= 0x80
		if e&2 != 0 {
			raw[0] &= 0x7f // and the modulus without pad byte for half of them
			raw[0] |= 0x40
		}
		raw[255] |= 1
		n := new(big.Int).SetBytes(raw)
		addEdge(fmt.Sprintf("rsa-e-%#x", e), &kf.Key{Type: kf.RSA, E: big.NewInt(e), N: n}, &rsa.PublicKey{E: int(e), N: n})
	}

	// ---- DSA: the test key (OpenSSL "DSA PRIVATE KEY": SEQUENCE{version,p,q,g,y,x}) and Y at the group's ends
	var dk struct {
		Version       int
		P, Q, G, Y, X *big.Int
	}
	if _, err := asn1.Unmarshal(mustPEM("dsa").Bytes, &dk); err != nil {
		panic(err)
	}
	mkdsa := func(y *big.Int) (*kf.Key, *dsa.PublicKey) {
		return &kf.Key{Type: kf.DSA, P: dk.P, Q: dk.Q, G: dk.G, Y: y}, &dsa.PublicKey{Parameters: dsa.Parameters{P: dk.P, Q: dk.Q, G: dk.G}, Y: y}
	}
	r, p := mkdsa(dk.Y)
	add("dsa-testdata", r, p, true)
	r, p = mkdsa(big.NewInt(1))
	add("dsa-y-1", r, p, false)
	r, p = mkdsa(new(big.Int).Sub(dk.P, big.NewInt(1)))
	add("dsa-y-p-1", r, p, false)
	// p (1024 bits) and q (160 bits) always have the top bit of their leading byte set, i.e. always
	// carry the 00 pad byte; g and y range over the group, so give them every pad-boundary shape:
	// bit lengths 8k-1 (no pad), 8k (pad), 8k+1 around 1016 and 1024, and one-byte values 7f|80|ff
	dsaVals := map[string]*big.Int{"0x7f": big.NewInt(0x7f), "0x80": big.NewInt(0x80), "0xff": big.NewInt(0xff), "0x100": big.NewInt(0x100)}
	for _, bl := range []int{1015, 1016, 1017, 1023} {
		raw := c.Bytes("dsa-val", bl, (bl+7)/8)
		top := uint(bl - 8*((bl+7)/8-1))
		raw[0] = raw[0]&byte(1<<top-1) | byte(1<<(top-1))
		v := new(big.Int).SetBytes(raw)
		if v.BitLen() != bl || v.Cmp(dk.P) >= 0 {
			panic("dsa value construction")
		}
		dsaVals[fmt.Sprintf("bitlen%d", bl)] = v
	}
	for _, name := range []string{"0x7f", "0x80", "0xff", "0x100", "bitlen1015", "bitlen1016", "bitlen1017", "bitlen1023"} {
		v := dsaVals[name]
		addEdge("dsa-y-"+name, &kf.Key{Type: kf.DSA, P: dk.P, Q: dk.Q, G: dk.G, Y: v}, &dsa.PublicKey{Parameters: dsa.Parameters{P: dk.P, Q: dk.Q, G: dk.G}, Y: v})
		addEdge("dsa-g-"+name, &kf.Key{Type: kf.DSA, P: dk.P, Q: dk.Q, G: v, Y: dk.Y}, &dsa.PublicKey{Parameters: dsa.Parameters{P: dk.P, Q: dk.Q, G: v}, Y: dk.Y})
	}

	// ---- ECDSA: test keys, small multiples of the base point, points with a leading zero byte in X resp. Y
	curves := []struct {
		c    elliptic.Curve
		typ  string
		test string
	}{{elliptic.P256(), kf.ECDSA256, "ecdsap256"}, {elliptic.P384(), kf.ECDSA384, "ecdsap384"}, {elliptic.P521(), kf.ECDSA521, "ecdsap521"}}
	// Coordinates are written with a fixed width (SEC1), so a coordinate whose leading byte(s)
	// are zero is the boundary case. The scalars below are the smallest multiples k*G (k > 3) of
	// the base point whose X only / Y only / X and Y / X by two bytes / Y by two bytes are
	// short; found by walking G, 2G, 3G, ... once, and re-verified here on every run.
	shortScalars := map[string][5]int64{ // xshort, yshort, bothshort, x2short, y2short
		kf.ECDSA256: {379, 43, 49350, 40393, 2376},
		kf.ECDSA384: {197, 176, 6394, 14971, 93150},
		kf.ECDSA521: {5, 9, 4, 273, 73},
	}
	type p256pt struct {
		class string
		pt    []byte
	}
	var p256points []p256pt
	for _, cv := range curves {
		priv, err := x509.ParseECPrivateKey(mustPEM(cv.test).Bytes)
		if err != nil {
			panic(err)
		}
		mk := func(class string, x, y *big.Int, rep, edge bool) {
			pt := pointBytes(cv.c, x, y)
			k := add(cv.typ+"-"+class, &kf.Key{Type: cv.typ, Curve: curveName(cv.c), Point: pt}, &ecdsa.PublicKey{Curve: cv.c, X: x, Y: y}, rep)
			k.edge = edge
			if cv.typ == kf.ECDSA256 {
				p256points = append(p256points, p256pt{class, pt})
			}
		}
		mk("testdata", priv.X, priv.Y, true, false)
		size := (cv.c.Params().BitSize + 7) / 8
		lim1 := new(big.Int).Lsh(big.NewInt(1), uint(8*(size-1)))
		lim2 := new(big.Int).Lsh(big.NewInt(1), uint(8*(size-2)))
		for k := int64(1); k <= 3; k++ {
			x, y := cv.c.ScalarBaseMult(big.NewInt(k).Bytes())
			mk(fmt.Sprintf("%dG", k), x, y, false, false)
		}
		for ci, class := range []string{"x-short", "y-short", "x-and-y-short", "x-two-bytes-short", "y-two-bytes-short"} {
			k := shortScalars[cv.typ][ci]
			x, y := cv.c.ScalarBaseMult(big.NewInt(k).Bytes())
			xs, ys := x.Cmp(lim1) < 0, y.Cmp(lim1) < 0
			ok := map[int]bool{0: xs && !ys, 1: ys && !xs, 2: xs && ys, 3: x.Cmp(lim2) < 0, 4: y.Cmp(lim2) < 0}[ci]
			if !ok {
				panic(fmt.Sprintf("%s: %dG is not in class %s", cv.typ, k, class))
			}
			mk(fmt.Sprintf("%dG-%s", k, class), x, y, false, true)
		}
	}
	if other, err := x509.ParseECPrivateKey(mustPEM("ecdsa").Bytes); err == nil {
		pt := pointBytes(other.Curve, other.X, other.Y)
		add("ecdsa-testdata-2", &kf.Key{Type: kf.ECDSA256, Curve: "nistp256", Point: pt}, &other.PublicKey, false)
	}

	// ---- Ed25519: a real key and the value alphabet (the format does not validate the point)
	seed := c.Bytes("ed25519-seed", 0, 32)
	real := ed25519.NewKeyFromSeed(seed).Public().(ed25519.PublicKey)
	add("ed25519-real", &kf.Key{Type: kf.ED25519, Pub: []byte(real)}, real, true)
	// the certificate authority key used for properly signed certificates
	caPriv = ed25519.NewKeyFromSeed(c.Bytes("ed25519-ca-seed", 0, 32))
	caPub := caPriv.Public().(ed25519.PublicKey)
	caKey = add("ed25519-ca", &kf.Key{Type: kf.ED25519, Pub: []byte(caPub)}, caPub, false)
	for i, v := range c.ValueClasses("ed25519", 32, c.V()) {
		add(fmt.Sprintf("ed25519-class%d", i), &kf.Key{Type: kf.ED25519, Pub: v}, ed25519.PublicKey(v), false)
	}
	// fixed-width 32-byte keys with zero bytes at either end (a big-number round trip would lose them)
	edShapes := map[string][]byte{}
	for _, z := range []struct {
		name        string
		lead, trail int
	}{{"lead-1-zero", 1, 0}, {"lead-2-zeros", 2, 0}, {"trail-1-zero", 0, 1}, {"lead-and-trail-zero", 1, 1}, {"lead-31-zeros", 31, 0}} {
		v := c.Bytes("ed25519-z", z.lead*40+z.trail, 32)
		for i := range v {
			if v[i] == 0 {
				v[i] = 1
			}
		}
		for i := 0; i < z.lead; i++ {
			v[i] = 0
		}
		for i := 0; i < z.trail; i++ {
			v[31-i] = 0
		}
		edShapes[z.name] = v
	}
	edNames := []string{"lead-1-zero", "lead-2-zeros", "trail-1-zero", "lead-and-trail-zero", "lead-31-zeros"}
	for _, n := range edNames {
		addEdge("ed25519-"+n, &kf.Key{Type: kf.ED25519, Pub: edShapes[n]}, ed25519.PublicKey(edShapes[n]))
	}

	// ---- security-key formats (PROTOCOL.u2f): same key material plus an application string.
	// Every point class of P-256 (incl. the short-coordinate ones) with the usual application,
	// every application string with three ordinary points; same for sk-ed25519.
	apps := []string{"ssh:", "", "ssh:" + string(c.Bytes("app", 0, 90)), "ssh:ü,\" x"}
	for pi, pt := range p256points {
		short := strings.Contains(pt.class, "short")
		k := add("sk-ecdsa-"+pt.class, &kf.Key{Type: kf.SKECDSA, Curve: "nistp256", Point: pt.pt, App: apps[0]}, nil, pi == 0)
		k.edge = short
	}
	for ai, app := range apps[1:] {
		for _, pt := range p256points[:3] {
			add(fmt.Sprintf("sk-ecdsa-app%d-%s", ai+1, pt.class), &kf.Key{Type: kf.SKECDSA, Curve: "nistp256", Point: pt.pt, App: app}, nil, false)
		}
		// and a short-coordinate point with an unusual application
		add(fmt.Sprintf("sk-ecdsa-app%d-%s", ai+1, p256points[4+ai].class), &kf.Key{Type: kf.SKECDSA, Curve: "nistp256", Point: p256points[4+ai].pt, App: app}, nil, false)
	}
	for ai, app := range apps {
		add(fmt.Sprintf("sk-ed25519-app%d", ai), &kf.Key{Type: kf.SKED25519, Pub: []byte(real), App: app}, nil, ai == 0)
	}
	for _, n := range edNames {
		addEdge("sk-ed25519-"+n, &kf.Key{Type: kf.SKED25519, Pub: edShapes[n], App: apps[0]}, nil)
	}
	return keys
}

// signature builds the contents of a certificate's signature field: string format,
// string blob and, for the sk formats, byte flags + uint32 counter. Parsing a
// certificate does not verify it, so the blob only has to have the right shape.
func signature(c *vf.Ctx, format string) []byte {
	var blob []byte
	var rest []byte
	switch format {
	case "ssh-rsa", "rsa-sha2-256", "rsa-sha2-512":
		blob = c.Bytes("sig-rsa", 0, 256)
	case kf.ECDSA256, kf.ECDSA384, kf.ECDSA521, kf.SKECDSA:
		r := new(big.Int).SetBytes(c.Bytes("sig-r", 0, 32))
		s := new(big.Int).SetBytes(append([]byte{0x80}, c.Bytes("sig-s", 0, 31)...))
		blob = append(sshwire.EncodeMpint(r), sshwire.EncodeMpint(s)...)
	case kf.ED25519, kf.SKED25519:
		blob = c.Bytes("sig-ed", 0, 64)
	case kf.DSA:
		blob = c.Bytes("sig-dsa", 0, 40)
	}
	if format == kf.SKECDSA || format == kf.SKED25519 {
		rest = []byte{0x01, 0, 0, 0, 42}
	}
	out := append(sshwire.EncodeString([]byte(format)), sshwire.EncodeString(blob)...)
	return append(out, rest...)
}

type certVariant struct {
	name string
	c    kf.Cert
}

func certVariants(c *vf.Ctx) []certVariant {
	nonce := c.Bytes("nonce", 0, 32)
	full := kf.Cert{Nonce: nonce, Serial: 7, CertType: 1, KeyID: "user key", Principals: []string{"alice", "bob", "carol"},
		ValidAfter: 0x5e0be100, ValidBefore: 0x70dbd880,
		CriticalOptions: []kf.Option{{Name: "force-command", Value: "echo \"hi\", there"}, {Name: "source-address", Value: "192.0.2.0/24,2001:db8::/32"}},
		Extensions:      []kf.Option{{Name: "permit-X11-forwarding"}, {Name: "permit-agent-forwarding"}, {Name: "permit-port-forwarding"}, {Name: "permit-pty"}, {Name: "permit-user-rc"}}}
	minimal := kf.Cert{Nonce: []byte{}, CertType: 2, ValidBefore: 0xffffffffffffffff}
	extreme := kf.Cert{Nonce: c.Bytes("nonce", 1, 16), Serial: 0xffffffffffffffff, CertType: 2, KeyID: "", Principals: []string{"host.example.com"},
		ValidAfter: 0xffffffffffffffff, ValidBefore: 0, Extensions: []kf.Option{{Name: "custom@example.com", Value: "v"}}, Reserved: []byte{}}
	oneEach := kf.Cert{Nonce: nonce, Serial: 1 << 32, CertType: 1, KeyID: "k", Principals: []string{""}, ValidAfter: 1, ValidBefore: 2,
		CriticalOptions: []kf.Option{{Name: "verify-required"}}, Extensions: []kf.Option{{Name: "a", Value: "1"}, {Name: "b"}}}
	return []certVariant{{"full", full}, {"minimal", minimal}, {"extreme", extreme}, {"one-each", oneEach}}
}

// buildCerts: every representative plain key x every CA format/signature algorithm x
// field variants (all variants with an Ed25519 CA, the "full" variant with every CA).
func buildCerts(c *vf.Ctx, keys []*testKey) []*testKey {
	var reps []*testKey
	byType := map[string]*testKey{}
	for _, k := range keys {
		if k.rep {
			reps = append(reps, k)
			byType[k.ref.Type] = k
		}
	}
	type ca struct {
		key    *testKey
		format string
	}
	cas := []ca{{caKey, kf.ED25519}, {byType[kf.RSA], "ssh-rsa"}, {byType[kf.RSA], "rsa-sha2-256"}, {byType[kf.RSA], "rsa-sha2-512"},
		{byType[kf.ECDSA256], kf.ECDSA256}, {byType[kf.ECDSA384], kf.ECDSA384}, {byType[kf.ECDSA521], kf.ECDSA521}, {byType[kf.DSA], kf.DSA},
		{byType[kf.SKECDSA], kf.SKECDSA}, {byType[kf.SKED25519], kf.SKED25519}}
	var out []*testKey
	for _, k := range reps {
		for ci, a := range cas {
			for vi, v := range certVariants(c) {
				if ci != 0 && vi != 0 {
					continue
				}
				cert := v.c
				cert.SignatureKey = a.key.blob
				cert.Signature = signature(c, a.format)
				ref := *k.ref
				ref.Type = kf.CertType(k.ref.Type)
				ref.Cert = &cert
				if ci == 0 {
					// a real CA signature (OpenSSH verifies it when it loads a certificate)
					sig := ed25519.Sign(caPriv, kf.SignedBytes(&ref))
					cert.Signature = append(sshwire.EncodeString([]byte(kf.ED25519)), sshwire.EncodeString(sig)...)
				}
				out = append(out, &testKey{name: fmt.Sprintf("cert[%s]/ca=%s/%s", k.name, a.format, v.name), ref: &ref, blob: kf.Encode(&ref), rep: ci == 0 && vi == 0, signed: ci == 0})
			}
		}
	}
	// every edge key (leading-zero coordinate or key bytes, mpint at a pad-byte boundary)
	// certified by the Ed25519 CA (genuine signature), and used as the CA key of a certificate
	full := certVariants(c)[0]
	caFormat := func(t string) string {
		if t == kf.RSA {
			return "rsa-sha2-512"
		}
		return t
	}
	for _, k := range keys {
		if !k.edge {
			continue
		}
		cert := full.c
		cert.SignatureKey = caKey.blob
		ref := *k.ref
		ref.Type = kf.CertType(k.ref.Type)
		ref.Cert = &cert
		sig := ed25519.Sign(caPriv, kf.SignedBytes(&ref))
		cert.Signature = append(sshwire.EncodeString([]byte(kf.ED25519)), sshwire.EncodeString(sig)...)
		out = append(out, &testKey{name: fmt.Sprintf("cert[%s]/ca=%s/full", k.name, kf.ED25519), ref: &ref, blob: kf.Encode(&ref), signed: true, edge: true})

		cert2 := full.c
		cert2.SignatureKey = k.blob
		cert2.Signature = signature(c, caFormat(k.ref.Type))
		sub := byType[kf.ED25519]
		ref2 := *sub.ref
		ref2.Type = kf.CertType(sub.ref.Type)
		ref2.Cert = &cert2
		out = append(out, &testKey{name: fmt.Sprintf("cert[%s]/ca-key=%s/full", sub.name, k.name), ref: &ref2, blob: kf.Encode(&ref2), edge: true})
	}
	return out
}
