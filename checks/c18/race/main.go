package main

import (
	"bytes"
	"crypto/sha256"
	"crypto/sha512"
	"fmt"
	"io"
	"sync"

	"golang.org/x/crypto/hkdf"
	"golang.org/x/crypto/pbkdf2"
)

func compute(g, i int) [][]byte {
	secret, salt, info := []byte(fmt.Sprint("secret", g, i)), []byte(fmt.Sprint("salt", i)), []byte(fmt.Sprint("info", g))
	o1 := make([]byte, 100+i)
	io.ReadFull(hkdf.New(sha256.New, secret, salt, info), o1)
	prk := hkdf.Extract(sha512.New, secret, salt)
	o2 := make([]byte, 70)
	io.ReadFull(hkdf.Expand(sha512.New, prk, info), o2)
	o3 := pbkdf2.Key(secret, salt, 3+i%4, 50+g, sha256.New)
	return [][]byte{o1, prk, o2, o3}
}

func main() {
	const G, N = 4, 40
	want := make([][][][]byte, G)
	for g := 0; g < G; g++ {
		for i := 0; i < N; i++ {
			want[g] = append(want[g], compute(g, i))
		}
	}
	var wg sync.WaitGroup
	var mu sync.Mutex
	bad := ""
	for g := 0; g < G; g++ {
		wg.Add(1)
		go func(g int) {
			defer wg.Done()
			for i := 0; i < N; i++ {
				got := compute(g, i)
				for k := range got {
					if !bytes.Equal(got[k], want[g][i][k]) {
						mu.Lock()
						if bad == "" {
							bad = fmt.Sprintf("goroutine %d call %d result %d differs from the same call made alone", g, i, k)
						}
						mu.Unlock()
						return
					}
				}
			}
		}(g)
	}
	wg.Wait()
	if bad != "" {
		fmt.Println("COMPANION-MISMATCH:", bad)
	}
	fmt.Println("race companion: rounds completed:", 1)
}
